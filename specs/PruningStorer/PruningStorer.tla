---------------------------- MODULE PruningStorer ----------------------------
(***************************************************************************)
(* storage/pruning.PruningStorer (pruning enabled): one persister per      *)
(* epoch, a window of active (searched) persisters, older ones closed but  *)
(* retained, the oldest dropped from the epoch map, an LRU cache in front. *)
(*                                                                          *)
(* State (as in the code):                                                  *)
(*   db      : epoch -> key -> value     content of the persister of an    *)
(*                                       epoch (survives close / reopen)   *)
(*   open    : set of epochs             persisterData.isClosed = false    *)
(*   mapped  : set of epochs             keys of persistersMapByEpoch      *)
(*   active  : Seq(epoch)                activePersisters, newest first    *)
(*   cache   : key -> value              cacher                            *)
(*   putEpoch                            epochForPutOperation              *)
(*   prep    : -1 or oldest epoch        epochPrepareHdr (-1 = the default *)
(*                                       header, "no shard is stuck")      *)
(*   nA, nK, clean                       NumOfActivePersisters,            *)
(*                                       NumOfEpochsToKeep, ShouldClean()  *)
(* Ghost variables (the property's bookkeeping, never read by an action's  *)
(* functional part):                                                        *)
(*   live : key -> set of [v, e]   successful puts not removed/overwritten *)
(*   cand : key -> set of values   values a plain read may legitimately    *)
(*                                 return for the newest put               *)
(*   rem  : key -> [on, eps]       key removed; eps = epochs it has been   *)
(*                                 removed from / that never contained it  *)
(*                                                                          *)
(* Actions follow pruningStorer.go branch by branch.  Two deviations of the *)
(* code from the property are named and guarded by KnownDefects:           *)
(*   "remove-first-only" Remove stops at the first active persister whose   *)
(*                       Remove succeeds (= the newest)                    *)
(*   "get-window"        Get looks only at the first NumOfActivePersisters  *)
(*                       entries of activePersisters, ignoring persisters   *)
(*                       kept active for a stuck shard                     *)
(* Epoch numbers advance by one (or repeat the current one); under this     *)
(* assumption persistersMapByEpoch[e] is the persister created for e.       *)
(***************************************************************************)
EXTENDS Integers, Sequences, FiniteSets, TLC

CONSTANTS Keys, Vals, MaxEpoch,
          PrepEpochs,    \* oldest-epoch values offered to EpochStartPrepare
          ActiveNums,    \* candidate NumOfActivePersisters
          KeepNums,      \* candidate NumOfEpochsToKeep
          KnownDefects,
          Log(_, _)

VARIABLES db, open, mapped, active, cache, putEpoch, prep, nA, nK, clean,
          shut,          \* Close() was called: the storer is shut down, only reads are still issued
          live, cand, rem, hist

cvars == <<db, open, mapped, active, cache, putEpoch, prep, nA, nK, clean, shut, live, cand, rem>>
vars  == <<db, open, mapped, active, cache, putEpoch, prep, nA, nK, clean, shut, live, cand, rem, hist>>
cfgv  == <<nA, nK, clean>>

Range(q) == {q[i] : i \in 1..Len(q)}
Min(a, b) == IF a < b THEN a ELSE b
MinSet(S) == CHOOSE x \in S : \A y \in S : x <= y
Drop(f, S) == [x \in (DOMAIN f) \ S |-> f[x]]
Upd(f, x, v) == [y \in (DOMAIN f) \cup {x} |-> IF y = x THEN v ELSE f[y]]
Val(f, x, d) == IF x \in DOMAIN f THEN f[x] ELSE d

ActiveSet == Range(active)
Newest == active[1]
HasKey(e, k) == e \in DOMAIN db /\ k \in DOMAIN db[e]
Readable(e, k) == e \in open /\ HasKey(e, k)       \* a closed persister answers every call with an error

\* first epoch of sequence q whose (open) persister has k, or -1
FirstWith(q, k) ==
    LET I == {i \in 1..Len(q) : Readable(q[i], k)} IN IF I = {} THEN -1 ELSE q[MinSet(I)]

Miss == [ok |-> FALSE, v |-> 0]
Hit(v) == [ok |-> TRUE, v |-> v]

\* ---- what the read calls answer in the current state (functional part of the specification)
GetWindow == IF "get-window" \in KnownDefects THEN SubSeq(active, 1, Min(nA, Len(active))) ELSE active
FromPersisters(q, k) == LET e == FirstWith(q, k) IN IF e = -1 THEN Miss ELSE Hit(db[e][k])
GetRes(k) == IF k \in DOMAIN cache THEN Hit(cache[k]) ELSE FromPersisters(GetWindow, k)
SearchRes(k) == IF k \in DOMAIN cache THEN Hit(cache[k]) ELSE FromPersisters(active, k)
HasRes(k) == k \in DOMAIN cache \/ FirstWith(active, k) # -1
\* GetFromEpoch re-opens a closed persister for the duration of the call
EpochOnly(k, e) == IF e \in mapped /\ HasKey(e, k) THEN Hit(db[e][k]) ELSE Miss
GfeRes(k, e) == IF k \in DOMAIN cache THEN Hit(cache[k]) ELSE EpochOnly(k, e)

\* ---- projected state: what the harness reads from the real storer after every call.
\* Raw state + the answers of the reads that do not change the abstract state (Has, SearchFirst, GetFromEpoch) for
\* every key seen so far and every epoch up to one beyond the newest persister.  (Get fills the cache, so its
\* answers are observed only where a behaviour / trace calls it.)
KeysSeen == UNION {DOMAIN db[e] : e \in DOMAIN db} \cup DOMAIN cache \cup DOMAIN live \cup DOMAIN rem
MaxSet(S) == CHOOSE x \in S : \A y \in S : y <= x
ProbeEpochs == 0..(MaxSet(DOMAIN db) + 1)
StNow ==
    [active |-> active, mapped |-> mapped,
     \* open: only persisters still reachable from the epoch map or the active list are visible (and matter)
     open |-> open \cap (mapped \cup Range(active)),
     putEpoch |-> putEpoch,
     cache |-> {[k |-> k, v |-> cache[k]] : k \in DOMAIN cache},
     db |-> {[e |-> ek[1], k |-> ek[2], v |-> db[ek[1]][ek[2]]] :
                ek \in {x \in (DOMAIN db) \X KeysSeen : x[2] \in DOMAIN db[x[1]]}},
     epochs |-> DOMAIN db,
     has |-> {k \in KeysSeen : HasRes(k)},
     sf  |-> {[k |-> k, v |-> SearchRes(k).v] : k \in {x \in KeysSeen : SearchRes(x).ok}},
     gfe |-> {[k |-> ke[1], e |-> ke[2], v |-> GfeRes(ke[1], ke[2]).v] :
                ke \in {x \in KeysSeen \X ProbeEpochs : GfeRes(x[1], x[2]).ok}}]
Rec(a, in, out) == [a |-> a, in |-> in, out |-> out, st |-> StNow']

\* ---- ghost updates
LiveOf(k) == Val(live, k, {})
CandOf(k) == Val(cand, k, {})
RemOf(k)  == Val(rem, k, [on |-> FALSE, eps |-> {}])
\* a put of (k, v) that reached the persister of epoch e
GhostPutOk(k, v, e) ==
    /\ live' = Upd(live, k, {p \in LiveOf(k) : p.e # e} \cup {[v |-> v, e |-> e]})
    /\ cand' = Upd(cand, k, {v})
    /\ rem'  = Upd(rem, k, [on |-> FALSE, eps |-> {}])
\* a put attempt that failed after touching the cache
GhostPutFailed(k, v) ==
    /\ live' = live
    /\ cand' = Upd(cand, k, CandOf(k) \cup {v})
    /\ rem'  = Upd(rem, k, [on |-> FALSE, eps |-> {}])
GhostSame == UNCHANGED <<live, cand, rem>>
GhostPut(k, v, e, good) == IF good THEN GhostPutOk(k, v, e) ELSE GhostPutFailed(k, v)

Init ==
    /\ nA \in ActiveNums /\ nK \in KeepNums /\ nK >= nA /\ clean \in BOOLEAN
    /\ db = (0 :> <<>>) /\ open = {0} /\ mapped = {0} /\ active = <<0>>
    /\ cache = <<>> /\ putEpoch = 0 /\ prep = -1 /\ shut = FALSE
    /\ live = <<>> /\ cand = <<>> /\ rem = <<>>
    /\ hist = <<[a |-> "New", in |-> [nA |-> nA, nK |-> nK, clean |-> clean], out |-> [x |-> 0], st |-> StNow]>>

Static == UNCHANGED <<cfgv, shut>>

\* PruningStorer.Put
\* where Put writes: the persister of the put-epoch when that epoch is retained and open, else the newest active one
PutLanding == IF putEpoch \in mapped /\ putEpoch \in open THEN putEpoch ELSE Newest
Put(k, v) ==
    LET L == PutLanding
        good == L \in open
    IN /\ db' = IF good THEN [db EXCEPT ![L] = Upd(@, k, v)] ELSE db
       /\ cache' = IF good THEN Upd(cache, k, v) ELSE Drop(cache, {k})   \* a failed Put removes the key from the cache
       /\ UNCHANGED <<open, mapped, active, putEpoch, prep>> /\ Static
       /\ GhostPut(k, v, L, good)
       /\ hist' = Log(hist, Rec("Put", [k |-> k, v |-> v], [ok |-> good]))

\* PruningStorer.PutInEpoch: cache first, then the persister of that epoch (re-opened for the call if closed)
PutInEpoch(k, v, e) ==
    LET good == e \in mapped IN
    /\ cache' = Upd(cache, k, v)
    /\ db' = IF good THEN [db EXCEPT ![e] = Upd(@, k, v)] ELSE db
    /\ UNCHANGED <<open, mapped, active, putEpoch, prep>> /\ Static
    /\ GhostPut(k, v, e, good)
    /\ hist' = Log(hist, Rec("PutInEpoch", [k |-> k, v |-> v, e |-> e], [ok |-> good]))

\* PruningStorer.Get: a hit in a persister fills the cache
Get(k) ==
    LET r == GetRes(k) IN
    /\ cache' = IF r.ok THEN Upd(cache, k, r.v) ELSE cache
    /\ UNCHANGED <<db, open, mapped, active, putEpoch, prep>> /\ Static /\ GhostSame
    /\ hist' = Log(hist, Rec("Get", [k |-> k], r))

GetFromEpoch(k, e) ==
    /\ UNCHANGED cvars
    /\ hist' = Log(hist, Rec("GetFromEpoch", [k |-> k, e |-> e], GfeRes(k, e)))

\* GetBulkFromEpoch(all keys of the universe, e): error when the epoch is not retained, else the found pairs
GetBulkFromEpoch(ks, e) ==
    /\ UNCHANGED cvars
    /\ hist' = Log(hist, Rec("GetBulkFromEpoch", [ks |-> ks, e |-> e],
                             [ok |-> e \in mapped,
                              kv |-> IF e \in mapped
                                     THEN {[k |-> k, v |-> GfeRes(k, e).v] : k \in {x \in ks : GfeRes(x, e).ok}}
                                     ELSE {}]))

SearchFirst(k) ==
    /\ UNCHANGED cvars
    /\ hist' = Log(hist, Rec("SearchFirst", [k |-> k], SearchRes(k)))

Has(k) ==
    /\ UNCHANGED cvars
    /\ hist' = Log(hist, Rec("Has", [k |-> k], [ok |-> HasRes(k)]))

\* PruningStorer.Remove
OpenActive == SelectSeq(active, LAMBDA e : e \in open)
GhostRemove(k, good) ==
    IF good
    THEN /\ live' = Upd(live, k, {}) /\ cand' = Upd(cand, k, {})
         \* the property's demand: gone from EVERY active (open) epoch
         /\ rem' = Upd(rem, k, [on |-> TRUE, eps |-> Range(OpenActive)])
    ELSE GhostSame
Remove(k) ==
    LET targets == IF OpenActive = <<>> THEN {}
                   ELSE IF "remove-first-only" \in KnownDefects THEN {OpenActive[1]} ELSE Range(OpenActive)
        good == OpenActive # <<>>
    IN /\ cache' = Drop(cache, {k})
       /\ db' = [e \in DOMAIN db |-> IF e \in targets THEN Drop(db[e], {k}) ELSE db[e]]
       /\ UNCHANGED <<open, mapped, active, putEpoch, prep>> /\ Static
       /\ GhostRemove(k, good)
       /\ hist' = Log(hist, Rec("Remove", [k |-> k], [ok |-> good]))

ClearCache ==
    /\ cache' = <<>>
    /\ UNCHANGED <<db, open, mapped, active, putEpoch, prep>> /\ Static /\ GhostSame
    /\ hist' = Log(hist, Rec("ClearCache", [x |-> 0], [x |-> 0]))

SetEpochForPut(e) ==
    /\ putEpoch' = e
    /\ UNCHANGED <<db, open, mapped, active, cache, prep>> /\ Static /\ GhostSame
    /\ hist' = Log(hist, Rec("SetEpochForPut", [e |-> e], [x |-> 0]))

\* EpochStartPrepare(metablock whose oldest epoch among itself and the last finalized shard headers is o)
Prepare(o) ==
    /\ prep' = o
    /\ UNCHANGED <<db, open, mapped, active, cache, putEpoch>> /\ Static /\ GhostSame
    /\ hist' = Log(hist, Rec("Prepare", [o |-> o], [x |-> 0]))

\* PruningStorer.Close: closes the active persisters
Close ==
    /\ open' = open \ ActiveSet /\ shut' = TRUE
    /\ UNCHANGED <<db, mapped, active, cache, putEpoch, prep, cfgv>> /\ GhostSame
    /\ hist' = Log(hist, Rec("Close", [x |-> 0], [x |-> 0]))

\* ---- changeEpoch
Desc(hi, lo) == [i \in 1..(hi - lo + 1) |-> hi - i + 1]      \* <<hi, hi-1, ..., lo>>

\* changeEpochWithExisting: the window of nA epochs ending at e becomes the active list when all are retained.
\* A closed member stays closed (the re-created persister is dropped by the code).
WithExisting(e) ==
    LET lo == IF e - nA + 1 < 0 THEN 0 ELSE e - nA + 1
        all == \A x \in lo..e : x \in mapped
    IN /\ active' = IF all THEN Desc(e, lo) ELSE active
       /\ UNCHANGED <<db, open, mapped>>

\* extendActivePersisters(from, to) on the list act: the closed retained epochs to, to-1, .., from are re-opened and
\* appended; if one of them is not retained nothing happens (and the caller still skips closing)
ExtendResult(act, from, to) ==
    LET all == \A x \in from..to : x \in mapped
        re == SelectSeq(Desc(to, from), LAMBDA x : x \notin open)
    IN IF all THEN [act |-> act \o re, opened |-> Range(re)] ELSE [act |-> act, opened |-> {}]

\* closePersisters(e) on the list act
CloseResult(act, e, mp, op) ==
    LET over == nA < Len(act)
        victim == act[nA + 1]                      \* only the first surplus persister is closed; the others are
        act2 == IF over THEN SubSeq(act, 1, nA) ELSE act   \* dropped from the list and stay open
        op2 == IF over THEN op \ {victim} ELSE op
        doClean == clean /\ Cardinality(mp) > nK /\ e - nK >= 0
        \* delete e-nK, e-nK-1, ... while present
        run == {x \in 0..(e - nK) : \A y \in x..(e - nK) : y \in mp}
        mp2 == IF doClean THEN mp \ run ELSE mp
    IN [act |-> act2, open |-> op2, mapped |-> mp2]

\* a brand-new epoch contains no key: it counts as "removed from" for every removed key
GhostChangeEpoch(e) ==
    /\ rem' = IF e \in DOMAIN db THEN rem
              ELSE [k \in DOMAIN rem |-> IF rem[k].on THEN [on |-> TRUE, eps |-> rem[k].eps \cup {e}] ELSE rem[k]]
    /\ UNCHANGED <<live, cand>>

\* EpochStartAction(header of epoch e); ho = -1: shard header (the prepared metablock decides about stuck shards),
\* ho >= 0: a metablock whose own oldest epoch (itself / last finalized headers) is ho
ChangeEpoch(e, ho) ==
    /\ IF e \in mapped
       THEN WithExisting(e)
       ELSE LET act1 == <<e>> \o active
                mp1 == mapped \cup {e}
                op1 == open \cup {e}
                oldest == IF ho >= 0 THEN ho ELSE prep
                oldestCur == act1[Len(act1)]
                extend == oldest >= 0 /\ oldest <= oldestCur /\ oldest <= e /\ e - oldest < 5
                X == ExtendResult(act1, oldest, oldestCur)
                C == CloseResult(act1, e, mp1, op1)
            IN /\ db' = IF e \in DOMAIN db THEN db ELSE Upd(db, e, <<>>)
               /\ IF extend
                  THEN active' = X.act /\ open' = op1 \cup X.opened /\ mapped' = mp1
                  ELSE active' = C.act /\ open' = C.open /\ mapped' = C.mapped
    /\ UNCHANGED <<cache, putEpoch, prep>> /\ Static
    /\ GhostChangeEpoch(e)
    /\ hist' = Log(hist, Rec("ChangeEpoch", [e |-> e, ho |-> ho], [x |-> 0]))

Reads ==
    \/ \E k \in Keys : Get(k) \/ SearchFirst(k) \/ Has(k) \/ (\E e \in 0..MaxEpoch : GetFromEpoch(k, e))
    \/ \E e \in 0..MaxEpoch : GetBulkFromEpoch(Keys, e)
    \/ ClearCache
Writes ==
    \/ \E k \in Keys, v \in Vals : Put(k, v) \/ (\E e \in 0..MaxEpoch : PutInEpoch(k, v, e))
    \/ \E k \in Keys : Remove(k)
    \/ \E e \in 0..MaxEpoch : SetEpochForPut(e)
    \/ Close
    \/ \E o \in PrepEpochs : Prepare(o)
    \/ \E e \in {Newest, Newest + 1}, ho \in (-1)..MaxEpoch : e <= MaxEpoch /\ ho <= e /\ ChangeEpoch(e, ho)
Next == Reads \/ (~shut /\ Writes)

Spec == Init /\ [][Next]_vars

-----------------------------------------------------------------------------
(* C30 *)
\* the active epochs ("newest-first open persisters"); after Close() the storer is shut down and promises nothing
OpenActiveSet == IF shut THEN {} ELSE ActiveSet

\* (1) a value put into epoch e stays readable through plain reads while e is among the active (open) epochs
Inv_C30_ReadableWhileActive ==
    \A k \in DOMAIN live : \A p \in live[k] :
        p.e \in OpenActiveSet => GetRes(k).ok /\ SearchRes(k).ok /\ HasRes(k)

\* ... and the newest put is what a plain read returns, unless a newer active epoch still holds the key
\* (reads go newest-first; a put into an older epoch is shadowed by design)
NewestLive(k) == CHOOSE p \in live[k] : \A q \in live[k] : q.e <= p.e
Inv_C30_ReadsNewestValue ==
    \A k \in DOMAIN live :
        live[k] # {} =>
            LET p == NewestLive(k) IN
            (p.e \in OpenActiveSet /\ (\A e \in OpenActiveSet : e > p.e => ~HasKey(e, k)))
            => (GetRes(k).ok => GetRes(k).v \in CandOf(k) \cup {p.v})
               /\ (SearchRes(k).ok => SearchRes(k).v \in CandOf(k) \cup {p.v})

\* (2) ... and through epoch-specific reads while e is retained (cache aside: the persister of e has the value)
Inv_C30_ReadableWhileRetained ==
    \A k \in DOMAIN live : \A p \in live[k] :
        p.e \in mapped => GfeRes(k, p.e).ok /\ EpochOnly(k, p.e) = Hit(p.v)

\* (3) after a key is removed no read returns it from any active epoch.
\* eps = the epochs that were active (open) when Remove succeeded plus the epochs created since; an older epoch
\* that is re-activated later for a stuck shard is outside eps (Remove cannot reach a closed persister).
\* The cache is set aside: it may hold a copy read earlier from such a re-activated epoch.
Inv_C30_RemovedUnreadable ==
    \A k \in DOMAIN rem :
        rem[k].on =>
            /\ \A e \in rem[k].eps \cap OpenActiveSet : ~HasKey(e, k)
            /\ (OpenActiveSet # {} /\ OpenActiveSet \subseteq rem[k].eps /\ k \notin DOMAIN cache)
                  => ~GetRes(k).ok /\ ~SearchRes(k).ok /\ ~HasRes(k)
                     /\ \A e \in OpenActiveSet : ~GfeRes(k, e).ok

\* the answer recorded by the last call obeys the same three clauses (binds the real answers in trace validation)
Last == hist[Len(hist)]
LiveActive(k) == \E p \in LiveOf(k) : p.e \in OpenActiveSet
RemovedEverywhere(k) ==
    RemOf(k).on /\ OpenActiveSet # {} /\ OpenActiveSet \subseteq RemOf(k).eps /\ k \notin DOMAIN cache
Inv_C30_Answers ==
    hist = <<>> \/
    CASE Last.a = "Get" -> LiveActive(Last.in.k) => Last.out.ok
      [] Last.a \in {"SearchFirst", "Has"} ->          \* these two do not touch the cache
            /\ LiveActive(Last.in.k) => Last.out.ok
            /\ RemovedEverywhere(Last.in.k) => ~Last.out.ok
      [] Last.a = "GetFromEpoch" ->
            /\ (\E p \in LiveOf(Last.in.k) : p.e = Last.in.e /\ p.e \in mapped) => Last.out.ok
            /\ (RemovedEverywhere(Last.in.k) /\ Last.in.e \in OpenActiveSet) => ~Last.out.ok
      [] Last.a = "GetBulkFromEpoch" ->
            \A k \in Last.in.ks :
                (\E p \in LiveOf(k) : p.e = Last.in.e /\ p.e \in mapped)
                    => Last.out.ok /\ \E r \in Last.out.kv : r.k = k
      [] Last.a = "Remove" -> Last.out.ok => Last.in.k \notin DOMAIN cache    \* a removed key leaves the cache too
      [] OTHER -> TRUE

\* the same three clauses on the read answers recorded in the projected state (in trace validation these are the
\* answers the real storer gave after the last call) ...
Obs == Last.st
Inv_C30_ObservedReads ==
    hist = <<>> \/
    /\ \A k \in DOMAIN live : \A p \in live[k] :
          /\ p.e \in OpenActiveSet => k \in Obs.has /\ (\E r \in Obs.sf : r.k = k)
          /\ p.e \in mapped => \E r \in Obs.gfe : r.k = k /\ r.e = p.e
    /\ \A k \in DOMAIN rem :
          RemovedEverywhere(k) =>
              /\ k \notin Obs.has /\ ~(\E r \in Obs.sf : r.k = k)
              /\ ~(\E r \in Obs.gfe : r.k = k /\ r.e \in OpenActiveSet)
\* ... and on the persister contents: a retained epoch still holds what was put into it, and an active epoch a key
\* was removed from does not hold it
Inv_C30_PersisterContents ==
    /\ \A k \in DOMAIN live : \A p \in live[k] : p.e \in mapped => EpochOnly(k, p.e) = Hit(p.v)
    /\ \A k \in DOMAIN rem : rem[k].on => \A e \in rem[k].eps \cap OpenActiveSet : ~HasKey(e, k)

TypeOK ==
    /\ mapped \subseteq DOMAIN db /\ open \subseteq DOMAIN db /\ ActiveSet \subseteq DOMAIN db
    /\ active # <<>>
    /\ \A i, j \in 1..Len(active) : i < j => active[i] > active[j]
    \* persistersMapByEpoch[e] is the persister of e: the persister closed by closePersisters is the one of e - nA
    /\ Len(active) > nA => active[nA + 1] = active[1] - nA
    \* until Close() every active persister is open
    /\ ~shut => ActiveSet \subseteq open
=============================================================================
