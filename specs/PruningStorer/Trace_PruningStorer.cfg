SPECIFICATION TraceSpec
CONSTANTS
  Keys = {}
  Vals = {}
  MaxEpoch = 0
  PrepEpochs = {}
  ActiveNums = {}
  KeepNums = {}
  KnownDefects = {"remove-first-only", "get-window"}
  Log <- LogLast
CONSTRAINT HighWater
INVARIANTS Inv_C30_Answers Inv_C30_ObservedReads Inv_C30_PersisterContents
POSTCONDITION Accepted
CHECK_DEADLOCK FALSE
