---- MODULE MC_PruningStorer ----
EXTENDS PruningStorer, Json
CONSTANT Depth
LogAppend(h, r) == Append(h, r)
LogLast(h, r) == <<r>>
GenNext  == Len(hist) < Depth /\ Next
GenSpec  == Init /\ [][GenNext]_vars
EmitEdge == PrintT("@@B " \o ToJson(hist'))
EmitFull == (Len(hist') = Depth) => PrintT("@@B " \o ToJson(hist'))
\* witnesses of a named deviation: every transition (within Depth calls) into a state where a C30 invariant is
\* false, exported as a behaviour; exploration does not continue beyond such a state
AllInv == /\ Inv_C30_ReadableWhileActive /\ Inv_C30_ReadsNewestValue /\ Inv_C30_ReadableWhileRetained
          /\ Inv_C30_RemovedUnreadable /\ Inv_C30_Answers /\ Inv_C30_ObservedReads /\ Inv_C30_PersisterContents
WitNext  == Len(hist) < Depth /\ AllInv /\ Next
WitSpec  == Init /\ [][WitNext]_vars
EmitBad  == (~AllInv') => PrintT("@@B " \o ToJson(hist'))
\* R1 bound: number of calls (the state graph itself is finite but large)
DepthSpec == Init /\ [][Len(hist) < Depth /\ Next]_vars
====
