---- MODULE MC_PruningStorer ----
EXTENDS PruningStorer, Json
CONSTANT Depth
LogAppend(h, r) == Append(h, r)
LogLast(h, r) == <<r>>
GenNext  == Len(hist) < Depth /\ Next
GenSpec  == Init /\ [][GenNext]_vars
EmitEdge == PrintT("@@B " \o ToJson(hist'))
EmitFull == (Len(hist') = Depth) => PrintT("@@B " \o ToJson(hist'))
\* R1 bound: number of calls (the state graph itself is finite but large)
DepthSpec == Init /\ [][Len(hist) < Depth /\ Next]_vars
====
