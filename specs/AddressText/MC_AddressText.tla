---- MODULE MC_AddressText ----
EXTENDS AddressText, Json
LogAppend(h, r) == Append(h, r)
LogLast(h, r) == <<r>>
Emit == PrintT("@@B " \o ToJson(hist'))
MCDeltas == {-2, -1, 0, 1, 2}
MCDeltasWide == {-5, -2, -1, 0, 1, 2, 5}
MCLensQuick == {0, 1, 2, 5, 10, 28, 32, 50, 52, 64}
MCLensAll == 0..66
====
