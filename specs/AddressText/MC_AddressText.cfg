SPECIFICATION Spec
CONSTANTS
  Lens <- MCLensQuick
  Deltas <- MCDeltas
  Defects = {}
  Log <- LogLast
INVARIANTS Inv_C48_DecodeAsRequired
CHECK_DEADLOCK FALSE
