----------------------------- MODULE AddressText -----------------------------
(***************************************************************************)
(* core/pubkeyConverter: bech32PubkeyConverter and hexPubkeyConverter       *)
(* (property C48).  Thin relation model: an input is a converter            *)
(* configuration (kind, configured length) and an ABSTRACT text -- the      *)
(* class of a text string, described by what is wrong with it.  Two         *)
(* verdicts are computed for every class:                                   *)
(*   AsCoded   what Decode does, check by check, in the order of the code   *)
(*             (bech32 library, prefix, bit conversion, length)             *)
(*   Required  what C48 demands: the canonical text of an address of the    *)
(*             configured length decodes to the same bytes; a different     *)
(*             prefix, a bad checksum, a different decoded length are       *)
(*             rejected; everything else (upper case, mixed case, padding   *)
(*             bits, foreign characters ...) is "unspecified"               *)
(* C48 (R1): AsCoded agrees with Required wherever Required is specified.   *)
(* The harness concretises every class with the bech32 library / hex and    *)
(* runs the real converters (R2).                                           *)
(*                                                                          *)
(* Named deviation of the code as it is (Defects):                          *)
(*   "bip173"  NewBech32PubkeyConverter accepts configured lengths whose    *)
(*             text is longer than 90 characters (> 50 bytes); the bech32   *)
(*             library refuses to decode such texts, so Encode/Decode does  *)
(*             not round-trip for those configurations                      *)
(***************************************************************************)
EXTENDS Integers, Sequences, FiniteSets, TLC

CONSTANTS Lens,        \* configured lengths to try (incl. odd / zero: the constructors refuse them)
          Deltas,      \* decoded payload length of the text = configured length + delta
          Defects,
          Log(_, _)

VARIABLES kind, len, txt, hist
vars  == <<kind, len, txt, hist>>
cvars == <<kind, len, txt>>

Prefix == "erd"
MaxBech32Chars == 90

\* human-readable parts: the expected one, an unrelated one, and the near misses -- proper extensions of the expected
\* prefix ("erdt", "erdtest", "erd1": the text then reads erd11..., the LAST 1 is the separator), proper prefixes of it
\* ("er", "e"), same length with one character changed ("erx"), none at all ("empty": the text starts with the separator)
Hrps == {"erd", "other", "erdt", "erdtest", "erd1", "er", "e", "erx", "empty"}
NearMissHrps == Hrps \ {"erd", "other"}
HrpLen(h) == CASE h = "erd" -> 3 [] h = "other" -> 5 [] h = "erdt" -> 4 [] h = "erdtest" -> 7 [] h = "erd1" -> 4
               [] h = "er" -> 2 [] h = "e" -> 1 [] h = "erx" -> 3 [] h = "empty" -> 0

\* bech32 text classes: one record field per way of being wrong (canonical value first)
Bech32Texts == [hrp : Hrps, d : Deltas, cs : {"ok", "bad"}, case : {"lower", "upper", "mixed"},
                pad : {"zero", "nonzero"}, chars : {"ok", "bad"}, sep : {"ok", "missing"}]
\* hex text classes: odd = one extra digit, pre = "0x" written in front of the digits
HexTexts == [d : Deltas, odd : BOOLEAN, case : {"lower", "upper", "mixed"}, chars : {"ok", "bad"}, pre : {"none", "0x"}]

Groups(n) == (8 * n + 4) \div 5                       \* 5-bit groups of n bytes (padded)
PadBits(n) == 5 * Groups(n) - 8 * n                   \* 0..4 padding bits in the last group
Bech32Chars(t, n) == HrpLen(t.hrp) + (IF t.sep = "ok" THEN 1 ELSE 0) + Groups(n) + 6

\* the texts that can be built: payload length >= 0; non-zero padding needs padding bits; mixed case needs two letters
WellFormed(k, l, t) ==
    /\ l + t.d >= 0
    /\ k = "bech32" => (t.pad = "nonzero" => PadBits(l + t.d) > 0)
    \* the near-miss prefixes are combined with every payload length and letter case, but are otherwise well formed
    \* (valid checksum for THAT prefix, zero padding, charset, separator): the prefix is then the only thing wrong
    /\ k = "bech32" => (t.hrp \in NearMissHrps => (t.cs = "ok" /\ t.pad = "zero" /\ t.chars = "ok" /\ t.sep = "ok"))
    /\ k = "hex" => ((t.case # "lower" \/ t.chars = "bad") => (l + t.d) + (IF t.odd THEN 1 ELSE 0) > 0)

\* constructors: NewBech32PubkeyConverter / NewHexPubkeyConverter
Constructible(k, l) ==
    /\ l >= 1 /\ l % 2 = 0
    /\ (k = "bech32" /\ "bip173" \notin Defects) => 3 + 1 + Groups(l) + 6 <= MaxBech32Chars

\* bech32PubkeyConverter.Decode: bech32.Decode (length limit, character range / mixed case, separator, charset, checksum),
\* prefix, ConvertBits(5 -> 8, no padding), configured length
Bech32AsCoded(l, t) ==
    LET n == l + t.d IN
    IF Bech32Chars(t, n) > MaxBech32Chars THEN "reject:too-long"
    ELSE IF Bech32Chars(t, n) < 8 THEN "reject:too-short"
    ELSE IF t.case = "mixed" THEN "reject:mixed-case"
    ELSE IF t.sep = "missing" \/ t.hrp = "empty" THEN "reject:separator"     \* no 1, or nothing in front of it
    ELSE IF t.chars = "bad" THEN "reject:charset"
    ELSE IF t.cs = "bad" THEN "reject:checksum"
    ELSE IF t.hrp # Prefix THEN "reject:prefix"
    ELSE IF t.pad = "nonzero" THEN "reject:padding"
    ELSE IF n # l THEN "reject:length"
    ELSE "accept"

\* hexPubkeyConverter.Decode: hex.DecodeString (invalid byte, odd length), configured length
HexAsCoded(l, t) ==
    IF t.chars = "bad" \/ t.pre = "0x" THEN "reject:charset"                \* x is not a hex digit
    ELSE IF t.odd THEN "reject:odd"
    ELSE IF t.d # 0 THEN "reject:length"
    ELSE "accept"

AsCoded(k, l, t) == IF k = "bech32" THEN Bech32AsCoded(l, t) ELSE HexAsCoded(l, t)

Canonical(k, t) ==
    IF k = "bech32"
    THEN t = [hrp |-> "erd", d |-> 0, cs |-> "ok", case |-> "lower", pad |-> "zero", chars |-> "ok", sep |-> "ok"]
    ELSE t = [d |-> 0, odd |-> FALSE, case |-> "lower", chars |-> "ok", pre |-> "none"]

\* what C48 demands
Required(k, t) ==
    IF Canonical(k, t) THEN "accept"                                       \* Decode(Encode(b)) = b
    ELSE IF k = "bech32" /\ (t.hrp # Prefix \/ t.cs = "bad" \/ t.d # 0) THEN "reject"
    ELSE IF k = "hex" /\ t.pre = "none" /\ (t.d # 0 \/ t.odd) THEN "reject"   \* C48 names no prefix for hex: 0x... is unspecified
    ELSE "unspecified"

Verdict(c) == IF c = "accept" THEN "accept" ELSE "reject"

PrefixClass(h) == CASE h = "other" -> "unrelated"
                     [] h \in {"erdt", "erdtest", "erd1"} -> "extends-expected"
                     [] h \in {"er", "e"} -> "prefix-of-expected"
                     [] h = "erx" -> "one-character-differs"
                     [] h = "empty" -> "empty"
                     [] OTHER -> "none"
\* which clause of C48 speaks about the class (signature of a violation)
Why(k, l, t) ==
    IF Canonical(k, t)
    THEN IF k = "bech32" /\ Bech32Chars(t, l) > MaxBech32Chars THEN "round-trip/text-longer-than-90-characters" ELSE "round-trip"
    ELSE IF k = "bech32" /\ t.hrp # Prefix THEN "different-prefix/" \o PrefixClass(t.hrp)
    ELSE IF k = "bech32" /\ t.cs = "bad" THEN "bad-checksum"
    ELSE IF k = "hex" /\ t.pre # "none" THEN "unspecified"
    ELSE IF t.d # 0 THEN "different-decoded-length"
    ELSE IF k = "hex" /\ t.odd THEN "odd-number-of-digits"
    ELSE "unspecified"

Init ==
    /\ kind \in {"bech32", "hex"}
    /\ len \in Lens
    /\ txt \in (IF kind = "bech32" THEN Bech32Texts ELSE HexTexts)
    /\ WellFormed(kind, len, txt)
    /\ hist = <<>>

Result == [constructible |-> Constructible(kind, len),
           coded |-> AsCoded(kind, len, txt), required |-> Required(kind, txt), canonical |-> Canonical(kind, txt),
           why |-> Why(kind, len, txt)]

\* the single action: NewXPubkeyConverter(len), then Decode(text of class txt) (and Encode for the canonical class)
Decode ==
    /\ hist = <<>>
    /\ hist' = Log(hist, [a |-> "Decode", in |-> [kind |-> kind, len |-> len, txt |-> txt], out |-> Result, st |-> [x |-> 0]])
    /\ UNCHANGED cvars

Next == Decode
Spec == Init /\ [][Next]_vars

\* C48: wherever a converter of the configured length exists, its Decode does what the property demands
Inv_C48_DecodeAsRequired ==
    (Constructible(kind, len) /\ Required(kind, txt) # "unspecified") => Verdict(AsCoded(kind, len, txt)) = Required(kind, txt)
=============================================================================
