---- MODULE Trace_SigningFields ----
(* Trace validation: pairs of real transactions built by the harness (random fields, random bytes) with the   *)
(* observed answers signable (GetDataForSigning succeeded for both) and eq (the signed bytes are equal).       *)
(* Strict: the observed answers equal the specification's (this checks the UTF-8 / omitempty model against      *)
(* encoding/json byte for byte in effect); the C24 invariants are evaluated on the observed answers.            *)
EXTENDS SigningFields, Json, TLCExt
CONSTANT Strict
LogLast(h, r) == <<r>>
TLog == ndJsonDeserialize("trace.ndjson")
VARIABLE l
tvars == <<vars, l>>
Ev == TLog[l]
IsEvent(name) == l <= Len(TLog) /\ Ev.a = name /\ l' = l + 1

\* JSON arrays of numbers arrive as sequences; an empty array arrives as an empty function: normalise
Seq0(s) == IF DOMAIN s = {} THEN <<>> ELSE s
NormB(v) == [nil |-> v.nil, b |-> Seq0(v.b)]
Norm(t) == [f \in Fields |-> IF f \in ByteFields THEN NormB(t[f]) ELSE t[f]]

TraceInit == l = 1 /\ hist = <<[a |-> "New", in |-> [x |-> 0], out |-> [x |-> 0]]>>
TNew == IsEvent("New") /\ hist' = <<[a |-> "New", in |-> [x |-> 0], out |-> [x |-> 0]]>>
TPair ==
    /\ (IsEvent("Multi") \/ IsEvent("Single") \/ IsEvent("Swap"))
    /\ LET t1 == Norm(Ev.in.t1)
           t2 == Norm(Ev.in.t2)
           e  == Expected(t1, t2)
       IN  /\ Judge(Ev.a, Ev.in.d, t1, t2, [signable |-> Ev.out.signable, sem |-> e.sem, eq |-> Ev.out.eq])
           \* pairs of the known-deviation class are judged by the InvK_ invariants only
           /\ (Strict /\ PairClass(t1, t2) = "none") => (Ev.out.signable = e.signable /\ (e.signable => Ev.out.eq = e.eq))
TraceNext == TNew \/ TPair
TraceSpec == TraceInit /\ [][TraceNext]_tvars

HighWater == TLCSet(1, IF l > TLCGet(1) THEN l ELSE TLCGet(1))
Accepted  == IF TLCGet(1) = Len(TLog) + 1 THEN TRUE ELSE PrintT("@@HW " \o ToString(TLCGet(1))) /\ FALSE
ASSUME TLCSet(1, 0)
====
