---------------------------- MODULE SigningFields ----------------------------
(***************************************************************************)
(* What a sender signs: data/transaction.Transaction.GetDataForSigning     *)
(* builds a FrontendTransaction (frontendTransaction.go) and serialises it  *)
(* with marshal.TxJsonMarshalizer (encoding/json, HTML escaping off).       *)
(* Property C24: the signed bytes are a function of the semantic fields     *)
(* and differ whenever a semantic field differs.                            *)
(*                                                                          *)
(* The specification gives every field its encoding as the code does it:   *)
(*   nonce, gasPrice, gasLimit   uint64  -> decimal                          *)
(*   version                     uint32  -> decimal                          *)
(*   options                     uint32, omitempty (0 is left out)           *)
(*   value                       big.Int -> decimal string                   *)
(*   receiver, sender            bech32 of the address (addresses of the     *)
(*                               configured length; other lengths give "")   *)
(*   senderUsername, receiverUsername, data                                  *)
(*                               []byte -> base64, omitempty (nil and empty  *)
(*                               are left out: the same semantic value)      *)
(*   chainID                     string(bytes) -> JSON string: encoding/json *)
(*                               writes the escape \ufffd for every byte     *)
(*                               that is not part of a valid UTF-8 sequence  *)
(* Sign(tx) is the record of the per-field encodings (JSON object members   *)
(* carry their names, so fields cannot run into each other).  The UTF-8      *)
(* decoder below follows unicode/utf8 (Go): one escape per offending byte.    *)
(*                                                                          *)
(* Named deviation "chainIDUtf8" (code as it is): a chain ID that is not     *)
(* valid UTF-8 is signed in its sanitised form, so different chain IDs can   *)
(* sign identically.  Intended design: such a transaction is not signable    *)
(* (GetDataForSigning returns an error).                                     *)
(***************************************************************************)
EXTENDS Integers, Sequences, TLC

CONSTANTS NumPool64, NumPool32, ValuePool,   \* decimal strings
          BytePool,                            \* byte strings (sequences of 0..255) for user names / data
          ChainPool,                           \* byte strings for the chain ID
          AddrPool,                            \* addresses of the configured length
          Bases,                               \* base transactions the varied field is put into
          KnownDefects,
          Log(_, _)

VARIABLE hist
vars == <<hist>>

NumFields64  == {"nonce", "gasPrice", "gasLimit"}
NumFields32  == {"version", "options"}
B64Fields    == {"sndUser", "rcvUser", "data"}
AddrFields   == {"rcv", "snd"}
Fields       == NumFields64 \cup NumFields32 \cup {"value"} \cup B64Fields \cup AddrFields \cup {"chainID"}
ByteFields   == B64Fields \cup AddrFields \cup {"chainID"}      \* values are [nil |-> BOOLEAN, b |-> byte sequence]

Pool(f) == IF f \in NumFields64 THEN NumPool64
           ELSE IF f \in NumFields32 THEN NumPool32
           ELSE IF f = "value" THEN ValuePool
           ELSE IF f \in B64Fields THEN {[nil |-> FALSE, b |-> s] : s \in BytePool} \cup {[nil |-> TRUE, b |-> <<>>]}
           ELSE IF f \in AddrFields THEN {[nil |-> FALSE, b |-> s] : s \in AddrPool}
           ELSE {[nil |-> FALSE, b |-> s] : s \in ChainPool} \cup {[nil |-> TRUE, b |-> <<>>]}

\* semantic equality of two values of a field (nil and empty byte strings are the same value)
SemEq(f, v, w) == IF f \in ByteFields THEN v.b = w.b ELSE v = w

-----------------------------------------------------------------------------
(* UTF-8 as decoded by Go (unicode/utf8.DecodeRune): first rune of a non-empty byte string *)
Cont(b) == b >= 128 /\ b <= 191
At(s, i) == IF i <= Len(s) THEN s[i] ELSE -1
Dec(s) ==
    LET b1 == s[1]  b2 == At(s, 2)  b3 == At(s, 3)  b4 == At(s, 4) IN
    IF b1 < 128 THEN [n |-> 1, cp |-> b1, ok |-> TRUE]
    ELSE IF b1 >= 194 /\ b1 <= 223 /\ Cont(b2) THEN [n |-> 2, cp |-> (b1 - 192) * 64 + (b2 - 128), ok |-> TRUE]
    ELSE IF /\ b1 >= 224 /\ b1 <= 239
            /\ (IF b1 = 224 THEN b2 >= 160 /\ b2 <= 191 ELSE IF b1 = 237 THEN b2 >= 128 /\ b2 <= 159 ELSE Cont(b2))
            /\ Cont(b3)
         THEN [n |-> 3, cp |-> (b1 - 224) * 4096 + (b2 - 128) * 64 + (b3 - 128), ok |-> TRUE]
    ELSE IF /\ b1 >= 240 /\ b1 <= 244
            /\ (IF b1 = 240 THEN b2 >= 144 /\ b2 <= 191 ELSE IF b1 = 244 THEN b2 >= 128 /\ b2 <= 143 ELSE Cont(b2))
            /\ Cont(b3) /\ Cont(b4)
         THEN [n |-> 4, cp |-> (b1 - 240) * 262144 + (b2 - 128) * 4096 + (b3 - 128) * 64 + (b4 - 128), ok |-> TRUE]
    ELSE [n |-> 1, cp |-> -1, ok |-> FALSE]             \* not UTF-8: encoding/json writes the escape \ufffd for the byte
                                                        \* (a genuine U+FFFD, EF BF BD, is copied as it is: cp 65533)

RECURSIVE Runes(_)
Runes(s) == IF s = <<>> THEN <<>> ELSE LET d == Dec(s) IN <<d.cp>> \o Runes(SubSeq(s, d.n + 1, Len(s)))
RECURSIVE ValidUtf8(_)
ValidUtf8(s) == IF s = <<>> THEN TRUE ELSE LET d == Dec(s) IN d.ok /\ ValidUtf8(SubSeq(s, d.n + 1, Len(s)))

-----------------------------------------------------------------------------
(* the encoding of every field, and what is signed *)
Enc(f, v) ==
    IF f = "options" THEN (IF v = "0" THEN <<"omitted">> ELSE <<"num", v>>)
    ELSE IF f \in NumFields64 \cup NumFields32 \cup {"value"} THEN <<"num", v>>
    ELSE IF f \in B64Fields THEN (IF v.b = <<>> THEN <<"omitted">> ELSE <<"base64", v.b>>)   \* base64 is injective
    ELSE IF f \in AddrFields THEN <<"bech32", v.b>>            \* injective on addresses of the configured length
    ELSE <<"json-string", Runes(v.b)>>                          \* JSON escaping of a rune sequence is injective

Sign(tx) == [f \in Fields |-> Enc(f, tx[f])]

\* is GetDataForSigning defined for tx?  (intended design: not for a chain ID that is not UTF-8)
Signable(tx) == "chainIDUtf8" \in KnownDefects \/ ValidUtf8(tx.chainID.b)

SemEqTx(t1, t2) == \A f \in Fields : SemEq(f, t1[f], t2[f])

\* class of a pair, for the signature of a violation
PairClass(t1, t2) == IF ~ValidUtf8(t1.chainID.b) \/ ~ValidUtf8(t2.chainID.b) THEN "invalid-utf8-chainID" ELSE "none"

-----------------------------------------------------------------------------
Init == hist = <<[a |-> "New", in |-> [x |-> 0], out |-> [x |-> 0]]>>

\* out.sem / out.eq: the two transactions are semantically equal / sign identically; both undefined unless signable
Judge(a, in, t1, t2, o) ==
    hist' = Log(hist, [a |-> a, in |-> [d |-> in, t1 |-> t1, t2 |-> t2], out |-> o, cls |-> PairClass(t1, t2)])

Expected(t1, t2) ==
    [signable |-> Signable(t1) /\ Signable(t2), sem |-> SemEqTx(t1, t2), eq |-> Sign(t1) = Sign(t2)]

\* one field changed between two transactions that are otherwise equal to a base
Single(base, f, v, w, o) ==
    LET t1 == [base EXCEPT ![f] = v]
        t2 == [base EXCEPT ![f] = w]
    IN  Judge("Single", [f |-> f], t1, t2, o)

\* two fields of the same type exchange their values
Swap(base, f, g, v, w, o) ==
    LET t1 == [base EXCEPT ![f] = v, ![g] = w]
        t2 == [base EXCEPT ![f] = w, ![g] = v]
    IN  Judge("Swap", [f |-> f, g |-> g], t1, t2, o)

\* any two transactions (used by trace validation: random pairs differing in several fields)
Multi(t1, t2, o) == Judge("Multi", [x |-> 0], t1, t2, o)

SwapPairs == {<<"snd", "rcv">>, <<"sndUser", "rcvUser">>, <<"sndUser", "data">>, <<"gasPrice", "gasLimit">>,
              <<"nonce", "gasPrice">>, <<"version", "options">>}

Fresh == hist[Len(hist)].a = "New"
Next ==
    /\ Fresh
    /\ \E base \in Bases :
         \/ \E f \in Fields : \E v, w \in Pool(f) :
              Single(base, f, v, w, Expected([base EXCEPT ![f] = v], [base EXCEPT ![f] = w]))
         \/ \E p \in SwapPairs : \E v, w \in Pool(p[1]) :
              Swap(base, p[1], p[2], v, w, Expected([base EXCEPT ![p[1]] = v, ![p[2]] = w],
                                                    [base EXCEPT ![p[1]] = w, ![p[2]] = v]))
Spec == Init /\ [][Next]_vars

-----------------------------------------------------------------------------
(* C24 on the last judged pair (o is the model's prediction in R1, the real code's answer in R3) *)
R == hist[Len(hist)]
Judged == R.a \in {"Single", "Swap", "Multi"} /\ R.out.signable

\* different semantic fields => different signed bytes
Inv_C24_Covers(c)   == (Judged /\ R.cls = c /\ ~SemEqTx(R.in.t1, R.in.t2)) => ~R.out.eq
\* identical field values => identical signed bytes
Inv_C24_Function(c) == (Judged /\ R.cls = c /\ SemEqTx(R.in.t1, R.in.t2)) => R.out.eq
Inv_C24_CoversEveryField     == Inv_C24_Covers("none")
Inv_C24_FunctionOfFields     == Inv_C24_Function("none")
InvK_C24_Covers_invalidUtf8   == Inv_C24_Covers("invalid-utf8-chainID")
InvK_C24_Function_invalidUtf8 == Inv_C24_Function("invalid-utf8-chainID")
=============================================================================
