---- MODULE MC_SigningFields ----
EXTENDS SigningFields, Json
CONSTANTS Depth, ByteAlphabet, ByteMaxLen, ChainAlphabet, ChainMaxLen

RECURSIVE Strs(_, _)
Strs(A, n) == IF n = 0 THEN {<<>>} ELSE LET S == Strs(A, n - 1) IN S \cup {Append(s, a) : s \in S, a \in A}
Long(x, y) == [i \in 1..40 |-> IF i = 40 THEN x ELSE IF i = 1 THEN y ELSE 65]      \* 40 bytes, differ at an end

MCNum64   == {"0", "1", "2", "255", "256", "4294967295", "4294967296", "4294967297", "9007199254740993",
              "18446744073709551615"}
MCNum32   == {"0", "1", "2", "65536", "4294967295"}
MCValue   == {"0", "1", "10", "18446744073709551616", "1000000000000000000000000"}
MCBytes   == Strs(ByteAlphabet, ByteMaxLen) \cup {Long(65, 65), Long(66, 65), Long(65, 66)}
MCChain   == Strs(ChainAlphabet, ChainMaxLen) \cup {<<49>>, <<68>>, <<84>>, Long(65, 65), Long(66, 65)}
\* an address is written <<fill, last>>: 31 bytes `fill` followed by the byte `last` (32 bytes, the configured length)
MCAddr    == {<<0, 0>>, <<0, 1>>, <<1, 0>>, <<255, 255>>, <<255, 254>>, <<17, 34>>}

B(s) == [nil |-> FALSE, b |-> s]
Nil  == [nil |-> TRUE, b |-> <<>>]
MCBases ==
    {[nonce |-> "0", value |-> "0", rcv |-> B(<<0, 0>>), snd |-> B(<<0, 0>>), sndUser |-> Nil, rcvUser |-> Nil,
      gasPrice |-> "0", gasLimit |-> "0", data |-> Nil, chainID |-> Nil, version |-> "0", options |-> "0"],
     [nonce |-> "7", value |-> "1000", rcv |-> B(<<1, 2>>), snd |-> B(<<3, 4>>), sndUser |-> B(<<65, 98>>),
      rcvUser |-> B(<<67, 100>>), gasPrice |-> "1000000000", gasLimit |-> "50000", data |-> B(<<104, 105>>),
      chainID |-> B(<<84>>), version |-> "2", options |-> "1"]}

LogAppend(h, r) == Append(h, r)
LogLast(h, r) == <<r>>
IsPair(h) == h[Len(h)].a # "New"
EmitEdge == IsPair(hist') => PrintT("@@B " \o ToJson(hist'[Len(hist')]))
====
