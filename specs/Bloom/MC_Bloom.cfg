SPECIFICATION Spec
CONSTANTS
  Keys = {"a","b","c"}
  ByteSizes = {2, 3}
  Hashers = {1, 2}
  PosSet = {0, 7, 8, 15, 16, 23}
  Log <- LogLast
  Depth = 0
VIEW cvars
INVARIANTS TypeOK Inv_C31_NoFalseNegative Inv_C31_AnswerForAdded
PROPERTIES Act_C31_BitsMonotone
CHECK_DEADLOCK FALSE
