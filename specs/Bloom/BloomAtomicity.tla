--------------------------- MODULE BloomAtomicity ---------------------------
(***************************************************************************)
(* C31 under concurrency: atomicity of Add's read-modify-write.            *)
(*                                                                          *)
(* Bloom.Add sets one bit per hash function with  filter[pos] |= mask,     *)
(* i.e. it READS a byte and WRITES it back.  The lock-discipline model      *)
(* (LockDiscipline.tla) only says whether two accesses can overlap; a       *)
(* filter in which every access is under the mutex is race free for the    *)
(* detector and can still lose bits if the read and the write of one Add   *)
(* are in DIFFERENT critical sections.  This module models the byte level: *)
(*   Variant = "one-section"  read and write in one critical section        *)
(*                            (the code: Lock; filter[pos] |= mask; Unlock) *)
(*   Variant = "split"        read under the (read) lock, release, then     *)
(*                            write  copy | mask  under the write lock,     *)
(*                            skipping the write when the bit was set       *)
(* Each thread adds one key = one bit position.  The scenario (number of    *)
(* threads and where their bits fall) is chosen in Init:                    *)
(*   "same-byte"   all bits in one byte, different bits                     *)
(*   "same-bit"    all threads set the same bit                             *)
(*   "other-bytes" every thread its own byte                                *)
(* Property (no false negative): once a thread has finished Add, its bit is *)
(* set -- and stays set (nothing clears).                                   *)
(***************************************************************************)
EXTENDS Integers, Sequences, FiniteSets, TLC, Json

CONSTANTS MaxThreads,   \* scenarios use 2..MaxThreads threads
          Variant       \* "one-section" | "split"

VARIABLES n, place, pos,   \* scenario: thread count, placement class, bit position of each thread
          filter,          \* set of bit positions that are 1
          pc,              \* thread -> "start" | "read" (split: holds a copy) | "done"
          copy             \* thread -> bits of its byte as read (split variant)

vars == <<n, place, pos, filter, pc, copy>>
Thr == 1..n
ByteOf(p) == p \div 8
BitsOfByte(b) == {p \in (8 * b)..(8 * b + 7) : TRUE}
Places == {"same-byte", "same-bit", "other-bytes"}
PosFor(pl, t) == CASE pl = "same-byte" -> 8 + (t - 1)        \* byte 1, bit t-1
                   [] pl = "same-bit" -> 8 + 3
                   [] OTHER -> 8 * (t - 1) + 2                \* byte t-1, bit 2

\* the lost update needs two threads whose bits share a byte without being the same bit
LosesBitIfSplit(pl) == pl = "same-byte"

ScenarioRec(k, pl) ==
    [a |-> "Concurrent",
     in |-> [threads |-> k, place |-> pl, pos |-> [t \in 1..k |-> PosFor(pl, t)], nbytes |-> 8],
     out |-> [loses_bit_if_split |-> LosesBitIfSplit(pl)],
     st |-> [x |-> 0]]

Init ==
    /\ n \in 2..MaxThreads /\ place \in Places
    /\ pos = [t \in 1..n |-> PosFor(place, t)]
    /\ filter = {} /\ pc = [t \in 1..n |-> "start"] /\ copy = [t \in 1..n |-> {}]
    /\ PrintT("@@B " \o ToJson(<<ScenarioRec(n, place)>>))      \* scenario export (one line per initial state)

\* one critical section: filter[pos] |= mask
AddAtomic(t) ==
    /\ Variant = "one-section" /\ pc[t] = "start"
    /\ filter' = filter \cup {pos[t]}
    /\ pc' = [pc EXCEPT ![t] = "done"]
    /\ UNCHANGED <<n, place, pos, copy>>

\* split variant, first critical section: read the byte; nothing to do when the bit is already set
ReadByte(t) ==
    /\ Variant = "split" /\ pc[t] = "start"
    /\ copy' = [copy EXCEPT ![t] = filter \cap BitsOfByte(ByteOf(pos[t]))]
    /\ pc' = [pc EXCEPT ![t] = IF pos[t] \in filter THEN "done" ELSE "read"]
    /\ UNCHANGED <<n, place, pos, filter>>

\* split variant, second critical section: write back the (possibly stale) copy with the bit set
WriteByte(t) ==
    /\ Variant = "split" /\ pc[t] = "read"
    /\ filter' = (filter \ BitsOfByte(ByteOf(pos[t]))) \cup copy[t] \cup {pos[t]}
    /\ pc' = [pc EXCEPT ![t] = "done"]
    /\ UNCHANGED <<n, place, pos, copy>>

Next == \E t \in Thr : AddAtomic(t) \/ ReadByte(t) \/ WriteByte(t)
Spec == Init /\ [][Next]_vars

\* C31 under concurrency: a finished Add is never answered "definitely not contained"
Inv_C31_AddedStaysContained == \A t \in Thr : pc[t] = "done" => pos[t] \in filter
\* the scenario label is sound: a bit is lost only in the scenarios labelled so
Inv_LabelSound == (\E t \in Thr : pc[t] = "done" /\ pos[t] \notin filter) => LosesBitIfSplit(place)
=============================================================================
