---- MODULE MC_BloomLocks ----
(* Lock discipline of storage/bloom.Bloom as the code is (bloom.go).                       *)
(*   Add        : getBitsIndexes without lock (reads the immutable configuration), then one *)
(*                critical section  mutex.Lock(); filter[pos] |= mask; mutex.Unlock()  per   *)
(*                hash function (modelled as two of them).                                  *)
(*   MayContain : reads filter[pos] for every position -- WITHOUT the mutex (deviation      *)
(*                "maycontain-unlocked"); intended: under the mutex.                        *)
(*   Clear      : writes every byte of the filter -- WITHOUT the mutex (deviation            *)
(*                "clear-unlocked"); intended: under the mutex.                             *)
(* Argument classes: "hot" = one key shared by all goroutines, "fresh" = new key per call.  *)
EXTENDS LockDiscipline, Json
Seg(lk, r, w) == [lk |-> lk, r |-> r, w |-> w]
M == {<<"mutex", "W">>}
AddSegs == <<Seg({}, {"cfg"}, {}), Seg(M, {"filter"}, {"filter"}), Seg(M, {"filter"}, {"filter"})>>
MaySegs == <<Seg({}, {"cfg"}, {}),
             Seg(IF "maycontain-unlocked" \in KnownDefects THEN {} ELSE M, {"filter"}, {})>>
ClearSegs == <<Seg(IF "clear-unlocked" \in KnownDefects THEN {} ELSE M, {}, {"filter"})>>
BloomOrder == <<"Add:hot", "Add:fresh", "MayContain:hot", "MayContain:fresh", "Clear", "IsInterfaceNil">>
BloomTable ==
    [o \in {BloomOrder[i] : i \in 1..Len(BloomOrder)} |->
        CASE o \in {"Add:hot", "Add:fresh"} -> AddSegs
          [] o \in {"MayContain:hot", "MayContain:fresh"} -> MaySegs
          [] o = "Clear" -> ClearSegs
          [] OTHER -> <<Seg({}, {}, {})>>]
EmitEdge == PrintT("@@B " \o ToJson(hist'))
====
