SPECIFICATION TraceSpecConc
CONSTANTS
  Keys = {}
  ByteSizes = {}
  Hashers = {}
  PosSet = {}
  Log <- LogLast
CONSTRAINT HighWater
INVARIANTS Inv_C31_NoFalseNegative Inv_C31_ConcurrentAnswers
POSTCONDITION Accepted
CHECK_DEADLOCK FALSE
