SPECIFICATION Spec
CONSTANTS
  Threads = {1, 2}
  Table <- BloomTable
  OpOrder <- BloomOrder
  KnownDefects = {}
INVARIANTS TypeOK Inv_RaceFree Inv_StaticSound
CHECK_DEADLOCK FALSE
