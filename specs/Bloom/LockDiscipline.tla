--------------------------- MODULE LockDiscipline ---------------------------
(***************************************************************************)
(* Generic lock-discipline model used for the race-freedom halves of C29    *)
(* (headers pool) and C31 (bloom filter).                                   *)
(*                                                                          *)
(* Every public operation class of the component is a sequence of SEGMENTS  *)
(* (critical sections or unlocked stretches of code).  A segment records    *)
(*    lk : the set of <<mutex, mode>> it holds ("W" exclusive, "R" shared), *)
(*    r  : the shared locations it reads,                                   *)
(*    w  : the shared locations it writes (lazily creating a map entry is a *)
(*         WRITE of the map).                                               *)
(* The table is supplied by the family's MC module (Table <- ...) and is a  *)
(* transcription of the code as it is; deliberate deviations of the code    *)
(* from the intended discipline are guarded by KnownDefects.                *)
(*                                                                          *)
(* Threads each execute one operation; TLC explores every interleaving of   *)
(* segment entries/exits under sync.RWMutex semantics.  A data race is a    *)
(* state in which two threads are inside segments with conflicting accesses *)
(* (same location, at least one write).                                     *)
(***************************************************************************)
EXTENDS Integers, Sequences, FiniteSets, TLC

CONSTANTS Threads,       \* 1..N
          Table,         \* [OpClasses -> Seq(segment)]
          OpOrder,       \* sequence enumerating OpClasses (canonical order of a scenario)
          KnownDefects   \* deviations of the code from the intended discipline that are switched on

VARIABLES op,      \* thread -> operation class (the scenario, chosen in Init)
          seg,     \* thread -> number of segments entered so far
          inside,  \* thread -> currently inside segment seg[t]
          hist     \* observation: the exported scenario record

vars  == <<op, seg, inside, hist>>
cvars == <<op, seg, inside>>

OpClasses == DOMAIN Table
Idx(o) == CHOOSE i \in 1..Len(OpOrder) : OpOrder[i] = o

Cur(t) == Table[op[t]][seg[t]]
Holds(s, m) == \E md \in {"R", "W"} : <<m, md>> \in s.lk

\* sync.RWMutex: W needs no other holder, R needs no W holder
CanEnter(t, s) ==
    \A lm \in s.lk :
        \A u \in Threads \ {t} :
            inside[u] =>
                /\ <<lm[1], "W">> \notin Cur(u).lk
                /\ (lm[2] = "W" => ~Holds(Cur(u), lm[1]))

Enter(t) ==
    /\ ~inside[t] /\ seg[t] < Len(Table[op[t]])
    /\ CanEnter(t, Table[op[t]][seg[t] + 1])
    /\ seg' = [seg EXCEPT ![t] = @ + 1]
    /\ inside' = [inside EXCEPT ![t] = TRUE]
    /\ UNCHANGED <<op, hist>>

Leave(t) ==
    /\ inside[t]
    /\ inside' = [inside EXCEPT ![t] = FALSE]
    /\ UNCHANGED <<op, seg, hist>>

Sorted(f) == \A i, j \in Threads : i < j => Idx(f[i]) <= Idx(f[j])

Init ==
    /\ op \in {f \in [Threads -> OpClasses] : Sorted(f)}
    /\ seg = [t \in Threads |-> 0]
    /\ inside = [t \in Threads |-> FALSE]
    /\ hist = <<>>

Next == \E t \in Threads : Enter(t) \/ Leave(t)
Spec == Init /\ [][Next]_vars

-----------------------------------------------------------------------------
Conflict(a, b) == (a.w \cap (b.r \cup b.w)) # {} \/ (b.w \cap a.r) # {}

Race(t, u) == t # u /\ inside[t] /\ inside[u] /\ Conflict(Cur(t), Cur(u))

\* the property: no interleaving reaches two simultaneous conflicting accesses
Inv_RaceFree == \A t, u \in Threads : ~Race(t, u)

\* static characterisation used to label the exported scenarios
Excluded(a, b) == \E lm \in a.lk : \/ (lm[2] = "W" /\ Holds(b, lm[1]))
                                   \/ <<lm[1], "W">> \in b.lk
RacyPair(o1, o2) ==
    \E i \in 1..Len(Table[o1]), j \in 1..Len(Table[o2]) :
        Conflict(Table[o1][i], Table[o2][j]) /\ ~Excluded(Table[o1][i], Table[o2][j])

\* the labels are sound: whatever race an interleaving reaches was predicted
Inv_StaticSound == \A t, u \in Threads : Race(t, u) => RacyPair(op[t], op[u])

TypeOK ==
    /\ \A t \in Threads : seg[t] \in 0..Len(Table[op[t]]) /\ (inside[t] => seg[t] >= 1)
    /\ \A o \in OpClasses : \A i \in 1..Len(Table[o]) :
          \A lm \in Table[o][i].lk : lm[2] \in {"R", "W"}

-----------------------------------------------------------------------------
(* scenario export: one record per scenario (multiset of operation classes) *)
ScenarioRec ==
    LET tp == {<<t, u>> \in Threads \X Threads : t < u /\ RacyPair(op[t], op[u])}
    IN [a |-> "Scenario",
        in |-> [ops |-> [t \in Threads |-> op[t]]],
        out |-> [racy |-> tp # {}, pairs |-> {op[p[1]] \o "||" \o op[p[2]] : p \in tp}],
        st |-> [n |-> Cardinality(Threads)]]
GenNext == hist = <<>> /\ hist' = <<ScenarioRec>> /\ UNCHANGED cvars
GenSpec == Init /\ [][GenNext]_vars
=============================================================================
