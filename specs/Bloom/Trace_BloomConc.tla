---- MODULE Trace_BloomConc ----
(* Concurrent no-false-negative stage of C31.  One event per ROUND executed on a real filter:              *)
(*   in.nbytes, in.nh, in.pos   configuration and the bit positions of every key of the round               *)
(*   in.keys                    the keys added in this round (by several goroutines, disjoint key sets,     *)
(*                              released together from a start barrier)                                     *)
(*   out.inrun                  [k, r]: MayContain(k) asked by the goroutine that had just finished Add(k), *)
(*                              while the other goroutines were still adding                                *)
(*   out.after                  [k, r]: MayContain(k) for every key after all goroutines were joined        *)
(*   st.bits                    the filter bits after the join                                              *)
(* The state of Bloom.tla is bound to what was observed (bits from the log, added = the keys whose Add had    *)
(* returned); the C31 predicate is evaluated by TLC on every round: the state form Inv_C31_NoFalseNegative    *)
(* of Bloom.tla on the observed bits, and the answer form below on every recorded answer.                   *)
EXTENDS Bloom, Json, TLCExt
LogLast(h, r) == <<r>>
TLog == ndJsonDeserialize("trace.ndjson")
VARIABLE l
tvars == <<vars, l>>
Ev == TLog[l]
ToSet(s) == {s[i] : i \in 1..Len(s)}

TraceInit ==
    /\ l = 1 /\ nbytes = 1 /\ nh = 1 /\ pos = <<>> /\ bits = {} /\ added = {} /\ hist = <<>>
TRound ==
    /\ l <= Len(TLog) /\ Ev.a = "Round" /\ l' = l + 1
    /\ nbytes' = Ev.in.nbytes /\ nh' = Ev.in.nh /\ pos' = Ev.in.pos
    /\ bits' = ToSet(Ev.st.bits)
    /\ added' = ToSet(Ev.in.keys)
    /\ hist' = <<[a |-> "Round", in |-> Ev.in, out |-> Ev.out, st |-> [bits |-> ToSet(Ev.st.bits)]]>>
TraceSpecConc == TraceInit /\ [][TRound]_tvars

\* every recorded answer about a key whose Add had returned is TRUE
Inv_C31_ConcurrentAnswers ==
    hist = <<>> \/
    /\ \A q \in ToSet(hist[1].out.inrun) : q.r = TRUE
    /\ \A q \in ToSet(hist[1].out.after) : q.r = TRUE
    /\ {q.k : q \in ToSet(hist[1].out.after)} = added          \* every added key was asked after the join

HighWater == TLCSet(1, IF l > TLCGet(1) THEN l ELSE TLCGet(1))
Accepted  == IF TLCGet(1) = Len(TLog) + 1 THEN TRUE ELSE PrintT("@@HW " \o ToString(TLCGet(1))) /\ FALSE
ASSUME TLCSet(1, 0)
====
