SPECIFICATION TraceSpecObs
CONSTANTS
  Keys = {}
  ByteSizes = {}
  Hashers = {}
  PosSet = {}
  Log <- LogLast
CONSTRAINT HighWater
INVARIANTS Inv_C31_NoFalseNegative Inv_C31_AnswerForAdded
POSTCONDITION Accepted
CHECK_DEADLOCK FALSE
