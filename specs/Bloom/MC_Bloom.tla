---- MODULE MC_Bloom ----
EXTENDS Bloom, Json
CONSTANT Depth
LogAppend(h, r) == Append(h, r)
LogLast(h, r) == <<r>>
GenNext  == Len(hist) < Depth /\ Next
GenSpec  == Init /\ [][GenNext]_vars
EmitEdge == PrintT("@@B " \o ToJson(hist'))
EmitFull == (Len(hist') = Depth) => PrintT("@@B " \o ToJson(hist'))
====
