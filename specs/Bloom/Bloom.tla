------------------------------- MODULE Bloom -------------------------------
(***************************************************************************)
(* storage/bloom.Bloom: a bit array of 8*nbytes bits and h hash functions.  *)
(* pos[k] is the sequence of the h bit positions of key k (position j is    *)
(* hash_j(k) mod 8*nbytes in the code); it is part of the configuration     *)
(* chosen in Init (R1/R2: every assignment over a small position set, bound *)
(* to the real filter through stub hashers; R3: the positions the real      *)
(* hashers produce, learned from a probe filter).                           *)
(*                                                                          *)
(* Actions = public calls.  Bits are set only by Add and cleared only by    *)
(* Clear; MayContain(k) answers TRUE iff all bits of k are set.             *)
(* Property C31 (first half): a key added since the last Clear is never     *)
(* answered FALSE.                                                          *)
(***************************************************************************)
EXTENDS Integers, Sequences, FiniteSets, TLC

CONSTANTS Keys,        \* key universe
          ByteSizes,   \* candidate filter sizes in bytes
          Hashers,     \* candidate numbers of hash functions
          PosSet,      \* candidate bit positions (subset of 0..8*nbytes-1 for every size)
          Log(_, _)

VARIABLES nbytes, nh, pos,   \* configuration (fixed after Init / New)
          bits,              \* set of bit positions that are 1
          added,             \* ghost: keys added since the last Clear
          hist

vars  == <<nbytes, nh, pos, bits, added, hist>>
cvars == <<nbytes, nh, pos, bits, added>>

PosOf(k) == {pos[k][j] : j \in 1..Len(pos[k])}
Answer(k) == PosOf(k) \subseteq bits

Rec(a, in, out, b) == [a |-> a, in |-> in, out |-> out, st |-> [bits |-> b]]

Init ==
    /\ nbytes \in ByteSizes /\ nh \in Hashers
    /\ nbytes > nh                                    \* NewFilter rejects size <= number of hashers
    /\ pos \in [Keys -> [1..nh -> {p \in PosSet : p < 8 * nbytes}]]
    /\ bits = {} /\ added = {}
    /\ hist = <<[a |-> "New", in |-> [nbytes |-> nbytes, nh |-> nh, pos |-> pos],
                 out |-> [x |-> 0], st |-> [bits |-> {}]]>>

Add(k) ==
    /\ bits' = bits \cup PosOf(k)
    /\ added' = added \cup {k}
    /\ UNCHANGED <<nbytes, nh, pos>>
    /\ hist' = Log(hist, Rec("Add", [k |-> k], [x |-> 0], bits'))

MayContain(k) ==
    /\ UNCHANGED cvars
    /\ hist' = Log(hist, Rec("MayContain", [k |-> k], [r |-> Answer(k)], bits))

Clear ==
    /\ bits' = {} /\ added' = {}
    /\ UNCHANGED <<nbytes, nh, pos>>
    /\ hist' = Log(hist, Rec("Clear", [x |-> 0], [x |-> 0], {}))

Next == (\E k \in Keys : Add(k) \/ MayContain(k)) \/ Clear
Spec == Init /\ [][Next]_vars

-----------------------------------------------------------------------------
TypeOK == bits \subseteq 0..(8 * nbytes - 1) /\ added \subseteq DOMAIN pos

\* C31: no false negatives -- state form: every added key still has all its bits ...
Inv_C31_NoFalseNegative == \A k \in added : Answer(k)

\* ... and observation form: the answer recorded by the last step was TRUE for an added key
Last == hist[Len(hist)]
Inv_C31_AnswerForAdded ==
    (hist # <<>> /\ Last.a = "MayContain" /\ Last.in.k \in added) => Last.out.r = TRUE

\* bits are only ever set by Add and cleared by Clear
Act_C31_BitsMonotone == [][bits \subseteq bits' \/ bits' = {}]_cvars
=============================================================================
