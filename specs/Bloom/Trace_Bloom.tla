---- MODULE Trace_Bloom ----
(* Trace validation for storage/bloom.Bloom.  "New" carries the configuration and the bit     *)
(* positions of every key of the trace (learned from the real code through a probe filter).   *)
(* Strict mode (TraceNext): every event must be the specification's action with the logged    *)
(* answer and bit set.  Observation mode (TraceNextObs): the state is taken from the log, the *)
(* ghost `added` follows the events; the C31 invariants are evaluated on every observed state.*)
EXTENDS Bloom, Json, TLCExt
LogLast(h, r) == <<r>>
TLog == ndJsonDeserialize("trace.ndjson")
VARIABLE l
tvars == <<vars, l>>
Ev == TLog[l]
IsEvent(name) == l <= Len(TLog) /\ Ev.a = name /\ l' = l + 1
ToSet(s) == {s[i] : i \in 1..Len(s)}
HasBits == "bits" \in DOMAIN Ev.st
Matches ==
    /\ \A f \in DOMAIN Ev.out : hist'[1].out[f] = Ev.out[f]
    /\ HasBits => hist'[1].st.bits = ToSet(Ev.st.bits)

TraceInit ==
    /\ l = 1 /\ nbytes = 1 /\ nh = 1 /\ pos = <<>> /\ bits = {} /\ added = {} /\ hist = <<>>
TNew ==
    /\ IsEvent("New")
    /\ nbytes' = Ev.in.nbytes /\ nh' = Ev.in.nh /\ pos' = Ev.in.pos
    /\ bits' = {} /\ added' = {}
    /\ hist' = <<[a |-> "New", in |-> Ev.in, out |-> Ev.out, st |-> [bits |-> {}]]>>
    /\ HasBits => Ev.st.bits = <<>>
TAdd   == IsEvent("Add") /\ Add(Ev.in.k) /\ Matches
TMay   == IsEvent("MayContain") /\ MayContain(Ev.in.k) /\ Matches
TClear == IsEvent("Clear") /\ Clear /\ Matches
TraceNext == TNew \/ TAdd \/ TMay \/ TClear
TraceSpec == TraceInit /\ [][TraceNext]_tvars

\* observation-only: state from the log, ghost from the event
ObsBits == IF HasBits THEN ToSet(Ev.st.bits) ELSE bits
ObsRec == [a |-> Ev.a, in |-> Ev.in, out |-> Ev.out, st |-> [bits |-> ObsBits]]
OAdd   == IsEvent("Add") /\ bits' = ObsBits /\ added' = added \cup {Ev.in.k}
          /\ UNCHANGED <<nbytes, nh, pos>> /\ hist' = <<ObsRec>>
OMay   == IsEvent("MayContain") /\ bits' = ObsBits /\ UNCHANGED <<nbytes, nh, pos, added>> /\ hist' = <<ObsRec>>
OClear == IsEvent("Clear") /\ bits' = ObsBits /\ added' = {} /\ UNCHANGED <<nbytes, nh, pos>> /\ hist' = <<ObsRec>>
TraceNextObs == TNew \/ OAdd \/ OMay \/ OClear
TraceSpecObs == TraceInit /\ [][TraceNextObs]_tvars

HighWater == TLCSet(1, IF l > TLCGet(1) THEN l ELSE TLCGet(1))
Accepted  == IF TLCGet(1) = Len(TLog) + 1 THEN TRUE ELSE PrintT("@@HW " \o ToString(TLCGet(1))) /\ FALSE
ASSUME TLCSet(1, 0)
====
