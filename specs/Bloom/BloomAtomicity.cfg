SPECIFICATION Spec
CONSTANTS
  MaxThreads = 3
  Variant = "one-section"
INVARIANTS Inv_C31_AddedStaysContained Inv_LabelSound
CHECK_DEADLOCK FALSE
