SPECIFICATION TraceSpec
CONSTANTS
  KnownDefects = {}
  Log <- LogLast
CONSTRAINT HighWater
INVARIANTS Inv_C12_Conservation Inv_C12_NoForeign Inv_C12_LeavingWereMembers Inv_C12_UnhonouredStay Inv_C13_SameOutputs Inv_C14_MinSizes
POSTCONDITION Accepted
CHECK_DEADLOCK FALSE
