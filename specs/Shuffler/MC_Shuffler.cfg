SPECIFICATION MCSpec
CONSTANTS
  KnownDefects = {}
  Log <- LogLast
  NbSet = {1}
  MinSet = "all"
  CrossSet = {FALSE}
  FixEpochs = {5, 6}
  BalEpochs = {9}
  SwapKinds = {"default", "cap1"}
  DropSet = {FALSE}
  MaxList = 2
  MaxTotal = 4
  MaxNew = 1
  MaxUnstake = 2
  MaxAddl = 1
  MaxLeave = 2
  RankKinds = {"id"}
  Depth = 1
  ExportMod = 1
INVARIANTS Inv_C12_Conservation Inv_C12_NoForeign Inv_C12_LeavingWereMembers Inv_C12_UnhonouredStay Inv_C14_MinSizes Inv_ErrIffTooSmall Inv_LeavingWereRequested
CHECK_DEADLOCK FALSE
