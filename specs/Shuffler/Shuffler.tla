------------------------------- MODULE Shuffler -------------------------------
(***************************************************************************)
(* Epoch-change reshuffling of validators: sharding/hashValidatorShuffler.go *)
(* (UpdateNodeLists -> shuffleNodes) and sharding/validatorDistributor.go.    *)
(* Properties C12 (conservation), C13 (determinism), C14 (minimum sizes).     *)
(*                                                                            *)
(* The module is a transcription, one operator per Go function, over          *)
(* sequences of validator ids (integers).  Node lists per shard are           *)
(* functions shard id -> sequence ("maps"; a missing key is a missing map     *)
(* key in Go).  What is abstracted:                                           *)
(*   * shuffleList (sort by sha256(pubKey || randomness)) is a parameter:     *)
(*     `rank`, a sequence of validator ids in hash order;                     *)
(*   * `range` over a Go map visits the keys in the order `ord` (any          *)
(*     permutation of the shard ids) where the visiting order can matter      *)
(*     (moveMaxNumNodesToMap, moveNodesToMap, CrossShardValidatorDistributor);*)
(*     per-key independent loops are written as function constructors;        *)
(*   * splitShards/mergeShards are no-ops in the code (they copy), adaptivity  *)
(*     and hysteresis therefore have no effect and are not modelled.           *)
(*                                                                            *)
(* State machine: one shuffler with its configuration, the current node       *)
(* lists, one action UpdateNodeLists per epoch change (the nodes coordinator  *)
(* installs the result unless the call fails).                                *)
(***************************************************************************)
EXTENDS Integers, Sequences, FiniteSets, SequencesExt, TLC

CONSTANTS KnownDefects,   \* set of named deviations of the code from the intended design that are modelled
          Log(_, _)       \* observation variable policy

META == 2147483647        \* core.MetachainShardId (sorts after every shard id, like 0xFFFFFFFF)

Min2(a, b) == IF a < b THEN a ELSE b
Max2(a, b) == IF a > b THEN a ELSE b
SeqSet(s) == {s[i] : i \in DOMAIN s}
In(l, v)  == \E i \in DOMAIN l : l[i] = v
Get(m, s) == IF s \in DOMAIN m THEN m[s] ELSE <<>>
Put(m, s, l) == [x \in DOMAIN m \cup {s} |-> IF x = s THEN l ELSE m[x]]
SortedKeys(m) == SetToSortSeq(DOMAIN m, <)              \* sortKeys
InMap(m, v) == \E s \in DOMAIN m : In(m[s], v)          \* searchInMap (found part)
\* keys of map m in the visiting order ord (Go: `for k := range m`)
RangeKeys(m, ord) == SelectSeq(ord, LAMBDA s : s \in DOMAIN m)

-----------------------------------------------------------------------------
(* list primitives *)

\* removeValidatorFromList: the element at index i is replaced by the last one, the list shrinks by one
SwapRemove(l, i) == [j \in 1..(Len(l) - 1) |-> IF j = i THEN l[Len(l)] ELSE l[j]]

LastIndexOf(l, v) ==
    IF In(l, v) THEN CHOOSE i \in DOMAIN l : l[i] = v /\ \A j \in DOMAIN l : l[j] = v => j <= i ELSE 0

\* removeValidatorsFromList(validatorList, validatorsToRemove, maxToRemove) -> (resultedList, removed)
RECURSIVE RVFL(_, _, _, _, _)
RVFL(l, rem, k, max, removed) ==
    IF k > Len(rem) \/ Len(removed) = max THEN [l |-> l, removed |-> removed]
    ELSE LET i == LastIndexOf(l, rem[k]) IN
         IF i = 0 THEN RVFL(l, rem, k + 1, max, removed)
         ELSE RVFL(SwapRemove(l, i), rem, k + 1, max, Append(removed, l[i]))
RemoveValidatorsFromList(l, rem, max) == RVFL(l, rem, 1, max, <<>>)

\* removeDupplicates(unstake, additionalLeaving): every copy of an unstake key is swap-removed from additional
RECURSIVE RDInner(_, _, _)
RDInner(l, u, i) ==
    IF i = 0 THEN l ELSE IF l[i] = u THEN RDInner(SwapRemove(l, i), u, i - 1) ELSE RDInner(l, u, i - 1)
RECURSIVE RDOuter(_, _, _)
RDOuter(l, unstake, k) ==
    IF k > Len(unstake) THEN l ELSE RDOuter(RDInner(l, unstake[k], Len(l)), unstake, k + 1)
RemoveDupplicates(unstake, additional) == RDOuter(additional, unstake, 1)

\* shuffleList: validators ordered by their position in `rank`
RankOf(rank) == [v \in SeqSet(rank) |-> CHOOSE i \in DOMAIN rank : rank[i] = v]
ShuffleList(l, rk) == SetToSortSeq(SeqSet(l), LAMBDA a, b : rk[a] < rk[b])

-----------------------------------------------------------------------------
(* UpdateShufflerConfig: flags and NodesToShufflePerShard for the epoch of the call.                      *)
(* They are functions of the shuffler's configuration and of the epoch of THIS call only: the shuffler has  *)
(* no history variable (`conf` never changes), so a call for an earlier epoch after a later one, or on a    *)
(* fresh instance, gives the same result (C13: equal inputs => equal outputs whatever was computed before;  *)
(* the harness runs every call also on instances that served later / earlier epochs).                       *)
FixOn(c) == c.epoch >= c.fixEpoch
BalOn(c) == c.epoch >= c.balEpoch
MaxSwap(c) ==
    LET en == {i \in DOMAIN c.swap : c.swap[i].ep <= c.epoch} IN
    IF en = {} THEN c.minS
    ELSE c.swap[CHOOSE i \in en : \A j \in en : c.swap[j].ep <= c.swap[i].ep].n

MinOf(c, s) == IF s = META THEN c.minM ELSE c.minS
Shards(c)   == (0..(c.nb - 1)) \cup {META}
AllKeys(c)  == Shards(c) \cup DOMAIN c.elig \cup DOMAIN c.wait

-----------------------------------------------------------------------------
(* computeNumToRemove / computeNumToRemovePerShard; "err" = ErrSmallShardEligibleListSize *)
\* (with NbShards = 0 the code returns an empty numToRemove and no error, whatever the metachain size)
TooSmall(c) == c.nb > 0 /\ \E s \in Shards(c) : Len(Get(c.elig, s)) + Len(Get(c.wait, s)) < MinOf(c, s)
ComputeNumToRemove(c) ==
    [s \in AllKeys(c) |->
        IF c.nb > 0 /\ s \in Shards(c)
        THEN Min2(Len(Get(c.elig, s)) + Len(Get(c.wait, s)) - MinOf(c, s), MaxSwap(c))   \* capped by maxNodesToSwapPerShard
        ELSE 0]

\* removeLeavingNodesNotExistingInEligibleOrWaiting
RemoveLeavingNotExisting(leaving, waiting, eligible) ==
    LET nf == SelectSeq(leaving, LAMBDA v : ~InMap(waiting, v) /\ ~InMap(eligible, v))
    IN  RemoveValidatorsFromList(leaving, nf, Len(nf)).l

\* removeNodesFromMap / removeNodesFromShard: sorted shard order, numToRemove decremented per shard
RECURSIVE RNFM(_, _, _, _, _)
RNFM(m, leaving, num, keys, k) ==
    IF k > Len(keys) THEN [m |-> m, leaving |-> leaving, num |-> num]
    ELSE LET s  == keys[k]
             nb == Min2(Len(leaving), num[s])
             r  == RemoveValidatorsFromList(m[s], leaving, nb)
             lv == RemoveValidatorsFromList(leaving, r.removed, Len(r.removed)).l
         IN  RNFM([m EXCEPT ![s] = r.l], lv, [num EXCEPT ![s] = @ - Len(r.removed)], keys, k + 1)
RemoveNodesFromMap(m, leaving, num, keys) == RNFM(m, leaving, num, keys, 1)

\* computeMinNumberOfNodes
CMN(c, e, w, s) == Max2(0, Len(Get(e, s)) + Len(Get(w, s)) - MinOf(c, s))

\* removeLeavingNodesFromValidatorMaps (+ removeLeavingNodes when the waiting-list fix is active).
\* kw / ke: the key orders used for the waiting / eligible passes (sorted in the code).
RemoveLeavingFromMaps(c, e, w, num, leaving, kw, ke) ==
    IF ~FixOn(c)
    THEN LET rw == RemoveNodesFromMap(w, leaving, num, kw)
             re == RemoveNodesFromMap(e, rw.leaving, rw.num, ke)
         IN  [e |-> re.m, w |-> rw.m, num |-> re.num, leaving |-> re.leaving]
    ELSE LET maxW == [s \in DOMAIN num |-> IF s \in DOMAIN e THEN CMN(c, e, w, s) ELSE 0]
             rw   == RemoveNodesFromMap(w, leaving, maxW, kw)
             num2 == [s \in DOMAIN num |-> Min2(num[s], CMN(c, e, rw.m, s))]
             re   == RemoveNodesFromMap(e, rw.leaving, num2, ke)
         IN  [e |-> re.m, w |-> rw.m, num |-> re.num, leaving |-> re.leaving]

\* shuffleOutNodes / shuffleOutShard (per shard independent)
ShuffleOut(e, num, rk) ==
    LET sh(s) == ShuffleList(e[s], rk)
        k(s)  == Min2(Len(e[s]), num[s])
    IN  [out |-> [s \in DOMAIN e |-> SubSeq(sh(s), 1, k(s))],
         e   |-> [s \in DOMAIN e |-> SubSeq(sh(s), k(s) + 1, Len(e[s]))]]

\* computeNeededNodes
Needed(cur, src, max) == Min2(src, IF max > cur THEN max - cur ELSE 0)

\* moveMaxNumNodesToMap(destination = eligible, source = waiting): `range source`
RECURSIVE MoveMax(_, _, _, _, _)
MoveMax(c, dest, src, keys, k) ==
    IF k > Len(keys) THEN [dest |-> dest, src |-> src]
    ELSE LET s == keys[k]
             n == Needed(Len(Get(dest, s)), Len(src[s]), MinOf(c, s))
         IN  MoveMax(c, Put(dest, s, Get(dest, s) \o SubSeq(src[s], 1, n)),
                     [src EXCEPT ![s] = SubSeq(src[s], n + 1, Len(src[s]))], keys, k + 1)

\* equalizeValidatorsLists: fill the shorter lists up to the longest one, sorted shard order
RECURSIVE Equalize(_, _, _, _, _, _)
Equalize(dest, vals, idx, maxSize, keys, k) ==
    IF k > Len(keys) THEN [dest |-> dest, rest |-> SubSeq(vals, idx + 1, Len(vals))]
    ELSE LET s == keys[k] IN
         IF Len(dest[s]) < maxSize
         THEN LET toMove == Min2(maxSize - Len(dest[s]), Len(vals) - idx)
              IN  Equalize([dest EXCEPT ![s] = @ \o SubSeq(vals, idx + 1, idx + toMove)], vals, idx + toMove,
                           maxSize, keys, k + 1)
         ELSE Equalize(dest, vals, idx, maxSize, keys, k + 1)

\* distributeValidators: shuffled validators dealt round-robin over the sorted shard ids
RoundRobin(dest, vals, keys) ==
    LET n == Len(keys)
        idx(s) == CHOOSE j \in DOMAIN keys : keys[j] = s
        cnt(s) == IF Len(vals) >= idx(s) THEN (Len(vals) - idx(s)) \div n + 1 ELSE 0
    IN  [s \in DOMAIN dest |-> dest[s] \o [t \in 1..cnt(s) |-> vals[idx(s) + (t - 1) * n]]]

DistributeValidators(dest, vals, rk, balanced, keys) ==
    IF DOMAIN dest = {} THEN dest                     \* ErrNilOrEmptyDestinationForDistribute (logged, ignored)
    ELSE LET sh == ShuffleList(vals, rk) IN
         IF balanced
         THEN LET maxSize == CHOOSE x \in {Len(dest[s]) : s \in DOMAIN dest} : \A s \in DOMAIN dest : Len(dest[s]) <= x
                  eq == Equalize(dest, sh, 0, maxSize, keys, 1)
              IN  RoundRobin(eq.dest, eq.rest, keys)
         ELSE RoundRobin(dest, sh, keys)

\* moveNodesToMap (IntraShardValidatorDistributor): `range source`
RECURSIVE MoveNodes(_, _, _, _)
MoveNodes(dest, src, keys, k) ==
    IF k > Len(keys) THEN dest
    ELSE MoveNodes(Put(dest, keys[k], Get(dest, keys[k]) \o src[keys[k]]), src, keys, k + 1)

\* CrossShardValidatorDistributor: all shuffled-out validators concatenated in `range` order, then distributed
RECURSIVE Concat(_, _, _)
Concat(m, keys, k) == IF k > Len(keys) THEN <<>> ELSE m[keys[k]] \o Concat(m, keys, k + 1)

-----------------------------------------------------------------------------
(* UpdateNodeLists / shuffleNodes.                                           *)
(* c: the call = shuffler configuration (nb, minS, minM, cross, fixEpoch,    *)
(*    balEpoch, swap) + arguments (epoch, elig, wait, new, unstake, addl,    *)
(*    rank).                                                                 *)
(* ord: visiting order of `range` loops; unsorted: (fault injection for the  *)
(*    C13 vacuity guard) sortKeys loops also follow `ord`.                   *)
UpdateOrd(c, ord, unsorted) ==
    IF TooSmall(c) THEN [err |-> TRUE, elig |-> <<>>, wait |-> <<>>, leaving |-> <<>>, rem |-> <<>>]
    ELSE
    LET rk    == RankOf(c.rank)
        K(m)  == IF unsorted THEN RangeKeys(m, ord) ELSE SortedKeys(m)
        addl  == RemoveDupplicates(c.unstake, c.addl)
        \* createListsForAllShards (waiting only)
        w0    == [s \in DOMAIN c.wait \cup Shards(c) |-> Get(c.wait, s)]
        e0    == c.elig
        num0  == ComputeNumToRemove(c)
        remU  == RemoveLeavingNotExisting(c.unstake, w0, e0)
        remA  == RemoveLeavingNotExisting(addl, w0, e0)
        p1    == RemoveLeavingFromMaps(c, e0, w0, num0, remU, K(w0), K(e0))
        p2    == RemoveLeavingFromMaps(c, p1.e, p1.w, p1.num, remA, K(w0), K(e0))
        still == p1.leaving \o p2.leaving
        so    == ShuffleOut(p2.e, p2.num, rk)
        mm    == MoveMax(c, so.e, p2.w, RangeKeys(p2.w, ord), 1)
        w1    == DistributeValidators(mm.src, c.new, rk, FALSE, K(mm.src))
        w2    == IF c.cross
                 THEN DistributeValidators(w1, Concat(so.out, RangeKeys(so.out, ord), 1), rk, BalOn(c), K(w1))
                 ELSE MoveNodes(w1, so.out, RangeKeys(so.out, ord), 1)
        \* the code as it is: keys that were neither eligible nor waiting stay in allLeaving and are reported as
        \* leaving; intended design: only requests of known validators can be honoured
        allLeaving == IF "C12-unknown-reported-leaving" \in KnownDefects THEN c.unstake \o addl ELSE remU \o remA
    IN  [err |-> FALSE, elig |-> mm.dest, wait |-> w2,
         leaving |-> RemoveValidatorsFromList(allLeaving, still, Len(still)).l, rem |-> still]

SortedAll(c) == SetToSortSeq(AllKeys(c), <)
Update(c) == UpdateOrd(c, SortedAll(c), FALSE)

-----------------------------------------------------------------------------
(* Property predicates over one call (input c, result r).  The same operators are evaluated on the         *)
(* specification's results (R1) and on the results logged from the real shuffler (Trace_Shuffler).           *)

Flat(m) == LET ks == SortedKeys(m) IN Concat(m, ks, 1)
Count(l, v) == Cardinality({i \in DOMAIN l : l[i] = v})
OldMembers(c) == SeqSet(Flat(c.elig)) \cup SeqSet(Flat(c.wait))
Inputs(c)     == OldMembers(c) \cup SeqSet(c.new)
Requests(c)   == SeqSet(c.unstake) \cup SeqSet(c.addl)

\* the inputs are a set of distinct validators: nobody is listed twice among eligible / waiting / new
DistinctInputs(c) ==
    LET all == Flat(c.elig) \o Flat(c.wait) \o c.new IN Cardinality(SeqSet(all)) = Len(all)

Occ(r, v) == Count(Flat(r.elig), v) + Count(Flat(r.wait), v) + Count(r.leaving, v)

\* every input validator is in exactly one of new eligible / new waiting / leaving, nowhere twice
C12_Conservation(c, r) == r.err \/ \A v \in Inputs(c) : Occ(r, v) = 1
\* nothing that was not an input appears in the new lists
C12_NoForeign(c, r) == r.err \/ (SeqSet(Flat(r.elig)) \cup SeqSet(Flat(r.wait))) \subseteq Inputs(c)
\* validators reported as leaving were eligible or waiting before
C12_LeavingWereMembers(c, r) == r.err \/ SeqSet(r.leaving) \subseteq OldMembers(c)
\* the same, weakened by the named deviation "C12-unknown-reported-leaving" (what the code guarantees today): a
\* validator reported as leaving was eligible or waiting, or is a requested key that was in no input list
C12_LeavingMembersOrUnknownRequest(c, r) ==
    r.err \/ SeqSet(r.leaving) \subseteq (OldMembers(c) \cup (Requests(c) \ Inputs(c)))
\* nobody leaves without having asked to (sanity of the model; not part of C12's text)
LeavingWereRequested(c, r) == r.err \/ SeqSet(r.leaving) \subseteq Requests(c)
\* a leaving request that was not honoured leaves the validator in the lists
C12_UnhonouredStay(c, r) ==
    r.err \/ /\ \A v \in (Requests(c) \cap OldMembers(c)) \ SeqSet(r.leaving) :
                   Count(Flat(r.elig), v) + Count(Flat(r.wait), v) = 1
             /\ SeqSet(r.rem) \subseteq Requests(c)
             /\ \A v \in SeqSet(r.rem) \ SeqSet(r.leaving) : Count(Flat(r.elig), v) + Count(Flat(r.wait), v) = 1

\* C14: with the waiting-list fix active and every shard starting with >= its minimum (eligible + waiting),
\* every shard ends with >= its minimum eligible
C14_Pre(c) == \A s \in Shards(c) : Len(Get(c.elig, s)) + Len(Get(c.wait, s)) >= MinOf(c, s)
C14_MinSizes(c, r) ==
    (FixOn(c) /\ C14_Pre(c) /\ ~r.err) => \A s \in Shards(c) : Len(Get(r.elig, s)) >= MinOf(c, s)

\* C13 on observed records: all repetitions of the call (input maps rebuilt in other insertion orders, fresh
\* slices, fresh shuffler) produced the same output (outputs interned to small integers by the harness)
C13_SameOutputs(runs) == \A i \in DOMAIN runs : runs[i] = runs[1]

\* C13 at model level: the result does not depend on the order in which Go visits map keys
Perms(S) == {p \in [1..Cardinality(S) -> S] : \A i, j \in 1..Cardinality(S) : i # j => p[i] # p[j]}
C13_OrderIndependent(c) == \A o \in Perms(AllKeys(c)) : UpdateOrd(c, o, FALSE) = Update(c)
\* fault injection: with unsorted key loops the result would depend on the order (must be violated somewhere)
C13_UnsortedAlsoIndependent(c) == \A o \in Perms(AllKeys(c)) : UpdateOrd(c, o, TRUE) = Update(c)

-----------------------------------------------------------------------------
VARIABLES conf,    \* the shuffler: [nb, minS, minM, cross, fixEpoch, balEpoch, swap]
          epoch,   \* current epoch
          elig, wait,  \* current node lists (maps)
          call,    \* last call: [in |-> c, out |-> r]  (NoCall initially)
          hist     \* observation only

vars  == <<conf, epoch, elig, wait, call, hist>>
NoCall == [none |-> TRUE]

CallOf(new, unstake, addl, rank) ==
    [nb |-> conf.nb, minS |-> conf.minS, minM |-> conf.minM, cross |-> conf.cross, fixEpoch |-> conf.fixEpoch,
     balEpoch |-> conf.balEpoch, swap |-> conf.swap, epoch |-> epoch + 1,
     elig |-> elig, wait |-> wait, new |-> new, unstake |-> unstake, addl |-> addl, rank |-> rank]

\* one epoch change: the coordinator calls UpdateNodeLists and installs the result ("do nothing" on error)
UpdateNodeLists(new, unstake, addl, rank) ==
    LET c == CallOf(new, unstake, addl, rank)
        r == Update(c)
    IN  /\ call' = [in |-> c, out |-> r]
        /\ epoch' = epoch + 1
        /\ elig' = IF r.err THEN elig ELSE r.elig
        /\ wait' = IF r.err THEN wait ELSE r.wait
        /\ UNCHANGED conf
        /\ hist' = Log(hist, [a |-> "Update", in |-> c, out |-> r])

Called == call # NoCall

Inv_C12_Conservation       == Called => C12_Conservation(call.in, call.out)
Inv_C12_NoForeign          == Called => C12_NoForeign(call.in, call.out)
Inv_C12_LeavingWereMembers == Called => C12_LeavingWereMembers(call.in, call.out)
Inv_C12_LeavingMembersOrUnknownRequest == Called => C12_LeavingMembersOrUnknownRequest(call.in, call.out)
Inv_LeavingWereRequested   == Called => LeavingWereRequested(call.in, call.out)
Inv_C12_UnhonouredStay     == Called => C12_UnhonouredStay(call.in, call.out)
Inv_C14_MinSizes           == Called => C14_MinSizes(call.in, call.out)
\* sanity of the model: the call fails exactly when some shard is below its minimum
Inv_ErrIffTooSmall         == (Called /\ call.in.nb > 0) => (call.out.err <=> ~C14_Pre(call.in))
Inv_C13_OrderIndependent   == Called => C13_OrderIndependent(call.in)
Inv_C13_Unsorted           == Called => C13_UnsortedAlsoIndependent(call.in)
\* vacuity guards: each of these must be VIOLATED in the bounded model (the situations the properties talk
\* about are reachable there)
Never_Leaves        == Called => (call.out.err \/ call.out.leaving = <<>>)
Never_Unhonoured    == Called => (call.out.err \/ call.out.rem = <<>>)
Never_FixPreLeaving == Called => ~(FixOn(call.in) /\ C14_Pre(call.in) /\ ~call.out.err /\ Len(call.out.leaving) >= 2
                                   /\ \E s \in Shards(call.in) : Len(Get(call.in.elig, s)) < MinOf(call.in, s))
Never_ShuffledOut   == Called => (call.out.err \/ \A s \in DOMAIN call.out.wait :
                                     SeqSet(call.out.wait[s]) \cap SeqSet(Flat(call.in.elig)) = {})
Inv_C13_SameOutputs        == (Called /\ "runs" \in DOMAIN call.out) => C13_SameOutputs(call.out.runs)
=============================================================================
