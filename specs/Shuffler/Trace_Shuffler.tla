---- MODULE Trace_Shuffler ----
(* Trace validation for C12/C13/C14: consumes trace.ndjson recorded from the real randHashShuffler.      *)
(* Every "Update" event is one UpdateNodeLists call: `in` = Shuffler!CallOf in wire form (maps as         *)
(* sequences of [sh, l]), including the observed hash order `rank`; `out` = the real result (first run)   *)
(* and `runs` = identity of the result of each of the repeated runs.                                      *)
(* Strict mode: the real result must equal the transcription's result (a difference is drift: C12-C14 do *)
(* not prescribe the exact lists); observation mode: only binds the variables.  In both modes TLC         *)
(* evaluates the property invariants listed in the cfg on every observed call.                            *)
EXTENDS Shuffler, Json, TLCExt
LogLast(h, r) == <<r>>
TLog == ndJsonDeserialize("trace.ndjson")
VARIABLE l
tvars == <<vars, l>>
Ev == TLog[l]

MapOfWire(sq) == [s \in {sq[i].sh : i \in DOMAIN sq} |-> sq[CHOOSE i \in DOMAIN sq : sq[i].sh = s].l]
InOf(e)  == [e.in EXCEPT !.elig = MapOfWire(e.in.elig), !.wait = MapOfWire(e.in.wait)]
OutOf(e) == [err |-> e.out.err, elig |-> MapOfWire(e.out.elig), wait |-> MapOfWire(e.out.wait),
             leaving |-> e.out.leaving, rem |-> e.out.rem, runs |-> e.out.runs]

SameResult(o, s) ==
    /\ o.err = s.err
    /\ ~o.err => (o.elig = s.elig /\ o.wait = s.wait /\ o.leaving = s.leaving /\ o.rem = s.rem)

TraceInit ==
    /\ l = 1 /\ call = NoCall /\ hist = <<>> /\ epoch = 0 /\ elig = <<>> /\ wait = <<>>
    /\ conf = [nb |-> 0]

Observe(strict) ==
    /\ l <= Len(TLog) /\ Ev.a = "Update" /\ l' = l + 1
    /\ LET c == InOf(Ev)  o == OutOf(Ev) IN
         /\ DistinctInputs(c)                       \* harness obligation
         /\ strict => SameResult(o, Update(c))
         /\ call' = [in |-> c, out |-> o]
         /\ epoch' = c.epoch
         /\ elig' = IF o.err THEN c.elig ELSE o.elig
         /\ wait' = IF o.err THEN c.wait ELSE o.wait
         /\ conf' = [nb |-> c.nb]
         /\ hist' = <<>>

TraceSpec    == TraceInit /\ [][Observe(TRUE)]_tvars
TraceSpecObs == TraceInit /\ [][Observe(FALSE)]_tvars

HighWater == TLCSet(1, IF l > TLCGet(1) THEN l ELSE TLCGet(1))
Accepted  == IF TLCGet(1) = Len(TLog) + 1 THEN TRUE ELSE PrintT("@@HW " \o ToString(TLCGet(1))) /\ FALSE
ASSUME TLCSet(1, 0)
====
