---- MODULE MC_Shuffler ----
(* Bounded instances of Shuffler: exhaustive model checking (R1) and export of the enumerated calls     *)
(* (inputs) for replay on the real shuffler.                                                           *)
EXTENDS Shuffler, Json, FiniteSetsExt
CONSTANTS
    NbSet,        \* numbers of shards (metachain always present)
    MinSet,       \* candidate pairs <<minShard, minMeta>> : see MinPairs
    CrossSet,     \* subset of BOOLEAN: ShuffleBetweenShards
    FixEpochs,    \* WaitingListFixEnableEpoch candidates (calls happen at epochs E0+1, E0+2, ...)
    BalEpochs,    \* BalanceWaitingListsEnableEpoch candidates
    SwapKinds,    \* subset of {"default", "cap1", "cap0", "multi"}: MaxNodesEnableConfig variants
    DropSet,      \* subset of BOOLEAN: TRUE = empty lists have no key in the input maps
    MaxList,      \* max size of one eligible / waiting list
    MaxTotal,     \* max number of validators in all lists
    MaxNew,       \* max new nodes per call
    MaxUnstake, MaxAddl, MaxLeave,   \* bounds on the enumerated leaving lists (each, and together)
    BigLeave,     \* BOOLEAN: additionally the "everybody leaves" patterns (all / all eligible / all waiting)
    RankKinds,    \* subset of {"id", "rev", "mix"}
    Depth,        \* number of epoch changes per behaviour
    ExportMod     \* behaviour export: one call in ExportMod (1 = all)

E0 == 4
MinPairs == IF MinSet = "all" THEN {<<1, 1>>, <<2, 1>>, <<1, 2>>, <<2, 2>>}
            ELSE IF MinSet = "diag" THEN {<<1, 1>>, <<2, 2>>, <<2, 1>>}
            ELSE IF MinSet = "two" THEN {<<1, 1>>, <<2, 2>>}
            ELSE IF MinSet = "low" THEN {<<1, 1>>} ELSE {<<2, 2>>}
SwapOf(k) == CASE k = "default" -> <<>>
               [] k = "cap1"  -> <<[ep |-> E0, n |-> 1]>>
               [] k = "cap0"  -> <<[ep |-> E0 + 1, n |-> 0]>>
               [] k = "multi" -> <<[ep |-> 1, n |-> 0], [ep |-> E0 + 1, n |-> 2], [ep |-> E0 + 3, n |-> 0]>>

\* list slots: for shards 0..nb-1 and META: eligible then waiting
SlotShards(nb) == [i \in 1..(nb + 1) |-> IF i = nb + 1 THEN META ELSE i - 1]
SizeVectors(nb) == {v \in [1..(2 * (nb + 1)) -> 0..MaxList] : FoldFunction(+, 0, v) <= MaxTotal}
Offset(v, j) == FoldFunctionOnSet(+, 0, v, 1..(j - 1))
ListOf(v, j) == [i \in 1..v[j] |-> Offset(v, j) + i]
MapOfSlots(v, nb, first, drop) ==
    LET ss == SlotShards(nb)
        keep == {i \in 1..(nb + 1) : ~drop \/ v[2 * (i - 1) + first] > 0}
    IN  [s \in {ss[i] : i \in keep} |-> LET i == CHOOSE i \in keep : ss[i] = s IN ListOf(v, 2 * (i - 1) + first)]

MCInit ==
    /\ \E nb \in NbSet, mp \in MinPairs, cr \in CrossSet, fe \in FixEpochs, be \in BalEpochs, sk \in SwapKinds, dr \in DropSet :
         /\ conf = [nb |-> nb, minS |-> mp[1], minM |-> mp[2], cross |-> cr, fixEpoch |-> fe, balEpoch |-> be,
                    swap |-> SwapOf(sk)]
         /\ \E v \in SizeVectors(nb) :
              \* calls that fail (some shard below its minimum) are kept only for the smallest size vectors
              /\ \/ \A i \in 1..(nb + 1) : v[2 * i - 1] + v[2 * i] >= (IF i = nb + 1 THEN mp[2] ELSE mp[1])
                 \/ FoldFunction(+, 0, v) <= 2
              /\ elig = MapOfSlots(v, nb, 1, dr)
              /\ wait = MapOfSlots(v, nb, 2, dr)
    /\ epoch = E0
    /\ call = NoCall
    /\ hist = <<>>

Members == SeqSet(Flat(elig)) \cup SeqSet(Flat(wait))
NewIds(k) == [i \in 1..k |-> 40 + 10 * (epoch - E0) + i]
Unknown == 99
RankKey(kind, v) == CASE kind = "id" -> v [] kind = "rev" -> 0 - v [] kind = "mix" -> (v * 37) % 101
RankSeq(kind, S) == SetToSortSeq(S, LAMBDA a, b : RankKey(kind, a) < RankKey(kind, b))
SeqsUpTo(S, n) == UNION {[1..k -> S] : k \in 0..n}

MCNext ==
    /\ epoch - E0 < Depth
    /\ \E k \in 0..MaxNew :
         LET new == NewIds(k)
             \* leaving requests name eligible/waiting validators or unknown keys (never a node that registers in
             \* the same call: a validator has one list status)
             syms == Members \cup {Unknown}
             fe == Flat(elig)  fw == Flat(wait)
             big == IF BigLeave THEN {<<fe \o fw, <<>> >>, <<Reverse(fw \o fe), <<Unknown>> >>, <<fe, fw>>, <<fw, <<>> >>,
                                     <<fe, <<>> >>, << <<>>, Reverse(fe) \o fw>>, <<fw \o fw, fe>>}
                    ELSE {}
         IN  \E rkind \in RankKinds :
               \/ \E us \in SeqsUpTo(syms, MaxUnstake), ad \in SeqsUpTo(syms, MaxAddl) :
                     /\ Len(us) + Len(ad) <= MaxLeave
                     /\ UpdateNodeLists(new, us, ad, RankSeq(rkind, Members \cup SeqSet(new)))
               \/ \E b \in big : UpdateNodeLists(new, b[1], b[2], RankSeq(rkind, Members \cup SeqSet(new)))

MCSpec == MCInit /\ [][MCNext]_vars

LogAppend(h, r) == Append(h, r)
LogLast(h, r) == <<r>>

\* wire format shared with the harness: a map is a sequence of [sh, l] records in ascending shard order
WireMap(m) == LET ks == SortedKeys(m) IN [i \in DOMAIN ks |-> [sh |-> ks[i], l |-> m[ks[i]]]]
WireIn(c) == [c EXCEPT !.elig = WireMap(c.elig), !.wait = WireMap(c.wait)]
\* export: the input of every call (the expected result is recomputed by TLC when it validates the trace the
\* harness records while replaying these inputs on the real shuffler)
Mix(acc, x) == (acc * 31 + x + 7) % 1000003
MixSeq(acc, sq) == FoldLeft(Mix, acc, sq)
Hash(c) ==
    LET lists == WireMap(c.elig) \o WireMap(c.wait)
        h1 == MixSeq(MixSeq(MixSeq(MixSeq(17, c.unstake), <<999>> \o c.addl), <<998>> \o c.new), <<997>> \o c.rank)
        h2 == FoldLeft(LAMBDA acc, x : MixSeq(Mix(acc, x.sh % 1000), x.l), h1, lists)
    IN  MixSeq(h2, <<c.nb, c.minS, c.minM, IF c.cross THEN 1 ELSE 0, c.fixEpoch, c.balEpoch, Len(c.swap), c.epoch>>)
EmitEdge == (Hash(call'.in) % ExportMod = 0) =>
               PrintT("@@B " \o ToJson(<<[a |-> "Update", in |-> WireIn(call'.in), out |-> [err |-> call'.out.err]]>>))
====
