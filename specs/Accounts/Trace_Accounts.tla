---- MODULE Trace_Accounts ----
(* Strict trace validation: every recorded event must be the corresponding Accounts.tla action with the logged     *)
(* result and the logged (projected) state; the specification's invariants are evaluated on every state.  A trace  *)
(* that leaves the specification at a Revert event contradicts C06; elsewhere it is drift of the functional model. *)
EXTENDS Accounts, Json, TLCExt
LogLast(h, r) == <<r>>
TLog == ndJsonDeserialize("trace.ndjson")
VARIABLES l,
          jlAt      \* event number in the trace -> the specification's journal length at the end of that event
tvars == <<vars, l, jlAt>>
Ev == TLog[l]
IsEvent(name) == l <= Len(TLog) /\ Ev.a = name /\ l' = l + 1

\* the logged projection: fields, code, storage of every account; code leaves
Matches ==
    LET s == hist'[1].st IN
    /\ hist'[1].out.err = Ev.out.err
    /\ \A a \in Addr :
          /\ s.acc[a].ex = Ev.st.acc[a].ex /\ s.acc[a].nonce = Ev.st.acc[a].nonce /\ s.acc[a].bal = Ev.st.acc[a].bal
          /\ s.acc[a].owner = Ev.st.acc[a].owner /\ s.acc[a].meta = Ev.st.acc[a].meta
          /\ s.acc[a].code = Ev.st.acc[a].code
          /\ \A k \in SKey : s.acc[a].sto[k] = Ev.st.acc[a].sto[k]
    /\ \A c \in Code : /\ Ev.st.code[c].exists = (s.code[c] > 0)
                       /\ Ev.st.code[c].exists => Ev.st.code[c].refs = s.code[c]
Track == jlAt' = (jlAt @@ (Ev.i :> Len(journal')))

TraceInit ==
    /\ l = 1 /\ jlAt = <<>>
    /\ main = [a \in Addr |-> Absent] /\ codeTbl = [c \in Code |-> 0] /\ tries = <<>> /\ holder = NoHolder
    /\ journal = <<>> /\ committed = [main |-> main, codeTbl |-> codeTbl] /\ persisted = {}
    /\ hnd = [a \in Addr |-> <<>>]
    /\ stateAt = (0 :> Abs) /\ expect = Abs /\ hist = <<>>
TNew ==
    /\ IsEvent("New")
    /\ main' = [a \in Addr |-> Absent] /\ codeTbl' = [c \in Code |-> 0] /\ tries' = <<>> /\ holder' = NoHolder
    /\ journal' = <<>> /\ committed' = [main |-> main', codeTbl |-> codeTbl'] /\ persisted' = {}
    /\ hnd' = [a \in Addr |-> <<>>]
    /\ stateAt' = (0 :> Abs') /\ expect' = Abs'
    /\ hist' = <<[a |-> "New", in |-> Ev.in, out |-> Ev.out, st |-> Abs']>>
    /\ jlAt' = (Ev.i :> 0)
TSave   == IsEvent("Save") /\ Save(Ev.in.a, [dn |-> Ev.in.dn, bal |-> Ev.in.bal, owner |-> Ev.in.owner, meta |-> Ev.in.meta,
                                               code |-> Ev.in.code, w |-> Ev.in.w]) /\ Matches /\ Track
TRemove == IsEvent("Remove") /\ Remove(Ev.in.a) /\ Matches /\ Track
TRevert == IsEvent("Revert")
           /\ (IF Ev.out.err THEN RevertBad ELSE (Ev.in.pos \in DOMAIN jlAt /\ Revert(jlAt[Ev.in.pos])))
           /\ Matches /\ Track
TCommit == IsEvent("Commit") /\ Commit /\ Matches /\ Track
TraceNext == TNew \/ TSave \/ TRemove \/ TRevert \/ TCommit
TraceSpec == TraceInit /\ [][TraceNext]_tvars

HighWater == TLCSet(1, IF l > TLCGet(1) THEN l ELSE TLCGet(1))
Accepted  == IF TLCGet(1) = Len(TLog) + 1 THEN TRUE ELSE PrintT("@@HW " \o ToString(TLCGet(1))) /\ FALSE
ASSUME TLCSet(1, 0)
====
