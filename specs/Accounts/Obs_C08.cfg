SPECIFICATION ObsSpec
CONSTRAINTS HighWater CheckC08
POSTCONDITION Accepted
CHECK_DEADLOCK FALSE
