SPECIFICATION TraceSpec
CONSTANTS
  Addr = {"A","B","C","D","E","F"}
  Code = {"c1","c2","c3"}
  SKey = {"k1","k2","k3","k4"}
  Changes = {}
  MaxHandles = 0
  HChanges = {}
  KnownDefects = {}
  Log <- LogLast
CONSTRAINT HighWater
INVARIANTS TypeOK Inv_C06_RevertRestores Inv_C06_StorageMatchesRoot Inv_Loadable Inv_C07_RefCount
POSTCONDITION Accepted
CHECK_DEADLOCK FALSE
