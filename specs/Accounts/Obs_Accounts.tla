---- MODULE Obs_Accounts ----
(***************************************************************************)
(* Observation-only trace specification for C06 / C07: consumes a trace    *)
(* recorded from the real AccountsDB (vh-accounts record) and evaluates    *)
(* the two properties literally on the OBSERVED states - no model of the   *)
(* implementation is involved, so nothing but a false property can fail.   *)
(*                                                                         *)
(* Event: [t, i, a, in, out, st].  st = [acc |-> [addr |-> [ex, nonce,     *)
(* bal, owner, meta, code, sto]], code |-> [c |-> [exists, refs]],         *)
(* root |-> interned root hash].  A Revert event names the event `pos`     *)
(* (sequence number in its trace) at whose end JournalLen returned the     *)
(* length it reverts to; for length 0 that is the last Commit (or New).    *)
(***************************************************************************)
EXTENDS Integers, Sequences, FiniteSets, TLC, Json, TLCExt

TLog == ndJsonDeserialize("trace.ndjson")
VARIABLES l,        \* next line
          obs,      \* the state observed after the last event
          snaps,    \* event number -> state observed at the end of that event (snapshots still valid)
          expect    \* the state C06 demands after the last event
ovars == <<l, obs, snaps, expect>>
Ev == TLog[l]
IsEvent(name) == l <= Len(TLog) /\ Ev.a = name /\ l' = l + 1

ObsInit == l = 1 /\ obs = [acc |-> <<>>, code |-> <<>>, root |-> 0] /\ snaps = <<>> /\ expect = obs

ONew    == IsEvent("New") /\ obs' = Ev.st /\ snaps' = (Ev.i :> Ev.st) /\ expect' = Ev.st
OCall   == (IsEvent("Save") \/ IsEvent("Remove"))
           /\ obs' = Ev.st /\ snaps' = (snaps @@ (Ev.i :> Ev.st)) /\ expect' = Ev.st
OCommit == IsEvent("Commit") /\ obs' = Ev.st /\ snaps' = (Ev.i :> Ev.st) /\ expect' = Ev.st
ORevert == /\ IsEvent("Revert")
           /\ obs' = Ev.st
           /\ IF Ev.out.err
              THEN /\ expect' = obs /\ snaps' = (snaps @@ (Ev.i :> Ev.st))        \* rejected: nothing changes
              ELSE /\ Ev.in.pos \in DOMAIN snaps
                   /\ expect' = snaps[Ev.in.pos]
                   /\ snaps' = ([p \in {q \in DOMAIN snaps : q <= Ev.in.pos} |-> snaps[p]] @@ (Ev.i :> Ev.st))
ObsNext == ONew \/ OCall \/ OCommit \/ ORevert
ObsSpec == ObsInit /\ [][ObsNext]_ovars

\* C06: after RevertToSnapshot the observed state (every field, code, storage value, root hash) is the state
\* observed when that journal length was recorded
InvObs_C06_RevertRestores == obs = expect

\* C07: a code leaf exists iff an existing account carries the hash; NumReferences = number of such accounts
Referrers(c) == Cardinality({a \in DOMAIN obs.acc : obs.acc[a].ex /\ obs.acc[a].code = c})
InvObs_C07_RefCount ==
    \A c \in DOMAIN obs.code :
        /\ obs.code[c].exists = (Referrers(c) > 0)
        /\ obs.code[c].exists => obs.code[c].refs = Referrers(c)

\* The properties are evaluated on every observed state by the state constraints below (always TRUE): the first state
\* on which a property is false is reported as "@@BADCxx <line of the event that produced it>" and the run goes on
\* (an INVARIANT would make TLC print the whole behaviour - thousands of large states).  -workers 1.
Report(reg, tag, ok) == ok \/ TLCGet(reg) # 0 \/ (TLCSet(reg, l) /\ PrintT("@@" \o tag \o " " \o ToString(l - 1)))
CheckC06 == Report(2, "BADC06", InvObs_C06_RevertRestores)
CheckC07 == Report(3, "BADC07", InvObs_C07_RefCount)

HighWater == TLCSet(1, IF l > TLCGet(1) THEN l ELSE TLCGet(1))
Accepted  == IF TLCGet(1) = Len(TLog) + 1 THEN TRUE ELSE PrintT("@@HW " \o ToString(TLCGet(1))) /\ FALSE
ASSUME TLCSet(1, 0) /\ TLCSet(2, 0) /\ TLCSet(3, 0)
====
