---- MODULE MC_DataTrie ----
EXTENDS DataTrie, Json, Randomization
CONSTANT Depth

LogAppend(h, r) == Append(h, r)
LogLast(h, r) == <<r>>

\* key bytes: a one-byte key, a key extending it, an unrelated key
MCKB == [p |-> <<1>>, pq |-> <<1, 2>>, q |-> <<2>>]
MCKB2 == [p |-> <<1>>, pq |-> <<1, 2>>]
MCKB1 == [p |-> <<1, 2>>]
Addr2  == <<7, 8>>
Addr32 == [i \in 1..32 |-> 100 + i]
MCAddrsSmall == {Addr2}
MCAddrsBoth  == {Addr2, Addr32}
MCAddrs32    == {Addr32}

DepthBound == TLCGet("level") <= Depth

GenNext  == Len(hist) < Depth /\ Next
GenSpec  == Init /\ [][GenNext]_vars
EmitEdge == PrintT("@@B " \o ToJson(hist'))

\* R1 on the code as it exists: print the behaviour that breaks the property and stop
EmitViolation == Inv_C08_ReadBack \/ (PrintT("@@B " \o ToJson(hist)) /\ FALSE)

\* value sizes around the leaf-size limit (core.MaxLeafSize = 64 MB): SaveKeyValue accepts a value iff its length
\* does not exceed the limit; an accepted value reads back at every point, a rejected call changes nothing.
\* (TLC cannot hold such sequences: the step carries the length only, the harness fills a pattern of that length.)
LeafLimit == 67108864
LimitSizes == {0, 1, 4096, 1048576, LeafLimit - 1, LeafLimit, LeafLimit + 1, LeafLimit + 4096}
Big(n) == /\ UNCHANGED cvars
          /\ hist' = Append(hist, [a |-> "Big", in |-> [n |-> n, limit |-> LeafLimit], out |-> [accepted |-> n <= LeafLimit],
                                   st |-> [x |-> 0]])
LimitNext == Len(hist) < Depth /\ \E n \in LimitSizes : Big(n)
LimitSpec == Init /\ [][LimitNext]_vars

End == /\ UNCHANGED cvars
       /\ hist' = Append(hist, [a |-> "End", in |-> [x |-> 0], out |-> [x |-> 0], st |-> hist[Len(hist)].st])
SimStep ==
    \/ \E k \in KeyNames, sh \in RandomSubset(2, Shapes), l \in RandomSubset(2, Layouts) : Write(k, sh, l)
    \/ \E b \in RandomSubset(1, 1..2) : Scribble(b)
    \/ SaveAccount
    \/ Commit
    \/ Reload
SimNext  == IF Len(hist) < Depth - 1 THEN SimStep ELSE (Len(hist) = Depth - 1 /\ End)
SimSpec  == Init /\ [][SimNext]_vars
EmitFull == (Len(hist') = Depth) => PrintT("@@B " \o ToJson(hist'))
====
