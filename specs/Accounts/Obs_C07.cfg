SPECIFICATION ObsSpec
CONSTRAINTS HighWater CheckC07
POSTCONDITION Accepted
CHECK_DEADLOCK FALSE
