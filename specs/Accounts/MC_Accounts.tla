---- MODULE MC_Accounts ----
EXTENDS Accounts, Json
CONSTANTS Depth, SVal

LogAppend(h, r) == Append(h, r)
LogLast(h, r) == <<r>>

Keep == [dn |-> 0, bal |-> -1, owner |-> "keep", meta |-> "keep", code |-> "keep", w |-> <<>>]

\* storage write batches: nothing, one write/delete, and two-entry batches (two keys; same key twice, last wins)
W1 == {<<[k |-> k, v |-> v]>> : k \in SKey, v \in SVal \cup {""}}
W2 == {<<[k |-> k1, v |-> v1], [k |-> k2, v |-> v2]>> : k1 \in SKey, k2 \in SKey, v1 \in SVal, v2 \in SVal \cup {""}}
W2d == {w \in W2 : w[1].k # w[2].k \/ w[1].v # w[2].v}

\* change sets (cfg: Changes <- ...)
ChCode   == {[Keep EXCEPT !.code = c] : c \in Code \cup {"keep", ""}}
ChSto    == {[Keep EXCEPT !.w = w] : w \in W1 \cup {<<>>}}
ChSto2   == {[Keep EXCEPT !.w = w] : w \in W1 \cup W2d \cup {<<>>}}
ChFields == {[Keep EXCEPT !.dn = 1], [Keep EXCEPT !.bal = 1], [Keep EXCEPT !.bal = 2],
             [Keep EXCEPT !.owner = "o1", !.meta = "m1"], [Keep EXCEPT !.owner = "", !.meta = "m2"]}
ChMixed  == ChCode \cup ChSto \cup ChFields
             \cup {[Keep EXCEPT !.code = c, !.w = w, !.dn = 1] : c \in Code, w \in W1}
ChAll    == {[dn |-> dn, bal |-> b, owner |-> o, meta |-> o2, code |-> c, w |-> w] :
                dn \in {0, 1}, b \in {-1, 1, 2}, o \in {"keep", "o1"}, o2 \in {"keep", "", "m1"},
                c \in Code \cup {"keep", ""}, w \in W1 \cup W2d \cup {<<>>}}

\* exhaustive checking is bounded by the search depth
DepthBound == TLCGet("level") <= Depth

\* behaviour export (see specs/CapLRU/MC_CapLRU.tla)
GenNext  == Len(hist) < Depth /\ Next
GenSpec  == Init /\ [][GenNext]_vars
EmitEdge == PrintT("@@B " \o ToJson(hist'))
EmitFull == (Len(hist') = Depth) => PrintT("@@B " \o ToJson(hist'))
====
