---- MODULE MC_Accounts ----
EXTENDS Accounts, Json, Randomization
CONSTANTS Depth, SVal,
          SetupAddrs   \* accounts that exist with committed storage in InitSetup

LogAppend(h, r) == Append(h, r)
LogLast(h, r) == <<r>>

Keep == [dn |-> 0, bal |-> -1, owner |-> "keep", meta |-> "keep", code |-> "keep", w |-> <<>>]

\* storage write batches: nothing, one write/delete, and two-entry batches (two keys; same key twice, last wins)
W1 == {<<[k |-> k, v |-> v]>> : k \in SKey, v \in SVal \cup {""}}
W2 == {<<[k |-> k1, v |-> v1], [k |-> k2, v |-> v2]>> : k1 \in SKey, k2 \in SKey, v1 \in SVal, v2 \in SVal \cup {""}}
W2d == {w \in W2 : w[1].k # w[2].k \/ w[1].v # w[2].v}

\* change sets (cfg: Changes <- ...)
ChCode   == {[Keep EXCEPT !.code = c] : c \in Code \cup {"keep", ""}}
ChSto    == {[Keep EXCEPT !.w = w] : w \in W1 \cup {<<>>}}
ChSto2   == {[Keep EXCEPT !.w = w] : w \in W1 \cup W2d \cup {<<>>}}
ChCodeSto == {[Keep EXCEPT !.code = c, !.w = w] : c \in Code \cup {"keep", ""}, w \in W1 \cup {<<>>}}
ChFields == {[Keep EXCEPT !.dn = 1], [Keep EXCEPT !.bal = 1], [Keep EXCEPT !.bal = 2],
             [Keep EXCEPT !.owner = "o1", !.meta = "m1"], [Keep EXCEPT !.owner = "", !.meta = "m2"]}
ChMixed  == ChCode \cup ChSto \cup ChFields
             \cup {[Keep EXCEPT !.code = c, !.w = w, !.dn = 1] : c \in Code, w \in W1}
ChAll    == {[dn |-> dn, bal |-> b, owner |-> o, meta |-> o2, code |-> c, w |-> w] :
                dn \in {0, 1}, b \in {-1, 1, 2}, o \in {"keep", "o1"}, o2 \in {"keep", "", "m1"},
                c \in Code \cup {"keep", ""}, w \in W1 \cup W2d \cup {<<>>}}

\* ---- behaviours that start from a COMMITTED state: the accounts in SetupAddrs exist with committed storage (every key
\* = SetupVal) and nothing has been loaded since that commit (the data tries holder is empty).  The harness reaches
\* this state with Save + Commit and, in its second pass, reads nothing before the calls of the behaviour, so calls
\* like RemoveAccount hit accounts whose data trie is NOT in the holder (as in a new block).
SetupVal   == "v1"
SetupSto   == [k \in SKey |-> SetupVal]
SetupRec   == [ex |-> TRUE, nonce |-> 0, bal |-> 0, owner |-> "", meta |-> "", code |-> "",
               root |-> [has |-> TRUE, m |-> SetupSto]]
InitSetup ==
    /\ main = [a \in Addr |-> IF a \in SetupAddrs THEN SetupRec ELSE Absent]
    /\ codeTbl = [c \in Code |-> 0] /\ tries = <<>> /\ holder = NoHolder /\ journal = <<>> /\ hnd = [a \in Addr |-> <<>>]
    /\ committed = [main |-> main, codeTbl |-> codeTbl]
    /\ persisted = {<<a, SetupSto>> : a \in SetupAddrs}
    /\ stateAt = (0 :> Abs) /\ expect = Abs
    /\ hist = <<[a |-> "New", in |-> [setup |-> SetupAddrs, val |-> SetupVal], out |-> [err |-> FALSE, jl |-> 0], st |-> Abs]>>
\* the accounts without committed storage only provide journal entries (snapshots > 0 that do not touch the others)
SetupStep ==
    \/ \E a \in SetupAddrs, ch \in Changes : Save(a, ch)
    \/ \E a \in Addr \ SetupAddrs : Save(a, Keep)
    \/ \E a \in SetupAddrs : Remove(a)
    \/ \E n \in DOMAIN stateAt : Revert(n)
    \/ Commit
SetupSpec    == InitSetup /\ [][SetupStep]_vars
GenSetupSpec == InitSetup /\ [][Len(hist) < Depth /\ SetupStep]_vars

\* ---- kept account objects (handles): the accounts in SetupAddrs are driven through kept objects AND fresh
\* load-modify-save calls, the other accounts through fresh calls only (they share code with the former)
HCode == {[Keep EXCEPT !.code = c] : c \in Code \cup {"keep"}}
HAll  == {[dn |-> dn, bal |-> -1, owner |-> "keep", meta |-> o2, code |-> c, w |-> <<>>] :
             dn \in {0, 1}, o2 \in {"keep", "m1"}, c \in Code \cup {"keep", ""}}
ChCodeSet == {[Keep EXCEPT !.code = c] : c \in Code \cup {""}}
HandleStep ==
    \/ \E a \in SetupAddrs, i \in 1..MaxHandles : Load(a, i)
    \/ \E a \in SetupAddrs, i \in 1..MaxHandles, ch \in HChanges : SaveH(a, i, ch)
    \/ \E a \in Addr, ch \in Changes : Save(a, ch)
    \/ \E a \in SetupAddrs : Remove(a)
    \/ \E n \in DOMAIN stateAt : Revert(n)
    \/ Commit
HandleSpec    == Init /\ [][HandleStep]_vars
GenHandleSpec == Init /\ [][Len(hist) < Depth /\ HandleStep]_vars
\* exhaustive checking is bounded by the search depth
DepthBound == TLCGet("level") <= Depth

\* behaviour export (see specs/CapLRU/MC_CapLRU.tla)
GenNext  == Len(hist) < Depth /\ Next
GenSpec  == Init /\ [][GenNext]_vars
GenCoreNext == Len(hist) < Depth /\ NextCore
GenCoreSpec == Init /\ [][GenCoreNext]_vars
CoreSpec == Init /\ [][NextCore]_vars
EmitEdge == PrintT("@@B " \o ToJson(hist'))

\* R1 on the code as it exists (KnownDefects # {}): print the behaviour that breaks the property and stop
EmitViolationC06 == Inv_C06_RevertRestores \/ (PrintT("@@B " \o ToJson(hist)) /\ FALSE)
EmitViolationC07 == Inv_C07_RefCount \/ (PrintT("@@B " \o ToJson(hist)) /\ FALSE)
\* simulation: random walks of Depth-1 calls closed by a marker step, so that each walk is printed exactly once
End == /\ UNCHANGED cvars
       /\ hist' = Append(hist, [a |-> "End", in |-> [x |-> 0], out |-> [err |-> FALSE, jl |-> Len(journal)], st |-> Abs])
\* TLC's simulator picks uniformly among ALL successor states, so the candidates are sampled here: a few random
\* changes per account, removals of existing accounts (rarely of a missing one), two random snapshots, a rare commit
SimStep ==
    \/ \E a \in Addr, ch \in RandomSubset(2, Changes) : Save(a, ch)
    \/ \E a \in Addr : (main[a].ex \/ RandomElement(1..6) = 1) /\ Remove(a)
    \/ \E n \in RandomSubset(2, DOMAIN stateAt) : Revert(n)
    \/ RandomElement(1..8) = 1 /\ RevertBad
    \/ RandomElement(1..3) = 1 /\ Commit
SimNext  == IF Len(hist) < Depth - 1 THEN SimStep ELSE (Len(hist) = Depth - 1 /\ End)
SimSpec  == Init /\ [][SimNext]_vars
SimSetupSpec == InitSetup /\ [][SimNext]_vars
SimHandleStep ==
    \/ \E a \in Addr, i \in RandomSubset(1, 1..MaxHandles) : Load(a, i)
    \/ \E a \in Addr, i \in 1..MaxHandles, ch \in RandomSubset(1, HChanges) : SaveH(a, i, ch)
    \/ \E a \in Addr, ch \in RandomSubset(1, Changes) : Save(a, ch)
    \/ \E a \in Addr : main[a].ex /\ RandomElement(1..2) = 1 /\ Remove(a)
    \/ \E n \in RandomSubset(2, DOMAIN stateAt) : Revert(n)
    \/ RandomElement(1..4) = 1 /\ Commit
SimHandleSpec == Init /\ [][IF Len(hist) < Depth - 1 THEN SimHandleStep ELSE (Len(hist) = Depth - 1 /\ End)]_vars

EmitFull == (Len(hist') = Depth) => PrintT("@@B " \o ToJson(hist'))
====
