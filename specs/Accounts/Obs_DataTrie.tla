---- MODULE Obs_DataTrie ----
(***************************************************************************)
(* Observation-only trace specification for C08: consumes a trace recorded *)
(* from the real TrackableDataTrie / AccountsDB by a random driver that    *)
(* uses arbitrary caller slices (vh-accounts record8) and evaluates the    *)
(* property literally: after every call every key reads, without error,    *)
(* the bytes the caller wrote last under it (empty after a delete).        *)
(* Event st = [read |-> [key name |-> bytes, or <<-1>> for a failed read]]  *)
(***************************************************************************)
EXTENDS Integers, Sequences, FiniteSets, TLC, Json, TLCExt

TLog == ndJsonDeserialize("trace.ndjson")
VARIABLES l, lastW, reads
ovars == <<l, lastW, reads>>
Ev == TLog[l]
IsEvent(name) == l <= Len(TLog) /\ Ev.a = name /\ l' = l + 1

ObsInit == l = 1 /\ lastW = <<>> /\ reads = <<>>
ONew   == IsEvent("New") /\ lastW' = [k \in DOMAIN Ev.in.keys |-> <<>>] /\ reads' = Ev.st.read
OWrite == IsEvent("Write") /\ lastW' = [lastW EXCEPT ![Ev.in.k] = Ev.in.vb] /\ reads' = Ev.st.read
OOther == (IsEvent("Scribble") \/ IsEvent("SaveAccount") \/ IsEvent("Commit") \/ IsEvent("Reload"))
          /\ UNCHANGED lastW /\ reads' = Ev.st.read
ObsNext == ONew \/ OWrite \/ OOther
ObsSpec == ObsInit /\ [][ObsNext]_ovars

InvObs_C08_ReadBack == \A k \in DOMAIN lastW : reads[k] = lastW[k]

Report(reg, tag, ok) == ok \/ TLCGet(reg) # 0 \/ (TLCSet(reg, l) /\ PrintT("@@" \o tag \o " " \o ToString(l - 1)))
CheckC08 == Report(2, "BADC08", InvObs_C08_ReadBack)
HighWater == TLCSet(1, IF l > TLCGet(1) THEN l ELSE TLCGet(1))
Accepted  == IF TLCGet(1) = Len(TLog) + 1 THEN TRUE ELSE PrintT("@@HW " \o ToString(TLCGet(1))) /\ FALSE
ASSUME TLCSet(1, 0) /\ TLCSet(2, 0)
====
