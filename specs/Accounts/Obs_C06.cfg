SPECIFICATION ObsSpec
CONSTRAINTS HighWater CheckC06
POSTCONDITION Accepted
CHECK_DEADLOCK FALSE
