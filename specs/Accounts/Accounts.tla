------------------------------ MODULE Accounts ------------------------------
(***************************************************************************)
(* Specification of data/state.AccountsDB (user accounts) as far as        *)
(* properties C06 (revert to a journal snapshot) and C07 (code reference   *)
(* counting) are concerned.  Structured like the implementation:           *)
(*                                                                         *)
(*   main      the working main trie, account leaves  (address -> record)  *)
(*   codeTbl   the working main trie, code leaves     (hash -> NumReferences, 0 = no leaf) *)
(*   tries     the data-trie OBJECTS created since the last commit/reset   *)
(*             (a data trie is a mutable object shared by every account    *)
(*             object loaded for that address: AccountsDB.dataTries)       *)
(*   holder    AccountsDB.dataTries : address -> trie object (0 = none)    *)
(*   journal   AccountsDB.entries, the undo records exactly as SaveAccount *)
(*             / RemoveAccount create them (journalEntryAccount,           *)
(*             journalEntryAccountCreation, journalEntryDataTrieUpdates,   *)
(*             journalEntryCode, journalEntryDataTrieRemove, and - in the  *)
(*             intended design - journalEntryDataTrieHolder)               *)
(*   committed the state at the last Commit (lastRootHash)                 *)
(*   persisted data tries (address, content) whose nodes are in storage    *)
(*                                                                         *)
(* A caller uses an account object in the documented discipline: load,     *)
(* modify, save (one Save action).  JournalLen is observed after every     *)
(* call, so every call boundary is a snapshot (stateAt).                   *)
(*                                                                         *)
(* Named deviations of the code as it exists (KnownDefects):               *)
(*  "stale-data-trie"  reverting a RemoveAccount leaves in dataTries the   *)
(*                     trie object of an account re-created in between     *)
(*  "partial-remove"   RemoveAccount drops the code reference before the   *)
(*                     fallible data-trie step, so a failing removal keeps *)
(*                     the account but has decremented/deleted its code    *)
(*  "stale-code-hash-overwrite"  an account object that is stale in its    *)
(*                     code hash and never called SetCode is written with  *)
(*                     its own CodeHash field (whole-record overwrite):    *)
(*                     the leaf's code hash changes without the entries    *)
(* With KnownDefects = {} the module is the intended design.               *)
(***************************************************************************)
EXTENDS Integers, Sequences, FiniteSets, TLC

CONSTANTS Addr,          \* addresses (strings)
          Code,          \* code identifiers = code hashes (strings, "" = no code)
          SKey,          \* storage keys (strings)
          Changes,       \* set of change records a Save may apply (see Save)
          MaxHandles,    \* account objects a caller may keep per address (0: load-modify-save only)
          HChanges,      \* change records applied when a kept object is saved (no storage writes)
          KnownDefects,
          Log(_, _)

VARIABLES main, codeTbl, tries, holder, journal, committed, persisted,
          hnd,           \* account OBJECTS the caller keeps: address -> sequence of handles (object fields as they are
                         \* in the object: they go stale when the account is saved through another object or a
                         \* save is reverted)
          stateAt,       \* history: journal length at a call boundary -> abstract state then
          expect,        \* history: the abstract state the property demands after the last call
          hist           \* observation only

cvars == <<main, codeTbl, tries, holder, journal, committed, persisted, hnd, stateAt, expect>>
vars  == <<main, codeTbl, tries, holder, journal, committed, persisted, hnd, stateAt, expect, hist>>

NoSto   == [k \in SKey |-> ""]
NilRoot == [has |-> FALSE, m |-> NoSto]      \* RootHash = nil (account never had a data trie)
Absent  == [ex |-> FALSE, nonce |-> 0, bal |-> 0, owner |-> "", meta |-> "", code |-> "", root |-> NilRoot]
NoHolder == [a \in Addr |-> 0]

-----------------------------------------------------------------------------
(* What a client reads (LoadAccount + getters + RetrieveValue + GetCode) *)

\* LoadAccount attaches dataTries[a] if present, else recreates the trie from the account's root hash
StoOf(m, h, t, a) ==
    IF m[a].ex /\ m[a].root.has
    THEN (IF h[a] # 0 THEN t[h[a]] ELSE m[a].root.m)
    ELSE NoSto

ViewOf(m, h, t, a) ==
    [ex |-> m[a].ex, nonce |-> m[a].nonce, bal |-> m[a].bal, owner |-> m[a].owner, meta |-> m[a].meta,
     code |-> m[a].code, rt |-> m[a].root, sto |-> StoOf(m, h, t, a)]

AbsOf(m, c, h, t) == [acc |-> [a \in Addr |-> ViewOf(m, h, t, a)], code |-> c]
Abs == AbsOf(main, codeTbl, holder, tries)

RootPersisted(a, r) == ~r.has \/ r.m = NoSto \/ <<a, r.m>> \in persisted

Max(S) == CHOOSE x \in S : \A y \in S : y <= x

-----------------------------------------------------------------------------
(* Undo records *)

DecRef(t, h) == IF h # "" /\ t[h] > 0 THEN [t EXCEPT ![h] = IF @ <= 1 THEN 0 ELSE @ - 1] ELSE t

UndoEntry(S, e) ==
    CASE e.t = "acc"    -> [S EXCEPT !.main[e.a] = e.old]                 \* journalEntryAccount: re-save the old leaf
      [] e.t = "create" -> [S EXCEPT !.main[e.a] = Absent]                \* journalEntryAccountCreation
      [] e.t = "code"   ->                                                \* journalEntryCode
            IF e.oldH = e.newH THEN S
            ELSE LET t1 == IF e.oldH # "" THEN [S.codeTbl EXCEPT ![e.oldH] = e.oldRefs] ELSE S.codeTbl
                 IN  [S EXCEPT !.codeTbl = DecRef(t1, e.newH)]
      [] e.t = "data"   ->                                                \* journalEntryDataTrieUpdates
            LET c == [k \in SKey |-> IF k \in DOMAIN e.old THEN e.old[k] ELSE S.tries[e.tid][k]]
            IN  [S EXCEPT !.tries[e.tid] = c,
                          !.main[e.a] = [e.rec EXCEPT !.root = [has |-> TRUE, m |-> c]]]
      [] e.t = "trieRemove" -> S                                          \* journalEntryDataTrieRemove (pruning bookkeeping only)
      [] e.t = "holder" -> [S EXCEPT !.holder[e.a] = e.tid]               \* the removed account's trie goes back in the holder
      [] OTHER -> S

RECURSIVE UndoDown(_, _, _)
UndoDown(S, i, n) == IF i <= n THEN S ELSE UndoDown(UndoEntry(S, journal[i]), i - 1, n)

\* st: the state the specification reaches; exp: the state the property demands (differs only under KnownDefects)
Rec(a, in, out) == [a |-> a, in |-> in, out |-> out, st |-> Abs',
                    exp |-> IF Abs' = expect' THEN [same |-> TRUE] ELSE [same |-> FALSE, st |-> expect']]

Snap(n, s) == [i \in (DOMAIN stateAt) \cup {n} |-> IF i = n THEN s ELSE stateAt[i]]

-----------------------------------------------------------------------------
Init ==
    /\ main = [a \in Addr |-> Absent]
    /\ codeTbl = [c \in Code |-> 0]
    /\ tries = <<>>
    /\ holder = NoHolder
    /\ journal = <<>>
    /\ committed = [main |-> main, codeTbl |-> codeTbl]
    /\ persisted = {}
    /\ hnd = [a \in Addr |-> <<>>]
    /\ stateAt = (0 :> Abs)
    /\ expect = Abs
    /\ hist = <<[a |-> "New", in |-> [x |-> 0], out |-> [err |-> FALSE, jl |-> 0], st |-> Abs]>>

(* LoadAccount(a); apply ch; SaveAccount.                                                         *)
(* ch = [dn, bal, owner, meta, code, w]: dn nonce increment; bal target balance (-1 keep);         *)
(* owner/meta new value or "keep"; code "keep" (no SetCode) or the new code ("" = SetCode(empty)); *)
(* w sequence of [k, v] storage writes (v = "" deletes) through the tracked data trie.             *)
Save(a, ch) ==
    LET old   == main[a]
        ws    == ch.w
        dkeys == {ws[i].k : i \in 1..Len(ws)}
        dval(k) == ws[Max({i \in 1..Len(ws) : ws[i].k = k})].v
        hasTrie == old.ex /\ old.root.has                     \* loadDataTrie attached a trie to the object
        tid   == IF dkeys = {} THEN 0
                 ELSE IF hasTrie /\ holder[a] # 0 THEN holder[a]
                 ELSE Len(tries) + 1                          \* recreated from storage, or brand new (replaces!)
        base  == IF hasTrie THEN (IF holder[a] # 0 THEN tries[holder[a]] ELSE old.root.m) ELSE NoSto
        cont  == [k \in SKey |-> IF k \in dkeys THEN dval(k) ELSE base[k]]
        oldv  == [k \in dkeys |-> base[k]]
        root1 == IF tid = 0 THEN old.root ELSE [has |-> TRUE, m |-> cont]
        oldH  == old.code
        newH  == IF ch.code = "keep" THEN oldH ELSE ch.code
        cchg  == newH # oldH
        oldRefs == IF oldH = "" THEN 0 ELSE codeTbl[oldH]
        tbl1  == IF ~cchg THEN codeTbl
                 ELSE LET t1 == DecRef(codeTbl, oldH)
                      IN  IF newH # "" THEN [t1 EXCEPT ![newH] = @ + 1] ELSE t1
        rec   == [ex |-> TRUE, nonce |-> old.nonce + ch.dn,
                  bal |-> IF ch.bal < 0 THEN old.bal ELSE ch.bal,
                  owner |-> IF ch.owner = "keep" THEN old.owner ELSE ch.owner,
                  meta |-> IF ch.meta = "keep" THEN old.meta ELSE ch.meta,
                  code |-> newH, root |-> root1]
        j1    == Append(journal, IF old.ex THEN [t |-> "acc", a |-> a, old |-> old] ELSE [t |-> "create", a |-> a])
        j2    == IF tid # 0 THEN Append(j1, [t |-> "data", a |-> a, tid |-> tid, old |-> oldv, rec |-> rec]) ELSE j1
        j3    == IF cchg THEN Append(j2, [t |-> "code", oldH |-> oldH, oldRefs |-> oldRefs, newH |-> newH]) ELSE j2
    IN
    /\ main' = [main EXCEPT ![a] = rec]
    /\ codeTbl' = tbl1
    /\ tries' = IF tid = 0 THEN tries
                ELSE IF tid = Len(tries) + 1 THEN Append(tries, cont) ELSE [tries EXCEPT ![tid] = cont]
    /\ holder' = IF tid = 0 THEN holder ELSE [holder EXCEPT ![a] = tid]
    /\ journal' = j3
    /\ UNCHANGED <<committed, persisted, hnd>>
    /\ stateAt' = Snap(Len(j3), Abs')
    /\ expect' = Abs'
    /\ hist' = Log(hist, Rec("Save", [a |-> a, dn |-> ch.dn, bal |-> ch.bal, owner |-> ch.owner, meta |-> ch.meta,
                                      code |-> ch.code, w |-> ch.w],
                             [err |-> FALSE, jl |-> Len(j3)]))


(* ---- account objects kept by the caller (the transaction processor holds sender/receiver objects across calls   *)
(* and reverts).  A handle is the object's own copy of the fields + the SetCode state (hasNewCode / code bytes).   *)
HandleOf(r) == [nonce |-> r.nonce, bal |-> r.bal, owner |-> r.owner, meta |-> r.meta, code |-> r.code, root |-> r.root,
                hasNew |-> FALSE, newCode |-> ""]

(* LoadAccount(a), the object is kept as handle i (a full slot is re-used) *)
Load(a, i) ==
    /\ i \in 1..MaxHandles /\ i <= Len(hnd[a]) + 1
    /\ hnd' = [hnd EXCEPT ![a] = IF i = Len(@) + 1 THEN Append(@, HandleOf(main[a])) ELSE [@ EXCEPT ![i] = HandleOf(main[a])]]
    /\ UNCHANGED <<main, codeTbl, tries, holder, journal, committed, persisted, stateAt, expect>>
    /\ hist' = Log(hist, Rec("Load", [a |-> a, h |-> i], [err |-> FALSE, jl |-> Len(journal)]))

(* setters on the kept object i of a (no storage writes), then SaveAccount(that object).                           *)
(* saveCode compares the new code hash with the code hash of the TRIE version of the account, not the object's;     *)
(* an object that never called SetCode is written with its own CodeHash field.                                     *)
SaveH(a, i, ch) ==
    LET h     == hnd[a][i]
        old   == main[a]
        hasNew  == h.hasNew \/ ch.code # "keep"
        newCode == IF ch.code # "keep" THEN ch.code ELSE h.newCode
        \* the object is stale in its code hash and carries no SetCode: the leaf written has the object's hash
        lost  == ~hasNew /\ h.code # old.code
        oldH  == old.code
        newH  == IF hasNew THEN newCode
                 ELSE IF "stale-code-hash-overwrite" \in KnownDefects THEN h.code ELSE oldH
        cchg  == hasNew /\ newH # oldH
        oldRefs == IF oldH = "" THEN 0 ELSE codeTbl[oldH]
        tbl1  == IF ~cchg THEN codeTbl
                 ELSE LET t1 == DecRef(codeTbl, oldH)
                      IN  IF newH # "" THEN [t1 EXCEPT ![newH] = @ + 1] ELSE t1
        rec   == [ex |-> TRUE, nonce |-> h.nonce + ch.dn,
                  bal |-> IF ch.bal < 0 THEN h.bal ELSE ch.bal,
                  owner |-> IF ch.owner = "keep" THEN h.owner ELSE ch.owner,
                  meta |-> IF ch.meta = "keep" THEN h.meta ELSE ch.meta,
                  code |-> newH, root |-> h.root]
        j1    == Append(journal, IF old.ex THEN [t |-> "acc", a |-> a, old |-> old] ELSE [t |-> "create", a |-> a])
        j2    == IF cchg THEN Append(j1, [t |-> "code", oldH |-> oldH, oldRefs |-> oldRefs, newH |-> newH]) ELSE j1
    IN
    /\ i \in 1..Len(hnd[a])
    /\ ch.w = <<>>
    /\ main' = [main EXCEPT ![a] = rec]
    /\ codeTbl' = tbl1
    /\ journal' = j2
    /\ hnd' = [hnd EXCEPT ![a][i] = [nonce |-> rec.nonce, bal |-> rec.bal, owner |-> rec.owner, meta |-> rec.meta,
                                      code |-> rec.code, root |-> rec.root, hasNew |-> hasNew, newCode |-> newCode]]
    /\ UNCHANGED <<tries, holder, committed, persisted>>
    /\ stateAt' = Snap(Len(j2), Abs')
    /\ expect' = Abs'
    /\ hist' = Log(hist, Rec("SaveH", [a |-> a, h |-> i, dn |-> ch.dn, bal |-> ch.bal, owner |-> ch.owner, meta |-> ch.meta,
                                       code |-> ch.code, lost |-> lost],
                             [err |-> FALSE, jl |-> Len(j2)]))

HandleActs ==
    \/ \E a \in Addr, i \in 1..MaxHandles : Load(a, i)
    \/ \E a \in Addr, i \in 1..MaxHandles, ch \in HChanges : SaveH(a, i, ch)

(* RemoveAccount(a) *)
Remove(a) ==
    LET old  == main[a]
        oldH == old.code
        oldRefs == IF oldH = "" THEN 0 ELSE codeTbl[oldH]
        eAcc  == [t |-> "acc", a |-> a, old |-> old]
        eCode == [t |-> "code", oldH |-> oldH, oldRefs |-> oldRefs, newH |-> ""]
        ok   == RootPersisted(a, old.root)        \* removeDataTrie recreates the data trie from storage
        tid  == IF holder[a] # 0 THEN holder[a] ELSE Len(tries) + 1
        eRem == [t |-> "trieRemove", a |-> a]
        eHold == [t |-> "holder", a |-> a, tid |-> tid]
        partial == "partial-remove" \in KnownDefects
        remEntries == IF ~old.root.has THEN <<>>
                      ELSE IF "stale-data-trie" \in KnownDefects THEN <<eRem>> ELSE <<eRem, eHold>>
    IN
    IF ~old.ex
    THEN /\ UNCHANGED <<main, codeTbl, tries, holder, journal, committed, persisted, hnd, stateAt, expect>>
         /\ hist' = Log(hist, Rec("Remove", [a |-> a], [err |-> TRUE, jl |-> Len(journal)]))
    ELSE IF ~ok
    THEN \* the data trie root is not in storage (changed since the last commit): RemoveAccount returns an error
         /\ journal' = IF partial THEN journal \o <<eAcc, eCode>> ELSE Append(journal, eAcc)
         /\ codeTbl' = IF partial THEN DecRef(codeTbl, oldH) ELSE codeTbl
         /\ UNCHANGED <<main, tries, holder, committed, persisted, hnd>>
         /\ stateAt' = Snap(Len(journal'), Abs')
         /\ expect' = Abs'
         /\ hist' = Log(hist, Rec("Remove", [a |-> a], [err |-> TRUE, jl |-> Len(journal')]))
    ELSE /\ journal' = IF partial THEN journal \o <<eAcc, eCode>> \o remEntries
                                   ELSE journal \o <<eAcc>> \o remEntries \o <<eCode>>
         /\ codeTbl' = DecRef(codeTbl, oldH)
         /\ main' = [main EXCEPT ![a] = Absent]
         /\ tries' = IF old.root.has /\ holder[a] = 0 THEN Append(tries, old.root.m) ELSE tries
         /\ UNCHANGED <<holder, committed, persisted, hnd>>
         /\ stateAt' = Snap(Len(journal'), Abs')
         /\ expect' = Abs'
         /\ hist' = Log(hist, Rec("Remove", [a |-> a], [err |-> FALSE, jl |-> Len(journal')]))

(* RevertToSnapshot(n) for a journal length n observed earlier and still valid *)
Revert(n) ==
    /\ n \in DOMAIN stateAt
    /\ IF n = 0
       THEN \* recreateTrie(lastRootHash): everything since the last commit is dropped
            /\ main' = committed.main /\ codeTbl' = committed.codeTbl
            /\ tries' = <<>> /\ holder' = NoHolder /\ journal' = <<>>
       ELSE LET S == UndoDown([main |-> main, codeTbl |-> codeTbl, tries |-> tries, holder |-> holder],
                              Len(journal), n)
            IN  /\ main' = S.main /\ codeTbl' = S.codeTbl /\ tries' = S.tries /\ holder' = S.holder
                /\ journal' = SubSeq(journal, 1, n)
    /\ UNCHANGED <<committed, persisted, hnd>>
    /\ stateAt' = [i \in {j \in DOMAIN stateAt : j <= n} |-> stateAt[i]]
    /\ expect' = stateAt[n]
    /\ hist' = Log(hist, Rec("Revert", [n |-> n], [err |-> FALSE, jl |-> Len(journal')]))

(* RevertToSnapshot beyond the journal: rejected, nothing changes *)
RevertBad ==
    /\ UNCHANGED cvars
    /\ hist' = Log(hist, Rec("Revert", [n |-> Len(journal) + 1], [err |-> TRUE, jl |-> Len(journal)]))

(* Commit: data tries in the holder and the main trie are written to storage; journal and holder are reset *)
Commit ==
    /\ persisted' = persisted \cup {<<a, tries[holder[a]]>> : a \in {x \in Addr : holder[x] # 0}}
    /\ committed' = [main |-> main, codeTbl |-> codeTbl]
    /\ journal' = <<>> /\ tries' = <<>> /\ holder' = NoHolder
    /\ UNCHANGED <<main, codeTbl, hnd>>
    /\ stateAt' = (0 :> Abs')
    /\ expect' = Abs          \* a commit changes nothing a client can read
    /\ hist' = Log(hist, Rec("Commit", [x |-> 0], [err |-> FALSE, jl |-> 0]))

NextCore ==
    \/ \E a \in Addr, ch \in Changes : Save(a, ch)
    \/ \E a \in Addr : Remove(a)
    \/ \E n \in DOMAIN stateAt : Revert(n)
    \/ Commit

Next == NextCore \/ RevertBad \/ HandleActs

Spec == Init /\ [][Next]_vars

-----------------------------------------------------------------------------
(* Properties *)

\* C06: after RevertToSnapshot(n) every account field, code, storage value (and the abstract root) is what it
\* was when JournalLen returned n; n = 0 gives the last committed state; a commit changes no readable value.
Inv_C06_RevertRestores == Abs = expect

\* C06 (snapshot 0): the state recorded for journal length 0 is the committed one
Inv_C06_ZeroIsCommitted ==
    stateAt[0] = AbsOf(committed.main, committed.codeTbl, NoHolder, <<>>)

\* what is read through the data trie object agrees with the root hash stored in the account leaf
Inv_C06_StorageMatchesRoot ==
    \A a \in Addr : (main[a].ex /\ main[a].root.has) => StoOf(main, holder, tries, a) = main[a].root.m

\* every existing account can be loaded (its data trie is in the holder or in storage)
Inv_Loadable ==
    \A a \in Addr : main[a].ex => (holder[a] # 0 \/ RootPersisted(a, main[a].root))

\* C07: a code leaf exists exactly when some account refers to the hash, with NumReferences = number of such accounts
RefsIn(m, c) == Cardinality({a \in Addr : m[a].ex /\ m[a].code = c})
Inv_C07_RefCount == \A c \in Code : codeTbl[c] = RefsIn(main, c)
Inv_C07_Committed == \A c \in Code : committed.codeTbl[c] = RefsIn(committed.main, c)

TypeOK ==
    /\ \A a \in Addr : holder[a] \in 0..Len(tries)
    /\ \A c \in Code : codeTbl[c] \in 0..Cardinality(Addr)
    /\ Len(journal) \in DOMAIN stateAt
    /\ \A n \in DOMAIN stateAt : n <= Len(journal)
=============================================================================
