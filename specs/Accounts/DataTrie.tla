------------------------------ MODULE DataTrie ------------------------------
(***************************************************************************)
(* Specification of an account's storage as a client of AccountsDB sees    *)
(* it (property C08): state.TrackableDataTrie (SaveKeyValue/RetrieveValue, *)
(* the dirtyData map) + AccountsDB.saveDataTrie (flush of the dirty batch  *)
(* into the account's data trie) + Commit + reloading from storage.        *)
(*                                                                         *)
(* Byte level: keys, values and the account address are sequences of       *)
(* bytes.  A value v written under key k is kept as  v \o k \o address     *)
(* (dirty map and data-trie leaf) and trimmed BY LENGTH when read.         *)
(*                                                                         *)
(* Caller memory is modelled explicitly.  mem[b] is a caller-owned backing *)
(* array of BufCap bytes; a slice is [b, off, len, cap, bytes]: b = 0 is a *)
(* freshly allocated array holding exactly `bytes` (cap = len), b > 0      *)
(* points into mem[b].  A Write step names a LAYOUT (where the caller      *)
(* placed the key and the value: fresh arrays, a reused buffer with spare  *)
(* capacity, key and value adjacent in one buffer, ...), the caller fills  *)
(* the bytes in and calls SaveKeyValue(key, value); Scribble is the caller *)
(* reusing/overwriting one of its buffers afterwards.                      *)
(*                                                                         *)
(* KnownDefects (the code as it exists):                                   *)
(*   "alias"               SaveKeyValue keeps append(value, append(key,    *)
(*                         address...)...): Go's append writes into the    *)
(*                         caller's spare capacity and the kept slice then *)
(*                         shares the caller's backing array               *)
(*   "dirty-delete-error"  RetrieveValue of a key deleted in the current   *)
(*                         dirty batch fails (length underflow)            *)
(* With KnownDefects = {} SaveKeyValue copies and a deleted key reads as   *)
(* empty at every point (the intended design).                             *)
(***************************************************************************)
EXTENDS Integers, Sequences, FiniteSets, TLC

CONSTANTS KeyNames,     \* key names (strings)
          KB,           \* key name -> bytes
          Addrs,        \* candidate addresses (byte sequences); one is chosen in Init
          Shapes,       \* value shapes (strings), see ValueOf
          Layouts,      \* caller buffer layouts (strings), see Place
          BufCap,       \* capacity of each of the two caller buffers
          KnownDefects,
          Log(_, _)

VARIABLES addr,         \* the account address (identifier of the tracker)
          mem,          \* caller memory: 1..2 -> sequence of BufCap bytes
          dirty,        \* TrackableDataTrie.dirtyData: key name -> slice, or None
          trie,         \* the account's data trie since the last flush: key name -> slice (leaf value), or None
          lastW,        \* history: the bytes the caller wrote last under each key (<<>> = deleted / never written)
          lay,          \* history: layout of the last write of each key
          phase,        \* where the data trie of the loaded account object comes from: "saved" (flushed, not
                        \* committed) | "committed" | "reloaded" (a fresh AccountsDB over the same storage)
          hist

cvars == <<addr, mem, dirty, trie, lastW, lay, phase>>
vars  == <<addr, mem, dirty, trie, lastW, lay, phase, hist>>

None == [b |-> -1, off |-> 0, len |-> 0, cap |-> 0, bytes |-> <<>>]
Owned(bs) == [b |-> 0, off |-> 0, len |-> Len(bs), cap |-> Len(bs), bytes |-> bs]
InBuf(b, off, n, cap) == [b |-> b, off |-> off, len |-> n, cap |-> cap, bytes |-> <<>>]

Deref(m, s) == IF s.b = 0 THEN s.bytes ELSE SubSeq(m[s.b], s.off + 1, s.off + s.len)
WriteAt(seq, off, bs) == [i \in 1..Len(seq) |-> IF i > off /\ i <= off + Len(bs) THEN bs[i - off] ELSE seq[i]]

\* Go's append(s, bs...): in place when the capacity suffices (the result shares s's array), else a new array
GoAppend(m, s, bs) ==
    IF bs = <<>> THEN [m |-> m, s |-> s]
    ELSE IF s.b > 0 /\ s.len + Len(bs) <= s.cap
    THEN [m |-> [m EXCEPT ![s.b] = WriteAt(@, s.off + s.len, bs)], s |-> [s EXCEPT !.len = @ + Len(bs)]]
    ELSE [m |-> m, s |-> Owned(Deref(m, s) \o bs)]

\* value shapes: includes values whose tail looks like key||address
ValueOf(shape, k) ==
    CASE shape = "empty" -> <<>>
      [] shape = "x"     -> <<5>>
      [] shape = "xyx"   -> <<5, 6, 5>>
      [] shape = "K"     -> KB[k]
      [] shape = "A"     -> addr
      [] shape = "KA"    -> KB[k] \o addr
      [] shape = "xKA"   -> <<5>> \o KB[k] \o addr
      [] shape = "KAKA"  -> KB[k] \o addr \o KB[k] \o addr

\* where the caller put key (m bytes) and value (n bytes): [ks, vs]
Place(layout, m, n) ==
    CASE layout = "fresh"        -> [ks |-> Owned(<<>>), vs |-> Owned(<<>>)]
      [] layout = "val-spare"    -> [ks |-> Owned(<<>>), vs |-> InBuf(1, 0, n, BufCap)]
      [] layout = "val-spare-2"  -> [ks |-> Owned(<<>>), vs |-> InBuf(2, 0, n, BufCap)]
      [] layout = "val-tight"    -> [ks |-> Owned(<<>>), vs |-> InBuf(1, 0, n, n + 1)]
      [] layout = "key-spare"    -> [ks |-> InBuf(1, 0, m, BufCap), vs |-> Owned(<<>>)]
      [] layout = "key-then-val" -> [ks |-> InBuf(1, 0, m, BufCap), vs |-> InBuf(1, m, n, BufCap - m)]
      [] layout = "val-then-key" -> [ks |-> InBuf(1, n, m, BufCap - n), vs |-> InBuf(1, 0, n, BufCap)]
      [] layout = "val-1-key-2"  -> [ks |-> InBuf(2, 0, m, BufCap), vs |-> InBuf(1, 0, n, BufCap)]

\* the caller fills the bytes in
Fill(m, s, bs) == IF s.b > 0 THEN [m EXCEPT ![s.b] = WriteAt(@, s.off, bs)] ELSE m
Bind(s, bs) == IF s.b = 0 THEN Owned(bs) ELSE s

-----------------------------------------------------------------------------
(* RetrieveValue(k) on the loaded account object: dirty map first, then the data trie *)
Trim(bs, k) == LET n == Len(bs) - (Len(KB[k]) + Len(addr)) IN IF n < 0 THEN <<-1>> ELSE SubSeq(bs, 1, n)

ReadOf(m, d, t, k) ==
    IF d[k] # None
    THEN LET r == Trim(Deref(m, d[k]), k)
         IN  IF r = <<-1>> /\ "dirty-delete-error" \notin KnownDefects THEN <<>> ELSE r   \* <<-1>> = error
    ELSE IF t[k] = None THEN <<>>
    ELSE LET r == Trim(Deref(m, t[k]), k) IN IF r = <<-1>> THEN <<>> ELSE r

Reads == [k \in KeyNames |-> ReadOf(mem, dirty, trie, k)]

\* where a read of k is served from
SrcOf(d, ph, k) == IF d[k] # None THEN "dirty" ELSE ph

Rec(a, in) == [a |-> a, in |-> in, out |-> [x |-> 0],
               st |-> [src |-> [k \in KeyNames |-> SrcOf(dirty', phase', k)], read |-> Reads', exp |-> lastW', lay |-> lay']]

NoneMap == [k \in KeyNames |-> None]

Init ==
    /\ addr \in Addrs
    /\ mem = [b \in 1..2 |-> [i \in 1..BufCap |-> 0]]
    /\ dirty = NoneMap /\ trie = NoneMap
    /\ lastW = [k \in KeyNames |-> <<>>]
    /\ lay = [k \in KeyNames |-> "none"]
    /\ phase = "reloaded"
    /\ hist = <<[a |-> "New", in |-> [addr |-> addr, keys |-> KB, cap |-> BufCap], out |-> [x |-> 0],
                 st |-> [src |-> [k \in KeyNames |-> phase], read |-> [k \in KeyNames |-> <<>>], exp |-> lastW, lay |-> lay]]>>

(* the caller places key k and a value of the given shape per layout, then SaveKeyValue(key, value) *)
Write(k, shape, layout) ==
    LET kb  == KB[k]
        vb  == ValueOf(shape, k)
        pl  == Place(layout, Len(kb), Len(vb))
        ks  == Bind(pl.ks, kb)
        vs  == Bind(pl.vs, vb)
        m0  == Fill(Fill(mem, ks, kb), vs, vb)
        \* --- SaveKeyValue
        r1  == IF Len(vb) # 0 THEN GoAppend(m0, ks, addr) ELSE [m |-> m0, s |-> Owned(<<>>)]   \* identifier
        r2  == GoAppend(r1.m, vs, Deref(r1.m, r1.s))
        copy == IF Len(vb) # 0 THEN Owned(vb \o kb \o addr) ELSE Owned(<<>>)
        aliasing == "alias" \in KnownDefects
    IN
    /\ pl.ks.off + Len(kb) <= BufCap /\ pl.vs.off + Len(vb) <= BufCap
    /\ mem' = IF aliasing THEN r2.m ELSE m0
    /\ dirty' = [dirty EXCEPT ![k] = IF aliasing THEN r2.s ELSE copy]
    /\ lastW' = [lastW EXCEPT ![k] = vb]
    /\ lay' = [lay EXCEPT ![k] = layout]
    /\ UNCHANGED <<addr, trie, phase>>
    /\ hist' = Log(hist, Rec("Write", [k |-> k, shape |-> shape, layout |-> layout, kb |-> kb, vb |-> vb,
                                       ks |-> [b |-> ks.b, off |-> ks.off, len |-> ks.len, cap |-> ks.cap],
                                       vs |-> [b |-> vs.b, off |-> vs.off, len |-> vs.len, cap |-> vs.cap]]))

(* the caller reuses buffer b for something else *)
Scribble(b) ==
    /\ mem' = [mem EXCEPT ![b] = [i \in 1..BufCap |-> 238]]
    /\ UNCHANGED <<addr, dirty, trie, lastW, lay, phase>>
    /\ hist' = Log(hist, Rec("Scribble", [b |-> b]))

(* AccountsDB.SaveAccount: the dirty batch goes into the data trie (empty value = delete); the leaf keeps the slice *)
SaveAccount ==
    /\ trie' = [k \in KeyNames |-> IF dirty[k] = None THEN trie[k]
                                   ELSE IF dirty[k].len = 0 THEN None ELSE dirty[k]]
    /\ dirty' = NoneMap
    /\ phase' = "saved"
    /\ UNCHANGED <<addr, mem, lastW, lay>>
    /\ hist' = Log(hist, Rec("SaveAccount", [x |-> 0]))

(* AccountsDB.Commit: leaves are serialised into storage; the account is loaded from storage afterwards *)
Commit ==
    /\ dirty = NoneMap
    /\ trie' = [k \in KeyNames |-> IF trie[k] = None THEN None ELSE Owned(Deref(mem, trie[k]))]
    /\ phase' = "committed"
    /\ UNCHANGED <<addr, mem, dirty, lastW, lay>>
    /\ hist' = Log(hist, Rec("Commit", [x |-> 0]))

(* a new AccountsDB / trie over the same storage, RecreateTrie(committed root), LoadAccount *)
Reload ==
    /\ dirty = NoneMap
    /\ phase \in {"committed", "reloaded"}
    /\ phase' = "reloaded"
    /\ UNCHANGED <<addr, mem, dirty, trie, lastW, lay>>
    /\ hist' = Log(hist, Rec("Reload", [x |-> 0]))

Next ==
    \/ \E k \in KeyNames, sh \in Shapes, l \in Layouts : Write(k, sh, l)
    \/ \E b \in 1..2 : Scribble(b)
    \/ SaveAccount
    \/ Commit
    \/ Reload

Spec == Init /\ [][Next]_vars

-----------------------------------------------------------------------------
\* C08: at every point (dirty, saved, committed, reloaded) every key reads back, without error, exactly the bytes
\* written last under it (empty after a delete), whatever the caller did with its buffers afterwards
Inv_C08_ReadBack == \A k \in KeyNames : ReadOf(mem, dirty, trie, k) = lastW[k]

\* the "deleted key reads as empty" clause alone
Inv_C08_DeletedReadsEmpty == \A k \in KeyNames : lastW[k] = <<>> => ReadOf(mem, dirty, trie, k) = <<>>

TypeOK == /\ \A b \in 1..2 : Len(mem[b]) = BufCap
          /\ phase \in {"saved", "committed", "reloaded"}
=============================================================================
