------------------------------- MODULE ForkTwin -------------------------------
(***************************************************************************)
(* Property C20 (second half): the fork selected for a nonce does not       *)
(* depend on the order in which competing headers were received.            *)
(*                                                                          *)
(* Two-copy product: detectors A and B receive exactly the same calls,      *)
(* except that a group of 2..3 competing headers (same nonce, distinct      *)
(* hashes) that arrive back to back in the same round is delivered to A in  *)
(* one order and to B in a permuted order (action Group).  Every behaviour  *)
(* of the product is a pair of behaviours of ForkDetector that differ only  *)
(* by such permutations.  Inv_C20b: both copies answer CheckFork alike in   *)
(* every reachable state of the product.                                    *)
(***************************************************************************)
EXTENDS ForkDetectorOps, TLC

CONSTANTS Kinds, Universes, RoundVals, RollNonces, MaxList, NotaLists, MaxGroups, Log(_, _)

VARIABLES sA, sB, groups, asym, hist
vars  == <<sA, sB, groups, asym, hist>>
cvars == <<sA, sB, groups, asym>>     \* asym: some group member was accepted in one arrival order and rejected in the other

One == INSTANCE ForkDetector WITH s <- sA      \* for Acts (the set of possible calls)

\* groups of 2..3 competing headers (same nonce) and the two arrival orders: A gets the ascending order,
\* B every other permutation
GroupActs(st) ==
    LET HS == DOMAIN st.U
        Same(x, y) == st.U[x].nonce = st.U[y].nonce
        Room(x, k) == Len(st.hdrs[st.U[x].nonce]) + k <= MaxList
        P2 == {p \in HS \X HS : p[1] < p[2] /\ Same(p[1], p[2]) /\ Room(p[1], 2)}
        P3 == {t \in HS \X HS \X HS : t[1] < t[2] /\ t[2] < t[3] /\ Same(t[1], t[2]) /\ Same(t[2], t[3]) /\ Room(t[1], 3)}
    IN  {[a |-> "Group", oa |-> p, ob |-> <<p[2], p[1]>>] : p \in P2}
        \cup UNION {{[a |-> "Group", oa |-> t, ob |-> q] :
                        q \in {<<t[1], t[3], t[2]>>, <<t[2], t[1], t[3]>>, <<t[2], t[3], t[1]>>,
                               <<t[3], t[1], t[2]>>, <<t[3], t[2], t[1]>>}} : t \in P3}

RECURSIVE RecvAll(_, _)
RecvAll(st, l) == IF l = <<>> THEN st ELSE RecvAll(AddHeader(st, Head(l), "recv", <<>>).s, Tail(l))
\* the AddHeader results of the members of a group delivered in order l: set of <<hash, error>>
RECURSIVE RecvErrs(_, _)
RecvErrs(st, l) ==
    IF l = <<>> THEN {}
    ELSE LET r == AddHeader(st, Head(l), "recv", <<>>) IN {<<Head(l), r.out.err>>} \cup RecvErrs(r.s, Tail(l))

SameSet(p, q) == {p[i] : i \in 1..Len(p)} = {q[i] : i \in 1..Len(q)}
Ascending(p) == \A i \in 1..(Len(p) - 1) : p[i] < p[i + 1]

Rec(act, outA, outB, a, b) ==
    [a |-> act.a, in |-> act, out |-> [A |-> outA, B |-> outB], st |-> [A |-> Proj(a), B |-> Proj(b)]]

Init ==
    /\ groups = 0 /\ asym = FALSE
    /\ \E k \in Kinds, U \in Universes, r \in {x \in RoundVals : x <= 2} :
          /\ sA = NewState(k, U, r) /\ sB = NewState(k, U, r)
          /\ hist = <<[a |-> "New", in |-> [kind |-> k, round |-> r, U |-> [h \in DOMAIN U |-> U[h]]],
                       out |-> [A |-> [x |-> 0], B |-> [x |-> 0]],
                       st |-> [A |-> Proj(NewState(k, U, r)), B |-> Proj(NewState(k, U, r))]]>>

\* the same call on both copies
Lock(act) ==
    LET ra == Step(sA, act) rb == Step(sB, act) IN
    /\ sA' = ra.s /\ sB' = rb.s /\ UNCHANGED <<groups, asym>>
    /\ hist' = Log(hist, Rec(act, ra.out, rb.out, ra.s, rb.s))

\* a group of competing headers: order oa on A, order ob on B
Group(act) ==
    /\ groups < MaxGroups
    /\ groups' = groups + 1
    /\ asym' = (asym \/ RecvErrs(sA, act.oa) # RecvErrs(sB, act.ob))
    /\ LET a == RecvAll(sA, act.oa) b == RecvAll(sB, act.ob) IN
          /\ sA' = a /\ sB' = b
          /\ hist' = Log(hist, Rec(act, [x |-> 0], [x |-> 0], a, b))

Next ==
    \/ \E act \in One!Acts(sA) : Lock(act)
    \/ \E act \in GroupActs(sA) : Group(act)

Spec == Init /\ [][Next]_vars

-----------------------------------------------------------------------------
\* the fork selected (nonce, hash), if any; the "consensus stuck" answer (Nonce = MaxUint64) selects nothing
Answer(st) == LET r == CheckFork(st).out IN
              IF r.det /\ r.nonce < Inf THEN [sel |-> TRUE, nonce |-> r.nonce, h |-> r.h]
              ELSE [sel |-> FALSE, nonce |-> Inf, h |-> 0]

\* C20b: same (detected, nonce, hash) whatever the arrival order of competing headers was
Inv_C20b == Answer(sA) = Answer(sB)
\* Named deviation of the code as it is ("black-list-order"): checkBlockBasicValidity black-lists a header with a wrong
\* time stamp and rejects every header whose PrevHash is black-listed, so a competitor whose parent is another (invalid)
\* member of the group is stored only when it arrives BEFORE that parent.  Inv_C20b fails on universes that contain
\* such a pair (MCUniversesDefect); everything else is order independent:
Inv_C20b_ModuloBlackList == asym \/ Answer(sA) = Answer(sB)
\* and finality does not depend on it either
Inv_TwinFinal == sA.final = sB.final /\ sA.probable = sB.probable
\* C20a on both copies
Inv_C20a == C20a(sA) /\ C20a(sB)
=============================================================================
