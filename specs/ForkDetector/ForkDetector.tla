----------------------------- MODULE ForkDetector -----------------------------
(***************************************************************************)
(* One fork detector (shard or meta) driven by its environment: headers of  *)
(* a small universe arrive as received / processed / proposed, the meta     *)
(* chain notarizes shard headers, the bootstrapper removes headers, resets, *)
(* requests roll backs, the round advances, CheckFork is called.            *)
(* The kind of detector, the universe and the initial round are chosen in   *)
(* Init, so one TLC run covers every configuration.                         *)
(*                                                                          *)
(* Property C20 (first half):  Inv_C20a.                                    *)
(***************************************************************************)
EXTENDS ForkDetectorOps, TLC

CONSTANTS Kinds,        \* subset of {"shard", "meta"}
          Universes,    \* set of universes: hash (1..K) -> [nonce, round, epoch, prev, bad]
          RoundVals,    \* values the round index may jump to
          RollNonces,   \* arguments of SetRollBackNonce
          MaxList,      \* bound on the number of entries stored per nonce
          NotaLists,    \* 0: notarized lists of length <= 1; 1: also ordered pairs
          Log(_, _)

VARIABLES s, hist
vars  == <<s, hist>>
cvars == <<s>>

Hashes(st) == DOMAIN st.U

\* lists of self notarized headers handed over by the block tracker
NLists(st) ==
    {<<>>} \cup {<<h>> : h \in Hashes(st)}
           \cup (IF NotaLists = 1 THEN {p \in {<<h1, h2>> : h1 \in Hashes(st), h2 \in Hashes(st)} : p[1] # p[2]} ELSE {})

\* every call the environment can make in state st (bounded: lists never exceed MaxList)
Acts(st) ==
    LET room(h) == Len(st.hdrs[st.U[h].nonce]) < MaxList IN
       {[a |-> "AddHeader", h |-> h, state |-> x, nl |-> <<>>] :
            h \in {g \in Hashes(st) : room(g)}, x \in {"recv", "prop"}}
    \cup {[a |-> "AddHeader", h |-> h, state |-> "proc", nl |-> nl] :
            h \in {g \in Hashes(st) : room(g)},
            nl \in IF st.kind = "shard" THEN {l \in NLists(st) : \A i \in 1..Len(l) : room(l[i])} ELSE {<<>>}}
    \cup (IF st.kind = "shard"
          THEN {[a |-> "Notarized", nl |-> nl] : nl \in {l \in NLists(st) \ {<<>>} : \A i \in 1..Len(l) : room(l[i])}}
          ELSE {})
    \cup {[a |-> "Remove", n |-> st.U[h].nonce, h |-> h] : h \in Hashes(st)}
    \cup {[a |-> x] : x \in {"ResetFork", "ResetProbable", "Restore", "SetFinalToLast", "CheckFork"}}
    \cup {[a |-> "SetRollBack", n |-> n] : n \in RollNonces}
    \cup {[a |-> "Tick", r |-> r] : r \in {x \in RoundVals : x > st.round}}

Rec(act, out, st) == [a |-> act.a, in |-> act, out |-> out, st |-> Proj(st)]

Init ==
    /\ \E k \in Kinds, U \in Universes, r \in {x \in RoundVals : x <= 2} :
          /\ s = NewState(k, U, r)
          /\ hist = <<[a |-> "New", in |-> [kind |-> k, round |-> r, U |-> [h \in DOMAIN U |-> U[h]]],
                       out |-> [x |-> 0], st |-> Proj(NewState(k, U, r))]>>

Do(act) ==
    LET r == Step(s, act) IN
    /\ s' = r.s
    /\ hist' = Log(hist, Rec(act, r.out, r.s))

Next == \E act \in Acts(s) : Do(act)

Spec == Init /\ [][Next]_vars

-----------------------------------------------------------------------------
Inv_C20a == C20a(s)
Inv_StateOK == StateOK(s)

\* a reported fork (from the scan) always names a competitor different from the node's own block
Inv_ForkNamesCompetitor ==
    LET r == ScanFork(s) IN
    r.det => /\ r.h # 0
             /\ \E i \in 1..Len(s.hdrs[r.nonce]) : s.hdrs[r.nonce][i].h = r.h /\ s.hdrs[r.nonce][i].st # "proc"
             /\ r.h # s.hdrs[r.nonce][LastIdx(s.hdrs[r.nonce], "proc")].h
=============================================================================
