---- MODULE MC_ForkTwin ----
EXTENDS ForkTwin, Json
CONSTANTS Depth, EmitDepth   \* histories are bounded by Depth; transitions are exported up to EmitDepth

LogAppend(h, r) == Append(h, r)
LogLast(h, r) == <<r>>

U == INSTANCE MC_ForkDetector WITH s <- sA
MCUniversesQuick == U!MCUniversesQuick
MCUniverses      == U!MCUniverses
MCUniversesSim   == U!MCUniversesSim
MCUniversesDefect == U!MCUniversesDefect

GenNext  == Len(hist) < Depth /\ Next
GenSpec  == Init /\ [][GenNext]_vars
EmitEdge == (Len(hist') <= EmitDepth) => PrintT("@@B " \o ToJson(hist'))
EmitFull == (Len(hist') = Depth) => PrintT("@@B " \o ToJson(hist'))
\* only behaviours that contain a permuted group are worth replaying as twins
EmitTwinEdge == (groups' > 0 /\ Len(hist') <= EmitDepth) => PrintT("@@B " \o ToJson(hist'))
SimNext == IF Len(hist) = Depth - 1 THEN Lock([a |-> "CheckFork"])
           ELSE /\ Len(hist) < Depth - 1
                /\ \E coin \in {RandomElement(1..3)} :
                   \E act \in {RandomElement(IF coin = 1 /\ groups < MaxGroups /\ GroupActs(sA) # {}
                                               THEN GroupActs(sA) ELSE One!Acts(sA))} :      \* bound once
                      IF act.a = "Group" THEN Group(act) ELSE Lock(act)
SimSpec == Init /\ [][SimNext]_vars
EmitTwinFull == (Len(hist') = Depth /\ groups' > 0) => PrintT("@@B " \o ToJson(hist'))

\* exhaustive checking within a depth bound (history kept only as a length counter)
BoundedInit == /\ groups = 0 /\ asym = FALSE
               /\ \E k \in Kinds, V \in Universes, r \in {x \in RoundVals : x <= 2} :
                     sA = NewState(k, V, r) /\ sB = NewState(k, V, r) /\ hist = <<0>>
BoundedNext ==
    /\ Len(hist) < Depth /\ hist' = Append(hist, 0)
    /\ \/ \E act \in One!Acts(sA) : (sA' = Step(sA, act).s /\ sB' = Step(sB, act).s /\ UNCHANGED <<groups, asym>>)
       \/ \E act \in GroupActs(sA) :
             /\ groups < MaxGroups
             /\ groups' = groups + 1 /\ sA' = RecvAll(sA, act.oa) /\ sB' = RecvAll(sB, act.ob)
             /\ asym' = (asym \/ RecvErrs(sA, act.oa) # RecvErrs(sB, act.ob))
BoundedSpec == BoundedInit /\ [][BoundedNext]_vars
====
