---- MODULE Trace_ForkDetector ----
(* Trace validation: trace.ndjson was recorded from real shard/meta fork detectors driven by a seeded random    *)
(* environment over a random universe (vh-forkdetector record).  Every event must be the corresponding          *)
(* Step of ForkDetectorOps with the logged result and the logged public projection; Inv_C20a is evaluated on     *)
(* every state reached that way.  Many traces are concatenated; a "New" event starts each one.                  *)
EXTENDS ForkDetectorOps, Json, TLC, TLCExt
TLog == ndJsonDeserialize("trace.ndjson")
VARIABLES s, l
tvars == <<s, l>>
Ev == TLog[l]

MkU(arr) == [i \in 1..Len(arr) |-> [nonce |-> arr[i].nonce, round |-> arr[i].round, epoch |-> arr[i].epoch,
                                    prev |-> arr[i].prev, bad |-> arr[i].bad]]
DummyU == <<[nonce |-> 1, round |-> 1, epoch |-> 0, prev |-> 0, bad |-> FALSE]>>

MatchesSt(st, o) ==
    LET p == Proj(st) IN
    /\ p.final = o.final /\ p.finalHash = o.finalHash /\ p.probable = o.probable /\ p.obs = o.obs
    /\ \A n \in DOMAIN st.hdrs : p.nota[n] = o.nota[n + 1]
    /\ p.chk.det = o.chk.det /\ p.chk.nonce = o.chk.nonce /\ p.chk.round = o.chk.round /\ p.chk.h = o.chk.h

TraceInit == l = 1 /\ s = NewState("meta", DummyU, 1)

TNew ==
    /\ l <= Len(TLog) /\ Ev.a = "New" /\ l' = l + 1
    /\ s' = NewState(Ev.in.kind, MkU(Ev.in.U), Ev.in.round)
    /\ MatchesSt(s', Ev.st)

TStep ==
    /\ l <= Len(TLog) /\ Ev.a # "New" /\ l' = l + 1
    /\ LET r == Step(s, [a |-> Ev.a] @@ Ev.in) IN
          /\ s' = r.s
          /\ \A f \in DOMAIN Ev.out : r.out[f] = Ev.out[f]
          /\ MatchesSt(r.s, Ev.st)

TraceNext == TNew \/ TStep
TraceSpec == TraceInit /\ [][TraceNext]_tvars

Inv_C20a == C20a(s)
Inv_StateOK == StateOK(s)

HighWater == TLCSet(1, IF l > TLCGet(1) THEN l ELSE TLCGet(1))
Accepted  == IF TLCGet(1) = Len(TLog) + 1 THEN TRUE ELSE PrintT("@@HW " \o ToString(TLCGet(1))) /\ FALSE
ASSUME TLCSet(1, 0)
====
