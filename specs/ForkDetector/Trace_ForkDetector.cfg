SPECIFICATION TraceSpec
CONSTRAINT HighWater
INVARIANTS Inv_C20a Inv_StateOK
POSTCONDITION Accepted
CHECK_DEADLOCK FALSE
