---- MODULE MC_ForkDetector ----
EXTENDS ForkDetector, Json
CONSTANTS Depth, EmitDepth   \* histories are bounded by Depth; transitions are exported up to EmitDepth

LogAppend(h, r) == Append(h, r)
LogLast(h, r) == <<r>>

Hd(n, r, e, p, b) == [nonce |-> n, round |-> r, epoch |-> e, prev |-> p, bad |-> b]

(* Universes.  Hash = index (so the lexicographic order of the harness' hash bytes is the index order). *)
\* tie-break: two competitors of the same round, one of a later round, a successor nonce on each branch
UTie   == <<Hd(1, 1, 0, 0, FALSE), Hd(1, 1, 0, 0, FALSE), Hd(1, 2, 0, 0, FALSE),
            Hd(2, 3, 0, 1, FALSE), Hd(2, 3, 0, 2, FALSE)>>
\* epochs: a competitor of a later epoch and later round, finality moving (meta: two processed blocks)
UEpoch == <<Hd(1, 2, 0, 0, FALSE), Hd(1, 3, 1, 0, FALSE), Hd(1, 1, 0, 0, FALSE),
            Hd(2, 3, 0, 1, FALSE), Hd(2, 4, 1, 2, FALSE)>>
\* black list: a header with a wrong time stamp, its child, a nonce gap (round difference < nonce difference)
UBlack == <<Hd(1, 1, 0, 0, TRUE), Hd(2, 2, 0, 1, FALSE), Hd(1, 1, 0, 0, FALSE),
            Hd(3, 2, 0, 2, FALSE), Hd(2, 3, 0, 3, FALSE)>>
\* three nonces, competitors at each, for finality progress in shards
UChain == <<Hd(1, 1, 0, 0, FALSE), Hd(1, 2, 0, 0, FALSE), Hd(2, 2, 0, 1, FALSE), Hd(2, 3, 0, 2, FALSE),
            Hd(3, 3, 0, 3, FALSE), Hd(3, 4, 0, 4, FALSE)>>
\* a competitor (2) whose parent is another competitor of the same nonce with a wrong time stamp (1): see
\* Inv_C20b_ModuloBlackList in ForkTwin.tla
UBlackTie == <<Hd(1, 1, 0, 0, TRUE), Hd(1, 1, 0, 1, FALSE), Hd(1, 2, 0, 0, FALSE), Hd(2, 3, 0, 3, FALSE)>>
\* larger universe for simulation
UBig   == <<Hd(1, 1, 0, 0, FALSE), Hd(1, 1, 0, 0, FALSE), Hd(1, 2, 1, 0, FALSE),
            Hd(2, 2, 0, 1, FALSE), Hd(2, 3, 0, 2, FALSE), Hd(2, 3, 1, 3, FALSE),
            Hd(3, 3, 0, 4, FALSE), Hd(3, 4, 0, 5, FALSE), Hd(3, 4, 1, 6, TRUE),
            Hd(4, 5, 0, 7, FALSE), Hd(4, 5, 1, 8, FALSE), Hd(4, 4, 0, 9, FALSE)>>

MCUniversesQuick == {UTie, UEpoch}
MCUniverses      == {UTie, UEpoch, UBlack, UChain}
MCUniversesSim   == {UBig, UChain, UBlack}
MCUniversesDefect == {UBlackTie}

\* behaviour export (see specs/CapLRU/MC_CapLRU.tla)
GenNext  == Len(hist) < Depth /\ Next
GenSpec  == Init /\ [][GenNext]_vars
EmitEdge == (Len(hist') <= EmitDepth) => PrintT("@@B " \o ToJson(hist'))
EmitFull == (Len(hist') = Depth) => PrintT("@@B " \o ToJson(hist'))
\* simulation: the last step of a walk is the single action CheckFork, so that exactly one behaviour per walk is printed
\* (TLC evaluates the action constraint on every candidate successor)
\* and every other step is ONE action drawn inside the specification (TLC's simulator would otherwise compute all
\* successors, a few hundred per step, only to pick one)
SimNext == IF Len(hist) = Depth - 1 THEN Do([a |-> "CheckFork"])
           ELSE (Len(hist) < Depth - 1 /\ \E act \in {RandomElement(Acts(s))} : Do(act))   \* bound once
SimSpec == Init /\ [][SimNext]_vars

\* exhaustive checking within a depth bound: the history is kept only as a length counter
BoundedNext == Len(hist) < Depth /\ \E act \in Acts(s) : (s' = Step(s, act).s /\ hist' = Append(hist, 0))
BoundedInit == \E k \in Kinds, U \in Universes, r \in {x \in RoundVals : x <= 2} : s = NewState(k, U, r) /\ hist = <<0>>
BoundedSpec == BoundedInit /\ [][BoundedNext]_vars
====
