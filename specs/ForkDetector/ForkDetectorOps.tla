--------------------------- MODULE ForkDetectorOps ---------------------------
(***************************************************************************)
(* Pure state-transformer transcription of process/sync/baseForkDetector.go, *)
(* shardForkDetector.go and metaForkDetector.go (elrond-go @ 2e2a64e).       *)
(*                                                                          *)
(* A detector state is a record `s`; every public call of the Go type is    *)
(* one operator  s -> [s |-> s', out |-> result]  written in the order of   *)
(* the Go statements.  ForkDetector.tla (one detector) and ForkTwin.tla     *)
(* (two detectors fed with permuted arrival orders, property C20b) both     *)
(* build their actions from Step(s, act).                                   *)
(*                                                                          *)
(* Hashes are small positive integers ordered like the byte strings the     *)
(* harness uses for them (bytes.Compare = integer order); 0 is the nil hash.*)
(* A universe U maps a hash to the header's attributes.                     *)
(***************************************************************************)
EXTENDS Integers, Sequences, FiniteSets

Inf == 999999                \* math.MaxUint64 (ForkInfo.Nonce/Round default, "no rollback nonce")
BlockFinality == 1           \* process.BlockFinality
MaxRoundsWithoutCommittedBlock == 10
RoundModulusTrigger == 5
NonceDifferenceWhenSynced == 0
MinForkRound == 0

MaxOf(S) == CHOOSE x \in S : \A y \in S : y <= x
MinOf(S) == CHOOSE x \in S : \A y \in S : x <= y

Genesis == [nonce |-> 0, round |-> 0, h |-> 0]

\* NewShardForkDetector / NewMetaForkDetector
NewState(kind, U, round) ==
    [kind |-> kind, U |-> U,
     hdrs |-> [n \in 0..MaxOf({U[h].nonce : h \in DOMAIN U}) |-> <<>>],   \* baseForkDetector.headers
     cps |-> <<Genesis>>,          \* fork.checkpoint
     final |-> Genesis,            \* fork.finalCheckpoint
     probable |-> 0,               \* fork.probableHighestNonce
     highest |-> 0,                \* fork.highestNonceReceived
     rollback |-> Inf,             \* fork.rollBackNonce
     lastForced |-> 0,             \* fork.lastRoundWithForcedFork
     round |-> round,              \* roundHandler.Index()
     black |-> {}]                 \* blackListHandler

LastCp(s) == IF s.cps = <<>> THEN Genesis ELSE s.cps[Len(s.cps)]

\* computeProbableHighestNonce
ProbableOf(hdrs, final) ==
    MaxOf({final.nonce} \cup {n \in DOMAIN hdrs : hdrs[n] # <<>> /\ n > final.nonce})

\* checkBlockBasicValidity (the order of the checks is the order of the code)
Validity(s, h) ==
    LET a == s.U[h]
        roundDif == a.round - s.final.round
        nonceDif == a.nonce - s.final.nonce
    IN  IF a.prev \in s.black THEN "blacklisted"
        ELSE IF a.bad THEN "genesisTime"
        ELSE IF roundDif < 0 THEN "lowerRound"
        ELSE IF nonceDif < 0 THEN "lowerNonce"
        ELSE IF a.round > s.round + 1 THEN "higherRound"
        ELSE IF roundDif < nonceDif THEN "higherNonce"
        ELSE "ok"

\* append: not added if the same (hash, state) is already stored at that nonce
AppendE(hdrs, e) ==
    LET l == hdrs[e.nonce] IN
    IF \E i \in 1..Len(l) : l[i].h = e.h /\ l[i].st = e.st
    THEN [ok |-> FALSE, hdrs |-> hdrs]
    ELSE [ok |-> TRUE, hdrs |-> [hdrs EXCEPT ![e.nonce] = Append(l, e)]]

\* getProcessedAndNotarizedIndexes: the LAST index of each state (0 = none)
LastIdx(l, st) ==
    LET I == {i \in 1..Len(l) : l[i].st = st} IN IF I = {} THEN 0 ELSE MaxOf(I)

\* shardForkDetector.computeFinalCheckpoint: the highest nonce (> 0) whose last processed and last
\* notarized entries carry the same hash; unchanged if there is none
ComputeFinalShard(s) ==
    LET Q == {n \in DOMAIN s.hdrs :
                 /\ n > 0
                 /\ LastIdx(s.hdrs[n], "proc") # 0 /\ LastIdx(s.hdrs[n], "nota") # 0
                 /\ s.hdrs[n][LastIdx(s.hdrs[n], "nota")].h = s.hdrs[n][LastIdx(s.hdrs[n], "proc")].h}
    IN  IF Q = {} THEN s.final
        ELSE LET n == MaxOf(Q)
                 e == s.hdrs[n][LastIdx(s.hdrs[n], "nota")]
             IN  [nonce |-> n, round |-> e.round, h |-> e.h]

ComputeFinal(s) == IF s.kind = "shard" THEN ComputeFinalShard(s) ELSE s.final   \* meta: empty method

\* removePastOrInvalidRecords = removePastHeaders; removeInvalidReceivedHeaders; removePastCheckpoints
RemovePastOrInvalid(s) ==
    LET f == s.final
        Keep(e) == ~(e.st \in {"recv", "late"} /\ (e.round - f.round) < (e.nonce - f.nonce))
    IN  [s EXCEPT !.hdrs = [n \in DOMAIN s.hdrs |-> IF n < f.nonce THEN <<>> ELSE SelectSeq(s.hdrs[n], Keep)],
                  !.cps = SelectSeq(s.cps, LAMBDA c : c.nonce >= f.nonce)]

\* appendSelfNotarizedHeaders: nl is a sequence of hashes (headers of the universe); epoch is NOT copied
RECURSIVE AppendNotarized(_, _, _, _)
AppendNotarized(s, nl, finalNonce, added) ==
    IF nl = <<>> THEN [s |-> s, added |-> added]
    ELSE LET a == s.U[Head(nl)] IN
         IF a.nonce <= finalNonce THEN AppendNotarized(s, Tail(nl), finalNonce, added)
         ELSE LET r == AppendE(s.hdrs, [h |-> Head(nl), nonce |-> a.nonce, round |-> a.round, epoch |-> 0, st |-> "nota"])
              IN  AppendNotarized([s EXCEPT !.hdrs = r.hdrs], Tail(nl), finalNonce, added \/ r.ok)

\* doJobOnBHProcessed
DoJobProcessed(s, h, nl) ==
    LET a  == s.U[h]
        cp == [nonce |-> a.nonce, round |-> a.round, h |-> h]
    IN  IF s.kind = "shard"
        THEN LET s1 == AppendNotarized(s, nl, s.final.nonce, FALSE).s
                 s2 == [s1 EXCEPT !.final = ComputeFinalShard(s1)]
                 s3 == [s2 EXCEPT !.cps = Append(s2.cps, cp)]
             IN  RemovePastOrInvalid(s3)
        ELSE LET s2 == [s EXCEPT !.final = LastCp(s)]
                 s3 == [s2 EXCEPT !.cps = Append(s2.cps, cp)]
             IN  RemovePastOrInvalid(s3)

\* processReceivedBlock
ProcessReceived(s, h, state, nl) ==
    LET a  == s.U[h]
        s1 == [s EXCEPT !.highest = IF a.nonce > s.highest THEN a.nonce ELSE s.highest]
    IN  IF state = "prop" THEN s1
        ELSE LET st == IF state # "proc" /\ a.round < s.round - BlockFinality THEN "late" ELSE state
                 r  == AppendE(s1.hdrs, [h |-> h, nonce |-> a.nonce, round |-> a.round, epoch |-> a.epoch, st |-> st])
             IN  IF ~r.ok THEN s1
                 ELSE LET s2 == [s1 EXCEPT !.hdrs = r.hdrs]
                          s3 == IF st = "proc" THEN DoJobProcessed(s2, h, nl) ELSE s2
                      IN  [s3 EXCEPT !.probable = ProbableOf(s3.hdrs, s3.final)]

\* AddHeader
AddHeader(s, h, state, nl) ==
    LET v == Validity(s, h) IN
    IF v \in {"blacklisted", "genesisTime"}
    THEN [s |-> [s EXCEPT !.black = s.black \cup {h}], out |-> [err |-> v]]
    ELSE IF v # "ok" THEN [s |-> s, out |-> [err |-> v]]
    ELSE [s |-> ProcessReceived(s, h, state, nl), out |-> [err |-> "ok"]]

\* ReceivedSelfNotarizedFromCrossHeaders (shard only; shardID = metachain)
ReceivedNotarized(s, nl) ==
    LET r == AppendNotarized(s, nl, s.final.nonce, FALSE) IN
    IF r.added THEN [r.s EXCEPT !.final = ComputeFinalShard(r.s)] ELSE r.s

\* RemoveHeader
RemoveHeader(s, n, h) ==
    LET s1 == [s EXCEPT !.cps = SelectSeq(s.cps, LAMBDA c : c.nonce # n),
                        !.hdrs = [s.hdrs EXCEPT ![n] = SelectSeq(s.hdrs[n], LAMBDA e : ~(e.st # "nota" /\ e.h = h))]]
        s2 == [s1 EXCEPT !.final = ComputeFinal(s1)]
    IN  [s2 EXCEPT !.probable = ProbableOf(s2.hdrs, s2.final)]

\* ResetProbableHighestNonce (cleanupReceivedHeadersHigherThanNonce(lastCheckpoint.nonce))
ResetProbable(s) ==
    LET lc == LastCp(s).nonce
        s1 == [s EXCEPT !.hdrs = [n \in DOMAIN s.hdrs |->
                    IF n <= lc THEN s.hdrs[n] ELSE SelectSeq(s.hdrs[n], LAMBDA e : e.st = "nota")]]
    IN  [s1 EXCEPT !.probable = ProbableOf(s1.hdrs, s1.final)]

ResetFork(s) == [ResetProbable(s) EXCEPT !.lastForced = s.round]

RestoreToGenesis(s) ==
    [s EXCEPT !.hdrs = [n \in DOMAIN s.hdrs |-> <<>>], !.cps = <<Genesis>>, !.final = Genesis,
              !.probable = 0, !.highest = 0]

-----------------------------------------------------------------------------
(* CheckFork *)

IsSyncing(s) == s.probable - LastCp(s).nonce > NonceDifferenceWhenSynced

\* isConsensusStuck
Stuck(s) ==
    /\ s.lastForced # s.round
    /\ ~IsSyncing(s)
    /\ s.round - LastCp(s).round > MaxRoundsWithoutCommittedBlock
    /\ s.round % RoundModulusTrigger = 0

\* computeForkInfo: acc = [h, round, epoch] is (lastForkHash, lastForkRound, lastForkEpoch)
ComputeForkInfo(s, e, maxE, acc) ==
    IF e.st = "late" /\ s.highest > e.nonce THEN acc
    ELSE LET cur == IF e.st = "nota" THEN MinForkRound ELSE e.round IN
         IF e.st # "nota" /\ e.epoch < maxE THEN acc
         ELSE IF cur < acc.round THEN [h |-> e.h, round |-> cur, epoch |-> e.epoch]
         ELSE IF cur = acc.round /\ e.h < acc.h THEN [h |-> e.h, round |-> cur, epoch |-> e.epoch]
         ELSE acc

RECURSIVE ForkFold(_, _, _, _, _)
ForkFold(s, l, i, maxE, acc) ==
    IF i > Len(l) THEN acc
    ELSE ForkFold(s, l, i + 1, maxE,
                  IF l[i].st = "proc" THEN acc ELSE ComputeForkInfo(s, l[i], maxE, acc))

\* shouldSignalFork
ShouldSignal(s, self, acc) ==
    IF self.h = acc.h THEN FALSE
    ELSE IF acc.round # MinForkRound /\ self.epoch > acc.epoch THEN FALSE
    ELSE IF acc.round # MinForkRound /\ self.epoch < acc.epoch THEN TRUE
    ELSE \/ self.round > acc.round
         \/ (self.round = acc.round /\ self.h > acc.h /\ ~(s.highest > self.nonce))

\* the competitor selected at nonce n (the fold of the loop body over headers[n])
ForkAcc(s, n) ==
    LET l == s.hdrs[n]
        maxE == MaxOf({0} \cup {l[i].epoch : i \in 1..Len(l)})
    IN  ForkFold(s, l, 1, maxE, [h |-> 0, round |-> Inf, epoch |-> 0])

SignalsAt(s, n) ==
    LET l == s.hdrs[n] IN
    /\ Len(l) >= 2
    /\ n > s.final.nonce
    /\ LastIdx(l, "proc") # 0
    /\ ShouldSignal(s, l[LastIdx(l, "proc")], ForkAcc(s, n))

NoFork == [det |-> FALSE, nonce |-> Inf, round |-> Inf, h |-> 0]

\* the scan over the headers map (the part of CheckFork after the stuck / rollback short cuts)
ScanFork(s) ==
    LET F == {n \in DOMAIN s.hdrs : SignalsAt(s, n)} IN
    IF F = {} THEN NoFork
    ELSE LET n == MinOf(F) acc == ForkAcc(s, n)
         IN  [det |-> TRUE, nonce |-> n, round |-> acc.round, h |-> acc.h]

\* CheckFork: result and successor state (a pending rollback nonce is consumed)
CheckFork(s) ==
    IF Stuck(s) THEN [s |-> s, out |-> [det |-> TRUE, nonce |-> Inf, round |-> Inf, h |-> 0]]
    ELSE IF s.rollback < Inf
         THEN [s |-> [s EXCEPT !.rollback = Inf], out |-> [det |-> TRUE, nonce |-> s.rollback, round |-> Inf, h |-> 0]]
         ELSE [s |-> s, out |-> ScanFork(s)]

\* GetNotarizedHeaderHash
NotarizedHash(s, n) ==
    LET l == s.hdrs[n]
        I == {i \in 1..Len(l) : l[i].st = "nota"}
    IN  IF I = {} THEN 0 ELSE l[MinOf(I)].h

-----------------------------------------------------------------------------
(* One step of the detector for an action record *)
Step(s, act) ==
    CASE act.a = "AddHeader"   -> AddHeader(s, act.h, act.state, act.nl)
      [] act.a = "Notarized"   -> [s |-> ReceivedNotarized(s, act.nl), out |-> [x |-> 0]]
      [] act.a = "Remove"      -> [s |-> RemoveHeader(s, act.n, act.h), out |-> [x |-> 0]]
      [] act.a = "ResetFork"   -> [s |-> ResetFork(s), out |-> [x |-> 0]]
      [] act.a = "ResetProbable" -> [s |-> ResetProbable(s), out |-> [x |-> 0]]
      [] act.a = "SetRollBack" -> [s |-> [s EXCEPT !.rollback = act.n], out |-> [x |-> 0]]
      [] act.a = "Restore"     -> [s |-> RestoreToGenesis(s), out |-> [x |-> 0]]
      [] act.a = "SetFinalToLast" -> [s |-> [s EXCEPT !.final = LastCp(s)], out |-> [x |-> 0]]
      [] act.a = "Tick"        -> [s |-> [s EXCEPT !.round = act.r], out |-> [x |-> 0]]
      [] act.a = "CheckFork"   -> CheckFork(s)

\* what the harness can observe through the public API after every step.  `chk` is the result of
\* CheckFork; it is only observed (obs = TRUE) when no rollback nonce is pending, because then the
\* call has no side effect.
Proj(s) ==
    [final |-> s.final.nonce, finalHash |-> s.final.h, probable |-> s.probable,
     obs |-> (s.rollback = Inf),
     chk |-> IF s.rollback = Inf THEN CheckFork(s).out ELSE NoFork,
     nota |-> [n \in DOMAIN s.hdrs |-> NotarizedHash(s, n)]]

-----------------------------------------------------------------------------
(* Property C20a on one state: unless a rollback was requested or consensus is stuck, *)
(* CheckFork does not report a fork at or below the highest final nonce.              *)
C20a(s) ==
    LET r == CheckFork(s).out IN
    (r.det /\ ~Stuck(s) /\ s.rollback = Inf) => r.nonce > s.final.nonce

\* structural sanity of the transcription
StateOK(s) ==
    /\ \A n \in DOMAIN s.hdrs : \A i \in 1..Len(s.hdrs[n]) : s.hdrs[n][i].nonce = n
    /\ \A n \in DOMAIN s.hdrs : \A i, j \in 1..Len(s.hdrs[n]) :
           i # j => ~(s.hdrs[n][i].h = s.hdrs[n][j].h /\ s.hdrs[n][i].st = s.hdrs[n][j].st)
    /\ s.probable >= s.final.nonce
=============================================================================
