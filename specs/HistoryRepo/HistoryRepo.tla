------------------------------ MODULE HistoryRepo ------------------------------
(***************************************************************************)
(* core/dblookupext.historyRepository (property C46).                       *)
(*                                                                          *)
(* Implementation state (one variable per storer / map of the Go struct):   *)
(*   hdrEpoch, mbEpoch   epochByHashIndex            (hash -> epoch)        *)
(*   meta                miniblocksMetadataStorer    (epoch, mbHash) -> rec *)
(*   txIdx               miniblockHashByTxHashIndex  (txs of a miniblock    *)
(*                       are disjoint, so "tx -> mb" is the set of indexed  *)
(*                       miniblocks)                                        *)
(*   dedup               deduplicationCacheForInsertMiniblockMetadata       *)
(*   pendSrc/Dst/Both    pendingNotarizedAt{Source,Destination,Both}...     *)
(* Actions: RecordBlock (one call, under recordBlockMutex) and              *)
(* OnNotarizedBlocks (queue the notifications of every meta block of the    *)
(* call, then consumePendingNotificationsWithLock), in any order.           *)
(*                                                                          *)
(* Ghost state (a function of the *inputs* only -- this is what the         *)
(* property talks about): the content of every block committed so far, the  *)
(* most recently committed block containing each miniblock, the meta blocks *)
(* seen notarizing each miniblock at source / destination.                  *)
(*                                                                          *)
(* Named deviations of the code as it is (Defects):                         *)
(*   "dedup"  the deduplication cache is keyed by (epoch, miniblock) only:  *)
(*            a competing block of the same epoch does not replace the      *)
(*            record of the dropped block                                   *)
(*   "lost"   a re-recorded miniblock gets a fresh record: notarization     *)
(*            coordinates already patched into the previous record are lost *)
(*   "lag"    RecordBlock does not consume pending notifications: a         *)
(*            notification that arrived before the record becomes visible   *)
(*            only at the end of the next OnNotarizedBlocks call            *)
(***************************************************************************)
EXTENDS Integers, Sequences, FiniteSets, TLC

CONSTANTS MBs,         \* miniblock ids (strings)
          Dirs,        \* candidate directions of a miniblock: "intra" "out" "in" "toMeta" "fromMeta"
          Headers,     \* block header ids (positive integers)
          Epochs,      \* epochs (positive integers)
          Metas,       \* meta block ids (positive integers; nonce and hash are functions of the id)
          MaxEntries,  \* notifications per OnNotarizedBlocks call
          Defects,     \* subset of {"dedup", "lost", "lag"}
          Log(_, _)

VARIABLES dir,                                  \* configuration: direction of every miniblock (chosen in Init)
          hdrEpoch, mbEpoch, meta, txIdx, dedup, pendSrc, pendDst, pendBoth,      \* implementation
          blocks, last, hclass, seenSrc, seenDst, owedSrc, owedDst, maxEpoch,     \* ghost
          hist

ivars == <<hdrEpoch, mbEpoch, meta, txIdx, dedup, pendSrc, pendDst, pendBoth>>
gvars == <<blocks, last, hclass, seenSrc, seenDst, owedSrc, owedDst, maxEpoch>>
cvars == <<dir, ivars, gvars>>
vars  == <<cvars, hist>>

Sender(d)   == CASE d = "intra" -> "self" [] d = "out" -> "self" [] d = "in" -> "other"
                 [] d = "toMeta" -> "self" [] d = "fromMeta" -> "meta"
Receiver(d) == CASE d = "intra" -> "self" [] d = "out" -> "other" [] d = "in" -> "self"
                 [] d = "toMeta" -> "meta" [] d = "fromMeta" -> "self"

NoRec   == [hdr |-> 0, epoch |-> 0, src |-> 0, dst |-> 0]
NoBlock == [epoch |-> 0, mbs |-> {}]

\* getMiniblockMetadataByMiniblockHash: epochByHash index, then the storer of that epoch
ByMbHash(me, mt, m) == IF me[m] = 0 THEN NoRec ELSE mt[m][me[m]]
\* GetMiniblockMetadataByTxHash for any transaction of miniblock m
LookupIn(ti, me, mt, m) == IF m \in ti THEN ByMbHash(me, mt, m) ELSE NoRec
Lookup(m) == LookupIn(txIdx, mbEpoch, meta, m)

\* onNotarizedMiniblock: which pending map a notification goes to
Kind(m, shard) ==
    LET d == dir[m] IN
    IF d \in {"intra", "toMeta"} THEN "both"
    ELSE IF Sender(d) = shard THEN "src"
    ELSE IF Receiver(d) = shard THEN "dst"
    ELSE "ignored"

\* shards whose (meta) block can carry the header of miniblock m
CarrierShards(m) == {Sender(dir[m]), Receiver(dir[m])}

\* consumePendingNotificationsWithLock, for one miniblock: r = its metadata record (NoRec: not yet committed ->
\* the notification stays pending), s/d/bt = its entries in the source / destination / both maps (0 = none).
\* The three passes run source, destination, both; "both" overwrites.
\* (Everything below is written per miniblock over the concrete state variables: TLC evaluates nested
\* function-valued LETs lazily and repeatedly, which made the first version 20x slower.)
Patched(r, s, d, bt) ==
    IF r = NoRec THEN r
    ELSE [r EXCEPT !.src = IF bt # 0 THEN bt ELSE IF s # 0 THEN s ELSE @,
                   !.dst = IF bt # 0 THEN bt ELSE IF d # 0 THEN d ELSE @]
StillPending(r, p) == IF r = NoRec THEN p ELSE 0

-----------------------------------------------------------------------------
(* what the property requires, as a function of the ghost state *)
Req(bl, la, hc, ss, sd, os, od) ==
    [m \in MBs |-> [hdr |-> la[m], epoch |-> IF la[m] = 0 THEN 0 ELSE bl[la[m]].epoch,
                    srcSeen |-> ss[m], dstSeen |-> sd[m],
                    srcOwed |-> os[m] # {}, dstOwed |-> od[m] # {}, hclass |-> hc[m]]]

Obs(hd, ti, me, mt, bl, la, hc, ss, sd, os, od) ==
    [req  |-> Req(bl, la, hc, ss, sd, os, od),
     hdrs |-> [b \in Headers |-> bl[b].epoch],            \* required GetEpochByHash(header), 0 = never committed
     impl |-> [m \in MBs |-> LookupIn(ti, me, mt, m)]]    \* what this model of the code answers (drift only)

Init ==
    /\ dir \in [MBs -> Dirs]
    /\ hdrEpoch = [b \in Headers |-> 0] /\ mbEpoch = [m \in MBs |-> 0]
    /\ meta = [m \in MBs |-> [e \in Epochs |-> NoRec]]
    /\ txIdx = {} /\ dedup = [m \in MBs |-> [e \in Epochs |-> 0]]
    /\ pendSrc = [m \in MBs |-> 0] /\ pendDst = [m \in MBs |-> 0] /\ pendBoth = [m \in MBs |-> 0]
    /\ blocks = [b \in Headers |-> NoBlock] /\ last = [m \in MBs |-> 0]
    /\ hclass = [m \in MBs |-> "never"]
    /\ seenSrc = [m \in MBs |-> {}] /\ seenDst = [m \in MBs |-> {}]
    /\ owedSrc = [m \in MBs |-> {}] /\ owedDst = [m \in MBs |-> {}]
    /\ maxEpoch = 0
    /\ hist = <<[a |-> "New", in |-> [dir |-> dir], out |-> [x |-> 0],
                 st |-> Obs(hdrEpoch, txIdx, mbEpoch, meta, blocks, last, hclass, seenSrc, seenDst, owedSrc, owedDst)]>>

\* RecordBlock(headerHash b, header.Epoch e, body.MiniBlocks ms)
RecordBlock(b, e, ms) ==
    /\ e >= maxEpoch                                            \* committed blocks have non-decreasing epochs
    /\ IF blocks[b] = NoBlock THEN ms # {} ELSE blocks[b] = [epoch |-> e, mbs |-> ms]  \* a hash determines the block
    /\ LET skip(m)  == dedup[m][e] # 0 /\ ("dedup" \in Defects \/ dedup[m][e] = b)   \* hasRecentlyInserted...
           W        == {m \in ms : ~skip(m)}                                          \* miniblocks (re)inserted
           prev(m)  == ByMbHash(mbEpoch, meta, m)
           fresh(m) == [hdr |-> b, epoch |-> e,
                        src |-> IF "lost" \in Defects THEN 0 ELSE prev(m).src,
                        dst |-> IF "lost" \in Defects THEN 0 ELSE prev(m).dst]
           ep1(m)   == IF m \in W THEN e ELSE mbEpoch[m]          \* saveEpochByHash(miniblockHash, epoch)
           rec1(m)  == IF m \in W THEN fresh(m) ELSE prev(m)      \* putMiniblockMetadata
           here     == "lag" \notin Defects                      \* intended design: consume pending here too
           rec2(m)  == IF here THEN Patched(rec1(m), pendSrc[m], pendDst[m], pendBoth[m]) ELSE rec1(m)
           pend(p, m) == IF here THEN StillPending(rec1(m), p[m]) ELSE p[m]
       IN  /\ hdrEpoch' = [hdrEpoch EXCEPT ![b] = e]
           /\ mbEpoch' = [m \in MBs |-> ep1(m)]
           /\ meta' = [m \in MBs |-> IF ep1(m) = 0 THEN meta[m] ELSE [meta[m] EXCEPT ![ep1(m)] = rec2(m)]]
           /\ dedup' = [m \in MBs |-> IF m \in W THEN [dedup[m] EXCEPT ![e] = b] ELSE dedup[m]]
           /\ txIdx' = txIdx \cup W
           /\ pendSrc' = [m \in MBs |-> pend(pendSrc, m)]
           /\ pendDst' = [m \in MBs |-> pend(pendDst, m)]
           /\ pendBoth' = [m \in MBs |-> pend(pendBoth, m)]
    /\ blocks' = [blocks EXCEPT ![b] = [epoch |-> e, mbs |-> ms]]
    /\ last' = [m \in MBs |-> IF m \in ms THEN b ELSE last[m]]
    /\ hclass' = [m \in MBs |->
                    IF m \notin ms THEN hclass[m]
                    ELSE IF last[m] = 0 THEN "first-record"
                    ELSE IF last[m] = b THEN hclass[m]                      \* same block committed again
                    ELSE IF blocks[last[m]].epoch = e THEN "competing-block-same-epoch"
                    ELSE "competing-block-later-epoch"]
    /\ maxEpoch' = e
    /\ UNCHANGED <<dir, seenSrc, seenDst, owedSrc, owedDst>>
    /\ hist' = Log(hist, [a |-> "Record", in |-> [b |-> b, epoch |-> e, mbs |-> ms], out |-> [x |-> 0],
                          st |-> Obs(hdrEpoch', txIdx', mbEpoch', meta', blocks', last', hclass', seenSrc, seenDst, owedSrc, owedDst)])

\* the last notification of kind k (or "both") for miniblock m in the call, 0 if none
RECURSIVE LastOf(_, _, _)
LastOf(es, m, ks) ==
    IF es = <<>> THEN 0
    ELSE LET x == es[Len(es)] IN
         IF x.mb = m /\ Kind(m, x.shard) \in ks THEN x.meta ELSE LastOf(SubSeq(es, 1, Len(es) - 1), m, ks)

AllOf(es, m, ks) == {es[i].meta : i \in {j \in 1..Len(es) : es[j].mb = m /\ Kind(m, es[j].shard) \in ks}}

\* OnNotarizedBlocks: es = the miniblock headers of all meta blocks of the call, in order,
\* each [meta |-> meta block, shard |-> shard of the containing (shard or meta) block, mb |-> miniblock]
Notify(es) ==
    /\ \A i \in 1..Len(es) : es[i].shard \in CarrierShards(es[i].mb)
    /\ LET q(p, ks, m) == IF LastOf(es, m, ks) # 0 THEN LastOf(es, m, ks) ELSE p[m]     \* pendingMap.Set
           r(m) == ByMbHash(mbEpoch, meta, m)
       IN  /\ meta' = [m \in MBs |-> IF mbEpoch[m] = 0 THEN meta[m]
                                      ELSE [meta[m] EXCEPT ![mbEpoch[m]] =
                                              Patched(r(m), q(pendSrc, {"src"}, m), q(pendDst, {"dst"}, m), q(pendBoth, {"both"}, m))]]
           /\ pendSrc' = [m \in MBs |-> StillPending(r(m), q(pendSrc, {"src"}, m))]
           /\ pendDst' = [m \in MBs |-> StillPending(r(m), q(pendDst, {"dst"}, m))]
           /\ pendBoth' = [m \in MBs |-> StillPending(r(m), q(pendBoth, {"both"}, m))]
    /\ seenSrc' = [m \in MBs |-> seenSrc[m] \cup AllOf(es, m, {"src", "both"})]
    /\ seenDst' = [m \in MBs |-> seenDst[m] \cup AllOf(es, m, {"dst", "both"})]
    \* a notification has had its consumption opportunity once a call ends while the miniblock is recorded
    /\ owedSrc' = [m \in MBs |-> IF last[m] # 0 THEN {} ELSE owedSrc[m] \cup AllOf(es, m, {"src", "both"})]
    /\ owedDst' = [m \in MBs |-> IF last[m] # 0 THEN {} ELSE owedDst[m] \cup AllOf(es, m, {"dst", "both"})]
    /\ UNCHANGED <<dir, hdrEpoch, mbEpoch, txIdx, dedup, blocks, last, hclass, maxEpoch>>
    /\ hist' = Log(hist, [a |-> "Notify", in |-> [es |-> es], out |-> [x |-> 0],
                          st |-> Obs(hdrEpoch, txIdx, mbEpoch, meta', blocks, last, hclass, seenSrc', seenDst', owedSrc', owedDst')])

Entries == [meta : Metas, shard : {"self", "other", "meta"}, mb : MBs]
RECURSIVE SeqsUpTo(_, _)
SeqsUpTo(S, n) == IF n = 0 THEN {<<>>} ELSE SeqsUpTo(S, n - 1) \cup {Append(s, x) : s \in {t \in SeqsUpTo(S, n - 1) : Len(t) = n - 1}, x \in S}

NotifyInputs == SeqsUpTo(Entries, MaxEntries)      \* constant-level: evaluated once

Next ==
    \/ \E b \in Headers, e \in Epochs, ms \in SUBSET MBs : RecordBlock(b, e, ms)
    \/ \E es \in NotifyInputs : Notify(es)

Spec == Init /\ [][Next]_vars

-----------------------------------------------------------------------------
(* C46 *)
Recorded(m) == last[m] # 0

\* lookup of a committed transaction reports the most recently committed block containing its miniblock
Inv_C46_CanonicalBlock ==
    \A m \in MBs : Recorded(m) =>
        /\ Lookup(m).hdr = last[m]
        /\ Lookup(m).epoch = blocks[last[m]].epoch
        /\ mbEpoch[m] = blocks[last[m]].epoch
Inv_C46_HeaderEpoch == \A b \in Headers : blocks[b] # NoBlock => hdrEpoch[b] = blocks[b].epoch

\* notarization data is reported once the notarizing meta block has been seen, whichever came first (strict reading)
Inv_C46_NotarizationVisible ==
    \A m \in MBs : Recorded(m) =>
        /\ seenSrc[m] # {} => Lookup(m).src \in seenSrc[m]
        /\ seenDst[m] # {} => Lookup(m).dst \in seenDst[m]
\* weak reading: ... at the latest when the first OnNotarizedBlocks call after record and notification has ended
Inv_C46_NotarizationAfterNextCall ==
    \A m \in MBs : Recorded(m) =>
        /\ (seenSrc[m] # {} /\ owedSrc[m] = {}) => Lookup(m).src \in seenSrc[m]
        /\ (seenDst[m] # {} /\ owedDst[m] = {}) => Lookup(m).dst \in seenDst[m]
\* only meta blocks that were seen notarizing the miniblock are reported
Inv_C46_NoInventedNotarization ==
    \A m \in MBs : /\ Lookup(m).src \in seenSrc[m] \cup {0}
                   /\ Lookup(m).dst \in seenDst[m] \cup {0}

TypeOK ==
    /\ \A m \in MBs : ~Recorded(m) => Lookup(m) = NoRec
    /\ \A m \in MBs : owedSrc[m] \subseteq seenSrc[m] /\ owedDst[m] \subseteq seenDst[m]
=============================================================================
