---- MODULE MC_HistoryRepo ----
EXTENDS HistoryRepo, Json
CONSTANT Depth
LogAppend(h, r) == Append(h, r)
LogLast(h, r) == <<r>>
DefNone == {}
DefLag  == {"lag"}
DefLagLost == {"lag", "lost"}
DefLagDedup == {"lag", "dedup"}
DefAsIs == {"lag", "lost", "dedup"}
GenNext  == Len(hist) < Depth /\ Next
GenSpec  == Init /\ [][GenNext]_vars
EmitEdge == PrintT("@@B " \o ToJson(hist'))
EmitFull == (Len(hist') = Depth) => PrintT("@@B " \o ToJson(hist'))
====
