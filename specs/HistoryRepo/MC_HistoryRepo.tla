---- MODULE MC_HistoryRepo ----
EXTENDS HistoryRepo, Json
CONSTANT Depth
LogAppend(h, r) == Append(h, r)
LogLast(h, r) == <<r>>
DefNone == {}
DefLag  == {"lag"}
DefLagLost == {"lag", "lost"}
DefLagDedup == {"lag", "dedup"}
DefAsIs == {"lag", "lost", "dedup"}
GenNext  == Len(hist) < Depth /\ Next
GenSpec  == Init /\ [][GenNext]_vars
EmitEdge == PrintT("@@B " \o ToJson(hist'))
\* simulation mode: the last step of a walk is the deterministic no-op "End", so that exactly one complete
\* behaviour per walk is printed (an action constraint is evaluated on every candidate successor)
Finish   == /\ UNCHANGED cvars
            /\ hist' = Append(hist, [a |-> "End", in |-> [x |-> 0], out |-> [x |-> 0], st |-> hist[Len(hist)].st])
SimNext  == IF Len(hist) < Depth - 1 THEN Next ELSE (Len(hist) = Depth - 1 /\ Finish)
SimSpec  == Init /\ [][SimNext]_vars
EmitFull == (Len(hist') = Depth) => PrintT("@@B " \o ToJson(hist'))
====
