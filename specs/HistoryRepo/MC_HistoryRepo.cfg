SPECIFICATION Spec
CONSTANTS
  MBs = {"a", "b"}
  Dirs = {"intra", "in"}
  Headers = {1, 2, 3}
  Epochs = {1, 2}
  Metas = {1, 2}
  MaxEntries = 1
  Defects <- DefNone
  Log <- LogLast
  Depth = 0
VIEW cvars
INVARIANTS TypeOK Inv_C46_CanonicalBlock Inv_C46_HeaderEpoch Inv_C46_NotarizationVisible Inv_C46_NotarizationAfterNextCall Inv_C46_NoInventedNotarization
CHECK_DEADLOCK FALSE
