SPECIFICATION Spec
CONSTANTS
  Amounts = {0, 1, 2, 3, 7, 9, 10, 11, 99, 100, 101, 999, 1000, 1001, 1999, 2000}
  MaxK = 3
  BigSamples <- MCSamples
  Rewards = {0, 1, 2, 9, 10, 11, 99, 100, 101, 1000}
  Fees <- MCFees
  StakeSets <- MCStakeSets
  Log <- LogLast
  Depth = 0
VIEW cvars
INVARIANTS Inv_C36_NoClauseViolated Inv_C36_NativeBounds Inv_C36_SplitExact Inv_BigAgreesWithNative
CHECK_DEADLOCK FALSE
