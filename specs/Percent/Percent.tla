------------------------------- MODULE Percent -------------------------------
(***************************************************************************)
(* core.GetIntTrimmedPercentageOfValue and its use in the delegation        *)
(* contract (delegation.computeAndUpdateRewards).                           *)
(*                                                                          *)
(* Property C36: taking a percentage p in [0,1] of a non-negative amount v  *)
(* gives v*p rounded down, which lies between 0 and v; the split of rewards *)
(* between the owner of a delegation contract and its delegators hands out  *)
(* exactly the rewards to distribute.                                        *)
(*                                                                          *)
(* What "v*p" means here: the code renders the float64 p with               *)
(* strconv.FormatFloat(p,'f',-1,64) (the shortest decimal that reads back   *)
(* as p), drops the decimal point and computes (v * num) div 10^k with      *)
(* k = number of digits after the point.  The specification's p IS that      *)
(* decimal: p = num / 10^k.  (Not the binary value of the float64: the two  *)
(* differ from about v > 10^17 on.)                                          *)
(*                                                                          *)
(* Amounts are big integers in the code.  The specification has the         *)
(* arithmetic twice: on TLC's native integers (Pct; model checked over all   *)
(* small inputs) and on naturals of any size written as little-endian        *)
(* sequences of base-10000 limbs (BigPct; model checked to agree with the    *)
(* native one wherever both are defined, and used to check every recorded    *)
(* call of the real function at real scale: 10^21 amounts, 17-digit p).      *)
(***************************************************************************)
EXTENDS Integers, Sequences, FiniteSets, TLC

CONSTANTS Amounts,       \* native amounts explored
          MaxK,          \* digits after the decimal point explored (num in 0..10^k)
          BigSamples,    \* native numbers used to cross-check the limb arithmetic (products < 2^31)
          Rewards,       \* rewards of an epoch (delegation split)
          Fees,          \* service fees explored: set of <<num, k>>
          StakeSets,     \* set of stake vectors (sequence; first = owner's own stake)
          Log(_, _)

VARIABLES in, out, hist
vars  == <<in, out, hist>>
cvars == <<in, out>>

-----------------------------------------------------------------------------
(* native integers *)
RECURSIVE Pow10(_)
Pow10(k) == IF k = 0 THEN 1 ELSE 10 * Pow10(k - 1)

\* GetIntTrimmedPercentageOfValue(v, p) for p = num / 10^k
Pct(v, num, k) == (v * num) \div Pow10(k)

RECURSIVE SumSeq(_)
SumSeq(s) == IF s = <<>> THEN 0 ELSE Head(s) + SumSeq(Tail(s))

-----------------------------------------------------------------------------
(* naturals of any size: little-endian sequences of limbs in 0..9999, <<>> = 0, no zero top limb *)
B == 10000
RECURSIVE ToLimbs(_), FromLimbs(_), Norm(_)
ToLimbs(n)   == IF n = 0 THEN <<>> ELSE <<n % B>> \o ToLimbs(n \div B)
FromLimbs(d) == IF d = <<>> THEN 0 ELSE Head(d) + B * FromLimbs(Tail(d))
Norm(d)      == IF d = <<>> THEN d ELSE IF d[Len(d)] = 0 THEN Norm(SubSeq(d, 1, Len(d) - 1)) ELSE d
IsLimbs(d)   == (\A i \in 1..Len(d) : d[i] \in 0..(B - 1)) /\ (d = <<>> \/ d[Len(d)] # 0)
Limb(d, i)   == IF i >= 1 /\ i <= Len(d) THEN d[i] ELSE 0

\* column j of the schoolbook product (at most ~20 terms of < 10^8 each stay below 2^31)
RECURSIVE ColSum(_, _, _, _)
ColSum(a, b, j, i) == IF i > j \/ i > Len(a) THEN 0 ELSE Limb(a, i) * Limb(b, j - i + 1) + ColSum(a, b, j, i + 1)
RECURSIVE MulFrom(_, _, _, _)
MulFrom(a, b, j, carry) ==
    IF j > Len(a) + Len(b) THEN ToLimbs(carry)
    ELSE LET t == ColSum(a, b, j, 1) + carry IN <<t % B>> \o MulFrom(a, b, j + 1, t \div B)
BigMul(a, b) == IF a = <<>> \/ b = <<>> THEN <<>> ELSE Norm(MulFrom(a, b, 1, 0))

\* quotient by a small divisor s (1..1000), from the top limb down
RECURSIVE DivFrom(_, _, _, _)
DivFrom(d, s, i, rem) ==
    IF i = 0 THEN <<>> ELSE LET c == rem * B + d[i] IN DivFrom(d, s, i - 1, c % s) \o <<c \div s>>
DivSmall(d, s) == Norm(DivFrom(d, s, Len(d), 0))
DropLimbs(d, n) == IF n >= Len(d) THEN <<>> ELSE SubSeq(d, n + 1, Len(d))

\* (v * num) div 10^k on limbs
BigPct(v, num, k) == DivSmall(DropLimbs(BigMul(v, num), k \div 4), Pow10(k % 4))

RECURSIVE LeqFrom(_, _, _)
LeqFrom(a, b, i) == IF i = 0 THEN TRUE ELSE IF a[i] # b[i] THEN a[i] < b[i] ELSE LeqFrom(a, b, i - 1)
BigLeq(a, b) == IF Len(a) # Len(b) THEN Len(a) < Len(b) ELSE LeqFrom(a, b, Len(a))
BigPow10(k) == [i \in 1..(k \div 4) |-> 0] \o <<Pow10(k % 4)>>

-----------------------------------------------------------------------------
(* the delegation contract's split of one epoch's rewards (computeAndUpdateRewards):                 *)
(*   owner's part = Pct(rewards, fee);  the rest is shared in proportion to the active stakes,        *)
(*   each share rounded down; the owner also holds a stake (stakes[1], possibly 0)                    *)
OwnerPart(rewards, fee) == FromLimbs(BigPct(ToLimbs(rewards), fee.num, fee.k))
Pool(rewards, fee) == rewards - OwnerPart(rewards, fee)
Share(rewards, fee, stake, total) == (Pool(rewards, fee) * stake) \div total
\* what delegator i can claim for one epoch; total = 0: everything goes to the owner
Claim(ep, stakes, i) ==
    IF ep.total = 0 THEN (IF i = 1 THEN ep.rewards ELSE 0)
    ELSE Share(ep.rewards, ep.fee, stakes[i], ep.total) + (IF i = 1 THEN OwnerPart(ep.rewards, ep.fee) ELSE 0)
RECURSIVE ClaimAll(_, _, _)
ClaimAll(eps, stakes, i) == IF eps = <<>> THEN 0 ELSE Claim(Head(eps), stakes, i) + ClaimAll(Tail(eps), stakes, i)

-----------------------------------------------------------------------------
(* C36 on one evaluated call *)
Viol(i, o) ==
    CASE i.op = "Pct" ->
            (IF ~(BigLeq(o.r, i.v)) THEN {"above-amount"} ELSE {})
            \cup (IF BigLeq(i.num, BigPow10(i.k)) /\ o.r # BigPct(i.v, i.num, i.k) THEN {"not-floor-of-v-times-p"} ELSE {})
            \cup (IF i.num = BigPow10(i.k) /\ o.r # i.v THEN {"hundred-percent-is-not-identity"} ELSE {})
            \cup (IF i.num = <<>> /\ o.r # <<>> THEN {"zero-percent-is-not-zero"} ELSE {})
      [] i.op = "Approx" ->
            (IF ~(BigLeq(o.r, i.v)) THEN {"above-amount"} ELSE {})
      [] i.op = "Split" ->
            LET n == Len(i.stakes)
                tot == SumSeq([e \in 1..Len(i.epochs) |-> i.epochs[e].rewards])
                paid == SumSeq(o.claims)
                nz == SumSeq([e \in 1..Len(i.epochs) |-> IF i.epochs[e].total = 0 THEN 0 ELSE 1])
            IN (IF paid > tot THEN {"hands-out-more-than-rewards"} ELSE {})
               \cup (IF \E j \in 1..n : o.claims[j] < 0 THEN {"negative-claim"} ELSE {})
               \* rounding: every delegator loses less than one unit per epoch
               \* (nz epochs with active stake; an epoch without active stake goes to the owner entirely)
               \cup (IF tot - paid >= n * nz + (IF nz = 0 THEN 1 ELSE 0) THEN {"rewards-withheld"} ELSE {})

Expected(i) ==
    CASE i.op = "Pct"    -> [r |-> BigPct(i.v, i.num, i.k)]
      [] i.op = "Split"  -> [claims |-> [j \in 1..Len(i.stakes) |-> ClaimAll(i.epochs, i.stakes, j)]]

-----------------------------------------------------------------------------
NoOut == [none |-> TRUE]
PctInputs ==
    {[op |-> "Pct", v |-> ToLimbs(v), num |-> ToLimbs(num), k |-> k] :
        v \in Amounts, k \in 0..MaxK, num \in 0..1000}
SplitInputs ==
    {[op |-> "Split", stakes |-> st,
      epochs |-> <<[rewards |-> r, fee |-> [num |-> ToLimbs(f[1]), k |-> f[2]], total |-> SumSeq(st)]>>] :
        st \in StakeSets, r \in Rewards, f \in Fees}

Init ==
    /\ in \in {i \in PctInputs : FromLimbs(i.num) <= Pow10(i.k)} \cup SplitInputs
    /\ out = NoOut
    /\ hist = <<[a |-> "New", in |-> [x |-> 0], out |-> [x |-> 0], st |-> [x |-> 0]]>>

Eval ==
    /\ out = NoOut
    /\ out' = Expected(in)
    /\ UNCHANGED in
    /\ hist' = Log(hist, [a |-> in.op, in |-> in, out |-> out', st |-> [x |-> 0]])

Next == Eval
Spec == Init /\ [][Next]_vars

-----------------------------------------------------------------------------
(* C36 on the specification (all small inputs) *)
Done == out # NoOut
Inv_C36_NoClauseViolated == Done => Viol(in, out) = {}

\* 0 <= Pct <= v ; Pct(v, 1) = v ; Pct(v, 0) = 0 ; monotone in p  -- on native integers
Inv_C36_NativeBounds ==
    (Done /\ in.op = "Pct") =>
        LET v == FromLimbs(in.v) num == FromLimbs(in.num) k == in.k r == Pct(v, num, k) IN
        /\ 0 <= r /\ r <= v
        /\ FromLimbs(out.r) = r                                  \* limb arithmetic = native arithmetic
        /\ IsLimbs(out.r)
        /\ (num = Pow10(k) => r = v) /\ (num = 0 => r = 0)
        /\ (num < Pow10(k) => Pct(v, num + 1, k) >= r)
        /\ r * Pow10(k) <= v * num /\ v * num < (r + 1) * Pow10(k)   \* r = floor(v * num / 10^k)

\* owner's part + delegators' pool = rewards; the shares never exceed the pool and lose < 1 unit per delegator
Inv_C36_SplitExact ==
    (Done /\ in.op = "Split") =>
        LET ep == in.epochs[1] n == Len(in.stakes)
            shares == [j \in 1..n |-> IF ep.total = 0 THEN 0 ELSE Share(ep.rewards, ep.fee, in.stakes[j], ep.total)] IN
        /\ OwnerPart(ep.rewards, ep.fee) + Pool(ep.rewards, ep.fee) = ep.rewards
        /\ 0 <= OwnerPart(ep.rewards, ep.fee) /\ OwnerPart(ep.rewards, ep.fee) <= ep.rewards
        /\ SumSeq(shares) <= Pool(ep.rewards, ep.fee)
        /\ (ep.total > 0 => Pool(ep.rewards, ep.fee) - SumSeq(shares) < n)
        /\ SumSeq(out.claims) <= ep.rewards

\* the limb arithmetic agrees with TLC's integers on every pair of samples (stated on the constants)
Inv_BigAgreesWithNative ==
    \A a \in BigSamples, b \in BigSamples :
        /\ FromLimbs(ToLimbs(a)) = a /\ IsLimbs(ToLimbs(a))
        /\ (a * b < 2147483647 \div 2 => FromLimbs(BigMul(ToLimbs(a), ToLimbs(b))) = a * b)
        /\ BigMul(ToLimbs(a), ToLimbs(b)) = BigMul(ToLimbs(b), ToLimbs(a))
        /\ (BigLeq(ToLimbs(a), ToLimbs(b)) <=> a <= b)
        /\ \A s \in {1, 10, 100, 1000} : FromLimbs(DivSmall(ToLimbs(a), s)) = a \div s
        \* shifting by whole limbs commutes with the product (numbers beyond the native range)
        /\ BigMul(<<0, 0, 0>> \o ToLimbs(a + 1), <<0, 0>> \o ToLimbs(b + 1)) = <<0, 0, 0, 0, 0>> \o BigMul(ToLimbs(a + 1), ToLimbs(b + 1))
=============================================================================
