---- MODULE Trace_Percent ----
(* Trace validation for core.GetIntTrimmedPercentageOfValue / GetApproximatePercentageOfValue and the rewards   *)
(* split of a real delegation contract.  Every event is one evaluated call:                                     *)
(*   Pct / Approx : in = [v, num, k] (amount and the decimal digits of p as base-10000 limbs), out = [r]         *)
(*   Split        : in = [stakes, epochs = <<[rewards, fee = [num, k], total]>>], out = [claims]                 *)
(* Strict pass: the result is the one Percent!Expected gives (Approx: only its range).  Observation-only pass:    *)
(* nothing is required; in both the C36 clauses (Viol) are evaluated on every observed call.                      *)
EXTENDS Percent, Json, TLCExt
LogLast(h, r) == <<r>>
TLog == ndJsonDeserialize("trace.ndjson")
VARIABLES l, viol
tvars == <<vars, l, viol>>
Ev == TLog[l]
EvIn == [op |-> Ev.a] @@ Ev.in

TraceInit == l = 1 /\ in = [op |-> "none"] /\ out = NoOut /\ hist = <<>> /\ viol = {}
Observe ==
    /\ l <= Len(TLog) /\ l' = l + 1
    /\ in' = EvIn /\ out' = Ev.out /\ viol' = Viol(EvIn, Ev.out)
    /\ hist' = <<[a |-> Ev.a, in |-> Ev.in, out |-> Ev.out, st |-> [x |-> 0]]>>
AsSpecified == Ev.a = "Approx" \/ Ev.out = Expected(EvIn)
TraceSpec    == TraceInit /\ [][Observe /\ AsSpecified]_tvars
TraceSpecObs == TraceInit /\ [][Observe]_tvars

Clause(c) == ~(c \in viol)
Inv_C36_Floor          == Clause("not-floor-of-v-times-p")
Inv_C36_AtMostAmount   == Clause("above-amount")
Inv_C36_Identity       == Clause("hundred-percent-is-not-identity")
Inv_C36_Zero           == Clause("zero-percent-is-not-zero")
Inv_C36_SplitNotMore   == Clause("hands-out-more-than-rewards")
Inv_C36_SplitNoNegative == Clause("negative-claim")
Inv_C36_SplitAll       == Clause("rewards-withheld")

HighWater == TLCSet(1, IF l > TLCGet(1) THEN l ELSE TLCGet(1))
Accepted  == IF TLCGet(1) = Len(TLog) + 1 THEN TRUE ELSE PrintT("@@HW " \o ToString(TLCGet(1))) /\ FALSE
ASSUME TLCSet(1, 0)
====
