---- MODULE MC_Percent ----
EXTENDS Percent, Json
CONSTANT Depth
LogAppend(h, r) == Append(h, r)
LogLast(h, r) == <<r>>
MCSamples == {0, 1, 2, 7, 9, 10, 99, 100, 999, 1000, 9999, 10000, 10001, 12345, 19999, 20000, 32767, 32768}
MCFees == {<<0, 0>>, <<1, 0>>, <<1, 1>>, <<5, 1>>, <<25, 2>>, <<333, 3>>, <<999, 3>>, <<1, 4>>, <<3333, 4>>}
MCStakeSets == {<<0, 10>>, <<5, 5>>, <<1, 2, 3>>, <<0, 7, 7, 7>>, <<100, 1, 1>>, <<3>>, <<0, 1, 1, 1, 1>>}
GenNext  == Len(hist) < Depth /\ Next
GenSpec  == Init /\ [][GenNext]_vars
EmitEdge == PrintT("@@B " \o ToJson(hist'))
====
