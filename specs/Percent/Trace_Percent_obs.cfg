SPECIFICATION TraceSpecObs
CONSTANTS
  Amounts = {}
  MaxK = 0
  BigSamples = {}
  Rewards = {}
  Fees = {}
  StakeSets = {}
  Log <- LogLast
CONSTRAINT HighWater
INVARIANTS Inv_C36_Floor Inv_C36_AtMostAmount Inv_C36_Identity Inv_C36_Zero Inv_C36_SplitNotMore Inv_C36_SplitNoNegative Inv_C36_SplitAll
POSTCONDITION Accepted
CHECK_DEADLOCK FALSE
