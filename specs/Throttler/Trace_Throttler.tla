---- MODULE Trace_Throttler ----
(* Trace validation of schedules executed on the real NumGoRoutinesThrottler through the real callers.           *)
(* Strict: every observed event is the protocol step of the specification with the logged result.                 *)
(* Observation-only: the accounting (run / chk / mode / counter) follows the observed calls without the           *)
(* control-flow guards, so the invariants are evaluated on what the real code did even when a caller left the      *)
(* protocol (an EndProcessing missing on some branch, a CanProcess that admits too much).                         *)
EXTENDS Throttler, Json, TLCExt
LogLast(h, r) == <<r>>
NoKinds(p) == {}
NoIndex(k) == 0
TLog == ndJsonDeserialize("trace.ndjson")
VARIABLE l
tvars == <<vars, l>>
Ev == TLog[l]
IsEvent(name) == l <= Len(TLog) /\ Ev.a = name /\ l' = l + 1

TraceInit ==
    /\ l = 1 /\ max = 1 /\ path = "" /\ kinds = <<>> /\ pc = <<>> /\ wleft = <<>> /\ work = <<>> /\ counter = 0 /\ run = <<>> /\ chk = <<>> /\ mode = <<>>
    /\ quiesced = FALSE /\ free = 0 /\ hist = <<>>

TNew ==
    /\ IsEvent("New")
    /\ max' = Ev.in.max /\ path' = Ev.in.path /\ kinds' = Ev.in.kinds
    /\ LET T == DOMAIN Ev.in.kinds IN
        /\ pc' = [t \in T |-> "idle"] /\ wleft' = [t \in T |-> Ev.in.kinds[t].w] /\ work' = [t \in T |-> 0] /\ run' = [t \in T |-> 0] /\ chk' = [t \in T |-> "none"] /\ mode' = [t \in T |-> "none"]
    /\ counter' = 0 /\ quiesced' = FALSE /\ free' = 0
    /\ hist' = <<[a |-> "New", in |-> Ev.in, out |-> Ev.out, st |-> Ev.st]>>

\* strict
TSkip    == IsEvent("Skip") /\ Skip(Ev.in.t)
TCheck   == IsEvent("Check") /\ Check(Ev.in.t) /\ hist'[1].out.ok = Ev.out.ok
TStart   == IsEvent("Start") /\ Start(Ev.in.t)
TEnd     == IsEvent("End") /\ End(Ev.in.t)
TWorkB   == IsEvent("WorkBegin") /\ WorkBegin(Ev.in.t)
TWorkE   == IsEvent("WorkEnd") /\ WorkEnd(Ev.in.t)
TQuiesce ==
    /\ IsEvent("Quiesce")
    /\ \A t \in DOMAIN pc : pc[t] = "done"
    /\ quiesced' = TRUE /\ free' = Ev.out.free /\ Ev.out.free = max - counter
    /\ hist' = <<[a |-> "Quiesce", in |-> Ev.in, out |-> Ev.out, st |-> Ev.st]>>
    /\ UNCHANGED <<max, path, kinds, pc, wleft, work, counter, run, chk, mode>>
TraceSpec == TraceInit /\ [][TNew \/ TSkip \/ TCheck \/ TStart \/ TEnd \/ TWorkB \/ TWorkE \/ TQuiesce]_tvars

\* observation only
Obs(a) == hist' = <<[a |-> a, in |-> Ev.in, out |-> Ev.out, st |-> Ev.st]>>
Same == UNCHANGED <<max, path, kinds, pc, wleft, quiesced, free>>
TSkipObs    == IsEvent("Skip") /\ Same /\ UNCHANGED <<work, counter, run, chk, mode>> /\ Obs("Skip")
TCheckObs   == IsEvent("Check") /\ DoCheck(Ev.in.t, Ev.out.ok) /\ Same /\ UNCHANGED work /\ Obs("Check")
TStartObs   == IsEvent("Start") /\ DoStart(Ev.in.t) /\ Same /\ UNCHANGED work /\ Obs("Start")
TEndObs     == IsEvent("End") /\ DoEnd(Ev.in.t) /\ Same /\ UNCHANGED work /\ Obs("End")
TWorkBObs   == IsEvent("WorkBegin") /\ DoWorkBegin(Ev.in.t) /\ Same /\ UNCHANGED <<counter, run, chk, mode>> /\ Obs("WorkBegin")
TWorkEObs   == IsEvent("WorkEnd") /\ DoWorkEnd(Ev.in.t) /\ Same /\ UNCHANGED <<counter, run, chk, mode>> /\ Obs("WorkEnd")
TQuiesceObs ==
    /\ IsEvent("Quiesce")
    /\ quiesced' = TRUE /\ free' = Ev.out.free
    /\ UNCHANGED <<max, path, kinds, pc, wleft, work, counter, run, chk, mode>> /\ Obs("Quiesce")
TraceSpecObs == TraceInit /\ [][TNew \/ TSkipObs \/ TCheckObs \/ TStartObs \/ TEndObs \/ TWorkBObs \/ TWorkEObs \/ TQuiesceObs]_tvars

HighWater == TLCSet(1, IF l > TLCGet(1) THEN l ELSE TLCGet(1))
Accepted  == IF TLCGet(1) = Len(TLog) + 1 THEN TRUE ELSE PrintT("@@HW " \o ToString(TLCGet(1))) /\ FALSE
ASSUME TLCSet(1, 0)
====
