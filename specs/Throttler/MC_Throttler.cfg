SPECIFICATION Spec
CONSTANTS
  Threads = {1, 2, 3}
  Maxes = {1, 2}
  Paths = {"single", "multi", "resolver"}
  KindsOf <- MCKindsSmall
  OthersOf <- MCKindsSmall
  KindIndex <- MCKindIndex
  Sorted = TRUE
  KnownDefects = {"C43-check-then-start"}
  Depth = 0
  Log <- LogLast
VIEW cvars
INVARIANTS TypeOK Inv_C43_WorkCovered Inv_C43_FreshBound Inv_C43_Balanced Inv_C43_Quiescent Inv_Counter
CHECK_DEADLOCK FALSE
