SPECIFICATION GenSpec
CONSTANTS
  Threads = {1, 2}
  Maxes = {1}
  Paths = {"single", "multi", "resolver"}
  KindsOf <- MCKindsFull
  KindIndex <- MCKindIndex
  Sorted = TRUE
  KnownDefects = {"C43-check-then-start"}
  Depth = 12
  Log <- LogAppend
VIEW cvars
ACTION_CONSTRAINT EmitEdge
CHECK_DEADLOCK FALSE
