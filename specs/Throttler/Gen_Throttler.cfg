SPECIFICATION GenSpec
CONSTANTS
  Threads = {1, 2}
  Maxes = {1}
  Paths = {"single", "multi", "resolver"}
  KindsOf <- MCKindsFull
  OthersOf <- MCPartners
  KindIndex <- MCKindIndex
  Sorted = FALSE
  KnownDefects = {"C43-check-then-start"}
  Depth = 12
  Log <- LogAppend
VIEW cvars
ACTION_CONSTRAINT EmitEdge
CHECK_DEADLOCK FALSE
