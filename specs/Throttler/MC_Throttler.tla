---- MODULE MC_Throttler ----
EXTENDS Throttler, Json
CONSTANT Depth
LogAppend(h, r) == Append(h, r)
LogLast(h, r) == <<r>>
\* work items per message class: how often the processing step (interceptor: processor.Validate/Save per element;
\* resolver: the pool/storage lookup per hash) runs for such a message
WorkOf(sub) == IF sub \in {"ok2", "okarray"} THEN 2
               ELSE IF sub \in {"ok", "validatefail", "savefail", "whitelisted", "chunkcomplete", "prefok", "selfok", "notfound", "senderr"} THEN 1
               ELSE 0
K(k, sub) == [k |-> k, sub |-> sub, w |-> WorkOf(sub)]
\* every branch of the callers (sub = which one; see harness/cmd/vh-throttler for what each does to the real code)
NoneI == {K("none", "nilmsg"), K("none", "nildata"), K("none", "flood"), K("none", "topicflood")}
MCKindsFull(p) ==
    CASE p = "single" ->
            NoneI \cup {K("checked", s) : s \in {"badcreate", "invalid", "wrongversion", "wrongchain", "noteligible", "othershard",
                                                 "ok", "validatefail", "savefail", "whitelisted"}}
                  \cup {K("unchecked", s) : s \in {"prefok", "selfok", "prefinvalid", "prefwrongversion"}}
      [] p = "multi" ->
            NoneI \cup {K("checked", s) : s \in {"unmarshal", "empty", "topicflood2", "chunkerr", "chunkpart", "chunkcomplete",
                                                 "badcreate", "invalid", "wrongversion", "wrongchain", "noteligible", "othershard",
                                                 "whitelisted", "ok", "ok2", "validatefail", "savefail",
                                                 \* two-element batches: the named element is the first / the last one
                                                 "wvfirst", "wvlast", "wclast", "invalidlast", "badcreatelast", "othershardlast",
                                                 "noteligiblelast"}}
                  \cup {K("unchecked", s) : s \in {"prefok", "prefinvalid", "prefwrongversion"}}
      [] p = "resolver" ->
            {K("none", "nilmsg"), K("none", "flood"), K("none", "topicflood")}
                  \cup {K("checked", s) : s \in {"badrequest", "nilvalue", "badtype", "notfound", "ok", "okarray", "senderr"}}
\* a small set for the three-thread schedules
MCKindsSmall(p) ==
    IF p = "resolver" THEN {K("none", "flood"), K("checked", "ok"), K("checked", "badrequest")}
    ELSE {K("none", "flood"), K("checked", "ok"), K("checked", "invalid"), K("unchecked", "prefok")}
\* companions for the "every class against a fixed partner" configuration
MCPartners(p) == {K("checked", "ok"), K("none", "flood")}
AllSubs == <<"nilmsg", "nildata", "flood", "topicflood", "badcreate", "invalid", "wrongversion", "noteligible", "othershard",
             "ok", "ok2", "okarray", "validatefail", "savefail", "whitelisted", "unmarshal", "empty", "topicflood2", "chunkerr",
             "chunkpart", "badrequest", "nilvalue", "badtype", "notfound", "senderr", "prefok", "selfok", "prefinvalid",
             "wrongchain", "chunkcomplete", "wvfirst", "wvlast", "wclast", "invalidlast", "badcreatelast", "othershardlast",
             "noteligiblelast", "prefwrongversion">>
MCKindIndex(kd) == CHOOSE n \in 1..Len(AllSubs) : AllSubs[n] = kd.sub
GenNext  == Len(hist) < Depth /\ Next
GenSpec  == Init /\ [][GenNext]_vars
EmitEdge == PrintT("@@B " \o ToJson(hist'))
====
