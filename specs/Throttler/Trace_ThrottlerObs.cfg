SPECIFICATION TraceSpecObs
CONSTANTS
  Threads = {}
  Maxes = {}
  Paths = {}
  KindsOf <- NoKinds
  OthersOf <- NoKinds
  KindIndex <- NoIndex
  Sorted = FALSE
  KnownDefects = {"C43-check-then-start"}
  Log <- LogLast
CONSTRAINT HighWater
INVARIANTS Inv_C43_WorkCovered Inv_C43_FreshBound Inv_C43_Balanced Inv_C43_Quiescent
POSTCONDITION Accepted
CHECK_DEADLOCK FALSE
