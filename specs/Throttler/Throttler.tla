----------------------------- MODULE Throttler -----------------------------
(***************************************************************************)
(* core/throttler.NumGoRoutinesThrottler and the protocol its callers use   *)
(* (process/interceptors: baseDataInterceptor.preProcessMesage +            *)
(* Single/MultiDataInterceptor.ProcessReceivedMessage; dataRetriever/       *)
(* resolvers: messageProcessor.canProcessMessage + the resolvers'           *)
(* ProcessReceivedMessage).                                                 *)
(*                                                                          *)
(* The throttler is one atomic counter.  CanProcess (counter < max),         *)
(* StartProcessing (counter++) and EndProcessing (counter--) are three       *)
(* separate atomic operations; a caller thread that handles one message      *)
(* does, depending on the message,                                           *)
(*   kind "none"      nothing (rejected before the throttler is asked),       *)
(*   kind "checked"   Check; if admitted Start ... End,                       *)
(*   kind "unchecked" Start ... End without asking (interceptors do this for  *)
(*                    preferred peers and self-to-self messages).             *)
(* `sub` names the concrete branch of the caller that is taken (which early   *)
(* return, synchronous or asynchronous EndProcessing); all branches have the  *)
(* same abstract behaviour -- that is exactly what the replay checks.         *)
(*                                                                          *)
(* Property C43: the number of running tasks that asked the throttler never   *)
(* exceeds max.  With Check and Start as separate steps this is FALSE         *)
(* (check/check/start/start); KnownDefects = {} models the intended atomic    *)
(* check-and-start, for which it holds.                                       *)
(*                                                                          *)
(* The same actions are used for trace validation: the *Obs variants drop     *)
(* the control-flow guards and take the observed result as parameter, so the  *)
(* accounting (run, chk, mode) follows what the real code did.                *)
(***************************************************************************)
EXTENDS Integers, Sequences, FiniteSets, TLC

CONSTANTS Threads,
          Maxes,          \* candidate values of max
          Paths,          \* caller paths ("single", "multi", "resolver")
          KindsOf(_),     \* path -> set of [k, sub] records a thread may get
          Sorted,         \* TRUE: thread i+1 gets a kind not smaller than thread i (KindIndex) -- symmetry
          KindIndex(_),   \* [k, sub] -> integer
          KnownDefects,   \* "C43-check-then-start": CanProcess and StartProcessing are separate steps
          Log(_, _)

VARIABLES max, path, kinds,
          pc,        \* thread -> "idle" | "checked" | "running" | "done"     (control flow of the caller)
          counter,   \* the throttler's counter
          run,       \* thread -> StartProcessing calls minus EndProcessing calls
          chk,       \* thread -> "none" | "fresh" | "stale": state of its last successful CanProcess
          mode,      \* thread -> how its running task was started: "fresh" | "stale" | "unchecked" | "none"
          quiesced, free,    \* set by Quiesce: how many StartProcessing calls the throttler then admits
          hist

vars  == <<max, path, kinds, pc, counter, run, chk, mode, quiesced, free, hist>>
cvars == <<max, path, kinds, pc, counter, run, chk, mode, quiesced, free>>

Admitted == {t \in DOMAIN kinds : run[t] > 0 /\ kinds[t].k = "checked"}     \* running tasks that asked
Raced    == \E t \in Admitted : mode[t] = "stale"
St == [counter |-> counter', running |-> Cardinality(Admitted'), raced |-> Raced']
Rec(a, t, out) == [a |-> a, in |-> [t |-> t], out |-> out, st |-> St]

-----------------------------------------------------------------------------
Init ==
    /\ max \in Maxes /\ path \in Paths
    /\ kinds \in [Threads -> KindsOf(path)]
    /\ Sorted => \A a, b \in Threads : a < b => KindIndex(kinds[a]) <= KindIndex(kinds[b])
    /\ pc = [t \in Threads |-> "idle"]
    /\ counter = 0
    /\ run = [t \in Threads |-> 0] /\ chk = [t \in Threads |-> "none"] /\ mode = [t \in Threads |-> "none"]
    /\ quiesced = FALSE /\ free = 0
    /\ hist = <<[a |-> "New", in |-> [max |-> max, path |-> path, kinds |-> kinds], out |-> [x |-> 0],
                 st |-> [counter |-> 0, running |-> 0, raced |-> FALSE]]>>

\* ---- accounting shared by the guarded and the observed variants
\* CanProcess returned `res`
DoCheck(t, res) ==
    /\ chk' = [chk EXCEPT ![t] = IF res THEN "fresh" ELSE "none"]
    /\ UNCHANGED <<counter, run, mode>>
\* StartProcessing: every other thread's fresh admission becomes stale
DoStart(t) ==
    /\ counter' = counter + 1
    /\ run' = [run EXCEPT ![t] = @ + 1]
    /\ mode' = [mode EXCEPT ![t] = IF kinds[t].k = "unchecked" THEN "unchecked"
                                   ELSE IF chk[t] = "stale" THEN "stale" ELSE "fresh"]
                                   \* a checked-kind task started without a (successful) check cannot be excused by a race
    /\ chk' = [u \in DOMAIN chk |-> IF u = t THEN "none" ELSE IF chk[u] = "fresh" THEN "stale" ELSE chk[u]]
DoEnd(t) ==
    /\ counter' = counter - 1
    /\ run' = [run EXCEPT ![t] = @ - 1]
    /\ mode' = [mode EXCEPT ![t] = IF run[t] = 1 THEN "none" ELSE @]
    /\ UNCHANGED chk

\* ---- the callers' protocol (guarded by the control flow)
Skip(t) ==          \* the message is rejected before the throttler is asked
    /\ pc[t] = "idle" /\ kinds[t].k = "none"
    /\ pc' = [pc EXCEPT ![t] = "done"]
    /\ UNCHANGED <<max, path, kinds, counter, run, chk, mode, quiesced, free>>
    /\ hist' = Log(hist, Rec("Skip", t, [x |-> 0]))

Check(t) ==
    /\ "C43-check-then-start" \in KnownDefects
    /\ pc[t] = "idle" /\ kinds[t].k = "checked"
    /\ UNCHANGED <<max, path, kinds, quiesced, free>>
    /\ LET res == counter < max IN
        /\ DoCheck(t, res)
        /\ pc' = [pc EXCEPT ![t] = IF res THEN "checked" ELSE "done"]
        /\ hist' = Log(hist, Rec("Check", t, [ok |-> res]))

Start(t) ==
    /\ \/ pc[t] = "checked"
       \/ pc[t] = "idle" /\ kinds[t].k = "unchecked"
    /\ DoStart(t)
    /\ pc' = [pc EXCEPT ![t] = "running"]
    /\ UNCHANGED <<max, path, kinds, quiesced, free>>
    /\ hist' = Log(hist, Rec("Start", t, [stale |-> chk[t] = "stale"]))

\* intended design: test and increment in one atomic step
CheckStart(t) ==
    /\ "C43-check-then-start" \notin KnownDefects
    /\ pc[t] = "idle" /\ kinds[t].k = "checked"
    /\ IF counter < max
       THEN /\ counter' = counter + 1 /\ run' = [run EXCEPT ![t] = @ + 1]
            /\ mode' = [mode EXCEPT ![t] = "fresh"] /\ pc' = [pc EXCEPT ![t] = "running"]
       ELSE /\ pc' = [pc EXCEPT ![t] = "done"] /\ UNCHANGED <<counter, run, mode>>
    /\ UNCHANGED <<max, path, kinds, chk, quiesced, free>>
    /\ hist' = Log(hist, Rec("CheckStart", t, [ok |-> counter < max]))

End(t) ==
    /\ pc[t] = "running"
    /\ DoEnd(t)
    /\ pc' = [pc EXCEPT ![t] = "done"]
    /\ UNCHANGED <<max, path, kinds, quiesced, free>>
    /\ hist' = Log(hist, Rec("End", t, [x |-> 0]))

\* all threads are done: how many tasks would the throttler admit now
Quiesce ==
    /\ \A t \in Threads : pc[t] = "done"
    /\ ~quiesced
    /\ quiesced' = TRUE /\ free' = max - counter
    /\ hist' = Log(hist, [a |-> "Quiesce", in |-> [t |-> 0], out |-> [free |-> max - counter],
                          st |-> [counter |-> counter, running |-> Cardinality(Admitted), raced |-> Raced]])
    /\ UNCHANGED <<max, path, kinds, pc, counter, run, chk, mode>>

Next == (\E t \in Threads : Skip(t) \/ Check(t) \/ Start(t) \/ CheckStart(t) \/ End(t)) \/ Quiesce
Spec == Init /\ [][Next]_vars

-----------------------------------------------------------------------------
TypeOK == /\ \A t \in DOMAIN pc : pc[t] \in {"idle", "checked", "running", "done"}
          /\ counter \in Int

\* C43: running tasks that asked the throttler <= max.  FALSE for the protocol as it is (check/check/start/start).
Inv_C43_Bound == Cardinality(Admitted) <= max
\* what still holds as it is: tasks whose admission was not overtaken by another start never exceed max
\* (a violation of THIS one is an overshoot that no interleaving explains)
Inv_C43_FreshBound == Cardinality({t \in Admitted : mode[t] = "fresh"}) <= max
\* every StartProcessing is matched by exactly one EndProcessing
Inv_C43_Balanced  == \A t \in DOMAIN run : run[t] \in {0, 1}
Inv_C43_Quiescent == quiesced => (free = max /\ \A t \in DOMAIN run : run[t] = 0)
\* model lemma: the counter is the number of started-and-not-ended tasks
Inv_Counter == counter = Cardinality({t \in DOMAIN run : run[t] = 1}) /\ \A t \in DOMAIN run : (run[t] = 1) = (pc[t] = "running")
=============================================================================
