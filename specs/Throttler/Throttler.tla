----------------------------- MODULE Throttler -----------------------------
(***************************************************************************)
(* core/throttler.NumGoRoutinesThrottler and the protocol its callers use   *)
(* (process/interceptors: baseDataInterceptor.preProcessMesage +            *)
(* Single/MultiDataInterceptor.ProcessReceivedMessage; dataRetriever/       *)
(* resolvers: messageProcessor.canProcessMessage + the resolvers'           *)
(* ProcessReceivedMessage).                                                 *)
(*                                                                          *)
(* The throttler is one atomic counter.  CanProcess (counter < max),         *)
(* StartProcessing (counter++) and EndProcessing (counter--) are three       *)
(* separate atomic operations; a caller thread that handles one message      *)
(* does, depending on the message,                                           *)
(*   kind "none"      nothing (rejected before the throttler is asked),       *)
(*   kind "checked"   Check; if admitted Start ... End,                       *)
(*   kind "unchecked" Start ... End without asking (interceptors do this for  *)
(*                    preferred peers and self-to-self messages).             *)
(* A task's WORK (validating/saving the intercepted data, resolving the        *)
(* request) lies between its Start and its End: WorkBegin/WorkEnd steps, `w`   *)
(* of them per message class (0 for the branches that return early).  The      *)
(* throttler bounds concurrent WORK only if every work item is inside the      *)
(* Start/End bracket of its task (Inv_C43_WorkCovered).                        *)
(* `sub` names the concrete branch of the caller that is taken (which early   *)
(* return, synchronous or asynchronous EndProcessing); all branches have the  *)
(* same abstract behaviour -- that is exactly what the replay checks.         *)
(*                                                                          *)
(* Property C43: the number of running tasks that asked the throttler never   *)
(* exceeds max.  With Check and Start as separate steps this is FALSE         *)
(* (check/check/start/start); KnownDefects = {} models the intended atomic    *)
(* check-and-start, for which it holds.                                       *)
(*                                                                          *)
(* The same actions are used for trace validation: the *Obs variants drop     *)
(* the control-flow guards and take the observed result as parameter, so the  *)
(* accounting (run, chk, mode) follows what the real code did.                *)
(***************************************************************************)
EXTENDS Integers, Sequences, FiniteSets, TLC

CONSTANTS Threads,
          Maxes,          \* candidate values of max
          Paths,          \* caller paths ("single", "multi", "resolver")
          KindsOf(_),     \* path -> set of [k, sub, w] records thread 1 may get
          OthersOf(_),    \* path -> set of records the other threads may get (= KindsOf for all combinations)
          Sorted,         \* TRUE: thread i+1 gets a kind not smaller than thread i (KindIndex) -- symmetry
          KindIndex(_),   \* [k, sub] -> integer
          KnownDefects,   \* "C43-check-then-start": CanProcess and StartProcessing are separate steps
          Log(_, _)

VARIABLES max, path, kinds,
          pc,        \* thread -> "idle" | "checked" | "running" | "working" | "done"     (control flow of the caller)
          wleft,     \* thread -> work items the task still has to do
          work,      \* thread -> work items in flight (0/1)
          counter,   \* the throttler's counter
          run,       \* thread -> StartProcessing calls minus EndProcessing calls
          chk,       \* thread -> "none" | "fresh" | "stale": state of its last successful CanProcess
          mode,      \* thread -> how its running task was started: "fresh" | "stale" | "unchecked" | "none"
          quiesced, free,    \* set by Quiesce: how many StartProcessing calls the throttler then admits
          hist

vars  == <<max, path, kinds, pc, wleft, work, counter, run, chk, mode, quiesced, free, hist>>
cvars == <<max, path, kinds, pc, wleft, work, counter, run, chk, mode, quiesced, free>>

Admitted == {t \in DOMAIN kinds : run[t] > 0 /\ kinds[t].k = "checked"}     \* running tasks that asked
Raced    == \E t \in Admitted : mode[t] = "stale"
InFlight == {t \in DOMAIN kinds : work[t] > 0 /\ kinds[t].k = "checked"}   \* admitted tasks whose work is going on
St == [counter |-> counter', running |-> Cardinality(Admitted'), raced |-> Raced', inflight |-> Cardinality(InFlight')]
Rec(a, t, out) == [a |-> a, in |-> [t |-> t], out |-> out, st |-> St]

-----------------------------------------------------------------------------
Init ==
    /\ max \in Maxes /\ path \in Paths
    /\ kinds \in [Threads -> KindsOf(path) \cup OthersOf(path)]
    /\ \A t \in Threads : kinds[t] \in (IF t = 1 THEN KindsOf(path) ELSE OthersOf(path))
    /\ Sorted => \A a, b \in Threads : a < b => KindIndex(kinds[a]) <= KindIndex(kinds[b])
    /\ pc = [t \in Threads |-> "idle"]
    /\ wleft = [t \in Threads |-> kinds[t].w] /\ work = [t \in Threads |-> 0]
    /\ counter = 0
    /\ run = [t \in Threads |-> 0] /\ chk = [t \in Threads |-> "none"] /\ mode = [t \in Threads |-> "none"]
    /\ quiesced = FALSE /\ free = 0
    /\ hist = <<[a |-> "New", in |-> [max |-> max, path |-> path, kinds |-> kinds], out |-> [x |-> 0],
                 st |-> [counter |-> 0, running |-> 0, raced |-> FALSE, inflight |-> 0]]>>

\* ---- accounting shared by the guarded and the observed variants
\* CanProcess returned `res`
DoCheck(t, res) ==
    /\ chk' = [chk EXCEPT ![t] = IF res THEN "fresh" ELSE "none"]
    /\ UNCHANGED <<counter, run, mode>>
\* StartProcessing: every other thread's fresh admission becomes stale
DoStart(t) ==
    /\ counter' = counter + 1
    /\ run' = [run EXCEPT ![t] = @ + 1]
    /\ mode' = [mode EXCEPT ![t] = IF kinds[t].k = "unchecked" THEN "unchecked"
                                   ELSE IF chk[t] = "stale" THEN "stale" ELSE "fresh"]
                                   \* a checked-kind task started without a (successful) check cannot be excused by a race
    /\ chk' = [u \in DOMAIN chk |-> IF u = t THEN "none" ELSE IF chk[u] = "fresh" THEN "stale" ELSE chk[u]]
DoEnd(t) ==
    /\ counter' = counter - 1
    /\ run' = [run EXCEPT ![t] = @ - 1]
    /\ mode' = [mode EXCEPT ![t] = IF run[t] = 1 THEN "none" ELSE @]
    /\ UNCHANGED chk

\* ---- the callers' protocol (guarded by the control flow)
Skip(t) ==          \* the message is rejected before the throttler is asked
    /\ pc[t] = "idle" /\ kinds[t].k = "none"
    /\ pc' = [pc EXCEPT ![t] = "done"]
    /\ UNCHANGED <<max, path, kinds, wleft, work, counter, run, chk, mode, quiesced, free>>
    /\ hist' = Log(hist, Rec("Skip", t, [x |-> 0]))

Check(t) ==
    /\ "C43-check-then-start" \in KnownDefects
    /\ pc[t] = "idle" /\ kinds[t].k = "checked"
    /\ UNCHANGED <<max, path, kinds, wleft, work, quiesced, free>>
    /\ LET res == counter < max IN
        /\ DoCheck(t, res)
        /\ pc' = [pc EXCEPT ![t] = IF res THEN "checked" ELSE "done"]
        /\ hist' = Log(hist, Rec("Check", t, [ok |-> res]))

Start(t) ==
    /\ \/ pc[t] = "checked"
       \/ pc[t] = "idle" /\ kinds[t].k = "unchecked"
    /\ DoStart(t)
    /\ pc' = [pc EXCEPT ![t] = "running"]
    /\ UNCHANGED <<max, path, kinds, wleft, work, quiesced, free>>
    /\ hist' = Log(hist, Rec("Start", t, [stale |-> chk[t] = "stale"]))

\* intended design: test and increment in one atomic step
CheckStart(t) ==
    /\ "C43-check-then-start" \notin KnownDefects
    /\ pc[t] = "idle" /\ kinds[t].k = "checked"
    /\ IF counter < max
       THEN /\ counter' = counter + 1 /\ run' = [run EXCEPT ![t] = @ + 1]
            /\ mode' = [mode EXCEPT ![t] = "fresh"] /\ pc' = [pc EXCEPT ![t] = "running"]
       ELSE /\ pc' = [pc EXCEPT ![t] = "done"] /\ UNCHANGED <<counter, run, mode>>
    /\ UNCHANGED <<max, path, kinds, wleft, work, chk, quiesced, free>>
    /\ hist' = Log(hist, Rec("CheckStart", t, [ok |-> counter < max]))

\* the task's work: between StartProcessing and EndProcessing
DoWorkBegin(t) == work' = [work EXCEPT ![t] = @ + 1]
DoWorkEnd(t)   == work' = [work EXCEPT ![t] = @ - 1]
WorkBegin(t) ==
    /\ pc[t] = "running" /\ wleft[t] > 0
    /\ DoWorkBegin(t)
    /\ pc' = [pc EXCEPT ![t] = "working"]
    /\ UNCHANGED <<max, path, kinds, wleft, counter, run, chk, mode, quiesced, free>>
    /\ hist' = Log(hist, Rec("WorkBegin", t, [x |-> 0]))
WorkEnd(t) ==
    /\ pc[t] = "working"
    /\ DoWorkEnd(t)
    /\ pc' = [pc EXCEPT ![t] = "running"] /\ wleft' = [wleft EXCEPT ![t] = @ - 1]
    /\ UNCHANGED <<max, path, kinds, counter, run, chk, mode, quiesced, free>>
    /\ hist' = Log(hist, Rec("WorkEnd", t, [x |-> 0]))

End(t) ==
    /\ pc[t] = "running" /\ wleft[t] = 0
    /\ DoEnd(t)
    /\ pc' = [pc EXCEPT ![t] = "done"]
    /\ UNCHANGED <<max, path, kinds, wleft, work, quiesced, free>>
    /\ hist' = Log(hist, Rec("End", t, [x |-> 0]))

\* all threads are done: how many tasks would the throttler admit now
Quiesce ==
    /\ \A t \in Threads : pc[t] = "done"
    /\ ~quiesced
    /\ quiesced' = TRUE /\ free' = max - counter
    /\ hist' = Log(hist, [a |-> "Quiesce", in |-> [t |-> 0], out |-> [free |-> max - counter],
                          st |-> [counter |-> counter, running |-> Cardinality(Admitted), raced |-> Raced, inflight |-> 0]])
    /\ UNCHANGED <<max, path, kinds, pc, wleft, work, counter, run, chk, mode>>

Next == (\E t \in Threads : Skip(t) \/ Check(t) \/ Start(t) \/ CheckStart(t) \/ WorkBegin(t) \/ WorkEnd(t) \/ End(t)) \/ Quiesce
Spec == Init /\ [][Next]_vars

-----------------------------------------------------------------------------
TypeOK == /\ \A t \in DOMAIN pc : pc[t] \in {"idle", "checked", "running", "working", "done"}
          /\ counter \in Int

\* C43: running tasks that asked the throttler <= max.  FALSE for the protocol as it is (check/check/start/start).
Inv_C43_Bound == Cardinality(Admitted) <= max
\* what still holds as it is: tasks whose admission was not overtaken by another start never exceed max
\* (a violation of THIS one is an overshoot that no interleaving explains)
Inv_C43_FreshBound == Cardinality({t \in Admitted : mode[t] = "fresh"}) <= max
\* the work of a task happens inside its Start/End bracket (otherwise the throttler does not bound the work at all)
Inv_C43_WorkCovered == \A t \in DOMAIN work : work[t] > 0 => run[t] > 0
\* C43 in terms of the work: admitted work items in flight <= max (FALSE as the code is, for the same race)
Inv_C43_WorkBound == Cardinality(InFlight) <= max
\* every StartProcessing is matched by exactly one EndProcessing
Inv_C43_Balanced  == \A t \in DOMAIN run : run[t] \in {0, 1}
Inv_C43_Quiescent == quiesced => (free = max /\ \A t \in DOMAIN run : run[t] = 0)
\* model lemma: the counter is the number of started-and-not-ended tasks
Inv_Counter == counter = Cardinality({t \in DOMAIN run : run[t] = 1}) /\ \A t \in DOMAIN run : (run[t] = 1) = (pc[t] \in {"running", "working"})
=============================================================================
