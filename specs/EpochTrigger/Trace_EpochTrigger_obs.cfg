SPECIFICATION TraceSpecObs
CONSTANTS
  RPEs = {}
  Mins = {}
  StartRounds = {}
  StartEpochs = {}
  MaxRound = 0
  MaxSkip = 0
  MaxEpoch = 6
  ForceRounds = {}
  Nonces = {}
  W <- TW
  ForceModes = {"wrap", "clamp"}
  Log <- LogLast
CONSTRAINT HighWater
PROPERTIES Obs_C34_EpochStep Obs_C34_MinDistance Obs_C34_Unforced Obs_C34_MaxLength
POSTCONDITION Accepted
CHECK_DEADLOCK FALSE
