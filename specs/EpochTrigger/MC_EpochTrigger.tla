---- MODULE MC_EpochTrigger ----
EXTENDS EpochTrigger, Json
CONSTANT Depth
MCW == 1073741824                                   \* 2^30 stands for 2^64
MCForceRounds == (0..MaxRound) \cup {MCW - 2, MCW - 1}
MCForceFew == {0, 1, 3, 5, 7, MCW - 1}
LogAppend(h, r) == Append(h, r)
LogLast(h, r) == <<r>>
GenNext  == Len(hist) < Depth /\ Next
GenSpec  == Init /\ [][GenNext]_vars
EmitEdge == PrintT("@@B " \o ToJson(hist'))
EmitFull == (Len(hist') = Depth) => PrintT("@@B " \o ToJson(hist'))
====
