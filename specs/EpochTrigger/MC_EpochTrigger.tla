---- MODULE MC_EpochTrigger ----
EXTENDS EpochTrigger, Json
CONSTANTS Depth, SampleK
MCW == 1073741824                                   \* 2^30 stands for 2^64
MCForceRounds == (0..MaxRound) \cup {MCW - 2, MCW - 1}
MCForceFew == {0, 1, 3, 5, MCW - 1}
LogAppend(h, r) == Append(h, r)
LogLast(h, r) == <<r>>
\* behaviour export: one behaviour per transition of the abstract state graph (VIEW cvars), sampled 1 in SampleK
GenNext  == Len(hist) < Depth /\ Next
GenSpec  == Init /\ [][GenNext]_vars
EmitEdge == (SampleK = 1 \/ RandomElement(1..SampleK) = 1) => PrintT("@@B " \o ToJson(hist'))
\* simulation mode: print only complete behaviours
EmitFull == (Len(hist') = Depth) => PrintT("@@B " \o ToJson(hist'))
====
