---- MODULE Trace_EpochTrigger ----
(* Trace validation for the metachain trigger.  Strict pass (TraceSpec): every recorded event must be the  *)
(* corresponding EpochTrigger action with the logged Epoch()/IsEpochStart()/EpochStartRound(); the          *)
(* ForceEpochStart event may be explained by either variant of its distance test (ForceModes = both), so    *)
(* the same specification accepts the code as it is and the repaired code.  The C34 clauses are action      *)
(* properties evaluated on every accepted step.                                                              *)
(* Observation-only pass (TraceSpecObs, run when the strict pass rejects): the specification state is set   *)
(* from the log alone and the C34 clauses are evaluated on every observed step, with "without forcing"       *)
(* meaning that no ForceEpochStart call was made since the last start.                                       *)
EXTENDS EpochTrigger, Json, TLCExt
LogLast(h, r) == <<r>>
TW == 1073741824
TLog == ndJsonDeserialize("trace.ndjson")
VARIABLE l
tvars == <<vars, l>>
Ev == TLog[l]
IsEvent(name) == l <= Len(TLog) /\ Ev.a = name /\ l' = l + 1
Matches == hist'[1].st = Ev.st

TraceInit ==
    /\ l = 1 /\ rpe = 1 /\ min = 1 /\ epoch = 0 /\ cesr = 0 /\ pesr = 0 /\ cur = 0 /\ isStart = FALSE
    /\ next = Disabled /\ trig = 0 /\ how = "none" /\ meta = [ok |-> FALSE, prev |-> 0] /\ hist = <<>>
TNew ==
    /\ IsEvent("New")
    /\ rpe' = Ev.in.rpe /\ min' = Ev.in.min /\ epoch' = Ev.in.epoch /\ cesr' = Ev.in.start /\ pesr' = Ev.in.start
    /\ cur' = Ev.in.start /\ isStart' = FALSE /\ next' = Disabled /\ trig' = Ev.in.start /\ how' = "none"
    /\ meta' = [ok |-> FALSE, prev |-> 0]
    /\ hist' = <<[a |-> "New", in |-> Ev.in, out |-> [viol |-> {}, how |-> "none"], st |-> Ev.st]>>
    /\ Ev.st = [epoch |-> Ev.in.epoch, isStart |-> FALSE, cesr |-> Ev.in.start]
TUpdate  == IsEvent("Update") /\ Update(Ev.in.r, Ev.in.n) /\ Matches
TForce   == IsEvent("Force") /\ (\E m \in ForceModes : Force(Ev.in.r, m)) /\ Matches
TSetProc == IsEvent("SetProcessed") /\ SetProcessed(Ev.in.r, Ev.in.e) /\ Ev.in.prev = pesr /\ Matches
TOther   == IsEvent("SetProcessedOther") /\ SetProcessedOther /\ Matches
TRevert  == IsEvent("Revert") /\ Revert(Ev.in.r) /\ Ev.in.prev = meta.prev /\ Matches
TraceNext == TNew \/ TUpdate \/ TForce \/ TSetProc \/ TOther \/ TRevert
TraceSpec == TraceInit /\ [][TraceNext]_tvars

\* ---- observation only ----
ObsStep ==
    /\ l <= Len(TLog) /\ Ev.a # "New" /\ l' = l + 1
    /\ epoch' = Ev.st.epoch /\ isStart' = Ev.st.isStart /\ cesr' = Ev.st.cesr
    /\ cur' = (IF "r" \in DOMAIN Ev.in THEN Ev.in.r ELSE cur)
    /\ trig' = (IF Ev.a = "Update" /\ Ev.st.epoch = epoch + 1 THEN Ev.in.r
                ELSE IF Ev.a = "Revert" THEN Ev.in.prev ELSE trig)
    /\ how' = (IF Ev.a = "Force" THEN "kept"
               ELSE IF Ev.a = "Update" /\ Ev.st.epoch = epoch + 1 THEN "none" ELSE how)
    /\ UNCHANGED <<rpe, min, pesr, next, meta>>
    /\ hist' = <<[a |-> Ev.a, in |-> Ev.in, out |-> [viol |-> {}, how |-> how], st |-> Ev.st]>>
TraceNextObs == TNew \/ ObsStep
TraceSpecObs == TraceInit /\ [][TraceNextObs]_tvars
ObsViol == Viol(Ev.a, Ev.in, S, S', how = "none")
ObsOK(c) == (l <= Len(TLog) /\ Ev.a # "New") => ~(c \in ObsViol)
Obs_C34_EpochStep   == [][ObsOK("epoch-step")]_tvars
Obs_C34_MinDistance == [][ObsOK("min-distance")]_tvars
Obs_C34_Unforced    == [][ObsOK("unforced-start-early")]_tvars
Obs_C34_MaxLength   == [][ObsOK("start-missed")]_tvars

HighWater == TLCSet(1, IF l > TLCGet(1) THEN l ELSE TLCGet(1))
Accepted  == IF TLCGet(1) = Len(TLog) + 1 THEN TRUE ELSE PrintT("@@HW " \o ToString(TLCGet(1))) /\ FALSE
ASSUME TLCSet(1, 0)
====
