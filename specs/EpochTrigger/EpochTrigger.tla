---------------------------- MODULE EpochTrigger ----------------------------
(***************************************************************************)
(* The metachain start-of-epoch trigger (epochStart/metachain/trigger.go). *)
(* Property C34: the epoch increases by exactly one at each epoch start, a *)
(* new epoch never starts fewer than minRoundsBetweenEpochs rounds after   *)
(* the previous one, and without forcing it starts at the first round      *)
(* after roundsPerEpoch.                                                    *)
(*                                                                          *)
(* One action per public call (each is one critical section under           *)
(* trigger.mutTrigger).  The code computes on uint64; the arithmetic is     *)
(* modelled WITH wrap-around, modulo W (W stands for 2^64: the harness maps  *)
(* a model value v >= W/2 to 2^64-(W-v), all other values to themselves;     *)
(* add/sub/compare commute with that map as long as every value is within    *)
(* W/2 of zero, which the bounds guarantee).                                 *)
(*                                                                          *)
(* Each action is written as a function from the pre-state record to the    *)
(* post-state record following the statements of the Go method, so that the *)
(* property clauses (Viol) can be evaluated on any (pre, action, post)        *)
(* triple: by TLC on every transition of the model (R1), recorded in every   *)
(* exported step (R2), and on every observed step of a recorded trace (R3). *)
(***************************************************************************)
EXTENDS Integers, Sequences, FiniteSets, TLC

CONSTANTS RPEs,          \* candidate roundsPerEpoch
          Mins,          \* candidate minRoundsBetweenEpochs (1 <= min <= rpe is enforced by the constructor)
          StartRounds,   \* candidate EpochStartRound constructor arguments
          StartEpochs,   \* candidate Epoch constructor arguments
          MaxRound,      \* rounds fed to Update stay <= MaxRound
          MaxSkip,       \* Update may skip up to MaxSkip rounds
          MaxEpoch,      \* exploration stops when the epoch reaches MaxEpoch (the code as it is can start
                         \* epochs without the round advancing, so rounds alone do not bound the model)
          ForceRounds,   \* rounds requested through ForceEpochStart (any: past, future, huge)
          Nonces,        \* nonces passed to Update
          W,             \* modulus of the unsigned arithmetic (stands for 2^64)
          ForceModes,    \* KnownDefects switch: {"wrap"} = the code as it is (unsigned subtraction in
                         \* ForceEpochStart), {"clamp"} = the intended design, both = either (trace validation)
          Log(_, _)

VARIABLES rpe, min,      \* configuration (chosen in Init)
          epoch,         \* trigger.epoch
          cesr,          \* trigger.currEpochStartRound
          pesr,          \* trigger.prevEpochStartRound
          cur,           \* trigger.currentRound
          isStart,       \* trigger.isEpochStart
          next,          \* trigger.nextEpochStartRound (Disabled = math.MaxUint64)
          trig,          \* ghost: round at which Update last switched the epoch (constructor: EpochStartRound)
          how,           \* ghost: what ForceEpochStart did since then: "none" "refused" "kept" "clamped" "wrapped"
          meta,          \* trigger.epochStartMeta: [ok |-> a start-of-epoch block of this epoch was processed,
                         \*   prev |-> its EpochStart.Economics.PrevEpochStartRound]
          hist

cvars == <<rpe, min, epoch, cesr, pesr, cur, isStart, next, trig, how, meta>>
vars  == <<rpe, min, epoch, cesr, pesr, cur, isStart, next, trig, how, meta, hist>>

Disabled == W - 1                      \* disabledRoundForForceEpochStart
MinNonce == 4                          \* minimumNonceToStartEpoch
UAdd(a, b) == (a + b) % W              \* uint64 addition
USub(a, b) == (a - b + W) % W          \* uint64 subtraction (wraps)

S == [epoch |-> epoch, cesr |-> cesr, pesr |-> pesr, cur |-> cur, isStart |-> isStart, next |-> next,
      trig |-> trig, how |-> how, meta |-> meta]

-----------------------------------------------------------------------------
(* the methods, statement by statement *)

\* func (t *trigger) Update(round uint64, nonce uint64)
UpdateF(s, r, n) ==
    LET s1 == [s EXCEPT !.cur = r] IN
    IF s.isStart THEN s1
    ELSE LET isZeroEpochEdgeCase   == n < MinNonce
             isNormalEpochStart    == r > UAdd(s.cesr, rpe)
             isWithEarlyEndOfEpoch == r >= s.next
         IN IF (isNormalEpochStart \/ isWithEarlyEndOfEpoch) /\ ~isZeroEpochEdgeCase
            THEN [s1 EXCEPT !.epoch = s.epoch + 1, !.isStart = TRUE, !.pesr = s.cesr, !.cesr = r,
                            !.next = Disabled, !.trig = r, !.how = "none"]
            ELSE s1

\* func (t *trigger) ForceEpochStart(round uint64); mode "wrap": the code as it is, "clamp": intended
ForceF(s, r, mode) ==
    IF r > UAdd(s.cesr, rpe)
    THEN [s EXCEPT !.next = Disabled, !.how = "refused"]
    ELSE LET tooEarly == IF mode = "wrap" THEN USub(r, s.cesr) < min       \* t.nextEpochStartRound-t.currEpochStartRound < min
                                          ELSE r < UAdd(s.cesr, min)
         IN IF tooEarly THEN [s EXCEPT !.next = UAdd(s.cesr, min), !.how = "clamped"]
            ELSE [s EXCEPT !.next = r, !.how = IF r < s.cesr THEN "wrapped" ELSE "kept"]

\* func (t *trigger) SetProcessed(header, body) with a start-of-epoch metablock (round hr, epoch he)
\* (economics.go writes the round of the previous start-of-epoch block into it: prev)
SetProcessedF(s, hr, he, prev) ==
    [s EXCEPT !.cesr = hr, !.epoch = he, !.isStart = FALSE, !.cur = hr, !.meta = [ok |-> TRUE, prev |-> prev]]

\* func (t *trigger) revert(epochStartMeta) reached through RevertStateToBlock(header of round hr):
\* back to the previous epoch, whose start round is read from the start-of-epoch block being reverted
RevertF(s, hr) ==
    [s EXCEPT !.cesr = s.meta.prev, !.epoch = s.epoch - 1, !.isStart = FALSE, !.cur = hr, !.trig = s.meta.prev,
              !.meta = [ok |-> FALSE, prev |-> 0]]

-----------------------------------------------------------------------------
(* C34 as a predicate on one step (pre-state s, call a with arguments in, post-state t).           *)
(* `unforced` says what "without forcing" means for the step: the model uses s.next = Disabled,     *)
(* a recorded trace (where next is not observable) uses "no ForceEpochStart call since the start".  *)
Viol(a, in, s, t, unforced) ==
    LET started == t.epoch = s.epoch + 1 IN
    (IF a \in {"Update", "Force"} /\ ~(t.epoch \in {s.epoch, s.epoch + 1}) THEN {"epoch-step"} ELSE {})
    \cup (IF a \in {"Update", "Force"} /\ (started # (t.isStart /\ ~s.isStart)) THEN {"epoch-step"} ELSE {})
    \cup (IF a = "Force" /\ (t.epoch # s.epoch \/ t.cesr # s.cesr) THEN {"epoch-step"} ELSE {})
    \* processing the start-of-epoch block ends the start: the epoch is the block's epoch (no further increase)
    \cup (IF a = "SetProcessed" /\ (t.epoch # in.e \/ t.isStart) THEN {"epoch-step"} ELSE {})
    \cup (IF a = "SetProcessedOther" /\ (t.epoch # s.epoch \/ t.isStart # s.isStart) THEN {"epoch-step"} ELSE {})
    \cup (IF a = "Update" /\ started /\ ~(t.cesr = in.r /\ in.r - s.trig >= min) THEN {"min-distance"} ELSE {})
    \cup (IF a = "Update" /\ started /\ ~(in.n >= MinNonce /\ (in.r > s.cesr + rpe \/ ~unforced))
          THEN {"unforced-start-early"} ELSE {})
    \cup (IF a = "Update" /\ ~s.isStart /\ in.n >= MinNonce /\ in.r > s.cesr + rpe /\ ~started
          THEN {"start-missed"} ELSE {})

Rec(a, in, s, t) ==
    [a |-> a, in |-> in, out |-> [viol |-> Viol(a, in, s, t, s.next = Disabled), how |-> s.how],
     st |-> [epoch |-> t.epoch, isStart |-> t.isStart, cesr |-> t.cesr]]

Set(t) ==
    /\ epoch' = t.epoch /\ cesr' = t.cesr /\ pesr' = t.pesr /\ cur' = t.cur /\ isStart' = t.isStart
    /\ next' = t.next /\ trig' = t.trig /\ how' = t.how /\ meta' = t.meta
    /\ UNCHANGED <<rpe, min>>

-----------------------------------------------------------------------------
Init ==
    /\ rpe \in RPEs /\ min \in Mins /\ min <= rpe
    /\ epoch \in StartEpochs /\ cesr \in StartRounds /\ pesr = cesr /\ cur = cesr
    /\ isStart = FALSE /\ next = Disabled /\ trig = cesr /\ how = "none"
    /\ meta = [ok |-> FALSE, prev |-> 0]
    /\ hist = <<[a |-> "New", in |-> [rpe |-> rpe, min |-> min, start |-> cesr, epoch |-> epoch, w |-> W],
                 out |-> [viol |-> {}, how |-> "none"],
                 st |-> [epoch |-> epoch, isStart |-> FALSE, cesr |-> cesr]]>>

\* rounds are monotone (several calls per round happen: createBlock and processBlock), may skip
Update(r, n) ==
    /\ r >= cur
    /\ LET t == UpdateF(S, r, n) IN Set(t) /\ hist' = Log(hist, Rec("Update", [r |-> r, n |-> n], S, t))

Force(r, mode) ==
    LET t == ForceF(S, r, mode) IN Set(t) /\ hist' = Log(hist, Rec("Force", [r |-> r], S, t))

\* the start-of-epoch block is the block of the current round and carries the new epoch
SetProcessed(hr, he) ==
    /\ isStart /\ hr = cur /\ he = epoch
    /\ LET t == SetProcessedF(S, hr, he, pesr) IN
       Set(t) /\ hist' = Log(hist, Rec("SetProcessed", [r |-> hr, e |-> he, prev |-> pesr], S, t))

\* SetProcessed with an ordinary block does nothing
SetProcessedOther ==
    /\ Set(S) /\ hist' = Log(hist, Rec("SetProcessedOther", [r |-> cur], S, S))

\* the start-of-epoch block that was just processed is rolled back (RevertStateToBlock with its parent)
\* (hr = round of the parent block; a later start-of-epoch block is not rolled back before it is processed)
Revert(hr) ==
    /\ meta.ok /\ ~isStart /\ epoch > 0
    /\ hr = (IF cesr > 0 THEN cesr - 1 ELSE 0)
    /\ LET t == RevertF(S, hr) IN
       Set(t) /\ hist' = Log(hist, Rec("Revert", [r |-> hr, prev |-> meta.prev], S, t))

Next ==
    /\ epoch < MaxEpoch
    /\ \/ \E r \in 0..MaxRound, n \in Nonces : r <= cur + MaxSkip /\ Update(r, n)
       \/ \E r \in ForceRounds, m \in ForceModes : Force(r, m)
       \/ SetProcessed(cur, epoch)
       \/ SetProcessedOther
       \/ Revert(IF cesr > 0 THEN cesr - 1 ELSE 0)

Spec == Init /\ [][Next]_vars

-----------------------------------------------------------------------------
(* C34 *)
LastRec == hist'[Len(hist')]
StepViol == Viol(LastRec.a, LastRec.in, S, S', next = Disabled)

Act_C34_EpochStep    == [][~("epoch-step" \in StepViol)]_cvars
Act_C34_MinDistance  == [][~("min-distance" \in StepViol)]_cvars
Act_C34_Unforced     == [][~("unforced-start-early" \in StepViol)]_cvars
Act_C34_MaxLength    == [][~("start-missed" \in StepViol)]_cvars

TypeOK ==
    /\ epoch \in Nat /\ cesr \in 0..(W - 1) /\ cur \in 0..(W - 1) /\ next \in 0..(W - 1)
    /\ isStart \in BOOLEAN /\ how \in {"none", "refused", "kept", "clamped", "wrapped"}

\* a pending forced round of the intended design always respects both limits
Inv_C34_ForcedWithinLimits ==
    next # Disabled => (next >= cesr + min /\ next <= cesr + rpe)
=============================================================================
