SPECIFICATION Spec
CONSTANTS
  RPEs = {2, 3, 4}
  Mins = {1, 2, 3}
  StartRounds = {0, 2}
  StartEpochs = {0}
  MaxRound = 12
  MaxSkip = 6
  MaxEpoch = 6
  ForceRounds <- MCForceRounds
  Nonces = {3, 4}
  W <- MCW
  ForceModes = {"clamp"}
  Log <- LogLast
  Depth = 0
  SampleK = 1
VIEW cvars
INVARIANTS TypeOK
PROPERTIES Act_C34_EpochStep Act_C34_MinDistance Act_C34_Unforced Act_C34_MaxLength
CHECK_DEADLOCK FALSE
