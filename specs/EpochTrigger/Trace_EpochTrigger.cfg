SPECIFICATION TraceSpec
CONSTANTS
  RPEs = {}
  Mins = {}
  StartRounds = {}
  StartEpochs = {}
  MaxRound = 0
  MaxSkip = 0
  MaxEpoch = 6
  ForceRounds = {}
  Nonces = {}
  W <- TW
  ForceModes = {"wrap", "clamp"}
  Log <- LogLast
CONSTRAINT HighWater
PROPERTIES Act_C34_EpochStep Act_C34_MinDistance Act_C34_Unforced Act_C34_MaxLength
POSTCONDITION Accepted
CHECK_DEADLOCK FALSE
