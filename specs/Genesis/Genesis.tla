------------------------------- MODULE Genesis -------------------------------
(***************************************************************************)
(* genesis/parsing.accountsParser (property C47): which genesis account     *)
(* lists does NewAccountsParser accept, and which may it accept?            *)
(*                                                                          *)
(* An input is (converter, configured total supply, list of entries).  An   *)
(* entry is abstract: which address it denotes (id; the class of the id --  *)
(* user / smart contract -- is fixed by AddrClass), in which textual form   *)
(* the address is written (lower / upper / mixed letter case), supply,      *)
(* balance, staked value, delegated value and the kind of delegation        *)
(* address text.  `AsCoded` follows accountsParser.process() check by check *)
(* and yields the first error; `Required` is the conjunction of the four    *)
(* clauses of C47.  C47: accepted => Required.                              *)
(*                                                                          *)
(* Named deviation of the code as it is (Defects):                          *)
(*   "dupText"  checkForDuplicates compares the address TEXT, so the same   *)
(*              address written in two letter cases is accepted twice       *)
(***************************************************************************)
EXTENDS Integers, Sequences, FiniteSets, TLC

\* The input space is the union of a few "modes" (sub-spaces), each a product of small sets, so that one TLC run
\* covers them all: amounts with distinct addresses, addresses/letter cases with fixed amounts, both together.
CONSTANTS Modes,            \* set of mode names
          ConvsOf(_),       \* mode -> subset of {"bech32", "hex"}: the configured pubkey converter
          LensOf(_),        \* mode -> set of list lengths (within 0..3)
          EntriesAt(_, _),  \* (mode, i) -> candidate entries at list position i
          OffsetsOf(_),     \* mode -> configured total supply = sum of the entries' supplies + offset (kept >= 1)
          AddrClass(_),     \* address id -> "user" | "sc"
          UnitsOf(_),       \* mode -> set of unit classes     (how the harness writes the symbolic amounts, see below)
          MagsOf(_),        \* mode -> set of magnitude classes
          Defects,
          Log(_, _)

\* Big numbers.  The amounts of the specification are small symbolic integers (TLC integers are 32-bit; the parser uses
\* big.Int).  Each case carries two classes that tell the harness how to write them as decimal strings:
\*   unit U  ("1", "10^18", "real": a third of the real 2*10^25 supply)  balance = b*U, staked = k*U, delegated = d*U
\*   mag  M  ("1", "2^32", "2^63", "2^64", "2^64-1", "2^64+1", "3*2^64", "10^18")  every MISMATCH of the case is written
\*           with that magnitude:  supply_i = (b+k+d)*U + delta_i*M   where delta_i = s - (b+k+d)  (in.deltas)
\*                                 total    = sum of the written supplies + toff*M,  toff = total - sum  (in.toff)
\* The map is linear and M # 0, so every clause of C47 has the same truth value on the written file as on the symbolic
\* case: Required is unchanged.  (Only the sign tests of the parser can answer with another error class when a supply
\* with a mismatch changes sign; the harness therefore compares error classes only for U = M = 1.)
VARIABLES mode, conv, total, es, unit, mag, hist
vars == <<mode, conv, total, es, unit, mag, hist>>
cvars == <<mode, conv, total, es, unit, mag>>

\* does the text form decode with this converter?  bech32 accepts all-lower and all-upper, rejects mixed case;
\* hex accepts any letter case.  Every accepted form of one address id decodes to the same bytes.
Decodes(c, form) == c = "hex" \/ form \in {"lower", "upper"}

\* parseElement, parseDelegationElement, checkInitialAccount for one entry: first error or "ok"
EntryErr(c, e) ==
    IF ~Decodes(c, e.form) THEN "InvalidAddress"
    ELSE IF e.d # 0 /\ e.da = "empty" THEN "EmptyDelegationAddress"
    ELSE IF e.d # 0 /\ e.da = "bad" THEN "InvalidDelegationAddress"
    ELSE IF AddrClass(e.addr) = "sc" THEN "AddressIsSmartContract"
    ELSE IF e.s <= 0 THEN "InvalidSupply"
    ELSE IF e.b < 0 THEN "InvalidBalance"
    ELSE IF e.k < 0 THEN "InvalidStakingBalance"
    ELSE IF e.d < 0 THEN "InvalidDelegationValue"
    ELSE IF e.s # e.b + e.k + e.d THEN "SupplyMismatch"
    ELSE "ok"

RECURSIVE SumSupply(_)
SumSupply(s) == IF s = <<>> THEN 0 ELSE Head(s).s + SumSupply(Tail(s))

SameText(x, y)    == x.addr = y.addr /\ x.form = y.form      \* one text per (address, form)
SameAddress(x, y) == x.addr = y.addr
Pairs(s) == {p \in (1..Len(s)) \X (1..Len(s)) : p[1] < p[2]}

\* accountsParser.process(): entries in order, then duplicates, then the total
AsCoded(c, t, s) ==
    LET bad == {i \in 1..Len(s) : EntryErr(c, s[i]) # "ok"}
        first == CHOOSE i \in bad : \A j \in bad : i <= j
        dup == \E p \in Pairs(s) : IF "dupText" \in Defects THEN SameText(s[p[1]], s[p[2]]) ELSE SameAddress(s[p[1]], s[p[2]])
    IN  IF bad # {} THEN EntryErr(c, s[first])
        ELSE IF dup THEN "DuplicateAddress"
        ELSE IF SumSupply(s) # t THEN "EntireSupplyMismatch"
        ELSE "ok"

\* the four clauses of C47
EntrySupplyOK(s) == \A i \in 1..Len(s) : s[i].s = s[i].b + s[i].k + s[i].d
TotalOK(t, s)    == SumSupply(s) = t
NoContract(s)    == \A i \in 1..Len(s) : AddrClass(s[i].addr) # "sc"
NoSameAddress(s) == \A p \in Pairs(s) : ~SameAddress(s[p[1]], s[p[2]])
Required(t, s)   == EntrySupplyOK(s) /\ TotalOK(t, s) /\ NoContract(s) /\ NoSameAddress(s)

\* which clause fails (signature of a violation); for a duplicate the pair of text forms
DupForms(s) == LET p == CHOOSE p \in Pairs(s) : SameAddress(s[p[1]], s[p[2]])
                   f == s[p[1]].form  g == s[p[2]].form
               IN  IF f = g THEN "same-text" ELSE IF {f, g} = {"lower", "upper"} THEN "lower+upper" ELSE "mixed-case"
Why(t, s) ==
    IF ~NoSameAddress(s) THEN "duplicate-address/" \o DupForms(s)
    ELSE IF ~NoContract(s) THEN "smart-contract-address"
    ELSE IF ~EntrySupplyOK(s) THEN "entry-supply-mismatch"
    ELSE IF ~TotalOK(t, s) THEN "total-supply-mismatch"
    ELSE "none"

Dummy == [addr |-> "none", form |-> "lower", s |-> 0, b |-> 0, k |-> 0, d |-> 0, da |-> "empty"]
At(i, n) == IF i <= n THEN EntriesAt(mode, i) ELSE {Dummy}
Max(a, b) == IF a >= b THEN a ELSE b

Init ==
    /\ mode \in Modes
    /\ conv \in ConvsOf(mode)
    /\ \E n \in LensOf(mode) : \E x1 \in At(1, n), x2 \in At(2, n), x3 \in At(3, n) : es = SubSeq(<<x1, x2, x3>>, 1, n)
    /\ unit \in UnitsOf(mode) /\ mag \in MagsOf(mode)
    /\ \E off \in OffsetsOf(mode) : total = Max(1, SumSupply(es) + off)
    /\ hist = <<>>

Result == LET c == AsCoded(conv, total, es) IN
          [accept |-> c = "ok", err |-> c, required |-> Required(total, es), why |-> Why(total, es)]

\* the single action: NewAccountsParser(file(es), total, converter)
Parse ==
    /\ hist = <<>>
    /\ hist' = Log(hist, [a |-> "Parse", in |-> [mode |-> mode, conv |-> conv, total |-> total, es |-> es, unit |-> unit, mag |-> mag,
                                              toff |-> total - SumSupply(es),
                                              deltas |-> [i \in 1..Len(es) |-> es[i].s - (es[i].b + es[i].k + es[i].d)]], out |-> Result, st |-> [x |-> 0]])
    /\ UNCHANGED cvars

Next == Parse
Spec == Init /\ [][Next]_vars

\* C47: a genesis file is accepted only if the four clauses hold
Inv_C47_AcceptedOnlyIfRequired == (AsCoded(conv, total, es) = "ok") => Required(total, es)
\* the converse is not demanded by C47; it documents what else the parser insists on
RejectedThoughRequired == Required(total, es) /\ AsCoded(conv, total, es) # "ok"
=============================================================================
