---- MODULE MC_Genesis ----
EXTENDS Genesis, Json
LogAppend(h, r) == Append(h, r)
LogLast(h, r) == <<r>>
Emit == PrintT("@@B " \o ToJson(hist'))

MCAddrClass(a) == IF a \in {"sc1", "sc2"} THEN "sc" ELSE "user"      \* "u1" "u2" "u3" "almost" are user addresses
Off3 == {-1, 0, 1}
Off2 == {0, 1}

Amt(S, B, K, D) == [s : S, b : B, k : K, d : D]
Ent(AF, A, DA) == {[addr |-> af[1], form |-> af[2], s |-> a.s, b |-> a.b, k |-> a.k, d |-> a.d, da |-> da] :
                     af \in AF, a \in A, da \in DA}
\* delegation address kind only matters when something is delegated
WithDA(AF, A) == Ent(AF, {a \in A : a.d = 0}, {"empty"}) \cup Ent(AF, {a \in A : a.d # 0}, {"ok", "empty", "bad"})
Pos(i) == <<IF i = 1 THEN "u1" ELSE IF i = 2 THEN "u2" ELSE "u3", "lower">>
Forms3 == {"lower", "upper", "mixed"}

\* amounts*: distinct lower-case user addresses (fixed per position), every small amount tuple
\* addr*:    one consistent amount tuple, every address / letter case at every position
\* both*:    a few addresses/forms, small amounts, delegation address kinds
MCEntriesAt(m, i) ==
    CASE m = "amounts2"    -> Ent({Pos(i)}, Amt(0..3, 0..2, 0..1, 0..1), {"ok"})
      [] m = "amounts3q"   -> Ent({Pos(i)}, Amt(1..2, 0..1, 0..1, {0}), {"ok"})
      [] m = "amounts3"    -> Ent({Pos(i)}, Amt(1..2, 0..1, 0..1, 0..1), {"ok"})
      [] m = "amountsNeg"  -> Ent({Pos(i)}, Amt(-1..2, -1..1, -1..1, -1..1), {"ok"})
      [] m = "big1"        -> Ent({Pos(i)}, Amt(-1..2, -1..1, 0..1, 0..1), {"ok"})
      [] m = "big2"        -> Ent({Pos(i)}, Amt(1..2, 0..1, {0}, 0..1), {"ok"})
      [] m = "addrq"       -> Ent({"u1", "u2", "sc1"} \X Forms3, Amt({1}, {1}, {0}, {0}), {"empty"})
      [] m = "addr"        -> Ent({"u1", "u2", "almost", "sc1"} \X Forms3, Amt({1}, {1}, {0}, {0}), {"empty"})
      [] m = "bothq"       -> WithDA({<<"u1", "lower">>, <<"u1", "upper">>, <<"sc2", "upper">>}, Amt(1..2, {1}, 0..1, 0..1))
      [] m = "both"        -> WithDA({<<"u1", "lower">>, <<"u1", "upper">>, <<"u2", "lower">>, <<"sc1", "lower">>}, Amt(1..2, 0..1, 0..1, 0..1))
MCLensOf(m) == CASE m \in {"amounts3q", "amounts3"} -> {3}
                 [] m = "big1" -> {1}
                 [] m = "big2" -> {2}
                 [] m \in {"amounts2", "amountsNeg", "bothq", "both"} -> 0..2
                 [] OTHER -> 0..3
MCConvsOf(m) == IF m \in {"addrq", "addr", "both"} THEN {"bech32", "hex"} ELSE {"bech32"}
MCOffsetsOf(m) == IF m \in {"addrq", "addr", "bothq", "both"} THEN {0, 1} ELSE {-1, 0, 1}
\* big-number modes: every unit x every mismatch magnitude; the other modes are written plainly
MCUnitsOf(m) == IF m \in {"big1", "big2"} THEN {"1", "10^18", "real"} ELSE {"1"}
MCMagsOf(m) == IF m \in {"big1", "big2"} THEN {"1", "2^32", "2^63", "2^64", "2^64-1", "2^64+1", "3*2^64", "10^18"} ELSE {"1"}
ModesQuick == {"amounts2", "amounts3q", "addrq", "bothq", "big1", "big2"}
ModesCex == {"addrq"}
ModesThorough == {"amounts2", "amounts3", "amountsNeg", "addr", "both", "big1", "big2"}
====
