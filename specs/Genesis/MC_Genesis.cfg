SPECIFICATION Spec
CONSTANTS
  Modes <- ModesQuick
  ConvsOf <- MCConvsOf
  LensOf <- MCLensOf
  EntriesAt <- MCEntriesAt
  OffsetsOf <- MCOffsetsOf
  AddrClass <- MCAddrClass
  UnitsOf <- MCUnitsOf
  MagsOf <- MCMagsOf
  Defects = {}
  Log <- LogLast
INVARIANTS Inv_C47_AcceptedOnlyIfRequired
CHECK_DEADLOCK FALSE
