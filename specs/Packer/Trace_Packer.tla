---- MODULE Trace_Packer ----
(* Observation validation: every line of trace.ndjson is one call of a real packer / the splitter with   *)
(* what it returned (chunks mapped back to input positions, real marshalled lengths).  The step binds    *)
(* the specification's variables to the OBSERVED result, so Inv_C32_* of Packer.tla are evaluated by     *)
(* TLC on what the real code returned.  The strict variant additionally requires the observation to be   *)
(* the chunking computed by the transcription (as the code is, or as intended) and the marshalled        *)
(* lengths to follow the wire model -- a mismatch there is drift, not a property violation.              *)
EXTENDS Packer, Json, TLCExt
LogLast(h, r) == <<r>>
AllDefects == {"C32-last-reset"}
TLog == ndJsonDeserialize("trace.ndjson")
VARIABLE l
tvars == <<vars, l>>
Ev == TLog[l]
IsEvent(name) == l <= Len(TLog) /\ Ev.a = name /\ l' = l + 1

TraceInit ==
    /\ l = 1 /\ algo = "split" /\ data = <<>> /\ isNil = FALSE /\ limit = 1 /\ i = 0
    /\ ret = <<>> /\ wire = <<>> /\ cur = <<>> /\ last = <<>> /\ lastWire = 0 /\ err = "" /\ pc = "loop" /\ hist = <<>>

Observe ==
    /\ algo' = Ev.in.algo /\ data' = Ev.in.sizes /\ isNil' = Ev.in.nil /\ limit' = Ev.in.limit
    /\ i' = Len(Ev.in.sizes)
    /\ ret' = Ev.out.chunks /\ wire' = Ev.out.wire /\ err' = Ev.out.err
    /\ cur' = <<>> /\ last' = <<>> /\ lastWire' = 0 /\ pc' = "done"
    /\ hist' = <<[a |-> "Pack", in |-> Ev.in, out |-> Ev.out, st |-> Ev.st]>>

\* the observation is what the transcription computes
Conforms ==
    LET e == ErrOf(Ev.in.limit, Ev.in.nil)
    IN  /\ Ev.out.err = e
        /\ e = "" => /\ \/ Ev.out.chunks = Run(Ev.in.algo, Ev.in.sizes, Ev.in.limit, {}).ret
                        \/ Ev.out.chunks = Run(Ev.in.algo, Ev.in.sizes, Ev.in.limit, AllDefects).ret
                     /\ Ev.in.algo # "split" =>
                           \A j \in 1..Len(Ev.out.chunks) : Ev.out.wire[j] = WireLen(Ev.in.sizes, Ev.out.chunks[j])

TPack    == IsEvent("Pack") /\ Observe /\ Conforms
TPackObs == IsEvent("Pack") /\ Observe
TraceSpec    == TraceInit /\ [][TPack]_tvars
TraceSpecObs == TraceInit /\ [][TPackObs]_tvars

HighWater == TLCSet(1, IF l > TLCGet(1) THEN l ELSE TLCGet(1))
Accepted  == IF TLCGet(1) = Len(TLog) + 1 THEN TRUE ELSE PrintT("@@HW " \o ToString(TLCGet(1))) /\ FALSE
ASSUME TLCSet(1, 0)
====
