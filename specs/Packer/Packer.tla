------------------------------- MODULE Packer -------------------------------
(***************************************************************************)
(* core/partitioning: the three chunking loops used before data is sent on  *)
(* the network, transcribed statement by statement.                         *)
(*                                                                          *)
(*   "size"   SizeDataPacker.PackDataInChunks   (marshalled bytes < limit)  *)
(*   "simple" SimpleDataPacker.PackDataInChunks (payload bytes < limit)     *)
(*   "split"  DataSplit.SplitDataInChunks       (element count <= limit)    *)
(*                                                                          *)
(* An input is a sequence of element LENGTHS (`data`); elements are         *)
(* identified by their position 1..Len(data).  A chunk is the sequence of   *)
(* positions it carries; a marshalled batch.Batch is abstracted to the      *)
(* sequence of positions it encodes plus its wire length: gogo-protobuf      *)
(* writes `repeated bytes Data = 1` as, per element, one tag byte, the       *)
(* varint of the length and the bytes (WireLen below).                       *)
(* Unpacking (Unmarshal of every chunk, concatenated) is Flatten.           *)
(*                                                                          *)
(* One loop iteration = one step (LoopStep); the flush after the loop is    *)
(* TailFlush.  The same step functions are folded by Run, which is what the      *)
(* behaviour export and the trace specification use.                        *)
(*                                                                          *)
(* Property C32: Unpack(chunks) = input, and every chunk is within the      *)
(* limit unless it holds a single element.                                  *)
(***************************************************************************)
EXTENDS Integers, Sequences, FiniteSets, TLC, SequencesExt

CONSTANTS Sizes,         \* element lengths
          MaxLen,        \* maximum number of elements of an input
          Limits,        \* limits (may contain values < 1: rejected by the code)
          Algos,         \* subset of {"size", "simple", "split"}
          KnownDefects,  \* named deviations of the code from the intended design that are modelled
                         \*   "C32-last-reset": SizeDataPacker clears lastMarshalized after a flush
                         \*                     although the new one-element batch stays open
          Log(_, _)

VARIABLES algo, data, isNil, limit,   \* the input (fixed in Init)
          i,                           \* number of elements consumed by the loop
          ret,                         \* returningBuff: sequence of chunks (sequences of positions)
          wire,                        \* wire length of every entry of ret (0 for the splitter)
          cur,                         \* elements / currentChunk
          last,                        \* lastMarshalized, as the positions it encodes (<<>> = empty buffer)
          lastWire,                    \* len(lastMarshalized)
          err,                         \* "" | "invalid" | "nil"
          pc,                          \* "loop" | "done"
          hist

vars  == <<algo, data, isNil, limit, i, ret, wire, cur, last, lastWire, err, pc, hist>>
cvars == <<algo, data, isNil, limit, i, ret, wire, cur, last, lastWire, err, pc>>

-----------------------------------------------------------------------------
VarintLen(n) == IF n < 128 THEN 1 ELSE IF n < 16384 THEN 2 ELSE IF n < 2097152 THEN 3 ELSE 4
ElemWire(n)  == 1 + VarintLen(n) + n

SizeOf(d, k) == IF k \in DOMAIN d THEN d[k] ELSE 0      \* position 0 = an element that is not in the input

RECURSIVE WireLen(_, _), Payload(_, _)
\* len(Marshal(&batch.Batch{Data: c}))
WireLen(d, c) == IF c = <<>> THEN 0 ELSE ElemWire(SizeOf(d, Head(c))) + WireLen(d, Tail(c))
\* sum of the element lengths
Payload(d, c) == IF c = <<>> THEN 0 ELSE SizeOf(d, Head(c)) + Payload(d, Tail(c))

RECURSIVE Flatten(_)
Flatten(r) == IF r = <<>> THEN <<>> ELSE Head(r) \o Flatten(Tail(r))
Ident(n) == [k \in 1..n |-> k]

\* loop state
St0 == [ret |-> <<>>, wire |-> <<>>, cur |-> <<>>, last |-> <<>>, lastWire |-> 0]

\* one iteration of SizeDataPacker's loop with element k
SizeStep(d, lim, s, k, defects) ==
    LET els == Append(s.cur, k)
        m   == WireLen(d, els)
    IN  IF m >= lim
        THEN IF Len(els) = 1
             THEN \* a single element that is too large on its own: sent alone
                  [s EXCEPT !.ret = Append(@, els), !.wire = Append(@, m), !.cur = <<>>,
                            !.last = <<>>, !.lastWire = 0]
             ELSE \* flush what fitted before (lastMarshalized), restart with the element
                  LET ret1  == Append(s.ret, s.last)
                      wire1 == Append(s.wire, s.lastWire)
                      one   == <<k>>
                      m1    == WireLen(d, one)
                  IN  IF m1 >= lim
                      THEN [s EXCEPT !.ret = Append(ret1, one), !.wire = Append(wire1, m1), !.cur = <<>>,
                                     !.last = <<>>, !.lastWire = 0]
                      ELSE IF "C32-last-reset" \in defects
                           THEN \* code as it is: `lastMarshalized = make([]byte, 0); continue`
                                [s EXCEPT !.ret = ret1, !.wire = wire1, !.cur = one, !.last = <<>>, !.lastWire = 0]
                           ELSE \* intended: lastMarshalized is the marshalled open batch
                                [s EXCEPT !.ret = ret1, !.wire = wire1, !.cur = one, !.last = one, !.lastWire = m1]
        ELSE [s EXCEPT !.cur = els, !.last = els, !.lastWire = m]

\* one iteration of SimpleDataPacker's loop (lenChunk is Payload(cur))
SimpleStep(d, lim, s, k) ==
    LET tooLarge == Payload(d, s.cur) + d[k] >= lim
        s1 == IF tooLarge /\ s.cur # <<>>
              THEN [s EXCEPT !.ret = Append(@, s.cur), !.wire = Append(@, WireLen(d, s.cur)), !.cur = <<>>]
              ELSE s
    IN  [s1 EXCEPT !.cur = Append(@, k)]

\* one iteration of DataSplit's loop (idx+1 = k)
SplitStep(lim, s, k) ==
    LET els == Append(s.cur, k)
    IN  IF k % lim = 0
        THEN [s EXCEPT !.ret = Append(@, els), !.wire = Append(@, 0), !.cur = <<>>]
        ELSE [s EXCEPT !.cur = els]

Step(a, d, lim, s, k, defects) ==
    CASE a = "size"   -> SizeStep(d, lim, s, k, defects)
      [] a = "simple" -> SimpleStep(d, lim, s, k)
      [] a = "split"  -> SplitStep(lim, s, k)

\* the `if len(elements) > 0` flush after the loop
Finish(a, d, s) ==
    IF s.cur # <<>>
    THEN [s EXCEPT !.ret = Append(@, s.cur), !.wire = Append(@, IF a = "split" THEN 0 ELSE WireLen(d, s.cur)),
                   !.cur = <<>>]
    ELSE s

ErrOf(lim, nil) == IF lim < 1 THEN "invalid" ELSE IF nil THEN "nil" ELSE ""

\* whole run, folding the step functions
Run(a, d, lim, defects) ==
    \* (FoldLeft is evaluated natively, so every Step gets a value, not an unevaluated expression)
    Finish(a, d, FoldLeft(LAMBDA s, k : Step(a, d, lim, s, k, defects), St0, Ident(Len(d))))

-----------------------------------------------------------------------------
(* The property, as predicates over (algorithm, input, limit, chunks, wire lengths) *)

Lossless(d, chunks) == Flatten(chunks) = Ident(Len(d))

ChunkBounded(a, d, lim, c, w) ==
    CASE a = "size"   -> Len(c) = 1 \/ w < lim               \* marshalled bytes below the limit
      [] a = "simple" -> Len(c) = 1 \/ Payload(d, c) < lim   \* payload bytes below the limit
      [] a = "split"  -> Len(c) <= lim                       \* at most `limit` elements
Bounded(a, d, lim, chunks, w) ==
    \A j \in 1..Len(chunks) : ChunkBounded(a, d, lim, chunks[j], w[j])

-----------------------------------------------------------------------------
Inputs == UNION {[1..n -> Sizes] : n \in 0..MaxLen}

Rec(s) ==
    LET fixed == Run(algo, data, limit, {})
    IN  [a |-> "Pack",
         in |-> [algo |-> algo, sizes |-> data, limit |-> limit, nil |-> isNil],
         out |-> [err |-> err,
                  chunks |-> s.ret,                                   \* code as it is (KnownDefects)
                  wire |-> s.wire,
                  fixed |-> IF err = "" THEN fixed.ret ELSE <<>>,     \* intended design
                  lossless |-> err # "" \/ Lossless(data, s.ret),
                  bounded |-> err # "" \/ Bounded(algo, data, limit, s.ret, s.wire)],
         st |-> [n |-> Len(s.ret)]]

Init ==
    /\ algo \in Algos /\ data \in Inputs /\ limit \in Limits
    /\ isNil \in (IF data = <<>> THEN BOOLEAN ELSE {FALSE})
    /\ i = 0 /\ ret = <<>> /\ wire = <<>> /\ cur = <<>> /\ last = <<>> /\ lastWire = 0
    /\ err = ErrOf(limit, isNil)
    /\ pc = "loop"
    /\ hist = <<>>

Here == [ret |-> ret, wire |-> wire, cur |-> cur, last |-> last, lastWire |-> lastWire]

\* argument checks fail: nothing is returned
Reject ==
    /\ pc = "loop" /\ err # ""
    /\ pc' = "done"
    /\ hist' = Log(hist, Rec(Here))
    /\ UNCHANGED <<algo, data, isNil, limit, i, ret, wire, cur, last, lastWire, err>>

LoopStep ==
    /\ pc = "loop" /\ err = "" /\ i < Len(data)
    /\ LET s == Step(algo, data, limit, Here, i + 1, KnownDefects)
       IN  ret' = s.ret /\ wire' = s.wire /\ cur' = s.cur /\ last' = s.last /\ lastWire' = s.lastWire
    /\ i' = i + 1
    /\ UNCHANGED <<algo, data, isNil, limit, err, pc, hist>>

TailFlush ==
    /\ pc = "loop" /\ err = "" /\ i = Len(data)
    /\ LET s == Finish(algo, data, Here)
       IN  /\ ret' = s.ret /\ wire' = s.wire /\ cur' = s.cur /\ last' = s.last /\ lastWire' = s.lastWire
           /\ hist' = Log(hist, Rec(s))
    /\ pc' = "done"
    /\ UNCHANGED <<algo, data, isNil, limit, i, err>>

Next == Reject \/ LoopStep \/ TailFlush
Spec == Init /\ [][Next]_vars

\* the whole call as one step (the loops touch no shared state, so a call is atomic): used for the
\* behaviour export and by the trace specification
Pack ==
    /\ pc = "loop"
    /\ \E s \in {IF err = "" THEN Run(algo, data, limit, KnownDefects) ELSE St0} :   \* (\E binds a value: evaluated once)
           /\ ret' = s.ret /\ wire' = s.wire /\ cur' = s.cur /\ last' = s.last /\ lastWire' = s.lastWire
           /\ hist' = Log(hist, Rec(s))
    /\ i' = IF err = "" THEN Len(data) ELSE 0
    /\ pc' = "done"
    /\ UNCHANGED <<algo, data, isNil, limit, err>>
OneShotSpec == Init /\ [][Pack]_vars

-----------------------------------------------------------------------------
TypeOK ==
    /\ Len(ret) = Len(wire)
    /\ i \in 0..Len(data)
    /\ pc \in {"loop", "done"}

\* C32, first half: unpacking the returned chunks gives back the input
Inv_C32_Lossless == (pc = "done" /\ err = "") => Lossless(data, ret)
\* C32, second half: every chunk within the limit unless it holds a single element
Inv_C32_Bounded  == (pc = "done" /\ err = "") => Bounded(algo, data, limit, ret, wire)
\* an invalid call returns nothing
Inv_C32_ErrEmpty == (err # "") => ret = <<>>

\* loop invariants of the intended design (R1 only; they explain *why* the property holds)
Inv_LoopLossless == (pc = "loop" /\ err = "") => Flatten(ret) \o cur = Ident(i)
Inv_LastCoherent == (pc = "loop" /\ err = "" /\ algo = "size") => (last = cur /\ lastWire = WireLen(data, cur))
\* the wire model is the one Run uses
Inv_WireModel    == (algo # "split") => \A j \in 1..Len(ret) : wire[j] = WireLen(data, ret[j])
=============================================================================
