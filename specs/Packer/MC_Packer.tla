---- MODULE MC_Packer ----
EXTENDS Packer, Json
CONSTANTS MCLo, MCHi        \* limits MCLo..MCHi (MCLo may be -1: negative literals are not allowed in a cfg)
LogAppend(h, r) == Append(h, r)
LogLast(h, r) == <<r>>
MCLimits == (MCLo - 1)..MCHi    \* cfg gives MCLo >= 0; the set starts one below it
\* behaviour export: one record per input (the one-step specification)
EmitDone == (pc' = "done") => PrintT("@@B " \o ToJson(hist'))
====
