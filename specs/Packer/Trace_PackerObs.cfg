SPECIFICATION TraceSpecObs
CONSTANTS
  Sizes = {}
  MaxLen = 0
  Limits = {}
  Algos = {}
  KnownDefects = {}
  Log <- LogLast
CONSTRAINT HighWater
INVARIANTS Inv_C32_Lossless Inv_C32_Bounded Inv_C32_ErrEmpty
POSTCONDITION Accepted
CHECK_DEADLOCK FALSE
