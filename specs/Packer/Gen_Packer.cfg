SPECIFICATION OneShotSpec
CONSTANTS
  Sizes = {0, 1, 2, 3, 5}
  MaxLen = 4
  Limits <- MCLimits
  MCLo = 0
  MCHi = 12
  Algos = {"size", "simple", "split"}
  KnownDefects = {"C32-last-reset"}
  Log <- LogAppend
ACTION_CONSTRAINT EmitDone
CHECK_DEADLOCK FALSE
