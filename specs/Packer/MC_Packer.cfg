SPECIFICATION Spec
CONSTANTS
  Sizes = {0, 1, 2, 3, 5}
  MaxLen = 4
  Limits <- MCLimits
  MCLo = 0
  MCHi = 12
  Algos = {"size", "simple", "split"}
  KnownDefects = {}
  Log <- LogLast
INVARIANTS TypeOK Inv_C32_Lossless Inv_C32_Bounded Inv_C32_ErrEmpty Inv_LoopLossless Inv_LastCoherent Inv_WireModel
CHECK_DEADLOCK FALSE
