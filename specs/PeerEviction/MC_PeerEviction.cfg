SPECIFICATION Spec
CONSTANTS
  Configs <- MCConfigs
  ProfileCodes <- MCClassProfiles
  MaxPeers = 4
  Canonical = TRUE
  KnownDefects = {}
  LimA = {1, 2}
  LimB = {1}
  SeedSet = {0, 1}
  FHSet = {0, 1}
  SlackSet = {1, 2}
  WithInvalid = TRUE
  Log <- LogLast
VIEW cvars
INVARIANTS TypeOK Inv_C44_Subset Inv_C44_NoDup Inv_C44_NoPreferred Inv_C44_CatLimits Inv_C44_Target Inv_SelectionExists Inv_EffSum
CHECK_DEADLOCK FALSE
