---------------------------- MODULE PeerEviction ----------------------------
(***************************************************************************)
(* p2p/libp2p/networksharding/listsSharder.go: which connected peers the    *)
(* connection sharder proposes for eviction.                                *)
(*                                                                          *)
(* A configuration is what NewListsSharder receives (target peer count and  *)
(* the per-category maxima).  A peer is described by what the sharder can    *)
(* learn about it: the peer-shard resolver's answer (type, shard equal to    *)
(* ours or not, full-history sub type), whether its id occurs in the seeder  *)
(* list and whether the preferred-peers holder contains it.                  *)
(*                                                                          *)
(* The machine builds a peer list (AddPeer) and then calls                   *)
(* ComputeEvictionList once (Compute).  Compute follows the code:            *)
(*   splitPeerIds  -> Class (the order of the tests is the code's order)     *)
(*   computeUsedAndSpare cascade -> Eff (effective limit per category) and   *)
(*                                   Keep                                    *)
(*   evict         -> from every category list, len - keep members.  WHICH   *)
(*                    members (the farthest by Kademlia distance) is left     *)
(*                    open: Compute(E) accepts every selection E with the     *)
(*                    right number per category (relational action).          *)
(*                                                                          *)
(* Property C44: only peers of the list, never a preferred peer, each at     *)
(* most once; the remaining non-preferred peers are within the effective     *)
(* limit of every category and within the target peer count.                 *)
(***************************************************************************)
EXTENDS Integers, Sequences, FiniteSets, TLC, SequencesExt, FiniteSetsExt

CONSTANTS Configs,        \* set of configuration records
          ProfileCodes,   \* set of peer profile codes 0..47 that AddPeer may use
          MaxPeers,
          Canonical,      \* TRUE: peers are added in non-decreasing code order (one list per multiset)
          KnownDefects,   \* "C44-seeder-before-preferred": splitPeerIds tests IsSeeder before the preferred holder
          Log(_, _)

VARIABLES cfg, ok, peers, evicted, phase, hist
vars  == <<cfg, ok, peers, evicted, phase, hist>>
cvars == <<cfg, ok, peers, evicted, phase>>

Cats == {"iv", "cv", "io", "co", "seed", "fh", "unk"}

-----------------------------------------------------------------------------
(* peer profiles: code = ty*16 + cross*8 + fh*4 + seed*2 + pref *)
Ty(code) == <<"val", "obs", "unk">>[(code \div 16) + 1]
Profile(code) ==
    [code |-> code, ty |-> Ty(code), cross |-> (code \div 8) % 2 = 1, fh |-> (code \div 4) % 2 = 1,
     seed |-> (code \div 2) % 2 = 1, pref |-> code % 2 = 1]

\* splitPeerIds: "skip" = not put in any list
Class(p, c, defects) ==
    LET byInfo == IF p.ty = "unk" THEN "unk"
                  ELSE IF p.cross THEN (IF p.ty = "val" THEN "cv" ELSE "co")
                  ELSE IF p.ty = "val" THEN "iv"
                  ELSE IF p.fh /\ c.maxFH > 0 THEN "fh" ELSE "io"
    IN  IF "C44-seeder-before-preferred" \in defects
        THEN IF p.seed THEN "seed" ELSE IF p.pref THEN "skip" ELSE byInfo      \* code as it is
        ELSE IF p.pref THEN "skip" ELSE IF p.seed THEN "seed" ELSE byInfo      \* intended

\* category of a NON-preferred peer (both orders of the tests agree on those): what the property talks about
PropClass(p, c) == Class([p EXCEPT !.pref = FALSE], c, {})

-----------------------------------------------------------------------------
(* NewListsSharder *)
Provided(c) == c.maxIV + c.maxCV + c.maxIO + c.maxCO + c.maxSeed + c.maxFH
Valid(c) ==
    /\ c.target >= 5
    /\ c.maxIV >= 1 /\ c.maxCV >= 1 /\ c.maxIO >= 1 /\ c.maxCO >= 1
    /\ Provided(c) + 1 <= c.target
MaxUnknown(c) == c.target - Provided(c)

(* computeUsedAndSpare and the cascade of ComputeEvictionList *)
Used(e, m) == IF e < m THEN [n |-> e, rem |-> m - e] ELSE [n |-> m, rem |-> 0]
Eff(c, ex) ==
    LET u1 == Used(ex.iv, c.maxIV)
        l2 == c.maxCV + u1.rem
        u2 == Used(ex.cv, l2)
        l3 == c.maxIO + u2.rem
        u3 == Used(ex.io, l3)
        l4 == c.maxCO + u3.rem
        u4 == Used(ex.co, l4)
    IN  [iv |-> c.maxIV, cv |-> l2, io |-> l3, co |-> l4,
         seed |-> c.maxSeed,                       \* strict: no spare is passed to or from the seeders
         fh |-> c.maxFH,
         unk |-> MaxUnknown(c) + u4.rem]
Min2(a, b) == IF a < b THEN a ELSE b
Max2(a, b) == IF a > b THEN a ELSE b

Pos(ps) == 1..Len(ps)
Members(ps, c, cat, defects) == {k \in Pos(ps) : Class(ps[k], c, defects) = cat}
Existing(ps, c, defects) == [cat \in Cats |-> Cardinality(Members(ps, c, cat, defects))]
\* number evicted from a category list: len - keep, keep = min(existing, effective limit) (evict: numKeep < 0 -> 0)
EvictCount(ps, c, defects) ==
    LET ex == Existing(ps, c, defects)
        eff == Eff(c, ex)
    IN  [cat \in Cats |-> ex[cat] - Min2(ex[cat], Max2(eff[cat], 0))]

\* E is a result the code may produce: the right number from every category list, nothing else
IsSelection(E, ps, c, defects) ==
    \E n \in {EvictCount(ps, c, defects)} :                       \* (\E over a singleton: evaluated once)
    \E mem \in {[cat \in Cats |-> Members(ps, c, cat, defects)]} :
        /\ \A cat \in Cats : Cardinality(E \cap mem[cat]) = n[cat]
        /\ E \subseteq UNION {mem[cat] : cat \in Cats}
\* all such selections: one k-subset per category list
Selections(ps, c, defects) ==
    LET n == EvictCount(ps, c, defects)
        mem == [cat \in Cats |-> Members(ps, c, cat, defects)]
    IN  {e1 \cup e2 \cup e3 \cup e4 \cup e5 \cup e6 \cup e7 :
            e1 \in kSubset(n.iv, mem.iv), e2 \in kSubset(n.cv, mem.cv), e3 \in kSubset(n.io, mem.io),
            e4 \in kSubset(n.co, mem.co), e5 \in kSubset(n.seed, mem.seed), e6 \in kSubset(n.fh, mem.fh),
            e7 \in kSubset(n.unk, mem.unk)}

-----------------------------------------------------------------------------
(* The property, as predicates over (configuration, peer list, proposed eviction sequence) *)
EvSet(ev) == {ev[k] : k \in 1..Len(ev)}
Remaining(ps, ev) == {k \in Pos(ps) : k \notin EvSet(ev) /\ ~ps[k].pref}      \* non-preferred peers that stay
PropExisting(ps, c) == [cat \in Cats |-> Cardinality({k \in Pos(ps) : ~ps[k].pref /\ PropClass(ps[k], c) = cat})]

P_Subset(ps, ev)      == \A k \in 1..Len(ev) : ev[k] \in Pos(ps)           \* position 0 = an id that is not in the list
P_NoDup(ev)           == \A a, b \in 1..Len(ev) : a # b => ev[a] # ev[b]
P_NoPreferred(ps, ev) == \A k \in 1..Len(ev) : ev[k] \in Pos(ps) => ~ps[ev[k]].pref
P_CatLimits(ps, c, ev) ==
    \E eff \in {Eff(c, PropExisting(ps, c))} : \E rem \in {Remaining(ps, ev)} :
        \A cat \in Cats : Cardinality({k \in rem : PropClass(ps[k], c) = cat}) <= eff[cat]
P_Target(ps, c, ev)   == Cardinality(Remaining(ps, ev)) <= c.target

-----------------------------------------------------------------------------
Rec(ev) ==
    LET all == {"C44-seeder-before-preferred"} IN
    [a |-> "Compute",
     in |-> [cfg |-> cfg, peers |-> peers],
     out |-> [class   |-> [k \in Pos(peers) |-> Class(peers[k], cfg, KnownDefects)],   \* code as it is
              classI  |-> [k \in Pos(peers) |-> Class(peers[k], cfg, {})],             \* intended
              eff     |-> Eff(cfg, PropExisting(peers, cfg)),
              evict   |-> EvictCount(peers, cfg, KnownDefects),
              evictI  |-> EvictCount(peers, cfg, {}),
              mayEvictPreferred |-> \E k \in Pos(peers) : peers[k].pref /\ peers[k].seed
                                        /\ EvictCount(peers, cfg, all)["seed"] > 0],
     st |-> [n |-> Len(ev)]]

Init ==
    /\ cfg \in Configs
    /\ ok = Valid(cfg)
    /\ peers = <<>> /\ evicted = <<>>
    /\ phase = IF Valid(cfg) THEN "build" ELSE "done"
    /\ hist = <<[a |-> "New", in |-> [cfg |-> cfg], out |-> [ok |-> Valid(cfg)], st |-> [n |-> 0]]>>

AddPeer(code) ==
    /\ phase = "build" /\ Len(peers) < MaxPeers
    /\ IF Canonical /\ peers # <<>> THEN peers[Len(peers)].code <= code ELSE TRUE
    /\ peers' = Append(peers, Profile(code))
    /\ UNCHANGED <<cfg, ok, evicted, phase, hist>>

\* ComputeEvictionList returning the selection E (in any order: SetToSeq)
Compute(E) ==
    /\ phase = "build"
    /\ IsSelection(E, peers, cfg, KnownDefects)
    /\ evicted' = SetToSeq(E)
    /\ phase' = "done"
    /\ hist' = Log(hist, Rec(SetToSeq(E)))
    /\ UNCHANGED <<cfg, ok, peers>>

Next ==
    \/ \E code \in ProfileCodes : AddPeer(code)
    \/ \E E \in Selections(peers, cfg, KnownDefects) : Compute(E)
Spec == Init /\ [][Next]_vars

\* behaviour export: one Compute per peer list (the record does not depend on the selection)
GenNext ==
    \/ \E code \in ProfileCodes : AddPeer(code)
    \/ Compute(CHOOSE E \in Selections(peers, cfg, KnownDefects) : TRUE)
GenSpec == Init /\ [][GenNext]_vars

-----------------------------------------------------------------------------
TypeOK == phase \in {"build", "done"} /\ Len(peers) <= MaxPeers

Done == phase = "done" /\ ok
Inv_C44_Subset      == Done => P_Subset(peers, evicted)
Inv_C44_NoDup       == Done => P_NoDup(evicted)
Inv_C44_NoPreferred == Done => P_NoPreferred(peers, evicted)
Inv_C44_CatLimits   == Done => P_CatLimits(peers, cfg, evicted)
Inv_C44_Target      == Done => P_Target(peers, cfg, evicted)

\* design lemmas (R1 only): a selection always exists; the effective limits add up to the target
Inv_SelectionExists == (phase = "build") => Selections(peers, cfg, KnownDefects) # {}
Inv_EffSum ==
    ok => LET eff == Eff(cfg, PropExisting(peers, cfg))
              kept == [cat \in Cats |-> Min2(PropExisting(peers, cfg)[cat], eff[cat])]
          IN  kept.iv + kept.cv + kept.io + kept.co + kept.seed + kept.fh + kept.unk <= cfg.target
=============================================================================
