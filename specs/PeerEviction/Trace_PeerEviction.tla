---- MODULE Trace_PeerEviction ----
(* Observation validation: "New" = NewListsSharder(cfg) with its verdict, "Compute" = one call of the real      *)
(* ComputeEvictionList on a peer list described by profiles, with the positions it proposed for eviction.      *)
(* The step binds the specification's variables to the observation, so Inv_C44_* are evaluated on what the     *)
(* real sharder returned.  The strict variant additionally requires the observation to be a selection the      *)
(* transcription allows (right number per category list, as the code is or as intended) -- otherwise drift.    *)
EXTENDS PeerEviction, Json, TLCExt
LogLast(h, r) == <<r>>
AllDefects == {"C44-seeder-before-preferred"}
TLog == ndJsonDeserialize("trace.ndjson")
VARIABLE l
tvars == <<vars, l>>
Ev == TLog[l]
IsEvent(name) == l <= Len(TLog) /\ Ev.a = name /\ l' = l + 1

TraceInit ==
    /\ l = 1 /\ ok = FALSE /\ peers = <<>> /\ evicted = <<>> /\ phase = "build" /\ hist = <<>>
    /\ cfg = [target |-> 0, maxIV |-> 0, maxCV |-> 0, maxIO |-> 0, maxCO |-> 0, maxSeed |-> 0, maxFH |-> 0]

ObserveNew ==
    /\ cfg' = Ev.in.cfg /\ ok' = Ev.out.ok /\ peers' = <<>> /\ evicted' = <<>>
    /\ phase' = IF Ev.out.ok THEN "build" ELSE "done"
    /\ hist' = <<[a |-> "New", in |-> Ev.in, out |-> Ev.out, st |-> Ev.st]>>
ObserveCompute ==
    /\ cfg' = Ev.in.cfg /\ ok' = TRUE /\ peers' = Ev.in.peers /\ evicted' = Ev.out.evicted
    /\ phase' = "done"
    /\ hist' = <<[a |-> "Compute", in |-> Ev.in, out |-> Ev.out, st |-> Ev.st]>>

ConformsCompute ==
    LET E == {Ev.out.evicted[k] : k \in 1..Len(Ev.out.evicted)}
    IN  /\ Cardinality(E) = Len(Ev.out.evicted)
        /\ \/ IsSelection(E, Ev.in.peers, Ev.in.cfg, AllDefects)
           \/ IsSelection(E, Ev.in.peers, Ev.in.cfg, {})

TNew        == IsEvent("New") /\ ObserveNew /\ Ev.out.ok = Valid(Ev.in.cfg)
TCompute    == IsEvent("Compute") /\ ObserveCompute /\ ConformsCompute
TNewObs     == IsEvent("New") /\ ObserveNew
TComputeObs == IsEvent("Compute") /\ ObserveCompute
TraceSpec    == TraceInit /\ [][TNew \/ TCompute]_tvars
TraceSpecObs == TraceInit /\ [][TNewObs \/ TComputeObs]_tvars

HighWater == TLCSet(1, IF l > TLCGet(1) THEN l ELSE TLCGet(1))
Accepted  == IF TLCGet(1) = Len(TLog) + 1 THEN TRUE ELSE PrintT("@@HW " \o ToString(TLCGet(1))) /\ FALSE
ASSUME TLCSet(1, 0)
====
