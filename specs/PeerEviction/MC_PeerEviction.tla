---- MODULE MC_PeerEviction ----
EXTENDS PeerEviction, Json
CONSTANTS LimA, LimB, SeedSet, FHSet, SlackSet, WithInvalid
LogAppend(h, r) == Append(h, r)
LogLast(h, r) == <<r>>
Mk(a, b, c, d, s, f, t) ==
    [target |-> t, maxIV |-> a, maxCV |-> b, maxIO |-> c, maxCO |-> d, maxSeed |-> s, maxFH |-> f]
\* maxima chosen from the sets, target = provided + slack (slack 0: no room for unknown peers -> rejected)
MCConfigs ==
    {Mk(a, b, c, d, s, f, a + b + c + d + s + f + k) :
        a \in LimA, b \in LimA, c \in LimB, d \in LimB, s \in SeedSet, f \in FHSet, k \in SlackSet}
    \cup (IF WithInvalid
          THEN {Mk(0, 1, 1, 1, 0, 0, 6), Mk(1, 0, 1, 1, 0, 0, 6), Mk(1, 1, 0, 1, 0, 0, 6), Mk(1, 1, 1, 0, 1, 1, 8),
                Mk(1, 1, 1, 1, 0, 0, 4), Mk(1, 1, 1, 1, 1, 0, 5), Mk(2, 2, 1, 1, 1, 1, 8), Mk(1, 1, 1, 1, 0, 0, 5)}
          ELSE {})
\* one representative profile per category, plus a preferred peer and a preferred seeder
\*   iv=0 (val intra) cv=8 (val cross) io=16 (obs intra) co=24 (obs cross) fh=20 (obs intra fh) seed=2 (val intra seeder)
\*   unk=32, preferred validator=1, preferred seeder=3
MCClassProfiles == {0, 8, 16, 24, 20, 2, 32, 1, 3}
MCAllProfiles == 0..47
EmitDone == (phase' = "done") => PrintT("@@B " \o ToJson(hist'))
====
