SPECIFICATION TraceSpec
CONSTANTS
  Configs = {}
  ProfileCodes = {}
  MaxPeers = 0
  Canonical = FALSE
  KnownDefects = {}
  Log <- LogLast
CONSTRAINT HighWater
INVARIANTS Inv_C44_Subset Inv_C44_NoDup Inv_C44_NoPreferred Inv_C44_CatLimits Inv_C44_Target
POSTCONDITION Accepted
CHECK_DEADLOCK FALSE
