SPECIFICATION GenSpec
CONSTANTS
  Configs <- MCConfigs
  ProfileCodes <- MCClassProfiles
  MaxPeers = 4
  Canonical = TRUE
  KnownDefects = {"C44-seeder-before-preferred"}
  LimA = {1, 2}
  LimB = {1}
  SeedSet = {0, 1}
  FHSet = {0, 1}
  SlackSet = {1, 2}
  WithInvalid = TRUE
  Log <- LogAppend
VIEW cvars
ACTION_CONSTRAINT EmitDone
CHECK_DEADLOCK FALSE
