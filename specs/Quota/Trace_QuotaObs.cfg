SPECIFICATION TraceSpecObs
CONSTANTS
  Peers = {1, 2, 3, 4, 5, 6, 7, 8}
  Sizes = {}
  ConsensusSizes = {}
  Configs = {}
  MaxRecv = 0
  Log <- LogLast
CONSTRAINT HighWater
INVARIANTS Inv_C42_Num Inv_C42_Size
POSTCONDITION Accepted
CHECK_DEADLOCK FALSE
