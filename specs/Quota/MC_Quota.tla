---- MODULE MC_Quota ----
EXTENDS Quota, Json
CONSTANTS Bases, MaxSizes, PrTs, Thrs, FQs, WithInvalid, Depth
LogAppend(h, r) == Append(h, r)
LogLast(h, r) == <<r>>
Mk(b, m, pr, t, f) == [base |-> b, maxSize |-> m, prT |-> pr, thr |-> t, fQ |-> f]
MCConfigs ==
    {Mk(b, m, pr, t, f) : b \in Bases, m \in MaxSizes, pr \in PrTs, t \in Thrs, f \in FQs}
    \cup (IF WithInvalid
          THEN {Mk(0, 4, 0, 0, 0), Mk(2, 0, 0, 0, 0), Mk(2, 4, 905, 0, 0), Mk(2, 4, -5, 0, 0), Mk(2, 4, 0, 0, -1)}
          ELSE {})
GenNext  == Len(hist) < Depth /\ Next
GenSpec  == Init /\ [][GenNext]_vars
EmitEdge == PrintT("@@B " \o ToJson(hist'))
EmitFull == (Len(hist') = Depth) => PrintT("@@B " \o ToJson(hist'))
====
