---- MODULE Trace_Quota ----
(* Trace validation of runs of the real quotaFloodPreventer.  Strict: every event is the specification's action     *)
(* with the logged result (accept/reject of IncreaseLoad, statistics reported at Reset).  Observation-only: the       *)
(* accounting `acc` follows the OBSERVED results (IncreaseLoadObs), so Inv_C42_* are evaluated on what the real code  *)
(* accepted even after it has diverged from the functional model.                                                     *)
EXTENDS Quota, Json, TLCExt
LogLast(h, r) == <<r>>
TLog == ndJsonDeserialize("trace.ndjson")
VARIABLE l
tvars == <<vars, l>>
Ev == TLog[l]
IsEvent(name) == l <= Len(TLog) /\ Ev.a = name /\ l' = l + 1

TraceInit ==
    /\ l = 1 /\ ok = FALSE /\ computed = 1 /\ q = <<>> /\ acc = Zero /\ hiMax = 1 /\ hist = <<>>
    /\ cfg = [base |-> 1, maxSize |-> 1, prT |-> 0, thr |-> 0, fQ |-> 0]

ObserveNew ==
    /\ cfg' = Ev.in.cfg /\ ok' = Ev.out.ok /\ computed' = Ev.in.cfg.base /\ hiMax' = Ev.in.cfg.base
    /\ q' = <<>> /\ acc' = Zero
    /\ hist' = <<[a |-> "New", in |-> Ev.in, out |-> Ev.out, st |-> Ev.st]>>

TNew      == IsEvent("New") /\ ObserveNew /\ Ev.out.ok = Valid(Ev.in.cfg)
TIncrease == IsEvent("IncreaseLoad") /\ IncreaseLoad(Ev.in.p, Ev.in.s) /\ hist'[1].out.ok = Ev.out.ok
TReset    == IsEvent("Reset") /\ Reset /\ hist'[1].out.stats = Ev.out.stats
TApply    == IsEvent("Apply") /\ ApplyConsensusSize(Ev.in.n)
TraceSpec == TraceInit /\ [][TNew \/ TIncrease \/ TReset \/ TApply]_tvars

TNewObs      == IsEvent("New") /\ ObserveNew
TIncreaseObs == IsEvent("IncreaseLoad") /\ IncreaseLoadObs(Ev.in.p, Ev.in.s, Ev.out.ok)
TResetObs    == IsEvent("Reset") /\ Reset
TWindowObs   == IsEvent("Window") /\ WindowObs(Ev.in.p, Ev.out.n, Ev.out.bytes, Ev.out.first)
TraceSpecObs == TraceInit /\ [][TNewObs \/ TIncreaseObs \/ TResetObs \/ TApply \/ TWindowObs]_tvars

HighWater == TLCSet(1, IF l > TLCGet(1) THEN l ELSE TLCGet(1))
Accepted  == IF TLCGet(1) = Len(TLog) + 1 THEN TRUE ELSE PrintT("@@HW " \o ToString(TLCGet(1))) /\ FALSE
ASSUME TLCSet(1, 0)
====
