------------------------------- MODULE Quota -------------------------------
(***************************************************************************)
(* process/throttle/antiflood/floodPreventers/quotaFloodPreventer.go        *)
(*                                                                          *)
(* Two layers of state:                                                     *)
(*  - the implementation's bookkeeping, as the code keeps it: one `quota`   *)
(*    entry per peer in the cacher (numReceived, sizeReceived, numProcessed, *)
(*    sizeProcessed), the computed message maximum and the configuration;    *)
(*  - the accounting the PROPERTY talks about (`acc`): how many messages and *)
(*    bytes were ACCEPTED from each peer since the last reset and the size   *)
(*    of the first one.  acc is driven only by the result of IncreaseLoad.   *)
(*                                                                          *)
(* One action per public call (each is one critical section under           *)
(* mutOperation).  IncreaseLoadObs takes the observed result as a parameter  *)
(* (trace validation of a run that has diverged from the functional model).  *)
(*                                                                          *)
(* ATOMICITY: IncreaseLoad is ONE atomic step -- the lookup of the peer's     *)
(* entry, the decision and the update of the counters (or the creation of    *)
(* the default entry) happen in one critical section (mutOperation held in   *)
(* write mode).  The bounds below depend on it: were lookup and update two   *)
(* steps, concurrent first messages of a peer would each find no entry, each *)
(* create a default entry and all be accepted.  The concurrent stage of the  *)
(* check (WindowObs) holds the real code to this: whatever the interleaving  *)
(* of concurrent IncreaseLoad calls, the per-window totals must satisfy the  *)
(* same invariants.                                                          *)
(*                                                                          *)
(* Numbers: PercentReserved is a float32 in the code; here it is given in    *)
(* tenths of a percent (prT); uint64(100 - percentReserved) is               *)
(* (1000 - prT) \div 10.  IncreaseFactor is given in quarters (fQ);          *)
(* uint32(float32(n) * factor) is (n * fQ) \div 4.                           *)
(*                                                                          *)
(* Property C42: between two resets, accepted messages of a peer             *)
(* <= max(1, message quota) and accepted bytes <= byte quota + first size.   *)
(* The message quota may be changed by ApplyConsensusSize between two        *)
(* resets: the bound is the largest quota in force since the last reset.     *)
(***************************************************************************)
EXTENDS Integers, Sequences, FiniteSets, TLC, SequencesExt

CONSTANTS Peers, Sizes, ConsensusSizes,
          Configs,       \* configuration records [base, maxSize, prT, thr, fQ]
          MaxRecv,       \* bound on messages received from one peer between two resets (state-space bound only)
          Log(_, _)

VARIABLES cfg, ok,
          computed,      \* computedMaxNumMessagesPerPeer
          q,             \* cacher content: peer -> [nr, sr, np, sp]   (DOMAIN q = peers with an entry)
          acc,           \* property accounting: peer -> [n, bytes, first]
          hiMax,         \* largest message quota in force since the last reset
          hist

vars  == <<cfg, ok, computed, q, acc, hiMax, hist>>
cvars == <<cfg, ok, computed, q, acc, hiMax>>

-----------------------------------------------------------------------------
(* NewQuotaFloodPreventer *)
Valid(c) == c.base >= 1 /\ c.maxSize >= 1 /\ c.prT <= 900 /\ c.prT >= 0 /\ c.fQ >= 0

(* isMaximumReached: max := uint64(100-percentReserved) * absoluteMax / 100; counted > max *)
Keep(c) == (1000 - c.prT) \div 10
EffMax(c, absoluteMax) == (Keep(c) * absoluteMax) \div 100
Reached(c, absoluteMax, counted) == counted > EffMax(c, absoluteMax)

Zero == [p \in Peers |-> [n |-> 0, bytes |-> 0, first |-> 0]]
MaxOf(a, b) == IF a > b THEN a ELSE b

\* increaseLoad: what the code decides and how it updates the entry
Decide(p, s) ==
    IF p \notin DOMAIN q
    THEN [accept |-> TRUE, entry |-> [nr |-> 1, sr |-> s, np |-> 1, sp |-> s]]          \* putDefaultQuota
    ELSE LET e  == q[p]
             nr == e.nr + 1
             sr == e.sr + s
             reached == Reached(cfg, computed, nr) \/ Reached(cfg, cfg.maxSize, sr)
         IN  IF reached
             THEN [accept |-> FALSE, entry |-> [e EXCEPT !.nr = nr, !.sr = sr]]
             ELSE [accept |-> TRUE,  entry |-> [nr |-> nr, sr |-> sr, np |-> e.np + 1, sp |-> e.sp + s]]

Account(p, s, accepted) ==
    IF accepted
    THEN [acc EXCEPT ![p] = [n |-> @.n + 1, bytes |-> @.bytes + s, first |-> IF @.n = 0 THEN s ELSE @.first]]
    ELSE acc

Stats == LET ps == SetToSortSeq(DOMAIN q, <)
         IN  [k \in 1..Len(ps) |-> <<ps[k], q[ps[k]].nr, q[ps[k]].sr, q[ps[k]].np, q[ps[k]].sp>>]

Rec(a, in, out) == [a |-> a, in |-> in, out |-> out, st |-> [peers |-> Cardinality(DOMAIN q')]]

-----------------------------------------------------------------------------
Init ==
    /\ cfg \in Configs
    /\ ok = Valid(cfg)
    /\ computed = cfg.base
    /\ q = <<>> /\ acc = Zero /\ hiMax = cfg.base
    /\ hist = <<[a |-> "New", in |-> [cfg |-> cfg], out |-> [ok |-> Valid(cfg)], st |-> [peers |-> 0]]>>

\* IncreaseLoad(pid, size); `a` = the result (TRUE = nil error)
IncreaseLoadObs(p, s, a) ==
    /\ ok
    /\ LET d == Decide(p, s)
       IN  q' = (p :> d.entry) @@ q
    /\ acc' = Account(p, s, a)
    /\ hist' = Log(hist, Rec("IncreaseLoad", [p |-> p, s |-> s], [ok |-> a]))
    /\ UNCHANGED <<cfg, ok, computed, hiMax>>

IncreaseLoad(p, s) == IncreaseLoadObs(p, s, Decide(p, s).accept)

\* Observed totals of one reset window of a CONCURRENT run (G goroutines calling IncreaseLoad for peer p at the same
\* time): n messages / bytes accepted, `first` = an upper bound of the size of the first accepted message (the largest
\* accepted size).  Only the property accounting is set; the invariants are then evaluated on it.
WindowObs(p, n, bytes, first) ==
    /\ ok
    /\ acc' = [acc EXCEPT ![p] = [n |-> n, bytes |-> bytes, first |-> first]]
    /\ hist' = Log(hist, [a |-> "Window", in |-> [p |-> p], out |-> [n |-> n, bytes |-> bytes, first |-> first],
                         st |-> [peers |-> Cardinality(DOMAIN q)]])
    /\ UNCHANGED <<cfg, ok, computed, q, hiMax>>

\* Reset: statistics are reported to the status handlers, then the cacher is cleared
Reset ==
    /\ ok
    /\ q' = <<>> /\ acc' = Zero /\ hiMax' = computed
    /\ hist' = Log(hist, [a |-> "Reset", in |-> [x |-> 0], out |-> [stats |-> Stats], st |-> [peers |-> 0]])
    /\ UNCHANGED <<cfg, ok, computed>>

\* ApplyConsensusSize(size)
ApplyConsensusSize(n) ==
    /\ ok
    /\ computed' = IF n < 1 \/ cfg.thr > n THEN computed
                   ELSE cfg.base + ((n - cfg.thr) * cfg.fQ) \div 4
    /\ hiMax' = MaxOf(hiMax, computed')
    /\ hist' = Log(hist, [a |-> "Apply", in |-> [n |-> n], out |-> [x |-> 0], st |-> [peers |-> Cardinality(DOMAIN q)]])
    /\ UNCHANGED <<cfg, ok, q, acc>>

Next ==
    \/ \E p \in Peers, s \in Sizes : (p \in DOMAIN q => q[p].nr < MaxRecv) /\ IncreaseLoad(p, s)
    \/ Reset
    \/ \E n \in ConsensusSizes : ApplyConsensusSize(n)
Spec == Init /\ [][Next]_vars

-----------------------------------------------------------------------------
TypeOK ==
    /\ DOMAIN q \subseteq Peers
    /\ \A p \in DOMAIN q : q[p].np <= q[p].nr /\ q[p].sp <= q[p].sr

\* C42: accepted messages <= max(1, message quota); accepted bytes <= byte quota + size of the first message
Inv_C42_Num  == ok => \A p \in Peers : acc[p].n <= MaxOf(1, hiMax)
Inv_C42_Size == ok => \A p \in Peers : acc[p].bytes <= cfg.maxSize + acc[p].first

\* model-level lemmas (R1 only): the bookkeeping agrees with the accounting; the reserved share is honoured
Inv_Bookkeeping == ok => \A p \in Peers :
    IF p \in DOMAIN q THEN q[p].np = acc[p].n /\ q[p].sp = acc[p].bytes ELSE acc[p].n = 0
Inv_Reserved == ok => \A p \in Peers :
    /\ acc[p].n <= MaxOf(1, EffMax(cfg, hiMax))
    /\ acc[p].bytes <= MaxOf(acc[p].first, EffMax(cfg, cfg.maxSize))
=============================================================================
