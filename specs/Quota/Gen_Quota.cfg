SPECIFICATION GenSpec
CONSTANTS
  Peers = {1, 2}
  Sizes = {0, 1, 3, 5}
  ConsensusSizes = {0, 1, 3}
  Configs <- MCConfigs
  MaxRecv = 3
  Bases = {1, 2}
  MaxSizes = {4}
  PrTs = {0, 500}
  Thrs = {2}
  FQs = {4}
  WithInvalid = TRUE
  Depth = 9
  Log <- LogAppend
VIEW cvars
ACTION_CONSTRAINT EmitEdge
CHECK_DEADLOCK FALSE
