SPECIFICATION Spec
CONSTANTS
  Peers = {1, 2}
  Sizes = {0, 1, 3, 5}
  ConsensusSizes = {0, 1, 3}
  Configs <- MCConfigs
  MaxRecv = 4
  Bases = {1, 2}
  MaxSizes = {1, 4}
  PrTs = {0, 500}
  Thrs = {0, 2}
  FQs = {0, 4}
  WithInvalid = TRUE
  Depth = 0
  Log <- LogLast
VIEW cvars
INVARIANTS TypeOK Inv_C42_Num Inv_C42_Size Inv_Bookkeeping Inv_Reserved
CHECK_DEADLOCK FALSE
