------------------------------ MODULE ShardCoord ------------------------------
(***************************************************************************)
(* Address -> shard assignment of sharding/multiShardCoordinator.go, the    *)
(* metachain system-contract detection of core/address.go and the topic     *)
(* identifiers of core/converters.go.  Property C11.                        *)
(*                                                                          *)
(* The module is a transcription: one operator per Go function, same        *)
(* structure (calculateMasks, bytesNeed selection, suffix, metachain test,  *)
(* big-endian accumulation, maskHigh with maskLow fall-back).  Addresses    *)
(* are sequences of bytes (0..255).                                         *)
(*                                                                          *)
(* It is a "pure function" family: Init ranges over a bounded set of        *)
(* queries, the single action Eval computes the specification's answer and  *)
(* records it, the C11 invariants are evaluated on every answered query.    *)
(***************************************************************************)
EXTENDS Integers, Sequences, FiniteSets, Bitwise, TLC

CONSTANTS Classes,     \* the bounded input space, split into query classes (see MC_ShardCoord) ...
          Members(_),  \* ... and the set of concrete queries of a class
          Log(_, _)    \* observation variable policy (append / keep last)

META == 2147483647     \* stands for core.MetachainShardId (0xFFFFFFFF does not fit a TLC integer)

-----------------------------------------------------------------------------
(* multiShardCoordinator.calculateMasks:                                    *)
(*   n := ceil(log2(numberOfShards)); return (1<<n)-1, (1<<(n-1))-1         *)
(* TLC integers are 32 bit signed: the module is defined for                *)
(* numberOfShards <= 2^30.                                                  *)
MaxShards == 1073741824
CeilLog2(n) == CHOOSE k \in 0..30 : 2^k >= n /\ (k = 0 \/ 2^(k-1) < n)
MaskHigh(n) == 2^CeilLog2(n) - 1
\* for n = 1 the Go expression is 1 << uint(-1.0) - 1, whose value is platform dependent; it is
\* never used (x & 0 = 0 is never > 0), the specification uses 0
MaskLow(n)  == IF CeilLog2(n) = 0 THEN 0 ELSE 2^(CeilLog2(n)-1) - 1

BytesNeed(n) == IF n <= 256 THEN 1 ELSE IF n <= 65536 THEN 2 ELSE IF n <= 16777216 THEN 3 ELSE 4

\* address[startingIndex:] with startingIndex = max(0, len-bytesNeed)
Suffix(a, k) == IF Len(a) > k THEN SubSeq(a, Len(a) - k + 1, Len(a)) ELSE a

-----------------------------------------------------------------------------
(* core/address.go *)
NumInitCharactersForScAddress     == 10
VMTypeLen                         == 2
NumInitCharactersForOnMetachainSC == 15

IsEmptyAddress(a)        == \A i \in 1..Len(a) : a[i] = 0
IsSmartContractAddress(a) ==
    /\ Len(a) > NumInitCharactersForScAddress
    /\ \/ IsEmptyAddress(a)
       \/ \A i \in 1..(NumInitCharactersForScAddress - VMTypeLen) : a[i] = 0
IsMetachainIdentifier(id) == Len(id) > 0 /\ \A i \in 1..Len(id) : id[i] = 255
IsSmartContractOnMetachain(id, a) ==
    /\ Len(a) > NumInitCharactersForScAddress + NumInitCharactersForOnMetachainSC
    /\ IsMetachainIdentifier(id)
    /\ IsSmartContractAddress(a)
    /\ \A i \in (NumInitCharactersForScAddress + 1)..(NumInitCharactersForScAddress + NumInitCharactersForOnMetachainSC) :
           a[i] = 0

-----------------------------------------------------------------------------
(* ComputeIdFromBytes.  The Go code accumulates the suffix big-endian into a *)
(* uint32.  Only  addr & mask  with mask < 2^30 is ever used, and            *)
(* x & m = (x mod 2^30) & m for m < 2^30, so the accumulation is done        *)
(* modulo 2^30 (keeps every intermediate value inside TLC's integers).       *)
RECURSIVE Accum(_, _, _)
Accum(bytes, i, acc) ==
    IF i > Len(bytes) THEN acc ELSE Accum(bytes, i + 1, (acc % 4194304) * 256 + bytes[i])

ComputeId(n, a) ==
    LET id == Suffix(a, BytesNeed(n)) IN
    IF IsSmartContractOnMetachain(id, a) THEN META
    ELSE LET x == Accum(id, 1, 0)
             s == x & MaskHigh(n)
         IN  IF s > n - 1 THEN x & MaskLow(n) ELSE s

\* multiShardCoordinator.SameShard
SameShard(n, a, b) == IF a = b THEN TRUE ELSE ComputeId(n, a) = ComputeId(n, b)

-----------------------------------------------------------------------------
(* core.CommunicationIdentifierBetweenShards / ShardIdToString (AllShardId is not a shard) *)
ShardIdToString(s) == IF s = META THEN "_META" ELSE "_" \o ToString(s)
CommId(s1, s2) ==
    IF s1 = s2 THEN ShardIdToString(s1)
    ELSE IF s1 < s2 THEN ShardIdToString(s1) \o ShardIdToString(s2)
    ELSE ShardIdToString(s2) \o ShardIdToString(s1)

-----------------------------------------------------------------------------
(* Property predicates (C11), written over the observable (n, address, answer) so that the same     *)
(* operators are evaluated on the specification's answers (R1) and on records logged from the real  *)
(* coordinator (Trace_ShardCoord).                                                                   *)

\* the class "metachain system-contract address", stated declaratively (not through the helper
\* operators above): smart-contract prefix (8 zero bytes, 2 VM-type bytes), 15 zero bytes where a
\* deployer-derived part would be, and the shard-identifier suffix of the address all 0xFF
IsMetaSystemSC(n, a) ==
    /\ Len(a) >= 26
    /\ \A i \in 1..8 : a[i] = 0
    /\ \A i \in 11..25 : a[i] = 0
    /\ \A i \in (Len(a) - BytesNeed(n) + 1)..Len(a) : a[i] = 255

ValidShard(n, a, s)  == s \in 0..(n - 1) \/ (s = META /\ IsMetaSystemSC(n, a))
SameShardOK(same, sa, sb) == same <=> (sa = sb)

\* table[i][j] = identifier reported by the coordinator of shard ids[i] for destination ids[j]
CommSymmetric(tab) == \A i, j \in 1..Len(tab) : tab[i][j] = tab[j][i]
CommInjective(tab) ==
    Cardinality({tab[i][j] : i, j \in 1..Len(tab)}) = (Len(tab) * (Len(tab) + 1)) \div 2

-----------------------------------------------------------------------------
(* Address construction shared with the harness (concretisation only): a template, cut to        *)
(* len - Len(suf) bytes, followed by the suffix bytes; shorter than the suffix: the tail of it.   *)
TplLen == 40
Tpl ==
  [ user |-> [i \in 1..TplLen |-> ((i * 37 + 11) % 254) + 1],              \* no zero, no 0xFF
    zero |-> [i \in 1..TplLen |-> 0],
    sc   |-> [i \in 1..TplLen |-> IF i <= 8 THEN 0 ELSE IF i = 9 THEN 5 ELSE IF i = 10 THEN 0 ELSE ((i * 29) % 254) + 1],
    meta |-> [i \in 1..TplLen |-> IF i = 10 THEN 1 ELSE IF i <= 25 THEN 0 ELSE 255],
    metb |-> [i \in 1..TplLen |-> IF i = 9 THEN 5 ELSE IF i <= 25 THEN 0 ELSE IF i < 30 THEN 7 ELSE 255],
    m1   |-> [i \in 1..TplLen |-> IF i = 1 THEN 1 ELSE IF i = 10 THEN 1 ELSE IF i <= 25 THEN 0 ELSE 255],
    m8   |-> [i \in 1..TplLen |-> IF i = 8 THEN 9 ELSE IF i = 10 THEN 1 ELSE IF i <= 25 THEN 0 ELSE 255],
    m11  |-> [i \in 1..TplLen |-> IF i = 11 THEN 3 ELSE IF i = 10 THEN 1 ELSE IF i <= 25 THEN 0 ELSE 255],
    m25  |-> [i \in 1..TplLen |-> IF i = 25 THEN 255 ELSE IF i = 10 THEN 1 ELSE IF i <= 25 THEN 0 ELSE 255] ]
TplNames == DOMAIN Tpl

MkAddr(tpl, len, suf) ==
    IF len >= Len(suf) THEN SubSeq(Tpl[tpl], 1, len - Len(suf)) \o suf
    ELSE SubSeq(suf, Len(suf) - len + 1, Len(suf))

-----------------------------------------------------------------------------
VARIABLES q,      \* the query class (before Eval) / the concrete query (after Eval)
          res,    \* the answer (NoRes before Eval)
          hist    \* observation only

vars  == <<q, res, hist>>
cvars == <<q, res>>
NoRes == [none |-> TRUE]

QAddr(x) == MkAddr(x.tpl, x.len, x.suf)

Answer(x) ==
    IF x.k = "compute" THEN [shard |-> ComputeId(x.n, QAddr(x))]
    ELSE IF x.k = "same" THEN
         [same |-> SameShard(x.n, QAddr(x.a), QAddr(x.b)),
          sa |-> ComputeId(x.n, QAddr(x.a)), sb |-> ComputeId(x.n, QAddr(x.b))]
    ELSE \* "comm": whole table for shards 0..n-1 and META
         LET ids == [i \in 1..(x.n + 1) |-> IF i = x.n + 1 THEN META ELSE i - 1]
         IN  [ids |-> ids, tab |-> [i \in 1..(x.n + 1) |-> [j \in 1..(x.n + 1) |-> CommId(ids[i], ids[j])]]]

Init == q \in Classes /\ res = NoRes /\ hist = <<>>

Eval ==
    /\ res = NoRes
    /\ \E x \in Members(q) :
          /\ q' = x
          /\ res' = Answer(x)
          /\ hist' = Log(hist, [a |-> x.k, in |-> x, out |-> res'])

Next == Eval
Spec == Init /\ [][Next]_vars

-----------------------------------------------------------------------------
Answered == res # NoRes

Inv_C11_ValidShard ==
    (Answered /\ q.k = "compute") => ValidShard(q.n, QAddr(q), res.shard)

\* the fall-back mask is what makes the assignment total: it is always below the shard count
Inv_C11_MaskLowBelowN ==
    (Answered /\ q.k = "compute") => (MaskLow(q.n) < q.n /\ MaskHigh(q.n) >= q.n - 1 /\ MaskHigh(q.n) \div 2 < q.n)

Inv_C11_SameShard ==
    (Answered /\ q.k = "same") => SameShardOK(res.same, res.sa, res.sb)

\* determinism: every repetition of a query (other coordinator instances, other self shard ids, repeated
\* calls) gives the same answer.  Trivially true of the specification (an operator is a function); the
\* field `reps` exists only in records observed from the real coordinator (Trace_ShardCoord).
Inv_C11_Deterministic ==
    (Answered /\ q.k = "compute" /\ "reps" \in DOMAIN res) => \A i \in 1..Len(res.reps) : res.reps[i] = res.shard

Inv_C11_CommSymmetric == (Answered /\ q.k = "comm") => CommSymmetric(res.tab)
Inv_C11_CommInjective == (Answered /\ q.k = "comm") => CommInjective(res.tab)

\* the metachain is reachable (vacuity guard for ValidShard's second disjunct) -- checked as a
\* property that must be VIOLATED in the thorough tier
Never_Meta == ~(Answered /\ q.k = "compute" /\ res.shard = META)
=============================================================================
