SPECIFICATION Spec
CONSTANTS
  Classes <- MCClasses
  Members <- MCMembers
  Log <- LogLast
  Tier = "quick"
  Stride = 16
INVARIANTS Inv_C11_ValidShard Inv_C11_MaskLowBelowN Inv_C11_SameShard Inv_C11_CommSymmetric Inv_C11_CommInjective
CHECK_DEADLOCK FALSE
