---- MODULE Trace_ShardCoord ----
(* Trace validation for C11: consumes trace.ndjson recorded from the real multiShardCoordinator.     *)
(* Every event carries a query (same record shape as the specification's queries; a raw address is   *)
(* the query  tpl = "zero", len = Len(suf), suf = all bytes) and the answer observed from the code.  *)
(* The C11 invariants of ShardCoord are evaluated by TLC on every observed (query, answer).          *)
(* Strict mode additionally requires the observed answer to be the specification's answer (a         *)
(* difference there is drift, not a violation: C11 does not prescribe the assignment function).      *)
EXTENDS ShardCoord, Json, TLCExt
LogLast(h, r) == <<r>>
NoClasses == {}
NoMembers(c) == {}
TLog == ndJsonDeserialize("trace.ndjson")
VARIABLE l
tvars == <<vars, l>>
Ev == TLog[l]

Matches ==
    LET x == Ev.in  o == Ev.out  s == Answer(x) IN
    CASE x.k = "compute" -> o.shard = s.shard
      [] x.k = "same"    -> o.same = s.same /\ o.sa = s.sa /\ o.sb = s.sb
      [] x.k = "comm"    -> o.strs = s.tab /\ o.ids = s.ids

TraceInit == l = 1 /\ q = [k |-> "none"] /\ res = NoRes /\ hist = <<>>
Observe == l <= Len(TLog) /\ l' = l + 1 /\ q' = Ev.in /\ res' = Ev.out /\ hist' = <<>>
TraceNext    == Observe /\ Matches
TraceNextObs == Observe
TraceSpec    == TraceInit /\ [][TraceNext]_tvars
TraceSpecObs == TraceInit /\ [][TraceNextObs]_tvars

HighWater == TLCSet(1, IF l > TLCGet(1) THEN l ELSE TLCGet(1))
Accepted  == IF TLCGet(1) = Len(TLog) + 1 THEN TRUE ELSE PrintT("@@HW " \o ToString(TLCGet(1))) /\ FALSE
ASSUME TLCSet(1, 0)
====
