SPECIFICATION TraceSpec
CONSTANTS
  Classes <- NoClasses
  Members <- NoMembers
  Log <- LogLast
CONSTRAINT HighWater
INVARIANTS Inv_C11_ValidShard Inv_C11_Deterministic Inv_C11_SameShard Inv_C11_CommSymmetric Inv_C11_CommInjective
POSTCONDITION Accepted
CHECK_DEADLOCK FALSE
