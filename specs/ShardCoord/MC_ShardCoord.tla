---- MODULE MC_ShardCoord ----
(* Bounded query spaces for ShardCoord (exhaustive model checking + behaviour export).          *)
EXTENDS ShardCoord, Json
CONSTANTS Tier,      \* "quick" | "thorough"
          Stride     \* export sampling of the big two-byte spaces: one record in Stride

Thorough == Tier = "thorough"

\* --- all shard counts 1..256 x all last bytes (the whole one-byte space)
NSmall == 1..256
Q1 == { [k |-> "compute", n |-> n, tpl |-> t, len |-> 32, suf |-> <<b>>] :
            n \in NSmall, t \in (IF Thorough THEN {"user", "meta", "metb", "sc", "zero"} ELSE {"user", "meta"}), b \in 0..255 }

\* --- shard counts needing 2 identifier bytes: all 65536 suffixes
NBig2 == IF Thorough THEN {257, 300, 512, 1000, 4097, 32769, 65535, 65536} ELSE {257, 300, 65536}
Q2 == { [k |-> "compute", n |-> n, tpl |-> t, len |-> 32, suf |-> <<b1, b2>>] :
            n \in NBig2, t \in {"user"}, b1 \in 0..255, b2 \in 0..255 }
Q2m == { [k |-> "compute", n |-> n, tpl |-> "meta", len |-> 32, suf |-> <<b1, b2>>] :
            n \in {257, 65536}, b1 \in {0, 254, 255}, b2 \in 0..255 }

\* --- 3 and 4 identifier bytes: high bytes sampled, low byte complete
HiBytes == IF Thorough THEN {0, 1, 2, 3, 127, 128, 200, 254, 255} ELSE {0, 1, 128, 255}
NBig3 == IF Thorough THEN {65537, 100000, 1048576, 16777215, 16777216} ELSE {65537, 16777216}
Q3 == { [k |-> "compute", n |-> n, tpl |-> t, len |-> 32, suf |-> <<b1, b2, b3>>] :
            n \in NBig3, t \in {"user", "meta"}, b1 \in HiBytes, b2 \in HiBytes, b3 \in 0..255 }
NBig4 == IF Thorough THEN {16777217, 20000000, 536870913, 1073741824} ELSE {16777217, 1073741824}
Q4 == { [k |-> "compute", n |-> n, tpl |-> t, len |-> 32, suf |-> <<b1, b2, b3, b4>>] :
            n \in NBig4, t \in {"user", "meta"}, b1 \in HiBytes, b2 \in {0, 255}, b3 \in HiBytes, b4 \in 0..255 }

\* --- edges of the metachain pattern and short addresses: every template x every length x pattern suffixes
NEdge == {1, 2, 3, 5, 8, 255, 256, 257, 65536, 65537, 16777216, 16777217, 1073741824}
LensEdge == IF Thorough THEN 0..40 ELSE {0, 1, 2, 3, 4, 10, 11, 24, 25, 26, 27, 28, 31, 32, 33, 40}
SufEdge == {<<>>, <<255>>, <<254>>, <<0>>, <<255, 255>>, <<254, 255>>, <<255, 0>>, <<255, 255, 255>>,
            <<0, 255, 255>>, <<255, 255, 255, 255>>, <<255, 255, 255, 254>>, <<1, 255, 255, 255>>}
QE == { [k |-> "compute", n |-> n, tpl |-> t, len |-> len, suf |-> suf] :
            n \in NEdge, t \in TplNames, len \in LensEdge, suf \in SufEdge }

\* --- SameShard over pairs of addresses
SameAddrs == { [tpl |-> t, len |-> len, suf |-> suf] :
                 t \in {"user", "meta", "sc"}, len \in {1, 32},
                 suf \in {<<0>>, <<1>>, <<2>>, <<3>>, <<255>>, <<1, 1>>, <<0, 1>>, <<255, 255>>} }
SameNs == IF Thorough THEN {1, 2, 3, 4, 5, 7, 256, 257, 300} ELSE {1, 2, 3, 4, 257}
QS == { [k |-> "same", n |-> n, a |-> a, b |-> b] : n \in SameNs, a \in SameAddrs, b \in SameAddrs }

\* --- topic identifiers: full tables for shards 0..n-1 + META
CommNs == IF Thorough THEN {1, 2, 3, 10, 12, 24, 64, 112} ELSE {1, 2, 3, 12, 24}
QC == { [k |-> "comm", n |-> n] : n \in CommNs }

MCQueries == Q1 \cup Q2 \cup Q2m \cup Q3 \cup Q4 \cup QE \cup QS \cup QC

LogAppend(h, r) == Append(h, r)
LogLast(h, r) == <<r>>

\* behaviour export: one record per answered query; the large two-byte spaces are sampled inside TLC
Sampled(x) ==
    IF x.k = "compute" /\ Len(x.suf) = 2 /\ x.tpl = "user" /\ x.len = 32
    THEN (x.suf[1] * 256 + x.suf[2] + x.n) % Stride = 0
    ELSE TRUE
EmitEdge == Sampled(q) => PrintT("@@B " \o ToJson(hist'))
\* the templates, exported once so that the harness builds addresses from the specification's bytes
ASSUME PrintT("@@TPL " \o ToJson(Tpl))
====
