---- MODULE MC_ShardCoord ----
(* Bounded query spaces for ShardCoord (exhaustive model checking + behaviour export).               *)
(* The space is split into classes (initial states, a few thousand) whose members (<= 256 each) are   *)
(* enumerated by the Eval action, so that TLC's workers share the work and nothing large is evaluated *)
(* as a constant.                                                                                       *)
EXTENDS ShardCoord, Json, SequencesExt
CONSTANTS Tier,      \* "quick" | "thorough"
          Stride     \* export sampling of the two-byte spaces: one record in Stride

Thorough == Tier = "thorough"
Bytes == 0..255

T1      == IF Thorough THEN {"user", "meta", "metb", "sc", "zero"} ELSE {"user"}
NBig2   == IF Thorough THEN {257, 300, 512, 1000, 4097, 32769, 65535, 65536} ELSE {257, 65536}
HiBytes == IF Thorough THEN {0, 1, 2, 3, 127, 128, 200, 254, 255} ELSE {0, 1, 128, 255}
NBig3   == IF Thorough THEN {65537, 100000, 1048576, 16777215, 16777216} ELSE {65537, 16777216}
NBig4   == IF Thorough THEN {16777217, 20000000, 536870913, 1073741824} ELSE {16777217, 1073741824}
NEdge   == {1, 2, 3, 5, 8, 255, 256, 257, 65536, 65537, 16777216, 16777217, 1073741824}
LensEdge == IF Thorough THEN 0..40 ELSE {0, 1, 2, 3, 10, 11, 25, 26, 27, 32, 40}
SufEdge == {<<>>, <<255>>, <<254>>, <<0>>, <<255, 255>>, <<254, 255>>, <<255, 0>>, <<255, 255, 255>>,
            <<0, 255, 255>>, <<255, 255, 255, 255>>, <<255, 255, 255, 254>>, <<1, 255, 255, 255>>}
SameAddrs == { [tpl |-> t, len |-> len, suf |-> suf] :
                 t \in (IF Thorough THEN {"user", "meta", "sc"} ELSE {"user", "meta"}), len \in {1, 32},
                 suf \in (IF Thorough THEN {<<0>>, <<1>>, <<2>>, <<3>>, <<255>>, <<1, 1>>, <<0, 1>>, <<255, 255>>}
                          ELSE {<<0>>, <<1>>, <<3>>, <<255>>, <<1, 1>>, <<255, 255>>}) }
SameNs == IF Thorough THEN {1, 2, 3, 4, 5, 7, 256, 257, 300} ELSE {1, 2, 3, 4, 257}
CommNs == IF Thorough THEN {1, 2, 3, 10, 12, 24, 64, 112} ELSE {1, 2, 3, 12, 24}

MCClasses ==
    \* all shard counts 1..256 x all last bytes (the whole one-byte space)
    { [fam |-> "b1", n |-> n, tpl |-> t, hi |-> <<>>] : n \in 1..256, t \in T1 }
    \* shard counts needing 2 identifier bytes: all 65536 suffixes
    \cup UNION { { [fam |-> "b2", n |-> n, tpl |-> "user", hi |-> <<b1>>] :
                     b1 \in (IF Thorough THEN Bytes ELSE HiBytes \cup {2, 3, 64, 127, 129, 200, 254}) } : n \in NBig2 }
    \cup { [fam |-> "b2", n |-> n, tpl |-> "meta", hi |-> <<b1>>] : n \in {257, 65536}, b1 \in {0, 254, 255} }
    \* 3 and 4 identifier bytes: high bytes sampled, low byte complete
    \cup { [fam |-> "b3", n |-> n, tpl |-> t, hi |-> <<b1, b2>>] :
             n \in NBig3, t \in {"user", "meta"}, b1 \in HiBytes, b2 \in HiBytes }
    \cup { [fam |-> "b4", n |-> n, tpl |-> t, hi |-> <<b1, b2, b3>>] :
             n \in NBig4, t \in {"user", "meta"}, b1 \in HiBytes, b2 \in {0, 255}, b3 \in HiBytes }
    \* edges of the metachain pattern and short addresses: every template x every length x pattern suffixes
    \cup { [fam |-> "edge", n |-> n, tpl |-> t, len |-> len] : n \in NEdge, t \in TplNames, len \in LensEdge }
    \* SameShard over pairs of addresses
    \cup { [fam |-> "same", n |-> n, a |-> a] : n \in SameNs, a \in SameAddrs }
    \* topic identifiers: full tables for shards 0..n-1 + META
    \cup { [fam |-> "comm", n |-> n] : n \in CommNs }

MCMembers(c) ==
    CASE c.fam \in {"b1", "b2", "b3", "b4"} ->
           { [k |-> "compute", n |-> c.n, tpl |-> c.tpl, len |-> 32, suf |-> Append(c.hi, b)] : b \in Bytes }
      [] c.fam = "edge" ->
           { [k |-> "compute", n |-> c.n, tpl |-> c.tpl, len |-> c.len, suf |-> s] : s \in SufEdge }
      [] c.fam = "same" -> { [k |-> "same", n |-> c.n, a |-> c.a, b |-> b] : b \in SameAddrs }
      [] c.fam = "comm" -> { [k |-> "comm", n |-> c.n] }

LogAppend(h, r) == Append(h, r)
LogLast(h, r) == <<r>>

\* behaviour export: one record per answered query; the large two-byte spaces are sampled inside TLC
Sampled(x) ==
    IF x.k = "compute" /\ x.len = 32 /\ Len(x.suf) >= 1 /\ ~(x.tpl = "user" /\ Len(x.suf) = 1)
    THEN (FoldLeft(LAMBDA acc, b : (acc * 31 + b) % 65521, x.n % 65521, x.suf)) % Stride = 0
         \/ (x.tpl # "user" /\ x.suf[Len(x.suf)] \in {0, 254, 255})
    ELSE TRUE
EmitEdge == Sampled(q') => PrintT("@@B " \o ToJson(hist'))
\* the templates, exported so that the harness builds addresses from the specification's bytes
ASSUME PrintT("@@TPL " \o ToJson(Tpl))
====
