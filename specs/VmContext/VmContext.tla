------------------------------ MODULE VmContext ------------------------------
(***************************************************************************)
(* The system-VM execution context vm/systemSmartContracts/eei.go           *)
(* (vmContext) during ONE transaction: pending storage writes, output       *)
(* accounts (balance deltas + output transfers) and the nested-call         *)
(* machinery ExecuteOnDestContext / DeploySystemSC with                     *)
(* copyToNewContext / softCleanCache / mergeContext transcribed as coded.   *)
(*                                                                          *)
(* Property C40: after an inner call that returns a non-Ok code none of     *)
(* its storage writes or transfers are visible, so a caller that continues  *)
(* works on the state as it was before the call.                            *)
(*                                                                          *)
(* The host object (fields scAddress, storageUpdate, outputAccounts) is     *)
(* <<sc, upd, acc>>; `saved` is the stack of currContext copies held by     *)
(* the pending ExecuteOnDestContext / DeploySystemSC activations.           *)
(* Deviations of the code from the property are named and guarded by the    *)
(* constant KnownDefects, so the same module is the code as it is           *)
(* (all deviations on) and the intended design (KnownDefects = {}).         *)
(***************************************************************************)
EXTENDS Integers, Sequences, FiniteSets, TLC

CONSTANTS
    SCs,          \* addresses that have a contract registered in the container
    Others,       \* other addresses (transaction sender, an address without contract)
    Keys,         \* storage keys
    Vals,         \* values a contract may write (0 = empty value, i.e. a delete)
    BaseVals,     \* values committed storage (blockchain hook) may hold before the transaction
    CallValues,   \* call values of nested calls
    Amounts,      \* values of explicit Transfer calls
    Codes,        \* return codes a contract may return: 0 = vmcommon.Ok, every other value is a failure
                  \* (vmcommon.ReturnCode 1..12: FunctionNotFound, FunctionWrongSignature, ContractNotFound, UserError,
                  \* OutOfGas, AccountCollision, OutOfFunds, CallStackOverFlow, ContractInvalid, ExecutionFailed,
                  \* UpgradeFailed, SimulateFailed); the property treats all failures alike
    MaxDepth,     \* maximum number of pending nested activations
    MaxTransfers, \* bound on the number of output-transfer records created in one transaction
    Deploys,      \* BOOLEAN: DeploySystemSC is part of Next
    Balances,     \* BOOLEAN: GetBalance (creates output accounts) is part of Next
    KnownDefects, \* subset of AllDefects: deviations of the code that exists
    Log(_, _)     \* observation: Append for behaviour export, keep-last otherwise

AllDefects == {"SharedStorageOnFailure", "CallValueKeptOnFailure", "DeployNotIsolated"}

VARIABLES
    base,   \* slot -> value in committed storage (read through blockChainHook.GetStorageData)
    upd,    \* host.storageUpdate: slot -> value, partial (DOMAIN = slots written in this transaction)
    sc,     \* host.scAddress
    acc,    \* host.outputAccounts: address -> [d: balance delta, tr: sequence of transfer values], partial
    saved,  \* pending activations, innermost last
    nt,     \* number of output-transfer records created so far (bound only)
    ret,    \* "none" | "ok" | "fail": what the last step was
    want,   \* after a failed inner call: the state the property demands (the pre-call snapshot)
    hist    \* observation only

vars  == <<base, upd, sc, acc, saved, nt, ret, want, hist>>
cvars == <<base, upd, sc, acc, saved, nt, ret, want>>

Addrs == SCs \cup Others
Slot(a, k) == a \o "|" \o k
Slots == {Slot(a, k) : a \in SCs, k \in Keys}
Empty == <<>>                       \* the empty function / map

\* vmContext.GetStorageFromAddress: pending write, else committed storage, else empty
View(u, s) == IF s \in DOMAIN u THEN u[s] ELSE IF s \in DOMAIN base THEN base[s] ELSE 0

NoAcc == [d |-> 0, tr |-> <<>>]
Acc(ac, a) == IF a \in DOMAIN ac THEN ac[a] ELSE NoAcc
\* what an account contributes to the final VMOutput: balance delta and the value-carrying transfers
Eff(ac, a) == [d |-> Acc(ac, a).d, tr |-> SelectSeq(Acc(ac, a).tr, LAMBDA x : x # 0)]

Put(f, x, y) == [z \in DOMAIN f \cup {x} |-> IF z = x THEN y ELSE f[z]]
Touch(ac, a) == IF a \in DOMAIN ac THEN ac ELSE Put(ac, a, NoAcc)

\* vmContext.Transfer: creates both accounts, moves the delta, appends one output transfer to dest
DoTransfer(ac, dest, sender, v) ==
    LET a1 == Touch(Touch(ac, sender), dest)
        a2 == [a1 EXCEPT ![sender].d = @ - v]
    IN  [a2 EXCEPT ![dest].d = @ + v, ![dest].tr = Append(@, v)]

\* vmcommon.OutputAccount.MergeOutputAccounts (left := left merged with right), as coded:
\* deltas add up; of the right transfers only those at positions beyond Len(left.tr) are appended
MergeAcc(l, r) ==
    [d |-> l.d + r.d,
     tr |-> IF Len(r.tr) > Len(l.tr) THEN l.tr \o SubSeq(r.tr, Len(l.tr) + 1, Len(r.tr)) ELSE l.tr]
\* vmContext.mergeContext, the outputAccounts part: every account of the saved context is merged
\* into the host's account of the same address (created empty when missing)
MergeCtx(left, right) ==
    [a \in DOMAIN left \cup DOMAIN right |->
        IF a \in DOMAIN right THEN MergeAcc(Acc(left, a), right[a]) ELSE left[a]]

Depth == Len(saved)
Top == saved[Len(saved)]

NoWant == [upd |-> Empty, acc |-> Empty, acccv |-> Empty, sc |-> "", on |-> FALSE]

\* projected state, logged after every step and compared with the real vmContext
StorView(u) == [a \in SCs |-> [k \in Keys |-> View(u, Slot(a, k))]]
OwnView(u, s) == [k \in Keys |-> View(u, Slot(s, k))]
EffView(ac) == [a \in Addrs |-> Eff(ac, a)]
Proj(u, s, ac, sv) == [sc |-> s, depth |-> Len(sv), stor |-> StorView(u), own |-> OwnView(u, s), acc |-> ac]
WantProj(w) == [stor |-> StorView(w.upd), own |-> OwnView(w.upd, w.sc), acc |-> EffView(w.acc),
                acccv |-> EffView(w.acccv)]

Rec(a, in, out) == [a |-> a, in |-> in, out |-> out, st |-> Proj(upd', sc', acc', saved')]

-----------------------------------------------------------------------------
Init ==
    /\ base \in [Slots -> BaseVals]
    /\ upd = Empty /\ saved = <<>> /\ nt = 0 /\ ret = "none" /\ want = NoWant
    /\ sc \in SCs
    \* systemVM.RunSmartContractCall: CleanCache, SetSCAddress, AddTxValueToSmartContract(0)
    /\ acc = Put(Empty, sc, NoAcc)
    /\ hist = <<[a |-> "New", in |-> [top |-> sc, base |-> [a \in SCs |-> [k \in Keys |-> base[Slot(a, k)]]]],
                 out |-> [x |-> 0], st |-> Proj(upd, sc, acc, saved)]>>

\* SetStorageForAddress (SetStorage when a = sc)
Set(a, k, v) ==
    /\ upd' = Put(upd, Slot(a, k), v)
    /\ ret' = "none" /\ want' = NoWant
    /\ UNCHANGED <<base, sc, acc, saved, nt>>
    /\ hist' = Log(hist, Rec("Set", [addr |-> a, k |-> k, v |-> v], [x |-> 0]))

Transfer(dest, sender, v) ==
    /\ nt < MaxTransfers
    /\ acc' = DoTransfer(acc, dest, sender, v) /\ nt' = nt + 1
    /\ ret' = "none" /\ want' = NoWant
    /\ UNCHANGED <<base, upd, sc, saved>>
    /\ hist' = Log(hist, Rec("Transfer", [dest |-> dest, sender |-> sender, v |-> v], [x |-> 0]))

\* GetBalance of an address that has no output account yet creates one (delta 0) as a side effect
GetBalance(a) ==
    /\ a \notin DOMAIN acc
    /\ acc' = Touch(acc, a)
    /\ ret' = "none" /\ want' = NoWant
    /\ UNCHANGED <<base, upd, sc, saved, nt>>
    /\ hist' = Log(hist, Rec("GetBalance", [addr |-> a], [x |-> 0]))

Frame(via, dest, sender, v) ==
    [sc |-> sc, acc |-> DoTransfer(acc, dest, sender, v), snapUpd |-> upd, snapAcc |-> acc,
     via |-> via, dest |-> dest, sender |-> sender, v |-> v]

\* ExecuteOnDestContext up to contract.Execute: the call value is transferred in the CALLER's
\* accounts, the host context is saved (copyToNewContext shares the storageUpdate map), the
\* callee starts with empty output accounts (softCleanCache) and its own scAddress
Call(dest, sender, v) ==
    /\ Depth < MaxDepth /\ nt < MaxTransfers
    /\ saved' = Append(saved, Frame("exec", dest, sender, v))
    /\ acc' = Empty /\ sc' = dest /\ nt' = nt + 1
    /\ ret' = "none" /\ want' = NoWant
    /\ UNCHANGED <<base, upd>>
    /\ hist' = Log(hist, Rec("Call", [dest |-> dest, sender |-> sender, v |-> v], [x |-> 0]))

\* DeploySystemSC up to contract.Execute: same transfer, but NO new context: the init function
\* runs on the caller's output accounts
Deploy(dest, v) ==
    /\ Depth < MaxDepth /\ nt < MaxTransfers
    /\ saved' = Append(saved, Frame("deploy", dest, sc, v))
    /\ acc' = DoTransfer(acc, dest, sc, v) /\ sc' = dest /\ nt' = nt + 1
    /\ ret' = "none" /\ want' = NoWant
    /\ UNCHANGED <<base, upd>>
    /\ hist' = Log(hist, Rec("Deploy", [dest |-> dest, v |-> v], [x |-> 0]))

WantOf(f) == [upd |-> f.snapUpd, acc |-> f.snapAcc, acccv |-> f.acc, sc |-> f.sc, on |-> TRUE]

\* the callee returns `code`: rest of ExecuteOnDestContext / DeploySystemSC including the deferred mergeContext.
\* The code distinguishes Ok (0) from "anything else"; no failure code is special.
Return(code) ==
    /\ saved # <<>>
    /\ LET f == Top
           ok == code = 0 IN
       /\ saved' = SubSeq(saved, 1, Len(saved) - 1)
       /\ sc' = f.sc
       /\ IF f.via = "exec"
          THEN IF ok
               THEN acc' = MergeCtx(acc, f.acc) /\ upd' = upd
               ELSE \* "all changes must be deleted": outputAccounts := fresh map, then merge of the saved context
                    /\ acc' = IF "CallValueKeptOnFailure" \in KnownDefects THEN MergeCtx(Empty, f.acc) ELSE f.snapAcc
                    \* storageUpdate is the map shared with the saved context: mergeContext changes nothing
                    /\ upd' = IF "SharedStorageOnFailure" \in KnownDefects THEN upd ELSE f.snapUpd
          ELSE IF ok \/ "DeployNotIsolated" \in KnownDefects
               THEN acc' = acc /\ upd' = upd           \* addContractDeployToOutput touches dest (already present)
               ELSE acc' = f.snapAcc /\ upd' = f.snapUpd
       /\ ret' = IF ok THEN "ok" ELSE "fail"
       /\ want' = IF ok THEN NoWant ELSE WantOf(f)
       /\ UNCHANGED <<base, nt>>
       /\ hist' = Log(hist, Rec("Return", [code |-> code, ok |-> ok, via |-> f.via, depth |-> Len(saved)],
                                IF ok THEN [x |-> 0] ELSE [want |-> WantProj(WantOf(f))]))

\* ExecuteOnDestContext to an address without a contract: GetContract fails after the transfer, the
\* context copy and softCleanCache; the deferred mergeContext restores the caller's accounts
CallMissing(dest, sender, v) ==
    /\ nt < MaxTransfers
    /\ LET f == Frame("exec", dest, sender, v) IN
       /\ acc' = IF "CallValueKeptOnFailure" \in KnownDefects THEN MergeCtx(Empty, f.acc) ELSE acc
       /\ ret' = "fail" /\ want' = WantOf(f) /\ nt' = nt + 1
       /\ UNCHANGED <<base, upd, sc, saved>>
       /\ hist' = Log(hist, Rec("CallMissing", [dest |-> dest, sender |-> sender, v |-> v],
                                [want |-> WantProj(WantOf(f))]))

NextOther ==
    \/ \E k \in Keys, v \in Vals : Set(sc, k, v)
    \/ \E d \in Addrs, v \in Amounts : Transfer(d, sc, v)
    \/ (Balances /\ \E a \in Addrs : GetBalance(a))
    \/ \E d \in SCs, v \in CallValues : Call(d, sc, v)
    \/ \E d \in Others, v \in CallValues : CallMissing(d, sc, v)
    \/ (Deploys /\ \E d \in SCs, v \in CallValues : Deploy(d, v))

Next == NextOther \/ \E code \in Codes : Return(code)

Spec == Init /\ [][Next]_vars

-----------------------------------------------------------------------------
(* Property C40, evaluated in the state right after a failed inner call returned to its caller *)

Failed == ret = "fail" /\ want.on

\* no storage write of the failed call (or of anything it called) is visible: every slot reads as before the call
Inv_C40_Storage ==
    Failed => \A s \in DOMAIN upd \cup DOMAIN want.upd \cup DOMAIN base : View(upd, s) = View(want.upd, s)

\* no transfer (or other account change) made inside the failed call is visible: the output accounts are the
\* caller's pre-call accounts, at most with the call-value transfer of this very call (judged separately below)
Inv_C40_OutputAccounts ==
    Failed => \/ \A a \in DOMAIN acc \cup DOMAIN want.acc : Eff(acc, a) = Eff(want.acc, a)
              \/ \A a \in DOMAIN acc \cup DOMAIN want.acccv : Eff(acc, a) = Eff(want.acccv, a)

\* the value sent with the failed call is back with the caller
Inv_C40_CallValue ==
    Failed => \A a \in DOMAIN acc \cup DOMAIN want.acc : Eff(acc, a) = Eff(want.acc, a)

\* the caller continues under its own address (GetStorage(key) reads its own storage again)
Inv_C40_Context == Failed => sc = want.sc

TypeOK ==
    /\ DOMAIN upd \subseteq Slots /\ DOMAIN acc \subseteq Addrs
    /\ Len(saved) <= MaxDepth /\ ret \in {"none", "ok", "fail"}
    /\ \A a \in DOMAIN acc : acc[a].d \in Int
=============================================================================
