---- MODULE MC_VmContext ----
EXTENDS VmContext, Json
CONSTANT StepBound
LogAppend(h, r) == Append(h, r)
LogLast(h, r) == <<r>>
LogNone(h, r) == <<>>     \* exhaustive checking: the observation record is never evaluated
AllOn == AllDefects
NoneOn == {}
OnlyStorage == {"SharedStorageOnFailure", "DeployNotIsolated"}
\* behaviour export (see specs/CapLRU/MC_CapLRU.tla): one behaviour per transition of the abstract graph
GenNext  == Len(hist) < StepBound /\ Next
GenSpec  == Init /\ [][GenNext]_vars
EmitEdge == PrintT("@@B " \o ToJson(hist'))
EmitFull == (Len(hist') = StepBound) => PrintT("@@B " \o ToJson(hist'))
\* transition cover restricted to the transitions the property talks about: failed inner calls
EmitFailEdge == ("want" \in DOMAIN hist'[Len(hist')].out) => PrintT("@@B " \o ToJson(hist'))
\* only behaviours that contain a failed inner call are worth replaying in the sampled mode
HasFail(h) == \E i \in 1..Len(h) : h[i].a \in {"Return", "CallMissing"} /\ "want" \in DOMAIN h[i].out
EmitFullFail == (Len(hist') = StepBound /\ HasFail(hist')) => PrintT("@@B " \o ToJson(hist'))
====
