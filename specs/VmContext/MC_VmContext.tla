---- MODULE MC_VmContext ----
EXTENDS VmContext, Json
CONSTANT StepBound
LogAppend(h, r) == Append(h, r)
LogLast(h, r) == <<r>>
LogNone(h, r) == <<>>     \* exhaustive checking: the observation record is never evaluated
AllOn == AllDefects
NoneOn == {}
OnlyStorage == {"SharedStorageOnFailure", "DeployNotIsolated"}
\* behaviour export (see specs/CapLRU/MC_CapLRU.tla): one behaviour per transition of the abstract graph
AllCodes == 0..12
TwoCodes == {0, 4}            \* Ok and UserError: enough where the code does not influence the successor state
\* behaviour export with ONE failure code per failing transition, rotating over all twelve codes with the state, so
\* that the volume stays that of a single code while every code is exercised in many different situations
FailSeq == <<1, 2, 3, 4, 5, 6, 7, 8, 9, 10, 11, 12>>
RotCode == FailSeq[1 + ((nt + Len(saved) + Cardinality(DOMAIN upd) + Cardinality(DOMAIN acc) + Len(hist)) % 12)]
GenNextRot == Len(hist) < StepBound /\ (NextOther \/ Return(0) \/ Return(RotCode))
GenSpecRot == Init /\ [][GenNextRot]_vars
GenNext  == Len(hist) < StepBound /\ Next
GenSpec  == Init /\ [][GenNext]_vars
EmitEdge == PrintT("@@B " \o ToJson(hist'))
EmitFull == (Len(hist') = StepBound) => PrintT("@@B " \o ToJson(hist'))
\* transition cover restricted to the transitions the property talks about: failed inner calls
EmitFailEdge == ("want" \in DOMAIN hist'[Len(hist')].out) => PrintT("@@B " \o ToJson(hist'))
\* only behaviours that contain a failed inner call are worth replaying in the sampled mode
HasFail(h) == \E i \in 1..Len(h) : h[i].a \in {"Return", "CallMissing"} /\ "want" \in DOMAIN h[i].out
EmitFullFail == (Len(hist') = StepBound /\ HasFail(hist')) => PrintT("@@B " \o ToJson(hist'))
====
