---- MODULE Trace_VmContext ----
(* Trace validation for C40.  trace.ndjson is recorded from the REAL vmContext through a recording EEI        *)
(* decorator (harness/cmd/vh-vmcontext/record.go) while stub contracts run random scripts or while the real   *)
(* validator / staking / delegation contracts call each other.  Addresses, keys and values are interned.      *)
(* Every event is the VmContext action of the same name (code as it is: KnownDefects = AllDefects) and the    *)
(* logged observation (GetStorageFromAddress of every touched slot, output accounts from CreateVMOutput) must *)
(* equal the specification's state.  The four clauses of C40 are evaluated by TLC in the state right after    *)
(* every failed inner call; a false clause is reported as a mark <clause>:<via>:<call site> with the trace    *)
(* line instead of stopping, so that the whole trace is judged and every leaking call site is listed.         *)
EXTENDS VmContext, Json, TLCExt
LogLast(h, r) == <<r>>
LogNone(h, r) == <<>>
AllOn == AllDefects
NoneOn == {}
StorageFixed == {"CallValueKeptOnFailure", "DeployNotIsolated"}
TLog == ndJsonDeserialize("trace.ndjson")
VARIABLE l
tvars == <<vars, l>>
Ev == TLog[l]
IsEvent(name) == l <= Len(TLog) /\ Ev.a = name /\ l' = l + 1

AccEq(a, b) == DOMAIN a = DOMAIN b /\ \A x \in DOMAIN a : a[x].d = b[x].d /\ a[x].tr = b[x].tr
\* the observation logged with the event equals the specification's next state
ViewNext(s) == IF s \in DOMAIN upd' THEN upd'[s] ELSE IF s \in DOMAIN base' THEN base'[s] ELSE 0
Matches == /\ \A s \in DOMAIN Ev.st.stor : ViewNext(s) = Ev.st.stor[s]
           /\ AccEq(acc', Ev.st.acc)

TraceInit == /\ l = 1 /\ base = Empty /\ upd = Empty /\ sc = "" /\ acc = Empty /\ saved = <<>> /\ nt = 0
             /\ ret = "none" /\ want = NoWant /\ hist = <<>>

\* a new transaction: systemVM.RunSmartContractCall (CleanCache, SetSCAddress, AddTxValueToSmartContract)
TNew == /\ IsEvent("New")
        /\ base' = Ev.in.base /\ upd' = Empty /\ sc' = Ev.in.top /\ saved' = <<>> /\ nt' = 0
        /\ acc' = Put(Empty, Ev.in.top, [d |-> Ev.in.txv, tr |-> <<>>])
        /\ ret' = "none" /\ want' = NoWant /\ hist' = <<>>
        /\ Matches
TSet      == IsEvent("Set") /\ Set(Ev.in.addr, Ev.in.k, Ev.in.v) /\ Matches
TTransfer == IsEvent("Transfer") /\ Transfer(Ev.in.dest, Ev.in.sender, Ev.in.v) /\ Matches
TBalance  == IsEvent("GetBalance") /\ GetBalance(Ev.in.addr) /\ Matches
TCall     == IsEvent("Call") /\ Call(Ev.in.dest, Ev.in.sender, Ev.in.v) /\ Matches
TDeploy   == IsEvent("Deploy") /\ Deploy(Ev.in.dest, Ev.in.v) /\ Matches
TReturn   == IsEvent("Return") /\ Return(Ev.in.code) /\ Top.via = Ev.in.via /\ Matches
TMissing  == IsEvent("CallMissing") /\ CallMissing(Ev.in.dest, Ev.in.sender, Ev.in.v) /\ Matches
TraceNext == TNew \/ TSet \/ TTransfer \/ TBalance \/ TCall \/ TDeploy \/ TReturn \/ TMissing
TraceSpec == TraceInit /\ [][TraceNext]_tvars

\* ---- observation-only variant: nothing is predicted.  The state is bound to what was observed (the observed
\* view of every touched slot becomes the overlay, the observed accounts become acc); only the bookkeeping of
\* pending activations follows the events, so that after a failed inner call `want` is the state OBSERVED right
\* before that call.  Used when the strict pass rejects a trace (code changed): the property is still evaluated
\* by TLC on every observed state.
ObsState == /\ upd' = [s \in DOMAIN Ev.st.stor |-> Ev.st.stor[s]] /\ acc' = Ev.st.acc
            /\ hist' = <<>> /\ UNCHANGED <<base, nt>>
ObsPlain == /\ (IsEvent("Set") \/ IsEvent("Transfer") \/ IsEvent("GetBalance"))
            /\ ObsState /\ ret' = "none" /\ want' = NoWant /\ UNCHANGED <<sc, saved>>
ObsCall  == /\ (IsEvent("Call") \/ IsEvent("Deploy"))
            /\ saved' = Append(saved, Frame(IF Ev.a = "Call" THEN "exec" ELSE "deploy", Ev.in.dest,
                                             IF Ev.a = "Call" THEN Ev.in.sender ELSE sc, Ev.in.v))
            /\ sc' = Ev.in.dest /\ ObsState /\ ret' = "none" /\ want' = NoWant
ObsReturn == /\ IsEvent("Return") /\ saved # <<>>
             /\ saved' = SubSeq(saved, 1, Len(saved) - 1) /\ sc' = Top.sc /\ ObsState
             /\ ret' = IF Ev.in.code = 0 THEN "ok" ELSE "fail"
             /\ want' = IF Ev.in.code = 0 THEN NoWant ELSE WantOf(Top)
ObsMissing == /\ IsEvent("CallMissing") /\ ObsState /\ ret' = "fail"
              /\ want' = WantOf(Frame("exec", Ev.in.dest, Ev.in.sender, Ev.in.v)) /\ UNCHANGED <<sc, saved>>
ObsNew == /\ IsEvent("New")
          /\ base' = Ev.in.base /\ upd' = [s \in DOMAIN Ev.st.stor |-> Ev.st.stor[s]] /\ acc' = Ev.st.acc
          /\ sc' = Ev.in.top /\ saved' = <<>> /\ nt' = 0 /\ ret' = "none" /\ want' = NoWant /\ hist' = <<>>
ObsSpec == TraceInit /\ [][ObsNew \/ ObsPlain \/ ObsCall \/ ObsReturn \/ ObsMissing]_tvars

\* ---- the property, evaluated on the state reached by the event at line l - 1
Prev == TLog[l - 1]
Mark(clause) == PrintT("@@LEAK:" \o clause \o ":" \o Prev.in.api \o ":" \o Prev.in.site \o " " \o ToString(l - 1))
Report ==
    /\ Inv_C40_Storage \/ Mark("Storage")
    /\ Inv_C40_OutputAccounts \/ Mark("OutputAccounts")
    /\ (Inv_C40_CallValue \/ ~Inv_C40_OutputAccounts) \/ Mark("CallValue")
    /\ Inv_C40_Context \/ Mark("Context")

HighWater == Report /\ TLCSet(1, IF l > TLCGet(1) THEN l ELSE TLCGet(1))
Accepted  == IF TLCGet(1) = Len(TLog) + 1 THEN TRUE ELSE PrintT("@@HW " \o ToString(TLCGet(1))) /\ FALSE
ASSUME TLCSet(1, 0)
====
