SPECIFICATION ObsSpec
CONSTANTS
  SCs = {}
  Others = {}
  Keys = {}
  Vals = {}
  BaseVals = {}
  CallValues = {}
  Amounts = {}
  Codes = {}
  MaxDepth = 1000
  MaxTransfers = 1000000
  Deploys = FALSE
  Balances = FALSE
  KnownDefects <- AllOn
  Log <- LogNone
CONSTRAINT HighWater
POSTCONDITION Accepted
CHECK_DEADLOCK FALSE
