SPECIFICATION Spec
CONSTANTS
  SCs = {"A", "B"}
  Others = {"U"}
  Keys = {"k1", "k2"}
  Vals = {0, 1}
  BaseVals = {0, 2}
  CallValues = {0, 3}
  Amounts = {1}
  MaxDepth = 2
  MaxTransfers = 3
  Deploys = FALSE
  Balances = FALSE
  KnownDefects <- NoneOn
  Log <- LogLast
  StepBound = 0
VIEW cvars
INVARIANTS TypeOK Inv_C40_Storage Inv_C40_InnerTransfers Inv_C40_CallValue Inv_C40_Context
CHECK_DEADLOCK FALSE
