SPECIFICATION Spec
CONSTANTS
  SCs = {"A", "B"}
  Others = {"U"}
  Keys = {"k1", "k2"}
  Vals = {0, 1}
  BaseVals = {2}
  CallValues = {0, 3}
  Amounts = {1}
  Codes <- AllCodes
  MaxDepth = 2
  MaxTransfers = 2
  Deploys = FALSE
  Balances = FALSE
  KnownDefects <- NoneOn
  Log <- LogNone
  StepBound = 0
VIEW cvars
INVARIANTS TypeOK Inv_C40_Storage Inv_C40_OutputAccounts Inv_C40_CallValue Inv_C40_Context
CHECK_DEADLOCK FALSE
