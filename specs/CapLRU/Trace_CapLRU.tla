---- MODULE Trace_CapLRU ----
(* Trace validation: consumes trace.ndjson recorded from the real capacityLRU / lruCache and    *)
(* accepts it iff every event is the corresponding CapLRU action with the logged result and     *)
(* the logged projected state.  Many traces are concatenated; a "New" event starts each one.    *)
EXTENDS CapLRU, Json, TLCExt
LogLast(h, r) == <<r>>
TLog == ndJsonDeserialize("trace.ndjson")
VARIABLE l
tvars == <<vars, l>>
Ev == TLog[l]
IsEvent(name) == l <= Len(TLog) /\ Ev.a = name /\ l' = l + 1
Matches == (\A f \in DOMAIN Ev.out : hist'[1].out[f] = Ev.out[f]) /\ hist'[1].st = Ev.st

TraceInit ==
    /\ l = 1 /\ order = <<>> /\ sz = <<>> /\ val = <<>> /\ maxItems = 1 /\ maxBytes = 1 /\ hist = <<>>
TNew ==
    /\ IsEvent("New")
    /\ order' = <<>> /\ sz' = <<>> /\ val' = <<>>
    /\ maxItems' = Ev.in.items /\ maxBytes' = Ev.in.bytes
    /\ hist' = <<[a |-> "New", in |-> Ev.in, out |-> Ev.out, st |-> Ev.st]>>
    /\ Ev.st.keys = <<>> /\ Ev.st.bytes = 0
TPut    == IsEvent("Put") /\ Put(Ev.in.k, Ev.in.v, Ev.in.s) /\ Matches
TPutIf  == IsEvent("PutIfMissing") /\ PutIfMissing(Ev.in.k, Ev.in.v, Ev.in.s) /\ Matches
TGet    == IsEvent("Get") /\ Get(Ev.in.k) /\ Matches
TPeek   == IsEvent("Peek") /\ Peek(Ev.in.k) /\ Matches
TRemove == IsEvent("Remove") /\ Remove(Ev.in.k) /\ Matches
TPurge  == IsEvent("Purge") /\ Purge /\ Matches
TraceNext == TNew \/ TPut \/ TPutIf \/ TGet \/ TPeek \/ TRemove \/ TPurge
TraceSpec == TraceInit /\ [][TraceNext]_tvars

\* high-water mark of consumed lines (register 1), needs -workers 1
HighWater == TLCSet(1, IF l > TLCGet(1) THEN l ELSE TLCGet(1))
Accepted  == IF TLCGet(1) = Len(TLog) + 1 THEN TRUE ELSE PrintT("@@HW " \o ToString(TLCGet(1))) /\ FALSE
ASSUME TLCSet(1, 0)
====
