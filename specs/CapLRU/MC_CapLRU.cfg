SPECIFICATION Spec
CONSTANTS
  Keys = {"a","b","c"}
  Sizes <- MCSizes
  Vals = {1, 2}
  ItemLimits = {1, 2, 3}
  ByteLimits = {1, 3, 4}
  Log <- LogLast
  Depth = 0
VIEW cvars
INVARIANTS TypeOK Inv_C28_Bounded
PROPERTIES Act_C28_KeepsNewest Act_C28_EvictsOldest
CHECK_DEADLOCK FALSE
