------------------------------- MODULE CapLRU -------------------------------
(***************************************************************************)
(* Reference model of storage/lrucache/capacity.capacityLRU (and of the     *)
(* lruCache wrapper built by NewCacheWithSizeInBytes): a least-recently-    *)
(* used cache with an item limit and a byte limit that never evicts the     *)
(* most recent item.  Property C28: the real cache *is* this machine.       *)
(*                                                                          *)
(* One action per public call (each call is one critical section under      *)
(* capacityLRU.lock).  The configuration is chosen in Init so that one TLC  *)
(* run covers every configuration of the constant sets.                     *)
(***************************************************************************)
EXTENDS Integers, Sequences, FiniteSets, TLC

CONSTANTS Keys,        \* set of keys (strings)
          Sizes,       \* set of item sizes (may contain negative sizes: rejected by the code)
          Vals,        \* set of values
          ItemLimits,  \* candidate item limits (>= 1)
          ByteLimits,  \* candidate byte limits (>= 1)
          Log(_, _)    \* how the observation variable is extended: Append (behaviour export) or
                       \* keep-last (trace validation, model checking)

VARIABLES order,   \* sequence of keys, oldest first, newest last
          sz,      \* key -> size  (domain = keys present)
          val,     \* key -> value
          maxItems, maxBytes,
          hist     \* observation only: sequence of step records (behaviour export)

vars  == <<order, sz, val, maxItems, maxBytes, hist>>
cvars == <<order, sz, val, maxItems, maxBytes>>     \* VIEW for exhaustive checking

Present == {order[i] : i \in 1..Len(order)}

RECURSIVE SumSeq(_, _)
SumSeq(s, f) == IF s = <<>> THEN 0 ELSE f[Head(s)] + SumSeq(Tail(s), f)
Bytes == SumSeq(order, sz)

Without(s, k) == SelectSeq(s, LAMBDA x : x # k)

ShouldEvict(o, f) == Len(o) # 1 /\ (Len(o) > maxItems \/ SumSeq(o, f) > maxBytes)

RECURSIVE Evict(_, _)
Evict(o, f) == IF o # <<>> /\ ShouldEvict(o, f) THEN Evict(Tail(o), f) ELSE o

Restrict(f, S) == [x \in S |-> f[x]]
SeqSet(s) == {s[i] : i \in 1..Len(s)}

Rec(a, in, out, o, f) ==
    [a |-> a, in |-> in, out |-> out,
     st |-> [keys |-> o, bytes |-> SumSeq(o, f)]]

Init ==
    /\ order = <<>> /\ sz = <<>> /\ val = <<>>
    /\ maxItems \in ItemLimits /\ maxBytes \in ByteLimits
    /\ hist = <<[a |-> "New", in |-> [items |-> maxItems, bytes |-> maxBytes], out |-> [x |-> 0],
                 st |-> [keys |-> <<>>, bytes |-> 0]]>>

\* state after inserting/updating k with (v, s) and evicting
PutState(k, v, s) ==
    LET o1 == Append(Without(order, k), k)
        f1 == [x \in Present \cup {k} |-> IF x = k THEN s ELSE sz[x]]
        o2 == Evict(o1, f1)
    IN  [o |-> o2, f |-> Restrict(f1, SeqSet(o2)),
         v |-> [x \in SeqSet(o2) |-> IF x = k THEN v ELSE val[x]],
         \* named deviation (code as it is): an update of an existing key evicts inside
         \* update()/adjustSize() and AddSized then reports "no eviction" (flag not part of C28)
         ev |-> (k \notin Present) /\ Len(o2) < Len(o1)]

\* AddSized / lruCache.Put
Put(k, v, s) ==
    IF s < 0
    THEN /\ UNCHANGED cvars
         /\ hist' = Log(hist, Rec("Put", [k |-> k, v |-> v, s |-> s], [evicted |-> FALSE], order, sz))
    ELSE LET r == PutState(k, v, s) IN
         /\ order' = r.o /\ sz' = r.f /\ val' = r.v
         /\ UNCHANGED <<maxItems, maxBytes>>
         /\ hist' = Log(hist, Rec("Put", [k |-> k, v |-> v, s |-> s], [evicted |-> r.ev], r.o, r.f))

\* AddSizedIfMissing / lruCache.HasOrAdd
PutIfMissing(k, v, s) ==
    IF s < 0 \/ k \in Present
    THEN /\ UNCHANGED cvars
         /\ hist' = Log(hist, Rec("PutIfMissing", [k |-> k, v |-> v, s |-> s],
                                      [has |-> (s >= 0 /\ k \in Present), evicted |-> FALSE], order, sz))
    ELSE LET r == PutState(k, v, s) IN
         /\ order' = r.o /\ sz' = r.f /\ val' = r.v
         /\ UNCHANGED <<maxItems, maxBytes>>
         /\ hist' = Log(hist, Rec("PutIfMissing", [k |-> k, v |-> v, s |-> s],
                                      [has |-> FALSE, evicted |-> r.ev], r.o, r.f))

\* Get refreshes recency
Get(k) ==
    /\ order' = IF k \in Present THEN Append(Without(order, k), k) ELSE order
    /\ UNCHANGED <<sz, val, maxItems, maxBytes>>
    /\ hist' = Log(hist, Rec("Get", [k |-> k],
                                [ok |-> k \in Present, v |-> IF k \in Present THEN val[k] ELSE 0], order', sz))

\* Peek / Contains do not
Peek(k) ==
    /\ UNCHANGED cvars
    /\ hist' = Log(hist, Rec("Peek", [k |-> k],
                                [ok |-> k \in Present, v |-> IF k \in Present THEN val[k] ELSE 0], order, sz))

Remove(k) ==
    /\ order' = Without(order, k)
    /\ sz' = Restrict(sz, Present \ {k}) /\ val' = Restrict(val, Present \ {k})
    /\ UNCHANGED <<maxItems, maxBytes>>
    /\ hist' = Log(hist, Rec("Remove", [k |-> k], [ok |-> k \in Present], order', sz'))

Purge ==
    /\ order' = <<>> /\ sz' = <<>> /\ val' = <<>>
    /\ UNCHANGED <<maxItems, maxBytes>>
    /\ hist' = Log(hist, Rec("Purge", [x |-> 0], [x |-> 0], <<>>, <<>>))

Next ==
    \/ \E k \in Keys, v \in Vals, s \in Sizes : Put(k, v, s) \/ PutIfMissing(k, v, s)
    \/ \E k \in Keys : Get(k) \/ Peek(k) \/ Remove(k)
    \/ Purge

Spec == Init /\ [][Next]_vars

-----------------------------------------------------------------------------
(* Properties of the reference machine (C28) *)

TypeOK ==
    /\ DOMAIN sz = Present /\ DOMAIN val = Present
    /\ \A i, j \in 1..Len(order) : i # j => order[i] # order[j]

\* both limits hold unless the cache holds a single (most recent) item
Inv_C28_Bounded == Len(order) <= 1 \/ (Len(order) <= maxItems /\ Bytes <= maxBytes)

\* a successful add keeps the added item, as the newest one
Act_C28_KeepsNewest ==
    [][\A k \in Keys : (k \notin Present /\ k \in SeqSet(order')) => order'[Len(order')] = k]_cvars

\* eviction removes a prefix (the oldest items) of the recency order
IsSuffixOf(s, t) == Len(s) <= Len(t) /\ \A i \in 1..Len(s) : s[i] = t[Len(t) - Len(s) + i]
Act_C28_EvictsOldest ==
    [][\/ order' = <<>>
       \/ \E k \in Keys : \/ order' = Without(order, k)
                           \/ (order' # <<>> /\ IsSuffixOf(order', Append(Without(order, k), k)))]_cvars
=============================================================================
