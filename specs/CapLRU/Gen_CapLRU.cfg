SPECIFICATION GenSpec
CONSTANTS
  Keys = {"a","b","c"}
  Sizes <- MCSizes
  Vals = {1, 2}
  ItemLimits = {2, 3}
  ByteLimits = {3, 4}
  Log <- LogAppend
  Depth = 12
VIEW cvars
ACTION_CONSTRAINT EmitEdge
CHECK_DEADLOCK FALSE
