---- MODULE MC_CapLRU ----
EXTENDS CapLRU, Json
CONSTANT Depth
MCSizes == {-1, 0, 1, 3}
MCSizesSmall == {0, 1, 3}
LogAppend(h, r) == Append(h, r)
LogLast(h, r) == <<r>>
\* behaviour export.  BoundedNext stops histories at Depth (filter inside Next, nothing is generated
\* beyond the bound).  EmitEdge is an ACTION_CONSTRAINT: TLC evaluates it on every transition it
\* generates, also those leading to states already seen, so with VIEW cvars it prints one behaviour
\* (path to the source state + the transition) per transition of the abstract state graph.
GenNext  == Len(hist) < Depth /\ Next
GenSpec  == Init /\ [][GenNext]_vars
EmitEdge == PrintT("@@B " \o ToJson(hist'))
\* simulation mode: print only complete behaviours
EmitFull == (Len(hist') = Depth) => PrintT("@@B " \o ToJson(hist'))
====
