SPECIFICATION TraceSpec
CONSTANTS
  Keys = {}
  Sizes = {}
  Vals = {}
  ItemLimits = {}
  ByteLimits = {}
  Log <- LogLast
CONSTRAINT HighWater
INVARIANTS TypeOK Inv_C28_Bounded
POSTCONDITION Accepted
CHECK_DEADLOCK FALSE
