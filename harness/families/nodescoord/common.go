// Package nodescoord holds what the two harness binaries of family S (vh-selection: C15, vh-nodescoord: C16)
// share: construction of a REAL sharding.indexHashedNodesCoordinator(+WithRater) from exported constructors,
// decorators that record what the coordinator hands to / gets from its collaborators (hasher, shuffler),
// stubs scripted by TLC (shuffler result, hash values), and the projection of the coordinator's observable
// state (public getters only).  No model logic lives here: drive, project, log.
package nodescoord

import (
	"bufio"
	"bytes"
	"crypto/sha256"
	"encoding/binary"
	"encoding/json"
	"fmt"
	"io"
	"os"
	"sort"
	"sync"

	"github.com/ElrondNetwork/elrond-go/core"
	"github.com/ElrondNetwork/elrond-go/data"
	"github.com/ElrondNetwork/elrond-go/data/block"
	"github.com/ElrondNetwork/elrond-go/data/endProcess"
	"github.com/ElrondNetwork/elrond-go/data/state"
	"github.com/ElrondNetwork/elrond-go/hashing"
	realsha "github.com/ElrondNetwork/elrond-go/hashing/sha256"
	"github.com/ElrondNetwork/elrond-go/marshal"
	"github.com/ElrondNetwork/elrond-go/sharding"
	shmock "github.com/ElrondNetwork/elrond-go/sharding/mock"
	"github.com/ElrondNetwork/elrond-go/storage"
	"github.com/ElrondNetwork/elrond-go/storage/lrucache"
	"github.com/ElrondNetwork/elrond-go/testscommon/nodeTypeProviderMock"
	"verif/harness/internal/vtrace"
)

// MetaOut is how the metachain shard id (0xFFFFFFFF, not a TLC integer) is written in traces/behaviours.
const MetaOut = 99

// ShardOut maps a real shard id to its trace representation.
func ShardOut(s uint32) int {
	if s == core.MetachainShardId {
		return MetaOut
	}
	return int(s)
}

// ShardIn is the inverse of ShardOut.
func ShardIn(i int) uint32 {
	if i == MetaOut {
		return core.MetachainShardId
	}
	return uint32(i)
}

// ---------------------------------------------------------------- keys

var (
	keyMu  sync.Mutex
	keyIDs = map[string]int{}
)

// PK returns the public key of validator id (deterministic, 32 bytes; the byte content decides the
// sha256 based shuffling order, so ids are spread pseudo-randomly).
func PK(id int) []byte {
	h := sha256.Sum256([]byte(fmt.Sprintf("verif-validator-%d", id)))
	pk := h[:]
	keyMu.Lock()
	keyIDs[string(pk)] = id
	keyMu.Unlock()
	return pk
}

// ID returns the validator id of a public key produced by PK (-1 when unknown).
func ID(pk []byte) int {
	keyMu.Lock()
	defer keyMu.Unlock()
	if id, ok := keyIDs[string(pk)]; ok {
		return id
	}
	return -1
}

// IDs maps a list of public keys.
func IDs(pks [][]byte) []int {
	r := make([]int, len(pks))
	for i := range pks {
		r[i] = ID(pks[i])
	}
	return r
}

// ValIDs maps a list of validators.
func ValIDs(vs []sharding.Validator) []int {
	r := make([]int, len(vs))
	for i := range vs {
		r[i] = ID(vs[i].PubKey())
	}
	return r
}

// ---------------------------------------------------------------- hashers

// RecHasher decorates a real hasher and records the first 8 bytes of every digest while armed.
type RecHasher struct {
	Inner hashing.Hasher
	mu    sync.Mutex
	armed bool
	vals  []uint64
}

// Compute implements hashing.Hasher.
func (h *RecHasher) Compute(s string) []byte {
	d := h.Inner.Compute(s)
	h.mu.Lock()
	if h.armed {
		h.vals = append(h.vals, binary.BigEndian.Uint64(d))
	}
	h.mu.Unlock()
	return d
}

// Size implements hashing.Hasher.
func (h *RecHasher) Size() int { return h.Inner.Size() }

// IsInterfaceNil implements hashing.Hasher.
func (h *RecHasher) IsInterfaceNil() bool { return h == nil }

// Arm starts a recording window.
func (h *RecHasher) Arm() {
	h.mu.Lock()
	h.armed = true
	h.vals = nil
	h.mu.Unlock()
}

// Disarm ends the window and returns the recorded 64 bit values.
func (h *RecHasher) Disarm() []uint64 {
	h.mu.Lock()
	defer h.mu.Unlock()
	h.armed = false
	v := h.vals
	h.vals = nil
	return v
}

// ScriptHasher returns digests whose first 8 bytes are the scripted values, in order (then zeros).
type ScriptHasher struct {
	Vals  []uint64
	Calls int
}

// Compute implements hashing.Hasher.
func (h *ScriptHasher) Compute(string) []byte {
	d := make([]byte, 32)
	if h.Calls < len(h.Vals) {
		binary.BigEndian.PutUint64(d, h.Vals[h.Calls])
	}
	h.Calls++
	return d
}

// Size implements hashing.Hasher.
func (h *ScriptHasher) Size() int { return 32 }

// IsInterfaceNil implements hashing.Hasher.
func (h *ScriptHasher) IsInterfaceNil() bool { return h == nil }

// Limbs splits a 64 bit value into four 16 bit limbs, most significant first (TLC integers are 32 bit).
func Limbs(v uint64) []int {
	return []int{int(v >> 48 & 0xffff), int(v >> 32 & 0xffff), int(v >> 16 & 0xffff), int(v & 0xffff)}
}

// LimbsAll maps Limbs.
func LimbsAll(vs []uint64) [][]int {
	r := make([][]int, len(vs))
	for i := range vs {
		r[i] = Limbs(vs[i])
	}
	return r
}

// FromLimbs is the inverse of Limbs.
func FromLimbs(l []int) uint64 {
	return uint64(l[0])<<48 | uint64(l[1])<<32 | uint64(l[2])<<16 | uint64(l[3])
}

// ---------------------------------------------------------------- shufflers

// Lists is a per shard list of validator ids in trace representation.
type Lists map[int][]int

// ShufflerCall is one recorded UpdateNodeLists call.
type ShufflerCall struct {
	Eligible, Waiting             Lists
	NewNodes, Unstake, Additional []int
	NbShards, Epoch               int
	ResEligible, ResWaiting       Lists
	ResLeaving, ResRemaining      []int
	Err                           string
}

func listsOf(m map[uint32][]sharding.Validator) Lists {
	r := Lists{}
	for s, l := range m {
		r[ShardOut(s)] = ValIDs(l)
	}
	return r
}

// RecShuffler decorates a NodesShuffler and records arguments and results.
type RecShuffler struct {
	Inner sharding.NodesShuffler
	Calls []ShufflerCall
}

// UpdateParams implements sharding.NodesShuffler.
func (r *RecShuffler) UpdateParams(a, b uint32, h float32, ad bool) {
	r.Inner.UpdateParams(a, b, h, ad)
}

// IsInterfaceNil implements sharding.NodesShuffler.
func (r *RecShuffler) IsInterfaceNil() bool { return r == nil }

// UpdateNodeLists implements sharding.NodesShuffler.
func (r *RecShuffler) UpdateNodeLists(args sharding.ArgsUpdateNodes) (*sharding.ResUpdateNodes, error) {
	c := ShufflerCall{Eligible: listsOf(args.Eligible), Waiting: listsOf(args.Waiting), NewNodes: ValIDs(args.NewNodes),
		Unstake: ValIDs(args.UnStakeLeaving), Additional: ValIDs(args.AdditionalLeaving),
		NbShards: int(args.NbShards), Epoch: int(args.Epoch)}
	res, err := r.Inner.UpdateNodeLists(args)
	if err != nil {
		c.Err = err.Error()
	} else {
		c.ResEligible, c.ResWaiting = listsOf(res.Eligible), listsOf(res.Waiting)
		c.ResLeaving, c.ResRemaining = ValIDs(res.Leaving), ValIDs(res.StillRemaining)
	}
	r.Calls = append(r.Calls, c)
	return res, err
}

// ScriptShuffler returns the result chosen by TLC (concretised with the validators it was handed where
// possible, so that chances/indexes stay those the coordinator computed).
type ScriptShuffler struct {
	Next func(args sharding.ArgsUpdateNodes) (*sharding.ResUpdateNodes, error)
}

// UpdateParams implements sharding.NodesShuffler.
func (s *ScriptShuffler) UpdateParams(uint32, uint32, float32, bool) {}

// IsInterfaceNil implements sharding.NodesShuffler.
func (s *ScriptShuffler) IsInterfaceNil() bool { return s == nil }

// UpdateNodeLists implements sharding.NodesShuffler.
func (s *ScriptShuffler) UpdateNodeLists(args sharding.ArgsUpdateNodes) (*sharding.ResUpdateNodes, error) {
	return s.Next(args)
}

// ---------------------------------------------------------------- chance computer

// Chances is a table driven sharding.ChanceComputer: chance = Table[rating] (rating >= len -> last entry).
type Chances struct{ Table []uint32 }

// GetChance implements sharding.ChanceComputer.
func (c *Chances) GetChance(rating uint32) uint32 {
	if int(rating) >= len(c.Table) {
		return c.Table[len(c.Table)-1]
	}
	return c.Table[rating]
}

// IsInterfaceNil implements sharding.ChanceComputer.
func (c *Chances) IsInterfaceNil() bool { return c == nil }

// ---------------------------------------------------------------- caches

// NoCache is a group cache that never holds anything.
type NoCache struct{}

// Clear implements sharding.Cacher.
func (NoCache) Clear() {}

// Put implements sharding.Cacher.
func (NoCache) Put([]byte, interface{}, int) bool { return false }

// Get implements sharding.Cacher.
func (NoCache) Get([]byte) (interface{}, bool) { return nil, false }

// ---------------------------------------------------------------- the coordinator

// Coordinator is what the harness needs from both coordinator flavours.
type Coordinator interface {
	sharding.NodesCoordinator
	EpochStartPrepare(metaHdr data.HeaderHandler, body data.BodyHandler)
	EpochStartAction(hdr data.HeaderHandler)
}

// Params configures one real coordinator.
type Params struct {
	ShardSize, MetaSize int // consensus group sizes
	NbShards            int
	Eligible, Waiting   map[int][]Val // by trace shard id
	Epoch               int
	WaitingListFixEpoch int
	Shuffler            sharding.NodesShuffler
	Hasher              hashing.Hasher // nil -> real sha256
	Cache               sharding.Cacher
	BootStorer          storage.Storer // nil -> fresh in-memory mock
	Rater               *Chances       // non nil -> indexHashedNodesCoordinatorWithRater
	SelfID              int
}

// Val is a validator to be created (id, chances, index).
type Val struct {
	ID, Chances, Index int
}

// MakeValidators builds the real validator objects.
func MakeValidators(m map[int][]Val) map[uint32][]sharding.Validator {
	r := map[uint32][]sharding.Validator{}
	for s, l := range m {
		vs := make([]sharding.Validator, 0, len(l))
		for _, v := range l {
			rv, err := sharding.NewValidator(PK(v.ID), uint32(v.Chances), uint32(v.Index))
			if err != nil {
				panic(err)
			}
			vs = append(vs, rv)
		}
		r[ShardIn(s)] = vs
	}
	return r
}

// Marshalizer used for the peer mini blocks (the production one).
var Marshalizer marshal.Marshalizer = &marshal.GogoProtoMarshalizer{}

// NewLRU returns a real LRU group cache.
func NewLRU(size int) sharding.Cacher {
	c, err := lrucache.NewCache(size)
	if err != nil {
		panic(err)
	}
	return c
}

// Build creates the real coordinator.
func Build(p Params) (Coordinator, error) {
	h := p.Hasher
	if h == nil {
		h = realsha.NewSha256()
	}
	bs := p.BootStorer
	if bs == nil {
		bs = shmock.NewStorerMock()
	}
	cache := p.Cache
	if cache == nil {
		cache = NoCache{}
	}
	self := p.SelfID
	if self == 0 {
		self = 1 << 30
	}
	args := sharding.ArgNodesCoordinator{
		ShardConsensusGroupSize:    p.ShardSize,
		MetaConsensusGroupSize:     p.MetaSize,
		Marshalizer:                Marshalizer,
		Hasher:                     h,
		Shuffler:                   p.Shuffler,
		EpochStartNotifier:         &shmock.EpochStartNotifierStub{},
		BootStorer:                 bs,
		NbShards:                   uint32(p.NbShards),
		EligibleNodes:              MakeValidators(p.Eligible),
		WaitingNodes:               MakeValidators(p.Waiting),
		SelfPublicKey:              PK(self),
		Epoch:                      uint32(p.Epoch),
		StartEpoch:                 uint32(p.Epoch),
		ConsensusGroupCache:        cache,
		ShuffledOutHandler:         &shmock.ShuffledOutHandlerStub{},
		WaitingListFixEnabledEpoch: uint32(p.WaitingListFixEpoch),
		ChanStopNode:               make(chan endProcess.ArgEndProcess, 8),
		NodeTypeProvider:           &nodeTypeProviderMock.NodeTypeProviderStub{},
	}
	nc, err := sharding.NewIndexHashedNodesCoordinator(args)
	if err != nil {
		return nil, err
	}
	if p.Rater == nil {
		return nc, nil
	}
	return sharding.NewIndexHashedNodesCoordinatorWithRater(nc, p.Rater)
}

// ---------------------------------------------------------------- epoch start inputs

// Info is one validator info of an epoch start block, in trace representation.
type Info struct {
	K      int    `json:"k"`
	S      int    `json:"s"`
	L      string `json:"l"`
	I      int    `json:"i"`
	Rating int    `json:"r"`
	hidden bool
}

// Header builds the epoch start meta block.
func Header(epoch int, rand []byte) *block.MetaBlock {
	return &block.MetaBlock{
		Epoch:        uint32(epoch),
		PrevRandSeed: rand,
		EpochStart:   block.EpochStart{LastFinalizedHeaders: []block.EpochStartShardData{{}}},
	}
}

// Body builds the peer mini blocks the way epochStart/metachain/validators.go does: one mini block per shard
// (ascending, metachain last), validator infos of a shard sorted by public key.
func Body(infos []Info) *block.Body {
	byShard := map[int][]Info{}
	for _, in := range infos {
		byShard[in.S] = append(byShard[in.S], in)
	}
	shards := make([]int, 0, len(byShard))
	for s := range byShard {
		shards = append(shards, s)
	}
	sort.Ints(shards)
	body := &block.Body{}
	for _, s := range shards {
		l := byShard[s]
		sort.Slice(l, func(i, j int) bool { return bytes.Compare(PK(l[i].K), PK(l[j].K)) < 0 })
		mb := &block.MiniBlock{Type: block.PeerBlock, SenderShardID: core.MetachainShardId, ReceiverShardID: core.AllShardId}
		for _, in := range l {
			b, err := Marshalizer.Marshal(&state.ShardValidatorInfo{PublicKey: PK(in.K), ShardId: ShardIn(in.S),
				List: in.L, Index: uint32(in.I), TempRating: uint32(in.Rating)})
			if err != nil {
				panic(err)
			}
			mb.TxHashes = append(mb.TxHashes, b)
		}
		body.MiniBlocks = append(body.MiniBlocks, mb)
	}
	return body
}

// ---------------------------------------------------------------- projection (public getters only)

// EpochView is the observable configuration of one epoch.
type EpochView struct {
	OK                         bool
	Eligible, Waiting, Leaving Lists
}

func pkLists(m map[uint32][][]byte) Lists {
	r := Lists{}
	for s, l := range m {
		r[ShardOut(s)] = IDs(l)
	}
	return r
}

// View reads the configuration of an epoch through GetAll*ValidatorsPublicKeys.
func View(nc sharding.NodesCoordinator, epoch int) EpochView {
	e, err := nc.GetAllEligibleValidatorsPublicKeys(uint32(epoch))
	if err != nil {
		return EpochView{}
	}
	w, err := nc.GetAllWaitingValidatorsPublicKeys(uint32(epoch))
	if err != nil {
		return EpochView{}
	}
	l, err := nc.GetAllLeavingValidatorsPublicKeys(uint32(epoch))
	if err != nil {
		return EpochView{}
	}
	return EpochView{OK: true, Eligible: pkLists(e), Waiting: pkLists(w), Leaving: pkLists(l)}
}

// ListsJSON renders per shard lists as a JSON friendly array of {s, l} records sorted by shard.
func ListsJSON(l Lists) []map[string]interface{} {
	shards := make([]int, 0, len(l))
	for s := range l {
		shards = append(shards, s)
	}
	sort.Ints(shards)
	r := make([]map[string]interface{}, 0, len(shards))
	for _, s := range shards {
		ids := l[s]
		if ids == nil {
			ids = []int{}
		}
		r = append(r, map[string]interface{}{"s": s, "l": ids})
	}
	return r
}

// NotFound is the trace representation of "GetValidatorWithPublicKey returned an error".
const NotFound = 98

// Lookup is GetValidatorWithPublicKey for a validator id: shard in trace representation or NotFound.
func Lookup(nc sharding.NodesCoordinator, id int) int {
	_, s, err := nc.GetValidatorWithPublicKey(PK(id))
	if err != nil {
		return NotFound
	}
	return ShardOut(s)
}

// RegVal is a validator as exported by NodesCoordinatorToRegistry.
type RegVal struct{ ID, Chances, Index int }

// RegEpoch is one epoch of the exported registry.
type RegEpoch struct {
	Eligible, Waiting, Leaving map[int][]RegVal
}

type registryExporter interface {
	NodesCoordinatorToRegistry() *sharding.NodesCoordinatorRegistry
}

func regLists(m map[string][]*sharding.SerializableValidator) map[int][]RegVal {
	r := map[int][]RegVal{}
	for s, l := range m {
		var sid uint32
		_, _ = fmt.Sscan(s, &sid)
		vs := make([]RegVal, 0, len(l))
		for _, v := range l {
			vs = append(vs, RegVal{ID: ID(v.PubKey), Chances: int(v.Chances), Index: int(v.Index)})
		}
		r[ShardOut(sid)] = vs
	}
	return r
}

// Registry reads every stored epoch through the exported NodesCoordinatorToRegistry (epoch -> lists with
// chances and indexes) and the coordinator's current epoch.
func Registry(nc sharding.NodesCoordinator) (map[int]RegEpoch, int) {
	reg := nc.(registryExporter).NodesCoordinatorToRegistry()
	r := map[int]RegEpoch{}
	for es, ev := range reg.EpochsConfig {
		var e int
		_, _ = fmt.Sscan(es, &e)
		r[e] = RegEpoch{Eligible: regLists(ev.EligibleValidators), Waiting: regLists(ev.WaitingValidators),
			Leaving: regLists(ev.LeavingValidators)}
	}
	return r, int(reg.CurrentEpoch)
}

// ---------------------------------------------------------------- the metachain's side, simulated as a driver
//
// Peers plays the role of the validator statistics trie (process/peer.SaveNodesCoordinatorUpdates), the staking
// system contract (process/scToProtocol/stakingToPeer.go) and the epoch start system SC processing
// (epochStart/metachain/systemSCs.go: jailed <-> new switch) -- i.e. it DERIVES the validator infos of the next
// epoch start block from the configuration the coordinator holds for the current epoch, the way the metachain
// does.  It is input generation only; whether the derived infos are "consistent with the previous epoch" is
// checked by the TLA+ action's precondition, not here.
type Peers struct {
	Acc    map[int]*Info
	NextID int
	Rng    interface {
		Intn(n int) int
	}
	MaxRating int
	LowRating int // ratings below it jail a leaving validator (process/peer: isValidatorWithLowRating)
}

// SaveNodesCoordinatorUpdates mirrors validatorStatistics.saveNodesCoordinatorUpdates for the given epoch view.
func (p *Peers) SaveNodesCoordinatorUpdates(v EpochView, shards []int) {
	save := func(l Lists, list string) {
		for _, s := range shards {
			for idx, id := range l[s] {
				a := p.Acc[id]
				if a == nil {
					a = &Info{K: id, Rating: p.MaxRating / 2}
					p.Acc[id] = a
				}
				leaving := (list == "waiting" || list == "eligible") && a.L == "leaving"
				jailed := list == "inactive" && a.Rating < p.LowRating
				switch {
				case jailed:
					a.S, a.L, a.I = s, "jailed", idx
				case leaving:
					a.S, a.L, a.I = s, "leaving", idx
				default:
					a.S, a.L, a.I = s, list, idx
				}
			}
		}
	}
	save(v.Eligible, "eligible")
	save(v.Waiting, "waiting")
	save(v.Leaving, "inactive")
}

// Events applies random staking events during an epoch.  intensity in 0..100.
func (p *Peers) Events(intensity int, shards []int) {
	ids := make([]int, 0, len(p.Acc))
	for id := range p.Acc {
		ids = append(ids, id)
	}
	sort.Ints(ids)
	nonce := 1000 + p.Rng.Intn(1000)
	var jailedNow []int
	for _, id := range ids {
		a := p.Acc[id]
		if p.Rng.Intn(3) == 0 {
			a.Rating = p.Rng.Intn(p.MaxRating + 1)
		}
		if p.Rng.Intn(100) >= intensity {
			continue
		}
		nonce++
		switch a.L {
		case "eligible", "waiting":
			switch p.Rng.Intn(3) {
			case 0: // unStake
				a.L, a.I = "leaving", nonce
			case 1: // jail: leaving with the jail rating
				a.L, a.I, a.Rating = "leaving", nonce, 0
				jailedNow = append(jailedNow, id)
			default:
				a.Rating = p.Rng.Intn(p.MaxRating + 1)
			}
		case "inactive":
			if p.Rng.Intn(2) == 0 { // stake again
				a.L, a.I, a.Rating = "new", nonce, p.MaxRating/2
			}
		case "jailed":
			switch p.Rng.Intn(3) {
			case 0: // unJail with stake
				a.L, a.I = "new", nonce
				if a.Rating < p.LowRating {
					a.Rating = p.LowRating
				}
			case 1: // unJail without stake
				a.L, a.I = "inactive", nonce
			}
		case "new":
			if p.Rng.Intn(4) == 0 { // unStake before becoming a validator
				a.L, a.I = "leaving", nonce
			}
		}
	}
	// brand new validators (a new peer account has shard id 0 until the coordinator places it)
	n := p.Rng.Intn(1 + intensity/10)
	for i := 0; i < n; i++ {
		p.NextID++
		nonce++
		s := 0
		if p.Rng.Intn(3) == 0 {
			s = shards[p.Rng.Intn(len(shards))]
		}
		p.Acc[p.NextID] = &Info{K: p.NextID, S: s, L: "new", I: nonce, Rating: p.MaxRating / 2}
	}
	// epoch start: a jailed validator is switched with a node from the staking queue -- the jailed validator's
	// info is REPLACED by the new validator's info (same shard, list "new"), the jailed one vanishes from the list
	for _, id := range jailedNow {
		if p.Rng.Intn(2) == 0 {
			a := p.Acc[id]
			p.NextID++
			nonce++
			p.Acc[p.NextID] = &Info{K: p.NextID, S: a.S, L: "new", I: nonce, Rating: p.MaxRating / 2}
			a.L = "jailed"
			a.hidden = true
		}
	}
}

// Infos returns the validator infos of the epoch start block (every peer account once, hidden ones dropped).
func (p *Peers) Infos() []Info {
	ids := make([]int, 0, len(p.Acc))
	for id := range p.Acc {
		ids = append(ids, id)
	}
	sort.Ints(ids)
	r := make([]Info, 0, len(ids))
	for _, id := range ids {
		a := p.Acc[id]
		if a.hidden {
			a.hidden = false
			continue
		}
		r = append(r, *a)
	}
	return r
}

// EachBehaviour streams an ndjson behaviour file (one JSON array of steps per line) without holding it in memory.
func EachBehaviour(path string, f func(i int, b []vtrace.Step) error) (int, error) {
	fh, err := os.Open(path)
	if err != nil {
		return 0, err
	}
	defer fh.Close()
	r := bufio.NewReaderSize(fh, 1<<20)
	n := 0
	for {
		line, err := r.ReadBytes('\n')
		if len(line) > 1 {
			var b []vtrace.Step
			if e := json.Unmarshal(line, &b); e != nil {
				return n, fmt.Errorf("behaviour line %d: %v", n+1, e)
			}
			if e := f(n, b); e != nil {
				return n, e
			}
			n++
		}
		if err == io.EOF {
			return n, nil
		}
		if err != nil {
			return n, err
		}
	}
}
