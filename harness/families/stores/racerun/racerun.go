// Package racerun executes concurrency scenarios enumerated by TLC (LockDiscipline.tla) on real objects
// under the Go race detector.
//
// A scenario is a tuple of operation classes ("Nonces:unseen", "AddHeader:new", ...), one per goroutine.
// The parent process (`<exe> race <scenarios.ndjson> ...`) starts one child process per scenario
// (`<exe> one <iters> <op>...`) because
//   - a runtime `fatal error: concurrent map ...` kills the process, and
//   - the race detector reports every distinct pair of stacks only once per process.
//
// The child builds a fresh object, creates one closure per goroutine, releases them through a start
// barrier and lets each run `iters` iterations. Verdict per scenario = what the detector/runtime printed:
// `WARNING: DATA RACE` (GORACE=halt_on_error=0 exitcode=66) or `fatal error: concurrent map`.
// No model logic here: which scenarios exist and which of them the lock discipline predicts to be
// racy comes from TLC; this package only runs and reports.
package racerun

import (
	"bytes"
	"encoding/json"
	"fmt"
	"os"
	"os/exec"
	"regexp"
	"runtime"
	"sort"
	"strconv"
	"strings"
	"sync"
	"time"

	"verif/harness/internal/vtrace"
)

// SelfTest is the name of the built-in scenario that contains a deliberate data race. The parent runs it
// first: if the detector does not report it the binary was not built with -race (or the report parsing
// is broken) and the whole stage is reported as broken instead of silently passing.
const SelfTest = "@selftest-racy"

// Scenario is one TLC-enumerated scenario.
type Scenario struct {
	Ops   []string // one operation class per goroutine
	Racy  bool     // predicted by the lock-discipline model (with the deviations of the code as it is)
	Pairs []string // predicted conflicting pairs "opA||opB" (informational)
}

// Outcome of one scenario.
type Outcome struct {
	Scenario Scenario
	Race     bool
	Fatal    bool
	Methods  []string // public methods found in the two racing stacks (sorted)
	Report   string   // excerpt of the first report
	Err      string   // harness-level failure (timeout, unexpected exit)
}

// ReadScenarios parses the behaviours exported by TLC: each line is a one-record behaviour
// [{"a":"Scenario","in":{"ops":[...]},"out":{"racy":bool,"pairs":[...]}}].
func ReadScenarios(path string) ([]Scenario, error) {
	bs, err := vtrace.ReadBehaviours(path)
	if err != nil {
		return nil, err
	}
	var res []Scenario
	for _, b := range bs {
		if len(b) == 0 {
			continue
		}
		st := b[len(b)-1]
		s := Scenario{Ops: vtrace.Strs(st.In["ops"])}
		if r, ok := st.Out["racy"].(bool); ok {
			s.Racy = r
		}
		if p, ok := st.Out["pairs"].([]interface{}); ok {
			for _, x := range p {
				s.Pairs = append(s.Pairs, fmt.Sprint(x))
			}
		}
		res = append(res, s)
	}
	return res, nil
}

// Key is the canonical name of a scenario.
func (s Scenario) Key() string { return strings.Join(s.Ops, "||") }

var (
	reAccess = regexp.MustCompile(`^(Write|Read|Previous write|Previous read|Atomic write|Previous atomic write|Atomic read|Previous atomic read) at 0x[0-9a-f]+ by `)
	reFrame  = regexp.MustCompile(`^  (\S+)\(`)
)

// parseReport extracts from the first race report the public methods (matching methodRe, 1 capture group)
// that appear in the two access stacks.
func parseReport(out string, methodRe *regexp.Regexp) (methods []string, excerpt string) {
	idx := strings.Index(out, "WARNING: DATA RACE")
	if idx < 0 {
		return nil, ""
	}
	rep := out[idx:]
	if e := strings.Index(rep, "\n=================="); e > 0 {
		rep = rep[:e]
	}
	lines := strings.Split(rep, "\n")
	if len(lines) > 60 {
		excerpt = strings.Join(lines[:60], "\n")
	} else {
		excerpt = rep
	}
	inAccess := false
	found := ""
	flush := func() {
		if inAccess {
			methods = append(methods, found)
		}
	}
	for _, l := range lines[1:] {
		switch {
		case reAccess.MatchString(l):
			flush()
			inAccess, found = true, "?"
		case strings.HasPrefix(l, "Goroutine ") || strings.HasPrefix(l, "Mutex "):
			flush()
			inAccess = false
		case inAccess && found == "?":
			if m := reFrame.FindStringSubmatch(l); m != nil {
				if mm := methodRe.FindStringSubmatch(m[1]); mm != nil {
					found = mm[1]
				}
			}
		}
	}
	flush()
	sort.Strings(methods)
	return methods, excerpt
}

func runChild(exe string, s Scenario, iters int, methodRe *regexp.Regexp, timeout time.Duration) Outcome {
	o := Outcome{Scenario: s}
	args := append([]string{"one", strconv.Itoa(iters)}, s.Ops...)
	cmd := exec.Command(exe, args...)
	cmd.Env = append(os.Environ(), "GORACE=halt_on_error=0 exitcode=66 history_size=2", "GOMAXPROCS=4")
	var buf bytes.Buffer
	cmd.Stdout = &buf
	cmd.Stderr = &buf
	if err := cmd.Start(); err != nil {
		o.Err = err.Error()
		return o
	}
	done := make(chan error, 1)
	go func() { done <- cmd.Wait() }()
	var werr error
	select {
	case werr = <-done:
	case <-time.After(timeout):
		_ = cmd.Process.Kill()
		<-done
		o.Err = "timeout (deadlock?) after " + timeout.String()
	}
	out := buf.String()
	if strings.Contains(out, "WARNING: DATA RACE") {
		o.Race = true
		o.Methods, o.Report = parseReport(out, methodRe)
	}
	if i := strings.Index(out, "fatal error: concurrent map"); i >= 0 {
		o.Fatal = true
		if o.Report == "" {
			e := i + 1500
			if e > len(out) {
				e = len(out)
			}
			o.Report = out[i:e]
		}
	}
	if o.Race || o.Fatal {
		o.Err = ""
		return o
	}
	if werr != nil && o.Err == "" {
		tail := out
		if len(tail) > 1500 {
			tail = tail[len(tail)-1500:]
		}
		o.Err = fmt.Sprintf("child exited with %v: %s", werr, tail)
	}
	return o
}

// Drive runs all scenarios (children of `exe`) with bounded parallelism and reports through vtrace.
// what(op) renders an operation class for messages.
func Drive(prop, exe string, scen []Scenario, iters int, methodRe *regexp.Regexp, describe func(op string) string) {
	par := 0
	if w := os.Getenv("VERIF_WORKERS"); w != "" {
		par, _ = strconv.Atoi(w)
	}
	if par <= 0 {
		par = runtime.NumCPU() / 2
	}
	if par < 1 {
		par = 1
	}
	if par > 8 {
		par = 8
	}
	// the pipeline must be able to see a race at all
	st := runChild(exe, Scenario{Ops: []string{SelfTest, SelfTest}}, 50, methodRe, 60*time.Second)
	if !st.Race {
		vtrace.Broken("race pipeline self-test: the deliberately racy scenario was NOT reported by the detector " +
			"(binary not built with -race, or report parsing broken): " + st.Err)
		return
	}
	outs := make([]Outcome, len(scen))
	var wg sync.WaitGroup
	sem := make(chan struct{}, par)
	for i := range scen {
		wg.Add(1)
		sem <- struct{}{}
		go func(i int) {
			defer wg.Done()
			defer func() { <-sem }()
			outs[i] = runChild(exe, scen[i], iters, methodRe, 60*time.Second)
		}(i)
	}
	wg.Wait()

	observed, predicted, both, errs := 0, 0, 0, 0
	racyPairs := map[string]bool{}
	sigs := map[string]bool{}
	distinct := vtrace.NewDistinct()
	var unconfirmed []string
	samples := 0
	for _, o := range outs { // pairs come first in TLC's enumeration (the check generates them first)
		s := o.Scenario
		distinct.Add(s.Key())
		if s.Racy {
			predicted++
		}
		if o.Err != "" {
			errs++
			if errs <= 3 {
				vtrace.Broken(fmt.Sprintf("scenario %s: %s", s.Key(), o.Err))
			}
			continue
		}
		bad := o.Race || o.Fatal
		if bad {
			observed++
			if s.Racy {
				both++
			}
		} else if s.Racy {
			unconfirmed = append(unconfirmed, s.Key())
		}
		if samples < 3 && (bad || len(s.Ops) >= 2) {
			samples++
			vtrace.Sample(prop, vtrace.M{"scenario": s.Ops, "model_predicts_race": s.Racy, "detector_reported_race": o.Race,
				"runtime_fatal": o.Fatal, "iterations": iters})
		}
		if !bad {
			continue
		}
		if len(s.Ops) == 2 {
			racyPairs[s.Key()] = true
		} else if explainedByPair(s, racyPairs) {
			continue // a triple whose race is already shown by one of its pairs
		}
		var sig string
		switch {
		case o.Race && len(o.Methods) >= 2 && !contains(o.Methods, "?"):
			sig = prop + "/race/" + strings.Join(o.Methods[:2], "+")
		case o.Race:
			sig = prop + "/race/" + s.Key()
		default:
			sig = prop + "/fatal-concurrent-map/" + s.Key()
		}
		if sigs[sig] || len(sigs) >= 6 {
			continue
		}
		sigs[sig] = true
		var names []string
		for _, op := range s.Ops {
			names = append(names, describe(op))
		}
		kind := "the race detector reports a data race"
		if !o.Race {
			kind = "the runtime aborts with `fatal error: concurrent map ...`"
		}
		first := o.Report
		if len(first) > 900 {
			first = first[:900]
		}
		vtrace.Violation(prop, sig,
			fmt.Sprintf("concurrent calls {%s} (%d iterations each, real goroutines): %s; model predicted race=%v. %s",
				strings.Join(names, " || "), iters, kind, s.Racy, first),
			vtrace.M{"scenario": s.Ops, "iterations": iters, "report": o.Report, "racing_methods": o.Methods,
				"predicted_by_lock_discipline_model": s.Racy, "predicted_pairs": s.Pairs})
	}
	if len(unconfirmed) > 0 {
		n := len(unconfirmed)
		if n > 5 {
			unconfirmed = unconfirmed[:5]
		}
		vtrace.Drift(prop, fmt.Sprintf("%d scenario(s) the lock-discipline model (code as it was read, with its known deviations) "+
			"predicts to be racy showed no race on the real code (deviation repaired, or not hit): %v", n, unconfirmed), nil)
	}
	vtrace.Stat("scenarios", len(scen))
	vtrace.Stat("distinct_scenarios", distinct.Len())
	vtrace.Stat("race_observed", observed)
	vtrace.Stat("race_predicted", predicted)
	vtrace.Stat("race_predicted_and_observed", both)
	vtrace.Stat("goroutine_iterations", len(scen)*iters)
	vtrace.Stat("scenario_errors", errs)
}

func contains(a []string, x string) bool {
	for _, y := range a {
		if y == x {
			return true
		}
	}
	return false
}

func explainedByPair(s Scenario, racy map[string]bool) bool {
	for i := 0; i < len(s.Ops); i++ {
		for j := i + 1; j < len(s.Ops); j++ {
			if racy[s.Ops[i]+"||"+s.Ops[j]] || racy[s.Ops[j]+"||"+s.Ops[i]] {
				return true
			}
		}
	}
	return false
}

// Child runs one scenario in this process. mk(op, g) returns the body executed by goroutine g for
// iteration i. It never returns: the process exits 0 (or 66 if the detector reported something).
func Child(ops []string, iters int, mk func(op string, g int) func(i int)) {
	bodies := make([]func(i int), len(ops))
	var racy int
	for g, op := range ops {
		if op == SelfTest {
			bodies[g] = func(i int) { racy++ } // deliberate unsynchronised read-modify-write
			continue
		}
		bodies[g] = mk(op, g)
		if bodies[g] == nil {
			fmt.Fprintf(os.Stderr, "unknown operation class %q\n", op)
			os.Exit(3)
		}
	}
	start := make(chan struct{})
	var wg sync.WaitGroup
	for g := range bodies {
		wg.Add(1)
		go func(g int) {
			defer wg.Done()
			<-start
			for i := 0; i < iters; i++ {
				bodies[g](i)
				if i%16 == 15 {
					runtime.Gosched()
				}
			}
		}(g)
	}
	close(start)
	wg.Wait()
	_ = racy
	time.Sleep(5 * time.Millisecond) // let handler goroutines spawned by the object finish
	os.Exit(0)
}

// MustJSON is a helper for debugging output.
func MustJSON(v interface{}) string {
	b, _ := json.Marshal(v)
	return string(b)
}
