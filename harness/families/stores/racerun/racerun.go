// Package racerun executes concurrency scenarios enumerated by TLC (LockDiscipline.tla) on real objects
// under the Go race detector.
//
// A scenario is a tuple of operation classes ("Nonces:unseen", "AddHeader:new", ...), one per goroutine.
// The parent process (`<exe> race <scenarios.ndjson> ...`) runs the scenarios in child processes
// (`<exe> batch <iters> <file> <from> <to>`, a few dozen scenarios per child, several children in parallel):
// a runtime `fatal error: concurrent map ...` kills the process (the parent then continues the batch in a new
// child), and a race-enabled process is expensive to start. Output is attributed to a scenario by begin/end
// markers on stderr. The detector reports a given pair of stacks once per process, so within one child only the
// first scenario exhibiting a particular race is attributed -- enough for the verdict (signatures name the
// racing methods), statistics of later scenarios are lower bounds.
//
// For every scenario the child builds a fresh object, creates one closure per goroutine, releases them through
// a start barrier and lets each run `iters` iterations. Verdict per scenario = what the detector/runtime printed:
// `WARNING: DATA RACE` (GORACE=halt_on_error=0 exitcode=66) or `fatal error: concurrent map`.
// No model logic here: which scenarios exist and which of them the lock discipline predicts to be
// racy comes from TLC; this package only runs and reports.
package racerun

import (
	"bytes"
	"encoding/json"
	"fmt"
	"os"
	"os/exec"
	"regexp"
	"runtime"
	"sort"
	"strconv"
	"strings"
	"sync"
	"time"

	"verif/harness/internal/vtrace"
)

// SelfTest is the name of the built-in scenario that contains a deliberate data race. The parent runs it
// first: if the detector does not report it the binary was not built with -race (or the report parsing
// is broken) and the whole stage is reported as broken instead of silently passing.
const SelfTest = "@selftest-racy"

// Scenario is one TLC-enumerated scenario.
type Scenario struct {
	Ops   []string // one operation class per goroutine
	Racy  bool     // predicted by the lock-discipline model (with the deviations of the code as it is)
	Pairs []string // predicted conflicting pairs "opA||opB" (informational)
}

// Outcome of one scenario.
type Outcome struct {
	Scenario Scenario
	Race     bool
	Fatal    bool
	Methods  []string // public methods found in the two racing stacks (sorted)
	Report   string   // excerpt of the first report
	Err      string   // harness-level failure (timeout, unexpected exit)
}

// ReadScenarios parses the behaviours exported by TLC: each line is a one-record behaviour
// [{"a":"Scenario","in":{"ops":[...]},"out":{"racy":bool,"pairs":[...]}}].
func ReadScenarios(path string) ([]Scenario, error) {
	bs, err := vtrace.ReadBehaviours(path)
	if err != nil {
		return nil, err
	}
	var res []Scenario
	for _, b := range bs {
		if len(b) == 0 {
			continue
		}
		st := b[len(b)-1]
		s := Scenario{Ops: vtrace.Strs(st.In["ops"])}
		if r, ok := st.Out["racy"].(bool); ok {
			s.Racy = r
		}
		if p, ok := st.Out["pairs"].([]interface{}); ok {
			for _, x := range p {
				s.Pairs = append(s.Pairs, fmt.Sprint(x))
			}
		}
		res = append(res, s)
	}
	return res, nil
}

// Key is the canonical name of a scenario.
func (s Scenario) Key() string { return strings.Join(s.Ops, "||") }

var (
	reAccess = regexp.MustCompile(`^(Write|Read|Previous write|Previous read|Atomic write|Previous atomic write|Atomic read|Previous atomic read) at 0x[0-9a-f]+ by `)
	reFrame  = regexp.MustCompile(`^  (\S+)\(`)
)

// parseReport extracts from the first race report the public methods (matching methodRe, 1 capture group)
// that appear in the two access stacks.
func parseReport(out string, methodRe *regexp.Regexp) (methods []string, excerpt string) {
	idx := strings.Index(out, "WARNING: DATA RACE")
	if idx < 0 {
		return nil, ""
	}
	rep := out[idx:]
	if e := strings.Index(rep, "\n=================="); e > 0 {
		rep = rep[:e]
	}
	lines := strings.Split(rep, "\n")
	if len(lines) > 60 {
		excerpt = strings.Join(lines[:60], "\n")
	} else {
		excerpt = rep
	}
	inAccess := false
	found := ""
	flush := func() {
		if inAccess {
			methods = append(methods, found)
		}
	}
	for _, l := range lines[1:] {
		switch {
		case reAccess.MatchString(l):
			flush()
			inAccess, found = true, "?"
		case strings.HasPrefix(l, "Goroutine ") || strings.HasPrefix(l, "Mutex "):
			flush()
			inAccess = false
		case inAccess && found == "?":
			if m := reFrame.FindStringSubmatch(l); m != nil {
				if mm := methodRe.FindStringSubmatch(m[1]); mm != nil {
					found = mm[1]
				}
			}
		}
	}
	flush()
	sort.Strings(methods)
	return methods, excerpt
}

const (
	markBegin = "@@SCN-BEGIN "
	markEnd   = "@@SCN-END "
)

// classify fills an Outcome from the stderr text produced while its scenario ran.
func classify(o *Outcome, out string, methodRe *regexp.Regexp) {
	if strings.Contains(out, "WARNING: DATA RACE") {
		o.Race = true
		o.Methods, o.Report = parseReport(out, methodRe)
	}
	if i := strings.Index(out, "fatal error: concurrent map"); i >= 0 {
		o.Fatal = true
		if o.Report == "" {
			e := i + 1500
			if e > len(out) {
				e = len(out)
			}
			o.Report = out[i:e]
		}
	}
}

// runBatch runs scenarios scen[from:to] in child processes (one process runs as many as it survives: a runtime
// fatal error ends the process, the rest of the batch continues in a new one). Output is attributed to a
// scenario through begin/end markers on stderr.
func runBatch(exe, file string, scen []Scenario, from, to, iters int, methodRe *regexp.Regexp, outs []Outcome) {
	for from < to {
		cmd := exec.Command(exe, "batch", strconv.Itoa(iters), file, strconv.Itoa(from), strconv.Itoa(to))
		cmd.Env = append(os.Environ(), "GORACE=halt_on_error=0 exitcode=66", "GOMAXPROCS=4")
		var buf bytes.Buffer
		cmd.Stdout = &buf
		cmd.Stderr = &buf
		timeout := time.Duration(30+2*(to-from)) * time.Second
		timedOut := false
		if err := cmd.Start(); err != nil {
			for i := from; i < to; i++ {
				outs[i].Err = err.Error()
			}
			return
		}
		done := make(chan error, 1)
		go func() { done <- cmd.Wait() }()
		select {
		case <-done:
		case <-time.After(timeout):
			_ = cmd.Process.Kill()
			<-done
			timedOut = true
		}
		out := buf.String()
		next := from
		for i := from; i < to; i++ {
			bm := markBegin + strconv.Itoa(i) + "\n"
			bi := strings.Index(out, bm)
			if bi < 0 {
				break
			}
			rest := out[bi+len(bm):]
			em := markEnd + strconv.Itoa(i) + "\n"
			ei := strings.Index(rest, em)
			finished := ei >= 0
			if finished {
				rest = rest[:ei]
			}
			classify(&outs[i], rest, methodRe)
			next = i + 1
			if !finished {
				if !outs[i].Race && !outs[i].Fatal {
					tail := rest
					if len(tail) > 1200 {
						tail = tail[len(tail)-1200:]
					}
					if timedOut {
						outs[i].Err = "timeout (deadlock?): " + tail
					} else {
						outs[i].Err = "child died: " + tail
					}
				}
				break
			}
		}
		if next == from { // nothing ran at all
			tail := out
			if len(tail) > 1200 {
				tail = tail[len(tail)-1200:]
			}
			outs[from].Err = "child produced no scenario marker: " + tail
			next = from + 1
		}
		from = next
	}
}

// Drive runs all scenarios (children of `exe`) with bounded parallelism and reports through vtrace.
// what(op) renders an operation class for messages.
func Drive(prop, exe string, scen []Scenario, iters int, methodRe *regexp.Regexp, describe func(op string) string) {
	par := 0
	if w := os.Getenv("VERIF_WORKERS"); w != "" {
		par, _ = strconv.Atoi(w)
	}
	if par <= 0 {
		par = runtime.NumCPU() / 2
	}
	if par < 1 {
		par = 1
	}
	if par > 8 {
		par = 8
	}
	outs := make([]Outcome, len(scen))
	for i := range scen {
		outs[i].Scenario = scen[i]
	}
	// the pipeline must be able to see a race at all: scenario -1 of every child file is the deliberate race
	stFile, err := writeScenarioFile([]Scenario{{Ops: []string{SelfTest, SelfTest}}})
	if err != nil {
		vtrace.Broken(err.Error())
		return
	}
	defer os.Remove(stFile)
	stOut := make([]Outcome, 1)
	runBatch(exe, stFile, nil, 0, 1, 50, methodRe, stOut)
	if !stOut[0].Race {
		vtrace.Broken("race pipeline self-test: the deliberately racy scenario was NOT reported by the detector " +
			"(binary not built with -race, or report parsing broken): " + stOut[0].Err)
		return
	}
	file, err := writeScenarioFile(scen)
	if err != nil {
		vtrace.Broken(err.Error())
		return
	}
	defer os.Remove(file)
	batch := (len(scen) + par*3 - 1) / (par * 3)
	if batch > 60 {
		batch = 60
	}
	if batch < 1 {
		batch = 1
	}
	var wg sync.WaitGroup
	sem := make(chan struct{}, par)
	for from := 0; from < len(scen); from += batch {
		to := from + batch
		if to > len(scen) {
			to = len(scen)
		}
		wg.Add(1)
		sem <- struct{}{}
		go func(from, to int) {
			defer wg.Done()
			defer func() { <-sem }()
			runBatch(exe, file, scen, from, to, iters, methodRe, outs)
		}(from, to)
	}
	wg.Wait()

	observed, predicted, both, errs := 0, 0, 0, 0
	racyPairs := map[string]bool{}
	sigs := map[string]bool{}
	distinct := vtrace.NewDistinct()
	var unconfirmed []string
	samples := 0
	for _, o := range outs { // pairs come first in TLC's enumeration (the check generates them first)
		s := o.Scenario
		distinct.Add(s.Key())
		if s.Racy {
			predicted++
		}
		if o.Err != "" {
			errs++
			if errs <= 3 {
				vtrace.Broken(fmt.Sprintf("scenario %s: %s", s.Key(), o.Err))
			}
			continue
		}
		bad := o.Race || o.Fatal
		if bad {
			observed++
			if s.Racy {
				both++
			}
		} else if s.Racy {
			unconfirmed = append(unconfirmed, s.Key())
		}
		if samples < 3 && (bad || len(s.Ops) >= 2) {
			samples++
			vtrace.Sample(prop, vtrace.M{"scenario": s.Ops, "model_predicts_race": s.Racy, "detector_reported_race": o.Race,
				"runtime_fatal": o.Fatal, "iterations": iters})
		}
		if !bad {
			continue
		}
		if len(s.Ops) == 2 {
			racyPairs[s.Key()] = true
		} else if explainedByPair(s, racyPairs) {
			continue // a triple whose race is already shown by one of its pairs
		}
		var sig string
		switch {
		case o.Race && len(o.Methods) >= 2 && !contains(o.Methods, "?"):
			sig = prop + "/race/" + strings.Join(o.Methods[:2], "+")
		case o.Race:
			sig = prop + "/race/" + s.Key()
		default:
			sig = prop + "/fatal-concurrent-map/" + s.Key()
		}
		if sigs[sig] || len(sigs) >= 6 {
			continue
		}
		sigs[sig] = true
		var names []string
		for _, op := range s.Ops {
			names = append(names, describe(op))
		}
		kind := "the race detector reports a data race"
		if !o.Race {
			kind = "the runtime aborts with `fatal error: concurrent map ...`"
		}
		first := o.Report
		if len(first) > 900 {
			first = first[:900]
		}
		vtrace.Violation(prop, sig,
			fmt.Sprintf("concurrent calls {%s} (%d iterations each, real goroutines): %s; model predicted race=%v. %s",
				strings.Join(names, " || "), iters, kind, s.Racy, first),
			vtrace.M{"scenario": s.Ops, "iterations": iters, "report": o.Report, "racing_methods": o.Methods,
				"predicted_by_lock_discipline_model": s.Racy, "predicted_pairs": s.Pairs})
	}
	// scenarios the lock-discipline model (with the deviations of the code as it was read) predicts racy but that
	// showed no race: the deviation has been repaired (or was not hit) -- informational only
	vtrace.Stat("race_predicted_not_observed", len(unconfirmed))
	vtrace.Stat("scenarios", len(scen))
	vtrace.Stat("distinct_scenarios", distinct.Len())
	vtrace.Stat("race_observed", observed)
	vtrace.Stat("race_predicted", predicted)
	vtrace.Stat("race_predicted_and_observed", both)
	vtrace.Stat("goroutine_iterations", len(scen)*iters)
	vtrace.Stat("scenario_errors", errs)
}

func contains(a []string, x string) bool {
	for _, y := range a {
		if y == x {
			return true
		}
	}
	return false
}

func explainedByPair(s Scenario, racy map[string]bool) bool {
	for i := 0; i < len(s.Ops); i++ {
		for j := i + 1; j < len(s.Ops); j++ {
			if racy[s.Ops[i]+"||"+s.Ops[j]] || racy[s.Ops[j]+"||"+s.Ops[i]] {
				return true
			}
		}
	}
	return false
}

func writeScenarioFile(scen []Scenario) (string, error) {
	f, err := os.CreateTemp("", "scen-*.txt")
	if err != nil {
		return "", err
	}
	for _, s := range scen {
		fmt.Fprintln(f, strings.Join(s.Ops, " "))
	}
	return f.Name(), f.Close()
}

// keep every object under test reachable until the process ends: the detector suppresses reports on
// addresses that already had one, so memory must not be reused by a later scenario
var keepAlive []interface{}

// ChildBatch runs scenarios [from, to) of the scenario file in this process, a fresh object each.
// setup() creates the object and returns the factory of per-goroutine bodies: mk(op, g) -> body(i).
// It never returns.
func ChildBatch(file string, from, to, iters int, setup func(nGoroutines int) (obj interface{}, mk func(op string, g int) func(i int))) {
	raw, err := os.ReadFile(file)
	if err != nil {
		fmt.Fprintln(os.Stderr, err)
		os.Exit(3)
	}
	lines := strings.Split(strings.TrimSpace(string(raw)), "\n")
	for idx := from; idx < to && idx < len(lines); idx++ {
		ops := strings.Fields(lines[idx])
		os.Stderr.WriteString(markBegin + strconv.Itoa(idx) + "\n")
		runScenario(ops, iters, setup)
		os.Stderr.WriteString(markEnd + strconv.Itoa(idx) + "\n")
	}
	os.Exit(0)
}

var racyCounter int

func runScenario(ops []string, iters int, setup func(n int) (interface{}, func(op string, g int) func(i int))) {
	obj, mk := setup(len(ops))
	keepAlive = append(keepAlive, obj)
	bodies := make([]func(i int), len(ops))
	for g, op := range ops {
		if op == SelfTest {
			bodies[g] = func(i int) { racyCounter++ } // deliberate unsynchronised read-modify-write
			continue
		}
		bodies[g] = mk(op, g)
		if bodies[g] == nil {
			fmt.Fprintf(os.Stderr, "unknown operation class %q\n", op)
			os.Exit(3)
		}
	}
	start := make(chan struct{})
	var wg sync.WaitGroup
	for g := range bodies {
		wg.Add(1)
		go func(g int) {
			defer wg.Done()
			<-start
			for i := 0; i < iters; i++ {
				bodies[g](i)
				if i%16 == 15 {
					runtime.Gosched()
				}
			}
		}(g)
	}
	close(start)
	wg.Wait()
	time.Sleep(2 * time.Millisecond) // let handler goroutines spawned by the object finish
}

// MustJSON is a helper for debugging output.
func MustJSON(v interface{}) string {
	b, _ := json.Marshal(v)
	return string(b)
}
