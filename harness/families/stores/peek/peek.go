// Package peek reads unexported fields of real objects through reflection so that a harness can
// project internal state WITHOUT a hook file in /repo and without perturbing the object (several
// public getters of the components under test refresh timestamps / fill caches).
//
// Every accessor reports ok=false instead of panicking when a field does not exist or has another
// shape (a refactoring of the internals must never turn into an alarm: the harness then falls back
// to what the public API shows and says so in its stats).
package peek

import (
	"reflect"
	"unsafe"
)

// Of returns the addressable struct value behind a pointer (or interface holding a pointer).
func Of(ptr interface{}) (reflect.Value, bool) {
	v := reflect.ValueOf(ptr)
	for v.IsValid() && (v.Kind() == reflect.Ptr || v.Kind() == reflect.Interface) {
		if v.IsNil() {
			return reflect.Value{}, false
		}
		v = v.Elem()
	}
	if !v.IsValid() || v.Kind() != reflect.Struct || !v.CanAddr() {
		return reflect.Value{}, false
	}
	return v, true
}

// Field returns field `name` of struct value v with the read-only flag cleared.
func Field(v reflect.Value, name string) (reflect.Value, bool) {
	for v.IsValid() && (v.Kind() == reflect.Ptr || v.Kind() == reflect.Interface) {
		if v.IsNil() {
			return reflect.Value{}, false
		}
		v = v.Elem()
	}
	if !v.IsValid() || v.Kind() != reflect.Struct {
		return reflect.Value{}, false
	}
	f := v.FieldByName(name)
	if !f.IsValid() {
		return reflect.Value{}, false
	}
	if f.CanAddr() {
		f = reflect.NewAt(f.Type(), unsafe.Pointer(f.UnsafeAddr())).Elem()
	}
	return f, true
}

// Path follows a chain of field names.
func Path(ptr interface{}, names ...string) (reflect.Value, bool) {
	v := reflect.ValueOf(ptr)
	for _, n := range names {
		var ok bool
		v, ok = Field(v, n)
		if !ok {
			return reflect.Value{}, false
		}
	}
	return v, true
}

// Unlocked makes a value obtained from a map/slice element readable through Interface().
// Map elements are not addressable; reflect allows Interface() on them only if they do not carry
// the read-only flag, which is inherited from an unexported parent. Copy into a fresh value.
func Unlocked(v reflect.Value) reflect.Value {
	if !v.IsValid() {
		return v
	}
	if v.CanAddr() {
		return reflect.NewAt(v.Type(), unsafe.Pointer(v.UnsafeAddr())).Elem()
	}
	c := reflect.New(v.Type()).Elem()
	defer func() { _ = recover() }()
	c.Set(v) // panics for read-only values; callers then use the Kind-specific getters instead
	return c
}
