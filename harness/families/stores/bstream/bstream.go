// Package bstream streams TLC behaviour files (one JSON array of step records per line) without
// loading the whole file: transition-cover exports are tens of megabytes.
package bstream

import (
	"bufio"
	"encoding/json"
	"fmt"
	"io"
	"os"

	"verif/harness/internal/vtrace"
)

// Each calls f for every behaviour of the file, in order. f returns false to stop.
func Each(path string, f func(i int, b []vtrace.Step) bool) error {
	return Lines(path, func(i int, line []byte) (bool, error) {
		var b []vtrace.Step
		if e := json.Unmarshal(line, &b); e != nil {
			return false, e
		}
		return f(i, b), nil
	})
}

// Lines calls f with every non-empty raw line (the caller decodes into its own typed records).
func Lines(path string, f func(i int, line []byte) (bool, error)) error {
	fh, err := os.Open(path)
	if err != nil {
		return err
	}
	defer fh.Close()
	r := bufio.NewReaderSize(fh, 1<<20)
	n := 0
	for {
		line, err := r.ReadBytes('\n')
		if len(line) > 1 {
			cont, e := f(n, line)
			if e != nil {
				return fmt.Errorf("behaviour line %d: %v", n+1, e)
			}
			if !cont {
				return nil
			}
			n++
		}
		if err == io.EOF {
			return nil
		}
		if err != nil {
			return err
		}
	}
}
