// Package sysvm is the driver environment shared by vh-staking (C39) and vh-delegation (C38): a REAL
// systemSmartContracts.vmContext on top of a blockchain-hook stub whose account storage and balances are Go
// maps ("the world"), a real system-SC container, and Call(), which runs one top-level transaction exactly
// like vm/process.systemVM.RunSmartContractCall does and then commits the VM output into the world the way the
// transaction processor does (storage updates + balance deltas on return code Ok, nothing otherwise).
//
// No model logic lives here: it only drives the real code and exposes raw storage for projection.
package sysvm

import (
	"errors"
	"math/big"
	"sort"

	"github.com/ElrondNetwork/elrond-go/core"
	"github.com/ElrondNetwork/elrond-go/data/state"
	"github.com/ElrondNetwork/elrond-go/process/smartContract/hooks"
	"github.com/ElrondNetwork/elrond-go/testscommon"
	"github.com/ElrondNetwork/elrond-go/vm"
	vmfactory "github.com/ElrondNetwork/elrond-go/vm/factory"
	"github.com/ElrondNetwork/elrond-go/vm/mock"
	"github.com/ElrondNetwork/elrond-go/vm/systemSmartContracts"
	vmcommon "github.com/ElrondNetwork/elrond-vm-common"
	"github.com/ElrondNetwork/elrond-vm-common/parsers"
)

// PeerInfo is what the validator statistics say about a BLS key (environment of the staking SC).
type PeerInfo struct {
	List       string
	TempRating uint32
}

// Chance is the chance computer handed to the vmContext: rating 1 is "bad" (below the chance of rating 0).
type Chance struct{}

// GetChance -
func (Chance) GetChance(rating uint32) uint32 {
	if rating == 1 {
		return 1
	}
	if rating == 0 {
		return 5
	}
	return 10
}

// IsInterfaceNil -
func (Chance) IsInterfaceNil() bool { return false }

// World is the committed chain state the system VM runs on.
type World struct {
	Storage  map[string]map[string][]byte
	Balances map[string]*big.Int
	Codes    map[string][]byte // code of deployed (delegation) contracts: address -> code address
	Peers    map[string]*PeerInfo
	Nonce    uint64
	Round    uint64
	Epoch    uint32

	Eei       vm.ContextHandler
	Container vm.SystemSCContainer
}

// NewWorld builds the world and a real vmContext over it.
func NewWorld() (*World, error) {
	w := &World{
		Storage:  map[string]map[string][]byte{},
		Balances: map[string]*big.Int{},
		Codes:    map[string][]byte{},
		Peers:    map[string]*PeerInfo{},
	}
	hook := &mock.BlockChainHookStub{
		GetStorageDataCalled: func(addr []byte, index []byte) ([]byte, error) {
			m := w.Storage[string(addr)]
			if m == nil {
				return nil, nil
			}
			v := m[string(index)]
			if v == nil {
				return nil, nil
			}
			return append([]byte(nil), v...), nil
		},
		GetUserAccountCalled: func(addr []byte) (vmcommon.UserAccountHandler, error) {
			acc, err := state.NewUserAccount(addr)
			if err != nil {
				return nil, err
			}
			if b := w.Balances[string(addr)]; b != nil {
				_ = acc.AddToBalance(b)
			}
			return acc, nil
		},
		CurrentNonceCalled: func() uint64 { return w.Nonce },
		CurrentRoundCalled: func() uint64 { return w.Round },
		CurrentEpochCalled: func() uint32 { return w.Epoch },
		CurrentRandomSeedCalled: func() []byte {
			return []byte("seed")
		},
		NumberOfShardsCalled: func() uint32 { return 1 },
		GetCodeCalled: func(acc vmcommon.UserAccountHandler) []byte {
			if acc == nil {
				return nil
			}
			return w.Codes[string(acc.AddressBytes())]
		},
	}
	accounts := &testscommon.AccountsStub{
		GetExistingAccountCalled: func(addr []byte) (vmcommon.AccountHandler, error) {
			p := w.Peers[string(addr)]
			if p == nil {
				return nil, errors.New("not found")
			}
			pa, err := state.NewPeerAccount(addr)
			if err != nil {
				return nil, err
			}
			pa.SetListAndIndex(0, p.List, 0)
			pa.SetTempRating(p.TempRating)
			return pa, nil
		},
	}
	eei, err := systemSmartContracts.NewVMContext(hook, hooks.NewVMCryptoHook(), parsers.NewCallArgsParser(), accounts, Chance{})
	if err != nil {
		return nil, err
	}
	w.Eei = eei
	w.Container = vmfactory.NewSystemSCContainer()
	if err = eei.SetSystemSCContainer(w.Container); err != nil {
		return nil, err
	}
	return w, nil
}

// Result of one top-level call.
type Result struct {
	Code      vmcommon.ReturnCode
	Message   string
	Data      [][]byte
	Transfers []Transfer // output transfers, sorted by destination
	Output    *vmcommon.VMOutput
}

// Transfer is one output transfer of value to Dest.
type Transfer struct {
	Dest  string
	Value *big.Int
}

// Get reads committed storage.
func (w *World) Get(addr []byte, key []byte) []byte {
	m := w.Storage[string(addr)]
	if m == nil {
		return nil
	}
	return m[string(key)]
}

// Set writes committed storage directly (environment set-up).
func (w *World) Set(addr []byte, key []byte, val []byte) {
	m := w.Storage[string(addr)]
	if m == nil {
		m = map[string][]byte{}
		w.Storage[string(addr)] = m
	}
	if len(val) == 0 {
		delete(m, string(key))
		return
	}
	m[string(key)] = append([]byte(nil), val...)
}

// Balance returns the committed balance.
func (w *World) Balance(addr []byte) *big.Int {
	b := w.Balances[string(addr)]
	if b == nil {
		return big.NewInt(0)
	}
	return big.NewInt(0).Set(b)
}

func (w *World) addBalance(addr string, d *big.Int) {
	b := w.Balances[addr]
	if b == nil {
		b = big.NewInt(0)
		w.Balances[addr] = b
	}
	b.Add(b, d)
}

// Call runs one top-level transaction (systemVM.RunSmartContractCall) and commits its output on Ok.
// The caller's balance is debited by the call value first (the transaction processor does that before the VM
// runs) and refunded when the call fails.
func (w *World) Call(recipient, caller []byte, function string, args [][]byte, value *big.Int) *Result {
	if value == nil {
		value = big.NewInt(0)
	}
	input := &vmcommon.ContractCallInput{
		VMInput: vmcommon.VMInput{
			CallerAddr:  caller,
			Arguments:   args,
			CallValue:   big.NewInt(0).Set(value),
			GasProvided: 1000000000,
			CallType:    vmcommon.DirectCall,
		},
		RecipientAddr: recipient,
		Function:      function,
	}
	// --- vm/process/systemVM.go RunSmartContractCall
	w.Eei.CleanCache()
	w.Eei.SetSCAddress(input.RecipientAddr)
	w.Eei.AddTxValueToSmartContract(input.CallValue, input.RecipientAddr)
	w.Eei.SetGasProvided(input.GasProvided)
	contract, err := w.Eei.GetContract(input.RecipientAddr)
	if err != nil {
		return &Result{Code: vmcommon.ExecutionFailed, Message: err.Error()}
	}
	if function == core.SCDeployInitFunctionName {
		return &Result{Code: vmcommon.UserError, Message: "cannot call smart contract init function"}
	}
	code := contract.Execute(input)
	out := w.Eei.CreateVMOutput()
	out.ReturnCode = code
	// --- end
	res := &Result{Code: code, Message: out.ReturnMessage, Data: out.ReturnData, Output: out}
	if code != vmcommon.Ok {
		w.Eei.CleanCache()
		return res
	}
	w.addBalance(string(caller), big.NewInt(0).Neg(value))
	addrs := make([]string, 0, len(out.OutputAccounts))
	for a := range out.OutputAccounts {
		addrs = append(addrs, a)
	}
	sort.Strings(addrs)
	for _, a := range addrs {
		oa := out.OutputAccounts[a]
		for k, su := range oa.StorageUpdates {
			w.Set([]byte(a), []byte(k), su.Data)
		}
		if oa.BalanceDelta != nil && oa.BalanceDelta.Sign() != 0 {
			w.addBalance(a, oa.BalanceDelta)
		}
		if len(oa.Code) > 0 {
			w.Codes[a] = append([]byte(nil), oa.Code...)
		}
		for _, tr := range oa.OutputTransfers {
			if tr.Value != nil && tr.Value.Sign() > 0 {
				res.Transfers = append(res.Transfers, Transfer{Dest: a, Value: big.NewInt(0).Set(tr.Value)})
			}
		}
	}
	w.Eei.CleanCache()
	return res
}

// Query runs a view function and discards its output (nothing is committed).
func (w *World) Query(recipient, caller []byte, function string, args [][]byte) (vmcommon.ReturnCode, [][]byte) {
	input := &vmcommon.ContractCallInput{
		VMInput: vmcommon.VMInput{
			CallerAddr:  caller,
			Arguments:   args,
			CallValue:   big.NewInt(0),
			GasProvided: 1000000000,
			CallType:    vmcommon.DirectCall,
		},
		RecipientAddr: recipient,
		Function:      function,
	}
	w.Eei.CleanCache()
	w.Eei.SetSCAddress(recipient)
	w.Eei.SetGasProvided(input.GasProvided)
	contract, err := w.Eei.GetContract(recipient)
	if err != nil {
		return vmcommon.ExecutionFailed, nil
	}
	code := contract.Execute(input)
	out := w.Eei.CreateVMOutput()
	w.Eei.CleanCache()
	return code, out.ReturnData
}

// Init runs the deploy-time init function of a contract (genesis does this through DeploySystemSC / direct Execute).
func (w *World) Init(recipient, caller []byte, args [][]byte) vmcommon.ReturnCode {
	input := &vmcommon.ContractCallInput{
		VMInput: vmcommon.VMInput{
			CallerAddr: caller,
			Arguments:  args,
			CallValue:  big.NewInt(0),
		},
		RecipientAddr: recipient,
		Function:      core.SCDeployInitFunctionName,
	}
	w.Eei.CleanCache()
	w.Eei.SetSCAddress(recipient)
	contract, err := w.Eei.GetContract(recipient)
	if err != nil {
		return vmcommon.ExecutionFailed
	}
	code := contract.Execute(input)
	out := w.Eei.CreateVMOutput()
	if code == vmcommon.Ok {
		for a, oa := range out.OutputAccounts {
			for k, su := range oa.StorageUpdates {
				w.Set([]byte(a), []byte(k), su.Data)
			}
			if oa.BalanceDelta != nil && oa.BalanceDelta.Sign() != 0 {
				w.addBalance(a, oa.BalanceDelta)
			}
		}
	}
	w.Eei.CleanCache()
	return code
}
