// vh-forkdetector binds specs/ForkDetector to process/sync.shardForkDetector and metaForkDetector.
//
//	vh-forkdetector replay <behaviours.ndjson>   behaviours of ForkDetector.tla -> one real detector each
//	vh-forkdetector twin   <behaviours.ndjson>   behaviours of ForkTwin.tla -> two real detectors (A, B) fed with
//	                                             permuted arrival orders of competing headers
//	vh-forkdetector record <seed> <traces> <len> <out>   random histories on real detectors -> trace for Trace_ForkDetector
//
// The harness only drives the real detectors, projects what the public API shows and compares.  The expected
// values come from the TLA+ specification.  Verdicts:
//   - C20a (literal): a CheckFork result with IsDetected and Nonce <= GetHighestFinalBlockNonce() while no roll back
//     nonce was pending (the "consensus stuck" answer carries Nonce = MaxUint64 and can never match) -> violation
//   - C20b (literal): the two detectors of a twin run answer CheckFork with different (detected, nonce, hash) -> violation
//   - any other difference between the real detector and the specification's prediction -> drift (not an alarm)
package main

import (
	"bufio"
	"encoding/json"
	"fmt"
	"io"
	"math"
	"math/rand"
	"os"
	"strconv"
	"time"

	"github.com/ElrondNetwork/elrond-go/core"
	"github.com/ElrondNetwork/elrond-go/data"
	"github.com/ElrondNetwork/elrond-go/data/block"
	"github.com/ElrondNetwork/elrond-go/process"
	"github.com/ElrondNetwork/elrond-go/process/mock"
	"github.com/ElrondNetwork/elrond-go/process/sync"
	"github.com/ElrondNetwork/elrond-go/storage/timecache"
	"verif/harness/internal/vtrace"
)

type M = vtrace.M

const (
	inf         = 999999 // the specification's name for math.MaxUint64
	genesisTime = int64(1000)
	roundSecs   = 6
)

// detector is what both real detectors offer
type detector interface {
	process.ForkDetector
}

type shardExtra interface {
	ReceivedSelfNotarizedFromCrossHeaders(shardID uint32, hdrs []data.HeaderHandler, hashes [][]byte)
}

type attr struct {
	Nonce, Round, Epoch, Prev int
	Bad                       bool
}

// sut is one real detector plus the driver's bookkeeping
type sut struct {
	kind     string
	fd       detector
	rh       *mock.RoundHandlerMock
	u        []attr // universe, index = hash id - 1
	maxNonce int
	pending  bool   // a roll back nonce was set and not yet consumed by CheckFork
	pendingN uint64 // its value
}

func hashOf(id int) []byte {
	if id == 0 {
		return nil
	}
	h := make([]byte, 32)
	h[0] = byte(id >> 8)
	h[1] = byte(id)
	for i := 2; i < 32; i++ {
		h[i] = 0xab
	}
	return h
}

func idOf(h []byte) int {
	if len(h) == 0 {
		return 0
	}
	return int(h[0])<<8 | int(h[1])
}

func fromU64(x uint64) int {
	if x == math.MaxUint64 {
		return inf
	}
	return int(x)
}

func (s *sut) header(id int) data.HeaderHandler {
	a := s.u[id-1]
	ts := uint64(genesisTime) + uint64(a.Round)*roundSecs
	if a.Bad {
		ts++
	}
	if s.kind == "meta" {
		return &block.MetaBlock{Nonce: uint64(a.Nonce), Round: uint64(a.Round), Epoch: uint32(a.Epoch),
			PrevHash: hashOf(a.Prev), TimeStamp: ts}
	}
	return &block.Header{Nonce: uint64(a.Nonce), Round: uint64(a.Round), Epoch: uint32(a.Epoch),
		PrevHash: hashOf(a.Prev), TimeStamp: ts}
}

func newSut(kind string, round int, u []attr) *sut {
	rh := &mock.RoundHandlerMock{RoundIndex: int64(round), RoundTimeDuration: roundSecs * time.Second}
	bl := timecache.NewTimeCache(time.Hour)
	bt := &mock.BlockTrackerMock{}
	s := &sut{kind: kind, rh: rh, u: u}
	for _, a := range u {
		if a.Nonce > s.maxNonce {
			s.maxNonce = a.Nonce
		}
	}
	var err error
	if kind == "meta" {
		s.fd, err = sync.NewMetaForkDetector(rh, bl, bt, genesisTime)
	} else {
		s.fd, err = sync.NewShardForkDetector(rh, bl, bt, genesisTime)
	}
	if err != nil {
		panic(err)
	}
	return s
}

func parseU(v interface{}) []attr {
	arr := v.([]interface{})
	u := make([]attr, len(arr))
	for i, x := range arr {
		m := x.(map[string]interface{})
		u[i] = attr{Nonce: vtrace.Int(m["nonce"]), Round: vtrace.Int(m["round"]), Epoch: vtrace.Int(m["epoch"]),
			Prev: vtrace.Int(m["prev"]), Bad: m["bad"].(bool)}
	}
	return u
}

func errCode(err error) string {
	switch err {
	case nil:
		return "ok"
	case process.ErrHeaderIsBlackListed:
		return "blacklisted"
	case sync.ErrGenesisTimeMissmatch:
		return "genesisTime"
	case sync.ErrLowerRoundInBlock:
		return "lowerRound"
	case sync.ErrLowerNonceInBlock:
		return "lowerNonce"
	case sync.ErrHigherRoundInBlock:
		return "higherRound"
	case sync.ErrHigherNonceInBlock:
		return "higherNonce"
	}
	return "other:" + err.Error()
}

func forkOut(fi *process.ForkInfo) M {
	return M{"det": fi.IsDetected, "nonce": fromU64(fi.Nonce), "round": fromU64(fi.Round), "h": idOf(fi.Hash)}
}

func (s *sut) lists(nl []int) ([]data.HeaderHandler, [][]byte) {
	hs := make([]data.HeaderHandler, len(nl))
	hh := make([][]byte, len(nl))
	for i, id := range nl {
		hs[i] = s.header(id)
		hh[i] = hashOf(id)
	}
	return hs, hh
}

// checkFork calls the real CheckFork, keeps the roll back bookkeeping and evaluates C20a literally
func (s *sut) checkFork(where string, onViolation func(sig, what string)) M {
	final := s.fd.GetHighestFinalBlockNonce()
	pendingBefore, pendingN := s.pending, s.pendingN
	fi := s.fd.CheckFork()
	isStuckAnswer := fi.IsDetected && fi.Nonce == math.MaxUint64
	if !isStuckAnswer {
		s.pending = false
	}
	rollBackAnswer := pendingBefore && fi.IsDetected && fi.Nonce == pendingN
	if fi.IsDetected && !rollBackAnswer && fi.Nonce <= final {
		onViolation("C20/"+s.kind+"/fork-at-or-below-final",
			fmt.Sprintf("%s detector: CheckFork reports a fork at nonce %d (hash id %d) while the highest final nonce is %d, no roll back nonce pending, consensus not stuck (%s)",
				s.kind, fi.Nonce, idOf(fi.Hash), final, where))
	}
	return forkOut(fi)
}

// apply executes one action of the specification on the real detector, returns the observable result
func (s *sut) apply(a string, in map[string]interface{}, onViolation func(sig, what string)) M {
	switch a {
	case "AddHeader":
		id := vtrace.Int(in["h"])
		var st process.BlockHeaderState
		switch vtrace.Str(in["state"]) {
		case "recv":
			st = process.BHReceived
		case "proc":
			st = process.BHProcessed
		case "prop":
			st = process.BHProposed
		default:
			panic("state " + vtrace.Str(in["state"]))
		}
		hs, hh := s.lists(vtrace.Ints(in["nl"]))
		err := s.fd.AddHeader(s.header(id), hashOf(id), st, hs, hh)
		return M{"err": errCode(err)}
	case "Notarized":
		hs, hh := s.lists(vtrace.Ints(in["nl"]))
		s.fd.(shardExtra).ReceivedSelfNotarizedFromCrossHeaders(core.MetachainShardId, hs, hh)
	case "Remove":
		s.fd.RemoveHeader(uint64(vtrace.Int(in["n"])), hashOf(vtrace.Int(in["h"])))
	case "ResetFork":
		s.fd.ResetFork()
	case "ResetProbable":
		s.fd.ResetProbableHighestNonce()
	case "SetRollBack":
		n := vtrace.Int(in["n"])
		s.fd.SetRollBackNonce(uint64(n))
		s.pending, s.pendingN = true, uint64(n)
	case "Restore":
		s.fd.RestoreToGenesis()
	case "SetFinalToLast":
		s.fd.SetFinalToLastCheckpoint()
	case "Tick":
		s.rh.RoundIndex = int64(vtrace.Int(in["r"]))
	case "CheckFork":
		return s.checkFork("CheckFork action", onViolation)
	default:
		panic("unknown action " + a)
	}
	return M{"x": 0}
}

// proj is the public projection of the real detector (same shape as Proj in ForkDetectorOps.tla)
func (s *sut) proj(where string, onViolation func(sig, what string)) M {
	nota := make([]int, s.maxNonce+1)
	for n := 0; n <= s.maxNonce; n++ {
		nota[n] = idOf(s.fd.GetNotarizedHeaderHash(uint64(n)))
	}
	m := M{"final": int(s.fd.GetHighestFinalBlockNonce()), "finalHash": idOf(s.fd.GetHighestFinalBlockHash()),
		"probable": int(s.fd.ProbableHighestNonce()), "obs": !s.pending, "nota": nota}
	if !s.pending {
		m["chk"] = s.checkFork(where, onViolation)
	} else {
		m["chk"] = M{"det": false, "nonce": inf, "round": inf, "h": 0}
	}
	return m
}

func num(v interface{}) interface{} {
	if f, ok := v.(float64); ok {
		return int(f)
	}
	return v
}

func eqM(pred map[string]interface{}, got M) bool {
	for k, g := range got {
		p, ok := pred[k]
		if !ok {
			return false
		}
		if gm, isM := g.(M); isM {
			pm, ok2 := p.(map[string]interface{})
			if !ok2 || !eqM(pm, gm) {
				return false
			}
			continue
		}
		if gi, isI := g.([]int); isI {
			if !eqIntsAny(p, gi) {
				return false
			}
			continue
		}
		if fmt.Sprint(num(p)) != fmt.Sprint(num(g)) {
			return false
		}
	}
	return true
}

// eqIntsAny compares a []int with a JSON array or a JSON object keyed "0","1",... (TLA+ function over 0..n)
func eqIntsAny(p interface{}, g []int) bool {
	switch x := p.(type) {
	case []interface{}:
		if len(x) != len(g) {
			return false
		}
		for i := range x {
			if vtrace.Int(x[i]) != g[i] {
				return false
			}
		}
		return true
	case map[string]interface{}:
		if len(x) != len(g) {
			return false
		}
		for i := range g {
			v, ok := x[strconv.Itoa(i)]
			if !ok || vtrace.Int(v) != g[i] {
				return false
			}
		}
		return true
	}
	return false
}

// selection is the fork a CheckFork answer selects: (nonce, hash), or nothing (no fork / the "stuck" answer)
func selection(c M) string {
	if c["det"].(bool) && vtrace.Int(c["nonce"]) < inf {
		return fmt.Sprint(c["nonce"], "/", c["h"])
	}
	return "none"
}

type reporter struct {
	nviol   map[string]int
	ndrift  int
	current interface{}
}

func (r *reporter) violation(sig, what string) {
	r.nviol[sig]++
	if r.nviol[sig] <= 2 {
		vtrace.Violation("C20", sig, what, M{"behaviour": r.current})
	}
}

func (r *reporter) drift(what string) {
	r.ndrift++
	if r.ndrift <= 3 {
		vtrace.Drift("C20", what, M{"behaviour": r.current})
	}
}

func (r *reporter) total() int {
	t := 0
	for _, n := range r.nviol {
		t += n
	}
	return t
}

// eachLine streams an ndjson file (behaviour files can be hundreds of MB)
func eachLine(path string, f func(i int, raw []byte) error) error {
	fh, err := os.Open(path)
	if err != nil {
		return err
	}
	defer fh.Close()
	r := bufio.NewReaderSize(fh, 1<<20)
	for i := 0; ; {
		line, err := r.ReadBytes('\n')
		if len(line) > 1 {
			if e := f(i, line); e != nil {
				return e
			}
			i++
		}
		if err == io.EOF {
			return nil
		}
		if err != nil {
			return err
		}
	}
}

func replay(path string) {
	rep := &reporter{nviol: map[string]int{}}
	distinct := vtrace.NewDistinct()
	forks := vtrace.NewDistinct()
	steps, obs, nb := 0, 0, 0
	err := eachLine(path, func(bi int, raw []byte) error {
		var b []vtrace.Step
		if e := json.Unmarshal(raw, &b); e != nil {
			return fmt.Errorf("behaviour %d: %v", bi, e)
		}
		nb++
		rep.current = b
		var s *sut
		drifted := false
		for si, st := range b {
			where := fmt.Sprintf("behaviour %d step %d (%s)", bi, si, st.A)
			if st.A == "New" {
				s = newSut(vtrace.Str(st.In["kind"]), vtrace.Int(st.In["round"]), parseU(st.In["U"]))
				continue
			}
			got := s.apply(st.A, st.In, rep.violation)
			steps++
			p := s.proj(where, rep.violation)
			if p["obs"].(bool) {
				obs++
				if c := p["chk"].(M); c["det"].(bool) {
					forks.Add(fmt.Sprint(s.kind, b[0].In["U"], c, p["final"]))
				}
			}
			if !drifted && (!eqM(st.Out, got) || !eqM(st.St, p)) {
				drifted = true
				rep.drift(fmt.Sprintf("%s detector differs from ForkDetector.tla at %s: real result %v state %v, specification result %v state %v",
					s.kind, where, got, p, st.Out, st.St))
			}
		}
		if len(b) > 1 {
			last := b[len(b)-1]
			distinct.Add(fmt.Sprint(b[0].In, b[len(b)-2].St, last.A, last.In))
		}
		if bi < 3 {
			vtrace.Sample("C20", b)
		}
		return nil
	})
	if err != nil {
		vtrace.Broken(err.Error())
		return
	}
	vtrace.Stat("behaviours", nb)
	vtrace.Stat("steps", steps)
	vtrace.Stat("checkfork_observations", obs)
	vtrace.Stat("distinct_transitions", distinct.Len())
	vtrace.Stat("distinct_forks_reported", forks.Len())
	vtrace.Stat("drifts", rep.ndrift)
	vtrace.Stat("violations", rep.total())
}

// twin replays behaviours of ForkTwin.tla on two real detectors
func twin(path string) {
	type tstep struct {
		A   string                 `json:"a"`
		In  map[string]interface{} `json:"in"`
		Out map[string]interface{} `json:"out"`
		St  map[string]interface{} `json:"st"`
	}
	rep := &reporter{nviol: map[string]int{}}
	distinct := vtrace.NewDistinct()
	steps, groups, forkStates, nb := 0, 0, 0, 0
	err := eachLine(path, func(bi int, raw []byte) error {
		var b []tstep
		if e := json.Unmarshal(raw, &b); e != nil {
			return fmt.Errorf("twin behaviour %d: %v", bi, e)
		}
		nb++
		rep.current = json.RawMessage(append([]byte(nil), raw...))
		var sa, sb *sut
		drifted := false
		grouped := false
		asym := false
		key := ""
		for si, st := range b {
			where := fmt.Sprintf("twin behaviour %d step %d (%s)", bi, si, st.A)
			if st.A == "New" {
				u := parseU(st.In["U"])
				sa = newSut(vtrace.Str(st.In["kind"]), vtrace.Int(st.In["round"]), u)
				sb = newSut(vtrace.Str(st.In["kind"]), vtrace.Int(st.In["round"]), u)
				key = fmt.Sprint(st.In)
				continue
			}
			var ga, gb M
			if st.A == "Group" {
				groups++
				grouped = true
				ea, eb := map[int]string{}, map[int]string{}
				for _, id := range vtrace.Ints(st.In["oa"]) {
					ea[id] = fmt.Sprint(sa.apply("AddHeader", M{"h": id, "state": "recv", "nl": []interface{}{}}, rep.violation)["err"])
				}
				for _, id := range vtrace.Ints(st.In["ob"]) {
					eb[id] = fmt.Sprint(sb.apply("AddHeader", M{"h": id, "state": "recv", "nl": []interface{}{}}, rep.violation)["err"])
				}
				for id, e := range ea {
					if eb[id] != e {
						asym = true // a member was accepted in one arrival order and rejected in the other
					}
				}
				ga, gb = M{"x": 0}, M{"x": 0}
			} else {
				ga = sa.apply(st.A, st.In, rep.violation)
				gb = sb.apply(st.A, st.In, rep.violation)
			}
			steps++
			key += fmt.Sprint("|", st.A, st.In)
			pa := sa.proj(where+" copy A", rep.violation)
			pb := sb.proj(where+" copy B", rep.violation)
			// C20b, literally: same answer from both copies (explicit CheckFork calls and per-step observations)
			if grouped {
				ca, cb := pa["chk"].(M), pb["chk"].(M)
				if st.A == "CheckFork" {
					ca, cb = ga, gb
				}
				if ca["det"].(bool) || cb["det"].(bool) {
					forkStates++
				}
				if selection(ca) != selection(cb) {
					sig := "C20/" + sa.kind + "/fork-choice-depends-on-arrival-order"
					note := ""
					if asym {
						sig += "/member-rejected-in-one-order-only"
						note = " (a member of the group was rejected by AddHeader in one arrival order and accepted in the other)"
					}
					rep.violation(sig,
						fmt.Sprintf("%s detector: two runs that differ only by the arrival order of competing received headers answer CheckFork differently at %s: A=%v B=%v%s",
							sa.kind, where, ca, cb, note))
				}
			}
			if !drifted {
				oa, _ := st.Out["A"].(map[string]interface{})
				ob, _ := st.Out["B"].(map[string]interface{})
				xa, _ := st.St["A"].(map[string]interface{})
				xb, _ := st.St["B"].(map[string]interface{})
				if !eqM(oa, ga) || !eqM(ob, gb) || !eqM(xa, pa) || !eqM(xb, pb) {
					drifted = true
					rep.drift(fmt.Sprintf("%s detectors differ from ForkTwin.tla at %s: real A %v %v B %v %v, specification out %v st %v",
						sa.kind, where, ga, pa, gb, pb, st.Out, st.St))
				}
			}
		}
		distinct.Add(key)
		if bi < 2 {
			vtrace.Sample("C20", json.RawMessage(append([]byte(nil), raw...)))
		}
		return nil
	})
	if err != nil {
		vtrace.Broken(err.Error())
		return
	}
	vtrace.Stat("behaviours", nb)
	vtrace.Stat("steps", steps)
	vtrace.Stat("groups", groups)
	vtrace.Stat("twin_states_with_fork", forkStates)
	vtrace.Stat("distinct_twins", distinct.Len())
	vtrace.Stat("drifts", rep.ndrift)
	vtrace.Stat("violations", rep.total())
}

// record drives real detectors with seeded random histories over a larger random universe and logs one event per
// call for Trace_ForkDetector.tla.  Twin detectors with permuted groups are driven as well and compared directly.
func record(seed int64, traces, n int, out string) {
	w, err := vtrace.NewWriter(out)
	if err != nil {
		vtrace.Broken(err.Error())
		return
	}
	rng := rand.New(rand.NewSource(seed))
	rep := &reporter{nviol: map[string]int{}}
	forks := 0
	for t := 0; t < traces; t++ {
		kind := "shard"
		if t%2 == 1 {
			kind = "meta"
		}
		// random universe: nonces 1..N, 1..3 competitors per nonce, rounds increasing with the nonce
		nn := 3 + rng.Intn(4)
		var u []attr
		byNonce := map[int][]int{}
		for nonce := 1; nonce <= nn; nonce++ {
			k := 1 + rng.Intn(3)
			for j := 0; j < k; j++ {
				prev := 0
				if c := byNonce[nonce-1]; len(c) > 0 {
					prev = c[rng.Intn(len(c))]
				}
				a := attr{Nonce: nonce, Round: nonce + rng.Intn(3), Epoch: 0, Prev: prev, Bad: rng.Intn(25) == 0}
				if rng.Intn(6) == 0 {
					a.Epoch = 1
				}
				u = append(u, a)
				byNonce[nonce] = append(byNonce[nonce], len(u))
			}
		}
		// hash ids in random order relative to creation order: shuffle the universe
		rng.Shuffle(len(u), func(i, j int) { u[i], u[j] = u[j], u[i] })
		// prev references were indices before the shuffle: rebuild them as "some header of nonce-1" after it
		byNonce = map[int][]int{}
		for i, a := range u {
			byNonce[a.Nonce] = append(byNonce[a.Nonce], i+1)
		}
		for i := range u {
			u[i].Prev = 0
			if c := byNonce[u[i].Nonce-1]; len(c) > 0 {
				u[i].Prev = c[rng.Intn(len(c))]
			}
		}
		round := 1
		s := newSut(kind, round, u)
		um := make([]M, len(u))
		for i, a := range u {
			um[i] = M{"nonce": a.Nonce, "round": a.Round, "epoch": a.Epoch, "prev": a.Prev, "bad": a.Bad}
		}
		rep.current = M{"trace": t, "kind": kind, "U": um}
		w.NewTraceWith("New", M{"kind": kind, "round": round, "U": um}, M{"x": 0}, s.proj("New", rep.violation))
		for i := 0; i < n; i++ {
			var a string
			in := M{}
			h := 1 + rng.Intn(len(u))
			switch r := rng.Intn(100); {
			case r < 30:
				a, in = "AddHeader", M{"h": h, "state": "recv", "nl": []int{}}
			case r < 33:
				a, in = "AddHeader", M{"h": h, "state": "prop", "nl": []int{}}
			case r < 55:
				nl := []int{}
				if kind == "shard" {
					for j := rng.Intn(3); j > 0; j-- {
						nl = append(nl, 1+rng.Intn(len(u)))
					}
				}
				a, in = "AddHeader", M{"h": h, "state": "proc", "nl": nl}
			case r < 65 && kind == "shard":
				nl := []int{h}
				if rng.Intn(3) == 0 {
					nl = append(nl, 1+rng.Intn(len(u)))
				}
				a, in = "Notarized", M{"nl": nl}
			case r < 72:
				a, in = "Remove", M{"n": u[h-1].Nonce, "h": h}
			case r < 74:
				a = "ResetFork"
			case r < 76:
				a = "ResetProbable"
			case r < 78:
				a, in = "SetRollBack", M{"n": 1 + rng.Intn(nn)}
			case r < 79:
				a = "Restore"
			case r < 80:
				a = "SetFinalToLast"
			case r < 92:
				round += 1
				if rng.Intn(12) == 0 {
					round += 9 + rng.Intn(8)
				}
				a, in = "Tick", M{"r": round}
			default:
				a = "CheckFork"
			}
			jin := map[string]interface{}{}
			bb, _ := json.Marshal(in)
			_ = json.Unmarshal(bb, &jin)
			got := s.apply(a, jin, rep.violation)
			p := s.proj(fmt.Sprintf("trace %d event %d (%s)", t, i, a), rep.violation)
			if c, ok := p["chk"].(M); ok && c["det"].(bool) {
				forks++
			}
			w.Emit(a, in, got, p)
		}
	}
	if err := w.Close(); err != nil {
		vtrace.Broken(err.Error())
	}
	vtrace.Stat("events", w.N)
	vtrace.Stat("traces", traces)
	vtrace.Stat("states_with_fork", forks)
	vtrace.Stat("violations", rep.total())
}

func main() {
	vtrace.Quiet()
	if len(os.Args) < 3 {
		fmt.Fprintln(os.Stderr, "usage: vh-forkdetector replay|twin <file> | record <seed> <traces> <len> <out>")
		os.Exit(2)
	}
	switch os.Args[1] {
	case "replay":
		replay(os.Args[2])
	case "twin":
		twin(os.Args[2])
	case "record":
		seed, _ := strconv.ParseInt(os.Args[2], 10, 64)
		traces, _ := strconv.Atoi(os.Args[3])
		n, _ := strconv.Atoi(os.Args[4])
		record(seed, traces, n, os.Args[5])
	default:
		os.Exit(2)
	}
}
