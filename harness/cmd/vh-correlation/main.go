// vh-correlation binds specs/Correlation (property C19) to the real
// process/block.baseProcessor.checkHeaderBodyCorrelation (and createMiniBlockHeaders), reached through the
// verif-only exporter process/block/correlation_verif.go on a bare baseProcessor{marshalizer, hasher} with the
// real protobuf marshalizer and blake2b hasher.
//
//	vh-correlation record <seed> <n> <out> random bodies (up to 5 miniblocks) with honest and perturbed header lists on the
//	                                       real functions -> trace for Trace_Correlation
//	vh-correlation replay <cases.ndjson>   TLC-enumerated (header miniblock list, body) pairs with the specification's
//	                                       Exact predicate -> real function; accepted && !Exact is the violation
//
// No model logic here: Exact, the class of the case and the honest header come from TLA+; Go only turns the
// abstract miniblocks into block.MiniBlock values and abstract hashes into real hashes of those values.
package main

import (
	"errors"
	"fmt"
	"math/rand"
	"os"
	"strconv"

	"github.com/ElrondNetwork/elrond-go/core"
	"github.com/ElrondNetwork/elrond-go/data/block"
	"github.com/ElrondNetwork/elrond-go/hashing/blake2b"
	"github.com/ElrondNetwork/elrond-go/marshal"
	"github.com/ElrondNetwork/elrond-go/process"
	blproc "github.com/ElrondNetwork/elrond-go/process/block"
	"verif/harness/internal/vtrace"
)

type M = vtrace.M

const prop = "C19"

var (
	marsh  = &marshal.GogoProtoMarshalizer{}
	hasher = blake2b.NewBlake2b()
	sut    = blproc.NewHeaderBodyCorrelationVerif(marsh, hasher)
)

func must(err error) {
	if err != nil {
		vtrace.Broken("harness: " + err.Error())
		panic(err)
	}
}

// concrete miniblock of an abstract record [txs, snd, rcv, type]; type -1 is the nil pointer
func concreteMb(r map[string]interface{}) *block.MiniBlock {
	t := vtrace.Int(r["type"])
	if t < 0 {
		return nil
	}
	mb := &block.MiniBlock{
		ReceiverShardID: uint32(vtrace.Int(r["rcv"])),
		SenderShardID:   uint32(vtrace.Int(r["snd"])),
		Type:            block.Type(t),
	}
	for _, tx := range vtrace.Ints(r["txs"]) {
		h := make([]byte, 32)
		for i := range h {
			h[i] = byte(tx*17 + i)
		}
		mb.TxHashes = append(mb.TxHashes, h)
	}
	return mb
}

func hashOf(mb *block.MiniBlock) []byte {
	h, err := core.CalculateHash(marsh, hasher, mb)
	must(err)
	return h
}

func concreteEntry(e map[string]interface{}) block.MiniBlockHeader {
	return block.MiniBlockHeader{
		Hash:            hashOf(concreteMb(e["h"].(map[string]interface{}))),
		SenderShardID:   uint32(vtrace.Int(e["snd"])),
		ReceiverShardID: uint32(vtrace.Int(e["rcv"])),
		TxCount:         uint32(vtrace.Int(e["cnt"])),
		Type:            block.Type(vtrace.Int(e["type"])),
	}
}

func list(v interface{}) []map[string]interface{} {
	if v == nil {
		return nil
	}
	a := v.([]interface{})
	r := make([]map[string]interface{}, len(a))
	for i := range a {
		r[i] = a[i].(map[string]interface{})
	}
	return r
}

func classify(err error) string {
	switch {
	case err == nil:
		return "ok"
	case errors.Is(err, process.ErrHeaderBodyMismatch):
		return "mismatch"
	case errors.Is(err, process.ErrNilMiniBlock):
		return "nilMiniBlock"
	}
	return "error:" + err.Error()
}

func sameEntry(a, b block.MiniBlockHeader) bool {
	return string(a.Hash) == string(b.Hash) && a.SenderShardID == b.SenderShardID && a.ReceiverShardID == b.ReceiverShardID &&
		a.TxCount == b.TxCount && a.Type == b.Type && len(a.Reserved) == 0 && len(b.Reserved) == 0
}

func replay(path string) {
	lines, err := vtrace.ReadBehaviours(path)
	must(err)
	distinct := vtrace.NewDistinct()
	vio := map[string]int{}
	byClass := map[string]int{}
	bySpecClass := map[string]int{}
	var cases, accepted, exact, drift, honestChecked, samples int
	trivial := map[string]bool{"length-differs": true, "nil-miniblock": true, "body-miniblock-not-listed": true}
	for _, b := range lines {
		if len(b) == 0 {
			continue
		}
		st := b[len(b)-1]
		var hdr []block.MiniBlockHeader
		for _, e := range list(st.In["hdr"]) {
			hdr = append(hdr, concreteEntry(e))
		}
		body := &block.Body{}
		hasNil := false
		for _, m := range list(st.In["body"]) {
			mb := concreteMb(m)
			if mb == nil {
				hasNil = true
			}
			body.MiniBlocks = append(body.MiniBlocks, mb)
		}
		rerr := sut.CheckHeaderBodyCorrelation(hdr, body)
		got := classify(rerr)
		cases++
		byClass[got]++
		cls := vtrace.Str(st.Out["cls"])
		bySpecClass[cls]++
		isExact := st.Out["exact"].(bool)
		if isExact {
			exact++
		}
		if !trivial[cls] {
			distinct.Add(fmt.Sprint(st.In))
		}
		detail := M{"header_list": st.In["hdr"], "body": st.In["body"], "real_result": got, "real_error": fmt.Sprint(rerr), "spec": M{
			"exact": isExact, "cls": cls, "resIntended": st.Out["resIntended"], "resAsCoded": st.Out["resAsCoded"]}}
		if got == "ok" {
			accepted++
			// the property: accepted only if the body's miniblocks are exactly those listed in the header
			if !isExact {
				sig := "C19/accepted-not-exact/" + cls
				vio[sig]++
				if vio[sig] == 1 {
					vtrace.Violation(prop, sig, fmt.Sprintf("checkHeaderBodyCorrelation accepted a body that is not exactly the header's "+
						"miniblock list (%s): header entries %v, body %v", cls, brief(st.In["hdr"], true), brief(st.In["body"], false)), detail)
				}
			}
		}
		if got != vtrace.Str(st.Out["resIntended"]) && got != vtrace.Str(st.Out["resAsCoded"]) {
			drift++
			if drift <= 3 {
				vtrace.Drift(prop, fmt.Sprintf("checkHeaderBodyCorrelation returned %q; specification predicts %q (intended) / %q (as coded) for header %v body %v",
					got, st.Out["resIntended"], st.Out["resAsCoded"], brief(st.In["hdr"], true), brief(st.In["body"], false)), detail)
			}
		}
		// createMiniBlockHeaders(body) against the specification's HonestHeader(body) (property-neutral: drift)
		if !hasNil && len(hdr) == 0 {
			honestChecked++
			_, real, herr := sut.CreateMiniBlockHeaders(body)
			var want []block.MiniBlockHeader
			for _, e := range list(st.Out["honest"]) {
				want = append(want, concreteEntry(e))
			}
			ok := herr == nil && len(real) == len(want)
			for i := 0; ok && i < len(real); i++ {
				ok = sameEntry(real[i], want[i])
			}
			if !ok {
				drift++
				vtrace.Drift(prop, fmt.Sprintf("createMiniBlockHeaders(%v) differs from the specification's honest header", brief(st.In["body"], false)), detail)
			} else if len(real) > 0 {
				// and the honest header must be accepted for its own body by the real check
				e2 := classify(sut.CheckHeaderBodyCorrelation(real, body))
				if e2 != vtrace.Str(st.Out["honestIntended"]) && e2 != vtrace.Str(st.Out["honestAsCoded"]) {
					drift++
					vtrace.Drift(prop, fmt.Sprintf("the header built by createMiniBlockHeaders for body %v gets %q from the real check; specification: %q / %q",
						brief(st.In["body"], false), e2, st.Out["honestIntended"], st.Out["honestAsCoded"]), detail)
				}
			}
		}
		if samples < 3 && got == "ok" && len(hdr) >= 2 {
			samples++
			vtrace.Sample(prop, M{"header": brief(st.In["hdr"], true), "body": brief(st.In["body"], false), "real": got, "spec_exact": isExact})
		}
	}
	if samples == 0 && len(lines) > 0 {
		vtrace.Sample(prop, M{"in": lines[0][0].In, "out": lines[0][0].Out})
	}
	vtrace.Stat("behaviours", len(lines))
	vtrace.Stat("steps", cases)
	vtrace.Stat("distinct", distinct.Len())
	vtrace.Stat("accepted", accepted)
	vtrace.Stat("exact", exact)
	vtrace.Stat("honest_headers_checked", honestChecked)
	vtrace.Stat("by_class", byClass)
	vtrace.Stat("by_spec_class", bySpecClass)
	vtrace.Stat("violating_cases", vio)
	vtrace.Stat("drift_cases", drift)
}

// brief renders abstract entries / miniblocks compactly for messages
func brief(v interface{}, entries bool) string {
	s := "["
	for i, r := range list(v) {
		if i > 0 {
			s += " "
		}
		if entries {
			s += fmt.Sprintf("{hash-of:%s snd:%v rcv:%v type:%v cnt:%v}", mbStr(r["h"].(map[string]interface{})), r["snd"], r["rcv"], r["type"], r["cnt"])
		} else {
			s += mbStr(r)
		}
	}
	return s + "]"
}

func mbStr(r map[string]interface{}) string {
	if vtrace.Int(r["type"]) < 0 {
		return "nil"
	}
	return fmt.Sprintf("mb(txs:%v snd:%v rcv:%v type:%v)", r["txs"], r["snd"], r["rcv"], r["type"])
}

// ---- R3: seeded random bodies and perturbed header lists on the real function -> trace for Trace_Correlation

type amb struct { // abstract miniblock
	txs           []int
	snd, rcv, typ int
}

func (a amb) rec() M {
	txs := make([]interface{}, len(a.txs))
	for i, t := range a.txs {
		txs[i] = t
	}
	return M{"txs": txs, "snd": a.snd, "rcv": a.rcv, "type": a.typ}
}
func (a amb) real() *block.MiniBlock { return concreteMb(a.rec()) }

type aent struct { // abstract header entry: hash of h + attributes
	h                  amb
	snd, rcv, typ, cnt int
}

func (e aent) rec() M {
	return M{"h": e.h.rec(), "snd": e.snd, "rcv": e.rcv, "type": e.typ, "cnt": e.cnt}
}
func (e aent) real() block.MiniBlockHeader {
	return block.MiniBlockHeader{Hash: hashOf(e.h.real()), SenderShardID: uint32(e.snd), ReceiverShardID: uint32(e.rcv),
		TxCount: uint32(e.cnt), Type: block.Type(e.typ)}
}
func entryOf(a amb) aent { return aent{h: a, snd: a.snd, rcv: a.rcv, typ: a.typ, cnt: len(a.txs)} }

func record(seed int64, count int, out string) {
	r := rand.New(rand.NewSource(seed))
	w, err := vtrace.NewWriter(out)
	must(err)
	w.NewTraceWith("New", M{}, M{}, M{})
	types := []int{0, 30, 60, 90, 120, 150, 255}
	for c := 0; c < count; c++ {
		// a small universe of miniblocks, some differing in one attribute only
		k := 1 + r.Intn(4)
		uni := make([]amb, 0, k+2)
		for j := 0; j < k; j++ {
			a := amb{snd: r.Intn(3), rcv: r.Intn(3), typ: types[r.Intn(len(types))], txs: []int{}}
			for t := r.Intn(4); t > 0; t-- {
				a.txs = append(a.txs, 1+r.Intn(5))
			}
			uni = append(uni, a)
		}
		v := uni[r.Intn(len(uni))] // a sibling differing in exactly one field
		v.txs = append([]int{}, v.txs...)
		switch r.Intn(4) {
		case 0:
			v.typ = types[(r.Intn(len(types)-1)+1+indexOf(types, v.typ))%len(types)]
		case 1:
			v.txs = append(v.txs, 6)
		case 2:
			v.rcv = (v.rcv + 1) % 3
		case 3:
			v.snd = (v.snd + 1) % 3
		}
		uni = append(uni, v)
		n := r.Intn(6)
		body := make([]amb, n)
		for j := range body {
			body[j] = uni[r.Intn(len(uni))]
			if j > 0 && r.Intn(5) == 0 {
				body[j] = body[r.Intn(j)] // duplicate
			}
		}
		rb := &block.Body{}
		var brec []M
		for _, a := range body {
			rb.MiniBlocks = append(rb.MiniBlocks, a.real())
			brec = append(brec, a.rec())
		}
		if brec == nil {
			brec = []M{}
		}
		// the honest list, built by the real createMiniBlockHeaders; logged in abstract form by matching real hashes
		_, realHdr, herr := sut.CreateMiniBlockHeaders(rb)
		must(herr)
		hon := make([]M, 0, len(realHdr))
		for j, e := range realHdr {
			var h amb
			found := false
			for _, a := range uni {
				if string(hashOf(a.real())) == string(e.Hash) {
					h, found = a, true
					break
				}
			}
			if !found {
				h = amb{txs: []int{99}, typ: 0} // unknown hash: cannot be the honest one
			}
			_ = j
			hon = append(hon, aent{h: h, snd: int(e.SenderShardID), rcv: int(e.ReceiverShardID), typ: int(e.Type), cnt: int(e.TxCount)}.rec())
		}
		w.Emit("Honest", M{"hdr": hon, "body": brec}, M{"res": classify(sut.CheckHeaderBodyCorrelation(realHdr, rb))}, M{})
		// a perturbed list
		hdr := make([]aent, n)
		for j := range hdr {
			hdr[j] = entryOf(body[j])
		}
		for p := r.Intn(3); p > 0 && true; p-- {
			switch op := r.Intn(8); {
			case op == 0 && len(hdr) > 1: // reorder
				a, b := r.Intn(len(hdr)), r.Intn(len(hdr))
				hdr[a], hdr[b] = hdr[b], hdr[a]
			case op == 1 && len(hdr) > 0: // another miniblock's entry
				hdr[r.Intn(len(hdr))] = entryOf(uni[r.Intn(len(uni))])
			case op == 2 && len(hdr) > 0: // retype
				j := r.Intn(len(hdr))
				hdr[j].typ = types[r.Intn(len(types))]
			case op == 3 && len(hdr) > 0: // tx count
				hdr[r.Intn(len(hdr))].cnt += 1 - 2*r.Intn(2)
			case op == 4 && len(hdr) > 0: // shard ids
				j := r.Intn(len(hdr))
				if r.Intn(2) == 0 {
					hdr[j].snd = (hdr[j].snd + 1) % 3
				} else {
					hdr[j].rcv = (hdr[j].rcv + 1) % 3
				}
			case op == 5 && len(hdr) > 1: // duplicate an entry over another
				hdr[r.Intn(len(hdr))] = hdr[r.Intn(len(hdr))]
			case op == 6 && len(hdr) > 0: // drop
				j := r.Intn(len(hdr))
				hdr = append(hdr[:j:j], hdr[j+1:]...)
			case op == 7 && len(hdr) < 5: // add
				hdr = append(hdr, entryOf(uni[r.Intn(len(uni))]))
			}
		}
		for j := range hdr {
			if hdr[j].cnt < 0 {
				hdr[j].cnt = 0
			}
		}
		var rh []block.MiniBlockHeader
		hrec := []M{}
		for _, e := range hdr {
			rh = append(rh, e.real())
			hrec = append(hrec, e.rec())
		}
		w.Emit("Check", M{"hdr": hrec, "body": brec}, M{"res": classify(sut.CheckHeaderBodyCorrelation(rh, rb))}, M{})
	}
	must(w.Close())
	vtrace.Stat("events", w.N)
	vtrace.Stat("traces", 1)
}

func indexOf(a []int, x int) int {
	for i := range a {
		if a[i] == x {
			return i
		}
	}
	return 0
}

func main() {
	vtrace.Quiet()
	if len(os.Args) >= 3 && os.Args[1] == "replay" {
		replay(os.Args[2])
		return
	}
	if len(os.Args) >= 5 && os.Args[1] == "record" {
		seed, _ := strconv.ParseInt(os.Args[2], 10, 64)
		cnt, _ := strconv.Atoi(os.Args[3])
		record(seed, cnt, os.Args[4])
		return
	}
	fmt.Fprintln(os.Stderr, "usage: vh-correlation replay <file> | record <seed> <cases> <out>")
	os.Exit(2)
}
