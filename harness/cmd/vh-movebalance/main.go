// vh-movebalance binds specs/MoveBalance to the real process/transaction.txProcessor (C23).
//
// Real: txProcessor (transaction.NewTxProcessor), AccountsDB over a patricia-merkle trie and an in-memory persister,
// economicsData (+ GenericEpochNotifier), fee accumulator (postprocess.NewFeeAccumulator), argument parser, marshalizers,
// smart-contract processor + blockchain hook (IsPayable reads real code metadata; ProcessIfError on the not-payable path).
// Stubs: VM container (never invoked), transaction type handler (always MoveBalance, MoveBalance),
// intermediate-transaction forwarders (receipts / bad transactions are swallowed), one-shard coordinator.
// Flags, fixed per behaviour and stated in the evidence: penalized-too-much-gas (economics and tx processor use the
// same enable epoch) and gas-price-modifier on/off as the configuration says; relayed transactions v1/v2 disabled;
// meta protection enabled.
//
//	vh-movebalance replay <behaviours.ndjson>              TLC behaviours -> real processor; result class + all balances,
//	                                                       nonces, existence and accumulated fees compared after every step
//	vh-movebalance record <seed> <traces> <len> <out>      random histories on the real processor -> trace for Trace_MoveBalance
package main

import (
	"errors"
	"fmt"
	"math/big"
	"math/rand"
	"os"
	"runtime"
	"sort"
	"strconv"
	"strings"
	"sync"
	"sync/atomic"

	"github.com/ElrondNetwork/elrond-go/config"
	"github.com/ElrondNetwork/elrond-go/core/forking"
	"github.com/ElrondNetwork/elrond-go/data/state"
	"github.com/ElrondNetwork/elrond-go/data/state/factory"
	"github.com/ElrondNetwork/elrond-go/data/state/storagePruningManager/disabled"
	"github.com/ElrondNetwork/elrond-go/data/transaction"
	"github.com/ElrondNetwork/elrond-go/data/trie"
	"github.com/ElrondNetwork/elrond-go/hashing"
	"github.com/ElrondNetwork/elrond-go/hashing/blake2b"
	"github.com/ElrondNetwork/elrond-go/marshal"
	"github.com/ElrondNetwork/elrond-go/process"
	"github.com/ElrondNetwork/elrond-go/process/block/postprocess"
	"github.com/ElrondNetwork/elrond-go/process/economics"
	"github.com/ElrondNetwork/elrond-go/process/mock"
	"github.com/ElrondNetwork/elrond-go/process/smartContract"
	"github.com/ElrondNetwork/elrond-go/process/smartContract/hooks"
	txproc "github.com/ElrondNetwork/elrond-go/process/transaction"
	"github.com/ElrondNetwork/elrond-go/storage/memorydb"
	"github.com/ElrondNetwork/elrond-go/storage/txcache"
	"github.com/ElrondNetwork/elrond-go/testscommon"
	"github.com/ElrondNetwork/elrond-go/vm/systemSmartContracts/defaults"
	vmcommon "github.com/ElrondNetwork/elrond-vm-common"
	"github.com/ElrondNetwork/elrond-vm-common/builtInFunctions"
	"verif/harness/internal/vtrace"
)

type M = vtrace.M

type ecoCfg struct {
	MinPrice, MinLimit, PerByte, MaxGas, Num, Den, Supply int
	Fp, Fm                                                bool
}

func ecoFromJSON(m map[string]interface{}) ecoCfg {
	g := func(k string) int { return vtrace.Int(m[k]) }
	return ecoCfg{MinPrice: g("minPrice"), MinLimit: g("minLimit"), PerByte: g("perByte"), MaxGas: g("maxGas"),
		Num: g("num"), Den: g("den"), Supply: g("supply"), Fp: m["fp"].(bool), Fm: m["fm"].(bool)}
}

func (c ecoCfg) json() M {
	return M{"minPrice": c.MinPrice, "minLimit": c.MinLimit, "perByte": c.PerByte, "maxGas": c.MaxGas, "num": c.Num,
		"den": c.Den, "supply": c.Supply, "fp": c.Fp, "fm": c.Fm}
}

const never = 1000000 // enable epoch of a disabled feature

type txProcessor interface {
	ProcessTransaction(tx *transaction.Transaction) (vmcommon.ReturnCode, error)
}

type feeAPI interface {
	ComputeTxFee(tx process.TransactionWithFeeHandler) *big.Int
	ComputeMoveBalanceFee(tx process.TransactionWithFeeHandler) *big.Int
}

type env struct {
	adb   *state.AccountsDB
	proc  txProcessor
	fees  process.TransactionFeeHandler
	eco   process.FeeHandler
	accts []string
}

// account names: "p" = payable smart contract, "n" = smart-contract address that is not payable, anything else = plain account
func isSC(name string) bool { return name == "p" || name == "n" }

func addr(name string) []byte {
	if isSC(name) { // 8 zero bytes + VM type + tail: core.IsSmartContractAddress
		return append(append(make([]byte, 8), 5, 0), []byte(strings.Repeat(name, 22))...)
	}
	return []byte(strings.Repeat(name, 32)[:32])
}

func enable(on bool) uint32 {
	if on {
		return 0
	}
	return never
}

func newEnv(c ecoCfg, accts []string) (*env, error) {
	marsh := &marshal.GogoProtoMarshalizer{}
	hasher := blake2b.NewBlake2b()
	tsm, err := trie.NewTrieStorageManagerWithoutPruning(memorydb.New())
	if err != nil {
		return nil, err
	}
	tr, err := trie.NewTrie(tsm, marsh, hasher, 5)
	if err != nil {
		return nil, err
	}
	adb, err := state.NewAccountsDB(tr, hasher, marsh, factory.NewAccountCreator(), disabled.NewDisabledStoragePruningManager())
	if err != nil {
		return nil, err
	}
	notifier := forking.NewGenericEpochNotifier()
	ed, err := newEconomics(c, notifier)
	if err != nil {
		return nil, err
	}
	feeAcc, err := postprocess.NewFeeAccumulator()
	if err != nil {
		return nil, err
	}
	proc, err := newProcessor(c, adb, ed, feeAcc, notifier, marsh, hasher)
	if err != nil {
		return nil, err
	}
	return &env{adb: adb, proc: proc, fees: feeAcc, eco: ed, accts: accts}, nil
}

var bicOnce sync.Once
var bicShared economics.BuiltInFunctionsCostHandler
var bicErr error

// newEconomics builds a real economicsData registered at the behaviour's own epoch notifier (epoch 0)
func newEconomics(c ecoCfg, notifier process.EpochNotifier) (process.FeeHandler, error) {
	bicOnce.Do(func() { // stateless for move-balance transactions: shared by all behaviours
		bicShared, bicErr = economics.NewBuiltInFunctionsCost(&economics.ArgsBuiltInFunctionCost{
			GasSchedule: mock.NewGasScheduleNotifierMock(defaults.FillGasMapInternal(map[string]map[string]uint64{}, 1)),
			ArgsParser:  smartContract.NewArgumentParser(),
		})
	})
	if bicErr != nil {
		return nil, bicErr
	}
	return economics.NewEconomicsData(economics.ArgsNewEconomicsData{
		BuiltInFunctionsCostHandler: bicShared,
		Economics: &config.EconomicsConfig{
			GlobalSettings: config.GlobalSettings{
				GenesisTotalSupply: strconv.Itoa(c.Supply),
				YearSettings:       []*config.YearSetting{{Year: 0, MaximumInflation: 0.01}},
			},
			RewardsSettings: config.RewardsSettings{RewardsConfigByEpoch: []config.EpochRewardSettings{{
				LeaderPercentage: 0.1, DeveloperPercentage: 0.1, ProtocolSustainabilityPercentage: 0.1,
				ProtocolSustainabilityAddress: "erd1932eft30w753xyvme8d49qejgkjc09n5e49w4mwdjtm0neld797su0dlxp",
				TopUpGradientPoint:            "300000000000000000000", TopUpFactor: 0.25,
			}}},
			FeeSettings: config.FeeSettings{
				MaxGasLimitPerBlock: strconv.Itoa(c.MaxGas), MaxGasLimitPerMetaBlock: strconv.Itoa(c.MaxGas),
				MinGasPrice: strconv.Itoa(c.MinPrice), MinGasLimit: strconv.Itoa(c.MinLimit),
				GasPerDataByte: strconv.Itoa(c.PerByte), GasPriceModifier: float64(c.Num) / float64(c.Den),
			},
		},
		EpochNotifier:                  notifier,
		PenalizedTooMuchGasEnableEpoch: enable(c.Fp),
		GasPriceModifierEnableEpoch:    enable(c.Fm),
	})
}

var poolsOnce sync.Once
var pools *testscommon.PoolsHolderMock

func newProcessor(c ecoCfg, adb state.AccountsAdapter, ed process.FeeHandler, feeAcc process.TransactionFeeHandler,
	notifier process.EpochNotifier, marsh marshal.Marshalizer, hasher hashing.Hasher) (txProcessor, error) {
	coord := mock.NewOneShardCoordinatorMock()
	poolsOnce.Do(func() { pools = testscommon.NewPoolsHolderMock() }) // only its (unused) compiled-contracts cache is consulted
	// real blockchain hook: IsPayable reads the code metadata of the receiver from the accounts DB
	hook, err := hooks.NewBlockChainHookImpl(hooks.ArgBlockChainHook{
		Accounts: adb, PubkeyConv: mock.NewPubkeyConverterMock(32), StorageService: &mock.ChainStorerMock{},
		BlockChain: &mock.BlockChainMock{}, ShardCoordinator: coord, Marshalizer: marsh,
		Uint64Converter: &mock.Uint64ByteSliceConverterMock{}, BuiltInFunctions: builtInFunctions.NewBuiltInFunctionContainer(),
		DataPool: pools, CompiledSCPool: pools.SmartContracts(), NilCompiledSCStore: true,
	})
	if err != nil {
		return nil, err
	}
	// real smart-contract processor (IsPayable, ProcessIfError); the VM container is a mock: no contract is ever executed
	scProc, err := smartContract.NewSmartContractProcessor(smartContract.ArgsNewSmartContractProcessor{
		VmContainer: &mock.VMContainerMock{}, ArgsParser: smartContract.NewArgumentParser(), Hasher: hasher, Marshalizer: marsh,
		AccountsDB: adb, BlockChainHook: hook, PubkeyConv: mock.NewPubkeyConverterMock(32), ShardCoordinator: coord,
		ScrForwarder: &mock.IntermediateTransactionHandlerMock{}, BadTxForwarder: &mock.IntermediateTransactionHandlerMock{},
		TxFeeHandler: feeAcc, TxLogsProcessor: &mock.TxLogsProcessorStub{}, EconomicsFee: ed,
		TxTypeHandler: &testscommon.TxTypeHandlerMock{}, GasHandler: &mock.GasHandlerMock{SetGasRefundedCalled: func(uint64, []byte) {}},
		GasSchedule:                    mock.NewGasScheduleNotifierMock(defaults.FillGasMapInternal(map[string]map[string]uint64{}, 1)),
		EpochNotifier:                  notifier,
		PenalizedTooMuchGasEnableEpoch: enable(c.Fp),
		ArwenChangeLocker:              &sync.RWMutex{},
		VMOutputCacher:                 txcache.NewDisabledCache(),
	})
	if err != nil {
		return nil, err
	}
	return txproc.NewTxProcessor(txproc.ArgsNewTxProcessor{
		Accounts:                       adb,
		Hasher:                         hasher,
		PubkeyConv:                     mock.NewPubkeyConverterMock(32),
		Marshalizer:                    marsh,
		SignMarshalizer:                &marshal.TxJsonMarshalizer{},
		ShardCoordinator:               coord,
		ScProcessor:                    scProc,
		TxFeeHandler:                   feeAcc,
		TxTypeHandler:                  &testscommon.TxTypeHandlerMock{},
		EconomicsFee:                   ed,
		ReceiptForwarder:               &mock.IntermediateTransactionHandlerMock{},
		BadTxForwarder:                 &mock.IntermediateTransactionHandlerMock{},
		ArgsParser:                     smartContract.NewArgumentParser(),
		ScrForwarder:                   &mock.IntermediateTransactionHandlerMock{},
		RelayedTxEnableEpoch:           never,
		RelayedTxV2EnableEpoch:         never,
		PenalizedTooMuchGasEnableEpoch: enable(c.Fp),
		MetaProtectionEnableEpoch:      0,
		EpochNotifier:                  notifier,
	})
}

// seed creates the initial accounts: plain accounts with a balance or a nonce, and the deployed contracts (an account
// with code, code hash and code metadata: payable for "p", not payable for "n")
func (e *env) seed(bal, nonce map[string]int, exists map[string]bool) error {
	for _, a := range e.accts {
		if bal[a] == 0 && nonce[a] == 0 && !exists[a] {
			continue
		}
		ah, err := e.adb.LoadAccount(addr(a))
		if err != nil {
			return err
		}
		ua := ah.(state.UserAccountHandler)
		if isSC(a) {
			ua.SetCode([]byte("code of contract " + a))
			ua.SetCodeMetadata((&vmcommon.CodeMetadata{Payable: a == "p", Readable: true}).ToBytes())
			ua.SetOwnerAddress(addr("a"))
		}
		if err = ua.AddToBalance(big.NewInt(int64(bal[a]))); err != nil {
			return err
		}
		ua.IncreaseNonce(uint64(nonce[a]))
		if err = e.adb.SaveAccount(ua); err != nil {
			return err
		}
	}
	_, err := e.adb.Commit()
	return err
}

type proj struct {
	bal, nonce map[string]int
	exists     map[string]bool
	fees       int
	big        bool
}

func (e *env) project() proj {
	p := proj{bal: map[string]int{}, nonce: map[string]int{}, exists: map[string]bool{}}
	for _, a := range e.accts {
		ah, err := e.adb.GetExistingAccount(addr(a))
		if err != nil {
			p.bal[a], p.nonce[a], p.exists[a] = 0, 0, false
			continue
		}
		ua := ah.(state.UserAccountHandler)
		b := ua.GetBalance()
		if !b.IsInt64() || b.Int64() > 1<<31-1 || b.Int64() < -(1<<31) {
			p.big = true
		}
		p.bal[a], p.nonce[a], p.exists[a] = int(b.Int64()), int(ua.GetNonce()), true
	}
	f := e.fees.GetAccumulatedFees()
	if !f.IsInt64() || f.Int64() > 1<<31-1 {
		p.big = true
	}
	p.fees = int(f.Int64())
	return p
}

func (p proj) json() M {
	b, n, x := M{}, M{}, M{}
	for k, v := range p.bal {
		b[k] = v
	}
	for k, v := range p.nonce {
		n[k] = v
	}
	for k, v := range p.exists {
		x[k] = v
	}
	return M{"bal": b, "nonce": n, "exists": x, "fees": p.fees}
}

type txIn struct {
	Snd, Rcv                    string
	Nonce, Value, Price, Gl, Dl int
}

func txFromJSON(m map[string]interface{}) txIn {
	g := func(k string) int { return vtrace.Int(m[k]) }
	return txIn{Snd: vtrace.Str(m["snd"]), Rcv: vtrace.Str(m["rcv"]), Nonce: g("nonce"), Value: g("value"),
		Price: g("price"), Gl: g("gl"), Dl: g("dl")}
}

func (t txIn) json() M {
	return M{"snd": t.Snd, "rcv": t.Rcv, "nonce": t.Nonce, "value": t.Value, "price": t.Price, "gl": t.Gl, "dl": t.Dl}
}

func (t txIn) real() *transaction.Transaction {
	var d []byte
	if t.Dl > 0 {
		d = []byte(strings.Repeat("x", t.Dl))
	}
	return &transaction.Transaction{Nonce: uint64(t.Nonce), Value: big.NewInt(int64(t.Value)), RcvAddr: addr(t.Rcv),
		SndAddr: addr(t.Snd), GasPrice: uint64(t.Price), GasLimit: uint64(t.Gl), Data: d, ChainID: []byte("1"), Version: 1,
		Signature: []byte("sig")}
}

// process runs the real ProcessTransaction and classifies its result
func (e *env) process(t txIn) string {
	code, err := e.proc.ProcessTransaction(t.real())
	switch {
	case err == nil && code == vmcommon.Ok:
		return "ok"
	case err == nil:
		return fmt.Sprintf("other:code=%d,nil", code)
	case errors.Is(err, process.ErrFailedTransaction) && code == vmcommon.UserError:
		return "notPayable" // executeAfterFailedMoveBalanceTransaction (receiver check failed after the sender was charged)
	case errors.Is(err, process.ErrFailedTransaction):
		return "insufficientFunds" // executingFailedTransaction from checkTxValues
	case errors.Is(err, process.ErrHigherNonceInTransaction):
		return "higherNonce"
	case errors.Is(err, process.ErrLowerNonceInTransaction):
		return "lowerNonce"
	case errors.Is(err, process.ErrInsufficientFee):
		return "insufficientFee"
	case errors.Is(err, process.ErrInsufficientGasPriceInTx), errors.Is(err, process.ErrInsufficientGasLimitInTx),
		errors.Is(err, process.ErrMoreGasThanGasLimitPerBlock), errors.Is(err, process.ErrTxValueOutOfBounds),
		errors.Is(err, process.ErrTxValueTooBig):
		return "invalid"
	}
	return "other:" + err.Error()
}

func intMap(v interface{}) map[string]int {
	r := map[string]int{}
	for k, x := range v.(map[string]interface{}) {
		r[k] = vtrace.Int(x)
	}
	return r
}

func boolMap(v interface{}) map[string]bool {
	r := map[string]bool{}
	for k, x := range v.(map[string]interface{}) {
		r[k] = x == true
	}
	return r
}

func sortedKeys(v interface{}) []string {
	var ks []string
	for k := range v.(map[string]interface{}) {
		ks = append(ks, k)
	}
	sort.Strings(ks)
	return ks
}

// diff names the first aspect in which the real state differs from the predicted one ("" = equal)
func diff(pred map[string]interface{}, p proj) string {
	pb, pn := intMap(pred["bal"]), intMap(pred["nonce"])
	px := pred["exists"].(map[string]interface{})
	for a := range p.bal {
		if pb[a] != p.bal[a] {
			return "balances"
		}
	}
	for a := range p.nonce {
		if pn[a] != p.nonce[a] {
			return "nonces"
		}
	}
	if vtrace.Int(pred["fees"]) != p.fees {
		return "fees"
	}
	for a := range p.exists {
		if px[a].(bool) != p.exists[a] {
			return "existence"
		}
	}
	return ""
}

func sum(p proj) int {
	s := p.fees
	for _, b := range p.bal {
		s += b
	}
	return s
}

// coarse maps a result class to what C23 distinguishes: success, failure that charges the fee, rejection without effect
func coarse(res string) string {
	switch res {
	case "ok", "commit":
		return res
	case "insufficientFunds", "notPayable":
		return "failed-and-charged"
	}
	return "rejected"
}

type bResult struct {
	drift             string
	steps             int
	broken            string
	sig, what         string
	detail            M
	classKey, distKey string
}

// replayOne steps one behaviour on a fresh real stack
func replayOne(bi int, b []vtrace.Step) (res bResult) {
	if len(b) == 0 || b[0].A != "New" {
		res.broken = fmt.Sprintf("behaviour %d does not start with New", bi)
		return
	}
	c := ecoFromJSON(b[0].In["eco"].(map[string]interface{}))
	accts := sortedKeys(b[0].St["bal"])
	e, err := newEnv(c, accts)
	if err == nil {
		err = e.seed(intMap(b[0].St["bal"]), intMap(b[0].St["nonce"]), boolMap(b[0].St["exists"]))
	}
	if err != nil {
		res.broken = fmt.Sprintf("behaviour %d: cannot build the processor: %v", bi, err)
		return
	}
	if d := diff(b[0].St, e.project()); d != "" {
		res.broken = fmt.Sprintf("behaviour %d: initial state not reproduced (%s)", bi, d)
		return
	}
	for si, st := range b[1:] {
		before := e.project()
		var got string
		var t txIn
		switch st.A {
		case "Process":
			t = txFromJSON(st.In)
			got = e.process(t)
		case "Commit":
			if _, err := e.adb.Commit(); err != nil {
				res.broken = "Commit: " + err.Error()
				return
			}
			got = "commit"
		default:
			res.broken = "unknown action " + st.A
			return
		}
		res.steps++
		after := e.project()
		exp := vtrace.Str(st.Out["res"])
		what := ""
		if coarse(got) != coarse(exp) {
			what = "outcome"
		} else {
			what = diff(st.St, after)
			if what == "" && got != exp {
				res.drift = fmt.Sprintf("rejection reported as %q where the specification says %q (no effect on balances, nonces or fees): tx %+v", got, exp, t)
			}
		}
		if st.A == "Process" && si == len(b)-2 {
			res.classKey = fmt.Sprint(c.Fp, c.Fm, exp, t.Snd == t.Rcv, before.exists[t.Snd], before.exists[t.Rcv])
			res.distKey = fmt.Sprint(c, before.json(), t)
		}
		if what == "" && sum(after) != sum(before) {
			// the real code does what the specification (as coded) says, and that does not conserve value:
			// literally the property, evaluated on the observed balances and fees
			res.sig = fmt.Sprintf("C23/%s/value-not-conserved", exp)
			if exp == "notPayable" && sum(after) > sum(before) && after.bal[t.Snd] < before.bal[t.Snd] {
				res.sig = "C23/notPayable/fees-accounted-exceed-fee-charged"
			}
			res.what = fmt.Sprintf(
				"txProcessor.ProcessTransaction does not conserve value: tx %+v (flags penalized=%v modifier=%v) result %q: state %v -> %v, balances+fees %d -> %d (sender charged %d, fee collector credited %d)",
				t, c.Fp, c.Fm, got, before.json(), after.json(), sum(before), sum(after), before.bal[t.Snd]-after.bal[t.Snd], after.fees-before.fees)
			res.detail = M{"behaviour": b, "step": si + 1}
			return
		}
		if what != "" {
			res.sig = fmt.Sprintf("C23/%s/%s-differs", exp, what)
			if sum(after) != sum(before) {
				res.sig += "/value-not-conserved"
			}
			res.what = fmt.Sprintf(
				"txProcessor.ProcessTransaction differs from MoveBalance.tla at step %d of behaviour %d: tx %+v (flags penalized=%v modifier=%v) on state %v: real result %q state %v (balances+fees %d -> %d); specification: result %q state %v",
				si+1, bi, t, c.Fp, c.Fm, before.json(), got, after.json(), sum(before), sum(after), exp, st.St)
			res.detail = M{"behaviour": b, "step": si + 1}
			return
		}
	}
	return
}

func replay(path string) {
	bs, err := vtrace.ReadBehaviours(path)
	if err != nil {
		vtrace.Broken(err.Error())
		return
	}
	results := make([]bResult, len(bs))
	workers := runtime.NumCPU()
	if workers > 8 {
		workers = 8
	}
	var wg sync.WaitGroup
	next := int64(-1)
	for w := 0; w < workers; w++ {
		wg.Add(1)
		go func() {
			defer wg.Done()
			for {
				i := int(atomic.AddInt64(&next, 1))
				if i >= len(bs) {
					return
				}
				results[i] = replayOne(i, bs[i])
			}
		}()
	}
	wg.Wait()
	distinct := vtrace.NewDistinct()
	classes := vtrace.NewDistinct()
	steps, nviol, ndrift := 0, 0, 0
	reported := map[string]bool{}
	for bi, r := range results {
		if r.broken != "" {
			vtrace.Broken(r.broken)
			return
		}
		steps += r.steps
		if r.classKey != "" {
			classes.Add(r.classKey)
			distinct.Add(r.distKey)
		}
		if r.drift != "" {
			ndrift++
			if ndrift <= 2 {
				vtrace.Drift("C23", r.drift, nil)
			}
		}
		if r.sig != "" {
			nviol++
			if !reported[r.sig] && len(reported) < 6 {
				reported[r.sig] = true
				vtrace.Violation("C23", r.sig, r.what, r.detail)
			}
		}
		if bi%997 == 3 && len(bs[bi]) > 1 {
			vtrace.Sample("C23", bs[bi])
		}
	}
	vtrace.Stat("behaviours", len(bs))
	vtrace.Stat("steps", steps)
	vtrace.Stat("distinct_transitions", distinct.Len())
	vtrace.Stat("outcome_classes", classes.Len())
	vtrace.Stat("violations", nviol)
	vtrace.Stat("drift", ndrift)
}

// ---------------------------------------------------------------- random histories -> trace

func record(seed int64, traces, n int, out string) {
	w, err := vtrace.NewWriter(out)
	if err != nil {
		vtrace.Broken(err.Error())
		return
	}
	rng := rand.New(rand.NewSource(seed))
	users := []string{"a", "b", "c", "d", "e"}
	accts := []string{"a", "b", "c", "d", "e", "n", "p"}
	classes := vtrace.NewDistinct()
	for t := 0; t < traces; t++ {
		k := rng.Intn(3)
		c := ecoCfg{MinPrice: 1 + rng.Intn(20), MinLimit: 1 + rng.Intn(50), PerByte: rng.Intn(4), Num: 1 + rng.Intn(1<<uint(k)),
			Den: 1 << uint(k), Supply: []int{255, 70000, 5000000}[rng.Intn(3)]}
		c.MaxGas = c.MinLimit + 5 + rng.Intn(2000)
		switch rng.Intn(3) {
		case 1:
			c.Fp = true
		case 2:
			c.Fp, c.Fm = true, true
		}
		for c.MinPrice*c.Num/c.Den < 1 {
			c.MinPrice++
		}
		e, err := newEnv(c, accts)
		if err != nil {
			vtrace.Broken(err.Error())
			return
		}
		bal, nonce := map[string]int{}, map[string]int{}
		deployed := map[string]bool{"p": rng.Intn(4) != 0, "n": rng.Intn(2) == 0} // a missing contract is not payable either
		for _, a := range users {
			switch rng.Intn(4) {
			case 0: // does not exist yet
			case 1:
				bal[a] = rng.Intn(5000)
			default:
				bal[a] = rng.Intn(1000000)
				nonce[a] = rng.Intn(3)
			}
		}
		if err = e.seed(bal, nonce, deployed); err != nil {
			vtrace.Broken(err.Error())
			return
		}
		w.NewTraceWith("New", M{"eco": c.json()}, M{"res": "new"}, e.project().json())
		for i := 0; i < n; i++ {
			if rng.Intn(12) == 0 {
				if _, err := e.adb.Commit(); err != nil {
					vtrace.Broken(err.Error())
					return
				}
				w.Emit("Commit", M{"x": 0}, M{"res": "commit"}, e.project().json())
				continue
			}
			p := e.project()
			tx := txIn{Snd: users[rng.Intn(len(users))], Rcv: users[rng.Intn(len(users))]}
			switch rng.Intn(6) {
			case 0:
				tx.Rcv = tx.Snd
			case 1:
				tx.Rcv = []string{"p", "n", "n"}[rng.Intn(3)]
			}
			tx.Nonce = p.nonce[tx.Snd]
			switch rng.Intn(10) {
			case 0:
				tx.Nonce++
			case 1:
				if tx.Nonce > 0 {
					tx.Nonce--
				}
			}
			tx.Price = c.MinPrice + rng.Intn(30)
			if rng.Intn(15) == 0 {
				tx.Price = c.MinPrice - 1
			}
			tx.Dl = rng.Intn(6)
			if isSC(tx.Rcv) {
				tx.Dl = 0 // a transfer to a contract address that carries data is a contract call, not a move balance
			}
			moveGas := c.MinLimit + tx.Dl*c.PerByte
			switch rng.Intn(6) {
			case 0:
				tx.Gl = moveGas
			case 1:
				tx.Gl = moveGas - 1 + rng.Intn(3)
			case 2:
				tx.Gl = c.MaxGas - 2 + rng.Intn(3)
			default:
				tx.Gl = moveGas + rng.Intn(c.MaxGas-moveGas)
			}
			if tx.Gl < 0 {
				tx.Gl = 0
			}
			// values around the boundaries of the balance checks (input selection only: the real fee functions are
			// asked where the boundaries are; the expected outcome comes from the specification)
			rt := tx.real()
			full, move := int(e.eco.ComputeTxFee(rt).Int64()), int(e.eco.ComputeMoveBalanceFee(rt).Int64())
			b := p.bal[tx.Snd]
			cands := []int{0, 1, b - full, b - full + 1, b - full - 1, b - move, b - move + 1, b - tx.Gl*tx.Price, b - tx.Gl*tx.Price + 1,
				b, c.Supply, c.Supply + 1, rng.Intn(b + 2), rng.Intn(b + 2)}
			tx.Value = cands[rng.Intn(len(cands))]
			if tx.Value < 0 {
				tx.Value = 0
			}
			res := e.process(tx)
			after := e.project()
			if after.big {
				vtrace.Broken("a balance left TLC's integer range")
				return
			}
			w.Emit("Process", tx.json(), M{"res": res}, after.json())
			classes.Add(fmt.Sprint(c.Fp, c.Fm, res, tx.Snd == tx.Rcv, p.exists[tx.Snd], p.exists[tx.Rcv]))
		}
	}
	if err := w.Close(); err != nil {
		vtrace.Broken(err.Error())
	}
	vtrace.Stat("events", w.N)
	vtrace.Stat("traces", traces)
	vtrace.Stat("outcome_classes", classes.Len())
}

func main() {
	vtrace.Quiet()
	if len(os.Args) < 2 {
		fmt.Fprintln(os.Stderr, "usage: vh-movebalance replay <file> | record <seed> <traces> <len> <out>")
		os.Exit(2)
	}
	atoi := func(s string) int { n, _ := strconv.Atoi(s); return n }
	switch os.Args[1] {
	case "replay":
		replay(os.Args[2])
	case "record":
		record(int64(atoi(os.Args[2])), atoi(os.Args[3]), atoi(os.Args[4]), os.Args[5])
	default:
		os.Exit(2)
	}
}
