package main

// The legacy rewards creator (epochStart/metachain/rewards.go, specs/Rewards/RewardsV1.tla):
//
//	vh-rewards runv1 <inputs.ndjson> <trace-out>      TLC-enumerated inputs
//	vh-rewards recordv1 <seed> <runs> <out>           seeded random consistent inputs

import (
	"bytes"
	"encoding/hex"
	"encoding/json"
	"fmt"
	"math/big"
	"math/rand"
	"sort"

	"github.com/ElrondNetwork/elrond-go/core"
	"github.com/ElrondNetwork/elrond-go/data/block"
	"github.com/ElrondNetwork/elrond-go/data/rewardTx"
	"github.com/ElrondNetwork/elrond-go/data/state"
	"github.com/ElrondNetwork/elrond-go/epochStart/metachain"
	"github.com/ElrondNetwork/elrond-go/epochStart/mock"
	"github.com/ElrondNetwork/elrond-go/hashing/sha256"
	"github.com/ElrondNetwork/elrond-go/marshal"
	"github.com/ElrondNetwork/elrond-go/testscommon"
	"github.com/ElrondNetwork/elrond-go/testscommon/genericMocks"
	vmcommon "github.com/ElrondNetwork/elrond-vm-common"
	"verif/harness/internal/vtrace"
)

type nodeV1 struct {
	Sh   int  `json:"sh"`
	Addr int  `json:"addr"`
	Ls   bool `json:"ls"`
	Vs   bool `json:"vs"`
	Vf   bool `json:"vf"`
	Sel  int  `json:"sel"`
	Fees int  `json:"fees"`
}

type inputV1 struct {
	Total  int         `json:"total"`
	Dev    int         `json:"dev"`
	Leader int         `json:"leader"`
	Prot   int         `json:"prot"`
	Rpb    int         `json:"rpb"`
	Nb     int         `json:"nb"`
	Blocks []int       `json:"blocks"`
	Cons   []int       `json:"cons"`
	Nodes  []nodeV1    `json:"nodes"`
	Addrs  []addrClass `json:"addrs"`
	Dsc    bool        `json:"dsc"`
	Fix1   bool        `json:"fix1"`
}

func runRealV1(in *inputV1) *result {
	w := newWorld(len(in.Blocks) - 1)
	protAddr := w.address("shard", 1, 200)
	addrOf := func(a int) []byte {
		c := in.Addrs[a-1]
		return w.address(c.Cls, c.Sh, a)
	}
	dscAddrs := map[string]bool{}
	byAddr := map[string]int{}
	for i, c := range in.Addrs {
		byAddr[string(addrOf(i+1))] = i + 1
		if c.Cls == "dsc" {
			dscAddrs[string(addrOf(i+1))] = true
		}
	}
	accounts := &testscommon.AccountsStub{
		GetExistingAccountCalled: func(addr []byte) (vmcommon.AccountHandler, error) {
			acc, err := state.NewUserAccount(addr)
			if err != nil {
				return nil, err
			}
			if dscAddrs[string(addr)] {
				_ = acc.DataTrieTracker().SaveKeyValue([]byte(core.DelegationSystemSCKey), []byte(core.DelegationSystemSCKey))
			}
			return acc, nil
		},
	}
	validators := map[uint32][]*state.ValidatorInfo{}
	for s := 1; s <= len(in.Blocks); s++ {
		validators[shardID(w, s)] = []*state.ValidatorInfo{}
	}
	b2u := func(b bool, n int) uint32 {
		if b {
			return uint32(1 + n)
		}
		return 0
	}
	for i, n := range in.Nodes {
		v := &state.ValidatorInfo{
			PublicKey: []byte(fmt.Sprintf("bls-key-%03d", i)), ShardId: shardID(w, n.Sh), Index: uint32(i), List: string(core.EligibleList),
			RewardAddress: addrOf(n.Addr), NumSelectedInSuccessBlocks: uint32(n.Sel), AccumulatedFees: big.NewInt(int64(n.Fees)),
			LeaderSuccess: b2u(n.Ls, 0), ValidatorSuccess: b2u(n.Vs, n.Sel), ValidatorFailure: b2u(n.Vf, i%2),
		}
		validators[v.ShardId] = append(validators[v.ShardId], v)
	}
	const epoch = 10
	enable := uint32(epoch - 3)
	if !in.Dsc {
		enable = epoch + 3
	}
	fixEpoch := uint32(epoch - 1) // fix 1 is enabled for epoch > RewardsFix1EpochEnable
	if !in.Fix1 {
		fixEpoch = epoch
	}
	cons := in.Cons
	rc, err := metachain.NewRewardsCreator(metachain.ArgsNewRewardsCreator{BaseRewardsCreatorArgs: metachain.BaseRewardsCreatorArgs{
		ShardCoordinator: w.coord, PubkeyConverter: mock.NewPubkeyConverterMock(32),
		RewardsStorage: genericMocks.NewStorerMock("rewards", 0), MiniBlockStorage: genericMocks.NewStorerMock("miniblocks", 0),
		Hasher: sha256.NewSha256(), Marshalizer: &marshal.GogoProtoMarshalizer{}, DataPool: testscommon.NewPoolsHolderMock(),
		ProtocolSustainabilityAddress: hex.EncodeToString(protAddr),
		NodesConfigProvider: &mock.NodesCoordinatorStub{ConsensusGroupSizeCalled: func(id uint32) int {
			return cons[shardIdx(w, id)-1]
		}},
		DelegationSystemSCEnableEpoch: enable, UserAccountsDB: accounts, RewardsFix1EpochEnable: fixEpoch,
	}})
	if err != nil {
		panic(err)
	}
	eco := block.Economics{TotalToDistribute: big.NewInt(int64(in.Total)), RewardsForProtocolSustainability: big.NewInt(int64(in.Prot)),
		RewardsPerBlock: big.NewInt(int64(in.Rpb)), TotalSupply: big.NewInt(int64(in.Total) * 1000), TotalNewlyMinted: big.NewInt(int64(in.Total)),
		NodePrice: big.NewInt(1)}
	mb := &block.MetaBlock{Epoch: epoch, Round: 1000, Nonce: 900, DevFeesInEpoch: big.NewInt(int64(in.Dev)),
		AccumulatedFeesInEpoch: big.NewInt(int64(in.Dev + 2*in.Leader))}
	mb.EpochStart.Economics = eco
	mb.EpochStart.LastFinalizedHeaders = []block.EpochStartShardData{{ShardID: 0}}
	ecoArg := eco
	mbs, err := rc.CreateRewardsMiniBlocks(mb, validators, &ecoArg)
	res := &result{}
	if err != nil {
		res.err = "CreateRewardsMiniBlocks failed: " + err.Error()
		return res
	}
	for _, m := range mbs {
		for _, h := range m.TxHashes {
			th, err := rc.GetLocalTxCache().GetTx(h)
			if err != nil {
				res.err = "reward tx of a miniblock is not in the local tx cache: " + err.Error()
				return res
			}
			tx := th.(*rewardTx.RewardTx)
			if bytes.Equal(tx.RcvAddr, protAddr) {
				if res.prot == nil {
					res.prot = big.NewInt(0)
				} else {
					res.notes = append(res.notes, "more than one protocol sustainability transaction (values added)")
				}
				res.prot.Add(res.prot, tx.Value)
				continue
			}
			a, ok := byAddr[string(tx.RcvAddr)]
			if !ok {
				res.err = "reward transaction to an address that is nobody's reward address"
				return res
			}
			res.txs = append(res.txs, [3]*big.Int{big.NewInt(int64(a)), new(big.Int).Set(tx.Value), big.NewInt(int64(shardIdx(w, m.ReceiverShardID)))})
		}
	}
	if res.prot == nil {
		res.notes = append(res.notes, "no protocol sustainability transaction (logged as 0)")
		res.prot = big.NewInt(0)
	}
	sort.Slice(res.txs, func(i, j int) bool { return res.txs[i][0].Cmp(res.txs[j][0]) < 0 })
	return res
}

func executeV1(w *vtrace.Writer, in *inputV1, stats map[string]int, distinct *vtrace.Distinct) {
	r := runRealV1(in)
	if r.err != "" {
		stats["errors"]++
		vtrace.Violation(prop, "C35/v1/run/"+sigOf(r.err), fmt.Sprintf("input %s: %s", js(in), r.err), M{"input": in})
		return
	}
	for _, n := range r.notes {
		stats["notes"]++
		if stats["notes"] <= 3 {
			vtrace.Drift(prop, fmt.Sprintf("V1 input %s: %s", js(in), n), nil)
		}
	}
	txs := make([][]int, 0, len(r.txs))
	for _, t := range r.txs {
		txs = append(txs, []int{int(t[0].Int64()), int(t[1].Int64()), int(t[2].Int64())})
	}
	w.Emit("RunV1", in, M{"txs": txs, "prot": int(r.prot.Int64())}, M{})
	stats["runs"]++
	inactive := 0
	for _, n := range in.Nodes {
		if (in.Fix1 && !n.Ls && !n.Vs) || (!in.Fix1 && !n.Ls && !n.Vf) {
			inactive++
		}
	}
	if inactive > 0 {
		stats["with_inactive_validators"]++
	}
	distinct.Add(fmt.Sprint(len(in.Nodes), inactive > 0, in.Fix1, in.Dsc, len(txs), len(in.Blocks)))
}

func runInputsV1(path, out string) {
	lines, err := vtrace.ReadLines(path)
	if err != nil {
		vtrace.Broken(err.Error())
		return
	}
	w, err := vtrace.NewWriter(out)
	if err != nil {
		vtrace.Broken(err.Error())
		return
	}
	stats := map[string]int{}
	distinct := vtrace.NewDistinct()
	for li, line := range lines {
		var b []struct {
			In inputV1 `json:"in"`
		}
		if err := json.Unmarshal(line, &b); err != nil || len(b) == 0 {
			vtrace.Broken(fmt.Sprintf("input line %d: %v", li+1, err))
			return
		}
		in := b[0].In
		executeV1(w, &in, stats, distinct)
	}
	if err := w.Close(); err != nil {
		vtrace.Broken(err.Error())
	}
	vtrace.Stat("events", w.N)
	vtrace.Stat("distinct", distinct.Len())
	vtrace.Stat("stats", stats)
}

// randomInputV1: what economics.go produces for the legacy creator (RewardsPerBlock after its per-block adjustments)
func randomInputV1(rng *rand.Rand, withInactive bool) *inputV1 {
	nShards := 1 + rng.Intn(3)
	in := &inputV1{Dsc: rng.Intn(3) != 0, Fix1: rng.Intn(4) != 0}
	na := 2 + rng.Intn(5)
	for a := 0; a < na; a++ {
		switch r := rng.Intn(10); {
		case r < 6:
			in.Addrs = append(in.Addrs, addrClass{"shard", 1 + rng.Intn(nShards)})
		case r < 8:
			in.Addrs = append(in.Addrs, addrClass{"dsc", nShards + 1})
		default:
			in.Addrs = append(in.Addrs, addrClass{"meta", nShards + 1})
		}
	}
	leader := rng.Intn(2000) * rng.Intn(2)
	feesLeft := leader
	for s := 1; s <= nShards+1; s++ {
		blocks := rng.Intn(25)
		nn := 1 + rng.Intn(5)
		cons := 1 + rng.Intn(nn)
		in.Blocks = append(in.Blocks, blocks)
		in.Cons = append(in.Cons, cons)
		in.Nb += blocks
		selLeft := blocks * cons
		for i := 0; i < nn; i++ {
			n := nodeV1{Sh: s, Addr: 1 + rng.Intn(na), Ls: rng.Intn(2) == 0, Vs: rng.Intn(4) != 0, Vf: rng.Intn(3) == 0}
			if !withInactive {
				// every validator signed and failed at least once: neither rule sends its reward to the protocol tx
				n.Vs, n.Vf = true, true
			}
			n.Sel = rng.Intn(blocks + 1)
			if n.Sel > selLeft {
				n.Sel = selLeft
			}
			selLeft -= n.Sel
			if n.Ls && feesLeft > 0 && rng.Intn(2) == 0 {
				n.Fees = rng.Intn(feesLeft + 1)
				feesLeft -= n.Fees
			}
			in.Nodes = append(in.Nodes, n)
		}
	}
	in.Leader = leader
	in.Rpb = rng.Intn(3000)
	if in.Nb == 0 || rng.Intn(8) == 0 {
		in.Rpb = rng.Intn(10)
	}
	forBlocks := in.Rpb*in.Nb + rng.Intn(in.Nb+1)
	in.Dev = rng.Intn(1500) * rng.Intn(2)
	in.Prot = (forBlocks + in.Leader + in.Dev) / 9
	in.Total = forBlocks + in.Leader + in.Dev + in.Prot
	return in
}

func recordV1(seed int64, runs int, out string, withInactive bool) {
	w, err := vtrace.NewWriter(out)
	if err != nil {
		vtrace.Broken(err.Error())
		return
	}
	rng := rand.New(rand.NewSource(seed))
	stats := map[string]int{}
	distinct := vtrace.NewDistinct()
	for i := 0; i < runs; i++ {
		executeV1(w, randomInputV1(rng, withInactive), stats, distinct)
	}
	if err := w.Close(); err != nil {
		vtrace.Broken(err.Error())
	}
	vtrace.Stat("events", w.N)
	vtrace.Stat("distinct", distinct.Len())
	vtrace.Stat("stats", stats)
}
