package main

// End-to-end stage: the REAL economics component (metachain.NewEndOfEpochEconomicsDataCreator) computes the end of
// epoch economics for a driver-chosen epoch and publishes leader fees / rewards for blocks / block counts into the
// REAL EpochEconomicsStatistics, which the REAL rewardsCreatorV2 then reads; CreateRewardsMiniBlocks gets the
// returned *block.Economics.  Logged per run (event "RunE2E"): the epoch (inflation-based total observed by a probe
// with zero fees, blocks, accumulated and developer fees, percentages), the Economics figures and the published
// figures as the real code produced them, the validators, the reward transactions.
//
//	vh-rewards e2e <seed> <runs> <out>

import (
	"fmt"
	"math/big"
	"math/rand"
	"time"

	"github.com/ElrondNetwork/elrond-go/core"
	"github.com/ElrondNetwork/elrond-go/data/block"
	"github.com/ElrondNetwork/elrond-go/dataRetriever"
	"github.com/ElrondNetwork/elrond-go/epochStart/metachain"
	"github.com/ElrondNetwork/elrond-go/epochStart/mock"
	"github.com/ElrondNetwork/elrond-go/hashing/sha256"
	"github.com/ElrondNetwork/elrond-go/marshal"
	"github.com/ElrondNetwork/elrond-go/sharding"
	"github.com/ElrondNetwork/elrond-go/testscommon/genericMocks"
	"verif/harness/internal/vtrace"
)

type pct struct {
	f   float64
	num int
	k   int
}

type epochCfg struct {
	nShards     int
	supply      int64 // genesis total supply = previous total supply
	roundSecs   int
	inflation   float64
	leader      pct
	prot        pct
	prevRound   uint64
	prevNonces  []uint64 // per shard, last = meta
	rounds      uint64   // rounds passed in the epoch
	blocks      []int    // per shard, last = meta
	stakingV2At uint32
}

const e2eEpoch = 10

// economicsRun executes the real ComputeEndOfEpochEconomics; scale multiplies supply and fees (real-scale runs)
func economicsRun(c *epochCfg, acc, dev int64, scale *big.Int) (*block.Economics, *block.MetaBlock, interface {
	LeaderFees() *big.Int
	RewardsToBeDistributedForBlocks() *big.Int
	RewardsToBeDistributed() *big.Int
	NumberOfBlocks() uint64
	NumberOfBlocksPerShard() map[uint32]uint64
}, *override, error) {
	coord, err := sharding.NewMultiShardCoordinator(uint32(c.nShards), core.MetachainShardId)
	if err != nil {
		panic(err)
	}
	amt := func(x int64) *big.Int { return new(big.Int).Mul(big.NewInt(x), scale) }
	marsh := &marshal.GogoProtoMarshalizer{}
	store := genericMocks.NewChainStorerMock(0)
	prev := &block.MetaBlock{Round: c.prevRound, Nonce: c.prevNonces[c.nShards], Epoch: e2eEpoch - 1,
		AccumulatedFeesInEpoch: big.NewInt(0), DevFeesInEpoch: big.NewInt(0), AccumulatedFees: big.NewInt(0), DeveloperFees: big.NewInt(0)}
	prev.EpochStart.Economics = block.Economics{TotalSupply: amt(c.supply), TotalToDistribute: big.NewInt(10), TotalNewlyMinted: big.NewInt(10),
		RewardsPerBlock: big.NewInt(10), NodePrice: big.NewInt(1000), RewardsForProtocolSustainability: big.NewInt(10)}
	mb := &block.MetaBlock{Epoch: e2eEpoch, Round: c.prevRound + c.rounds, Nonce: c.prevNonces[c.nShards] + uint64(c.blocks[c.nShards]),
		AccumulatedFeesInEpoch: amt(acc), DevFeesInEpoch: amt(dev), AccumulatedFees: big.NewInt(0), DeveloperFees: big.NewInt(0)}
	for s := 0; s < c.nShards; s++ {
		prev.EpochStart.LastFinalizedHeaders = append(prev.EpochStart.LastFinalizedHeaders,
			block.EpochStartShardData{ShardID: uint32(s), Nonce: c.prevNonces[s], Round: c.prevRound - uint64(s%2)})
		mb.EpochStart.LastFinalizedHeaders = append(mb.EpochStart.LastFinalizedHeaders,
			block.EpochStartShardData{ShardID: uint32(s), Nonce: c.prevNonces[s] + uint64(c.blocks[s]), Round: mb.Round - uint64(s%2)})
	}
	buff, err := marsh.Marshal(prev)
	if err != nil {
		panic(err)
	}
	_ = store.GetStorer(dataRetriever.MetaBlockUnit).Put([]byte(core.EpochStartIdentifier(e2eEpoch-1)), buff)
	stats := metachain.NewEpochEconomicsStatistics()
	ec, err := metachain.NewEndOfEpochEconomicsDataCreator(metachain.ArgsNewEpochEconomics{
		Marshalizer: marsh, Hasher: sha256.NewSha256(), Store: store, ShardCoordinator: coord,
		RewardsHandler: &mock.RewardsHandlerStub{
			MaxInflationRateCalled:                 func(uint32) float64 { return c.inflation },
			ProtocolSustainabilityPercentageCalled: func() float64 { return c.prot.f },
			LeaderPercentageCalled:                 func() float64 { return c.leader.f },
			ProtocolSustainabilityAddressCalled:    func() string { return "unused" },
		},
		RoundTime:             &mock.RoundTimeDurationHandler{TimeDurationCalled: func() time.Duration { return time.Duration(c.roundSecs) * time.Second }},
		GenesisEpoch:          0,
		GenesisNonce:          0,
		GenesisTotalSupply:    amt(c.supply),
		EconomicsDataNotified: stats,
		StakingV2EnableEpoch:  c.stakingV2At,
	})
	if err != nil {
		panic(err)
	}
	eco, err := ec.ComputeEndOfEpochEconomics(mb)
	if err != nil {
		return nil, nil, nil, nil, err
	}
	mb.EpochStart.Economics = *eco
	return eco, mb, stats, &override{provider: stats, eco: eco, mb: mb}, nil
}

var pcts = []pct{{0.1, 1, 1}, {0.1, 1, 1}, {0.25, 25, 2}, {0.05, 5, 2}, {0, 0, 0}, {0.125, 125, 3}}

func randomEpoch(rng *rand.Rand) *epochCfg {
	c := &epochCfg{nShards: 1 + rng.Intn(3), roundSecs: []int{3600, 7200, 1800, 600}[rng.Intn(4)],
		inflation: []float64{0.1, 0.1, 0.05, 0.2, 0}[rng.Intn(5)], stakingV2At: uint32(rng.Intn(6)),
		supply: []int64{2000000, 20000000, 100000000, 7654321}[rng.Intn(4)]}
	c.leader, c.prot = pcts[rng.Intn(len(pcts))], pcts[rng.Intn(len(pcts))]
	c.rounds = uint64(20 + rng.Intn(80))
	c.prevRound = uint64(100 + rng.Intn(5000))
	for s := 0; s <= c.nShards; s++ {
		c.prevNonces = append(c.prevNonces, uint64(50+rng.Intn(3000)))
		b := int(c.rounds) - rng.Intn(int(c.rounds)/3+1)
		if rng.Intn(10) == 0 {
			b = rng.Intn(3)
		}
		c.blocks = append(c.blocks, b)
	}
	return c
}

func bigInt(x *big.Int) int { return int(x.Int64()) }

func recordE2E(seed int64, runs int, out string) {
	w, err := vtrace.NewWriter(out)
	if err != nil {
		vtrace.Broken(err.Error())
		return
	}
	rng := rand.New(rand.NewSource(seed))
	one := big.NewInt(1)
	stats := map[string]int{}
	distinct := vtrace.NewDistinct()
	realScaleBad := 0
	for i := 0; i < runs; i++ {
		c := randomEpoch(rng)
		// the inflation-based rewards of this epoch, observed from the real economics with no fees at all
		probe, _, _, _, err := economicsRun(c, 0, 0, one)
		if err != nil {
			stats["economics_refused_probe"]++
			continue
		}
		infl := probe.TotalToDistribute.Int64()
		// accumulated fees below / equal / above the inflation, developer fees zero or up to 30 % of the fees
		var acc int64
		switch i % 4 {
		case 0:
			acc = rng.Int63n(infl/2 + 1)
		case 1:
			acc = infl
		case 2:
			acc = infl + 1 + rng.Int63n(infl+50)
		default:
			acc = infl - rng.Int63n(3) + rng.Int63n(5)
			if acc < 0 {
				acc = 0
			}
		}
		dev := int64(0)
		if rng.Intn(3) != 0 {
			dev = rng.Int63n(acc*3/10 + 1)
		}
		eco, mb, pub, ov, err := economicsRun(c, acc, dev, one)
		if err != nil {
			stats["economics_refused"]++
			if stats["economics_refused"] <= 2 {
				vtrace.Drift(prop, fmt.Sprintf("ComputeEndOfEpochEconomics refuses epoch %+v acc %d dev %d: %v", *c, acc, dev, err), nil)
			}
			continue
		}
		// validators for the blocks the economics counted
		in := &input{Dsc: rng.Intn(4) != 0}
		bps := pub.NumberOfBlocksPerShard()
		na := 2 + rng.Intn(5)
		for a := 0; a < na; a++ {
			switch r := rng.Intn(10); {
			case r < 6:
				in.Addrs = append(in.Addrs, addrClass{"shard", 1 + rng.Intn(c.nShards)})
			case r < 8:
				in.Addrs = append(in.Addrs, addrClass{"dsc", c.nShards + 1})
			default:
				in.Addrs = append(in.Addrs, addrClass{"meta", c.nShards + 1})
			}
		}
		leader := bigInt(pub.LeaderFees())
		feesLeft := leader
		for s := 1; s <= c.nShards+1; s++ {
			id := uint32(s - 1)
			if s == c.nShards+1 {
				id = core.MetachainShardId
			}
			blocks := int(bps[id])
			nn := 1 + rng.Intn(5)
			cons := 1 + rng.Intn(nn)
			in.Blocks = append(in.Blocks, blocks)
			in.Cons = append(in.Cons, cons)
			selLeft := blocks * cons
			for j := 0; j < nn; j++ {
				n := node{Sh: s, Addr: 1 + rng.Intn(na), Online: rng.Intn(5) != 0, Elig: rng.Intn(8) != 0}
				if rng.Intn(3) != 0 {
					n.TopUp = rng.Intn(40)
				}
				if n.Elig {
					n.Sel = rng.Intn(blocks + 1)
					if n.Sel > selLeft {
						n.Sel = selLeft
					}
					selLeft -= n.Sel
					if n.Online && feesLeft > 0 && rng.Intn(2) == 0 {
						n.Fees = rng.Intn(feesLeft + 1)
						feesLeft -= n.Fees
					}
					in.TotalTopUp += n.TopUp
				}
				in.Nodes = append(in.Nodes, n)
			}
		}
		in.Nb = int(pub.NumberOfBlocks())
		in.Total, in.Dev, in.Leader = bigInt(eco.TotalToDistribute), int(dev), leader
		in.Prot, in.ForBlocks = bigInt(eco.RewardsForProtocolSustainability), bigInt(pub.RewardsToBeDistributedForBlocks())
		hc := handlerCfgs[rng.Intn(len(handlerCfgs))]
		ttu := big.NewInt(int64(in.TotalTopUp))
		if in.ForBlocks > 0 {
			in.Tu = bigInt(probeTopUp(in.ForBlocks, one, c.nShards, hc.factor, big.NewInt(hc.gradient), ttu))
		}
		r, _ := runRealWith(in, one, hc.factor, big.NewInt(hc.gradient), ttu, ov)
		if r.err != "" {
			stats["errors"]++
			vtrace.Violation(prop, "C35/e2e/run/"+sigOf(r.err), fmt.Sprintf("epoch %+v acc %d dev %d: %s", *c, acc, dev, r.err), nil)
			continue
		}
		txs := make([][]int, 0, len(r.txs))
		for _, t := range r.txs {
			txs = append(txs, []int{bigInt(t[0]), bigInt(t[1]), bigInt(t[2])})
		}
		nb := in.Nb
		if nb < 1 {
			nb = 1
		}
		ep := M{"infl": int(infl), "nb": nb, "acc": int(acc), "dev": int(dev), "v2": mb.Epoch > c.stakingV2At,
			"lp": M{"num": c.leader.num, "k": c.leader.k}, "pp": M{"num": c.prot.num, "k": c.prot.k}}
		ec := M{"total": bigInt(eco.TotalToDistribute), "minted": bigInt(eco.TotalNewlyMinted), "rpb": bigInt(eco.RewardsPerBlock),
			"prot": bigInt(eco.RewardsForProtocolSustainability), "leader": leader, "forBlocks": bigInt(pub.RewardsToBeDistributedForBlocks())}
		w.Emit("RunE2E", M{"epoch": ep, "eco": ec, "run": in}, M{"txs": txs, "prot": bigInt(r.prot)}, M{})
		stats["runs"]++
		switch {
		case acc > infl:
			stats["fees_above_inflation"]++
		case acc == infl:
			stats["fees_equal_inflation"]++
		default:
			stats["fees_below_inflation"]++
		}
		if dev > 0 {
			stats["with_dev_fees"]++
		}
		distinct.Add(fmt.Sprint(acc > infl, acc == infl, dev > 0, c.nShards, c.leader.num, c.prot.num, in.Tu > 0, len(txs)))
		if stats["runs"] <= 2 {
			vtrace.Sample(prop, M{"epoch": ep, "economics": ec, "reward_txs": txs, "protocol": bigInt(r.prot)})
		}

		// the same epoch at real scale (x 10^15 + jitter): Go-side sum only (supplementary, not the specification)
		if i%3 == 0 {
			scale := new(big.Int).Exp(big.NewInt(10), big.NewInt(15), nil)
			scale.Add(scale, big.NewInt(rng.Int63n(100000)))
			ecoB, _, _, ovB, err := economicsRun(c, acc, dev, scale)
			if err != nil {
				continue
			}
			grad, _ := new(big.Int).SetString("3000000000000000000000000", 10)
			rb, _ := runRealWith(in, scale, 0.25, grad, new(big.Int).Mul(ttu, scale), ovB)
			if rb.err != "" {
				continue
			}
			sum := new(big.Int).Set(rb.prot)
			for _, t := range rb.txs {
				sum.Add(sum, t[1])
			}
			want := new(big.Int).Sub(ecoB.TotalToDistribute, new(big.Int).Mul(big.NewInt(dev), scale))
			stats["real_scale_runs"]++
			// validators' accumulated fees were chosen for the small scale: times scale they still fit the leader fees
			if sum.Cmp(want) != 0 {
				realScaleBad++
				if realScaleBad <= 2 {
					vtrace.Violation(prop, "C35/e2e/real-scale/supplementary-sum-identity",
						fmt.Sprintf("real economics + real rewardsCreatorV2 at real scale: reward transactions add up to %s, TotalToDistribute - DevFeesInEpoch = %s (epoch %+v, fees %d, dev %d, x %s)",
							sum, want, *c, acc, dev, scale), nil)
				}
			}
		}
	}
	if err := w.Close(); err != nil {
		vtrace.Broken(err.Error())
	}
	vtrace.Stat("events", w.N)
	vtrace.Stat("distinct", distinct.Len())
	vtrace.Stat("stats", stats)
}
