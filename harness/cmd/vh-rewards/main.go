// vh-rewards binds specs/Rewards to the real epochStart/metachain.rewardsCreatorV2.
//
//	vh-rewards run <inputs.ndjson> <trace-out>
//	    every TLC-enumerated input (economics figures, blocks, consensus sizes, validators, address classes) is
//	    given to a real rewardsCreatorV2 (real shard coordinator, real epoch economics statistics, real current-block
//	    tx pool; staking data / rewards handler / accounts stubs returning the input's figures); the created reward
//	    transactions are read back from the returned miniblocks + GetLocalTxCache() and logged for Trace_Rewards.
//	vh-rewards record <seed> <runs> <bigruns> <out>
//	    the same with seeded random consistent inputs (up to 3 shards + meta, 6 nodes per shard, amounts < 2^17 so that
//	    every product fits TLC's integers), and <bigruns> real-scale runs (10^21 amounts) logged as base-10000 limbs.
//
// The top-up share (computeTopUpRewards, an atan of floats) is not modelled by the specification; it is a logged
// parameter.  It is OBSERVED from the real code by a probe run: a second real creator with the same rewards handler,
// the same total top-up and the same rewards for blocks but one validator, one block, consensus size 1 and no
// top-up of its own pays that validator exactly (rewards for blocks - top-up share).
//
// Supplementary (clearly not the specification): on real-scale runs the sum identity is also evaluated with math/big.
package main

import (
	"bytes"
	"encoding/hex"
	"encoding/json"
	"fmt"
	"math/big"
	"math/rand"
	"os"
	"sort"
	"strconv"

	"github.com/ElrondNetwork/elrond-go/core"
	"github.com/ElrondNetwork/elrond-go/data/block"
	"github.com/ElrondNetwork/elrond-go/data/rewardTx"
	"github.com/ElrondNetwork/elrond-go/data/state"
	"github.com/ElrondNetwork/elrond-go/epochStart"
	"github.com/ElrondNetwork/elrond-go/epochStart/metachain"
	"github.com/ElrondNetwork/elrond-go/epochStart/mock"
	"github.com/ElrondNetwork/elrond-go/hashing/sha256"
	"github.com/ElrondNetwork/elrond-go/marshal"
	"github.com/ElrondNetwork/elrond-go/sharding"
	"github.com/ElrondNetwork/elrond-go/testscommon"
	"github.com/ElrondNetwork/elrond-go/testscommon/economicsmocks"
	"github.com/ElrondNetwork/elrond-go/testscommon/genericMocks"
	"github.com/ElrondNetwork/elrond-go/vm"
	vmcommon "github.com/ElrondNetwork/elrond-vm-common"
	"verif/harness/internal/vtrace"
)

type M = vtrace.M

const prop = "C35"

type node struct {
	Sh     int  `json:"sh"`
	Addr   int  `json:"addr"`
	Online bool `json:"online"`
	Elig   bool `json:"elig"`
	Sel    int  `json:"sel"`
	Fees   int  `json:"fees"`
	TopUp  int  `json:"topUp"`
}

type addrClass struct {
	Cls string `json:"cls"`
	Sh  int    `json:"sh"`
}

// input is the specification's input record (amounts are multiplied by scale in real-scale runs)
type input struct {
	Total      int         `json:"total"`
	Dev        int         `json:"dev"`
	Leader     int         `json:"leader"`
	Prot       int         `json:"prot"`
	ForBlocks  int         `json:"forBlocks"`
	Nb         int         `json:"nb"`
	Blocks     []int       `json:"blocks"`
	Cons       []int       `json:"cons"`
	Nodes      []node      `json:"nodes"`
	Addrs      []addrClass `json:"addrs"`
	Dsc        bool        `json:"dsc"`
	Tu         int         `json:"tu"`
	TotalTopUp int         `json:"totalTopUp"`
}

type world struct {
	nShards uint32
	coord   sharding.Coordinator
	addrs   map[string][]byte // "shard/0/1", "meta/1", "dsc/1", "prot"
}

func newWorld(nShards int) *world {
	c, err := sharding.NewMultiShardCoordinator(uint32(nShards), core.MetachainShardId)
	if err != nil {
		panic(err)
	}
	return &world{nShards: uint32(nShards), coord: c, addrs: map[string][]byte{}}
}

// address of a class: searched so that the REAL shard coordinator puts it where the input says
func (w *world) address(cls string, sh int, k int) []byte {
	key := fmt.Sprintf("%s/%d/%d", cls, sh, k)
	if a, ok := w.addrs[key]; ok {
		return a
	}
	var a []byte
	if cls == "shard" {
		for i := 0; ; i++ {
			a = bytes.Repeat([]byte{byte(7 + k)}, 32)
			a[30] = byte(k)
			a[31] = byte(i)
			if w.coord.ComputeId(a) == uint32(sh-1) {
				break
			}
			if i > 255 {
				panic("no address for shard")
			}
		}
	} else {
		a = append([]byte(nil), vm.FirstDelegationSCAddress...)
		a[27] = byte(1 + k)
		if cls == "meta" {
			a[26] = 9
		}
		if w.coord.ComputeId(a) != core.MetachainShardId {
			panic("metachain address is not on the metachain")
		}
	}
	w.addrs[key] = a
	return a
}

func shardID(w *world, idx int) uint32 {
	if idx == int(w.nShards)+1 {
		return core.MetachainShardId
	}
	return uint32(idx - 1)
}

func shardIdx(w *world, id uint32) int {
	if id == core.MetachainShardId {
		return int(w.nShards) + 1
	}
	return int(id) + 1
}

type result struct {
	txs   [][3]*big.Int // address id, value, miniblock index
	prot  *big.Int
	err   string   // the run cannot be expressed in the specification's terms
	notes []string // deviations that are not part of C35 (reported as drift)
}

var variant int

// runReal executes CreateRewardsMiniBlocks on a real rewardsCreatorV2 for the input (amounts times scale + jitter 0)
func runReal(in *input, scale *big.Int, factor float64, gradient *big.Int, totalTopUp *big.Int) (*result, *world) {
	return runRealWith(in, scale, factor, gradient, totalTopUp, nil)
}

// override: the economics figures do not come from the input record but from a real economics component that has
// already published them into the shared provider and returned the Economics for the given metablock
type override struct {
	provider epochStart.EpochEconomicsDataProvider
	eco      *block.Economics
	mb       *block.MetaBlock
}

func runRealWith(in *input, scale *big.Int, factor float64, gradient *big.Int, totalTopUp *big.Int, ov *override) (*result, *world) {
	w := newWorld(len(in.Blocks) - 1)
	amt := func(x int) *big.Int { return new(big.Int).Mul(big.NewInt(int64(x)), scale) }
	protAddr := w.address("shard", 1, 200)
	addrOf := func(a int) []byte {
		c := in.Addrs[a-1]
		return w.address(c.Cls, c.Sh, a)
	}
	dscAddrs := map[string]bool{}
	byAddr := map[string]int{}
	for i, c := range in.Addrs {
		byAddr[string(addrOf(i+1))] = i + 1
		if c.Cls == "dsc" {
			dscAddrs[string(addrOf(i+1))] = true
		}
	}
	accounts := &testscommon.AccountsStub{
		GetExistingAccountCalled: func(addr []byte) (vmcommon.AccountHandler, error) {
			acc, err := state.NewUserAccount(addr)
			if err != nil {
				return nil, err
			}
			if dscAddrs[string(addr)] {
				_ = acc.DataTrieTracker().SaveKeyValue([]byte(core.DelegationSystemSCKey), []byte(core.DelegationSystemSCKey))
			}
			return acc, nil
		},
	}
	topUps := map[string]*big.Int{}
	validators := map[uint32][]*state.ValidatorInfo{}
	for s := 1; s <= len(in.Blocks); s++ {
		validators[shardID(w, s)] = []*state.ValidatorInfo{}
	}
	for i, n := range in.Nodes {
		key := []byte(fmt.Sprintf("bls-key-%03d", i))
		v := &state.ValidatorInfo{
			PublicKey: key, ShardId: shardID(w, n.Sh), Index: uint32(i), RewardAddress: addrOf(n.Addr),
			NumSelectedInSuccessBlocks: uint32(n.Sel), AccumulatedFees: amt(n.Fees), TempRating: 50, Rating: 50,
		}
		variant++
		switch {
		case n.Elig && n.Online:
			// online = signed or led at least one block; all three eligible lists are used
			switch variant % 3 {
			case 0:
				v.LeaderSuccess, v.ValidatorSuccess = 1, uint32(n.Sel)
			case 1:
				v.LeaderSuccess = 1
			default:
				v.ValidatorSuccess = 1 + uint32(n.Sel)
			}
			v.List = []string{string(core.EligibleList), string(core.EligibleList), string(core.LeavingList), string(core.JailedList)}[variant%4]
		case n.Elig:
			v.ValidatorFailure = 1 + uint32(n.Sel)
			if variant%2 == 0 {
				v.LeaderFailure = 1
			}
			v.List = []string{string(core.EligibleList), string(core.LeavingList), string(core.JailedList)}[variant%3]
		default:
			v.List = []string{string(core.WaitingList), string(core.LeavingList), string(core.InactiveList)}[variant%3]
			if v.List == string(core.WaitingList) {
				v.ValidatorSuccess = 1 // counters of a node that is not eligible do not matter
			}
		}
		topUps[string(key)] = amt(n.TopUp)
		validators[v.ShardId] = append(validators[v.ShardId], v)
	}
	var provider epochStart.EpochEconomicsDataProvider
	stats := metachain.NewEpochEconomicsStatistics()
	provider = stats
	if ov != nil {
		provider = ov.provider
	}
	stats.SetNumberOfBlocks(uint64(in.Nb))
	bps := map[uint32]uint64{}
	for s, b := range in.Blocks {
		bps[shardID(w, s+1)] = uint64(b)
	}
	stats.SetNumberOfBlocksPerShard(bps)
	stats.SetLeadersFees(amt(in.Leader))
	stats.SetRewardsToBeDistributed(amt(in.Total))
	stats.SetRewardsToBeDistributedForBlocks(amt(in.ForBlocks))
	const epoch = 10
	enable := uint32(epoch - 3)
	if !in.Dsc {
		enable = epoch + 3
	}
	cons := in.Cons
	args := metachain.RewardsCreatorArgsV2{
		BaseRewardsCreatorArgs: metachain.BaseRewardsCreatorArgs{
			ShardCoordinator:              w.coord,
			PubkeyConverter:               mock.NewPubkeyConverterMock(32),
			RewardsStorage:                genericMocks.NewStorerMock("rewards", 0),
			MiniBlockStorage:              genericMocks.NewStorerMock("miniblocks", 0),
			Hasher:                        sha256.NewSha256(),
			Marshalizer:                   &marshal.GogoProtoMarshalizer{},
			DataPool:                      testscommon.NewPoolsHolderMock(),
			ProtocolSustainabilityAddress: hex.EncodeToString(protAddr),
			NodesConfigProvider: &mock.NodesCoordinatorStub{ConsensusGroupSizeCalled: func(id uint32) int {
				return cons[shardIdx(w, id)-1]
			}},
			DelegationSystemSCEnableEpoch: enable,
			UserAccountsDB:                accounts,
		},
		StakingDataProvider: &mock.StakingDataProviderStub{
			GetTotalTopUpStakeEligibleNodesCalled: func() *big.Int { return new(big.Int).Set(totalTopUp) },
			GetTotalStakeEligibleNodesCalled:      func() *big.Int { return new(big.Int).Add(totalTopUp, big.NewInt(2500)) },
			GetNodeStakedTopUpCalled: func(k []byte) (*big.Int, error) {
				if t, ok := topUps[string(k)]; ok {
					return new(big.Int).Set(t), nil
				}
				return nil, fmt.Errorf("unknown key")
			},
		},
		EconomicsDataProvider: provider,
		RewardsHandler: &economicsmocks.EconomicsHandlerStub{
			RewardsTopUpGradientPointCalled: func() *big.Int { return new(big.Int).Set(gradient) },
			RewardsTopUpFactorCalled:        func() float64 { return factor },
		},
	}
	rc, err := metachain.NewRewardsCreatorV2(args)
	if err != nil {
		panic(err)
	}
	mb := &block.MetaBlock{Epoch: epoch, Round: 1000, Nonce: 900, DevFeesInEpoch: amt(in.Dev), AccumulatedFeesInEpoch: amt(in.Dev + in.Leader*2)}
	eco := &block.Economics{TotalToDistribute: amt(in.Total), RewardsForProtocolSustainability: amt(in.Prot),
		TotalSupply: amt(in.Total * 1000), TotalNewlyMinted: amt(in.Total), RewardsPerBlock: big.NewInt(1), NodePrice: big.NewInt(1)}
	if ov != nil {
		mb, eco = ov.mb, ov.eco
	}
	mbs, err := rc.CreateRewardsMiniBlocks(mb, validators, eco)
	res := &result{}
	if err != nil {
		res.err = "CreateRewardsMiniBlocks failed: " + err.Error()
		return res, w
	}
	for _, m := range mbs {
		for _, h := range m.TxHashes {
			th, err := rc.GetLocalTxCache().GetTx(h)
			if err != nil {
				res.err = "reward tx of a miniblock is not in the local tx cache: " + err.Error()
				return res, w
			}
			tx := th.(*rewardTx.RewardTx)
			idx := big.NewInt(int64(shardIdx(w, m.ReceiverShardID)))
			if bytes.Equal(tx.RcvAddr, protAddr) {
				if res.prot == nil {
					res.prot = big.NewInt(0)
				} else {
					res.notes = append(res.notes, "more than one protocol sustainability transaction (values added)")
				}
				res.prot.Add(res.prot, tx.Value)
				if m.ReceiverShardID != w.coord.ComputeId(protAddr) {
					res.notes = append(res.notes, "protocol sustainability transaction in the wrong miniblock")
				}
				continue
			}
			a, ok := byAddr[string(tx.RcvAddr)]
			if !ok {
				res.err = "reward transaction to an address that is nobody's reward address"
				return res, w
			}
			res.txs = append(res.txs, [3]*big.Int{big.NewInt(int64(a)), new(big.Int).Set(tx.Value), idx})
		}
	}
	if res.prot == nil {
		res.notes = append(res.notes, "no protocol sustainability transaction (logged as 0)")
		res.prot = big.NewInt(0)
	}
	if g := rc.GetProtocolSustainabilityRewards(); g.Cmp(res.prot) != 0 {
		res.notes = append(res.notes, fmt.Sprintf("GetProtocolSustainabilityRewards() = %s differs from the transaction's value %s", g, res.prot))
	}
	sort.Slice(res.txs, func(i, j int) bool { return res.txs[i][0].Cmp(res.txs[j][0]) < 0 })
	// the verification path recomputes the same miniblocks: VerifyRewardsMiniBlocks must accept its own output
	for _, m := range mbs {
		h, _ := core.CalculateHash(&marshal.GogoProtoMarshalizer{}, sha256.NewSha256(), m)
		mb.MiniBlockHeaders = append(mb.MiniBlockHeaders, block.MiniBlockHeader{Hash: h, SenderShardID: m.SenderShardID,
			ReceiverShardID: m.ReceiverShardID, Type: m.Type, TxCount: uint32(len(m.TxHashes))})
	}
	if err := rc.VerifyRewardsMiniBlocks(mb, validators, eco); err != nil {
		res.notes = append(res.notes, "VerifyRewardsMiniBlocks rejects the miniblocks CreateRewardsMiniBlocks made: "+err.Error())
	}
	return res, w
}

// probeTopUp observes the top-up share of the real code for (rewards for blocks, total top-up, handler settings)
func probeTopUp(forBlocks int, scale *big.Int, nShards int, factor float64, gradient *big.Int, totalTopUp *big.Int) *big.Int {
	p := &input{Total: forBlocks, ForBlocks: forBlocks, Nb: 1, Dsc: true,
		Blocks: make([]int, nShards+1), Cons: make([]int, nShards+1),
		Nodes: []node{{Sh: 1, Addr: 1, Online: true, Elig: true, Sel: 1}},
		Addrs: []addrClass{{Cls: "shard", Sh: 1}}}
	p.Blocks[0] = 1
	for i := range p.Cons {
		p.Cons[i] = 1
	}
	r, _ := runReal(p, scale, factor, gradient, totalTopUp)
	if r.err != "" {
		panic("probe run failed: " + r.err)
	}
	paid := big.NewInt(0)
	for _, t := range r.txs {
		paid.Add(paid, t[1])
	}
	fb := new(big.Int).Mul(big.NewInt(int64(forBlocks)), scale)
	return fb.Sub(fb, paid)
}

func limbs(x *big.Int) []int {
	r := []int{}
	t := new(big.Int).Set(x)
	if t.Sign() < 0 {
		return []int{-1}
	}
	b, m := big.NewInt(10000), new(big.Int)
	for t.Sign() > 0 {
		t.DivMod(t, b, m)
		r = append(r, int(m.Int64()))
	}
	return r
}

type handlerCfg struct {
	factor   float64
	gradient int64
}

var handlerCfgs = []handlerCfg{{0.25, 40}, {0.5, 10}, {1, 1}, {0.5, 3000}, {0, 10}, {0.25, 1}, {0.9, 200}}

// execute one small-scale run and log it
func execute(w *vtrace.Writer, in *input, hc handlerCfg, stats map[string]int, distinct *vtrace.Distinct) {
	one := big.NewInt(1)
	ttu := big.NewInt(int64(in.TotalTopUp))
	tu := probeTopUp(in.ForBlocks, one, len(in.Blocks)-1, hc.factor, big.NewInt(hc.gradient), ttu)
	in.Tu = int(tu.Int64())
	r, _ := runReal(in, one, hc.factor, big.NewInt(hc.gradient), ttu)
	if r.err != "" {
		stats["errors"]++
		vtrace.Violation(prop, "C35/run/"+sigOf(r.err), fmt.Sprintf("input %s: %s", js(in), r.err), M{"input": in})
		return
	}
	for _, n := range r.notes {
		stats["notes"]++
		if stats["notes"] <= 3 {
			vtrace.Drift(prop, fmt.Sprintf("input %s: %s", js(in), n), nil)
		}
	}
	txs := make([][]int, 0, len(r.txs))
	for _, t := range r.txs {
		txs = append(txs, []int{int(t[0].Int64()), int(t[1].Int64()), int(t[2].Int64())})
	}
	w.Emit("Run", in, M{"txs": txs, "prot": int(r.prot.Int64())}, M{})
	stats["runs"]++
	if in.Tu > 0 {
		stats["with_top_up"]++
	}
	offline, shared, meta := 0, 0, 0
	seen := map[int]bool{}
	for _, n := range in.Nodes {
		if n.Elig && !n.Online {
			offline++
		}
		if n.Elig && n.Online {
			if seen[n.Addr] {
				shared++
			}
			seen[n.Addr] = true
			if in.Addrs[n.Addr-1].Cls != "shard" {
				meta++
			}
		}
	}
	if offline > 0 {
		stats["with_offline_nodes"]++
	}
	if shared > 0 {
		stats["with_shared_reward_address"]++
	}
	if meta > 0 {
		stats["with_metachain_reward_address"]++
	}
	distinct.Add(fmt.Sprint(len(in.Nodes), offline > 0, shared > 0, meta > 0, in.Tu > 0, in.Dsc, len(txs), len(in.Blocks)))
}

func sigOf(e string) string {
	if len(e) > 40 {
		e = e[:40]
	}
	b := []byte(e)
	for i := range b {
		if !(b[i] >= 'a' && b[i] <= 'z' || b[i] >= 'A' && b[i] <= 'Z') {
			b[i] = '-'
		}
	}
	return string(b)
}

func js(v interface{}) string {
	b, _ := json.Marshal(v)
	return string(b)
}

func runInputs(path, out string) {
	lines, err := vtrace.ReadLines(path)
	if err != nil {
		vtrace.Broken(err.Error())
		return
	}
	w, err := vtrace.NewWriter(out)
	if err != nil {
		vtrace.Broken(err.Error())
		return
	}
	stats := map[string]int{}
	distinct := vtrace.NewDistinct()
	for li, line := range lines {
		var b []struct {
			A  string `json:"a"`
			In input  `json:"in"`
		}
		if err := json.Unmarshal(line, &b); err != nil || len(b) == 0 {
			vtrace.Broken(fmt.Sprintf("input line %d: %v", li+1, err))
			return
		}
		in := b[0].In
		execute(w, &in, handlerCfgs[li%len(handlerCfgs)], stats, distinct)
		if li < 2 {
			vtrace.Sample(prop, in)
		}
	}
	if err := w.Close(); err != nil {
		vtrace.Broken(err.Error())
	}
	vtrace.Stat("events", w.N)
	vtrace.Stat("inputs", len(lines))
	vtrace.Stat("distinct", distinct.Len())
	vtrace.Stat("stats", stats)
}

// randomInput builds a consistent input: what economics.go and the validator statistics could produce
func randomInput(rng *rand.Rand) *input {
	nShards := 1 + rng.Intn(3)
	in := &input{Dsc: rng.Intn(4) != 0}
	// reward addresses: some per shard, delegation contracts, unsupported metachain addresses
	na := 2 + rng.Intn(6)
	for a := 0; a < na; a++ {
		switch r := rng.Intn(10); {
		case r < 6:
			in.Addrs = append(in.Addrs, addrClass{"shard", 1 + rng.Intn(nShards)})
		case r < 8:
			in.Addrs = append(in.Addrs, addrClass{"dsc", nShards + 1})
		default:
			in.Addrs = append(in.Addrs, addrClass{"meta", nShards + 1})
		}
	}
	feesLeft := 0
	leader := 0
	if rng.Intn(5) != 0 {
		leader = rng.Intn(3000)
	}
	feesLeft = leader
	for s := 1; s <= nShards+1; s++ {
		blocks := rng.Intn(30)
		if rng.Intn(8) == 0 {
			blocks = 0
		}
		nn := 1 + rng.Intn(6)
		cons := 1 + rng.Intn(nn)
		in.Blocks = append(in.Blocks, blocks)
		in.Cons = append(in.Cons, cons)
		in.Nb += blocks
		selLeft := blocks * cons
		if rng.Intn(4) == 0 && selLeft > 0 {
			selLeft -= rng.Intn(selLeft) // some members of the consensus groups are no longer in the list
		}
		for i := 0; i < nn; i++ {
			n := node{Sh: s, Addr: 1 + rng.Intn(na), Online: rng.Intn(5) != 0, Elig: rng.Intn(7) != 0}
			if rng.Intn(3) != 0 {
				n.TopUp = rng.Intn(60)
			}
			if n.Elig {
				n.Sel = blocks
				if i < nn-1 || rng.Intn(2) == 0 {
					n.Sel = rng.Intn(blocks + 1)
				}
				if n.Sel > selLeft {
					n.Sel = selLeft
				}
				selLeft -= n.Sel
				if n.Online && feesLeft > 0 && rng.Intn(2) == 0 {
					n.Fees = rng.Intn(feesLeft + 1)
					feesLeft -= n.Fees
				}
				in.TotalTopUp += n.TopUp
			} else {
				n.Sel = rng.Intn(5)
			}
			in.Nodes = append(in.Nodes, n)
		}
	}
	in.Leader = leader
	in.ForBlocks = rng.Intn(90000)
	switch rng.Intn(8) {
	case 0:
		in.ForBlocks = rng.Intn(50)
	case 1:
		in.ForBlocks = 0
	}
	in.Dev = rng.Intn(2000) * rng.Intn(2)
	in.Prot = (in.ForBlocks + in.Leader + in.Dev) / 9 // about 10 % of the total
	if rng.Intn(6) == 0 {
		in.Prot = 0
	}
	in.Total = in.ForBlocks + in.Leader + in.Dev + in.Prot
	return in
}

func record(seed int64, runs, bigRuns int, out string) {
	w, err := vtrace.NewWriter(out)
	if err != nil {
		vtrace.Broken(err.Error())
		return
	}
	rng := rand.New(rand.NewSource(seed))
	stats := map[string]int{}
	distinct := vtrace.NewDistinct()
	for i := 0; i < runs; i++ {
		in := randomInput(rng)
		execute(w, in, handlerCfgs[rng.Intn(len(handlerCfgs))], stats, distinct)
		if i < 2 {
			vtrace.Sample(prop, in)
		}
	}
	// real scale: the same kind of inputs with amounts of 10^16 .. 10^21 (sum identity and positivity only)
	bad := 0
	for i := 0; i < bigRuns; i++ {
		in := randomInput(rng)
		scale := new(big.Int).Exp(big.NewInt(10), big.NewInt(int64(12+rng.Intn(6))), nil)
		scale.Add(scale, big.NewInt(rng.Int63n(1000000)))
		ttu := new(big.Int).Mul(big.NewInt(int64(in.TotalTopUp)), scale)
		grad, _ := new(big.Int).SetString("3000000000000000000000000", 10)
		if rng.Intn(2) == 0 {
			grad = new(big.Int).Mul(scale, big.NewInt(int64(1+rng.Intn(500))))
		}
		r, _ := runReal(in, scale, []float64{0.25, 0.5, 1}[rng.Intn(3)], grad, ttu)
		if r.err != "" {
			vtrace.Violation(prop, "C35/run/"+sigOf(r.err), fmt.Sprintf("real-scale input %s x %s: %s", js(in), scale, r.err), M{"input": in})
			continue
		}
		total := new(big.Int).Mul(big.NewInt(int64(in.Total)), scale)
		dev := new(big.Int).Mul(big.NewInt(int64(in.Dev)), scale)
		vals := [][]int{}
		sum := new(big.Int).Set(r.prot)
		for _, t := range r.txs {
			vals = append(vals, limbs(t[1]))
			sum.Add(sum, t[1])
		}
		w.Emit("RunBig", M{"total": limbs(total), "dev": limbs(dev)}, M{"values": vals, "prot": limbs(r.prot)}, M{})
		stats["big_runs"]++
		// supplementary oracle (math/big, not the specification)
		if sum.Add(sum, dev).Cmp(total) != 0 {
			bad++
			if bad <= 2 {
				vtrace.Violation(prop, "C35/real-scale/supplementary-sum-identity",
					fmt.Sprintf("real-scale run: reward transactions + developer fees = %s, total to distribute = %s (input %s x %s)", sum, total, js(in), scale), M{"input": in})
			}
		}
	}
	if err := w.Close(); err != nil {
		vtrace.Broken(err.Error())
	}
	vtrace.Stat("events", w.N)
	vtrace.Stat("distinct", distinct.Len())
	vtrace.Stat("stats", stats)
}

func main() {
	vtrace.Quiet()
	if len(os.Args) < 2 {
		fmt.Fprintln(os.Stderr, "usage: vh-rewards run <inputs> <out> | record <seed> <runs> <bigruns> <out>")
		os.Exit(2)
	}
	switch os.Args[1] {
	case "run":
		runInputs(os.Args[2], os.Args[3])
	case "e2e":
		seed, _ := strconv.ParseInt(os.Args[2], 10, 64)
		runs, _ := strconv.Atoi(os.Args[3])
		recordE2E(seed, runs, os.Args[4])
	case "runv1":
		runInputsV1(os.Args[2], os.Args[3])
	case "recordv1":
		seed, _ := strconv.ParseInt(os.Args[2], 10, 64)
		runs, _ := strconv.Atoi(os.Args[3])
		recordV1(seed, runs, os.Args[4], len(os.Args) > 5 && os.Args[5] == "inactive")
	case "record":
		seed, _ := strconv.ParseInt(os.Args[2], 10, 64)
		runs, _ := strconv.Atoi(os.Args[3])
		big, _ := strconv.Atoi(os.Args[4])
		record(seed, runs, big, os.Args[5])
	default:
		os.Exit(2)
	}
}
