// vh-genesis binds specs/Genesis to genesis/parsing.NewAccountsParser (property C47).
//
//	vh-genesis replay <cases.ndjson> <scratch dir>
//
// Every line is one TLC-enumerated input [conv, total, es] with the specification's verdict
// [accept (code as modelled), err, required (the four clauses of C47), why].  The harness writes the list as a real
// genesis JSON file (addresses concretised with the bech32 library / hex, in the requested letter case), runs the real
// parser with the real converter and the ed25519 key generator, and compares:
//
//	real accepts /\ ~required         -> VIOLATION of C47 (signature = the failed clause computed by TLA+)
//	real verdict # modelled verdict   -> drift (C47 is "accepted only if": a stricter parser is not a violation)
package main

import (
	"encoding/hex"
	"encoding/json"
	"errors"
	"fmt"
	"io/ioutil"
	"math/big"
	"os"
	"path/filepath"
	"strings"
	"unicode"

	"github.com/ElrondNetwork/elrond-go/core"
	"github.com/ElrondNetwork/elrond-go/core/pubkeyConverter"
	"github.com/ElrondNetwork/elrond-go/crypto/signing"
	"github.com/ElrondNetwork/elrond-go/crypto/signing/ed25519"
	"github.com/ElrondNetwork/elrond-go/genesis"
	"github.com/ElrondNetwork/elrond-go/genesis/parsing"
	"github.com/btcsuite/btcutil/bech32"
	"verif/harness/internal/vtrace"
)

type M = vtrace.M

var prop = "C47"

// the concrete 32-byte addresses behind the ids of the specification
var addrBytes = map[string][]byte{}

func init() {
	mk := func(prefix []byte, fill byte) []byte {
		b := make([]byte, 32)
		copy(b, prefix)
		for i := len(prefix); i < 32; i++ {
			b[i] = fill + byte(i)*7
		}
		return b
	}
	addrBytes["u1"] = mk([]byte{0xab, 0x01}, 0x11)
	addrBytes["u2"] = mk([]byte{0xcd, 0x02}, 0x23)
	addrBytes["u3"] = mk([]byte{0xef, 0x03}, 0x35)
	addrBytes["almost"] = mk([]byte{0, 0, 0, 0, 0, 0, 0, 0x01, 0xbc}, 0x47) // 7 zero bytes: still a user address
	addrBytes["sc1"] = mk([]byte{0, 0, 0, 0, 0, 0, 0, 0, 0x05, 0x00, 0xde}, 0x59)
	addrBytes["sc2"] = mk([]byte{0, 0, 0, 0, 0, 0, 0, 0, 0x05, 0x00, 0xfa}, 0x6b)
	addrBytes["deleg"] = mk([]byte{0, 0, 0, 0, 0, 0, 0, 0, 0x05, 0x00, 0xaa}, 0x7d)
}

// text writes an address in the requested converter syntax and letter case (bech32 library / encoding/hex, not the
// converter under test)
func text(conv string, id string, form string) string {
	b, ok := addrBytes[id]
	if !ok {
		panic("address id " + id)
	}
	var s string
	if conv == "hex" {
		s = hex.EncodeToString(b)
	} else {
		five, err := bech32.ConvertBits(b, 8, 5, true)
		if err != nil {
			panic(err)
		}
		s, err = bech32.Encode("erd", five)
		if err != nil {
			panic(err)
		}
	}
	switch form {
	case "lower":
		return s
	case "upper":
		return strings.ToUpper(s)
	case "mixed":
		// upper-case every second letter of the data part: for bech32 the prefix stays lower case
		r := []rune(s)
		n := 0
		for i := len(r) - 1; i >= 0; i-- {
			if unicode.IsLetter(r[i]) {
				if n%2 == 0 {
					r[i] = unicode.ToUpper(r[i])
				}
				n++
			}
		}
		m := string(r)
		if m == s || m == strings.ToUpper(s) {
			panic("no mixed-case form for " + s)
		}
		return m
	}
	panic("form " + form)
}

// bigOf is the concretisation table of the unit / magnitude classes of the specification
func bigOf(name string) *big.Int {
	p := func(base, exp int64) *big.Int { return new(big.Int).Exp(big.NewInt(base), big.NewInt(exp), nil) }
	switch name {
	case "1":
		return big.NewInt(1)
	case "10^18":
		return p(10, 18)
	case "real": // three entries of this size add up to the real genesis supply of about 2*10^25 (and it is not a round number)
		v, _ := new(big.Int).SetString("6666666666666666666666667", 10)
		return v
	case "2^32":
		return p(2, 32)
	case "2^63":
		return p(2, 63)
	case "2^64":
		return p(2, 64)
	case "2^64-1":
		return new(big.Int).Sub(p(2, 64), big.NewInt(1))
	case "2^64+1":
		return new(big.Int).Add(p(2, 64), big.NewInt(1))
	case "3*2^64":
		return new(big.Int).Mul(big.NewInt(3), p(2, 64))
	}
	panic("unit/magnitude class " + name)
}

type jsonDeleg struct {
	Address string `json:"address"`
	Value   string `json:"value"`
}
type jsonEntry struct {
	Address      string    `json:"address"`
	Supply       string    `json:"supply"`
	Balance      string    `json:"balance"`
	StakingValue string    `json:"stakingvalue"`
	Delegation   jsonDeleg `json:"delegation"`
}

func class(err error) string {
	if err == nil {
		return "ok"
	}
	for _, c := range []struct {
		e error
		n string
	}{
		{genesis.ErrInvalidAddress, "InvalidAddress"}, {genesis.ErrEmptyAddress, "EmptyAddress"},
		{genesis.ErrEmptyDelegationAddress, "EmptyDelegationAddress"}, {genesis.ErrInvalidDelegationAddress, "InvalidDelegationAddress"},
		{genesis.ErrAddressIsSmartContract, "AddressIsSmartContract"}, {genesis.ErrInvalidSupply, "InvalidSupply"},
		{genesis.ErrInvalidBalance, "InvalidBalance"}, {genesis.ErrInvalidStakingBalance, "InvalidStakingBalance"},
		{genesis.ErrInvalidDelegationValue, "InvalidDelegationValue"}, {genesis.ErrSupplyMismatch, "SupplyMismatch"},
		{genesis.ErrDuplicateAddress, "DuplicateAddress"}, {genesis.ErrEntireSupplyMismatch, "EntireSupplyMismatch"},
		{genesis.ErrInvalidPubKey, "InvalidPubKey"}, {genesis.ErrInvalidEntireSupply, "InvalidEntireSupply"},
	} {
		if errors.Is(err, c.e) {
			return c.n
		}
	}
	return "other: " + err.Error()
}

func replay(path, scratch string) {
	bs, err := vtrace.ReadBehaviours(path)
	if err != nil {
		vtrace.Broken(err.Error())
		return
	}
	convs := map[string]core.PubkeyConverter{}
	b32, err := pubkeyConverter.NewBech32PubkeyConverter(32)
	if err != nil {
		panic(err)
	}
	hx, err := pubkeyConverter.NewHexPubkeyConverter(32)
	if err != nil {
		panic(err)
	}
	convs["bech32"], convs["hex"] = b32, hx
	keyGen := signing.NewKeyGenerator(ed25519.NewEd25519())
	file := filepath.Join(scratch, "genesis.json")

	nviol := map[string]int{}
	distinct := vtrace.NewDistinct()
	accepted, drift, notRequired, dupCases, bigCases := 0, 0, 0, 0, 0
	for bi, b := range bs {
		st := b[len(b)-1]
		conv := vtrace.Str(st.In["conv"])
		total := vtrace.Int(st.In["total"])
		var list []jsonEntry
		es, _ := st.In["es"].([]interface{})
		// big numbers: the symbolic amounts are written with the unit U and every mismatch with the magnitude M of the case
		// (see Genesis.tla): balance = b*U ..., supply = (b+k+d)*U + delta*M, total = sum of the written supplies + toff*M
		unitName, magName := vtrace.Str(st.In["unit"]), vtrace.Str(st.In["mag"])
		unitV, magV := bigOf(unitName), bigOf(magName)
		deltas := vtrace.Ints(st.In["deltas"])
		mul := func(a int, x *big.Int) *big.Int { return new(big.Int).Mul(big.NewInt(int64(a)), x) }
		totalC := mul(vtrace.Int(st.In["toff"]), magV)
		for i, x := range es {
			e := x.(map[string]interface{})
			b, k, d := vtrace.Int(e["b"]), vtrace.Int(e["k"]), vtrace.Int(e["d"])
			supply := new(big.Int).Add(mul(b+k+d, unitV), mul(deltas[i], magV))
			totalC.Add(totalC, supply)
			je := jsonEntry{
				Address:      text(conv, vtrace.Str(e["addr"]), vtrace.Str(e["form"])),
				Supply:       supply.String(),
				Balance:      mul(b, unitV).String(),
				StakingValue: mul(k, unitV).String(),
				Delegation:   jsonDeleg{Value: mul(d, unitV).String()},
			}
			switch vtrace.Str(e["da"]) {
			case "ok":
				je.Delegation.Address = text(conv, "deleg", "lower")
			case "bad":
				je.Delegation.Address = "not-an-address"
			}
			list = append(list, je)
		}
		if list == nil {
			list = []jsonEntry{}
		}
		raw, err := json.Marshal(list)
		if err != nil {
			panic(err)
		}
		if err = ioutil.WriteFile(file, raw, 0600); err != nil {
			vtrace.Broken(err.Error())
			return
		}
		plain := unitName == "1" && magName == "1"
		if plain && totalC.Cmp(big.NewInt(int64(total))) != 0 {
			panic(fmt.Sprintf("concretisation: total %s, specification %d", totalC, total))
		}
		ap, perr := parsing.NewAccountsParser(file, totalC, convs[conv], keyGen)
		realAccept := perr == nil
		if realAccept && len(ap.InitialAccounts()) != len(list) {
			perr = fmt.Errorf("accepted, but %d of %d entries are reported", len(ap.InitialAccounts()), len(list))
		}
		got := class(perr)
		required := st.Out["required"].(bool)
		why := vtrace.Str(st.Out["why"])
		if realAccept {
			accepted++
		}
		if !required {
			notRequired++
			distinct.Add(fmt.Sprint(st.In))
		}
		if strings.HasPrefix(why, "duplicate-address/") {
			dupCases++
		}
		if !plain {
			bigCases++
		}
		if realAccept && !required {
			sig := "C47/accepted/" + why
			if magName != "1" {
				sig += "/mismatch-of-magnitude-" + magName
			}
			nviol[sig]++
			if nviol[sig] <= 1 {
				vtrace.Violation(prop, sig, fmt.Sprintf("NewAccountsParser (%s converter, total supply %s) ACCEPTS a genesis file that violates "+
					"C47 (%s): %s", conv, totalC.String(), why, string(raw)), M{"case": st, "file": string(raw)})
			}
		} else if (plain && got != vtrace.Str(st.Out["err"])) || realAccept != st.Out["accept"].(bool) {
			drift++
			if drift == 1 {
				vtrace.Drift(prop, fmt.Sprintf("parser answers %q, the model of the code predicted %q for %s", got, vtrace.Str(st.Out["err"]), string(raw)),
					M{"case": st})
			}
		}
		if bi%4999 == 7 {
			vtrace.Sample(prop, M{"in": st.In, "out": st.Out, "real": got, "file": string(raw)})
		}
	}
	_ = os.Remove(file)
	nv := 0
	for sig, n := range nviol {
		nv += n
		vtrace.Stat("n:"+sig, n)
	}
	vtrace.Stat("cases", len(bs))
	vtrace.Stat("accepted", accepted)
	vtrace.Stat("not_required", notRequired)
	vtrace.Stat("distinct_not_required", distinct.Len())
	vtrace.Stat("duplicate_address_cases", dupCases)
	vtrace.Stat("big_number_cases", bigCases)
	vtrace.Stat("violating_cases", nv)
	vtrace.Stat("drift_cases", drift)
}

// probe: does the present code have the named deviation "dupText" of specs/Genesis (selects the model variant)?
func probe(scratch string) {
	b32, _ := pubkeyConverter.NewBech32PubkeyConverter(32)
	keyGen := signing.NewKeyGenerator(ed25519.NewEd25519())
	file := filepath.Join(scratch, "genesis-probe.json")
	list := []jsonEntry{
		{Address: text("bech32", "u1", "lower"), Supply: "1", Balance: "1", StakingValue: "0", Delegation: jsonDeleg{Value: "0"}},
		{Address: text("bech32", "u1", "upper"), Supply: "1", Balance: "1", StakingValue: "0", Delegation: jsonDeleg{Value: "0"}},
	}
	raw, _ := json.Marshal(list)
	if err := ioutil.WriteFile(file, raw, 0600); err != nil {
		vtrace.Broken(err.Error())
		return
	}
	_, err := parsing.NewAccountsParser(file, big.NewInt(2), b32, keyGen)
	_ = os.Remove(file)
	if err == nil {
		vtrace.Stat("defects", "dupText")
	} else {
		vtrace.Stat("defects", "")
	}
}

func main() {
	vtrace.Quiet()
	if os.Getenv("VERIF_SELFTEST") != "" {
		prop = "selftest-C47"
	}
	if len(os.Args) == 3 && os.Args[1] == "probe" {
		probe(os.Args[2])
		return
	}
	if len(os.Args) < 4 || os.Args[1] != "replay" {
		fmt.Fprintln(os.Stderr, "usage: vh-genesis replay <cases.ndjson> <scratch dir>")
		os.Exit(2)
	}
	replay(os.Args[2], os.Args[3])
}
