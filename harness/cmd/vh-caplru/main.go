// vh-caplru binds specs/CapLRU to storage/lrucache/capacity.capacityLRU and storage/lrucache.lruCache.
//
//	vh-caplru replay <behaviours.ndjson>            TLC behaviours -> real cache, compare result + projected state per step
//	vh-caplru record <seed> <traces> <len> <out>    random histories on the real cache -> ndjson trace for Trace_CapLRU
package main

import (
	"fmt"
	"math/rand"
	"os"
	"strconv"

	"github.com/ElrondNetwork/elrond-go/storage"
	"github.com/ElrondNetwork/elrond-go/storage/lrucache"
	"github.com/ElrondNetwork/elrond-go/storage/lrucache/capacity"
	"verif/harness/internal/vtrace"
)

type M = vtrace.M

// sut is the projection interface shared by the two real objects
type sut interface {
	put(k string, v int, s int) bool
	putIfMissing(k string, v int, s int) (bool, bool, bool) // has, evicted, evictedKnown
	get(k string) (int, bool)
	peek(k string) (int, bool)
	remove(k string) (bool, bool) // ok, okKnown
	purge()
	keys() []string
	bytes() int
}

type capSut struct{ c storage.SizedLRUCacheHandler }

func (c capSut) put(k string, v, s int) bool { return c.c.AddSized(k, v, int64(s)) }
func (c capSut) putIfMissing(k string, v, s int) (bool, bool, bool) {
	h, e := c.c.AddSizedIfMissing(k, v, int64(s))
	return h, e, true
}
func (c capSut) get(k string) (int, bool) {
	v, ok := c.c.Get(k)
	if !ok {
		return 0, false
	}
	return v.(int), true
}
func (c capSut) peek(k string) (int, bool) {
	v, ok := c.c.Peek(k)
	if !ok {
		return 0, false
	}
	return v.(int), true
}
func (c capSut) remove(k string) (bool, bool) { return c.c.Remove(k), true }
func (c capSut) purge()                       { c.c.Purge() }
func (c capSut) keys() []string {
	ks := c.c.Keys()
	r := make([]string, len(ks))
	for i := range ks {
		r[i] = ks[i].(string)
	}
	return r
}
func (c capSut) bytes() int { return int(c.c.SizeInBytesContained()) }

type wrapSut struct{ c storage.Cacher }

func (c wrapSut) put(k string, v, s int) bool { return c.c.Put([]byte(k), v, s) }
func (c wrapSut) putIfMissing(k string, v, s int) (bool, bool, bool) {
	h, _ := c.c.HasOrAdd([]byte(k), v, s)
	return h, false, false
}
func (c wrapSut) get(k string) (int, bool) {
	v, ok := c.c.Get([]byte(k))
	if !ok {
		return 0, false
	}
	return v.(int), true
}
func (c wrapSut) peek(k string) (int, bool) {
	v, ok := c.c.Peek([]byte(k))
	if !ok {
		return 0, false
	}
	return v.(int), true
}
func (c wrapSut) remove(k string) (bool, bool) { c.c.Remove([]byte(k)); return false, false }
func (c wrapSut) purge()                       { c.c.Clear() }
func (c wrapSut) keys() []string {
	ks := c.c.Keys()
	r := make([]string, len(ks))
	for i := range ks {
		r[i] = string(ks[i])
	}
	return r
}
func (c wrapSut) bytes() int { return int(c.c.SizeInBytesContained()) }

func newSut(kind string, items, bytes int) sut {
	if kind == "capacity" {
		c, err := capacity.NewCapacityLRU(items, int64(bytes))
		if err != nil {
			panic(err)
		}
		return capSut{c}
	}
	c, err := lrucache.NewCacheWithSizeInBytes(items, int64(bytes))
	if err != nil {
		panic(err)
	}
	return wrapSut{c}
}

// apply executes one step on the real object and returns its observable result
func apply(c sut, a string, in M) M {
	k := vtrace.Str(in["k"])
	switch a {
	case "Put":
		return M{"evicted": c.put(k, vtrace.Int(in["v"]), vtrace.Int(in["s"]))}
	case "PutIfMissing":
		h, e, known := c.putIfMissing(k, vtrace.Int(in["v"]), vtrace.Int(in["s"]))
		if known {
			return M{"has": h, "evicted": e}
		}
		return M{"has": h}
	case "Get":
		v, ok := c.get(k)
		return M{"ok": ok, "v": v}
	case "Peek":
		v, ok := c.peek(k)
		return M{"ok": ok, "v": v}
	case "Remove":
		ok, known := c.remove(k)
		if known {
			return M{"ok": ok}
		}
		return M{}
	case "Purge":
		c.purge()
		return M{"x": 0}
	}
	panic("unknown action " + a)
}

func proj(c sut) M { return M{"keys": c.keys(), "bytes": c.bytes()} }

func eqOut(pred, got M) bool {
	for k, g := range got { // only the fields the object exposes
		p, ok := pred[k]
		if !ok {
			return false
		}
		if fmt.Sprint(normalize(p)) != fmt.Sprint(normalize(g)) {
			return false
		}
	}
	return true
}

func normalize(v interface{}) interface{} {
	switch x := v.(type) {
	case float64:
		return int(x)
	}
	return v
}

func eqState(pred M, c sut) bool {
	pk := vtrace.Strs(pred["keys"])
	gk := c.keys()
	if len(pk) != len(gk) {
		return false
	}
	for i := range pk {
		if pk[i] != gk[i] {
			return false
		}
	}
	return vtrace.Int(pred["bytes"]) == c.bytes()
}

func replay(path string) {
	bs, err := vtrace.ReadBehaviours(path)
	if err != nil {
		vtrace.Broken(err.Error())
		return
	}
	distinct := vtrace.NewDistinct()
	steps := 0
	nviol := 0
	for bi, b := range bs {
		for _, kind := range []string{"capacity", "wrapper"} {
			var c sut
			for si, st := range b {
				if st.A == "New" {
					c = newSut(kind, vtrace.Int(st.In["items"]), vtrace.Int(st.In["bytes"]))
					continue
				}
				got := apply(c, st.A, st.In)
				steps++
				if !eqOut(st.Out, got) || !eqState(st.St, c) {
					nviol++
					if nviol <= 5 {
						vtrace.Violation("C28", "C28/"+kind+"/"+st.A+"/differs-from-reference-LRU",
							fmt.Sprintf("%s cache: step %d (%s) of behaviour %d: real result %v state %v, reference result %v state %v",
								kind, si, st.A, bi, got, proj(c), st.Out, st.St),
							M{"behaviour": b, "step": si, "kind": kind})
					}
					break
				}
			}
		}
		if len(b) > 1 {
			last := b[len(b)-1]
			distinct.Add(fmt.Sprint(b[len(b)-2].St, last.A, last.In, b[0].In))
		}
		if bi < 3 {
			vtrace.Sample("C28", b)
		}
	}
	vtrace.Stat("behaviours", len(bs))
	vtrace.Stat("steps", steps)
	vtrace.Stat("distinct_transitions", distinct.Len())
	vtrace.Stat("violations", nviol)
}

func record(seed int64, traces, n int, out string) {
	w, err := vtrace.NewWriter(out)
	if err != nil {
		vtrace.Broken(err.Error())
		return
	}
	rng := rand.New(rand.NewSource(seed))
	keys := []string{"a", "b", "c", "d", "e", "f", "g", "h"}
	for t := 0; t < traces; t++ {
		items := 1 + rng.Intn(6)
		bytes := 1 + rng.Intn(20)
		kind := "capacity"
		if t%2 == 1 {
			kind = "wrapper"
		}
		nk := 2 + rng.Intn(len(keys)-1)
		c := newSut(kind, items, bytes)
		w.NewTraceWith("New", M{"items": items, "bytes": bytes}, M{"x": 0}, proj(c))
		for i := 0; i < n; i++ {
			k := keys[rng.Intn(nk)]
			var a string
			in := M{"k": k}
			switch r := rng.Intn(100); {
			case r < 35:
				a = "Put"
			case r < 50:
				a = "PutIfMissing"
			case r < 70:
				a = "Get"
			case r < 80:
				a = "Peek"
			case r < 97:
				a = "Remove"
			default:
				a = "Purge"
				in = M{"x": 0}
			}
			if a == "Put" || a == "PutIfMissing" {
				in["v"] = 1 + rng.Intn(3)
				s := rng.Intn(9)
				if rng.Intn(20) == 0 {
					s = -1
				}
				if rng.Intn(15) == 0 {
					s = bytes + rng.Intn(3)
				}
				in["s"] = s
			}
			got := apply(c, a, in)
			// fields the wrapper does not expose are logged as the spec predicts them only when known;
			// Trace_CapLRU compares logged fields only.
			w.Emit(a, in, got, proj(c))
		}
	}
	if err := w.Close(); err != nil {
		vtrace.Broken(err.Error())
	}
	vtrace.Stat("events", w.N)
	vtrace.Stat("traces", traces)
}

func main() {
	vtrace.Quiet()
	if len(os.Args) < 2 {
		fmt.Fprintln(os.Stderr, "usage: vh-caplru replay <file> | record <seed> <traces> <len> <out>")
		os.Exit(2)
	}
	switch os.Args[1] {
	case "replay":
		replay(os.Args[2])
	case "record":
		seed, _ := strconv.ParseInt(os.Args[2], 10, 64)
		traces, _ := strconv.Atoi(os.Args[3])
		n, _ := strconv.Atoi(os.Args[4])
		record(seed, traces, n, os.Args[5])
	default:
		os.Exit(2)
	}
}
