package main

// One real synchronisation run: a real syncer (doubleListTrieSyncer or trieSyncer) with
//   - the real intercepted-nodes cache (storage/lrucache) behind a logging decorator,
//   - an in-memory destination DB behind a logging decorator,
//   - a RequestHandler stub,
// Every call of the syncer into one of the three is a scheduling point at which the adversary actions of the
// schedule are performed; deliveries go through the REAL network path: trie.NewInterceptedTrieNode +
// CheckValidity (what MultiDataInterceptor.interceptedData does) + TrieNodeInterceptorProcessor.Save.

import (
	"context"
	"errors"
	"fmt"
	"math/rand"
	"sort"
	"sync"
	"time"

	"github.com/ElrondNetwork/elrond-go/core"
	"github.com/ElrondNetwork/elrond-go/data"
	"github.com/ElrondNetwork/elrond-go/data/trie"
	"github.com/ElrondNetwork/elrond-go/data/trie/statistics"
	"github.com/ElrondNetwork/elrond-go/process/interceptors/processor"
	"github.com/ElrondNetwork/elrond-go/storage"
	"github.com/ElrondNetwork/elrond-go/storage/lrucache"
	"github.com/ElrondNetwork/elrond-go/storage/memorydb"
	"verif/harness/internal/vtrace"
)

type M = vtrace.M

// event is one observed step (becomes one trace line)
type event struct {
	A   string
	In  M
	Out M
}

// act is one adversary action of a schedule, performed before the syncer's interaction number At (0-based)
type act struct {
	At   int
	Kind string // "deliver", "evict", "cancel"
	X    int    // node id; 0 = bytes that are not a valid node
}

type syncerIface interface {
	StartSyncing(rootHash []byte, ctx context.Context) error
	VerifSetWaitTime(wait time.Duration)
	VerifFrontier() (missing [][]byte, existing [][]byte)
}

type run struct {
	sh      *shape
	algo    string
	cap     int
	db0     []int
	sched   []act
	tail    string // "honest": every request is answered in full; "silent": nothing more is delivered
	realTO  bool   // let the real watchdog (ErrTimeIsOut) end a silent run instead of cancelling the context
	rng     *rand.Rand
	netMode bool // deliveries go resolver -> MultiDataInterceptor (end to end)

	wait   time.Duration     // pause between two sync iterations
	dbInit map[string][]byte // resumption: the destination DB as an earlier run left it (db0 = its key ids)
	poison [][2]int          // self-test only: content of node [1] stored in the cache under the hash of node [0]

	cache    storage.Cacher // the real cache
	rec      *putRecorder   // the cache as the interceptor processor sees it
	proc     *processor.TrieNodeInterceptorProcessor
	dbm      map[string][]byte
	syncer   syncerIface
	cancel   context.CancelFunc
	mu       *sync.Mutex // one lock per environment (shared by the two syncers of a duo)
	peer     *run        // duo: the other syncer working on the same cache and DB
	events   []event
	pos      int // syncer interactions so far
	si       int // next schedule entry
	idle     int // requests since the schedule ran dry (silent tail)
	rounds   int // requests answered in the honest tail
	pendGet  []byte
	extra    map[string]int // hashes that are not nodes of the shape -> ids above N
	invSeq   int
	nDeliv   int
	res      string
	err      error
	hung     bool
	done     bool
	deferred []event
	v        *verdict
	net      *netPath
}

// ---------------------------------------------------------------- ids

func (r *run) id(hash []byte) int {
	if id, ok := r.sh.idOf[string(hash)]; ok {
		return id
	}
	if r.extra == nil {
		r.extra = map[string]int{}
	}
	if id, ok := r.extra[string(hash)]; ok {
		return id
	}
	r.extra[string(hash)] = len(r.sh.nodes) + 1 + len(r.extra)
	return r.extra[string(hash)]
}

func (r *run) ids(hs [][]byte) []int {
	res := make([]int, 0, len(hs))
	for _, h := range hs {
		res = append(res, r.id(h))
	}
	sort.Ints(res)
	return res
}

// content id of stored bytes: the node whose hash is the hash of these bytes, 0 if none
func (r *run) contentID(val []byte) int {
	if id, ok := r.sh.idOf[string(hasher.Compute(string(val)))]; ok {
		return id
	}
	return 0
}

func (r *run) log(a string, in, out M) {
	r.events = append(r.events, event{a, in, out})
	if r.peer == nil || r.peer.done {
		return
	}
	// what this syncer does to the shared cache and DB is, for the other one, an action of its environment
	p := r.peer
	var e *event
	switch {
	case a == "Deliver" || a == "Evict":
		e = &event{a, in, out}
	case a == "Get" && out["src"] == "cache":
		e = &event{"Evict", M{"h": in["h"]}, M{"x": 0}}
	case a == "Put":
		// a DB write: visible to the second half (DB part) of a lookup the peer has under way
		p.events = append(p.events, event{"Store", M{"k": in["k"]}, M{"c": out["c"]}})
		return
	}
	if e == nil {
		return
	}
	if p.pendGet != nil {
		// the peer is between the cache part and the DB part of one getNodeFromStorage: the cache part came first
		p.deferred = append(p.deferred, *e)
		return
	}
	p.events = append(p.events, *e)
}

// gotLogged is called right after the Get event of a two-part lookup was logged
func (r *run) gotLogged() {
	r.events = append(r.events, r.deferred...)
	r.deferred = nil
}

// ---------------------------------------------------------------- the adversary / the network

// invalidBytes returns byte strings that are not valid nodes: undecodable, unknown type, nodes that fail CheckValidity
func (r *run) invalidBytes() []byte {
	r.invSeq++
	some := r.sh.nodes[r.invSeq%len(r.sh.nodes)].bytes
	switch r.invSeq % 7 {
	case 0:
		return []byte{}
	case 1:
		return []byte{0xff, 0xfe, 0xfd, 9}
	case 2: // valid prefix, unknown node type
		return append(append([]byte(nil), some[:len(some)-1]...), 7)
	case 3: // truncated
		return append([]byte(nil), some[:len(some)/2]...)
	case 4: // a branch with a single child: decodes, CheckValidity fails
		n := &trie.CollapsedBn{EncodedChildren: make([][]byte, 17)}
		n.EncodedChildren[3] = r.sh.nodes[0].hash
		b, _ := marsh.Marshal(n)
		return append(b, tBranch)
	case 5: // a leaf without value
		n := &trie.CollapsedLn{Key: []byte{1, 16}}
		b, _ := marsh.Marshal(n)
		return append(b, tLeaf)
	default: // an extension without key
		n := &trie.CollapsedEn{EncodedChild: r.sh.nodes[0].hash}
		b, _ := marsh.Marshal(n)
		return append(b, tExtension)
	}
}

// altEncoding returns other bytes with the same content: the protobuf body is followed by a field the node
// messages do not have (number 15, varint), which decoders skip. The node these bytes decode to is the same node,
// so -- "a node is only ever used for the hash of its own content" -- it belongs under the same hash.
func altEncoding(ser []byte) []byte {
	b := append([]byte(nil), ser[:len(ser)-1]...)
	b = append(b, 0x78, 0x01)
	return append(b, ser[len(ser)-1])
}

// intercept pushes bytes through the real interceptor path; the key is the one the processor really stored under
func (r *run) intercept(buff []byte) (bool, []byte) {
	r.rec.take()
	n, err := trie.NewInterceptedTrieNode(buff, marsh, hasher)
	if err != nil {
		return false, nil
	}
	if err = n.CheckValidity(); err != nil {
		return false, nil
	}
	if err = r.proc.Save(n, core.PeerID("peer"), "topic"); err != nil {
		return false, nil
	}
	keys := r.rec.take()
	if len(keys) != 1 {
		return false, nil
	}
	return true, keys[0]
}

func (r *run) deliver(x int) {
	var buff []byte
	if x >= 1 && x <= len(r.sh.nodes) {
		buff = r.sh.nodes[x-1].bytes
		r.nDeliv++
		if r.nDeliv%5 == 0 {
			buff = altEncoding(buff)
		}
	} else {
		x = 0
		buff = r.invalidBytes()
	}
	if r.netMode {
		r.net.deliverOne(x, append([]byte(nil), buff...))
		return
	}
	acc, key := r.intercept(append([]byte(nil), buff...))
	kid := 0
	if acc {
		kid = r.id(key)
	}
	r.log("Deliver", M{"x": x}, M{"acc": acc, "key": kid})
}

func (r *run) evict(x int) {
	if x >= 1 && x <= len(r.sh.nodes) && r.cache.Has(r.sh.nodes[x-1].hash) {
		r.cache.Remove(r.sh.nodes[x-1].hash)
		r.log("Evict", M{"h": x}, M{"x": 0})
	}
}

// point is called at the beginning of every interaction of the syncer with its environment
func (r *run) point() {
	r.flushGet()
	for r.si < len(r.sched) && r.sched[r.si].At <= r.pos {
		a := r.sched[r.si]
		r.si++
		switch a.Kind {
		case "deliver":
			r.deliver(a.X)
		case "evict":
			r.evict(a.X)
		case "cancel":
			r.cancel()
		}
	}
	r.pos++
	if r.pos > 60000 {
		// a run that neither completes nor asks for anything any more (possible after a change of the code):
		// end it instead of spinning until the watchdog
		r.hung = true
		r.cancel()
	}
}

func (r *run) flushGet() {
	if r.pendGet != nil {
		r.log("Get", M{"h": r.id(r.pendGet)}, M{"src": "miss"})
		r.pendGet = nil
		r.gotLogged()
	}
}

// ---------------------------------------------------------------- decorators

type logCache struct {
	storage.Cacher
	r *run
}

func (c *logCache) Get(key []byte) (interface{}, bool) {
	c.r.mu.Lock()
	defer c.r.mu.Unlock()
	c.r.point()
	v, ok := c.Cacher.Get(key)
	if ok {
		c.r.log("Get", M{"h": c.r.id(key)}, M{"src": "cache"})
	} else {
		c.r.pendGet = append([]byte(nil), key...)
	}
	return v, ok
}

type logDB struct{ r *run }

func (d *logDB) Get(key []byte) ([]byte, error) {
	d.r.mu.Lock()
	defer d.r.mu.Unlock()
	if d.r.pendGet != nil && string(d.r.pendGet) == string(key) {
		d.r.pendGet = nil // second half of getNodeFromStorage
	} else {
		d.r.point()
	}
	defer d.r.gotLogged()
	v, ok := d.r.dbm[string(key)]
	if !ok {
		d.r.log("Get", M{"h": d.r.id(key)}, M{"src": "miss"})
		return nil, errors.New("key not found")
	}
	d.r.log("Get", M{"h": d.r.id(key)}, M{"src": "db"})
	return append([]byte(nil), v...), nil
}

func (d *logDB) Put(key, val []byte) error {
	d.r.mu.Lock()
	defer d.r.mu.Unlock()
	d.r.point()
	d.r.dbm[string(key)] = append([]byte(nil), val...)
	d.r.log("Put", M{"k": d.r.id(key)}, M{"c": d.r.contentID(val)})
	return nil
}

func (d *logDB) Remove(key []byte) error {
	d.r.mu.Lock()
	defer d.r.mu.Unlock()
	d.r.flushGet()
	delete(d.r.dbm, string(key))
	d.r.log("DbRemove", M{"k": d.r.id(key)}, M{"x": 0})
	return nil
}
func (d *logDB) Close() error         { return nil }
func (d *logDB) IsInterfaceNil() bool { return d == nil }

type reqHandler struct{ r *run }

func (h *reqHandler) RequestInterval() time.Duration { return time.Second }
func (h *reqHandler) IsInterfaceNil() bool           { return h == nil }
func (h *reqHandler) RequestTrieNodes(_ uint32, hashes [][]byte, _ string) {
	r := h.r
	r.mu.Lock()
	defer r.mu.Unlock()
	r.point()
	miss, exist := r.syncer.VerifFrontier()
	r.log("Request", M{"hs": r.ids(hashes)}, M{"missing": r.ids(miss), "existing": r.ids(exist)})
	if r.si < len(r.sched) {
		return
	}
	// the schedule is exhausted: the tail policy decides
	switch r.tail {
	case "honest":
		r.rounds++
		if r.rounds > 400 {
			r.cancel()
			return
		}
		if r.netMode {
			r.net.answer(hashes)
			return
		}
		for _, hash := range hashes {
			if id, ok := r.sh.idOf[string(hash)]; ok && r.sh.target[id] {
				r.deliver(id)
			}
		}
	default:
		r.idle++
		if r.idle >= 3 && !r.realTO {
			r.cancel()
		}
	}
}

// ---------------------------------------------------------------- running

// prepare creates the environment of a run (cache, interceptor processor, DB) unless it was handed one (duo)
func (r *run) prepare() {
	var err error
	if r.mu == nil {
		r.mu = &sync.Mutex{}
	}
	if r.cache == nil {
		r.cache, err = lrucache.NewCache(10000)
		if err != nil {
			panic(err)
		}
		r.rec = &putRecorder{Cacher: r.cache}
		r.proc, err = processor.NewTrieNodesInterceptorProcessor(r.rec)
		if err != nil {
			panic(err)
		}
	}
	if r.dbm != nil {
		return
	}
	r.dbm = map[string][]byte{}
	if r.dbInit != nil {
		for k, v := range r.dbInit {
			r.dbm[k] = append([]byte(nil), v...)
		}
	} else {
		for _, id := range r.db0 {
			n := r.sh.nodes[id-1]
			r.dbm[string(n.hash)] = append([]byte(nil), n.bytes...)
		}
	}
}

func (r *run) start() {
	r.prepare()
	c := r.cache
	arg := trie.ArgTrieSyncer{
		Marshalizer:                    marsh,
		Hasher:                         hasher,
		DB:                             &logDB{r},
		RequestHandler:                 &reqHandler{r},
		InterceptedNodes:               &logCache{c, r},
		ShardId:                        0,
		Topic:                          "trieNodes",
		TrieSyncStatistics:             statistics.NewTrieSyncStatistics(),
		TimeoutBetweenTrieNodesCommits: time.Second,
		MaxHardCapForMissingNodes:      r.cap,
	}
	if r.algo == "double" {
		s, e := trie.NewDoubleListTrieSyncer(arg)
		if e != nil {
			panic(e)
		}
		r.syncer = s
	} else {
		s, e := trie.NewTrieSyncer(arg)
		if e != nil {
			panic(e)
		}
		r.syncer = s
	}
	r.syncer.VerifSetWaitTime(r.wait)
	for _, p := range r.poison {
		n, e := trie.NewInterceptedTrieNode(append([]byte(nil), r.sh.nodes[p[1]-1].bytes...), marsh, hasher)
		if e != nil {
			panic(e)
		}
		c.Put(r.sh.nodes[p[0]-1].hash, n, 100)
	}
	if r.netMode {
		r.net = newNetPath(r)
	}
	var ctx context.Context
	ctx, r.cancel = context.WithCancel(context.Background())
	defer r.cancel()
	sort.SliceStable(r.sched, func(i, j int) bool { return r.sched[i].At < r.sched[j].At })
	// actions scheduled before the first interaction that must precede StartSyncing's first step are taken
	// at the first point(); a watchdog ends runs that spin without ever reaching a scheduling point
	done := make(chan struct{})
	go func() {
		select {
		case <-done:
		case <-time.After(20*time.Second + 1000*r.wait):
			r.mu.Lock()
			r.hung = true
			r.mu.Unlock()
			r.cancel()
		}
	}()
	r.err = r.syncer.StartSyncing(r.sh.rootHash, ctx)
	close(done)
	r.mu.Lock()
	defer r.mu.Unlock()
	r.flushGet()
	switch {
	case r.err == nil:
		r.res = "ok"
	case errors.Is(r.err, trie.ErrContextClosing):
		r.res = "cancelled"
	case errors.Is(r.err, trie.ErrTimeIsOut):
		r.res = "timeout"
	default:
		r.res = "error"
	}
	r.v = r.finishLocked()
	r.done = true
}

// finish returns the verdict of the oracle (evaluated, and the Return event logged, when StartSyncing returned)
func (r *run) finish() *verdict { return r.v }

// dbKeys returns the sorted ids of the DB keys
func (r *run) dbKeys() []int {
	var hs [][]byte
	for k := range r.dbm {
		hs = append(hs, []byte(k))
	}
	return r.ids(hs)
}

// ---------------------------------------------------------------- oracle (literally the property)

type verdict struct {
	sig, what string
}

// checkOwnHash: no DB entry has a key different from the hash of its value
func (r *run) checkOwnHash() *verdict {
	for k, v := range r.dbm {
		if string(hasher.Compute(string(v))) != k {
			return &verdict{"C05/" + r.algo + "/db-entry-key-is-not-hash-of-value",
				fmt.Sprintf("destination DB holds under key %x (node %d) a value whose hash is %x", k, r.id([]byte(k)), hasher.Compute(string(v)))}
		}
	}
	return nil
}

// recreate opens a fresh trie on a copy of the destination DB alone and compares it with the source contents
func (r *run) recreate() (bool, string) {
	db := memorydb.New()
	for k, v := range r.dbm {
		_ = db.Put([]byte(k), v)
	}
	// every node reachable from the root, found by decoding what the DB holds
	var walk func(h []byte) error
	seen := map[string]bool{}
	walk = func(h []byte) error {
		if seen[string(h)] {
			return nil
		}
		seen[string(h)] = true
		v, ok := r.dbm[string(h)]
		if !ok {
			return fmt.Errorf("node %x (id %d), reachable from the root, is not in the destination DB", h, r.id(h))
		}
		kids, err := childHashes(v)
		if err != nil {
			return fmt.Errorf("node %x does not decode: %v", h, err)
		}
		for _, k := range kids {
			if err = walk(k); err != nil {
				return err
			}
		}
		return nil
	}
	if err := walk(r.sh.rootHash); err != nil {
		return false, err.Error()
	}
	tsm, err := trie.NewTrieStorageManagerWithoutPruning(db)
	if err != nil {
		return false, err.Error()
	}
	tr0, err := trie.NewTrie(tsm, marsh, hasher, 5)
	if err != nil {
		return false, err.Error()
	}
	tr, err := tr0.Recreate(r.sh.rootHash)
	if err != nil {
		return false, "Recreate: " + err.Error()
	}
	rh, err := tr.RootHash()
	if err != nil || string(rh) != string(r.sh.rootHash) {
		return false, fmt.Sprintf("root hash of the recreated trie is %x, want %x (%v)", rh, r.sh.rootHash, err)
	}
	ch, err := tr.GetAllLeavesOnChannel(r.sh.rootHash)
	if err != nil {
		return false, "GetAllLeavesOnChannel: " + err.Error()
	}
	got := map[string]string{}
	for kv := range ch {
		got[string(kv.Key())] = string(kv.Value())
	}
	if len(got) != len(r.sh.leaves) {
		return false, fmt.Sprintf("recreated trie has %d leaves, source has %d", len(got), len(r.sh.leaves))
	}
	for k, v := range r.sh.leaves {
		if got[k] != v {
			return false, fmt.Sprintf("key %x: recreated trie has %q, source has %q", k, got[k], v)
		}
	}
	for k := range r.sh.leaves {
		v, err := tr.Get([]byte(k))
		if err != nil || string(v) != r.sh.leaves[k] {
			return false, fmt.Sprintf("Get(%x) on the recreated trie: %q, %v", k, v, err)
		}
	}
	return true, ""
}

// finishLocked evaluates the oracle, logs the Return event and returns a violation if the property is false
func (r *run) finishLocked() *verdict {
	var v *verdict
	rec := "na"
	if r.res == "ok" {
		ok, why := r.recreate()
		if ok {
			rec = "ok"
		} else {
			rec = "bad"
			v = &verdict{"C05/" + r.algo + "/returned-nil-but-trie-not-recoverable",
				fmt.Sprintf("%s syncer: StartSyncing returned nil but %s", r.algo, why)}
		}
	}
	if o := r.checkOwnHash(); o != nil && v == nil {
		v = o
	}
	r.log("Return", M{"x": 0}, M{"res": r.res, "rec": rec, "dbkeys": r.dbKeys()})
	return v
}

func (r *run) newEvent() event {
	faults := []string{"cancel", "timeout", "evict", "lose", "shared"}
	root := 1
	if r.sh.viewRoot != 0 {
		root = r.sh.viewRoot
	}
	return event{"New", M{"shape": M{"name": r.sh.spec.Name, "ch": r.sh.ch(), "root": root}, "cap": r.cap, "algo": r.algo,
		"faults": faults, "db0": append([]int{}, r.db0...)}, M{"x": 0}}
}

var _ data.DBWriteCacher = (*logDB)(nil)
