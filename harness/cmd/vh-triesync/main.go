// vh-triesync binds specs/TrieSync to the real trie syncers (data/trie/doubleListSync.go, data/trie/sync.go),
// the real intercepted trie node (data/trie/interceptedNode.go), the real interceptor processor and -- in net
// mode -- the real TrieNodeResolver and MultiDataInterceptor.
//
//	vh-triesync genshapes                              prints specs/TrieSync/TrieSyncShapes.tla
//	vh-triesync replay <behaviours.ndjson> <trace-out> <max-traces>
//	      TLC behaviours -> adversarial delivery schedules -> both real syncers, each with an honest and a silent
//	      tail; oracle = the property; a sample of the real runs is written as a trace for Trace_TrieSync
//	vh-triesync record <seed> <runs> <trace-out> <max-traces> [net]
//	      seeded random tries / random adversaries at larger sizes; same oracle; traces for Trace_TrieSync
package main

import (
	"encoding/json"
	"fmt"
	"math/rand"
	"os"
	"sort"
	"strconv"
	"strings"
	"time"

	"verif/harness/internal/vtrace"
)

type behaviour struct {
	H []struct {
		A   string                 `json:"a"`
		In  map[string]interface{} `json:"in"`
		Out map[string]interface{} `json:"out"`
	} `json:"h"`
	Avail  []int  `json:"avail"`
	Target []int  `json:"target"`
	Result string `json:"result"`
}

type newIn struct {
	Shape  shapeSpec `json:"shape"`
	Cap    int       `json:"cap"`
	Algo   string    `json:"algo"`
	Faults []string  `json:"faults"`
	Db0    []int     `json:"db0"`
}

type stats struct {
	runs, ok, cancelled, timeout, other, hung, noCompletion, events, viol, traces int
	distinct                                                                      *vtrace.Distinct
	hardcap, resumed, duo                                                         int
}

func (st *stats) count(r *run) {
	st.runs++
	switch r.res {
	case "ok":
		st.ok++
	case "cancelled":
		st.cancelled++
	case "timeout":
		st.timeout++
	default:
		st.other++
	}
	if r.hung {
		st.hung++
	}
	st.events += len(r.events)
}

func (st *stats) emit() {
	vtrace.Stat("runs", st.runs)
	vtrace.Stat("ok", st.ok)
	vtrace.Stat("cancelled", st.cancelled)
	vtrace.Stat("timeout", st.timeout)
	vtrace.Stat("other", st.other)
	vtrace.Stat("hung", st.hung)
	vtrace.Stat("no_completion", st.noCompletion)
	vtrace.Stat("events", st.events)
	vtrace.Stat("violations", st.viol)
	vtrace.Stat("traces", st.traces)
	vtrace.Stat("distinct", st.distinct.Len())
	vtrace.Stat("resumed", st.resumed)
	vtrace.Stat("duo", st.duo)
}

func writeTrace(w *vtrace.Writer, r *run) {
	ne := r.newEvent()
	w.NewTraceWith(ne.A, ne.In, ne.Out, M{})
	for _, e := range r.events {
		w.Emit(e.A, e.In, e.Out, M{})
	}
}

func summarize(r *run) M {
	var sched []M
	for _, a := range r.sched {
		sched = append(sched, M{"at": a.At, "kind": a.Kind, "x": a.X})
	}
	return M{"shape": r.sh.spec.Name, "algo": r.algo, "cap": r.cap, "db0": r.db0, "tail": r.tail, "schedule": sched,
		"result": r.res, "events": len(r.events)}
}

// oneLine is the compact form of a run used as evidence sample
func oneLine(r *run) string {
	s := ""
	for i, a := range r.sched {
		if i >= 14 {
			s += fmt.Sprintf(" ...(+%d)", len(r.sched)-i)
			break
		}
		s += fmt.Sprintf(" %s%d@%d", a.Kind[:1], a.X, a.At)
	}
	return fmt.Sprintf("shape=%s (%d nodes, %d in the target trie) syncer=%s hardcap=%d initialDB=%v adversary=[%s ] tail=%s -> %s after %d events, DB keys %v",
		r.sh.spec.Name, len(r.sh.nodes), r.sh.nTarget, r.algo, r.cap, r.db0, s, r.tail, r.res, len(r.events), r.dbKeys())
}

func report(st *stats, r *run, v *verdict) {
	st.viol++
	if st.viol <= 4 {
		var evs []M
		for _, e := range r.events {
			evs = append(evs, M{"a": e.A, "in": e.In, "out": e.Out})
		}
		d := summarize(r)
		d["kv"] = r.sh.spec.Kv
		d["trace"] = evs
		vtrace.Violation("C05", v.sig, v.what+fmt.Sprintf(" [shape %s, hard cap %d, initial DB %v, tail %s, %d scheduled adversary actions]",
			r.sh.spec.Name, r.cap, r.db0, r.tail, len(r.sched)), d)
	}
}

func subset(a []int, b map[int]bool) bool {
	for _, x := range a {
		if !b[x] {
			return false
		}
	}
	return true
}

func replay(path, traceOut string, maxTraces int) {
	lines, err := vtrace.ReadLines(path)
	if err != nil {
		vtrace.Broken(err.Error())
		return
	}
	w, err := vtrace.NewWriter(traceOut)
	if err != nil {
		vtrace.Broken(err.Error())
		return
	}
	seed, _ := strconv.ParseInt(os.Getenv("VERIF_SEED"), 10, 64)
	rng := rand.New(rand.NewSource(seed))
	st := &stats{distinct: vtrace.NewDistinct()}
	shapes := map[string]*shape{}
	every := 1
	if maxTraces > 0 && len(lines)*4 > maxTraces {
		every = len(lines) * 4 / maxTraces
	}
	samples := 0
	for bi, line := range lines {
		var b behaviour
		if err = json.Unmarshal(line, &b); err != nil || len(b.H) == 0 || b.H[0].A != "New" {
			vtrace.Broken(fmt.Sprintf("behaviour %d does not parse: %v", bi, err))
			return
		}
		var ni newIn
		raw, _ := json.Marshal(b.H[0].In)
		if err = json.Unmarshal(raw, &ni); err != nil {
			vtrace.Broken(fmt.Sprintf("behaviour %d: New record: %v", bi, err))
			return
		}
		sh := shapes[ni.Shape.Name]
		if sh == nil {
			sh, err = buildShape(ni.Shape)
			if err != nil {
				vtrace.Broken("the real tries do not have the layout the specification assumes: " + err.Error())
				return
			}
			shapes[ni.Shape.Name] = sh
		}
		// the adversary's part of the behaviour, positioned by the number of syncer interactions before it
		var sched []act
		c := 0
		for _, e := range b.H[1:] {
			switch e.A {
			case "Get", "Put", "Request":
				c++
			case "Deliver":
				sched = append(sched, act{c, "deliver", vtrace.Int(e.In["x"])})
			case "Evict":
				sched = append(sched, act{c, "evict", vtrace.Int(e.In["h"])})
			case "Return":
				if vtrace.Str(e.Out["res"]) == "cancelled" {
					sched = append(sched, act{c, "cancel", 0})
				}
			}
		}
		avail := map[int]bool{}
		for _, x := range b.Avail {
			avail[x] = true
		}
		canComplete := subset(b.Target, avail) // the specification's Inv_C05_Avail: completion needs every target node
		key := fmt.Sprint(ni.Shape.Name, ni.Cap, ni.Db0, sched)
		if len(sched) > 0 {
			st.distinct.Add(key)
		}
		for _, algo := range []string{"double", "single"} {
			for _, tail := range []string{"honest", "silent"} {
				r := &run{sh: sh, algo: algo, cap: ni.Cap, db0: ni.Db0, sched: append([]act(nil), sched...), tail: tail, rng: rng}
				r.start()
				v := r.finish()
				st.count(r)
				if v == nil && tail == "silent" && !canComplete && r.res == "ok" {
					v = &verdict{"C05/" + algo + "/returned-nil-though-a-node-was-never-available",
						fmt.Sprintf("%s syncer: StartSyncing returned nil although target nodes outside %v were never delivered nor stored", algo, b.Avail)}
				}
				if v != nil {
					report(st, r, v)
				}
				if tail == "honest" && r.res != "ok" && !hasCancel(sched) {
					st.noCompletion++
					if st.noCompletion <= 2 {
						vtrace.Drift("C05", fmt.Sprintf("%s syncer did not complete under honest delivery (%s): %v", algo, r.res, summarize(r)), nil)
					}
				}
				if (bi*4+st.runs)%every == 0 && (maxTraces <= 0 || st.traces < maxTraces) {
					writeTrace(w, r)
					st.traces++
				}
				if samples < 3 && len(sched) >= 2 && algo == ni.Algo && tail == "honest" && bi%7 == 0 {
					samples++
					vtrace.Sample("C05", oneLine(r))
				}
			}
		}
	}
	if err = w.Close(); err != nil {
		vtrace.Broken(err.Error())
	}
	vtrace.Stat("behaviours", len(lines))
	vtrace.Stat("trace_events", w.N)
	st.emit()
}

func hasCancel(s []act) bool {
	for _, a := range s {
		if a.Kind == "cancel" {
			return true
		}
	}
	return false
}

// ---------------------------------------------------------------- seeded random runs at larger sizes

func randomShape(rng *rand.Rand, name string, big bool) (*shape, error) {
	nk := 2 + rng.Intn(30)
	alphabet := []byte{0x01, 0x02, 0x11, 0x12, 0x21, 0xa1}
	mk := func() string {
		n := 1 + rng.Intn(3)
		b := make([]byte, n)
		for i := range b {
			b[i] = alphabet[rng.Intn(len(alphabet))]
		}
		return vtrace.Hex(b)
	}
	seen := map[string]bool{}
	var kv, fkv [][]string
	vals := []string{"a", "b", "c"}
	for len(kv) < nk {
		k := mk()
		if seen[k] {
			if len(seen) >= 200 {
				break
			}
			nk--
			continue
		}
		seen[k] = true
		v := vals[rng.Intn(len(vals))]
		if big && rng.Intn(8) == 0 {
			// a value of ~100 KB: an answer of the resolver (256 KB) holds two such leaves at most
			v = strings.Repeat(v, 100000+rng.Intn(1000))
		}
		kv = append(kv, []string{k, v})
	}
	if len(kv) == 0 {
		kv = append(kv, []string{"01", "a"})
	}
	for _, e := range kv {
		if rng.Intn(2) == 0 {
			fkv = append(fkv, e)
		}
	}
	for i := 0; i < 1+rng.Intn(4); i++ {
		fkv = append(fkv, []string{mk(), "f"})
	}
	sort.Slice(fkv, func(i, j int) bool { return fkv[i][0] < fkv[j][0] })
	// later duplicates of a key overwrite earlier ones in the trie; keep the list a function
	var f2 [][]string
	for i, e := range fkv {
		if i+1 < len(fkv) && fkv[i+1][0] == e[0] {
			continue
		}
		f2 = append(f2, e)
	}
	s, err := buildShape(shapeSpec{Name: name, Kv: kv, Fkv: f2})
	if err != nil {
		return nil, err
	}
	// forged variants of some nodes
	var fg []forged
	for i := 0; i < 3; i++ {
		of := 1 + rng.Intn(len(s.nodes))
		b := s.nodes[of-1].bytes
		if b[len(b)-1] == tLeaf {
			fg = append(fg, forged{Kind: "leafval", Of: of})
		} else {
			fg = append(fg, forged{Kind: "swapchild", Of: of, To: 1 + rng.Intn(len(s.nodes))})
		}
	}
	s2, err := buildShape(shapeSpec{Name: name, Kv: kv, Fkv: f2, Fg: fg})
	if err != nil {
		return s, nil // a forged variant coincided with a real node: do without forged nodes
	}
	return s2, nil
}

func record(seed int64, runs int, traceOut string, maxTraces int, netMode bool) {
	w, err := vtrace.NewWriter(traceOut)
	if err != nil {
		vtrace.Broken(err.Error())
		return
	}
	rng := rand.New(rand.NewSource(seed))
	st := &stats{distinct: vtrace.NewDistinct()}
	for i := 0; i < runs; i++ {
		sh, err := randomShape(rng, fmt.Sprintf("rnd%d", i), netMode)
		if err != nil {
			vtrace.Broken("random shape: " + err.Error())
			return
		}
		n := len(sh.nodes)
		r := &run{sh: sh, cap: []int{1, 2, 3, 5, 100}[rng.Intn(5)], rng: rng, netMode: netMode}
		r.algo = []string{"double", "single"}[rng.Intn(2)]
		// resumption: a random part of the target (and foreign) nodes is already stored
		if rng.Intn(3) == 0 {
			for id := 1; id <= n-len(sh.spec.Fg); id++ {
				if rng.Intn(4) == 0 {
					r.db0 = append(r.db0, id)
				}
			}
		}
		horizon := 6*sh.nTarget + 5
		if sh.spec.Froot != 0 && !netMode && rng.Intn(6) == 0 {
			duo(rng, sh, st, w, maxTraces, horizon)
			continue
		}
		na := rng.Intn(3 * n)
		for j := 0; j < na; j++ {
			a := act{At: rng.Intn(horizon), Kind: "deliver", X: rng.Intn(n + 1)}
			if rng.Intn(10) == 0 {
				a.Kind = "evict"
				a.X = 1 + rng.Intn(n)
			}
			r.sched = append(r.sched, a)
		}
		r.tail = "honest"
		withheld := 0
		if rng.Intn(4) == 0 {
			r.tail = "silent"
			// which target node is never available decides the expected outcome
			avail := map[int]bool{}
			for _, id := range r.db0 {
				avail[id] = true
			}
			for _, a := range r.sched {
				if a.Kind == "deliver" {
					avail[a.X] = true
				}
			}
			for id := 1; id <= sh.nTarget; id++ {
				if !avail[id] {
					withheld++
				}
			}
		}
		r.start()
		v := r.finish()
		st.count(r)
		st.distinct.Add(fmt.Sprint(sh.ch(), r.algo, r.cap, r.db0, r.sched, r.tail))
		if v == nil && r.tail == "silent" && withheld > 0 && r.res == "ok" {
			v = &verdict{"C05/" + r.algo + "/returned-nil-though-a-node-was-never-available",
				fmt.Sprintf("%s syncer: StartSyncing returned nil although %d target nodes were never delivered nor stored", r.algo, withheld)}
		}
		if v != nil {
			report(st, r, v)
		}
		if r.tail == "honest" && r.res != "ok" {
			st.noCompletion++
			if st.noCompletion <= 2 {
				vtrace.Drift("C05", fmt.Sprintf("%s syncer did not complete under honest delivery (%s): shape %v", r.algo, r.res, sh.spec.Kv), nil)
			}
		}
		if st.traces < maxTraces && n <= 60 {
			writeTrace(w, r)
			st.traces++
		}
		if i < 2 {
			vtrace.Sample("C05", oneLine(r))
		}
		if r.res != "ok" && rng.Intn(2) == 0 {
			// resumption: a new syncer (either kind) continues on the DB the interrupted run left behind
			r2 := &run{sh: sh, cap: r.cap, rng: rng, netMode: netMode, tail: "honest", dbInit: r.dbm}
			r2.algo = []string{"double", "single"}[rng.Intn(2)]
			r2.db0 = r.dbKeys()
			for j := 0; j < rng.Intn(n+1); j++ {
				r2.sched = append(r2.sched, act{At: rng.Intn(horizon), Kind: "deliver", X: rng.Intn(n + 1)})
			}
			r2.start()
			v2 := r2.finish()
			st.count(r2)
			st.resumed++
			if v2 != nil {
				report(st, r2, v2)
			}
			if r2.res != "ok" {
				st.noCompletion++
			}
			if st.traces < maxTraces && n <= 60 {
				writeTrace(w, r2)
				st.traces++
			}
		}
	}
	if err = w.Close(); err != nil {
		vtrace.Broken(err.Error())
	}
	vtrace.Stat("trace_events", w.N)
	st.emit()
}

// duo: two syncers run concurrently (two goroutines), one per trie of the shape, on ONE intercepted-nodes cache and
// ONE destination DB -- what userAccountsSyncer does with data tries. For each of them the other one is part of
// the environment: it takes entries out of the cache (Evict) and stores nodes in the DB (Store).
func duo(rng *rand.Rand, sh *shape, st *stats, w *vtrace.Writer, maxTraces int, horizon int) {
	n := len(sh.nodes)
	algos := []string{"double", "single"}
	mk := func(view *shape) *run {
		r := &run{sh: view, algo: algos[rng.Intn(2)], cap: []int{1, 2, 3, 100}[rng.Intn(4)], rng: rng, tail: "honest"}
		for j := 0; j < rng.Intn(n+1); j++ {
			r.sched = append(r.sched, act{At: rng.Intn(horizon), Kind: "deliver", X: rng.Intn(n + 1)})
		}
		return r
	}
	a := mk(sh)
	a.prepare()
	b := mk(sh.otherView())
	b.mu, b.cache, b.rec, b.proc, b.dbm = a.mu, a.cache, a.rec, a.proc, a.dbm
	a.peer, b.peer = b, a
	done := make(chan struct{}, 2)
	for _, r := range []*run{a, b} {
		go func(r *run) { r.start(); done <- struct{}{} }(r)
	}
	<-done
	<-done
	for _, r := range []*run{a, b} {
		st.count(r)
		st.duo++
		if v := r.finish(); v != nil {
			report(st, r, v)
		}
		if r.res != "ok" {
			st.noCompletion++
		}
		if st.traces < maxTraces && n <= 60 {
			writeTrace(w, r)
			st.traces++
		}
	}
}

func main() {
	vtrace.Quiet()
	if len(os.Args) < 2 {
		fmt.Fprintln(os.Stderr, "usage: vh-triesync genshapes | replay <behaviours> <trace-out> <max-traces> | record <seed> <runs> <trace-out> <max-traces> [net]")
		os.Exit(2)
	}
	switch os.Args[1] {
	case "genshapes":
		if err := genShapes(); err != nil {
			fmt.Fprintln(os.Stderr, err)
			os.Exit(2)
		}
	case "replay":
		n, _ := strconv.Atoi(os.Args[4])
		replay(os.Args[2], os.Args[3], n)
	case "record":
		seed, _ := strconv.ParseInt(os.Args[2], 10, 64)
		runs, _ := strconv.Atoi(os.Args[3])
		n, _ := strconv.Atoi(os.Args[5])
		record(seed, runs, os.Args[4], n, len(os.Args) > 6 && os.Args[6] == "net")
	case "selftest":
		selftest()
	case "timeouts":
		seed, _ := strconv.ParseInt(os.Args[2], 10, 64)
		n, _ := strconv.Atoi(os.Args[3])
		timeouts(seed, n)
	default:
		os.Exit(2)
	}
}

// selftest: the oracle must notice a cache that is not content-addressed (the harness itself stores node b under
// the hash of node a, which the real interceptor never does)
func selftest() {
	detected, runs := 0, 0
	for _, d := range shapeTable {
		if d.name != "branch2" && d.name != "ext" && d.name != "deep" {
			continue
		}
		sh, err := buildShape(shapeSpec{Name: d.name, Kv: d.kv, Fkv: d.fkv, Fg: d.fg})
		if err != nil {
			vtrace.Broken(err.Error())
			return
		}
		for _, algo := range []string{"double", "single"} {
			// a leaf of the target trie is replaced by a leaf that is not in the target trie
			key, content := 0, 0
			for id := 1; id <= len(sh.nodes); id++ {
				if len(sh.nodes[id-1].kids) == 0 {
					if id <= sh.nTarget {
						key = id
					} else if content == 0 {
						content = id
					}
				}
			}
			r := &run{sh: sh, algo: algo, cap: 3, tail: "honest", poison: [][2]int{{key, content}}}
			r.start()
			v := r.finish()
			runs++
			if v != nil {
				detected++
			}
		}
	}
	vtrace.Stat("poison_runs", runs)
	vtrace.Stat("poison_detected", detected)
}

// timeouts: the real watchdog of trieSyncer (ErrTimeIsOut after TimeoutBetweenTrieNodesCommits = 1 s) and the
// double list syncer (no watchdog: ends only by cancellation) when a node is withheld for ever
func timeouts(seed int64, n int) {
	rng := rand.New(rand.NewSource(seed))
	type res struct {
		r *run
		v *verdict
	}
	out := make(chan res, n)
	for i := 0; i < n; i++ {
		d := shapeTable[1+rng.Intn(len(shapeTable)-1)]
		sh, err := buildShape(shapeSpec{Name: d.name, Kv: d.kv, Fkv: d.fkv, Fg: d.fg})
		if err != nil {
			vtrace.Broken(err.Error())
			return
		}
		r := &run{sh: sh, algo: []string{"single", "double"}[i%2], cap: 1 + rng.Intn(3), tail: "silent", realTO: true,
			wait: 20 * time.Millisecond}
		withheld := 1 + rng.Intn(sh.nTarget)
		if i%4 < 2 {
			withheld = 1 // the root: nothing is ever committed, trieSyncer's watchdog must fire
		}
		for id := 1; id <= len(sh.nodes); id++ {
			if id != withheld {
				r.sched = append(r.sched, act{At: rng.Intn(4), Kind: "deliver", X: id})
			}
		}
		// the double list syncer has no watchdog, and trieSyncer's watchdog is reset by every re-commit of an already
		// synced child: such runs end only by cancellation
		go func() {
			time.Sleep(2500 * time.Millisecond)
			r.mu.Lock()
			c := r.cancel
			r.mu.Unlock()
			if c != nil {
				c()
			}
		}()
		go func() {
			r.start()
			out <- res{r, r.finish()}
		}()
	}
	st := &stats{distinct: vtrace.NewDistinct()}
	for i := 0; i < n; i++ {
		x := <-out
		st.count(x.r)
		v := x.v
		if v == nil && x.r.res == "ok" {
			v = &verdict{"C05/" + x.r.algo + "/returned-nil-though-a-node-was-never-available",
				x.r.algo + " syncer: StartSyncing returned nil although a target node was withheld for ever"}
		}
		if v != nil {
			report(st, x.r, v)
		}
	}
	st.emit()
}
