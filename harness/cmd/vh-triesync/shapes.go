package main

// Concretisation of the abstract node DAGs of specs/TrieSync: real tries are built with the real
// patriciaMerkleTrie from the key/value lists of a shape, their nodes are numbered in DFS pre-order
// (children in slot order) and the result must be exactly the `ch` the specification works with.

import (
	"bytes"
	"encoding/hex"
	"fmt"
	"os"
	"sort"
	"strings"

	"github.com/ElrondNetwork/elrond-go/data"
	"github.com/ElrondNetwork/elrond-go/data/trie"
	"github.com/ElrondNetwork/elrond-go/hashing"
	"github.com/ElrondNetwork/elrond-go/hashing/keccak"
	"github.com/ElrondNetwork/elrond-go/marshal"
	"github.com/ElrondNetwork/elrond-go/storage/memorydb"
)

const (
	tExtension = 0
	tLeaf      = 1
	tBranch    = 2
)

var marsh marshal.Marshalizer = &marshal.GogoProtoMarshalizer{}
var hasher hashing.Hasher = keccak.NewKeccak()

// forged describes a node that belongs to no trie: a variant of node Of
type forged struct {
	Kind string `json:"kind"` // "leafval": leaf Of with another value; "swapchild": first child of Of replaced by node To; "stray": a fresh leaf
	Of   int    `json:"of"`
	To   int    `json:"to"`
}

// shapeSpec is the JSON form of a shape record of MC_TrieSync / of the "New" record of a behaviour
type shapeSpec struct {
	Name  string      `json:"name"`
	Kv    [][]string  `json:"kv"`  // target trie: hex key, value
	Fkv   [][]string  `json:"fkv"` // another trie (may share nodes with the target)
	Fg    []forged    `json:"fg"`
	Ch    [][]int     `json:"ch"`
	Root  int         `json:"root"`
	Froot int         `json:"froot"`
	Db0s  [][]int     `json:"db0s"`
	Extra interface{} `json:"-"`
}

type nodeInfo struct {
	hash  []byte
	bytes []byte
	kids  []int
}

type shape struct {
	spec     shapeSpec
	nodes    []nodeInfo // index id-1
	idOf     map[string]int
	rootHash []byte
	leaves   map[string]string // contents of the target trie (from the spec)
	nTarget  int
	target   map[int]bool
	tr       data.Trie // the source trie (what honest peers serve from)
	viewRoot int       // 0 = the target trie; otherwise the id of the root this view syncs
}

func newTrie() (data.Trie, data.DBWriteCacher) {
	db := memorydb.New()
	tsm, err := trie.NewTrieStorageManagerWithoutPruning(db)
	if err != nil {
		panic(err)
	}
	tr, err := trie.NewTrie(tsm, marsh, hasher, 5)
	if err != nil {
		panic(err)
	}
	return tr, db
}

func buildTrie(kv [][]string) (data.Trie, []byte, error) {
	tr, _ := newTrie()
	for _, e := range kv {
		k, err := hex.DecodeString(e[0])
		if err != nil {
			return nil, nil, err
		}
		if err = tr.Update(k, []byte(e[1])); err != nil {
			return nil, nil, err
		}
	}
	if err := tr.Commit(); err != nil {
		return nil, nil, err
	}
	root, err := tr.RootHash()
	return tr, root, err
}

// childHashes decodes a serialized node (the wire / DB format: protobuf + one type byte) and returns the child
// hashes it names, in slot order
func childHashes(ser []byte) ([][]byte, error) {
	if len(ser) < 1 {
		return nil, fmt.Errorf("empty node")
	}
	body := ser[:len(ser)-1]
	switch ser[len(ser)-1] {
	case tBranch:
		n := &trie.CollapsedBn{}
		if err := marsh.Unmarshal(n, body); err != nil {
			return nil, err
		}
		var r [][]byte
		for _, c := range n.EncodedChildren {
			if len(c) > 0 {
				r = append(r, c)
			}
		}
		return r, nil
	case tExtension:
		n := &trie.CollapsedEn{}
		if err := marsh.Unmarshal(n, body); err != nil {
			return nil, err
		}
		return [][]byte{n.EncodedChild}, nil
	case tLeaf:
		return nil, nil
	}
	return nil, fmt.Errorf("unknown node type %d", ser[len(ser)-1])
}

func (s *shape) add(hash, ser []byte) int {
	s.nodes = append(s.nodes, nodeInfo{hash: hash, bytes: ser})
	s.idOf[string(hash)] = len(s.nodes)
	return len(s.nodes)
}

func (s *shape) walk(tr data.Trie, hash []byte) error {
	if _, ok := s.idOf[string(hash)]; ok {
		return nil
	}
	ser, err := tr.GetSerializedNode(hash)
	if err != nil {
		return fmt.Errorf("node %x: %v", hash, err)
	}
	s.add(hash, append([]byte(nil), ser...))
	kids, err := childHashes(ser)
	if err != nil {
		return err
	}
	for _, k := range kids {
		if err = s.walk(tr, k); err != nil {
			return err
		}
	}
	return nil
}

func (s *shape) fillKids() error {
	for i := range s.nodes {
		kids, err := childHashes(s.nodes[i].bytes)
		if err != nil {
			return err
		}
		s.nodes[i].kids = nil
		for _, k := range kids {
			s.nodes[i].kids = append(s.nodes[i].kids, s.idOf[string(k)]) // 0 = names a node that does not exist
		}
	}
	return nil
}

func (s *shape) forge(f forged, seq int) ([]byte, error) {
	switch f.Kind {
	case "stray":
		n := &trie.CollapsedLn{Key: []byte{1, 2, 3, byte(seq), 16}, Value: []byte(fmt.Sprintf("stray-%d", seq))}
		b, err := marsh.Marshal(n)
		return append(b, tLeaf), err
	case "leafval":
		ser := s.nodes[f.Of-1].bytes
		if ser[len(ser)-1] != tLeaf {
			return nil, fmt.Errorf("forged leafval: node %d is not a leaf", f.Of)
		}
		n := &trie.CollapsedLn{}
		if err := marsh.Unmarshal(n, ser[:len(ser)-1]); err != nil {
			return nil, err
		}
		n.Value = append(append([]byte(nil), n.Value...), []byte(fmt.Sprintf("!forged%d", seq))...)
		b, err := marsh.Marshal(n)
		return append(b, tLeaf), err
	case "swapchild":
		ser := s.nodes[f.Of-1].bytes
		to := s.nodes[f.To-1].hash
		switch ser[len(ser)-1] {
		case tBranch:
			n := &trie.CollapsedBn{}
			if err := marsh.Unmarshal(n, ser[:len(ser)-1]); err != nil {
				return nil, err
			}
			for i := range n.EncodedChildren {
				if len(n.EncodedChildren[i]) > 0 {
					n.EncodedChildren[i] = to
					break
				}
			}
			b, err := marsh.Marshal(n)
			return append(b, tBranch), err
		case tExtension:
			n := &trie.CollapsedEn{}
			if err := marsh.Unmarshal(n, ser[:len(ser)-1]); err != nil {
				return nil, err
			}
			n.EncodedChild = to
			b, err := marsh.Marshal(n)
			return append(b, tExtension), err
		}
		return nil, fmt.Errorf("forged swapchild: node %d has no children", f.Of)
	}
	return nil, fmt.Errorf("unknown forged kind %q", f.Kind)
}

// buildShape builds the real tries of a shape and numbers their nodes. If spec.Ch is given it must be what the
// real tries look like (otherwise the specification and the harness would talk about different DAGs).
func buildShape(spec shapeSpec) (*shape, error) {
	s := &shape{spec: spec, idOf: map[string]int{}, leaves: map[string]string{}, target: map[int]bool{}}
	tr, root, err := buildTrie(spec.Kv)
	if err != nil {
		return nil, err
	}
	s.rootHash = root
	s.tr = tr
	for _, e := range spec.Kv {
		k, _ := hex.DecodeString(e[0])
		s.leaves[string(k)] = e[1]
	}
	if err = s.walk(tr, root); err != nil {
		return nil, err
	}
	s.nTarget = len(s.nodes)
	froot := 0
	if len(spec.Fkv) > 0 {
		ftr, fr, err := buildTrie(spec.Fkv)
		if err != nil {
			return nil, err
		}
		if err = s.walk(ftr, fr); err != nil {
			return nil, err
		}
		froot = s.idOf[string(fr)]
	}
	for i, f := range spec.Fg {
		b, err := s.forge(f, i)
		if err != nil {
			return nil, err
		}
		h := hasher.Compute(string(b))
		if _, dup := s.idOf[string(h)]; dup {
			return nil, fmt.Errorf("forged node %d collides with an existing node", i)
		}
		s.add(h, b)
	}
	if err = s.fillKids(); err != nil {
		return nil, err
	}
	for i := 1; i <= s.nTarget; i++ {
		s.target[i] = true
	}
	if spec.Ch != nil {
		if len(spec.Ch) != len(s.nodes) {
			return nil, fmt.Errorf("shape %s: specification has %d nodes, the real tries have %d", spec.Name, len(spec.Ch), len(s.nodes))
		}
		for i := range s.nodes {
			if fmt.Sprint(spec.Ch[i]) != fmt.Sprint(append([]int{}, s.nodes[i].kids...)) {
				return nil, fmt.Errorf("shape %s: node %d has children %v in the specification, %v in the real trie", spec.Name, i+1, spec.Ch[i], s.nodes[i].kids)
			}
		}
		if spec.Root != 1 || spec.Froot != froot {
			return nil, fmt.Errorf("shape %s: root/froot differ (%d/%d vs 1/%d)", spec.Name, spec.Root, spec.Froot, froot)
		}
	}
	s.spec.Root = 1
	s.spec.Froot = froot
	return s, nil
}

func (s *shape) ch() [][]int {
	r := make([][]int, len(s.nodes))
	for i := range s.nodes {
		r[i] = append([]int{}, s.nodes[i].kids...)
	}
	return r
}

// --------------------------------------------------------------------------------------------------------
// The shape table the TLA+ module TrieSyncShapes.tla is generated from (`vh-triesync genshapes`). Keys are
// hex; the trie consumes a key's nibbles from its END (low nibble of the last byte first).

type shapeDef struct {
	name string
	kv   [][]string
	fkv  [][]string
	fg   []forged
	db0s [][]int
}

func kvs(s ...string) [][]string {
	var r [][]string
	for i := 0; i+1 < len(s); i += 2 {
		r = append(r, []string{s[i], s[i+1]})
	}
	return r
}

var shapeTable = []shapeDef{
	// one leaf
	{name: "leaf", kv: kvs("0a", "v1"), fkv: kvs("0b", "w1"), fg: []forged{{Kind: "leafval", Of: 1}},
		db0s: [][]int{{}}},
	// a branch with two leaves; the other trie shares one leaf
	{name: "branch2", kv: kvs("01", "v1", "02", "v2"), fkv: kvs("01", "v1", "03", "v3"),
		fg: []forged{{Kind: "swapchild", Of: 1, To: 5}}, db0s: [][]int{{}, {2}}},
	// extension -> branch -> two leaves (common prefix), forged extension pointing into the other trie
	{name: "ext", kv: kvs("0111", "v1", "0211", "v2"), fkv: kvs("0311", "v3", "0411", "v4"),
		fg: []forged{{Kind: "swapchild", Of: 2, To: 7}, {Kind: "leafval", Of: 3}}, db0s: [][]int{{}, {2}, {1, 3}, {6, 7}}},
	// a branch holding two identical leaves (same remaining key, same value) and a third one
	{name: "dupleaf", kv: kvs("1101", "v", "1102", "v", "2203", "z"), fkv: nil,
		fg: []forged{{Kind: "stray"}}, db0s: [][]int{{}}},
	// two levels; a whole sub-trie occurs twice (shared inner node), one key ends inside a branch (slot 16)
	{name: "deep", kv: kvs("110101", "a", "120101", "b", "110102", "a", "120102", "b", "03", "c"),
		fkv: kvs("110101", "a", "120101", "b", "05", "e"),
		fg:  []forged{{Kind: "swapchild", Of: 2, To: 8}}, db0s: [][]int{{}, {2}, {3, 4}}},
	// the hard-cap shape: a root with three children one of which is an inner node (with cap 1 the double list
	// syncer breaks out of processExistingNodes when the inner node arrives while its two siblings are missing)
	{name: "cap", kv: kvs("11", "x", "21", "y", "02", "b", "03", "c"), fkv: nil,
		fg: []forged{{Kind: "stray"}}, db0s: [][]int{{}, {3}}},
	// three inner nodes below the root
	{name: "wide", kv: kvs("11", "a", "21", "b", "12", "c", "22", "d", "13", "e", "23", "f"), fkv: kvs("11", "a", "21", "b", "14", "g"),
		fg: []forged{{Kind: "leafval", Of: 3}}, db0s: [][]int{{}, {2, 5}}},
	// key that is a suffix of another key: the shorter one sits in slot 16 of a branch
	{name: "slot16", kv: kvs("01", "short", "0201", "long1", "0301", "long2"), fkv: kvs("01", "other"),
		fg: []forged{{Kind: "leafval", Of: 3}}, db0s: [][]int{{}, {1}}},
}

func tlaStr(s string) string { return `"` + s + `"` }

func tlaSeqInts(a []int) string {
	p := make([]string, len(a))
	for i := range a {
		p[i] = fmt.Sprint(a[i])
	}
	return "<<" + strings.Join(p, ", ") + ">>"
}

func tlaSetInts(a []int) string {
	b := append([]int{}, a...)
	sort.Ints(b)
	p := make([]string, len(b))
	for i := range b {
		p[i] = fmt.Sprint(b[i])
	}
	return "{" + strings.Join(p, ", ") + "}"
}

func tlaKv(kv [][]string) string {
	p := make([]string, len(kv))
	for i := range kv {
		p[i] = "<<" + tlaStr(kv[i][0]) + ", " + tlaStr(kv[i][1]) + ">>"
	}
	return "<<" + strings.Join(p, ", ") + ">>"
}

// genShapes prints the module TrieSyncShapes.tla
func genShapes() error {
	var out bytes.Buffer
	out.WriteString("---- MODULE TrieSyncShapes ----\n")
	out.WriteString("(* GENERATED by `vh-triesync genshapes` from harness/cmd/vh-triesync/shapes.go -- do not edit.            *)\n")
	out.WriteString("(* kv/fkv: contents of the target trie / of another trie (hex key, value); fg: forged nodes;            *)\n")
	out.WriteString("(* ch[n]: child hashes of node n as the REAL patriciaMerkleTrie lays the nodes out (DFS pre-order ids:    *)\n")
	out.WriteString("(* target trie from the root = 1, then the new nodes of the other trie, then the forged nodes).        *)\n")
	out.WriteString("(* The harness rebuilds the tries at every replay and refuses to run if they do not have this layout. *)\n")
	var names []string
	for _, d := range shapeTable {
		fg := d.fg
		if os.Getenv("VH_NOFG") != "" {
			fg = nil
		}
		s, err := buildShape(shapeSpec{Name: d.name, Kv: d.kv, Fkv: d.fkv, Fg: fg})
		if err != nil {
			return fmt.Errorf("shape %s: %v", d.name, err)
		}
		var chs, fgs, dbs []string
		for _, c := range s.ch() {
			chs = append(chs, tlaSeqInts(c))
		}
		for _, f := range d.fg {
			fgs = append(fgs, fmt.Sprintf("[kind |-> %s, of |-> %d, to |-> %d]", tlaStr(f.Kind), f.Of, f.To))
		}
		for _, d0 := range d.db0s {
			dbs = append(dbs, tlaSetInts(d0))
		}
		id := "Shape_" + d.name
		names = append(names, id)
		fmt.Fprintf(&out, "\\* %s: %d target nodes, %d nodes in all\n", d.name, s.nTarget, len(s.nodes))
		fmt.Fprintf(&out, "%s == [name |-> %s,\n    kv |-> %s,\n    fkv |-> %s,\n    fg |-> <<%s>>,\n    ch |-> <<%s>>,\n    root |-> 1, froot |-> %d, db0s |-> {%s}]\n",
			id, tlaStr(d.name), tlaKv(d.kv), tlaKv(d.fkv), strings.Join(fgs, ", "), strings.Join(chs, ", "), s.spec.Froot, strings.Join(dbs, ", "))
	}
	fmt.Fprintf(&out, "AllShapes == {%s}\n====\n", strings.Join(names, ", "))
	fmt.Print(out.String())
	return nil
}

// otherView is the same set of nodes seen by a syncer that is asked for the OTHER trie of the shape
func (s *shape) otherView() *shape {
	o := *s
	o.rootHash = s.nodes[s.spec.Froot-1].hash
	o.leaves = map[string]string{}
	for _, e := range s.spec.Fkv {
		k, _ := hex.DecodeString(e[0])
		o.leaves[string(k)] = e[1]
	}
	o.target = map[int]bool{}
	var walk func(id int)
	walk = func(id int) {
		if id == 0 || o.target[id] {
			return
		}
		o.target[id] = true
		for _, k := range s.nodes[id-1].kids {
			walk(k)
		}
	}
	walk(s.spec.Froot)
	o.viewRoot = s.spec.Froot
	return &o
}
