// vh-fees binds specs/Fees to the real process/economics.economicsData (C21, C22).
//
//	vh-fees eval <behaviours.ndjson> <mismatch-trace.ndjson> <sample-every>
//	      TLC-enumerated inputs (New cfg [-> Epoch e]* -> one query, with the specification's expected output) are
//	      evaluated on a real economicsData; the observed output is compared with the expected one; every behaviour
//	      whose output differs (and every <sample-every>-th one) is written as a trace for TLC to judge.
//	vh-fees record <seed> <traces> <len> <out.ndjson>
//	      seeded random configurations / epochs / queries (numbers up to 2^31) on the real object -> trace for Trace_Fees.
//	vh-fees real <seed> <n>
//	      SUPPLEMENTARY: main-net scale numbers (prices 10^9, balances 10^20); the inequalities of C21/C22 -- literally
//	      the property -- are evaluated in Go with big.Int because TLC integers are 32-bit.
package main

import (
	"encoding/hex"
	"encoding/json"
	"errors"
	"fmt"
	"math"
	"math/big"
	"math/rand"
	"os"
	"strconv"
	"strings"

	"github.com/ElrondNetwork/elrond-go/config"
	"github.com/ElrondNetwork/elrond-go/core"
	"github.com/ElrondNetwork/elrond-go/core/forking"
	"github.com/ElrondNetwork/elrond-go/data/block"
	"github.com/ElrondNetwork/elrond-go/data/smartContractResult"
	"github.com/ElrondNetwork/elrond-go/data/transaction"
	"github.com/ElrondNetwork/elrond-go/process"
	"github.com/ElrondNetwork/elrond-go/process/economics"
	"github.com/ElrondNetwork/elrond-go/process/mock"
	"github.com/ElrondNetwork/elrond-go/process/smartContract"
	"github.com/ElrondNetwork/elrond-go/vm/systemSmartContracts/defaults"
	"verif/harness/internal/vtrace"
)

type M = vtrace.M

// feeAPI is the part of economicsData the properties talk about
type feeAPI interface {
	CheckValidityTxValues(tx process.TransactionWithFeeHandler) error
	ComputeGasLimit(tx process.TransactionWithFeeHandler) uint64
	SplitTxGasInCategories(tx process.TransactionWithFeeHandler) (uint64, uint64)
	ComputeMoveBalanceFee(tx process.TransactionWithFeeHandler) *big.Int
	ComputeTxFee(tx process.TransactionWithFeeHandler) *big.Int
	GasPriceForProcessing(tx process.TransactionWithFeeHandler) uint64
	ComputeTxFeeBasedOnGasUsed(tx process.TransactionWithFeeHandler, gasUsed uint64) *big.Int
	ComputeGasUsedAndFeeBasedOnRefundValue(tx process.TransactionWithFeeHandler, refundValue *big.Int) (uint64, *big.Int)
	ComputeGasLimitBasedOnBalance(tx process.TransactionWithFeeHandler, balance *big.Int) (uint64, error)
}

type gasScheduleSink interface {
	GasScheduleChange(gasSchedule map[string]map[string]uint64)
}

type cfgT struct {
	MinPrice, MinLimit, PerByte, MaxGas uint64
	Modifier                            float64
	PenEpoch, ModEpoch                  uint32
	Supply                              string
}

type sut struct {
	ed       feeAPI
	notifier process.EpochNotifier
	bic      gasScheduleSink
	gasMap   map[string]map[string]uint64
}

const builtInName = "ESDTBurn" // the special built-in function the harness calls; its cost is set per query

func newSut(c cfgT) (*sut, error) {
	gasMap := defaults.FillGasMapInternal(map[string]map[string]uint64{}, 1)
	bic, err := economics.NewBuiltInFunctionsCost(&economics.ArgsBuiltInFunctionCost{
		GasSchedule: mock.NewGasScheduleNotifierMock(gasMap),
		ArgsParser:  smartContract.NewArgumentParser(),
	})
	if err != nil {
		return nil, err
	}
	u := strconv.FormatUint
	ec := &config.EconomicsConfig{
		GlobalSettings: config.GlobalSettings{
			GenesisTotalSupply: c.Supply,
			MinimumInflation:   0,
			YearSettings:       []*config.YearSetting{{Year: 0, MaximumInflation: 0.01}},
		},
		RewardsSettings: config.RewardsSettings{
			RewardsConfigByEpoch: []config.EpochRewardSettings{{
				LeaderPercentage:                 0.1,
				DeveloperPercentage:              0.1,
				ProtocolSustainabilityPercentage: 0.1,
				ProtocolSustainabilityAddress:    "erd1932eft30w753xyvme8d49qejgkjc09n5e49w4mwdjtm0neld797su0dlxp",
				TopUpGradientPoint:               "300000000000000000000",
				TopUpFactor:                      0.25,
				EpochEnable:                      0,
			}},
		},
		FeeSettings: config.FeeSettings{
			MaxGasLimitPerBlock:     u(c.MaxGas, 10),
			MaxGasLimitPerMetaBlock: u(c.MaxGas, 10),
			MinGasPrice:             u(c.MinPrice, 10),
			MinGasLimit:             u(c.MinLimit, 10),
			GasPerDataByte:          u(c.PerByte, 10),
			GasPriceModifier:        c.Modifier,
		},
	}
	notifier := forking.NewGenericEpochNotifier()
	ed, err := economics.NewEconomicsData(economics.ArgsNewEconomicsData{
		BuiltInFunctionsCostHandler:    bic,
		Economics:                      ec,
		EpochNotifier:                  notifier,
		PenalizedTooMuchGasEnableEpoch: c.PenEpoch,
		GasPriceModifierEnableEpoch:    c.ModEpoch,
	})
	if err != nil {
		return nil, err
	}
	return &sut{ed: ed, notifier: notifier, bic: bic, gasMap: gasMap}, nil
}

// epochConfirmed drives the real notifier (it calls economicsData.EpochConfirmed)
func (s *sut) epochConfirmed(e uint32) {
	s.notifier.CheckEpoch(&block.Header{Epoch: e})
}

func (s *sut) setBuiltInCost(c uint64) {
	s.gasMap[core.BuiltInCost][builtInName] = c
	s.bic.GasScheduleChange(s.gasMap)
}

var rcvAddr = []byte("12345678901234567890123456789012") // not a smart-contract address

// builtInData returns call data of the given length that calls the special built-in function, "" if impossible
func builtInData(dl int) string {
	l := len(builtInName)
	switch {
	case dl == l:
		return builtInName
	case dl >= l+3 && (dl-l-1)%2 == 0:
		return builtInName + "@" + strings.Repeat("0a", (dl-l-1)/2)
	case dl >= l+6 && (dl-l-2)%2 == 0:
		return builtInName + "@0a@" + strings.Repeat("0b", (dl-l-4)/2)
	}
	return ""
}

// BuiltInLenOK tells whether a built-in call of that data length can be built
func builtInLenOK(dl int) bool { return builtInData(dl) != "" }

type txT struct {
	Price, Gl uint64
	Dl        int
	Value     *big.Int
	Bi        uint64
	Scr       bool // the object handed to the fee functions is a *smartContractResult.SmartContractResult
}

// mk builds the object the fee functions are called with
func (s *sut) mk(t txT) process.TransactionWithFeeHandler {
	if t.Scr {
		var d []byte
		if t.Dl > 0 {
			d = []byte(strings.Repeat("x", t.Dl))
		}
		return &smartContractResult.SmartContractResult{GasPrice: t.Price, GasLimit: t.Gl, Data: d, Value: new(big.Int).Set(t.Value),
			RcvAddr: rcvAddr, SndAddr: rcvAddr}
	}
	return s.mkTx(t)
}

func (s *sut) mkTx(t txT) *transaction.Transaction {
	var d []byte
	if t.Bi > 0 {
		d = []byte(builtInData(t.Dl))
		if len(d) != t.Dl {
			panic(fmt.Sprintf("no built-in call data of length %d", t.Dl))
		}
		s.setBuiltInCost(t.Bi)
	} else if t.Dl > 0 {
		d = []byte(strings.Repeat("x", t.Dl))
	}
	return &transaction.Transaction{GasPrice: t.Price, GasLimit: t.Gl, Data: d, Value: new(big.Int).Set(t.Value),
		RcvAddr: rcvAddr, SndAddr: rcvAddr}
}

func validClass(err error) string {
	switch {
	case err == nil:
		return "ok"
	case errors.Is(err, process.ErrInsufficientGasPriceInTx):
		return "price"
	case errors.Is(err, process.ErrInsufficientGasLimitInTx):
		return "limit"
	case errors.Is(err, process.ErrMoreGasThanGasLimitPerBlock):
		return "maxgas"
	case errors.Is(err, process.ErrTxValueOutOfBounds):
		return "oob"
	case errors.Is(err, process.ErrTxValueTooBig):
		return "big"
	}
	return "other:" + err.Error()
}

// ---------------------------------------------------------------- the four queries on the real object (big.Int results)

type feeObs struct {
	valid                    string
	moveGas, procGas, pp     uint64
	moveFee, fee             *big.Int
	f1, f2, full             *big.Int
	gasUsed                  uint64
	errc                     string
	gl                       uint64
	feeAt                    *big.Int
	g1, g2                   uint64
	refund, balance, txValue *big.Int
	glTimesPrice             *big.Int
	kind                     string
	builtIn                  bool
}

func (s *sut) qFee(t txT) feeObs {
	tx := s.mk(t)
	o := feeObs{kind: "Fee"}
	o.valid = validClass(s.ed.CheckValidityTxValues(tx))
	o.moveGas = s.ed.ComputeGasLimit(tx)
	_, o.procGas = s.ed.SplitTxGasInCategories(tx)
	o.moveFee = s.ed.ComputeMoveBalanceFee(tx)
	o.fee = s.ed.ComputeTxFee(tx)
	o.pp = s.ed.GasPriceForProcessing(tx)
	o.glTimesPrice = core.SafeMul(t.Gl, t.Price)
	return o
}

func (s *sut) qGasUsed(t txT, g1, g2 uint64) feeObs {
	tx := s.mkTx(t)
	o := feeObs{kind: "GasUsed", g1: g1, g2: g2}
	o.valid = validClass(s.ed.CheckValidityTxValues(tx))
	o.f1 = s.ed.ComputeTxFeeBasedOnGasUsed(tx, g1)
	o.f2 = s.ed.ComputeTxFeeBasedOnGasUsed(tx, g2)
	o.full = s.ed.ComputeTxFee(tx)
	o.pp = s.ed.GasPriceForProcessing(tx)
	return o
}

func (s *sut) qRefund(t txT, r *big.Int) feeObs {
	tx := s.mkTx(t)
	o := feeObs{kind: "Refund", refund: r, builtIn: t.Bi > 0}
	o.valid = validClass(s.ed.CheckValidityTxValues(tx))
	o.gasUsed, o.fee = s.ed.ComputeGasUsedAndFeeBasedOnRefundValue(tx, new(big.Int).Set(r))
	o.full = s.ed.ComputeTxFee(tx)
	o.moveFee = s.ed.ComputeMoveBalanceFee(tx)
	o.pp = s.ed.GasPriceForProcessing(tx)
	o.gl = t.Gl
	return o
}

func (s *sut) qBalance(t txT, bal *big.Int) feeObs {
	tx := s.mkTx(t)
	o := feeObs{kind: "Balance", balance: bal, txValue: t.Value}
	gl, err := s.ed.ComputeGasLimitBasedOnBalance(tx, new(big.Int).Set(bal))
	o.feeAt = big.NewInt(0)
	switch {
	case err == nil:
		o.errc = "ok"
		o.gl = gl
		tx2 := *tx
		tx2.GasLimit = gl
		o.feeAt = s.ed.ComputeTxFee(&tx2)
	case errors.Is(err, process.ErrInsufficientFunds):
		o.errc = "funds"
	default:
		o.errc = "other:" + err.Error()
	}
	o.pp = s.ed.GasPriceForProcessing(tx)
	return o
}

// ---------------------------------------------------------------- JSON <-> Go for the TLC-sized domain

var tooBig = false

func small(b *big.Int) int {
	if !b.IsInt64() || b.Int64() > math.MaxInt32 || b.Int64() < math.MinInt32 {
		tooBig = true
		return 0
	}
	return int(b.Int64())
}

func smallU(u uint64) int {
	if u > math.MaxInt32 {
		tooBig = true
		return 0
	}
	return int(u)
}

func (o feeObs) out() M {
	switch o.kind {
	case "Fee":
		return M{"valid": o.valid, "moveGas": smallU(o.moveGas), "procGas": smallU(o.procGas), "moveFee": small(o.moveFee),
			"fee": small(o.fee), "pp": smallU(o.pp)}
	case "GasUsed":
		return M{"valid": o.valid, "f1": small(o.f1), "f2": small(o.f2), "full": small(o.full), "pp": smallU(o.pp)}
	case "Refund":
		return M{"valid": o.valid, "gasUsed": smallU(o.gasUsed), "fee": small(o.fee), "full": small(o.full),
			"moveFee": small(o.moveFee), "pp": smallU(o.pp)}
	case "Balance":
		return M{"err": o.errc, "gl": smallU(o.gl), "feeAt": small(o.feeAt), "pp": smallU(o.pp)}
	}
	panic(o.kind)
}

func cfgFromJSON(in M) (cfgT, M) {
	g := func(k string) int { return vtrace.Int(in[k]) }
	c := cfgT{MinPrice: uint64(g("minPrice")), MinLimit: uint64(g("minLimit")), PerByte: uint64(g("perByte")),
		MaxGas: uint64(g("maxGas")), Modifier: float64(g("num")) / float64(g("den")),
		PenEpoch: uint32(g("penEpoch")), ModEpoch: uint32(g("modEpoch")), Supply: strconv.Itoa(g("supply"))}
	return c, in
}

func txFromJSON(v interface{}) txT {
	m := v.(map[string]interface{})
	return txT{Price: uint64(vtrace.Int(m["price"])), Gl: uint64(vtrace.Int(m["gl"])), Dl: vtrace.Int(m["dl"]),
		Value: big.NewInt(int64(vtrace.Int(m["value"]))), Bi: uint64(vtrace.Int(m["bi"])), Scr: m["scr"] == true}
}

func txJSON(t txT) M {
	return M{"price": int(t.Price), "gl": int(t.Gl), "dl": t.Dl, "value": small(t.Value), "bi": int(t.Bi), "scr": t.Scr}
}

func (s *sut) query(a string, in M) feeObs {
	t := txFromJSON(in["tx"])
	switch a {
	case "Fee":
		return s.qFee(t)
	case "GasUsed":
		return s.qGasUsed(t, uint64(vtrace.Int(in["g1"])), uint64(vtrace.Int(in["g2"])))
	case "Refund":
		return s.qRefund(t, big.NewInt(int64(vtrace.Int(in["r"]))))
	case "Balance":
		return s.qBalance(t, big.NewInt(int64(vtrace.Int(in["bal"]))))
	}
	panic("unknown query " + a)
}

func sameOut(exp map[string]interface{}, got M) bool {
	if len(exp) != len(got) {
		return false
	}
	for k, g := range got {
		e, ok := exp[k]
		if !ok {
			return false
		}
		switch x := g.(type) {
		case int:
			if vtrace.Int(e) != x {
				return false
			}
		case string:
			if s, ok := e.(string); !ok || s != x {
				return false
			}
		default:
			return false
		}
	}
	return true
}

// branch names the code path a case exercises (for the distinct / non-trivial count only)
func branch(a string, in M, out M) string {
	tx := in["tx"].(map[string]interface{})
	s := a
	if a == "Balance" {
		return s + "/" + vtrace.Str(out["err"])
	}
	s += "/" + vtrace.Str(out["valid"])
	if vtrace.Int(tx["bi"]) > 0 {
		s += "/builtin"
	}
	if tx["scr"] == true {
		s += "/scr"
	}
	if a == "Refund" {
		if vtrace.Int(in["r"]) > 0 {
			s += "/refund"
		}
		switch g := vtrace.Int(out["gasUsed"]); {
		case g == vtrace.Int(tx["gl"]):
			s += "/all-used"
		case g > vtrace.Int(tx["gl"]):
			s += "/above-limit"
		}
	}
	return s
}

// step is one record of an exported behaviour (vtrace.Step + the deviation class computed by the specification)
type step struct {
	A   string `json:"a"`
	In  M      `json:"in"`
	Out M      `json:"out"`
	Cls string `json:"cls"`
}

type ev struct {
	a       string
	in, out M
}

func writeTrace(w *vtrace.Writer, evs []ev) {
	for i, e := range evs {
		if i == 0 {
			w.NewTraceWith(e.a, e.in, e.out, M{})
		} else {
			w.Emit(e.a, e.in, e.out, M{})
		}
	}
}

// eval: mismPath receives the cases whose real output differs from the specification's (class "none"),
// clsPath the cases of the known-deviation classes (always judged by TLC) and every <every>-th conforming case.
func eval(path, mismPath, clsPath string, every, clsEvery int) {
	lines, err := vtrace.ReadLines(path)
	if err != nil {
		vtrace.Broken(err.Error())
		return
	}
	wm, err := vtrace.NewWriter(mismPath)
	if err != nil {
		vtrace.Broken(err.Error())
		return
	}
	wc, err := vtrace.NewWriter(clsPath)
	if err != nil {
		vtrace.Broken(err.Error())
		return
	}
	distinct := vtrace.NewDistinct()
	branches := vtrace.NewDistinct()
	n, mism, samples, ncls := 0, 0, 0, 0
	suts := map[string]*sut{}
	perCls := map[string]int{}
	for bi, raw := range lines {
		var b []step
		if err := json.Unmarshal(raw, &b); err != nil {
			vtrace.Broken(fmt.Sprintf("behaviour line %d: %v", bi+1, err))
			return
		}
		if len(b) < 2 || b[0].A != "New" {
			vtrace.Broken(fmt.Sprintf("behaviour %d does not start with New", bi))
			return
		}
		c, cj := cfgFromJSON(b[0].In)
		// one real object per (configuration, epoch history); queries do not change its state
		key := fmt.Sprint(cj)
		for _, st := range b[1:] {
			if st.A == "Epoch" {
				key += fmt.Sprint("/", vtrace.Int(st.In["e"]))
			}
		}
		s, cached := suts[key]
		if !cached {
			s, err = newSut(c)
			if err != nil {
				vtrace.Broken(fmt.Sprintf("NewEconomicsData(%v): %v", c, err))
				return
			}
			suts[key] = s
		}
		evs := []ev{{"New", cj, M{"x": 0}}}
		var last step
		ok, cls := true, "none"
		flagsKey := ""
		for _, st := range b[1:] {
			if st.A == "Epoch" {
				if !cached {
					s.epochConfirmed(uint32(vtrace.Int(st.In["e"])))
				}
				evs = append(evs, ev{"Epoch", M{"e": vtrace.Int(st.In["e"])}, M{"x": 0}})
				flagsKey = fmt.Sprint(vtrace.Int(st.In["e"]))
				continue
			}
			o := s.query(st.A, st.In)
			got := o.out()
			evs = append(evs, ev{st.A, st.In, got})
			n++
			last = st
			cls = st.Cls
			if cls == "none" && !sameOut(st.Out, got) {
				ok = false
			}
			distinct.Add(fmt.Sprint(cj, flagsKey, st.A, st.In))
			branches.Add(fmt.Sprint(c.PenEpoch, c.ModEpoch, flagsKey, branch(st.A, st.In, got)))
		}
		if tooBig {
			vtrace.Broken(fmt.Sprintf("behaviour %d: a result does not fit TLC's 32-bit integers", bi))
			return
		}
		switch {
		case !ok:
			mism++
			if mism <= 3 {
				vtrace.Drift(os.Getenv("VERIF_PROP"), fmt.Sprintf("economicsData differs from Fees.tla on %s %v: real %v, specification %v (cfg %v) -- judged by TLC on the observed record",
					last.A, last.In, evs[len(evs)-1].out, last.Out, cj), nil)
			}
			if mism <= 3000 {
				writeTrace(wm, evs)
			}
		case cls != "none":
			ncls++
			perCls[cls]++
			if perCls[cls] <= 150 || perCls[cls]%clsEvery == 0 { // all of them are evaluated; a sample goes to TLC
				writeTrace(wc, evs)
			}
		case every > 0 && bi%every == 0:
			writeTrace(wc, evs)
		}
		if samples < 2 && len(b) >= 3 && bi%97 == 0 {
			samples++
			vtrace.Sample(os.Getenv("VERIF_PROP"), M{"cfg": cj, "epochs_then_query": last.A, "in": last.In,
				"real_out": evs[len(evs)-1].out, "spec_out": last.Out})
		}
	}
	if err := wm.Close(); err != nil {
		vtrace.Broken(err.Error())
	}
	if err := wc.Close(); err != nil {
		vtrace.Broken(err.Error())
	}
	vtrace.Stat("behaviours", len(lines))
	vtrace.Stat("queries", n)
	vtrace.Stat("mismatches", mism)
	vtrace.Stat("mismatch_events", wm.N)
	vtrace.Stat("class_cases", ncls)
	vtrace.Stat("class_events", wc.N)
	vtrace.Stat("distinct", distinct.Len())
	vtrace.Stat("branches", branches.Len())
}

// ---------------------------------------------------------------- random traces within TLC's integer range

func record(seed int64, traces, n int, out string, kinds string) {
	kindIdx := []int{}
	for i, k := range []string{"Fee", "GasUsed", "Refund", "Balance"} {
		if kinds == "" || strings.Contains(kinds, k) {
			kindIdx = append(kindIdx, i)
		}
	}
	w, err := vtrace.NewWriter(out)
	if err != nil {
		vtrace.Broken(err.Error())
		return
	}
	rng := rand.New(rand.NewSource(seed))
	branches := vtrace.NewDistinct()
	queries := 0
	dens := []int{1, 2, 3, 4, 5, 7, 10, 20, 50, 100}
	for t := 0; t < traces; t++ {
		den := dens[rng.Intn(len(dens))]
		num := 1 + rng.Intn(den)
		minPrice := 1 + rng.Intn(60)
		for minPrice*num/den < 1 { // stated assumption: minGasPrice * modifier >= 1
			minPrice++
		}
		minLimit := rng.Intn(400)
		perByte := rng.Intn(12)
		maxGas := minLimit + 1 + rng.Intn(400000)
		supply := []int{1, 255, 256, 70000, 1000000, 16777216}[rng.Intn(6)]
		cj := M{"minPrice": minPrice, "minLimit": minLimit, "perByte": perByte, "maxGas": maxGas, "num": num, "den": den,
			"penEpoch": rng.Intn(4), "modEpoch": rng.Intn(4), "supply": supply}
		c, _ := cfgFromJSON(cj)
		s, err := newSut(c)
		if err != nil {
			vtrace.Broken(fmt.Sprintf("NewEconomicsData(%v): %v", cj, err))
			return
		}
		w.NewTraceWith("New", cj, M{"x": 0}, M{})
		maxPrice := math.MaxInt32 / (maxGas + 2) // keeps gasLimit * gasPrice below 2^31
		if maxPrice > 4000 {
			maxPrice = 4000
		}
		epoch := 0
		for i := 0; i < n; i++ {
			if rng.Intn(8) == 0 {
				epoch = rng.Intn(5)
				s.epochConfirmed(uint32(epoch))
				w.Emit("Epoch", M{"e": epoch}, M{"x": 0}, M{})
				continue
			}
			// a transaction around the interesting boundaries
			tx := txT{Value: big.NewInt(0)}
			switch rng.Intn(10) {
			case 0:
				tx.Price = uint64(minPrice - 1)
			case 1, 2:
				tx.Price = uint64(minPrice)
			default:
				tx.Price = uint64(minPrice + rng.Intn(maxPrice))
			}
			if int(tx.Price) > maxPrice {
				tx.Price = uint64(maxPrice)
			}
			tx.Dl = rng.Intn(40)
			kind := kindIdx[rng.Intn(len(kindIdx))]
			if kind == 2 && rng.Intn(2) == 0 {
				for !builtInLenOK(tx.Dl) {
					tx.Dl++
				}
				tx.Bi = uint64(1 + rng.Intn(3000))
			}
			moveGas := minLimit + tx.Dl*perByte
			switch rng.Intn(8) {
			case 0:
				tx.Gl = uint64(moveGas)
			case 1:
				tx.Gl = uint64(moveGas + 1)
			case 2:
				if moveGas > 0 {
					tx.Gl = uint64(moveGas - 1)
				}
			case 3:
				tx.Gl = uint64(maxGas - 1 + rng.Intn(3))
			case 4:
				tx.Gl = uint64(moveGas + int(tx.Bi) + rng.Intn(3) - 1 + rng.Intn(2)*10*(moveGas+int(tx.Bi)))
			default:
				tx.Gl = uint64(rng.Intn(maxGas + 1))
			}
			if int(tx.Gl) > maxGas+1 {
				tx.Gl = uint64(maxGas + 1)
			}
			if kind == 0 || rng.Intn(4) == 0 {
				tx.Value = big.NewInt(int64([]int{0, 1, supply - 1, supply, supply + 1, 256 * supply, rng.Intn(supply + 1)}[rng.Intn(7)]))
			}
			var a string
			var in M
			var o feeObs
			switch kind {
			case 0:
				tx.Scr = tx.Bi == 0 && rng.Intn(4) == 0
				a, in = "Fee", M{"tx": txJSON(tx)}
				o = s.qFee(tx)
			case 1:
				g2 := uint64(rng.Intn(int(tx.Gl) + 1))
				if rng.Intn(3) == 0 {
					g2 = tx.Gl
				}
				g1 := uint64(rng.Intn(int(g2) + 1))
				if rng.Intn(4) == 0 && int(g2) >= moveGas {
					g1 = uint64(moveGas)
				}
				a, in = "GasUsed", M{"tx": txJSON(tx), "g1": int(g1), "g2": int(g2)}
				o = s.qGasUsed(tx, g1, g2)
			case 2:
				full := s.qFee(tx)
				if full.pp < 1 {
					continue // outside the stated assumption (the real code would divide by zero)
				}
				maxR := new(big.Int).Sub(full.fee, full.moveFee)
				r := big.NewInt(0)
				if maxR.Sign() > 0 && tx.Bi == 0 {
					switch rng.Intn(4) {
					case 0:
						r.Set(maxR)
					case 1:
						r.SetInt64(1)
					default:
						r.SetInt64(rng.Int63n(maxR.Int64() + 1))
					}
				}
				a, in = "Refund", M{"tx": txJSON(tx), "r": small(r)}
				o = s.qRefund(tx, r)
			case 3:
				if tx.Price < 1 || s.qFee(tx).pp < 1 {
					continue
				}
				tx.Gl = 0
				mf := int(tx.Price) * moveGas
				v := int(tx.Value.Int64())
				bal := []int{0, v, v + 1, v + mf - 1, v + mf, v + mf + 1, v + mf + rng.Intn(1000000), rng.Intn(2000000000)}[rng.Intn(8)]
				if bal < 0 || bal > 2000000000 {
					bal = 2000000000
				}
				a, in = "Balance", M{"tx": txJSON(tx), "bal": bal}
				o = s.qBalance(tx, big.NewInt(int64(bal)))
			}
			got := o.out()
			if tooBig {
				tooBig = false
				continue // result outside TLC's integer range: not logged (counted below)
			}
			w.Emit(a, in, got, M{})
			queries++
			branches.Add(fmt.Sprint(epoch >= int(c.PenEpoch), epoch >= int(c.ModEpoch), branch(a, in, got)))
		}
	}
	if err := w.Close(); err != nil {
		vtrace.Broken(err.Error())
	}
	vtrace.Stat("events", w.N)
	vtrace.Stat("queries", queries)
	vtrace.Stat("traces", traces)
	vtrace.Stat("branches", branches.Len())
}

// ---------------------------------------------------------------- supplementary: real-scale numbers, inequalities in Go

func bigRand(rng *rand.Rand, max *big.Int) *big.Int {
	if max.Sign() <= 0 {
		return big.NewInt(0)
	}
	return new(big.Int).Rand(rng, new(big.Int).Add(max, big.NewInt(1)))
}

func realScale(seed int64, n int) {
	rng := rand.New(rand.NewSource(seed))
	viol := map[string]int{}
	report := func(prop, inv string, det M) {
		sig := prop + "/real-scale/" + inv
		viol[sig]++
		if viol[sig] == 1 {
			vtrace.Violation(prop, sig, fmt.Sprintf("%s is false on the real economicsData at main-net scale: %v", inv, det), det)
		}
	}
	cases := 0
	mods := []float64{1, 0.5, 0.01, 0.1, 0.25, 0.3333333, 0.07, 0.29, 0.999}
	for i := 0; i < n; i++ {
		c := cfgT{MinPrice: 1000000000, MinLimit: 50000, PerByte: 1500, MaxGas: 1500000000,
			Modifier: mods[rng.Intn(len(mods))], PenEpoch: uint32(rng.Intn(3)), ModEpoch: uint32(rng.Intn(3)),
			Supply: "20000000000000000000000000"}
		if rng.Intn(3) == 0 {
			c.MinPrice = uint64(100 + rng.Intn(1000000))
			c.MinLimit = uint64(rng.Intn(100000))
			c.PerByte = uint64(rng.Intn(3000))
			c.Modifier = 0.01 + rng.Float64()*0.99
		}
		s, err := newSut(c)
		if err != nil {
			vtrace.Broken(err.Error())
			return
		}
		for e := 0; e < 3; e++ {
			s.epochConfirmed(uint32(e))
			legacy := uint32(e) < c.PenEpoch && uint32(e) < c.ModEpoch
			for k := 0; k < 12; k++ {
				tx := txT{Price: c.MinPrice + uint64(rng.Int63n(int64(c.MinPrice)*20)), Dl: rng.Intn(2000), Value: big.NewInt(0)}
				moveGas := c.MinLimit + uint64(tx.Dl)*c.PerByte
				tx.Gl = moveGas + uint64(rng.Int63n(int64(c.MaxGas-moveGas)))
				if rng.Intn(4) == 0 {
					tx.Gl = moveGas
				}
				tx.Value = bigRand(rng, big.NewInt(0).Exp(big.NewInt(10), big.NewInt(int64(rng.Intn(25))), nil))
				cases++
				det := M{"cfg": fmt.Sprintf("%+v", c), "epoch": e, "tx": fmt.Sprintf("%+v value=%s", tx, tx.Value)}
				f := s.qFee(tx)
				if f.valid != "ok" {
					continue
				}
				if f.moveFee.Cmp(f.fee) > 0 || f.fee.Cmp(f.glTimesPrice) > 0 {
					report("C21", "Inv_C21_FeeBounds", det)
				}
				g2 := moveGas + uint64(rng.Int63n(int64(tx.Gl-moveGas)+1))
				g1 := uint64(rng.Int63n(int64(g2) + 1))
				gu := s.qGasUsed(tx, g1, g2)
				if gu.f1.Cmp(gu.f2) > 0 {
					report("C21", "Inv_C21_GasUsedMonotone", det)
				}
				if gu.f2.Cmp(gu.full) > 0 {
					if legacy {
						report("C21", "Inv_C21_GasUsedBelowFull/legacy-flags-off", det)
					} else {
						report("C21", "Inv_C21_GasUsedBelowFull", det)
					}
				}
				if f.pp >= 1 {
					r := bigRand(rng, new(big.Int).Sub(f.fee, f.moveFee))
					ro := s.qRefund(tx, r)
					if ro.gasUsed > tx.Gl {
						report("C21", "Inv_C21_GasUsedReported", det)
					}
					if r.Sign() > 0 && new(big.Int).Sub(ro.full, r).Cmp(ro.fee) != 0 || r.Sign() == 0 && ro.fee.Cmp(ro.full) > 0 {
						report("C21", "Inv_C21_RefundExact", det)
					}
					bal := new(big.Int).Add(tx.Value, bigRand(rng, new(big.Int).Mul(f.fee, big.NewInt(3))))
					bo := s.qBalance(tx, bal)
					if bo.errc == "ok" && bo.feeAt.Cmp(new(big.Int).Sub(bal, tx.Value)) > 0 {
						d2 := M{"balance": bal.String(), "gasLimit": bo.gl, "feeAt": bo.feeAt.String()}
						for k, v := range det {
							d2[k] = v
						}
						report("C22", "Inv_C22_Affordable", d2)
					}
				}
			}
		}
	}
	vtrace.Stat("real_scale_cases", cases)
	for sig, c := range viol {
		vtrace.Stat("real_scale_violations:"+sig, c)
	}
}

func main() {
	vtrace.Quiet()
	if len(os.Args) < 2 {
		fmt.Fprintln(os.Stderr, "usage: vh-fees eval|record|real ...")
		os.Exit(2)
	}
	atoi := func(s string) int { n, _ := strconv.Atoi(s); return n }
	switch os.Args[1] {
	case "eval":
		eval(os.Args[2], os.Args[3], os.Args[4], atoi(os.Args[5]), atoi(os.Args[6]))
	case "record":
		kinds := ""
		if len(os.Args) > 6 {
			kinds = os.Args[6]
		}
		record(int64(atoi(os.Args[2])), atoi(os.Args[3]), atoi(os.Args[4]), os.Args[5], kinds)
	case "real":
		realScale(int64(atoi(os.Args[2])), atoi(os.Args[3]))
	case "probe":
		fmt.Println(hex.EncodeToString([]byte(builtInData(atoi(os.Args[2])))))
	default:
		os.Exit(2)
	}
}
