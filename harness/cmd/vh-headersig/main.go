// vh-headersig binds specs/HeaderSig (property C17) to the real process/headerCheck.HeaderSigVerifier
// wired with the real BLS multi-signer (crypto/signing/multisig + mcl), the real protobuf marshalizer and
// blake2b hasher, a stub nodes coordinator returning the consensus group and the REAL fallback header validator
// (fallback.NewFallbackHeaderValidator over a headers pool stub / storage holding the previous headers).
//
//	vh-headersig replay <cases.ndjson>             TLC-enumerated headers (n, bitmap, fallback, who really signed) with the
//	                                               specification's verdict -> real VerifySignature, compare
//	vh-headersig record <seed> <cases> <out>       random headers (group sizes up to 70) on the real verifier -> trace
//	                                               for Trace_HeaderSig (TLC evaluates the property on every observed result)
//
// No model logic here: who signed (sg/fg), the expected class and the quorum predicate come from TLA+.
package main

import (
	"errors"
	"fmt"
	"math/big"
	"math/rand"
	"os"
	"runtime"
	"sort"
	"strconv"
	"strings"
	"sync"

	"github.com/ElrondNetwork/elrond-go/core"
	"github.com/ElrondNetwork/elrond-go/crypto"
	"github.com/ElrondNetwork/elrond-go/crypto/signing"
	"github.com/ElrondNetwork/elrond-go/crypto/signing/mcl"
	mclmultisig "github.com/ElrondNetwork/elrond-go/crypto/signing/mcl/multisig"
	mclsinglesig "github.com/ElrondNetwork/elrond-go/crypto/signing/mcl/singlesig"
	"github.com/ElrondNetwork/elrond-go/crypto/signing/multisig"
	"github.com/ElrondNetwork/elrond-go/data"
	"github.com/ElrondNetwork/elrond-go/data/block"
	"github.com/ElrondNetwork/elrond-go/dataRetriever"
	drmock "github.com/ElrondNetwork/elrond-go/dataRetriever/mock"
	"github.com/ElrondNetwork/elrond-go/fallback"
	"github.com/ElrondNetwork/elrond-go/hashing"
	"github.com/ElrondNetwork/elrond-go/hashing/blake2b"
	"github.com/ElrondNetwork/elrond-go/marshal"
	"github.com/ElrondNetwork/elrond-go/process"
	"github.com/ElrondNetwork/elrond-go/process/headerCheck"
	"github.com/ElrondNetwork/elrond-go/process/mock"
	"github.com/ElrondNetwork/elrond-go/testscommon/genericMocks"
	"verif/harness/internal/vtrace"
)

type M = vtrace.M

const prop = "C17"

var (
	suite      = mcl.NewSuiteBLS12()
	keyGen     = signing.NewKeyGenerator(suite)
	marsh      = &marshal.GogoProtoMarshalizer{}
	hasher     hashing.Hasher
	llSigner   crypto.LowLevelSignerBLS
	foreignMsg = []byte("a message that is not the header hash")
)

// group is one consensus group of size n with everything that depends only on n.
type group struct {
	n        int
	sks      []crypto.PrivateKey
	pubKeys  []string
	verifier *headerCheck.HeaderSigVerifier
	msg      map[string][]byte          // header kind -> signed message (hash of the header without signatures)
	shares   map[string][][]byte        // message key -> share per member
	aggCache map[string][]byte          // (message key, signer set) -> aggregated signature
	aggr     crypto.MultiSigner         // aggregator
	signers  map[int]crypto.MultiSigner // member -> multisigner holding its private key
}

var groups = map[int]*group{}

func must(err error) {
	if err != nil {
		vtrace.Broken("harness: " + err.Error())
		panic(err)
	}
}

func newGroup(n int) *group {
	g := &group{n: n, msg: map[string][]byte{}, shares: map[string][][]byte{}, aggCache: map[string][]byte{},
		signers: map[int]crypto.MultiSigner{}}
	for i := 0; i < n; i++ {
		sk, pk := keyGen.GeneratePair()
		b, err := pk.ToByteArray()
		must(err)
		g.sks = append(g.sks, sk)
		g.pubKeys = append(g.pubKeys, string(b))
	}
	ms, err := multisig.NewBLSMultisig(llSigner, g.pubKeys, g.sks[0], keyGen, 0)
	must(err)
	g.aggr = ms
	nc := &mock.NodesCoordinatorMock{
		GetValidatorsPublicKeysCalled: func(randomness []byte, round uint64, shardId uint32, epoch uint32) ([]string, error) {
			return append([]string(nil), g.pubKeys...), nil
		},
	}
	// the verifier's own multisigner instance: only Create(pubKeys, 0) is called on it
	vms, err := multisig.NewBLSMultisig(llSigner, g.pubKeys[:1], g.sks[0], keyGen, 0)
	must(err)
	v, err := headerCheck.NewHeaderSigVerifier(&headerCheck.ArgsHeaderSigVerifier{
		Marshalizer:             marsh,
		Hasher:                  hasher,
		NodesCoordinator:        nc,
		MultiSigVerifier:        vms,
		SingleSigVerifier:       &mclsinglesig.BlsSingleSigner{},
		KeyGen:                  keyGen,
		FallbackHeaderValidator: fallbackValidator,
	})
	must(err)
	g.verifier = v
	return g
}

func getGroup(n int) *group {
	g, ok := groups[n]
	if !ok {
		g = newGroup(n)
		groups[n] = g
	}
	return g
}

// ---- header kinds (what the fallback validator looks at); the table comes from TLA+ (in.hk)

const headerRound = 1000

type hkind struct {
	meta, soe bool
	prev      string // "present" (headers pool) | "storage" | "missing" | "wrongtype" (a shard header under that hash)
	dr        int    // header round - previous header round (signed)
}

func (k hkind) String() string { return fmt.Sprintf("%v/%v/%s/%d", k.meta, k.soe, k.prev, k.dr) }
func (k hkind) rec() M         { return M{"meta": k.meta, "soe": k.soe, "prev": k.prev, "dr": k.dr} }

func kindOf(v interface{}) hkind {
	m := v.(map[string]interface{})
	return hkind{meta: m["meta"].(bool), soe: m["soe"].(bool), prev: vtrace.Str(m["prev"]), dr: vtrace.Int(m["dr"])}
}

// previous headers: a pool stub and a storage mock shared by every verifier; filled while the cases are built
var (
	prevMu      sync.RWMutex
	prevPool    = map[string]data.HeaderHandler{}
	prevStorage = genericMocks.NewChainStorerMock(0)
	headersPool = &drmock.HeadersCacherStub{GetHeaderByHashCalled: func(hash []byte) (data.HeaderHandler, error) {
		prevMu.RLock()
		defer prevMu.RUnlock()
		if h, ok := prevPool[string(hash)]; ok {
			return h, nil
		}
		return nil, errors.New("header not in pool")
	}}
	fallbackValidator process.FallbackHeaderValidator
)

// prevHashFor registers the previous header of a header kind and returns the PrevHash to put into the header
func prevHashFor(k hkind) []byte {
	hash := []byte("prev/" + k.prev + "/" + strconv.Itoa(k.dr))
	prevMu.Lock()
	defer prevMu.Unlock()
	if _, ok := prevPool["seen/"+string(hash)]; ok {
		return hash
	}
	prevPool["seen/"+string(hash)] = nil
	prevMeta := &block.MetaBlock{Nonce: 6, Round: uint64(headerRound - k.dr), Epoch: 0, PrevRandSeed: []byte("pprs"), RandSeed: []byte("prs"),
		AccumulatedFees: big.NewInt(0), AccumulatedFeesInEpoch: big.NewInt(0), DeveloperFees: big.NewInt(0), DevFeesInEpoch: big.NewInt(0)}
	switch k.prev {
	case "present":
		prevPool[string(hash)] = prevMeta
	case "wrongtype":
		prevPool[string(hash)] = &block.Header{Nonce: 6, Round: uint64(headerRound - k.dr), AccumulatedFees: big.NewInt(0), DeveloperFees: big.NewInt(0)}
	case "storage":
		buff, err := marsh.Marshal(prevMeta)
		must(err)
		must(prevStorage.Put(dataRetriever.MetaBlockUnit, hash, buff))
	}
	return hash
}

func newHeader(k hkind) data.HeaderHandler {
	prevHash := prevHashFor(k)
	if k.meta {
		h := &block.MetaBlock{Nonce: 7, Round: headerRound, Epoch: 1, PrevRandSeed: []byte("prev rand seed"), RandSeed: []byte("rand seed"),
			PrevHash: prevHash, RootHash: []byte("root"), ChainID: []byte("1"), AccumulatedFees: big.NewInt(0),
			AccumulatedFeesInEpoch: big.NewInt(0), DeveloperFees: big.NewInt(0), DevFeesInEpoch: big.NewInt(0)}
		if k.soe {
			h.EpochStart.LastFinalizedHeaders = []block.EpochStartShardData{{ShardID: 0, Epoch: 0, Round: 900, Nonce: 5, HeaderHash: []byte("hh")}}
		}
		return h
	}
	h := &block.Header{Nonce: 7, Round: headerRound, Epoch: 1, ShardID: 1, PrevRandSeed: []byte("prev rand seed"), RandSeed: []byte("rand seed"),
		PrevHash: prevHash, RootHash: []byte("root"), ChainID: []byte("1"), AccumulatedFees: big.NewInt(0),
		DeveloperFees: big.NewInt(0)}
	if k.soe {
		h.EpochStartMetaHash = []byte("epoch start meta hash")
	}
	return h
}

// message signed by the consensus group for a header: hash of the header without signature, bitmap, leader signature
func (g *group) message(kind hkind) []byte {
	if m, ok := g.msg[kind.String()]; ok {
		return m
	}
	h := newHeader(kind).Clone()
	h.SetSignature(nil)
	h.SetPubKeysBitmap(nil)
	h.SetLeaderSignature(nil)
	m, err := core.CalculateHash(marsh, hasher, h)
	must(err)
	g.msg[kind.String()] = m
	return m
}

func (g *group) share(key string, msg []byte, i int) []byte {
	sh, ok := g.shares[key]
	if !ok {
		sh = make([][]byte, g.n)
		g.shares[key] = sh
	}
	if sh[i] == nil {
		s, ok := g.signers[i]
		if !ok {
			var err error
			s, err = multisig.NewBLSMultisig(llSigner, g.pubKeys, g.sks[i], keyGen, uint16(i))
			must(err)
			g.signers[i] = s
		}
		b, err := s.CreateSignatureShare(msg, nil)
		must(err)
		sh[i] = b
	}
	return sh[i]
}

// aggregate the shares of exactly the members in set over msg (the real AggregateSigs with a bitmap encoding the set)
func (g *group) aggregate(key string, msg []byte, set []int) []byte {
	ck := key + "|" + fmt.Sprint(set)
	if a, ok := g.aggCache[ck]; ok {
		return a
	}
	must(g.aggr.Reset(g.pubKeys, 0))
	bm := make([]byte, (g.n+7)/8)
	for _, i := range set {
		must(g.aggr.StoreSignatureShare(uint16(i), g.share(key, msg, i)))
		bm[i/8] |= 1 << uint(i%8)
	}
	a, err := g.aggr.AggregateSigs(bm)
	must(err)
	g.aggCache[ck] = a
	return a
}

// headerSignature builds header.Signature: aggregate of sg over the header hash; if nobody signed the header,
// the aggregate of fg over a foreign message; if that is empty too, a lone share over the foreign message.
func (g *group) headerSignature(kind hkind, sg, fg []int) []byte {
	if len(sg) > 0 {
		return g.aggregate(kind.String(), g.message(kind), sg)
	}
	if len(fg) > 0 {
		return g.aggregate("foreign", foreignMsg, fg)
	}
	return g.share("foreign", foreignMsg, 0)
}

func classify(err error) string {
	switch {
	case err == nil:
		return "ok"
	case errors.Is(err, process.ErrNilPubKeysBitmap):
		return "nilBitmap"
	case errors.Is(err, process.ErrBlockProposerSignatureMissing):
		return "leaderMissing"
	case errors.Is(err, headerCheck.ErrWrongSizeBitmap):
		return "wrongSize"
	case errors.Is(err, headerCheck.ErrNotEnoughSignatures):
		return "notEnough"
	}
	return "sigInvalid"
}

// build makes the header of a case (sequential: uses the signature caches)
func (g *group) build(kind hkind, bm []byte, sg, fg []int) data.HeaderHandler {
	h := newHeader(kind)
	h.SetPubKeysBitmap(bm)
	h.SetSignature(g.headerSignature(kind, sg, fg))
	h.SetLeaderSignature([]byte("leader signature"))
	return h
}

// verify runs the real VerifySignature (safe to call concurrently)
func (g *group) verify(h data.HeaderHandler) (string, error) {
	err := g.verifier.VerifySignature(h)
	return classify(err), err
}

func workers() int {
	w, _ := strconv.Atoi(os.Getenv("VERIF_WORKERS"))
	if w <= 0 {
		w = runtime.NumCPU()
	}
	if w > 8 {
		w = 8
	}
	return w
}

func toBytes(a []int) []byte {
	b := make([]byte, len(a))
	for i, x := range a {
		b[i] = byte(x)
	}
	return b
}

func replay(path string) {
	lines, err := vtrace.ReadBehaviours(path)
	must(err)
	distinct := vtrace.NewDistinct()
	vioCount := map[string]int{}
	driftCount := 0
	var cases, accepted, cryptoReached, accPadding, metaRuns, fbTrue int
	kindsSeen := vtrace.NewDistinct()
	byClass := map[string]int{}
	samples := 0
	type job struct {
		st   vtrace.Step
		g    *group
		kind hkind
		h    data.HeaderHandler
		fb   bool // the real fallback validator's own answer for this header
		got  string
		err  error
	}
	var jobs []*job
	for _, b := range lines {
		if len(b) == 0 {
			continue
		}
		st := b[len(b)-1]
		g := getGroup(vtrace.Int(st.In["n"]))
		kind := kindOf(st.In["hk"])
		if kind.meta {
			metaRuns++
		}
		kindsSeen.Add(kind.String())
		jobs = append(jobs, &job{st: st, g: g, kind: kind,
			h: g.build(kind, toBytes(vtrace.Ints(st.In["bm"])), vtrace.SortedInts(vtrace.Ints(st.In["sg"])),
				vtrace.SortedInts(vtrace.Ints(st.In["fg"])))})
	}
	// the real verifier, concurrently (every call builds its own multisigner through Create)
	var wg sync.WaitGroup
	ch := make(chan *job, 1024)
	for w := 0; w < workers(); w++ {
		wg.Add(1)
		go func() {
			defer wg.Done()
			for j := range ch {
				j.got, j.err = j.g.verify(j.h)
				j.fb = fallbackValidator.ShouldApplyFallbackValidation(j.h)
			}
		}()
	}
	for _, j := range jobs {
		ch <- j
	}
	close(ch)
	wg.Wait()
	for _, j := range jobs {
		st, kind, got, rerr, fb := j.st, j.kind, j.got, j.err, j.fb
		n := vtrace.Int(st.In["n"])
		bm := toBytes(vtrace.Ints(st.In["bm"]))
		sg := vtrace.SortedInts(vtrace.Ints(st.In["sg"]))
		fg := vtrace.SortedInts(vtrace.Ints(st.In["fg"]))
		quorum := st.Out["quorum"].(bool)
		cls := vtrace.Str(st.Out["cls"])
		{
			cases++
			byClass[got]++
			if fb {
				fbTrue++
			}
			if fb != st.Out["fallback"].(bool) {
				driftCount++
				if driftCount <= 3 {
					vtrace.Drift(prop, fmt.Sprintf("ShouldApplyFallbackValidation = %v for header kind %s; specification (documented condition): %v",
						fb, kind, st.Out["fallback"]), nil)
				}
			}
			if got == "ok" || got == "sigInvalid" {
				cryptoReached++
				distinct.Add(fmt.Sprintf("%d|%x|%s|%v|%v", n, bm, kind, sg, fg))
			}
			if got == "ok" {
				accepted++
				if vtrace.Int(st.Out["padding"]) > 0 {
					accPadding++
				}
			}
			detail := M{"n": n, "bitmap_hex": vtrace.Hex(bm), "real_ShouldApplyFallbackValidation": fb, "really_signed": sg, "foreign_signed": fg,
				"header_kind": kind.rec(), "real_result": got, "real_error": fmt.Sprint(rerr), "spec": st.Out}
			// the property: accepted only with a quorum of real contributors including the leader
			if got == "ok" && !quorum {
				sig := "C17/accepted-without-quorum/" + cls
				vioCount[sig]++
				if vioCount[sig] == 1 {
					vtrace.Violation(prop, sig, fmt.Sprintf(
						"VerifySignature accepted a header (metablock=%v startOfEpoch=%v previous=%s round-prevRound=%d; documented fallback "+
							"condition %v, real ShouldApplyFallbackValidation %v) although only %d member(s) %v of the %d-member consensus group "+
							"contributed to the aggregated signature (required %d incl. the leader): bitmap %x has %d member bit(s) and %d "+
							"padding bit(s)", kind.meta, kind.soe, kind.prev, kind.dr, st.Out["fallback"], fb, len(sg), sg, n, vtrace.Int(st.Out["thr"]), bm, vtrace.Int(st.Out["members"]),
						vtrace.Int(st.Out["padding"])), detail)
				}
			}
			// property-neutral: the real class is neither the intended nor the as-coded prediction
			if got != vtrace.Str(st.Out["resIntended"]) && got != vtrace.Str(st.Out["resAsCoded"]) {
				driftCount++
				if driftCount <= 3 {
					vtrace.Drift(prop, fmt.Sprintf("VerifySignature returned class %q (%v); specification predicts %q (intended) / %q (as coded) for n=%d bitmap=%x kind=%s signed=%v",
						got, rerr, st.Out["resIntended"], st.Out["resAsCoded"], n, bm, kind, sg), detail)
				}
			}
			if samples < 3 && got == "ok" && len(bm) > 1 {
				samples++
				vtrace.Sample(prop, M{"n": n, "bitmap_hex": vtrace.Hex(bm), "header_kind": kind.rec(), "signed": sg, "real": got,
					"spec_quorum": quorum, "spec_class": st.Out["resIntended"]})
			}
		}
	}
	if samples == 0 && len(lines) > 0 {
		st := lines[0][0]
		vtrace.Sample(prop, M{"in": st.In, "out": st.Out})
	}
	vtrace.Stat("behaviours", len(lines))
	vtrace.Stat("steps", cases)
	vtrace.Stat("meta_runs", metaRuns)
	vtrace.Stat("header_kinds", kindsSeen.Len())
	vtrace.Stat("real_fallback_true", fbTrue)
	vtrace.Stat("distinct", distinct.Len())
	vtrace.Stat("accepted", accepted)
	vtrace.Stat("accepted_with_padding_bits", accPadding)
	vtrace.Stat("crypto_reached", cryptoReached)
	vtrace.Stat("by_class", byClass)
	vtrace.Stat("violating_cases", vioCount)
	vtrace.Stat("drift_cases", driftCount)
}

// record: seeded random headers on the real verifier; the trace carries inputs + the real class only.
func record(seed int64, count int, out string) {
	r := rand.New(rand.NewSource(seed))
	w, err := vtrace.NewWriter(out)
	must(err)
	sizes := []int{1, 2, 3, 4, 5, 7, 8, 9, 10, 12, 15, 16, 17, 21, 23, 24, 25, 31, 33, 63, 64, 65, 70}
	w.NewTraceWith("New", M{}, M{}, M{})
	for c := 0; c < count; c++ {
		n := sizes[r.Intn(len(sizes))]
		exp := (n + 7) / 8
		L := exp
		if r.Intn(12) == 0 {
			L = exp + r.Intn(3) - 1
			if L < 0 {
				L = 0
			}
		}
		bm := make([]byte, L)
		// density chosen so that the count lands around the thresholds
		dens := []float64{0.45, 0.55, 0.62, 0.66, 0.7, 0.8, 1.0}[r.Intn(7)]
		for i := 0; i < 8*L; i++ {
			if r.Float64() < dens {
				bm[i/8] |= 1 << uint(i%8)
			}
		}
		if L > 0 && r.Intn(8) != 0 {
			bm[0] |= 1
		}
		if L == exp && L > 0 && n%8 != 0 {
			switch r.Intn(3) { // padding bits: as drawn / all clear / all set
			case 1:
				bm[L-1] &= byte(1<<uint(n%8)) - 1
			case 2:
				bm[L-1] |= ^(byte(1<<uint(n%8)) - 1)
			}
		}
		// header kind: mostly plain shard headers / metablocks, a third of the time a start-of-epoch metablock around the
		// fallback condition (round differences incl. negative ones, previous header missing / only in storage)
		kind := hkind{meta: r.Intn(2) == 0, soe: r.Intn(3) == 0, prev: "present", dr: 1 + r.Intn(3)}
		if r.Intn(3) == 0 {
			drs := []int{-700, -50, -1, 0, 1, 48, 49, 50, 51, 52, 100, 999}
			kind = hkind{meta: r.Intn(6) != 0, soe: r.Intn(6) != 0, prev: []string{"present", "present", "present", "storage", "missing", "wrongtype"}[r.Intn(6)],
				dr: drs[r.Intn(len(drs))]}
		}
		// who really signed: the driver picks any set of members; most of the time exactly those whose bit is set
		var sg, fg []int
		for i := 0; i < n && i < 8*L; i++ {
			if bm[i/8]&(1<<uint(i%8)) != 0 {
				sg = append(sg, i)
			}
		}
		switch r.Intn(10) {
		case 0:
			if len(sg) > 1 {
				k := r.Intn(len(sg))
				sg = append(append([]int(nil), sg[:k]...), sg[k+1:]...)
			}
		case 1:
			fg, sg = sg, nil
		case 2:
			sg = nil
			for i := 0; i < n; i++ {
				sg = append(sg, i)
			}
		}
		sort.Ints(sg)
		g := getGroup(n)
		h := g.build(kind, bm, sg, fg)
		got, _ := g.verify(h)
		fb := fallbackValidator.ShouldApplyFallbackValidation(h)
		ibm := make([]int, len(bm))
		for i := range bm {
			ibm[i] = int(bm[i])
		}
		if sg == nil {
			sg = []int{}
		}
		if fg == nil {
			fg = []int{}
		}
		w.Emit("Verify", M{"n": n, "bm": ibm, "hk": kind.rec(), "sg": sg, "fg": fg}, M{"res": got, "fallback": fb}, M{})
	}
	must(w.Close())
	vtrace.Stat("events", w.N)
	vtrace.Stat("traces", 1)
}

func main() {
	vtrace.Quiet()
	h, err := blake2b.NewBlake2bWithSize(multisig.BlsHashSize)
	must(err)
	llSigner = &mclmultisig.BlsMultiSigner{Hasher: h}
	hasher = blake2b.NewBlake2b()
	fv, err := fallback.NewFallbackHeaderValidator(headersPool, marsh, prevStorage)
	must(err)
	fallbackValidator = fv
	if len(os.Args) >= 2 && os.Args[1] == "config" {
		vtrace.Stat("MaxRoundsWithoutCommittedStartInEpochBlock", core.MaxRoundsWithoutCommittedStartInEpochBlock)
		return
	}
	if len(os.Args) < 3 {
		fmt.Fprintln(os.Stderr, "usage: vh-headersig replay <file> | record <seed> <cases> <out>")
		os.Exit(2)
	}
	switch os.Args[1] {
	case "replay":
		replay(os.Args[2])
	case "record":
		seed, _ := strconv.ParseInt(os.Args[2], 10, 64)
		cnt, _ := strconv.Atoi(os.Args[3])
		record(seed, cnt, os.Args[4])
	default:
		fmt.Fprintln(os.Stderr, "unknown mode "+strings.Join(os.Args[1:], " "))
		os.Exit(2)
	}
}
