// vh-headersig binds specs/HeaderSig (property C17) to the real process/headerCheck.HeaderSigVerifier
// wired with the real BLS multi-signer (crypto/signing/multisig + mcl), the real protobuf marshalizer and
// blake2b hasher, a stub nodes coordinator returning the consensus group and a stub fallback validator.
//
//	vh-headersig replay <cases.ndjson>             TLC-enumerated headers (n, bitmap, fallback, who really signed) with the
//	                                               specification's verdict -> real VerifySignature, compare
//	vh-headersig record <seed> <cases> <out>       random headers (group sizes up to 70) on the real verifier -> trace
//	                                               for Trace_HeaderSig (TLC evaluates the property on every observed result)
//
// No model logic here: who signed (sg/fg), the expected class and the quorum predicate come from TLA+.
package main

import (
	"errors"
	"fmt"
	"math/big"
	"math/rand"
	"os"
	"runtime"
	"sort"
	"strconv"
	"strings"
	"sync"

	"github.com/ElrondNetwork/elrond-go/core"
	"github.com/ElrondNetwork/elrond-go/crypto"
	"github.com/ElrondNetwork/elrond-go/crypto/signing"
	"github.com/ElrondNetwork/elrond-go/crypto/signing/mcl"
	mclmultisig "github.com/ElrondNetwork/elrond-go/crypto/signing/mcl/multisig"
	mclsinglesig "github.com/ElrondNetwork/elrond-go/crypto/signing/mcl/singlesig"
	"github.com/ElrondNetwork/elrond-go/crypto/signing/multisig"
	"github.com/ElrondNetwork/elrond-go/data"
	"github.com/ElrondNetwork/elrond-go/data/block"
	"github.com/ElrondNetwork/elrond-go/hashing"
	"github.com/ElrondNetwork/elrond-go/hashing/blake2b"
	"github.com/ElrondNetwork/elrond-go/marshal"
	"github.com/ElrondNetwork/elrond-go/process"
	"github.com/ElrondNetwork/elrond-go/process/headerCheck"
	"github.com/ElrondNetwork/elrond-go/process/mock"
	"github.com/ElrondNetwork/elrond-go/testscommon"
	"verif/harness/internal/vtrace"
)

type M = vtrace.M

const prop = "C17"

var (
	suite      = mcl.NewSuiteBLS12()
	keyGen     = signing.NewKeyGenerator(suite)
	marsh      = &marshal.GogoProtoMarshalizer{}
	hasher     hashing.Hasher
	llSigner   crypto.LowLevelSignerBLS
	foreignMsg = []byte("a message that is not the header hash")
)

// group is one consensus group of size n with everything that depends only on n.
type group struct {
	n        int
	sks      []crypto.PrivateKey
	pubKeys  []string
	verifier map[bool]*headerCheck.HeaderSigVerifier // fallback validator stub answer -> verifier
	msg      map[string][]byte                       // header kind -> signed message (hash of the header without signatures)
	shares   map[string][][]byte                     // message key -> share per member
	aggCache map[string][]byte                       // (message key, signer set) -> aggregated signature
	aggr     crypto.MultiSigner                      // aggregator
	signers  map[int]crypto.MultiSigner              // member -> multisigner holding its private key
}

var groups = map[int]*group{}

func must(err error) {
	if err != nil {
		vtrace.Broken("harness: " + err.Error())
		panic(err)
	}
}

func newGroup(n int) *group {
	g := &group{n: n, msg: map[string][]byte{}, shares: map[string][][]byte{}, aggCache: map[string][]byte{},
		signers: map[int]crypto.MultiSigner{}}
	for i := 0; i < n; i++ {
		sk, pk := keyGen.GeneratePair()
		b, err := pk.ToByteArray()
		must(err)
		g.sks = append(g.sks, sk)
		g.pubKeys = append(g.pubKeys, string(b))
	}
	ms, err := multisig.NewBLSMultisig(llSigner, g.pubKeys, g.sks[0], keyGen, 0)
	must(err)
	g.aggr = ms
	nc := &mock.NodesCoordinatorMock{
		GetValidatorsPublicKeysCalled: func(randomness []byte, round uint64, shardId uint32, epoch uint32) ([]string, error) {
			return append([]string(nil), g.pubKeys...), nil
		},
	}
	g.verifier = map[bool]*headerCheck.HeaderSigVerifier{}
	for _, fallback := range []bool{false, true} {
		answer := fallback
		fb := &testscommon.FallBackHeaderValidatorStub{
			ShouldApplyFallbackValidationCalled: func(_ data.HeaderHandler) bool { return answer },
		}
		// the verifier's own multisigner instance: only Create(pubKeys, 0) is called on it
		vms, err := multisig.NewBLSMultisig(llSigner, g.pubKeys[:1], g.sks[0], keyGen, 0)
		must(err)
		v, err := headerCheck.NewHeaderSigVerifier(&headerCheck.ArgsHeaderSigVerifier{
			Marshalizer:             marsh,
			Hasher:                  hasher,
			NodesCoordinator:        nc,
			MultiSigVerifier:        vms,
			SingleSigVerifier:       &mclsinglesig.BlsSingleSigner{},
			KeyGen:                  keyGen,
			FallbackHeaderValidator: fb,
		})
		must(err)
		g.verifier[answer] = v
	}
	return g
}

func getGroup(n int) *group {
	g, ok := groups[n]
	if !ok {
		g = newGroup(n)
		groups[n] = g
	}
	return g
}

func newHeader(kind string) data.HeaderHandler {
	if kind == "meta" {
		return &block.MetaBlock{Nonce: 7, Round: 9, Epoch: 1, PrevRandSeed: []byte("prev rand seed"), RandSeed: []byte("rand seed"),
			PrevHash: []byte("prev hash"), RootHash: []byte("root"), ChainID: []byte("1"), AccumulatedFees: big.NewInt(0),
			AccumulatedFeesInEpoch: big.NewInt(0), DeveloperFees: big.NewInt(0), DevFeesInEpoch: big.NewInt(0)}
	}
	return &block.Header{Nonce: 7, Round: 9, Epoch: 1, ShardID: 1, PrevRandSeed: []byte("prev rand seed"), RandSeed: []byte("rand seed"),
		PrevHash: []byte("prev hash"), RootHash: []byte("root"), ChainID: []byte("1"), AccumulatedFees: big.NewInt(0),
		DeveloperFees: big.NewInt(0)}
}

// message signed by the consensus group for a header: hash of the header without signature, bitmap, leader signature
func (g *group) message(kind string) []byte {
	if m, ok := g.msg[kind]; ok {
		return m
	}
	h := newHeader(kind).Clone()
	h.SetSignature(nil)
	h.SetPubKeysBitmap(nil)
	h.SetLeaderSignature(nil)
	m, err := core.CalculateHash(marsh, hasher, h)
	must(err)
	g.msg[kind] = m
	return m
}

func (g *group) share(key string, msg []byte, i int) []byte {
	sh, ok := g.shares[key]
	if !ok {
		sh = make([][]byte, g.n)
		g.shares[key] = sh
	}
	if sh[i] == nil {
		s, ok := g.signers[i]
		if !ok {
			var err error
			s, err = multisig.NewBLSMultisig(llSigner, g.pubKeys, g.sks[i], keyGen, uint16(i))
			must(err)
			g.signers[i] = s
		}
		b, err := s.CreateSignatureShare(msg, nil)
		must(err)
		sh[i] = b
	}
	return sh[i]
}

// aggregate the shares of exactly the members in set over msg (the real AggregateSigs with a bitmap encoding the set)
func (g *group) aggregate(key string, msg []byte, set []int) []byte {
	ck := key + "|" + fmt.Sprint(set)
	if a, ok := g.aggCache[ck]; ok {
		return a
	}
	must(g.aggr.Reset(g.pubKeys, 0))
	bm := make([]byte, (g.n+7)/8)
	for _, i := range set {
		must(g.aggr.StoreSignatureShare(uint16(i), g.share(key, msg, i)))
		bm[i/8] |= 1 << uint(i%8)
	}
	a, err := g.aggr.AggregateSigs(bm)
	must(err)
	g.aggCache[ck] = a
	return a
}

// headerSignature builds header.Signature: aggregate of sg over the header hash; if nobody signed the header,
// the aggregate of fg over a foreign message; if that is empty too, a lone share over the foreign message.
func (g *group) headerSignature(kind string, sg, fg []int) []byte {
	if len(sg) > 0 {
		return g.aggregate(kind, g.message(kind), sg)
	}
	if len(fg) > 0 {
		return g.aggregate("foreign", foreignMsg, fg)
	}
	return g.share("foreign", foreignMsg, 0)
}

func classify(err error) string {
	switch {
	case err == nil:
		return "ok"
	case errors.Is(err, process.ErrNilPubKeysBitmap):
		return "nilBitmap"
	case errors.Is(err, process.ErrBlockProposerSignatureMissing):
		return "leaderMissing"
	case errors.Is(err, headerCheck.ErrWrongSizeBitmap):
		return "wrongSize"
	case errors.Is(err, headerCheck.ErrNotEnoughSignatures):
		return "notEnough"
	}
	return "sigInvalid"
}

// build makes the header of a case (sequential: uses the signature caches)
func (g *group) build(kind string, bm []byte, sg, fg []int) data.HeaderHandler {
	h := newHeader(kind)
	h.SetPubKeysBitmap(bm)
	h.SetSignature(g.headerSignature(kind, sg, fg))
	h.SetLeaderSignature([]byte("leader signature"))
	return h
}

// verify runs the real VerifySignature (safe to call concurrently)
func (g *group) verify(h data.HeaderHandler, fb bool) (string, error) {
	err := g.verifier[fb].VerifySignature(h)
	return classify(err), err
}

func workers() int {
	w, _ := strconv.Atoi(os.Getenv("VERIF_WORKERS"))
	if w <= 0 {
		w = runtime.NumCPU()
	}
	if w > 8 {
		w = 8
	}
	return w
}

func toBytes(a []int) []byte {
	b := make([]byte, len(a))
	for i, x := range a {
		b[i] = byte(x)
	}
	return b
}

func replay(path string) {
	lines, err := vtrace.ReadBehaviours(path)
	must(err)
	distinct := vtrace.NewDistinct()
	vioCount := map[string]int{}
	driftCount := 0
	var cases, accepted, cryptoReached, accPadding, metaRuns int
	byClass := map[string]int{}
	samples := 0
	type job struct {
		st   vtrace.Step
		g    *group
		kind string
		h    data.HeaderHandler
		fb   bool
		got  string
		err  error
	}
	var jobs []*job
	for idx, b := range lines {
		if len(b) == 0 {
			continue
		}
		st := b[len(b)-1]
		g := getGroup(vtrace.Int(st.In["n"]))
		kinds := []string{"shard"}
		if idx%16 == 3 { // the same verifier serves metablocks: run a sample of the cases on a MetaBlock too
			kinds = append(kinds, "meta")
			metaRuns++
		}
		for _, kind := range kinds {
			jobs = append(jobs, &job{st: st, g: g, kind: kind, fb: st.In["fb"].(bool),
				h: g.build(kind, toBytes(vtrace.Ints(st.In["bm"])), vtrace.SortedInts(vtrace.Ints(st.In["sg"])),
					vtrace.SortedInts(vtrace.Ints(st.In["fg"])))})
		}
	}
	// the real verifier, concurrently (every call builds its own multisigner through Create)
	var wg sync.WaitGroup
	ch := make(chan *job, 1024)
	for w := 0; w < workers(); w++ {
		wg.Add(1)
		go func() {
			defer wg.Done()
			for j := range ch {
				j.got, j.err = j.g.verify(j.h, j.fb)
			}
		}()
	}
	for _, j := range jobs {
		ch <- j
	}
	close(ch)
	wg.Wait()
	for _, j := range jobs {
		st, kind, got, rerr, fb := j.st, j.kind, j.got, j.err, j.fb
		n := vtrace.Int(st.In["n"])
		bm := toBytes(vtrace.Ints(st.In["bm"]))
		sg := vtrace.SortedInts(vtrace.Ints(st.In["sg"]))
		fg := vtrace.SortedInts(vtrace.Ints(st.In["fg"]))
		quorum := st.Out["quorum"].(bool)
		cls := vtrace.Str(st.Out["cls"])
		{
			cases++
			byClass[got]++
			if got == "ok" || got == "sigInvalid" {
				cryptoReached++
				distinct.Add(fmt.Sprintf("%d|%x|%v|%v|%v", n, bm, fb, sg, fg))
			}
			if got == "ok" {
				accepted++
				if vtrace.Int(st.Out["padding"]) > 0 {
					accPadding++
				}
			}
			detail := M{"n": n, "bitmap_hex": vtrace.Hex(bm), "fallback": fb, "really_signed": sg, "foreign_signed": fg,
				"header": kind, "real_result": got, "real_error": fmt.Sprint(rerr), "spec": st.Out}
			// the property: accepted only with a quorum of real contributors including the leader
			if got == "ok" && !quorum {
				sig := "C17/accepted-without-quorum/" + cls
				vioCount[sig]++
				if vioCount[sig] == 1 {
					vtrace.Violation(prop, sig, fmt.Sprintf(
						"VerifySignature accepted a %s header although only %d member(s) %v of the %d-member consensus group "+
							"contributed to the aggregated signature (required %d incl. the leader): bitmap %x has %d member bit(s) and %d "+
							"padding bit(s)", kind, len(sg), sg, n, vtrace.Int(st.Out["thr"]), bm, vtrace.Int(st.Out["members"]),
						vtrace.Int(st.Out["padding"])), detail)
				}
			}
			// property-neutral: the real class is neither the intended nor the as-coded prediction
			if got != vtrace.Str(st.Out["resIntended"]) && got != vtrace.Str(st.Out["resAsCoded"]) {
				driftCount++
				if driftCount <= 3 {
					vtrace.Drift(prop, fmt.Sprintf("VerifySignature returned class %q (%v); specification predicts %q (intended) / %q (as coded) for n=%d bitmap=%x fallback=%v signed=%v",
						got, rerr, st.Out["resIntended"], st.Out["resAsCoded"], n, bm, fb, sg), detail)
				}
			}
			if samples < 3 && got == "ok" && len(bm) > 1 {
				samples++
				vtrace.Sample(prop, M{"n": n, "bitmap_hex": vtrace.Hex(bm), "fallback": fb, "signed": sg, "real": got,
					"spec_quorum": quorum, "spec_class": st.Out["resIntended"]})
			}
		}
	}
	if samples == 0 && len(lines) > 0 {
		st := lines[0][0]
		vtrace.Sample(prop, M{"in": st.In, "out": st.Out})
	}
	vtrace.Stat("behaviours", len(lines))
	vtrace.Stat("steps", cases)
	vtrace.Stat("meta_runs", metaRuns)
	vtrace.Stat("distinct", distinct.Len())
	vtrace.Stat("accepted", accepted)
	vtrace.Stat("accepted_with_padding_bits", accPadding)
	vtrace.Stat("crypto_reached", cryptoReached)
	vtrace.Stat("by_class", byClass)
	vtrace.Stat("violating_cases", vioCount)
	vtrace.Stat("drift_cases", driftCount)
}

// record: seeded random headers on the real verifier; the trace carries inputs + the real class only.
func record(seed int64, count int, out string) {
	r := rand.New(rand.NewSource(seed))
	w, err := vtrace.NewWriter(out)
	must(err)
	sizes := []int{1, 2, 3, 4, 5, 7, 8, 9, 10, 12, 15, 16, 17, 21, 23, 24, 25, 31, 33, 63, 64, 65, 70}
	w.NewTraceWith("New", M{}, M{}, M{})
	for c := 0; c < count; c++ {
		n := sizes[r.Intn(len(sizes))]
		exp := (n + 7) / 8
		L := exp
		if r.Intn(12) == 0 {
			L = exp + r.Intn(3) - 1
			if L < 0 {
				L = 0
			}
		}
		bm := make([]byte, L)
		// density chosen so that the count lands around the thresholds
		dens := []float64{0.45, 0.55, 0.62, 0.66, 0.7, 0.8, 1.0}[r.Intn(7)]
		for i := 0; i < 8*L; i++ {
			if r.Float64() < dens {
				bm[i/8] |= 1 << uint(i%8)
			}
		}
		if L > 0 && r.Intn(8) != 0 {
			bm[0] |= 1
		}
		if L == exp && L > 0 && n%8 != 0 {
			switch r.Intn(3) { // padding bits: as drawn / all clear / all set
			case 1:
				bm[L-1] &= byte(1<<uint(n%8)) - 1
			case 2:
				bm[L-1] |= ^(byte(1<<uint(n%8)) - 1)
			}
		}
		fb := r.Intn(4) == 0
		// who really signed: the driver picks any set of members; most of the time exactly those whose bit is set
		var sg, fg []int
		for i := 0; i < n && i < 8*L; i++ {
			if bm[i/8]&(1<<uint(i%8)) != 0 {
				sg = append(sg, i)
			}
		}
		switch r.Intn(10) {
		case 0:
			if len(sg) > 1 {
				k := r.Intn(len(sg))
				sg = append(append([]int(nil), sg[:k]...), sg[k+1:]...)
			}
		case 1:
			fg, sg = sg, nil
		case 2:
			sg = nil
			for i := 0; i < n; i++ {
				sg = append(sg, i)
			}
		}
		sort.Ints(sg)
		kind := "shard"
		if r.Intn(4) == 0 {
			kind = "meta"
		}
		g := getGroup(n)
		got, _ := g.verify(g.build(kind, bm, sg, fg), fb)
		ibm := make([]int, len(bm))
		for i := range bm {
			ibm[i] = int(bm[i])
		}
		if sg == nil {
			sg = []int{}
		}
		if fg == nil {
			fg = []int{}
		}
		w.Emit("Verify", M{"n": n, "bm": ibm, "fb": fb, "sg": sg, "fg": fg}, M{"res": got}, M{"kind": kind})
	}
	must(w.Close())
	vtrace.Stat("events", w.N)
	vtrace.Stat("traces", 1)
}

func main() {
	vtrace.Quiet()
	h, err := blake2b.NewBlake2bWithSize(multisig.BlsHashSize)
	must(err)
	llSigner = &mclmultisig.BlsMultiSigner{Hasher: h}
	hasher = blake2b.NewBlake2b()
	if len(os.Args) < 3 {
		fmt.Fprintln(os.Stderr, "usage: vh-headersig replay <file> | record <seed> <cases> <out>")
		os.Exit(2)
	}
	switch os.Args[1] {
	case "replay":
		replay(os.Args[2])
	case "record":
		seed, _ := strconv.ParseInt(os.Args[2], 10, 64)
		cnt, _ := strconv.Atoi(os.Args[3])
		record(seed, cnt, os.Args[4])
	default:
		fmt.Fprintln(os.Stderr, "unknown mode "+strings.Join(os.Args[1:], " "))
		os.Exit(2)
	}
}
