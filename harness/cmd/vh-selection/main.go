// vh-selection binds specs/Selection (C15) to the real code.
//
//	vh-selection replay <behaviours.ndjson> <trace-out>
//	    every TLC behaviour (weights, sample size, the residues of the picks) is run on the real
//	    sharding.selectorExpandedList with a scripted hasher; the call and its result are logged as a
//	    "Select" event for Trace_Selection (TLC compares with SelectAll and evaluates the C15 invariants).
//	vh-selection record <trace-out> <scenarios>
//	    real indexHashedNodesCoordinator / ...WithRater instances (LRU group cache, no cache, a fresh
//	    coordinator built from the observed lists, a coordinator restored from the boot storage) are driven
//	    through epochs with the real shuffler; ComputeConsensusGroup is called for many (randomness, round,
//	    shard, epoch); configurations and results are logged for Trace_Selection.
//	vh-selection concurrent <trace-out> <scenarios> <goroutines> <calls>
//	    G goroutines call ComputeConsensusGroup on ONE coordinator (no cache / a cache of 2 entries) for the same
//	    shard with a mix of identical and different (randomness, round); every result is compared with the
//	    result the same coordinator computed for that input alone beforehand; differing results and a sample of
//	    the others are logged as "ComputeC" events so that TLC evaluates the C15 invariants on them.
package main

import (
	"errors"
	"fmt"
	"math/rand"
	"os"
	"strconv"

	"github.com/ElrondNetwork/elrond-go/hashing/sha256"
	"github.com/ElrondNetwork/elrond-go/sharding"
	shmock "github.com/ElrondNetwork/elrond-go/sharding/mock"
	nc "verif/harness/families/nodescoord"
	"verif/harness/internal/vtrace"
)

type M = vtrace.M

func errName(err error) string {
	switch {
	case err == nil:
		return ""
	case errors.Is(err, sharding.ErrInvalidSampleSize):
		return "ErrInvalidSampleSize"
	case errors.Is(err, sharding.ErrInvalidWeight):
		return "ErrInvalidWeight"
	case errors.Is(err, sharding.ErrNilWeights):
		return "ErrNilWeights"
	case errors.Is(err, sharding.ErrNilRandomness):
		return "ErrNilRandomness"
	}
	return "other: " + err.Error()
}

func u32s(a []int) []uint32 {
	r := make([]uint32, len(a))
	for i := range a {
		r[i] = uint32(a[i])
	}
	return r
}

func ints(a []uint32) []int {
	r := make([]int, len(a))
	for i := range a {
		r[i] = int(a[i])
	}
	return r
}

func vals2res(b []vtrace.Step) []int {
	r := make([]int, 0, len(b))
	for _, st := range b[1:] {
		r = append(r, vtrace.Ints(st.In["r"])[3])
	}
	return r
}

// lcm(1..16): adding a multiple of it to a value changes no residue modulo 1..16 -- the scripted 64 bit
// values are spread over the whole uint64 range while realising the residues TLC chose.
const lcm16 = 720720

// selectOnce runs the real selector on scripted hash values and logs the event.
func selectOnce(w *vtrace.Writer, weights []int, size int, vals []uint64) (string, []int) {
	h := &nc.ScriptHasher{Vals: vals}
	var res []uint32
	var err error
	func() {
		defer func() {
			if r := recover(); r != nil {
				res, err = nil, fmt.Errorf("panic: %v", r)
			}
		}()
		var sel sharding.RandomSelector
		sel, err = sharding.NewSelectorExpandedList(u32s(weights), h)
		if err == nil {
			res, err = sel.Select([]byte("seed"), uint32(size))
		}
	}()
	used := h.Calls
	if used > len(vals) {
		used = len(vals)
	}
	out := ints(res)
	if out == nil {
		out = []int{}
	}
	w.Emit("Select", M{"w": weights, "size": size, "xs": nc.LimbsAll(vals[:used])}, M{"err": errName(err), "sel": out}, M{})
	return errName(err), out
}

func replay(path, out string) {
	w, err := vtrace.NewWriter(out)
	if err != nil {
		vtrace.Broken(err.Error())
		return
	}
	seed, _ := strconv.ParseInt(os.Getenv("VERIF_SEED"), 10, 64)
	rng := rand.New(rand.NewSource(seed))
	distinct := vtrace.NewDistinct()
	w.NewTrace()
	nerr, nsamples := 0, 0
	nb, err := nc.EachBehaviour(path, func(bi int, b []vtrace.Step) error {
		if len(b) == 0 || b[0].A != "New" {
			return fmt.Errorf("behaviour %d does not start with New", bi)
		}
		weights := vtrace.Ints(b[0].In["w"])
		size := vtrace.Int(b[0].In["size"])
		total := 0
		for _, x := range weights {
			total += x
		}
		if total > 16 {
			return fmt.Errorf("total weight above 16: residues would not be preserved by lcm16")
		}
		vals := make([]uint64, 0, len(b)-1)
		for _, st := range b[1:] {
			r := nc.FromLimbs(vtrace.Ints(st.In["r"]))
			t := rng.Uint64() % (1 << 44) // r + lcm16*t < 2^64
			if rng.Intn(4) == 0 {
				t = 0
			}
			vals = append(vals, r+lcm16*t)
		}
		e, sel := selectOnce(w, weights, size, vals)
		if e != "" {
			nerr++
		}
		if len(b) > 1 || e != "" {
			distinct.Add(fmt.Sprint(weights, size, vals2res(b)))
		}
		if (len(b) >= 4 && nsamples < 2) || (e != "" && nerr <= 1) {
			if e == "" {
				nsamples++
			}
			vtrace.Sample("C15", M{"weights": weights, "size": size, "hash_values": vals, "real_result": sel, "real_err": e})
		}
		return nil
	})
	if err != nil {
		vtrace.Broken(err.Error())
		return
	}
	if err := w.Close(); err != nil {
		vtrace.Broken(err.Error())
	}
	vtrace.Stat("behaviours", nb)
	vtrace.Stat("events", w.N)
	vtrace.Stat("error_cases", nerr)
	vtrace.Stat("distinct", distinct.Len())
}

// ---------------------------------------------------------------------------------------------------------

type node struct {
	class, kind, name string
	c                 nc.Coordinator
	h                 *nc.RecHasher
}

func (n *node) in(extra M) M {
	m := M{"class": n.class, "kind": n.kind, "node": n.name}
	for k, v := range extra {
		m[k] = v
	}
	return m
}

type scenario struct {
	nbShards            int
	shardSize, metaSize int
	perShard, perMeta   int // eligible list sizes
	waiting             int
	nodesShard          int // shuffler minimum per shard
	nodesMeta           int
	epochs              int
	fixEpoch            int
	lruSize             int
	calls               int
	table               []uint32
	intensity           int
}

// sizeOf is the CONFIGURED consensus group size (what the harness passed to the constructor).
func sizeOf(sc scenario, shard int) int {
	if shard == nc.MetaOut {
		return sc.metaSize
	}
	return sc.shardSize
}

func shardIDs(nb int) []int {
	r := make([]int, 0, nb+1)
	for i := 0; i < nb; i++ {
		r = append(r, i)
	}
	return append(r, nc.MetaOut)
}

func newShuffler(sc scenario) sharding.NodesShuffler {
	sh, err := sharding.NewHashValidatorsShuffler(&sharding.NodesShufflerArgs{
		NodesShard: uint32(sc.nodesShard), NodesMeta: uint32(sc.nodesMeta), Hysteresis: 0.2, Adaptivity: false,
		ShuffleBetweenShards: true, WaitingListFixEnableEpoch: uint32(sc.fixEpoch)})
	if err != nil {
		panic(err)
	}
	return sh
}

// logConfig emits the configuration a node holds for an epoch, read through the public API only.
func logConfig(w *vtrace.Writer, n *node, epoch int, sc scenario) bool {
	view := nc.View(n.c, epoch)
	if !view.OK {
		return false
	}
	reg, _ := nc.Registry(n.c)
	re, ok := reg[epoch]
	if !ok {
		return false
	}
	minch := int(n.c.GetChance(0))
	var cfg []M
	for _, s := range shardIDs(sc.nbShards) {
		ids := view.Eligible[s]
		ch := make([]int, len(ids))
		byID := map[int]int{}
		for _, v := range re.Eligible[s] {
			byID[v.ID] = v.Chances
		}
		for i, id := range ids {
			ch[i] = byID[id]
		}
		if ids == nil {
			ids = []int{}
		}
		cfg = append(cfg, M{"s": s, "elig": ids, "ch": ch, "minch": minch, "size": sizeOf(sc, s)})
	}
	w.Emit("Config", n.in(M{"epoch": epoch, "cfg": cfg}), M{}, M{})
	return true
}

func compute(w *vtrace.Writer, n *node, seeds *vtrace.Interner, rnd []byte, round uint64, shard, epoch int) (string, []int) {
	n.h.Arm()
	g, err := safeCompute(n.c, rnd, round, shard, epoch)
	vals := n.h.Disarm()
	group := nc.ValIDs(g)
	if group == nil {
		group = []int{}
	}
	e := ""
	if err != nil {
		e = "other: " + err.Error()
		if errors.Is(err, sharding.ErrInvalidSampleSize) {
			e = "ErrInvalidSampleSize"
		}
	}
	seed := seeds.ID([]byte(fmt.Sprintf("%d|%s", round, rnd)))
	w.Emit("Compute", n.in(M{"seed": seed, "epoch": epoch, "shard": shard, "xs": nc.LimbsAll(vals)}),
		M{"err": e, "group": group}, M{})
	return e, group
}

// safeCompute turns a panic of the real code into an error result (a valid request must yield a group).
func safeCompute(c nc.Coordinator, rnd []byte, round uint64, shard, epoch int) (g []sharding.Validator, err error) {
	defer func() {
		if r := recover(); r != nil {
			g, err = nil, fmt.Errorf("panic: %v", r)
		}
	}()
	return c.ComputeConsensusGroup(rnd, round, nc.ShardIn(shard), uint32(epoch))
}

func buildNode(sc scenario, class, kind, name string, elig, wait map[int][]nc.Val, epoch int, cache sharding.Cacher,
	bs *shmock.StorerMock) *node {
	h := &nc.RecHasher{Inner: sha256.NewSha256()}
	p := nc.Params{ShardSize: sc.shardSize, MetaSize: sc.metaSize, NbShards: sc.nbShards, Eligible: elig, Waiting: wait,
		Epoch: epoch, WaitingListFixEpoch: sc.fixEpoch, Shuffler: newShuffler(sc), Hasher: h, Cache: cache}
	if bs != nil {
		p.BootStorer = bs
	}
	if class == "rater" {
		p.Rater = &nc.Chances{Table: sc.table}
	}
	c, err := nc.Build(p)
	if err != nil {
		panic(fmt.Sprintf("building %s/%s: %v", class, kind, err))
	}
	return &node{class: class, kind: kind, name: name, c: c, h: h}
}

// valsOf rebuilds the lists of an epoch from the exported registry (pubkey, chances, index) -- the input a node
// that starts at that epoch gets from the epoch start bootstrap.
func valsOf(m map[int][]nc.RegVal) map[int][]nc.Val {
	r := map[int][]nc.Val{}
	for s, l := range m {
		for _, v := range l {
			r[s] = append(r[s], nc.Val{ID: v.ID, Chances: v.Chances, Index: v.Index})
		}
		if r[s] == nil {
			r[s] = []nc.Val{}
		}
	}
	return r
}

func runScenario(w *vtrace.Writer, rng *rand.Rand, sc scenario, class string, st *stats) {
	w.NewTrace()
	shards := shardIDs(sc.nbShards)
	elig, wait := map[int][]nc.Val{}, map[int][]nc.Val{}
	id := 0
	for _, s := range shards {
		n := sc.perShard
		if s == nc.MetaOut {
			n = sc.perMeta
		}
		for i := 0; i < n; i++ {
			id++
			elig[s] = append(elig[s], nc.Val{ID: id, Chances: 1 + rng.Intn(6), Index: i})
		}
		wait[s] = []nc.Val{}
		for i := 0; i < sc.waiting; i++ {
			id++
			wait[s] = append(wait[s], nc.Val{ID: id, Chances: 1 + rng.Intn(6), Index: i})
		}
	}
	bs := shmock.NewStorerMock()
	a := buildNode(sc, class, "lru", "A", elig, wait, 0, nc.NewLRU(sc.lruSize), bs)
	b := buildNode(sc, class, "none", "B", elig, wait, 0, nil, nil)
	nodes := []*node{a, b}
	peers := &nc.Peers{Acc: map[int]*nc.Info{}, NextID: id, Rng: rng, MaxRating: len(sc.table) - 1, LowRating: 2}
	seeds := vtrace.NewInterner()
	for _, n := range nodes {
		logConfig(w, n, 0, sc)
	}
	for epoch := 0; epoch <= sc.epochs; epoch++ {
		// nodes that join at this epoch: a fresh coordinator built from the lists of the epoch, and one that
		// restores node A's saved state from the boot storage
		reg, _ := nc.Registry(a.c)
		extra := []*node{}
		if re, ok := reg[epoch]; ok {
			f := buildNode(sc, class, "fresh", fmt.Sprintf("F%d", epoch), valsOf(re.Eligible), valsOf(re.Waiting), epoch, nil, nil)
			if logConfig(w, f, epoch, sc) {
				extra = append(extra, f)
			}
			if epoch > 0 {
				l := buildNode(sc, class, "loaded", fmt.Sprintf("L%d", epoch), elig, wait, 0, nil, bs)
				if err := l.c.LoadState(a.c.GetSavedStateKey()); err == nil {
					ok := true
					for e := epoch; e >= 0 && e > epoch-2; e-- {
						ok = logConfig(w, l, e, sc) && ok
					}
					if ok {
						extra = append(extra, l)
					}
				} else {
					vtrace.Broken("LoadState failed: " + err.Error())
				}
			}
		}
		// group computations for the current and the previous epoch; the same (randomness, round) is used for
		// several (shard, epoch) pairs
		for i := 0; i < sc.calls; i++ {
			rnd, round := randomSeed(rng)
			type pair struct{ shard, ep int }
			pairs := []pair{{shards[rng.Intn(len(shards))], epoch}}
			if rng.Intn(2) == 0 {
				pairs = append(pairs, pair{shards[rng.Intn(len(shards))], epoch})
			}
			if epoch > 0 && rng.Intn(2) == 0 {
				pairs = append(pairs, pair{pairs[0].shard, epoch - 1})
			}
			for _, pr := range pairs {
				computeOnAll(w, append(append([]*node{a, a, b}, extra...), a), seeds, rnd, round, pr.shard, pr.ep, epoch, sc, class, st)
			}
		}
		if epoch == sc.epochs {
			break
		}
		// next epoch: the metachain derives the validator infos from the current configuration
		peers.SaveNodesCoordinatorUpdates(nc.View(a.c, epoch), shards)
		peers.Events(sc.intensity, shards)
		infos := peers.Infos()
		seedRand := make([]byte, 32)
		rng.Read(seedRand)
		hdr := nc.Header(epoch+1, seedRand)
		for _, n := range nodes {
			n.c.EpochStartPrepare(hdr, nc.Body(infos))
		}
		for _, n := range nodes {
			if !logConfig(w, n, epoch+1, sc) {
				// the epoch could not be prepared (too few validators left): keep the old configuration
				st.failedPrepares++
				return
			}
		}
		if rng.Intn(3) == 0 {
			// the epoch start block is replaced by another proposal before it is committed: groups of the new
			// epoch were already computed (and cached), then EpochStartPrepare runs again with other contents
			rnd, round := randomSeed(rng)
			sh := shards[rng.Intn(len(shards))]
			computeOnAll(w, []*node{a, b, a}, seeds, rnd, round, sh, epoch+1, epoch+1, sc, class, st)
			peers.Events(sc.intensity, shards)
			rng.Read(seedRand)
			hdr = nc.Header(epoch+1, seedRand)
			body := nc.Body(peers.Infos())
			for _, n := range nodes {
				n.c.EpochStartPrepare(hdr, body)
			}
			for _, n := range nodes {
				logConfig(w, n, epoch+1, sc)
			}
			computeOnAll(w, []*node{a, b, a}, seeds, rnd, round, sh, epoch+1, epoch+1, sc, class, st)
			st.reprepares++
		}
		for _, n := range nodes {
			n.c.EpochStartAction(hdr)
		}
		st.epochs++
	}
}

func randomSeed(rng *rand.Rand) ([]byte, uint64) {
	rnd := make([]byte, 1+rng.Intn(32))
	rng.Read(rnd)
	if rng.Intn(6) == 0 { // printable, with the separators of the cache key / seed formats
		rnd = []byte([]string{"1_2", "7-3_0", "a_1_2_3", "0", "_", "-"}[rng.Intn(6)])
	}
	round := uint64(rng.Intn(5))
	if rng.Intn(3) == 0 {
		round = rng.Uint64()
	}
	return rnd, round
}

func computeOnAll(w *vtrace.Writer, ns []*node, seeds *vtrace.Interner, rnd []byte, round uint64, shard, ep, curEpoch int,
	sc scenario, class string, st *stats) {
	for k, n := range ns {
		if ep != curEpoch && n.kind == "fresh" {
			continue
		}
		e, g := compute(w, n, seeds, rnd, round, shard, ep)
		st.calls++
		if e == "" && k == 0 {
			size, listLen := sc.shardSize, sc.perShard
			if shard == nc.MetaOut {
				size, listLen = sc.metaSize, sc.perMeta
			}
			st.distinct.Add(fmt.Sprint(class, sc.nbShards, size, listLen, shard == nc.MetaOut, ep != curEpoch, fmt.Sprint(g)))
			if st.samples < 3 {
				st.samples++
				vtrace.Sample("C15", M{"class": class, "epoch": ep, "shard": shard, "round": round,
					"randomness": vtrace.Hex(rnd), "group_size": size, "group": g})
			}
		}
	}
}

type stats struct {
	calls, epochs, failedPrepares, samples, reprepares int
	distinct                                           *vtrace.Distinct
}

func record(out string, n int) {
	w, err := vtrace.NewWriter(out)
	if err != nil {
		vtrace.Broken(err.Error())
		return
	}
	seed, _ := strconv.ParseInt(os.Getenv("VERIF_SEED"), 10, 64)
	rng := rand.New(rand.NewSource(seed))
	st := &stats{distinct: vtrace.NewDistinct()}
	tables := [][]uint32{
		{5, 0, 0, 2, 8, 16, 17, 18, 20, 22, 24}, // production shape: rating 0 -> 5, low ratings -> 0 (< min chance)
		{1, 1, 2, 3, 4, 5, 6},
		{3, 1, 1, 9, 9, 1, 30},
	}
	for i := 0; i < n; i++ {
		sc := scenario{nbShards: 1 + rng.Intn(3), epochs: 2 + rng.Intn(3), fixEpoch: rng.Intn(3), lruSize: 2 + rng.Intn(40),
			calls: 6 + rng.Intn(6), table: tables[rng.Intn(len(tables))], intensity: 5 + rng.Intn(25)}
		sc.shardSize = 1 + rng.Intn(5)
		sc.metaSize = 1 + rng.Intn(5)
		// eligible list sizes from exactly the group size upward
		sc.perShard = sc.shardSize + []int{0, 0, 1, 2, 5}[rng.Intn(5)]
		sc.perMeta = sc.metaSize + []int{0, 0, 1, 3}[rng.Intn(4)]
		sc.waiting = rng.Intn(4)
		sc.nodesShard, sc.nodesMeta = sc.perShard, sc.perMeta
		if i%7 == 6 { // a bigger one: 63 of 80 per shard, 40 of 40 on the metachain
			sc = scenario{nbShards: 2, epochs: 2, fixEpoch: 0, lruSize: 25, calls: 4, table: tables[0], intensity: 6,
				shardSize: 21, metaSize: 40, perShard: 30, perMeta: 40, waiting: 3, nodesShard: 30, nodesMeta: 40}
		}
		class := "plain"
		if i%2 == 1 {
			class = "rater"
		}
		runScenario(w, rng, sc, class, st)
	}
	if err := w.Close(); err != nil {
		vtrace.Broken(err.Error())
	}
	vtrace.Stat("events", w.N)
	vtrace.Stat("scenarios", n)
	vtrace.Stat("calls", st.calls)
	vtrace.Stat("epochs", st.epochs)
	vtrace.Stat("failed_prepares", st.failedPrepares)
	vtrace.Stat("reprepares", st.reprepares)
	vtrace.Stat("distinct", st.distinct.Len())
}

// ---------------------------------------------------------------------------------------------------------
// concurrent use: G goroutines call ComputeConsensusGroup on ONE coordinator for the same shard

type concRes struct {
	input int
	err   string
	group []int
}

func concurrent(out string, n, goroutines, calls int) {
	w, err := vtrace.NewWriter(out)
	if err != nil {
		vtrace.Broken(err.Error())
		return
	}
	seed, _ := strconv.ParseInt(os.Getenv("VERIF_SEED"), 10, 64)
	rng := rand.New(rand.NewSource(seed))
	tables := [][]uint32{{5, 0, 0, 2, 8, 16, 17, 18, 20, 22, 24}, {3, 1, 1, 9, 9, 1, 30}}
	total, mismatches, logged, samples := 0, 0, 0, 0
	distinct := vtrace.NewDistinct()
	for i := 0; i < n; i++ {
		sc := scenario{nbShards: 1 + rng.Intn(2), table: tables[rng.Intn(len(tables))]}
		sc.shardSize, sc.metaSize = 4+rng.Intn(5), 4+rng.Intn(5)
		sc.perShard, sc.perMeta = sc.shardSize+rng.Intn(7), sc.metaSize+rng.Intn(7)
		sc.nodesShard, sc.nodesMeta = sc.perShard, sc.perMeta
		class := []string{"plain", "rater"}[i%2]
		shards := shardIDs(sc.nbShards)
		elig, wait := map[int][]nc.Val{}, map[int][]nc.Val{}
		id := 0
		for _, s := range shards {
			cnt := sc.perShard
			if s == nc.MetaOut {
				cnt = sc.perMeta
			}
			for j := 0; j < cnt; j++ {
				id++
				elig[s] = append(elig[s], nc.Val{ID: id, Chances: 1 + rng.Intn(9), Index: j})
			}
			wait[s] = []nc.Val{}
		}
		w.NewTrace()
		nodes := []*node{
			buildNode(sc, class, "none", "C", elig, wait, 0, nil, nil),
			buildNode(sc, class, "lru", "T", elig, wait, 0, nc.NewLRU(2), nil), // a tiny cache: the selector is really exercised
		}
		shard := shards[rng.Intn(len(shards))] // every call of the scenario is for this shard
		const K = 16
		type input struct {
			rnd   []byte
			round uint64
		}
		pool := make([]input, K)
		for k := range pool {
			pool[k].rnd, pool[k].round = randomSeed(rng)
		}
		seeds := vtrace.NewInterner()
		for _, nd := range nodes {
			if !logConfig(w, nd, 0, sc) {
				vtrace.Broken("no configuration for epoch 0")
				return
			}
			// the reference: every input computed alone, beforehand, on the same coordinator
			ref := make([][]int, K)
			refErr := make([]string, K)
			for k, in := range pool {
				refErr[k], ref[k] = compute(w, nd, seeds, in.rnd, in.round, shard, 0)
			}
			// the concurrent phase: start barrier, a mix of one hot input and the others
			start := make(chan struct{})
			results := make([][]concRes, goroutines)
			done := make(chan int, goroutines)
			for g := 0; g < goroutines; g++ {
				g := g
				r := rand.New(rand.NewSource(seed*1000 + int64(i*64+g)))
				go func() {
					res := make([]concRes, 0, calls)
					<-start
					for c := 0; c < calls; c++ {
						k := r.Intn(K)
						if r.Intn(4) == 0 {
							k = 0
						}
						grp, e := safeCompute(nd.c, pool[k].rnd, pool[k].round, shard, 0)
						es := ""
						if e != nil {
							es = "other: " + e.Error()
						}
						ids := nc.ValIDs(grp)
						if ids == nil {
							ids = []int{}
						}
						res = append(res, concRes{k, es, ids})
					}
					results[g] = res
					done <- g
				}()
			}
			close(start)
			for g := 0; g < goroutines; g++ {
				<-done
			}
			nodeMismatch := 0
			for g := range results {
				for c, r := range results[g] {
					total++
					same := r.err == refErr[r.input] && vtrace.EqInts(r.group, ref[r.input])
					if !same {
						mismatches++
						nodeMismatch++
					}
					// every differing result (a handful) and a sample of the others go to TLC
					if (!same && nodeMismatch <= 25) || (same && c%32 == g%32) {
						logged++
						in := pool[r.input]
						w.Emit("ComputeC", nd.in(M{"seed": seeds.ID([]byte(fmt.Sprintf("%d|%s", in.round, in.rnd))), "epoch": 0, "shard": shard}),
							M{"err": r.err, "group": r.group}, M{})
					}
					if !same && samples < 2 {
						samples++
						vtrace.Sample("C15", M{"concurrent_call": M{"class": class, "node": nd.kind, "shard": shard, "round": in2(pool[r.input].round),
							"randomness": vtrace.Hex(pool[r.input].rnd)}, "result": r.group, "error": r.err, "sequential_result": ref[r.input]})
					}
				}
			}
			distinct.Add(fmt.Sprint(class, nd.kind, shard == nc.MetaOut, sizeOf(sc, shard), len(elig[shard])))
		}
	}
	if err := w.Close(); err != nil {
		vtrace.Broken(err.Error())
	}
	if mismatches == 0 {
		vtrace.Sample("C15", M{"concurrent_calls": total, "goroutines": goroutines, "all_equal_to_sequential_reference": true})
	}
	vtrace.Stat("events", w.N)
	vtrace.Stat("scenarios", n)
	vtrace.Stat("concurrent_calls", total)
	vtrace.Stat("concurrent_differ", mismatches)
	vtrace.Stat("concurrent_logged", logged)
	vtrace.Stat("distinct", distinct.Len())
}

func in2(v uint64) string { return strconv.FormatUint(v, 10) }

func main() {
	vtrace.Quiet()
	if len(os.Args) < 3 {
		fmt.Fprintln(os.Stderr, "usage: vh-selection replay <behaviours> <trace-out> | record <trace-out> <scenarios> | concurrent <trace-out> <scenarios> <goroutines> <calls>")
		os.Exit(2)
	}
	switch os.Args[1] {
	case "replay":
		replay(os.Args[2], os.Args[3])
	case "record":
		n, _ := strconv.Atoi(os.Args[3])
		record(os.Args[2], n)
	case "concurrent":
		n, _ := strconv.Atoi(os.Args[3])
		g, _ := strconv.Atoi(os.Args[4])
		c, _ := strconv.Atoi(os.Args[5])
		concurrent(os.Args[2], n, g, c)
	default:
		os.Exit(2)
	}
}
