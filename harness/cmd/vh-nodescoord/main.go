// vh-nodescoord binds specs/NodesCoord (C16) to the real sharding.indexHashedNodesCoordinator(+WithRater).
//
//	vh-nodescoord replay <behaviours.ndjson> <trace-out> <sample-every>
//	    TLC behaviours (parameters, configuration(s), validator-info sets, the shuffler result TLC chose) are
//	    executed on a real coordinator whose NodesShuffler is a stub returning the scripted result.  After every
//	    call the observable state (public getters) and the arguments the coordinator handed to the shuffler are
//	    compared with the specification's prediction carried in the behaviour.  Every behaviour with a mismatch and
//	    every <sample-every>-th other one is written as a trace for Trace_NodesCoord, where TLC re-checks the step
//	    and evaluates the C16 invariants on the observed states (a mismatch alone is drift, never a verdict).
//	vh-nodescoord record <trace-out> <scenarios>
//	    real coordinators with the REAL hash shuffler are driven over consecutive epochs with validator infos
//	    derived from the previous configuration the way the metachain derives them (nodescoord.Peers); the
//	    shuffler is wrapped by a recording decorator; everything is logged for Trace_NodesCoord.
//	vh-nodescoord determinism <trace-out> <scenarios> [K]
//	    (property C13) K fresh coordinators with the real shuffler are built from the same arguments (maps filled in
//	    different insertion orders) and process the same epoch start blocks (leaving validators in every shard, one
//	    shard above its removal limit, jailed / low rated / new nodes, both waiting-list-fix settings); after every
//	    EpochStartPrepare the order-sensitive eligible / waiting / leaving lists of all K are compared and logged
//	    for specs/NodesCoord/Determinism.tla (equal inputs => equal outputs).
package main

import (
	"encoding/json"
	"fmt"
	"math/rand"
	"os"
	"sort"
	"strconv"

	"github.com/ElrondNetwork/elrond-go/config"
	"github.com/ElrondNetwork/elrond-go/sharding"
	nc "verif/harness/families/nodescoord"
	"verif/harness/internal/vtrace"
)

type M = vtrace.M

// ---------------------------------------------------------------------------------------------------------
// projection

func shardList(nb int) []int {
	r := make([]int, 0, nb+1)
	for i := 0; i < nb; i++ {
		r = append(r, i)
	}
	return append(r, nc.MetaOut)
}

func listsFor(l nc.Lists, shards []int) []M {
	r := make([]M, 0, len(shards))
	for _, s := range shards {
		ids := l[s]
		if ids == nil {
			ids = []int{}
		}
		r = append(r, M{"s": s, "l": ids})
	}
	return r
}

// project reads the observable state: every stored epoch (the registry tells which epochs exist and the current
// epoch; the lists themselves come from GetAll{Eligible,Waiting,Leaving}ValidatorsPublicKeys) and the lookup
// of every key of the universe.
func project(c nc.Coordinator, shards []int, universe []int) M {
	reg, cur := nc.Registry(c)
	epochs := make([]int, 0, len(reg))
	for e := range reg {
		epochs = append(epochs, e)
	}
	sort.Ints(epochs)
	cfgs := make([]M, 0, len(epochs))
	for _, e := range epochs {
		v := nc.View(c, e)
		if !v.OK {
			continue
		}
		cfgs = append(cfgs, M{"e": e, "elig": listsFor(v.Eligible, shards), "wait": listsFor(v.Waiting, shards),
			"leav": listsFor(v.Leaving, shards)})
	}
	idx := make([]M, 0, len(universe))
	for _, k := range universe {
		idx = append(idx, M{"k": k, "s": nc.Lookup(c, k)})
	}
	return M{"cur": cur, "cfgs": cfgs, "idx": idx}
}

func allLists(l nc.Lists) []M {
	shards := make([]int, 0, len(l))
	for s := range l {
		shards = append(shards, s)
	}
	sort.Ints(shards)
	return listsFor(l, shards)
}

func nz(a []int) []int {
	if a == nil {
		return []int{}
	}
	return a
}

func shRecord(calls []nc.ShufflerCall) M {
	if len(calls) == 0 {
		return M{"called": false, "err": "", "args": M{}, "res": M{}}
	}
	c := calls[len(calls)-1]
	r := M{"called": true, "err": c.Err,
		"args": M{"elig": allLists(c.Eligible), "wait": allLists(c.Waiting), "new": nz(c.NewNodes),
			"unstake": nz(c.Unstake), "add": nz(c.Additional), "nb": c.NbShards}}
	if c.Err == "" {
		r["res"] = M{"elig": allLists(c.ResEligible), "wait": allLists(c.ResWaiting), "leaving": nz(c.ResLeaving)}
	} else {
		r["res"] = M{}
	}
	return r
}

func infosJSON(infos []nc.Info) []M {
	r := make([]M, 0, len(infos))
	for _, in := range infos {
		r = append(r, M{"k": in.K, "s": in.S, "l": in.L, "i": in.I, "r": in.Rating})
	}
	return r
}

// ---------------------------------------------------------------------------------------------------------
// generic helpers over decoded JSON

func asList(v interface{}) []interface{} {
	if v == nil {
		return nil
	}
	if a, ok := v.([]interface{}); ok {
		return a
	}
	if m, ok := v.(map[string]interface{}); ok && len(m) == 0 {
		return nil
	}
	panic(fmt.Sprintf("not a list: %T %v", v, v))
}

func asMap(v interface{}) map[string]interface{} {
	if v == nil {
		return nil
	}
	return v.(map[string]interface{})
}

func intsOf(v interface{}) []int {
	a := asList(v)
	r := make([]int, len(a))
	for i := range a {
		r[i] = vtrace.Int(a[i])
	}
	return r
}

// listsOfJSON decodes [{s, l}, ...]
func listsOfJSON(v interface{}) nc.Lists {
	r := nc.Lists{}
	for _, x := range asList(v) {
		m := asMap(x)
		r[vtrace.Int(m["s"])] = intsOf(m["l"])
	}
	return r
}

func sameSeq(a, b []int) bool { return vtrace.EqInts(a, b) }
func sameBag(a, b []int) bool { return vtrace.EqInts(vtrace.SortedInts(a), vtrace.SortedInts(b)) }

// stateDiff compares a predicted projection (from TLC) with an observed one (same shape, decoded JSON).
func stateDiff(pred, obs map[string]interface{}, shards []int) string {
	if vtrace.Int(pred["cur"]) != vtrace.Int(obs["cur"]) {
		return fmt.Sprintf("current epoch %v, specification %v", obs["cur"], pred["cur"])
	}
	pc, oc := asList(pred["cfgs"]), asList(obs["cfgs"])
	if len(pc) != len(oc) {
		return fmt.Sprintf("%d stored epochs, specification %d", len(oc), len(pc))
	}
	for i := range pc {
		p, o := asMap(pc[i]), asMap(oc[i])
		if vtrace.Int(p["e"]) != vtrace.Int(o["e"]) {
			return fmt.Sprintf("stored epoch %v, specification %v", o["e"], p["e"])
		}
		for _, f := range []string{"elig", "wait", "leav"} {
			pl, ol := listsOfJSON(p[f]), listsOfJSON(o[f])
			for _, s := range shards {
				eq := sameSeq(pl[s], ol[s])
				if f == "leav" {
					eq = sameBag(pl[s], ol[s])
				}
				if !eq {
					return fmt.Sprintf("epoch %v %s[%d] = %v, specification %v", p["e"], f, s, ol[s], pl[s])
				}
			}
		}
	}
	pi, oi := asList(pred["idx"]), asList(obs["idx"])
	om := map[int]int{}
	for _, x := range oi {
		m := asMap(x)
		om[vtrace.Int(m["k"])] = vtrace.Int(m["s"])
	}
	for _, x := range pi {
		m := asMap(x)
		k := vtrace.Int(m["k"])
		if om[k] != vtrace.Int(m["s"]) {
			return fmt.Sprintf("GetValidatorWithPublicKey(%d) -> shard %d, specification %d", k, om[k], vtrace.Int(m["s"]))
		}
	}
	return ""
}

func argsDiff(pred map[string]interface{}, sh M, shards []int) string {
	perr, _ := pred["err"].(bool)
	called := sh["called"].(bool)
	if called == perr {
		return fmt.Sprintf("shuffler called = %v, specification expects computeNodesConfigFromList error = %v", called, perr)
	}
	if !called {
		return ""
	}
	a := sh["args"].(M)
	for _, f := range []string{"elig", "wait"} {
		pl := listsOfJSON(pred[f])
		ol := nc.Lists{}
		for _, x := range a[f].([]M) {
			ol[x["s"].(int)] = x["l"].([]int)
		}
		for _, s := range shards {
			if !sameBag(pl[s], ol[s]) {
				return fmt.Sprintf("shuffler argument %s[%d] = %v, specification %v", f, s, ol[s], pl[s])
			}
		}
	}
	for _, f := range []string{"new", "unstake", "add"} {
		if !sameBag(intsOf(pred[f]), a[f].([]int)) {
			return fmt.Sprintf("shuffler argument %s = %v, specification %v", f, a[f], pred[f])
		}
	}
	return ""
}

// roundTrip converts a projection built from Go values into decoded-JSON shape.
func roundTrip(m M) map[string]interface{} {
	b, _ := json.Marshal(m)
	var r map[string]interface{}
	_ = json.Unmarshal(b, &r)
	return r
}

// ---------------------------------------------------------------------------------------------------------
// replay of TLC behaviours

type event struct {
	a           string
	in, out, st interface{}
}

type sut struct {
	c        nc.Coordinator
	script   *nc.ScriptShuffler
	rec      *nc.RecShuffler
	shards   []int
	universe []int
}

// scripted builds the ResUpdateNodes TLC chose, re-using the validator objects the coordinator handed in.
func scripted(sres map[string]interface{}) func(args sharding.ArgsUpdateNodes) (*sharding.ResUpdateNodes, error) {
	return func(args sharding.ArgsUpdateNodes) (*sharding.ResUpdateNodes, error) {
		if e, _ := sres["err"].(bool); e {
			return nil, fmt.Errorf("scripted shuffler error")
		}
		byID := map[int]sharding.Validator{}
		add := func(l []sharding.Validator) {
			for _, v := range l {
				if _, ok := byID[nc.ID(v.PubKey())]; !ok {
					byID[nc.ID(v.PubKey())] = v
				}
			}
		}
		for _, l := range args.Eligible {
			add(l)
		}
		for _, l := range args.Waiting {
			add(l)
		}
		add(args.NewNodes)
		add(args.UnStakeLeaving)
		add(args.AdditionalLeaving)
		get := func(id int) sharding.Validator {
			if v, ok := byID[id]; ok {
				return v
			}
			v, _ := sharding.NewValidator(nc.PK(id), 1, 0)
			return v
		}
		entries := map[int]bool{}
		for _, s := range intsOf(sres["entries"]) {
			entries[s] = true
		}
		mk := func(v interface{}, onlyEntries bool) map[uint32][]sharding.Validator {
			r := map[uint32][]sharding.Validator{}
			for s, ids := range listsOfJSON(v) {
				if onlyEntries && !entries[s] {
					continue
				}
				l := make([]sharding.Validator, 0, len(ids))
				for _, id := range ids {
					l = append(l, get(id))
				}
				r[nc.ShardIn(s)] = l
			}
			return r
		}
		res := &sharding.ResUpdateNodes{Eligible: mk(sres["elig"], true), Waiting: mk(sres["wait"], false)}
		for _, id := range intsOf(sres["leaving"]) {
			res.Leaving = append(res.Leaving, get(id))
		}
		// The stub behaves like a conserving shuffler on what it is ACTUALLY handed: occurrences of a validator that
		// the scripted result does not account for (the specification predicted other arguments) stay where they are.
		// With the predicted arguments there is no surplus.
		acc := map[int]int{}
		for _, l := range res.Eligible {
			for _, v := range l {
				acc[nc.ID(v.PubKey())]++
			}
		}
		for _, l := range res.Waiting {
			for _, v := range l {
				acc[nc.ID(v.PubKey())]++
			}
		}
		for _, v := range res.Leaving {
			acc[nc.ID(v.PubKey())]++
		}
		keep := func(m map[uint32][]sharding.Validator, src map[uint32][]sharding.Validator) {
			shardIDs := make([]uint32, 0, len(src))
			for s := range src {
				shardIDs = append(shardIDs, s)
			}
			sort.Slice(shardIDs, func(i, j int) bool { return shardIDs[i] < shardIDs[j] })
			for _, s := range shardIDs {
				for _, v := range src[s] {
					id := nc.ID(v.PubKey())
					if acc[id] > 0 {
						acc[id]--
						continue
					}
					m[s] = append(m[s], v)
				}
			}
		}
		keep(res.Eligible, args.Eligible)
		keep(res.Waiting, args.Waiting)
		keep(res.Waiting, map[uint32][]sharding.Validator{0: args.NewNodes})
		return res, nil
	}
}

func valsFromLists(l nc.Lists, shards []int) map[int][]nc.Val {
	r := map[int][]nc.Val{}
	for _, s := range shards {
		r[s] = []nc.Val{}
		for i, id := range l[s] {
			r[s] = append(r[s], nc.Val{ID: id, Chances: 1, Index: i})
		}
	}
	return r
}

func newSut(params map[string]interface{}, elig, wait nc.Lists, epoch int, universe []int) (*sut, error) {
	shards := intsOf(params["shards"])
	script := &nc.ScriptShuffler{}
	rec := &nc.RecShuffler{Inner: script}
	p := nc.Params{ShardSize: vtrace.Int(params["minShard"]), MetaSize: vtrace.Int(params["minMeta"]), NbShards: len(shards) - 1,
		Eligible: valsFromLists(elig, shards), Waiting: valsFromLists(wait, shards), Epoch: epoch,
		WaitingListFixEpoch: vtrace.Int(params["fixEpoch"]), Shuffler: rec}
	if vtrace.Str(params["class"]) == "rater" {
		t := intsOf(params["table"])
		tab := make([]uint32, len(t))
		for i := range t {
			tab[i] = uint32(t[i])
		}
		p.Rater = &nc.Chances{Table: tab}
	}
	c, err := nc.Build(p)
	if err != nil {
		return nil, err
	}
	return &sut{c: c, script: script, rec: rec, shards: shards, universe: universe}, nil
}

func (s *sut) prepare(e int, infos []nc.Info, sres map[string]interface{}) event {
	s.script.Next = scripted(sres)
	s.rec.Calls = nil
	body := nc.Body(infos)
	s.c.EpochStartPrepare(nc.Header(e, []byte(fmt.Sprintf("rand-%d", e))), body)
	// log the infos in the order of the body (the order in which the coordinator sees them)
	ordered := orderedAsBody(infos)
	return event{"Prepare", M{"e": e, "infos": infosJSON(ordered), "sh": shRecord(s.rec.Calls)}, M{}, project(s.c, s.shards, s.universe)}
}

func orderedAsBody(infos []nc.Info) []nc.Info {
	r := append([]nc.Info(nil), infos...)
	sort.SliceStable(r, func(i, j int) bool {
		if r[i].S != r[j].S {
			return r[i].S < r[j].S
		}
		return string(nc.PK(r[i].K)) < string(nc.PK(r[j].K))
	})
	return r
}

func (s *sut) action(e int) event {
	s.c.EpochStartAction(nc.Header(e, []byte(fmt.Sprintf("rand-%d", e))))
	return event{"Action", M{"e": e}, M{}, project(s.c, s.shards, s.universe)}
}

func infosOf(v interface{}) []nc.Info {
	var r []nc.Info
	for _, x := range asList(v) {
		m := asMap(x)
		r = append(r, nc.Info{K: vtrace.Int(m["k"]), S: vtrace.Int(m["s"]), L: vtrace.Str(m["l"]), I: vtrace.Int(m["i"]), Rating: vtrace.Int(m["r"])})
	}
	return r
}

func newEvent(params map[string]interface{}, s *sut) event {
	in := M{}
	for k, v := range params {
		in[k] = v
	}
	return event{"New", in, M{}, project(s.c, s.shards, s.universe)}
}

// runBehaviour executes one TLC behaviour; returns the events to log and the first mismatch (or "").
func runBehaviour(b []vtrace.Step) ([]event, string, error) {
	if len(b) == 0 || b[0].A != "New" {
		return nil, "", fmt.Errorf("behaviour does not start with New")
	}
	params := b[0].In
	st := b[0].St
	var universe []int
	for _, x := range asList(st["idx"]) {
		universe = append(universe, vtrace.Int(asMap(x)["k"]))
	}
	cfgs := asList(st["cfgs"])
	shards := intsOf(params["shards"])
	var evs []event
	var s *sut
	var err error
	first := asMap(cfgs[0])
	s, err = newSut(params, listsOfJSON(first["elig"]), listsOfJSON(first["wait"]), vtrace.Int(first["e"]), universe)
	if err != nil {
		return nil, "", err
	}
	evs = append(evs, newEvent(params, s))
	// older epochs present in the specification's initial state are reached by real calls: a prepare whose
	// scripted shuffler result is the next configuration, then the epoch start action
	for _, cx := range cfgs[1:] {
		c := asMap(cx)
		e := vtrace.Int(c["e"])
		prev := nc.View(s.c, e-1)
		var infos []nc.Info
		for _, sh := range shards {
			for i, id := range prev.Eligible[sh] {
				infos = append(infos, nc.Info{K: id, S: sh, L: "eligible", I: i})
			}
			for i, id := range prev.Waiting[sh] {
				infos = append(infos, nc.Info{K: id, S: sh, L: "waiting", I: i})
			}
		}
		sres := map[string]interface{}{"err": false, "elig": c["elig"], "wait": c["wait"], "leaving": []interface{}{},
			"entries": toIface(shards)}
		evs = append(evs, s.prepare(e, infos, sres))
		evs = append(evs, s.action(e))
	}
	mismatch := ""
	if d := stateDiff(st, roundTrip(evs[len(evs)-1].st.(M)), shards); d != "" {
		mismatch = "initial state: " + d
	}
	for si, step := range b[1:] {
		var ev event
		switch step.A {
		case "Prepare":
			ev = s.prepare(vtrace.Int(step.In["e"]), infosOf(step.In["infos"]), asMap(step.In["sres"]))
			if mismatch == "" {
				if d := argsDiff(step.Out, ev.in.(M)["sh"].(M), shards); d != "" {
					mismatch = fmt.Sprintf("step %d (Prepare): %s", si+1, d)
				}
			}
		case "Action":
			ev = s.action(vtrace.Int(step.In["e"]))
		default:
			return nil, "", fmt.Errorf("unknown action %s", step.A)
		}
		evs = append(evs, ev)
		if mismatch == "" {
			if d := stateDiff(step.St, roundTrip(ev.st.(M)), shards); d != "" {
				mismatch = fmt.Sprintf("step %d (%s): %s", si+1, step.A, d)
			}
		}
	}
	return evs, mismatch, nil
}

func toIface(a []int) []interface{} {
	r := make([]interface{}, len(a))
	for i := range a {
		r[i] = float64(a[i])
	}
	return r
}

func replay(path, out string, every int) {
	w, err := vtrace.NewWriter(out)
	if err != nil {
		vtrace.Broken(err.Error())
		return
	}
	distinct := vtrace.NewDistinct()
	steps, mismatches, written, samples := 0, 0, 0, 0
	nb, err := nc.EachBehaviour(path, func(bi int, b []vtrace.Step) error {
		evs, mm, err := runBehaviour(b)
		if err != nil {
			return fmt.Errorf("behaviour %d: %v", bi, err)
		}
		steps += len(b) - 1
		if len(b) > 1 {
			last := b[len(b)-1]
			distinct.Add(fmt.Sprint(b[0].In, b[len(b)-2].St["cfgs"], last.A, last.In))
		}
		if mm != "" {
			mismatches++
			if mismatches <= 3 {
				vtrace.Drift("C16", "real coordinator differs from the specification's prediction (classified by TLC on the "+
					"recorded trace): "+mm, M{"behaviour": b})
			}
		}
		if (mm != "" && mismatches <= 200) || (every > 0 && bi%every == 0) {
			written++
			for i, ev := range evs {
				if i == 0 {
					w.NewTraceWith(ev.a, ev.in, ev.out, ev.st)
				} else {
					w.Emit(ev.a, ev.in, ev.out, ev.st)
				}
			}
		}
		if len(b) > 1 && samples < 2 && len(asList(b[len(b)-1].In["infos"])) >= 3 {
			samples++
			vtrace.Sample("C16", M{"initial": b[0].St["cfgs"], "last_step": b[len(b)-1].A, "last_step_in": b[len(b)-1].In,
				"real_state_after": evs[len(evs)-1].st})
		}
		return nil
	})
	if err != nil {
		vtrace.Broken(err.Error())
		return
	}
	if err := w.Close(); err != nil {
		vtrace.Broken(err.Error())
	}
	vtrace.Stat("behaviours", nb)
	vtrace.Stat("steps", steps)
	vtrace.Stat("mismatches", mismatches)
	vtrace.Stat("written", written)
	vtrace.Stat("events", w.N)
	vtrace.Stat("distinct", distinct.Len())
}

// ---------------------------------------------------------------------------------------------------------
// random scenarios with the real shuffler

type scenario struct {
	nbShards                   int
	minShard, minMeta          int
	perShard, perMeta, waiting int
	epochs, fixEpoch           int
	class                      string
	table                      []uint32
	intensity                  int
	shuffleBetween             bool
	balanceEpoch               int
}

func record(out string, n int) {
	w, err := vtrace.NewWriter(out)
	if err != nil {
		vtrace.Broken(err.Error())
		return
	}
	seed, _ := strconv.ParseInt(os.Getenv("VERIF_SEED"), 10, 64)
	rng := rand.New(rand.NewSource(seed))
	distinct := vtrace.NewDistinct()
	tables := [][]uint32{{5, 0, 0, 2, 8, 16, 17, 18, 20, 22, 24}, {1, 1, 2, 3, 4, 5, 6}, {3, 1, 1, 9, 9, 1, 30}}
	prepares, reprepares, failed, samples, moved := 0, 0, 0, 0, 0
	for i := 0; i < n; i++ {
		sc := scenario{nbShards: 1 + rng.Intn(3), epochs: 3 + rng.Intn(5), fixEpoch: rng.Intn(4), intensity: 5 + rng.Intn(30),
			table: tables[rng.Intn(len(tables))], shuffleBetween: rng.Intn(4) != 0, balanceEpoch: rng.Intn(3)}
		sc.minShard, sc.minMeta = 1+rng.Intn(3), 1+rng.Intn(3)
		sc.perShard, sc.perMeta = sc.minShard+rng.Intn(4), sc.minMeta+rng.Intn(4)
		sc.waiting = rng.Intn(4)
		sc.class = []string{"plain", "rater"}[i%2]
		if i%9 == 8 {
			sc.perShard, sc.perMeta, sc.waiting, sc.minShard, sc.minMeta = 20+rng.Intn(20), 20+rng.Intn(20), 5+rng.Intn(10), 7, 9
		}
		shards := shardList(sc.nbShards)
		elig, wait := map[int][]nc.Val{}, map[int][]nc.Val{}
		id := 0
		for _, s := range shards {
			cnt := sc.perShard
			if s == nc.MetaOut {
				cnt = sc.perMeta
			}
			for j := 0; j < cnt; j++ {
				id++
				elig[s] = append(elig[s], nc.Val{ID: id, Chances: 1 + rng.Intn(5), Index: j})
			}
			wait[s] = []nc.Val{}
			for j := 0; j < sc.waiting; j++ {
				id++
				wait[s] = append(wait[s], nc.Val{ID: id, Chances: 1 + rng.Intn(5), Index: j})
			}
		}
		real, err := sharding.NewHashValidatorsShuffler(&sharding.NodesShufflerArgs{
			NodesShard: uint32(sc.perShard), NodesMeta: uint32(sc.perMeta), Hysteresis: 0.2, Adaptivity: false,
			ShuffleBetweenShards: sc.shuffleBetween, WaitingListFixEnableEpoch: uint32(sc.fixEpoch),
			BalanceWaitingListsEnableEpoch: uint32(sc.balanceEpoch)})
		if err != nil {
			vtrace.Broken(err.Error())
			return
		}
		rec := &nc.RecShuffler{Inner: real}
		p := nc.Params{ShardSize: sc.minShard, MetaSize: sc.minMeta, NbShards: sc.nbShards, Eligible: elig, Waiting: wait,
			WaitingListFixEpoch: sc.fixEpoch, Shuffler: rec, Cache: nc.NewLRU(10)}
		if sc.class == "rater" {
			p.Rater = &nc.Chances{Table: sc.table}
		}
		c, err := nc.Build(p)
		if err != nil {
			vtrace.Broken("constructor: " + err.Error())
			return
		}
		peers := &nc.Peers{Acc: map[int]*nc.Info{}, NextID: id, Rng: rng, MaxRating: len(sc.table) - 1, LowRating: 2}
		universe := func() []int {
			r := make([]int, 0, peers.NextID)
			for k := 1; k <= peers.NextID; k++ {
				r = append(r, k)
			}
			return r
		}
		tab := make([]int, len(sc.table))
		for j := range sc.table {
			tab[j] = int(sc.table[j])
		}
		w.NewTraceWith("New", M{"shards": shards, "minShard": sc.minShard, "minMeta": sc.minMeta, "fixEpoch": sc.fixEpoch,
			"class": sc.class, "table": tab}, M{}, project(c, shards, universe()))
		for epoch := 0; epoch < sc.epochs; epoch++ {
			before := nc.View(c, epoch)
			peers.SaveNodesCoordinatorUpdates(before, shards)
			peers.Events(sc.intensity, shards)
			tries := 1
			if rng.Intn(4) == 0 {
				tries = 2
			}
			for t := 0; t < tries; t++ {
				if t > 0 {
					peers.Events(sc.intensity, shards)
					reprepares++
				}
				infos := peers.Infos()
				rnd := make([]byte, 32)
				rng.Read(rnd)
				rec.Calls = nil
				c.EpochStartPrepare(nc.Header(epoch+1, rnd), nc.Body(infos))
				prepares++
				w.Emit("Prepare", M{"e": epoch + 1, "infos": infosJSON(orderedAsBody(infos)), "sh": shRecord(rec.Calls)}, M{},
					project(c, shards, universe()))
				lists := map[string]int{}
				for _, in := range infos {
					lists[in.L]++
				}
				distinct.Add(fmt.Sprint(sc.class, sc.nbShards, epoch+1 >= sc.fixEpoch, lists["leaving"] > 0, lists["new"] > 0,
					lists["jailed"] > 0, lists["inactive"] > 0, t, len(infos)))
			}
			after := nc.View(c, epoch+1)
			if !after.OK {
				failed++
				break
			}
			for _, s := range shards {
				for _, k := range after.Eligible[s] {
					if a := peers.Acc[k]; a != nil && a.S != s {
						moved++
					}
				}
			}
			if samples < 2 && epoch == 1 {
				samples++
				vtrace.Sample("C16", M{"class": sc.class, "shards": shards, "epoch": epoch + 1, "infos": len(peers.Acc),
					"eligible": after.Eligible, "waiting": after.Waiting, "leaving": after.Leaving})
			}
			c.EpochStartAction(nc.Header(epoch+1, nil))
			w.Emit("Action", M{"e": epoch + 1}, M{}, project(c, shards, universe()))
		}
	}
	if err := w.Close(); err != nil {
		vtrace.Broken(err.Error())
	}
	vtrace.Stat("events", w.N)
	vtrace.Stat("scenarios", n)
	vtrace.Stat("prepares", prepares)
	vtrace.Stat("reprepares", reprepares)
	vtrace.Stat("failed_prepares", failed)
	vtrace.Stat("validators_moved_shard", moved)
	vtrace.Stat("distinct", distinct.Len())
}

// ---------------------------------------------------------------------------------------------------------
// determinism (C13 at coordinator level): K fresh coordinators, same arguments, same epoch start blocks

func outRecord(c nc.Coordinator, epoch int, shards []int) M {
	v := nc.View(c, epoch)
	if !v.OK {
		return M{"ok": false, "elig": []M{}, "wait": []M{}, "leav": []M{}}
	}
	return M{"ok": true, "elig": listsFor(v.Eligible, shards), "wait": listsFor(v.Waiting, shards), "leav": listsFor(v.Leaving, shards)}
}

func determinism(out string, n, runs int) {
	w, err := vtrace.NewWriter(out)
	if err != nil {
		vtrace.Broken(err.Error())
		return
	}
	seed, _ := strconv.ParseInt(os.Getenv("VERIF_SEED"), 10, 64)
	rng := rand.New(rand.NewSource(seed))
	distinct := vtrace.NewDistinct()
	table := []uint32{5, 0, 0, 2, 8, 16, 17, 18, 20, 22, 24} // rating 1..2 -> chance 0 < chance(0): additional leaving
	prepares, differing, decisive, samples := 0, 0, 0, 0
	for i := 0; i < n; i++ {
		nb := 2 + rng.Intn(2)
		shards := shardList(nb)
		perShard, waiting := 3+rng.Intn(4), 2+rng.Intn(3)
		fixEpoch := []int{0, 99}[i%2] // both waiting-list-fix settings
		class := []string{"rater", "plain"}[(i/2)%2]
		swap := uint32(0)
		if rng.Intn(3) == 0 {
			swap = uint32(1 + rng.Intn(2)) // NodesToShufflePerShard below the natural limit
		}
		type val struct {
			s int
			v nc.Val
		}
		var initial []val
		id := 0
		for _, s := range shards {
			for j := 0; j < perShard; j++ {
				id++
				initial = append(initial, val{s, nc.Val{ID: id, Chances: 5, Index: j}})
			}
		}
		firstWaiting := len(initial)
		for _, s := range shards {
			for j := 0; j < waiting; j++ {
				id++
				initial = append(initial, val{s, nc.Val{ID: id, Chances: 5, Index: j}})
			}
		}
		bal := uint32(rng.Intn(2) * 99)
		coords := make([]nc.Coordinator, runs)
		for k := 0; k < runs; k++ {
			// the same lists, the maps filled in another insertion order for every run
			elig, wait := map[int][]nc.Val{}, map[int][]nc.Val{}
			order := rng.Perm(len(shards))
			for _, oi := range order {
				s := shards[oi]
				elig[s], wait[s] = []nc.Val{}, []nc.Val{}
				for x, iv := range initial {
					if iv.s != s {
						continue
					}
					if x < firstWaiting {
						elig[s] = append(elig[s], iv.v)
					} else {
						wait[s] = append(wait[s], iv.v)
					}
				}
			}
			args := &sharding.NodesShufflerArgs{NodesShard: uint32(perShard), NodesMeta: uint32(perShard), Hysteresis: 0.2,
				ShuffleBetweenShards: true, WaitingListFixEnableEpoch: uint32(fixEpoch), BalanceWaitingListsEnableEpoch: bal}
			if swap > 0 {
				args.MaxNodesEnableConfig = []config.MaxNodesChangeConfig{{EpochEnable: 0, MaxNumNodes: 1000, NodesToShufflePerShard: swap}}
			}
			sh, err := sharding.NewHashValidatorsShuffler(args)
			if err != nil {
				vtrace.Broken(err.Error())
				return
			}
			p := nc.Params{ShardSize: 1, MetaSize: 1, NbShards: nb, Eligible: elig, Waiting: wait, WaitingListFixEpoch: fixEpoch, Shuffler: sh}
			if class == "rater" {
				p.Rater = &nc.Chances{Table: table}
			}
			coords[k], err = nc.Build(p)
			if err != nil {
				vtrace.Broken("constructor: " + err.Error())
				return
			}
		}
		peers := &nc.Peers{Acc: map[int]*nc.Info{}, NextID: id, Rng: rng, MaxRating: len(table) - 1, LowRating: 2}
		for epoch := 0; epoch < 3; epoch++ {
			view := nc.View(coords[0], epoch)
			if !view.OK {
				break
			}
			peers.SaveNodesCoordinatorUpdates(view, shards)
			// leaving validators in every shard, in one shard more than can be removed; unstake nonces as indexes so
			// that the globally sorted leaving list interleaves the shards; jailed (low rating) ones; new nodes
			nonce := 1000 + rng.Intn(1000)
			over := shards[rng.Intn(len(shards))]
			nLeaving, nShardsLeaving := 0, 0
			for _, s := range shards {
				members := append(append([]int{}, view.Eligible[s]...), view.Waiting[s]...)
				limit := len(members) - perShard
				if limit < 0 {
					limit = 0
				}
				want := 1 + rng.Intn(2)
				if s == over {
					want = limit + 1 + rng.Intn(2)
				}
				perm := rng.Perm(len(members))
				got := 0
				for _, pi := range perm {
					if got >= want {
						break
					}
					a := peers.Acc[members[pi]]
					if a == nil || (a.L != "eligible" && a.L != "waiting") {
						continue
					}
					nonce += 1 + rng.Intn(50)
					if class == "rater" && rng.Intn(3) == 0 {
						a.Rating = 1 // stays eligible/waiting, leaves through ComputeAdditionalLeaving
					} else {
						a.L, a.I = "leaving", nonce
						if rng.Intn(3) == 0 {
							a.Rating = 0 // jailed
						}
					}
					got++
				}
				nLeaving += got
				if got > 0 {
					nShardsLeaving++
				}
			}
			for j := rng.Intn(4); j > 0; j-- {
				peers.NextID++
				nonce++
				peers.Acc[peers.NextID] = &nc.Info{K: peers.NextID, S: 0, L: "new", I: nonce, Rating: 5}
			}
			infos := peers.Infos()
			rnd := make([]byte, 32)
			rng.Read(rnd)
			in := M{"sc": i, "epoch": epoch + 1, "rand": vtrace.Hex(rnd[:8]), "infos": infosJSON(orderedAsBody(infos))}
			var first string
			diff := false
			for k, c := range coords {
				c.EpochStartPrepare(nc.Header(epoch+1, rnd), nc.Body(infos)) // a fresh body per node, same content
				prepares++
				rec := outRecord(c, epoch+1, shards)
				w.Emit("Run", in, rec, M{"run": k})
				b, _ := json.Marshal(rec)
				if k == 0 {
					first = string(b)
				} else if string(b) != first && !diff {
					diff = true
					differing++
					if differing <= 3 {
						vtrace.Violation("C13", "C13/coordinator/outputs-differ-across-identical-runs",
							fmt.Sprintf("%d coordinators built from the same arguments processed the same epoch start block (scenario %d, "+
								"epoch %d, class %s, %d shards, fix epoch %d, %d validators leaving from %d shards): coordinator %d holds %s, "+
								"coordinator 0 holds %s", runs, i, epoch+1, class, nb, fixEpoch, nLeaving, nShardsLeaving, k, string(b), first),
							M{"in": in, "run": k, "out": rec})
					}
				}
			}
			if nShardsLeaving >= 2 {
				decisive++
			}
			distinct.Add(fmt.Sprint(class, nb, fixEpoch, swap, nShardsLeaving, nLeaving, epoch))
			if samples < 2 {
				samples++
				vtrace.Sample("C13", M{"coordinator_determinism": M{"scenario": i, "epoch": epoch + 1, "class": class, "shards": shards,
					"runs": runs, "leaving": nLeaving, "shards_with_leaving": nShardsLeaving, "all_equal": !diff}})
			}
			if diff {
				break
			}
			for _, c := range coords {
				c.EpochStartAction(nc.Header(epoch+1, rnd))
			}
		}
	}
	if err := w.Close(); err != nil {
		vtrace.Broken(err.Error())
	}
	vtrace.Stat("events", w.N)
	vtrace.Stat("scenarios", n)
	vtrace.Stat("prepares", prepares)
	vtrace.Stat("epochs_with_leaving_in_2plus_shards", decisive)
	vtrace.Stat("differing", differing)
	vtrace.Stat("distinct", distinct.Len())
}

func main() {
	vtrace.Quiet()
	if len(os.Args) < 4 {
		fmt.Fprintln(os.Stderr, "usage: vh-nodescoord replay <behaviours> <trace-out> <sample-every> | record <trace-out> <scenarios>")
		os.Exit(2)
	}
	switch os.Args[1] {
	case "replay":
		every, _ := strconv.Atoi(os.Args[4])
		replay(os.Args[2], os.Args[3], every)
	case "record":
		n, _ := strconv.Atoi(os.Args[3])
		record(os.Args[2], n)
	case "determinism":
		n, _ := strconv.Atoi(os.Args[3])
		k := 8
		if len(os.Args) > 4 {
			k, _ = strconv.Atoi(os.Args[4])
		}
		determinism(os.Args[2], n, k)
	default:
		os.Exit(2)
	}
}
