// vh-signing binds specs/SigningFields to the real signing / verification path (C24).
//
// Real: transaction.Transaction.GetDataForSigning, FrontendTransaction, marshal.TxJsonMarshalizer, the bech32 public key
// converter (32-byte addresses); and, for the verification side, process/transaction.InterceptedTransaction.CheckValidity
// (integrity + verifySig, real TxVersionChecker, real keccak hasher for hash-signing) with a single signer stub that
// records the message it is asked to verify.
//
//	vh-signing eval <pairs.ndjson>                   TLC-enumerated pairs of transactions with the specification's
//	                                                 verdict (semantically equal? sign identically?) -> build both real
//	                                                 transactions, compare the signed bytes and the verified messages
//	vh-signing record <seed> <n> <out.ndjson>        random pairs (random bytes in every byte field) -> trace for TLC
package main

import (
	"bytes"
	"encoding/json"
	"fmt"
	"math/big"
	"math/rand"
	"os"
	"strconv"

	"github.com/ElrondNetwork/elrond-go/core/pubkeyConverter"
	"github.com/ElrondNetwork/elrond-go/core/versioning"
	"github.com/ElrondNetwork/elrond-go/crypto"
	"github.com/ElrondNetwork/elrond-go/data/transaction"
	"github.com/ElrondNetwork/elrond-go/hashing/keccak"
	"github.com/ElrondNetwork/elrond-go/marshal"
	"github.com/ElrondNetwork/elrond-go/process"
	"github.com/ElrondNetwork/elrond-go/process/mock"
	"github.com/ElrondNetwork/elrond-go/process/smartContract"
	txproc "github.com/ElrondNetwork/elrond-go/process/transaction"
	"github.com/ElrondNetwork/elrond-go/testscommon"
	"verif/harness/internal/vtrace"
)

type M = vtrace.M

// bv is a byte-string value of the specification: nil or a sequence of bytes
type bv struct {
	Nil bool  `json:"nil"`
	B   []int `json:"b"`
}

func (v bv) bytes() []byte {
	if v.Nil {
		return nil
	}
	r := make([]byte, len(v.B))
	for i, x := range v.B {
		r[i] = byte(x)
	}
	return r
}

// address: <<fill, last>> = 31 bytes fill + 1 byte last
func (v bv) address() []byte {
	r := bytes.Repeat([]byte{byte(v.B[0])}, 32)
	r[31] = byte(v.B[1])
	return r
}

// stx is a transaction as the specification writes it
type stx struct {
	Nonce    string `json:"nonce"`
	Value    string `json:"value"`
	Rcv      bv     `json:"rcv"`
	Snd      bv     `json:"snd"`
	SndUser  bv     `json:"sndUser"`
	RcvUser  bv     `json:"rcvUser"`
	GasPrice string `json:"gasPrice"`
	GasLimit string `json:"gasLimit"`
	Data     bv     `json:"data"`
	ChainID  bv     `json:"chainID"`
	Version  string `json:"version"`
	Options  string `json:"options"`
}

func u64(s string) uint64 {
	n, err := strconv.ParseUint(s, 10, 64)
	if err != nil {
		panic(err)
	}
	return n
}

func (t stx) real() *transaction.Transaction {
	v, ok := new(big.Int).SetString(t.Value, 10)
	if !ok {
		panic("value " + t.Value)
	}
	return &transaction.Transaction{Nonce: u64(t.Nonce), Value: v, RcvAddr: t.Rcv.address(), SndAddr: t.Snd.address(),
		SndUserName: t.SndUser.bytes(), RcvUserName: t.RcvUser.bytes(), GasPrice: u64(t.GasPrice), GasLimit: u64(t.GasLimit),
		Data: t.Data.bytes(), ChainID: t.ChainID.bytes(), Version: uint32(u64(t.Version)), Options: uint32(u64(t.Options)),
		Signature: []byte("signature")}
}

var conv, _ = pubkeyConverter.NewBech32PubkeyConverter(32)
var signMarsh = &marshal.TxJsonMarshalizer{}

// signed returns the bytes a sender signs (nil, false when GetDataForSigning refuses)
func signed(tx *transaction.Transaction) ([]byte, bool) {
	b, err := tx.GetDataForSigning(conv, signMarsh)
	if err != nil {
		return nil, false
	}
	return b, true
}

// verified returns the message InterceptedTransaction.CheckValidity hands to the single signer for tx
// (ok = false when the transaction does not get as far as the signature check)
func verified(tx *transaction.Transaction) ([]byte, bool) {
	if len(tx.ChainID) == 0 {
		return nil, false
	}
	proto := &marshal.GogoProtoMarshalizer{}
	buff, err := proto.Marshal(tx)
	if err != nil {
		return nil, false
	}
	var msg []byte
	got := false
	signer := &mock.SignerMock{VerifyStub: func(_ crypto.PublicKey, m []byte, _ []byte) error {
		msg, got = append([]byte(nil), m...), true
		return nil
	}}
	keyGen := &mock.SingleSignKeyGenMock{PublicKeyFromByteArrayCalled: func(b []byte) (crypto.PublicKey, error) {
		return &mock.SingleSignPublicKey{}, nil
	}}
	fee := &mock.FeeHandlerStub{CheckValidityTxValuesCalled: func(process.TransactionWithFeeHandler) error { return nil }}
	inTx, err := txproc.NewInterceptedTransaction(buff, proto, signMarsh, keccak.NewKeccak(), keyGen, signer, conv,
		mock.NewOneShardCoordinatorMock(), fee, &testscommon.WhiteListHandlerStub{}, smartContract.NewArgumentParser(),
		tx.ChainID, true, keccak.NewKeccak(), versioning.NewTxVersionChecker(0))
	if err != nil {
		return nil, false
	}
	_ = inTx.CheckValidity()
	return msg, got
}

type pairIn struct {
	D  M   `json:"d"`
	T1 stx `json:"t1"`
	T2 stx `json:"t2"`
}

type pairRec struct {
	A   string `json:"a"`
	In  pairIn `json:"in"`
	Out struct {
		Signable bool `json:"signable"`
		Sem      bool `json:"sem"`
		Eq       bool `json:"eq"`
	} `json:"out"`
	Cls string `json:"cls"`
}

func fieldOf(p pairRec) string {
	f := vtrace.Str(p.In.D["f"])
	if g, ok := p.In.D["g"]; ok {
		f += "+" + vtrace.Str(g)
	}
	if f == "" {
		f = "several"
	}
	return f
}

func eval(path string) {
	lines, err := vtrace.ReadLines(path)
	if err != nil {
		vtrace.Broken(err.Error())
		return
	}
	distinct := vtrace.NewDistinct()
	reported := map[string]bool{}
	n, nviol, ndrift, nverified, unsignable := 0, 0, 0, 0, 0
	report := func(sig, what string, p pairRec, extra M) {
		nviol++
		if !reported[sig] && len(reported) < 8 {
			reported[sig] = true
			extra["pair"] = p
			vtrace.Violation("C24", sig, what, extra)
		}
	}
	for i, raw := range lines {
		var p pairRec
		if err := json.Unmarshal(raw, &p); err != nil {
			vtrace.Broken(fmt.Sprintf("pair line %d: %v", i+1, err))
			return
		}
		n++
		r1, r2 := p.In.T1.real(), p.In.T2.real()
		b1, ok1 := signed(r1)
		b2, ok2 := signed(r2)
		signable := ok1 && ok2
		eq := signable && bytes.Equal(b1, b2)
		f := fieldOf(p)
		if !p.Out.Sem {
			distinct.Add(fmt.Sprint(p.A, f, p.In.T1, p.In.T2))
		}
		if !signable {
			unsignable++
		}
		switch {
		case signable && !p.Out.Sem && eq:
			report(fmt.Sprintf("C24/%s/same-bytes-for-different-values/%s", f, p.Cls),
				fmt.Sprintf("GetDataForSigning returns identical bytes %q for two transactions that differ in %s: %+v vs %+v",
					b1, f, p.In.T1, p.In.T2), p, M{"bytes": string(b1)})
		case signable && p.Out.Sem && !eq:
			report(fmt.Sprintf("C24/%s/different-bytes-for-identical-values/%s", f, p.Cls),
				fmt.Sprintf("GetDataForSigning returns different bytes %q / %q for identical field values (%s)", b1, b2, f), p, M{})
		case p.Cls == "none" && (signable != p.Out.Signable || (signable && eq != p.Out.Eq)):
			ndrift++
			if ndrift <= 3 {
				vtrace.Drift("C24", fmt.Sprintf("real (signable=%v, equal bytes=%v) differs from SigningFields.tla (signable=%v, eq=%v) on %s pair %+v / %+v (property-neutral)",
					signable, eq, p.Out.Signable, p.Out.Eq, f, p.In.T1, p.In.T2), nil)
			}
		}
		// verification side: the message the interceptor verifies for each transaction
		if signable {
			m1, v1 := verified(r1)
			m2, v2 := verified(r2)
			if v1 && v2 {
				nverified++
				if !p.Out.Sem && bytes.Equal(m1, m2) {
					report(fmt.Sprintf("C24/verifySig/%s/same-message-verified-for-different-values/%s", f, p.Cls),
						fmt.Sprintf("InterceptedTransaction.verifySig verifies the same message for two transactions that differ in %s: %+v vs %+v",
							f, p.In.T1, p.In.T2), p, M{})
				}
				if p.Out.Sem && !bytes.Equal(m1, m2) {
					report(fmt.Sprintf("C24/verifySig/%s/different-message-for-identical-values/%s", f, p.Cls),
						"InterceptedTransaction.verifySig verifies different messages for identical field values", p, M{})
				}
			}
		}
		if i%4001 == 7 {
			vtrace.Sample("C24", M{"kind": p.A, "field": f, "t1": p.In.T1, "t2": p.In.T2, "spec_sem_equal": p.Out.Sem,
				"real_signed_bytes_equal": eq, "signed_1": string(b1)})
		}
	}
	vtrace.Stat("pairs", n)
	vtrace.Stat("distinct_semantically_different_pairs", distinct.Len())
	vtrace.Stat("pairs_checked_at_verifySig", nverified)
	vtrace.Stat("unsignable_pairs", unsignable)
	vtrace.Stat("violations", nviol)
	vtrace.Stat("drift", ndrift)
}

// ---------------------------------------------------------------- random pairs -> trace

var interesting = []int{0, 0x22, 0x41, 0x5c, 0x7f, 0x80, 0xa0, 0xbd, 0xbf, 0xc0, 0xc2, 0xdf, 0xe0, 0xed, 0xef, 0xf0, 0xf4, 0xf5, 0xff, 0x0a, 0x3c, 0x26}

func rndBytes(rng *rand.Rand, maxLen int) bv {
	if rng.Intn(8) == 0 {
		return bv{Nil: true, B: []int{}}
	}
	n := rng.Intn(maxLen + 1)
	b := make([]int, n)
	for i := range b {
		if rng.Intn(3) == 0 {
			b[i] = rng.Intn(256)
		} else {
			b[i] = interesting[rng.Intn(len(interesting))]
		}
	}
	return bv{B: b}
}

func rndNum(rng *rand.Rand, bits uint) string {
	switch rng.Intn(5) {
	case 0:
		return "0"
	case 1:
		return strconv.FormatUint(uint64(rng.Intn(4)), 10)
	case 2:
		return new(big.Int).Sub(new(big.Int).Lsh(big.NewInt(1), bits), big.NewInt(int64(1+rng.Intn(2)))).String()
	}
	return new(big.Int).Rand(rng, new(big.Int).Lsh(big.NewInt(1), bits)).String()
}

func rndTx(rng *rand.Rand) stx {
	return stx{Nonce: rndNum(rng, 64), Value: rndNum(rng, 90), Rcv: bv{B: []int{rng.Intn(256), rng.Intn(256)}},
		Snd: bv{B: []int{rng.Intn(256), rng.Intn(256)}}, SndUser: rndBytes(rng, 5), RcvUser: rndBytes(rng, 5),
		GasPrice: rndNum(rng, 64), GasLimit: rndNum(rng, 64), Data: rndBytes(rng, 6), ChainID: rndBytes(rng, 4),
		Version: rndNum(rng, 32), Options: rndNum(rng, 32)}
}

var fieldNames = []string{"nonce", "value", "rcv", "snd", "sndUser", "rcvUser", "gasPrice", "gasLimit", "data", "chainID", "version", "options"}

func mutate(rng *rand.Rand, t stx, f string) stx {
	o := rndTx(rng)
	switch f {
	case "nonce":
		t.Nonce = o.Nonce
	case "value":
		t.Value = o.Value
	case "rcv":
		t.Rcv = o.Rcv
	case "snd":
		t.Snd = o.Snd
	case "sndUser":
		t.SndUser = o.SndUser
	case "rcvUser":
		t.RcvUser = o.RcvUser
	case "gasPrice":
		t.GasPrice = o.GasPrice
	case "gasLimit":
		t.GasLimit = o.GasLimit
	case "data":
		t.Data = o.Data
	case "chainID":
		t.ChainID = o.ChainID
	case "version":
		t.Version = o.Version
	case "options":
		t.Options = o.Options
	}
	return t
}

func record(seed int64, n int, out string) {
	w, err := vtrace.NewWriter(out)
	if err != nil {
		vtrace.Broken(err.Error())
		return
	}
	rng := rand.New(rand.NewSource(seed))
	w.NewTraceWith("New", M{"x": 0}, M{"x": 0}, M{})
	for i := 0; i < n; i++ {
		t1 := rndTx(rng)
		t2 := t1
		k := 1
		if rng.Intn(3) == 0 {
			k = 1 + rng.Intn(3)
		}
		for j := 0; j < k; j++ {
			f := fieldNames[rng.Intn(len(fieldNames))]
			if rng.Intn(3) == 0 {
				f = "chainID" // the field with the lossy encoding gets more attention
			}
			t2 = mutate(rng, t2, f)
		}
		b1, ok1 := signed(t1.real())
		b2, ok2 := signed(t2.real())
		signable := ok1 && ok2
		w.Emit("Multi", M{"d": M{"x": 0}, "t1": t1, "t2": t2}, M{"signable": signable, "eq": signable && bytes.Equal(b1, b2)}, M{})
	}
	if err := w.Close(); err != nil {
		vtrace.Broken(err.Error())
	}
	vtrace.Stat("events", w.N)
}

func main() {
	vtrace.Quiet()
	if len(os.Args) < 2 {
		fmt.Fprintln(os.Stderr, "usage: vh-signing eval <pairs> | record <seed> <n> <out>")
		os.Exit(2)
	}
	atoi := func(s string) int { n, _ := strconv.Atoi(s); return n }
	switch os.Args[1] {
	case "eval":
		eval(os.Args[2])
	case "record":
		record(int64(atoi(os.Args[2])), atoi(os.Args[3]), os.Args[4])
	default:
		os.Exit(2)
	}
}
