package main

// Schedule control without timing.  Every call that a goroutine other than the driver's makes
//   - to the main trie DB's Get                       (the storage manager's snapshot loop reading a node)
//   - to StorageManager.TakeSnapshot / SetCheckpoint  (the accounts goroutine of a snapshot/checkpoint job
//     about to queue the main trie or a data trie)
// parks at the gate until the driver releases it.  After every action the driver waits until every
// other goroutine of the process is blocked (runtime.Stack reports no other goroutine as running /
// runnable / sleeping), so the set of parked goroutines it then sees is stable and the run is a
// deterministic function of the driver's choices.

import (
	"bytes"
	"fmt"
	"os"
	"runtime"
	"sort"
	"strconv"
	"sync"
	"time"

	"github.com/ElrondNetwork/elrond-go/core"
	"github.com/ElrondNetwork/elrond-go/data"
)

type parkedG struct {
	g       int64
	kind    string // get | take | cp
	key     []byte
	release chan struct{}
}

type gate struct {
	mu      sync.Mutex
	on      bool
	driver  int64
	waiting []*parkedG
}

func newGate() *gate { return &gate{driver: goid()} }

func (g *gate) set(on bool) {
	g.mu.Lock()
	g.on = on
	g.mu.Unlock()
}

func (g *gate) park(kind string, key []byte) {
	g.mu.Lock()
	if !g.on {
		g.mu.Unlock()
		return
	}
	id := goid()
	if id == g.driver {
		g.mu.Unlock()
		return
	}
	p := &parkedG{g: id, kind: kind, key: append([]byte(nil), key...), release: make(chan struct{})}
	g.waiting = append(g.waiting, p)
	g.mu.Unlock()
	<-p.release
}

func (g *gate) parked() []*parkedG {
	g.mu.Lock()
	r := append([]*parkedG(nil), g.waiting...)
	g.mu.Unlock()
	// arrival order is a race between goroutines; a canonical order keeps the run a function of the seed
	sort.Slice(r, func(i, j int) bool {
		if r[i].kind != r[j].kind {
			return r[i].kind < r[j].kind
		}
		return bytes.Compare(r[i].key, r[j].key) < 0
	})
	return r
}

func (g *gate) releaseOne(p *parkedG) {
	g.mu.Lock()
	for i, q := range g.waiting {
		if q == p {
			g.waiting = append(g.waiting[:i:i], g.waiting[i+1:]...)
			break
		}
	}
	g.mu.Unlock()
	close(p.release)
}

const settleTimeout = 60 * time.Second

// wait reasons of goroutines that cannot continue by themselves; every other state (running, runnable,
// preempted, sleep, syscall, GC assist ...) means the goroutine may still make progress
var blockedState = map[string]bool{
	"chan receive": true, "chan send": true, "select": true, "select (no cases)": true,
	"chan receive (nil chan)": true, "chan send (nil chan)": true,
	// not "semacquire": a goroutine that wants to start a GC cycle waits for the world semaphore that our own
	// runtime.Stack(all) holds
	"sync.Mutex.Lock": true, "sync.RWMutex.RLock": true, "sync.RWMutex.Lock": true,
	"sync.Cond.Wait": true, "sync.WaitGroup.Wait": true, "IO wait": true, "finalizer wait": true,
	"GC worker (idle)": true, "force gc (idle)": true, "GC sweep wait": true, "GC scavenge wait": true,
}

var lastSettle []byte
var settleLog []string

// settle returns when every goroutine other than the caller is blocked
func settle() error {
	deadline := time.Now().Add(settleTimeout)
	buf := make([]byte, 1<<16)
	for spins := 0; ; spins++ {
		n := runtime.Stack(buf, true)
		for n == len(buf) {
			buf = make([]byte, 2*len(buf))
			n = runtime.Stack(buf, true)
		}
		busy := ""
		first := true
		for _, blk := range bytes.Split(buf[:n], []byte("\n\n")) {
			if !bytes.HasPrefix(blk, []byte("goroutine ")) {
				continue
			}
			if first { // the first block is the calling goroutine
				first = false
				continue
			}
			i := bytes.IndexByte(blk, '[')
			j := bytes.IndexAny(blk, ",]")
			if i < 0 || j < i {
				continue
			}
			st := string(blk[i+1 : j])
			if !blockedState[st] {
				busy = st
				break
			}
		}
		if busy == "" {
			lastSettle = append(lastSettle[:0], buf[:n]...)
			if os.Getenv("VH_DEBUG") != "" {
				hs := ""
				for _, blk := range bytes.Split(buf[:n], []byte("\n\n")) {
					if k := bytes.IndexByte(blk, '\n'); k > 0 && !bytes.Contains(blk, []byte("trieStorageManager.go:106")) {
						hs += string(blk[:k]) + " | "
					}
				}
				settleLog = append(settleLog, hs)
				if len(settleLog) > 12 {
					settleLog = settleLog[1:]
				}
			}
			return nil
		}
		if time.Now().After(deadline) {
			return fmt.Errorf("other goroutines still %s after %v:\n%s", busy, settleTimeout, buf[:n])
		}
		if spins < 50 {
			runtime.Gosched()
		} else {
			time.Sleep(50 * time.Microsecond)
		}
	}
}

// tsmGate is the StorageManager handed to the trie / AccountsDB: the real trieStorageManager, with the
// two queueing calls gated
type tsmGate struct {
	data.StorageManager
	g *gate
}

func (t *tsmGate) TakeSnapshot(root []byte, newDb bool, ch chan core.KeyValueHolder) {
	t.g.park("take", root)
	t.StorageManager.TakeSnapshot(root, newDb, ch)
}

func (t *tsmGate) SetCheckpoint(root []byte, ch chan core.KeyValueHolder) {
	t.g.park("cp", root)
	t.StorageManager.SetCheckpoint(root, ch)
}

func (t *tsmGate) IsInterfaceNil() bool { return t == nil }

var _ = strconv.Itoa
