package main

// Schedule control without timing.  Every call that a goroutine other than the driver's makes
//   - to the main trie DB's Get                       (the storage manager's snapshot loop reading a node)
//   - to StorageManager.TakeSnapshot / SetCheckpoint  (the accounts goroutine of a snapshot/checkpoint job
//     about to queue the main trie or a data trie)
// parks at the gate until the driver releases it.  After every action the driver waits until every
// other goroutine of the process is blocked (runtime.Stack reports no other goroutine as running /
// runnable / sleeping), so the set of parked goroutines it then sees is stable and the run is a
// deterministic function of the driver's choices.

import (
	"bytes"
	"fmt"
	"runtime"
	"strconv"
	"sync"
	"time"

	"github.com/ElrondNetwork/elrond-go/core"
	"github.com/ElrondNetwork/elrond-go/data"
)

type parkedG struct {
	g       int64
	kind    string // get | take | cp
	key     []byte
	release chan struct{}
}

type gate struct {
	mu      sync.Mutex
	on      bool
	driver  int64
	waiting []*parkedG
}

func newGate() *gate { return &gate{driver: goid()} }

func (g *gate) set(on bool) {
	g.mu.Lock()
	g.on = on
	g.mu.Unlock()
}

func (g *gate) park(kind string, key []byte) {
	g.mu.Lock()
	if !g.on {
		g.mu.Unlock()
		return
	}
	id := goid()
	if id == g.driver {
		g.mu.Unlock()
		return
	}
	p := &parkedG{g: id, kind: kind, key: append([]byte(nil), key...), release: make(chan struct{})}
	g.waiting = append(g.waiting, p)
	g.mu.Unlock()
	<-p.release
}

func (g *gate) parked() []*parkedG {
	g.mu.Lock()
	r := append([]*parkedG(nil), g.waiting...)
	g.mu.Unlock()
	return r
}

func (g *gate) releaseOne(p *parkedG) {
	g.mu.Lock()
	for i, q := range g.waiting {
		if q == p {
			g.waiting = append(g.waiting[:i:i], g.waiting[i+1:]...)
			break
		}
	}
	g.mu.Unlock()
	close(p.release)
}

const settleTimeout = 30 * time.Second

// settle returns when every goroutine other than the caller is blocked
func settle() error {
	deadline := time.Now().Add(settleTimeout)
	buf := make([]byte, 1<<16)
	for spins := 0; ; spins++ {
		n := runtime.Stack(buf, true)
		for n == len(buf) {
			buf = make([]byte, 2*len(buf))
			n = runtime.Stack(buf, true)
		}
		busy := ""
		first := true
		for _, blk := range bytes.Split(buf[:n], []byte("\n\n")) {
			if !bytes.HasPrefix(blk, []byte("goroutine ")) {
				continue
			}
			if first { // the first block is the calling goroutine
				first = false
				continue
			}
			i := bytes.IndexByte(blk, '[')
			j := bytes.IndexAny(blk, ",]")
			if i < 0 || j < i {
				continue
			}
			st := string(blk[i+1 : j])
			switch st {
			case "running", "runnable", "sleep", "syscall":
				busy = st
			}
			if busy != "" {
				break
			}
		}
		if busy == "" {
			return nil
		}
		if time.Now().After(deadline) {
			return fmt.Errorf("other goroutines still %s after %v:\n%s", busy, settleTimeout, buf[:n])
		}
		if spins < 50 {
			runtime.Gosched()
		} else {
			time.Sleep(50 * time.Microsecond)
		}
	}
}

// tsmGate is the StorageManager handed to the trie / AccountsDB: the real trieStorageManager, with the
// two queueing calls gated
type tsmGate struct {
	data.StorageManager
	g *gate
}

func (t *tsmGate) TakeSnapshot(root []byte, newDb bool, ch chan core.KeyValueHolder) {
	t.g.park("take", root)
	t.StorageManager.TakeSnapshot(root, newDb, ch)
}

func (t *tsmGate) SetCheckpoint(root []byte, ch chan core.KeyValueHolder) {
	t.g.park("cp", root)
	t.StorageManager.SetCheckpoint(root, ch)
}

func (t *tsmGate) IsInterfaceNil() bool { return t == nil }

var _ = strconv.Itoa
