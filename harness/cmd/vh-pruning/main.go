// vh-pruning binds specs/StatePruning to the real AccountsDB + storagePruningManager + evictionWaitingList +
// trieStorageManager + the pruning call sites of baseProcessor.
//
//	vh-pruning record <seed> <traces> <len> <out> [mode]   random block histories on the real stack -> ndjson trace
//	vh-pruning schedules <behaviours.ndjson> <out>         TLC schedule-level behaviours replayed on the real stack -> ndjson trace
//	vh-pruning script <file.json> <out>                    one hand-written schedule (probing / replay of a violation)
package main

import (
	"encoding/json"
	"fmt"
	"io/ioutil"
	"math/rand"
	"os"
	"strconv"

	"verif/harness/internal/vtrace"
)

// op is one schedule step
type op struct {
	Op      string `json:"op"` // commit reapply finalize rollback enter exit snap cp step drain
	Txs     []txop `json:"txs,omitempty"`
	Idx     int    `json:"idx,omitempty"` // snap/cp: index into the live chain (negative: from the head)
	Reapply bool   `json:"reapply,omitempty"`
}

type script struct {
	Cfg     cfg    `json:"cfg"`
	Genesis []txop `json:"genesis"`
	Ops     []op   `json:"ops"`
}

func defaultCfg() cfg {
	return cfg{EwlSize: 100, BufLen: 100, Queue: 0, Level: 5, HolderMax: 10000000, MaxSnaps: 2, CpMod: 0}
}

func newDriver(c cfg, w *vtrace.Writer) (*driver, error) {
	s, err := newStack(c, scratchDir)
	if err != nil {
		return nil, err
	}
	d := &driver{s: s, w: w, rolled: map[int][]blk{}, maxJobs: 1}
	d.q = &recQueue{inner: s.pq}
	d.ncp = s.adb.GetNumCheckpoints()
	s.g.set(true)
	return d, nil
}

var scratchDir string

func (d *driver) do(o op, rng *rand.Rand) error {
	switch o.Op {
	case "commit":
		txs := o.Txs
		if txs == nil && rng != nil {
			txs = randomTxs(rng)
		}
		return d.commit(txs, o.Reapply)
	case "reapply":
		return d.commit(nil, true)
	case "noop":
		return d.noop()
	case "finalize":
		return d.finalize()
	case "rollback":
		return d.rollback()
	case "enter":
		d.enter()
		return nil
	case "exit":
		return d.exit()
	case "snap", "cp":
		idx := o.Idx
		if idx < 0 {
			idx = len(d.chain) + idx
		}
		return d.startJob(o.Op, idx)
	case "step":
		return d.step()
	case "lstep":
		if p := d.parkedLoop(); p != nil {
			return d.release(p)
		}
		return fmt.Errorf("the snapshot loop is not parked")
	case "genq":
		if o.Idx < 1 || o.Idx > len(d.jobs) || d.parkedJob(d.jobs[o.Idx-1]) == nil {
			return fmt.Errorf("accounts goroutine of job %d is not parked", o.Idx)
		}
		return d.release(d.parkedJob(d.jobs[o.Idx-1]))
	case "drain":
		return d.drainJobs()
	case "todata":
		return d.stepToDataTrie()
	}
	return fmt.Errorf("unknown op %q", o.Op)
}

// finish ends a trace: all jobs are drained, manual blocks released (so that no goroutine is left parked)
func (d *driver) finish() error {
	if err := d.drainJobs(); err != nil {
		return err
	}
	d.s.g.set(false)
	for d.manual > 0 {
		if err := d.exit(); err != nil {
			return err
		}
	}
	d.s.close()
	return nil
}

// abort ends a trace after a failed operation: every parked goroutine is let go
func (d *driver) abort() {
	d.s.g.set(false)
	for _, p := range d.s.g.parked() {
		d.s.g.releaseOne(p)
	}
	for d.manual > 0 {
		d.s.tsm.ExitPruningBufferingMode()
		d.manual--
	}
	_ = settle()
	d.s.close()
}

func randomTxs(rng *rand.Rand) []txop {
	n := rng.Intn(4)
	txs := make([]txop, 0, n)
	dataTouched := map[int]bool{}
	for i := 0; i < n; i++ {
		t := txop{A: 1 + rng.Intn(3)}
		r := rng.Intn(100)
		if r >= 65 && r < 80 && dataTouched[t.A] {
			// RemoveAccount after a data trie change of the same account in the same block is refused by
			// AccountsDB (the account's new data root is not committed yet)
			r = 90
		}
		switch {
		case r < 38:
			t.K, t.X, t.V = "set", rng.Intn(len(dkeys)), 1+rng.Intn(2)
		case r < 45:
			// there and back inside one block: when the key already holds V, the same node hashes are reported both
			// as obsolete and as new by this commit (removeDuplicatedKeys)
			t.K, t.X, t.V = "set", rng.Intn(len(dkeys)), 1+rng.Intn(2)
			txs = append(txs, txop{K: "set", A: t.A, X: t.X, V: 3})
		case r < 65:
			t.K, t.X = "del", rng.Intn(len(dkeys))
		case r < 80:
			t.K = "rm"
		case r < 95:
			t.K, t.V = "bal", rng.Intn(3)
		default:
			t.K, t.V = "code", 1+rng.Intn(2)
		}
		if t.K == "set" || t.K == "del" {
			dataTouched[t.A] = true
		}
		txs = append(txs, t)
	}
	return txs
}

func genesisTxs(rng *rand.Rand) []txop {
	txs := []txop{}
	for a := 1; a <= 3; a++ {
		if rng.Intn(4) == 0 {
			continue
		}
		txs = append(txs, txop{K: "bal", A: a, V: 1})
		for k := range dkeys {
			if rng.Intn(2) == 0 {
				txs = append(txs, txop{K: "set", A: a, X: k, V: 1 + rng.Intn(2)})
			}
		}
	}
	return txs
}

func runScript(path, out string) {
	raw, err := ioutil.ReadFile(path)
	if err != nil {
		vtrace.Broken(err.Error())
		return
	}
	sc := script{Cfg: defaultCfg()}
	if err := json.Unmarshal(raw, &sc); err != nil {
		vtrace.Broken(err.Error())
		return
	}
	w, err := vtrace.NewWriter(out)
	if err != nil {
		vtrace.Broken(err.Error())
		return
	}
	d, err := newDriver(sc.Cfg, w)
	if err != nil {
		vtrace.Broken(err.Error())
		return
	}
	if err := d.genesis(sc.Cfg, sc.Genesis); err != nil {
		vtrace.Broken("genesis: " + err.Error())
		return
	}
	for i, o := range sc.Ops {
		if err := d.do(o, nil); err != nil {
			vtrace.Broken(fmt.Sprintf("op %d %+v: %v", i, o, err))
			break
		}
	}
	if err := d.finish(); err != nil {
		vtrace.Broken(err.Error())
	}
	_ = w.Close()
	vtrace.Stat("events", w.N)
}

func main() {
	vtrace.Quiet()
	if len(os.Args) < 2 {
		fmt.Fprintln(os.Stderr, "usage: vh-pruning record|schedules|script ...")
		os.Exit(2)
	}
	dir, err := ioutil.TempDir("", "vh-pruning-")
	if err != nil {
		vtrace.Broken(err.Error())
		os.Exit(2)
	}
	scratchDir = dir
	defer os.RemoveAll(dir)
	switch os.Args[1] {
	case "script":
		runScript(os.Args[2], os.Args[3])
	case "schedules":
		seed, _ := strconv.ParseInt(os.Getenv("VERIF_SEED"), 10, 64)
		schedules(os.Args[2], os.Args[3], seed)
	case "record":
		seed, _ := strconv.ParseInt(os.Args[2], 10, 64)
		traces, _ := strconv.Atoi(os.Args[3])
		n, _ := strconv.Atoi(os.Args[4])
		mode := "mixed"
		if len(os.Args) > 6 {
			mode = os.Args[6]
		}
		record(seed, traces, n, os.Args[5], mode)
	default:
		os.Exit(2)
	}
}
