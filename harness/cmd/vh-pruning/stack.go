package main

// The real stack under test: AccountsDB + storagePruningManager + evictionWaitingList +
// trieStorageManager (pruning enabled, snapshot DBs = MemoryDB created by the real code) over a
// recording main DB, plus the two pruning call sites of baseProcessor (hook file
// process/block/statepruning_verif.go).  No model logic here: the wrappers only record.

import (
	"bytes"
	"errors"
	"fmt"
	"runtime"
	"sort"
	"sync"

	"github.com/ElrondNetwork/elrond-go/config"
	"github.com/ElrondNetwork/elrond-go/core"
	"github.com/ElrondNetwork/elrond-go/core/queue"
	"github.com/ElrondNetwork/elrond-go/data"
	"github.com/ElrondNetwork/elrond-go/data/state"
	"github.com/ElrondNetwork/elrond-go/data/state/factory"
	"github.com/ElrondNetwork/elrond-go/data/state/storagePruningManager"
	"github.com/ElrondNetwork/elrond-go/data/state/storagePruningManager/evictionWaitingList"
	"github.com/ElrondNetwork/elrond-go/data/trie"
	"github.com/ElrondNetwork/elrond-go/data/trie/hashesHolder"
	"github.com/ElrondNetwork/elrond-go/hashing/sha256"
	"github.com/ElrondNetwork/elrond-go/marshal"
	"github.com/ElrondNetwork/elrond-go/process/block"
	"github.com/ElrondNetwork/elrond-go/storage/memorydb"
	"github.com/ElrondNetwork/elrond-go/storage/storageUnit"
	"verif/harness/internal/vtrace"
)

var (
	marsh  = &marshal.GogoProtoMarshalizer{}
	hasher = sha256.NewSha256()
)

var numCheckpointsKey = []byte("state checkpoint")

// goid returns the id of the calling goroutine (used only to tell the driver's own DB reads from
// the reads of the snapshot goroutine; no timing involved)
func goid() int64 {
	var buf [64]byte
	n := runtime.Stack(buf[:], false)
	// "goroutine 123 [running]:"
	s := buf[len("goroutine "):n]
	var id int64
	for _, c := range s {
		if c < '0' || c > '9' {
			break
		}
		id = id*10 + int64(c-'0')
	}
	return id
}

// recDB is the main trie DB: a real memorydb plus an archive of everything ever written (so that
// Reach(root) can be computed after nodes have been deleted), the set of present keys, the log of
// removals of the current step, and the gate for reads issued by other goroutines.
type recDB struct {
	mu      sync.Mutex
	inner   *memorydb.DB
	archive map[string][]byte
	present map[string]struct{}
	removed [][]byte // keys removed since last drain
	puts    [][]byte

	g   *gate
	ids *vtrace.Interner // hashes are interned in write order, so that ids do not depend on map iteration
}

func newRecDB(g *gate, ids *vtrace.Interner) *recDB {
	return &recDB{inner: memorydb.New(), archive: map[string][]byte{}, present: map[string]struct{}{}, g: g, ids: ids}
}

func (d *recDB) Put(key, val []byte) error {
	d.mu.Lock()
	if !bytes.Equal(key, numCheckpointsKey) {
		d.archive[string(key)] = append([]byte(nil), val...)
		d.present[string(key)] = struct{}{}
		d.puts = append(d.puts, append([]byte(nil), key...))
	}
	d.mu.Unlock()
	return d.inner.Put(key, val)
}

func (d *recDB) Get(key []byte) ([]byte, error) {
	d.g.park("get", key)
	return d.inner.Get(key)
}

func (d *recDB) Remove(key []byte) error {
	d.mu.Lock()
	if _, ok := d.present[string(key)]; ok {
		delete(d.present, string(key))
		d.removed = append(d.removed, append([]byte(nil), key...))
	}
	d.mu.Unlock()
	return d.inner.Remove(key)
}

func (d *recDB) Close() error         { return nil }
func (d *recDB) IsInterfaceNil() bool { return d == nil }

func (d *recDB) drain() (removed [][]byte, puts [][]byte) {
	d.mu.Lock()
	removed, puts = d.removed, d.puts
	d.removed, d.puts = nil, nil
	d.mu.Unlock()
	return
}

func (d *recDB) has(key []byte) bool {
	d.mu.Lock()
	_, ok := d.present[string(key)]
	d.mu.Unlock()
	return ok
}

func (d *recDB) presentKeys() [][]byte {
	d.mu.Lock()
	r := make([][]byte, 0, len(d.present))
	for k := range d.present {
		r = append(r, []byte(k))
	}
	d.mu.Unlock()
	return r
}

// archiveView reads the archive (never deletes); used to compute the ground truth Reach(root)
type archiveView struct{ d *recDB }

func (a archiveView) Put(_, _ []byte) error { return nil }
func (a archiveView) Get(key []byte) ([]byte, error) {
	a.d.mu.Lock()
	v, ok := a.d.archive[string(key)]
	a.d.mu.Unlock()
	if !ok {
		return nil, errors.New("archive: key not found")
	}
	return v, nil
}
func (a archiveView) Remove(_ []byte) error { return nil }
func (a archiveView) Close() error          { return nil }
func (a archiveView) IsInterfaceNil() bool  { return false }

// roView reads any DBWriteCacher without writing to it (snapshot DBs)
type roView struct{ db data.DBWriteCacher }

func (a roView) Put(_, _ []byte) error          { return nil }
func (a roView) Get(key []byte) ([]byte, error) { return a.db.Get(key) }
func (a roView) Remove(_ []byte) error          { return nil }
func (a roView) Close() error                   { return nil }
func (a roView) IsInterfaceNil() bool           { return false }
func newReader(db data.DBWriteCacher) (data.Trie, error) {
	tsm, err := trie.NewTrieStorageManagerWithoutPruning(db)
	if err != nil {
		return nil, err
	}
	return trie.NewTrie(tsm, marsh, hasher, 5)
}

// reach enumerates every node hash of the main trie with the given root and of every data trie of
// every account in it, reading through `db` with the real trie code.
func reach(db data.DBWriteCacher, root []byte) (main [][]byte, dataTries map[string][][]byte, err error) {
	tr, err := newReader(db)
	if err != nil {
		return nil, nil, err
	}
	t2, err := tr.Recreate(root)
	if err != nil {
		return nil, nil, err
	}
	main, err = t2.GetAllHashes()
	if err != nil {
		return nil, nil, err
	}
	ch, err := t2.GetAllLeavesOnChannel(root)
	if err != nil {
		return nil, nil, err
	}
	var leaves [][]byte
	for l := range ch {
		leaves = append(leaves, l.Value())
	}
	dataTries = map[string][][]byte{}
	for _, v := range leaves {
		acc := &state.UserAccountData{}
		if e := marsh.Unmarshal(acc, v); e != nil {
			continue
		}
		if len(acc.RootHash) == 0 || len(acc.Address) == 0 {
			continue
		}
		dt, e := tr.Recreate(acc.RootHash)
		if e != nil {
			return nil, nil, fmt.Errorf("data trie %x of %x: %v", acc.RootHash, acc.Address, e)
		}
		hs, e := dt.GetAllHashes()
		if e != nil {
			return nil, nil, fmt.Errorf("data trie %x of %x: %v", acc.RootHash, acc.Address, e)
		}
		dataTries[string(acc.RootHash)] = hs
	}
	return main, dataTries, nil
}

// ewlRec records the calls made to the real evictionWaitingList
type ewlCall struct {
	op     string // put evict keep
	key    []byte // root||identifier (put/evict) or hash (keep)
	ident  int
	hashes [][]byte
	keep   bool
}

type ewlRec struct {
	inner  state.DBRemoveCacher
	mu     sync.Mutex
	calls  []ewlCall
	shadow map[string][][]byte // key -> hashes, maintained from observed Put/Evict only
}

func sortedKeys(m data.ModifiedHashes) [][]byte {
	r := make([][]byte, 0, len(m))
	for k := range m {
		r = append(r, []byte(k))
	}
	sort.Slice(r, func(i, j int) bool { return bytes.Compare(r[i], r[j]) < 0 })
	return r
}

func (e *ewlRec) Put(key []byte, hs data.ModifiedHashes) error {
	e.mu.Lock()
	ks := sortedKeys(hs)
	e.calls = append(e.calls, ewlCall{op: "put", key: append([]byte(nil), key...), hashes: ks})
	e.shadow[string(key)] = ks
	e.mu.Unlock()
	return e.inner.Put(key, hs)
}

func (e *ewlRec) Evict(key []byte) (data.ModifiedHashes, error) {
	hs, err := e.inner.Evict(key)
	e.mu.Lock()
	e.calls = append(e.calls, ewlCall{op: "evict", key: append([]byte(nil), key...), hashes: sortedKeys(hs)})
	delete(e.shadow, string(key))
	e.mu.Unlock()
	return hs, err
}

func (e *ewlRec) ShouldKeepHash(hash string, id data.TriePruningIdentifier) (bool, error) {
	k, err := e.inner.ShouldKeepHash(hash, id)
	e.mu.Lock()
	e.calls = append(e.calls, ewlCall{op: "keep", key: []byte(hash), ident: int(id), keep: k})
	e.mu.Unlock()
	return k, err
}
func (e *ewlRec) Close() error         { return e.inner.Close() }
func (e *ewlRec) IsInterfaceNil() bool { return e == nil }
func (e *ewlRec) drain() []ewlCall {
	e.mu.Lock()
	c := e.calls
	e.calls = nil
	e.mu.Unlock()
	return c
}

// holderRec wraps the real checkpoint hashes holder; RemoveCommitted (called by TakeSnapshot on the
// accounts goroutine before the request is queued) is a second gate point.
type holderRec struct {
	inner data.CheckpointHashesHolder
}

func (h *holderRec) Put(r []byte, hs data.ModifiedHashes) bool { return h.inner.Put(r, hs) }
func (h *holderRec) RemoveCommitted(r []byte)                  { h.inner.RemoveCommitted(r) }
func (h *holderRec) Remove(hash []byte)                        { h.inner.Remove(hash) }
func (h *holderRec) ShouldCommit(hash []byte) bool             { return h.inner.ShouldCommit(hash) }
func (h *holderRec) IsInterfaceNil() bool                      { return h == nil }

// cfg is the configuration of one stack (chosen by the driver / by the TLC behaviour's New record)
type cfg struct {
	EwlSize   int `json:"ewl"`   // evictionWaitingList cache size (spills to its DB above it)
	BufLen    int `json:"buf"`   // pruning buffer length
	Queue     int `json:"q"`     // UserStatePruningQueueSize
	Level     int `json:"lvl"`   // maxTrieLevelInMemory
	HolderMax int `json:"hold"`  // checkpoint hashes holder max size in bytes
	MaxSnaps  int `json:"snaps"` // MaxSnapshots
	CpMod     int `json:"cpmod"` // stateCheckpointModulus (0 = off)
}

type stack struct {
	c     cfg
	g     *gate
	db    *recDB
	ewl   *ewlRec
	tsm   data.StorageManager
	adb   *state.AccountsDB
	sites *block.StatePruningSitesVerif
	pq    core.Queue
	ids   *vtrace.Interner
}

func newStack(c cfg, scratch string) (*stack, error) {
	s := &stack{c: c, g: newGate(), ids: vtrace.NewInterner()}
	s.db = newRecDB(s.g, s.ids)
	holder := &holderRec{inner: hashesHolder.NewCheckpointHashesHolder(uint64(c.HolderMax), uint64(hasher.Size()))}
	args := trie.NewTrieStorageManagerArgs{
		DB:          s.db,
		Marshalizer: marsh,
		Hasher:      hasher,
		SnapshotDbConfig: config.DBConfig{
			FilePath: scratch, // never created: the snapshot DBs are MemoryDB
			Type:     string(storageUnit.MemoryDB),
		},
		GeneralConfig: config.TrieStorageManagerConfig{
			PruningBufferLen:   uint32(c.BufLen),
			SnapshotsBufferLen: 1000,
			MaxSnapshots:       uint32(c.MaxSnaps),
		},
		CheckpointHashesHolder: holder,
	}
	tsm, err := trie.NewTrieStorageManager(args)
	if err != nil {
		return nil, err
	}
	s.tsm = &tsmGate{StorageManager: tsm, g: s.g}
	tr, err := trie.NewTrie(s.tsm, marsh, hasher, uint(c.Level))
	if err != nil {
		return nil, err
	}
	realEwl, err := evictionWaitingList.NewEvictionWaitingList(uint(c.EwlSize), memorydb.New(), marsh)
	if err != nil {
		return nil, err
	}
	s.ewl = &ewlRec{inner: realEwl, shadow: map[string][][]byte{}}
	spm, err := storagePruningManager.NewStoragePruningManager(s.ewl, uint32(c.BufLen))
	if err != nil {
		return nil, err
	}
	s.adb, err = state.NewAccountsDB(tr, hasher, marsh, factory.NewAccountCreator(), spm)
	if err != nil {
		return nil, err
	}
	s.sites = block.NewStatePruningSitesVerif(s.adb, uint(c.CpMod))
	s.pq = queue.NewSliceQueue(uint(c.Queue))
	return s, nil
}

func (s *stack) close() {
	_ = s.adb.Close()
	_ = s.tsm.Close()
}

func (s *stack) id(h []byte) int { return s.ids.ID(h) }
func (s *stack) idset(hs [][]byte) []int {
	// intern in hash order: the ids must not depend on map iteration order (of this harness or of the code under test)
	hs = append([][]byte(nil), hs...)
	sort.Slice(hs, func(i, j int) bool { return bytes.Compare(hs[i], hs[j]) < 0 })
	r := make([]int, 0, len(hs))
	seen := map[int]bool{}
	for _, h := range hs {
		i := s.id(h)
		if !seen[i] {
			seen[i] = true
			r = append(r, i)
		}
	}
	sort.Ints(r)
	return r
}
