package main

// The driver plays baseProcessor + bootstrapper: it applies blocks of account operations on the
// real AccountsDB, commits, finalizes (baseProcessor.updateStateStorage) and rolls back
// (AccountsDB.RecreateTrie + baseProcessor.PruneStateOnRollback), blocks/unblocks pruning and
// starts snapshots/checkpoints, and after every step logs what it observed.

import (
	"bytes"
	"fmt"
	"math/big"
	"os"
	"runtime"
	"sort"

	"github.com/ElrondNetwork/elrond-go/data/block"
	"github.com/ElrondNetwork/elrond-go/data/state"
	"verif/harness/internal/vtrace"
)

type M = vtrace.M

// txop is one account operation of a block
type txop struct {
	K string `json:"k"` // set del rm bal code
	A int    `json:"a"` // account index 1..3
	X int    `json:"x"` // key index
	V int    `json:"v"` // value / balance
}

type blk struct {
	root  []byte
	rid   int
	txs   []txop
	nonce uint64
	nodes []int
}

// Trie keys are read from the LAST byte backwards, low nibble first (trie.keyBytesToHex).  Addresses and storage keys
// are chosen so that main trie and data tries contain a branch whose two children are a leaf and a BRANCH:
//
//	main trie:  root{ 1 -> X{ 0 -> Y{ 0 -> acc1, 1 -> acc2 }, 1 -> acc3 }, f -> system account }
//	data trie:  root{ 1 -> K0, 2 -> B{ 0 -> K1, 1 -> K2 | C{ 0 -> K2, 1 -> K3 } } }
//
// so that removing acc3 / deleting K0 collapses a branch over a committed (not dirty) branch child, removing acc1 or K1
// collapses over a leaf, etc.  The system account (nonce bumped by every block) sits on another path.
func addrEnding(fill byte, tail ...byte) []byte {
	a := bytes.Repeat([]byte{fill}, 32)
	copy(a[32-len(tail):], tail)
	return a
}

var addrs = [][]byte{
	addrEnding(0x31, 0x0f),       // 0: system account
	addrEnding(0x01, 0x00, 0x01), // 1: path 1,0,0,...
	addrEnding(0x02, 0x01, 0x01), // 2: path 1,0,1,...
	addrEnding(0x03, 0x11),       // 3: path 1,1,...
}
var dkeys = [][]byte{{0x00, 0x01}, {0x00, 0x02}, {0x00, 0x12}, {0x01, 0x12}}

// recQueue records what the real pruning queue returned
type recQueue struct {
	inner interface{ Add([]byte) []byte }
	last  []byte
}

func (q *recQueue) Add(d []byte) []byte { q.last = q.inner.Add(d); return q.last }

type job struct {
	kind string // s | c
	root []byte
	rid  int
	g    int64 // goroutine of the accounts DB that runs the job
	idx  int
	done bool
}

type driver struct {
	s       *stack
	w       *vtrace.Writer
	chain   []blk // live (not yet pruned) blocks, oldest first
	nfin    int   // chain[0:nfin] are final
	q       *recQueue
	nonce   uint64
	rolled  map[int][]blk // parent rid -> rolled back children (for re-apply)
	manual  int           // EnterPruningBufferingMode calls of the driver not yet exited
	jobs    []*job
	ncp     uint32 // GetNumCheckpoints baseline
	clean   bool   // this trace avoids the triggers of the known deviations
	maxJobs int    // snapshot/checkpoint jobs allowed to run at the same time
}

func hdr(b blk) *block.Header {
	return &block.Header{Nonce: b.nonce, RootHash: append([]byte(nil), b.root...)}
}

func (d *driver) applyTx(t txop) error {
	adb := d.s.adb
	addr := addrs[t.A]
	if t.K == "rm" {
		acc, err := adb.GetExistingAccount(addr)
		if err != nil || acc == nil {
			return nil
		}
		return adb.RemoveAccount(addr)
	}
	a, err := adb.LoadAccount(addr)
	if err != nil {
		return err
	}
	ua := a.(state.UserAccountHandler)
	switch t.K {
	case "nonce":
		ua.IncreaseNonce(1)
	case "set":
		err = ua.DataTrieTracker().SaveKeyValue(append([]byte(nil), dkeys[t.X]...), []byte(fmt.Sprintf("v%d", t.V)))
	case "del":
		err = ua.DataTrieTracker().SaveKeyValue(append([]byte(nil), dkeys[t.X]...), nil)
	case "bal":
		cur := ua.GetBalance()
		want := big.NewInt(int64(t.V))
		if cur.Cmp(want) < 0 {
			err = ua.AddToBalance(new(big.Int).Sub(want, cur))
		} else if cur.Cmp(want) > 0 {
			err = ua.SubFromBalance(new(big.Int).Sub(cur, want))
		}
	case "code":
		ua.SetCode([]byte(fmt.Sprintf("code-%d", t.V)))
	default:
		return fmt.Errorf("unknown tx kind %q", t.K)
	}
	if err != nil {
		return err
	}
	return adb.SaveAccount(ua)
}

// applyBlock executes the transactions and commits
func (d *driver) applyBlock(txs []txop) ([]byte, error) {
	if err := d.applyTx(txop{K: "nonce", A: 0}); err != nil {
		return nil, err
	}
	for _, t := range txs {
		if err := d.applyTx(t); err != nil {
			return nil, fmt.Errorf("tx %+v: %v", t, err)
		}
	}
	return d.s.adb.Commit()
}

func (d *driver) key(k []byte) M {
	if len(k) == 0 {
		return M{"r": 0, "k": 0}
	}
	return M{"r": d.s.id(k[:len(k)-1]), "k": int(k[len(k)-1])}
}

func (d *driver) ewlState() []M {
	d.s.ewl.mu.Lock()
	defer d.s.ewl.mu.Unlock()
	ks := make([]string, 0, len(d.s.ewl.shadow))
	for k := range d.s.ewl.shadow {
		ks = append(ks, k)
	}
	sort.Strings(ks)
	r := make([]M, 0, len(ks))
	for _, k := range ks {
		m := d.key([]byte(k))
		m["s"] = d.s.idset(d.s.ewl.shadow[k])
		r = append(r, m)
	}
	return r
}

// observe drains the recorders and builds (out, st) of the step just executed
func (d *driver) observe() (M, M) {
	removed, _ := d.s.db.drain()
	calls := d.s.ewl.drain()
	puts, evicts, keeps := []M{}, []M{}, []M{}
	for _, c := range calls {
		switch c.op {
		case "put":
			m := d.key(c.key)
			m["s"] = d.s.idset(c.hashes)
			puts = append(puts, m)
		case "evict":
			m := d.key(c.key)
			m["s"] = d.s.idset(c.hashes)
			evicts = append(evicts, m)
		case "keep":
			keeps = append(keeps, M{"h": d.s.id(c.key), "k": c.ident, "keep": c.keep})
		}
	}
	out := M{"removed": d.s.idset(removed), "puts": puts, "evicts": evicts, "nkeep": len(keeps)}
	roots := make([]int, len(d.chain))
	okRoots := []int{}
	for i, b := range d.chain {
		roots[i] = b.rid
		// the literal observation of the property: recreate + full traversal on the real main DB
		if _, _, err := reach(roView{d.s.db.inner}, b.root); err == nil {
			okRoots = append(okRoots, b.rid)
		}
	}
	sort.Ints(okRoots)
	blkd := 0
	if d.s.tsm.IsPruningBlocked() {
		blkd = 1
	}
	st := M{"db": d.s.idset(d.s.db.presentKeys()), "ewl": d.ewlState(), "blk": blkd,
		"chain": roots, "nfin": d.nfin, "ok": okRoots}
	return out, st
}

func (d *driver) emit(a string, in M, extra M) {
	out, st := d.observe()
	for k, v := range extra {
		out[k] = v
	}
	d.w.Emit(a, in, out, st)
}

func (d *driver) nodesOf(root []byte) ([]int, M, error) {
	main, dts, err := reach(archiveView{d.s.db}, root)
	if err != nil {
		return nil, nil, err
	}
	all := append([][]byte(nil), main...)
	dm := []M{}
	keys := make([]string, 0, len(dts))
	for k := range dts {
		keys = append(keys, k)
	}
	sort.Strings(keys)
	for _, k := range keys {
		all = append(all, dts[k]...)
		dm = append(dm, M{"r": d.s.id([]byte(k)), "n": d.s.idset(dts[k])})
	}
	return d.s.idset(all), M{"main": d.s.idset(main), "dts": dm}, nil
}

// genesis creates the initial final state
func (d *driver) genesis(c cfg, txs []txop) error {
	root, err := d.applyBlock(txs)
	if err != nil {
		return err
	}
	nodes, parts, err := d.nodesOf(root)
	if err != nil {
		return err
	}
	b := blk{root: root, rid: d.s.id(root), txs: txs, nonce: 0, nodes: nodes}
	d.chain = []blk{b}
	d.nfin = 1
	out, st := d.observe()
	out["r"] = b.rid
	out["n"] = nodes
	out["h"] = 0
	out["parts"] = parts
	d.w.NewTraceWith("New", M{"ewl": c.EwlSize, "buf": c.BufLen, "q": c.Queue, "lvl": c.Level, "hold": c.HolderMax,
		"snaps": c.MaxSnaps, "cpmod": c.CpMod, "clean": b2i(d.clean), "f3": b2i(codeSkipsOutdatedCancel())}, out, st)
	return nil
}

func (d *driver) head() blk { return d.chain[len(d.chain)-1] }

// noop is AccountsDB.Commit with nothing dirty (an empty block that does not touch the state): the root must stay
func (d *driver) noop() error {
	parent := d.head()
	root, err := d.s.adb.Commit()
	if err != nil {
		return err
	}
	if d.s.id(root) != parent.rid {
		return fmt.Errorf("Commit without changes moved the root: %d -> %d", parent.rid, d.s.id(root))
	}
	fresh, err := d.sync()
	if err != nil {
		return err
	}
	if len(fresh) > 1 || (len(fresh) == 1 && (fresh[0].kind != "c" || fresh[0].rid != parent.rid)) {
		return fmt.Errorf("Commit started unexpected jobs: %d", len(fresh))
	}
	extra := d.jobObs()
	extra["r"], extra["cp"] = parent.rid, len(fresh)
	d.emit("CommitNoop", M{"x": 0}, extra)
	return nil
}

// commit applies a fresh block (txs) or re-applies a rolled-back child of the head (reapply >= 0)
func (d *driver) commit(txs []txop, reapply bool) error {
	parent := d.head()
	if reapply {
		cands := d.rolled[parent.rid]
		if len(cands) == 0 {
			return fmt.Errorf("nothing to re-apply on %d", parent.rid)
		}
		txs = cands[len(cands)-1].txs
	}
	d.nonce = parent.nonce + 1
	root, err := d.applyBlock(txs)
	if err != nil {
		return err
	}
	nodes, parts, err := d.nodesOf(root)
	if err != nil {
		return err
	}
	b := blk{root: root, rid: d.s.id(root), txs: txs, nonce: d.nonce, nodes: nodes}
	d.chain = append(d.chain, b)
	// a full checkpoint hashes holder makes Commit start a checkpoint job
	fresh, err := d.sync()
	if err != nil {
		return err
	}
	if len(fresh) > 1 || (len(fresh) == 1 && (fresh[0].kind != "c" || fresh[0].rid != b.rid)) {
		return fmt.Errorf("Commit started unexpected jobs: %d", len(fresh))
	}
	extra := d.jobObs()
	extra["r"], extra["n"], extra["h"], extra["parts"], extra["parent"], extra["cp"] = b.rid, nodes, int(b.nonce), parts, parent.rid, len(fresh)
	d.emit("Commit", M{"reapply": b2i(reapply)}, extra)
	return nil
}

func (d *driver) canFinalize() bool { return d.nfin < len(d.chain) }
func (d *driver) canRollback() bool { return len(d.chain) > d.nfin && len(d.chain) >= 2 }

// finalize: the next block of the chain becomes final -> baseProcessor.updateStateStorage
func (d *driver) finalize() error {
	if !d.canFinalize() {
		return fmt.Errorf("nothing to finalize")
	}
	h := d.chain[d.nfin]
	prev := d.chain[d.nfin-1]
	blocked := d.s.tsm.IsPruningBlocked()
	d.q.last = nil
	d.s.sites.UpdateStateStorage(hdr(h), append([]byte(nil), h.root...), append([]byte(nil), prev.root...), d.q)
	d.nfin++
	pruned := 0
	if len(d.q.last) != 0 {
		// whichever root the pruning queue handed to CancelPrune/PruneTrie is no longer live
		pruned = d.s.id(d.q.last)
		for i, b := range d.chain {
			if bytes.Equal(b.root, d.q.last) {
				d.chain = append(d.chain[:i:i], d.chain[i+1:]...)
				if i < d.nfin {
					d.nfin--
				}
				break
			}
		}
	}
	// the checkpoint modulus makes updateStateStorage start a checkpoint job for the final root
	fresh, err := d.sync()
	if err != nil {
		return err
	}
	if len(fresh) > 1 || (len(fresh) == 1 && (fresh[0].kind != "c" || fresh[0].rid != h.rid)) {
		return fmt.Errorf("updateStateStorage started unexpected jobs: %d", len(fresh))
	}
	extra := d.jobObs()
	extra["pruned"], extra["cp"] = pruned, len(fresh)
	d.emit("Finalize", M{"r": h.rid, "wasblocked": b2i(blocked)}, extra)
	return nil
}

// rollback: the head is reverted -> RecreateTrie(prev) + baseProcessor.PruneStateOnRollback
func (d *driver) rollback() error {
	if !d.canRollback() {
		return fmt.Errorf("nothing to roll back")
	}
	cur := d.head()
	prev := d.chain[len(d.chain)-2]
	blocked := d.s.tsm.IsPruningBlocked()
	if err := d.s.adb.RecreateTrie(append([]byte(nil), prev.root...)); err != nil {
		return fmt.Errorf("RecreateTrie(prev): %v", err)
	}
	d.s.sites.PruneStateOnRollback(hdr(cur), hdr(prev))
	d.chain = d.chain[:len(d.chain)-1]
	d.rolled[prev.rid] = append(d.rolled[prev.rid], cur)
	if _, err := d.sync(); err != nil {
		return err
	}
	extra := d.jobObs()
	extra["prev"] = prev.rid
	d.emit("Rollback", M{"r": cur.rid, "wasblocked": b2i(blocked)}, extra)
	return nil
}

func b2i(b bool) int {
	if b {
		return 1
	}
	return 0
}

func (d *driver) enter() {
	d.s.tsm.EnterPruningBufferingMode()
	d.manual++
	d.emit("Enter", M{"x": 0}, d.jobObs())
}

func (d *driver) exit() error {
	if d.manual == 0 {
		return fmt.Errorf("exit without enter")
	}
	d.s.tsm.ExitPruningBufferingMode()
	d.manual--
	d.emit("Exit", M{"x": 0}, d.jobObs())
	return nil
}

// ---------------------------------------------------------------------------------------------
// snapshots / checkpoints under schedule control (see gate.go).  A job is one AccountsDB.SnapshotState /
// SetStateCheckpoint call (explicit, or implicit from updateStateStorage's checkpoint modulus / a full
// hashes holder in Commit); it is discovered when its goroutine first parks at the TakeSnapshot /
// SetCheckpoint gate.  All jobs have finished when AccountsDB.GetNumCheckpoints() has grown by the
// number of jobs (increaseNumCheckpoints is the last statement of both job goroutines).

func (d *driver) jobOf(g int64) *job {
	for _, j := range d.jobs {
		if j.g == g {
			return j
		}
	}
	return nil
}

// sync waits until every other goroutine is blocked and registers jobs whose goroutine shows up for
// the first time; returns the jobs discovered
func (d *driver) sync() ([]*job, error) {
	if err := settle(); err != nil {
		return nil, err
	}
	var fresh []*job
	for _, p := range d.s.g.parked() {
		if p.kind == "get" || d.jobOf(p.g) != nil {
			continue
		}
		kind := "s"
		if p.kind == "cp" {
			kind = "c"
		}
		j := &job{kind: kind, root: p.key, rid: d.s.id(p.key), g: p.g, idx: len(d.jobs) + 1}
		d.jobs = append(d.jobs, j)
		fresh = append(fresh, j)
	}
	return fresh, nil
}

func (d *driver) jobsDone() bool {
	return d.s.adb.GetNumCheckpoints()-d.ncp >= uint32(len(d.jobs)) && len(d.s.g.parked()) == 0
}

func (d *driver) startJob(kind string, idx int) error {
	if idx < 0 || idx >= len(d.chain) {
		return fmt.Errorf("no live root %d", idx)
	}
	b := d.chain[idx]
	a := "SnapStart"
	if kind == "snap" {
		d.s.adb.SnapshotState(append([]byte(nil), b.root...))
	} else {
		a = "CpStart"
		d.s.adb.SetStateCheckpoint(append([]byte(nil), b.root...))
	}
	fresh, err := d.sync()
	if err != nil {
		return err
	}
	if len(fresh) != 1 || fresh[0].rid != b.rid {
		if os.Getenv("VH_DEBUG") != "" {
			buf := make([]byte, 1<<20)
			fmt.Fprintf(os.Stderr, "LAST SETTLE\n%s\nNOW\n%s\n", lastSettle, buf[:runtime.Stack(buf, true)])
		}
		return fmt.Errorf("%s(%d): expected exactly one new job goroutine for that root, got %d", a, b.rid, len(fresh))
	}
	d.emit(a, M{"r": b.rid}, d.jobObs())
	return nil
}

// parkedLoop returns the parked snapshot-loop read, parkedG the parked accounts goroutine of job j
func (d *driver) parkedLoop() *parkedG {
	for _, p := range d.s.g.parked() {
		if p.kind == "get" {
			return p
		}
	}
	return nil
}

func (d *driver) parkedJob(j *job) *parkedG {
	for _, p := range d.s.g.parked() {
		if p.kind != "get" && p.g == j.g {
			return p
		}
	}
	return nil
}

// release lets one parked goroutine continue and waits until everything is blocked again
func (d *driver) release(p *parkedG) error {
	who, jidx := "L", 0
	if p.kind != "get" {
		who = "G"
		j := d.jobOf(p.g)
		if j == nil {
			return fmt.Errorf("goroutine %d parked at %s(%d) belongs to no known job (jobs: %d)", p.g, p.kind, d.s.id(p.key), len(d.jobs))
		}
		jidx = j.idx
	}
	key := d.s.id(p.key)
	d.s.g.releaseOne(p)
	if _, err := d.sync(); err != nil {
		return err
	}
	d.emit("SnapStep", M{"who": who, "j": jidx, "key": key}, d.jobObs())
	return nil
}

// step releases the snapshot loop if it is parked, else the first parked accounts goroutine
func (d *driver) step() error {
	ps := d.s.g.parked()
	if len(ps) == 0 {
		return fmt.Errorf("nothing parked")
	}
	if p := d.parkedLoop(); p != nil {
		return d.release(p)
	}
	return d.release(ps[0])
}

// drainJobs lets every started job run to completion
func (d *driver) drainJobs() error {
	for len(d.s.g.parked()) > 0 {
		if err := d.step(); err != nil {
			return err
		}
	}
	if !d.jobsDone() {
		return fmt.Errorf("nothing is parked but %d of %d jobs have finished", d.s.adb.GetNumCheckpoints()-d.ncp, len(d.jobs))
	}
	return nil
}

// snapshotContent lists which known nodes are present in the snapshot DB that the storage manager
// returns for the given root (the DB a later recreate-from-snapshot would use)
func (d *driver) snapshotContent(root []byte) (bool, []int, bool) {
	sdb := d.s.tsm.GetSnapshotThatContainsHash(root)
	if sdb == nil {
		return false, []int{}, false
	}
	defer sdb.DecreaseNumReferences()
	var got [][]byte
	for i := 1; i <= d.s.ids.Len(); i++ {
		h := d.s.ids.Bytes(i)
		if v, err := sdb.Get(h); err == nil && v != nil {
			got = append(got, h)
		}
	}
	// literal observation: recreate the whole state reading only that snapshot DB
	_, _, err := reach(roView{sdb}, root)
	return true, d.s.idset(got), err == nil
}

// jobObs: once every job has finished, the verdict data of the jobs not yet reported
func (d *driver) jobObs() M {
	idle := d.jobsDone()
	js := []M{}
	if idle {
		for _, j := range d.jobs {
			if j.done {
				continue
			}
			j.done = true
			found, content, alone := d.snapshotContent(j.root)
			js = append(js, M{"r": j.rid, "kind": j.kind, "found": b2i(found), "snap": content, "alone": b2i(alone)})
		}
	}
	ps := []M{}
	for _, p := range d.s.g.parked() {
		m := M{"at": p.kind, "key": d.s.id(p.key), "j": 0}
		if j := d.jobOf(p.g); j != nil {
			m["j"] = j.idx
		}
		ps = append(ps, m)
	}
	return M{"idle": b2i(idle), "done": js, "parked": ps}
}

// codeSkipsOutdatedCancel observes, once per process, which variant of storagePruningManager is under test: does a
// CancelPrune(parent, OldRoot) that was buffered by a rollback while pruning was blocked still evict the entry that
// the next block on the same parent registered under that key (code before the repair of D3) or is it skipped?
// Observation: after  commit 1; Enter; rollback 1; commit 1'; Exit; commit 2'; finalize 1'  the genesis root node is
// deleted by the prune of the genesis root's old hashes iff the re-registered entry survived the buffered cancel.
var f3Probe struct {
	done bool
	val  bool
}

func codeSkipsOutdatedCancel() bool {
	if f3Probe.done {
		return f3Probe.val
	}
	f3Probe.done = true
	w, err := vtrace.NewWriter(os.DevNull)
	if err != nil {
		return false
	}
	d, err := newDriver(defaultCfg(), w)
	if err != nil {
		return false
	}
	if d.genesis(defaultCfg(), nil) != nil {
		return false
	}
	g := append([]byte(nil), d.chain[0].root...)
	steps := []op{{Op: "commit", Txs: []txop{}}, {Op: "enter"}, {Op: "rollback"}, {Op: "commit", Txs: []txop{}}, {Op: "exit"},
		{Op: "commit", Txs: []txop{}}, {Op: "finalize"}}
	for _, o := range steps {
		if d.do(o, nil) != nil {
			return false
		}
	}
	f3Probe.val = !d.s.db.has(g)
	_ = d.finish()
	_ = w.Close()
	return f3Probe.val
}

// stepToDataTrie releases parked goroutines (accounts goroutines first) until the storage loop is parked at the first
// read of a data trie of some running job's root while no accounts goroutine is parked, i.e. the main trie has been
// copied and the data tries are being copied.  Stops as well when nothing is parked.
func (d *driver) stepToDataTrie() error {
	dataRoots := map[string]bool{}
	for _, j := range d.jobs {
		if j.done {
			continue
		}
		_, dts, err := reach(archiveView{d.s.db}, j.root)
		if err != nil {
			return err
		}
		for r := range dts {
			dataRoots[r] = true
		}
	}
	for i := 0; i < 10000; i++ {
		ps := d.s.g.parked()
		if len(ps) == 0 {
			return nil
		}
		var g *parkedG
		for _, p := range ps {
			if p.kind != "get" {
				g = p
				break
			}
		}
		if g == nil {
			if l := d.parkedLoop(); l != nil && dataRoots[string(l.key)] {
				return nil
			}
			g = ps[0]
		}
		if err := d.release(g); err != nil {
			return err
		}
	}
	return fmt.Errorf("stepToDataTrie: no end")
}
