package main

import (
	"fmt"
	"math/rand"

	"verif/harness/internal/vtrace"
)

func randomCfg(rng *rand.Rand, mode string) cfg {
	c := defaultCfg()
	c.EwlSize = []int{1, 2, 3, 100}[rng.Intn(4)]
	c.BufLen = []int{1, 2, 3, 5, 100, 100}[rng.Intn(6)]
	c.Queue = []int{0, 0, 1, 2}[rng.Intn(4)]
	c.Level = []int{1, 2, 5}[rng.Intn(3)]
	c.MaxSnaps = []int{1, 2}[rng.Intn(2)]
	if mode == "nodefect" {
		c.BufLen = 100
	}
	return c
}

// record runs `traces` random histories of `n` steps each on fresh real stacks
func record(seed int64, traces, n int, out, mode string) {
	w, err := vtrace.NewWriter(out)
	if err != nil {
		vtrace.Broken(err.Error())
		return
	}
	rng := rand.New(rand.NewSource(seed))
	steps := 0
	for t := 0; t < traces; t++ {
		c := randomCfg(rng, mode)
		d, err := newDriver(c, w)
		if err != nil {
			vtrace.Broken(err.Error())
			return
		}
		if err := d.genesis(c, genesisTxs(rng)); err != nil {
			vtrace.Broken("genesis: " + err.Error())
			return
		}
		for i := 0; i < n; i++ {
			o := pick(d, rng, mode)
			if err := d.do(o, rng); err != nil {
				vtrace.Broken(fmt.Sprintf("trace %d step %d %+v: %v", t, i, o, err))
				return
			}
			steps++
		}
		if err := d.finish(); err != nil {
			vtrace.Broken(err.Error())
			return
		}
	}
	if err := w.Close(); err != nil {
		vtrace.Broken(err.Error())
	}
	vtrace.Stat("events", w.N)
	vtrace.Stat("traces", traces)
	vtrace.Stat("steps", steps)
}

// pick chooses the next schedule step among the enabled ones
func pick(d *driver, rng *rand.Rand, mode string) op {
	for {
		r := rng.Intn(100)
		switch {
		case r < 35:
			if len(d.chain)-d.nfin >= 4 {
				continue
			}
			if len(d.rolled[d.head().rid]) > 0 && rng.Intn(2) == 0 {
				return op{Op: "reapply"}
			}
			return op{Op: "commit"}
		case r < 60:
			if d.canFinalize() {
				return op{Op: "finalize"}
			}
		case r < 75:
			if d.canRollback() && mode != "norollback" {
				return op{Op: "rollback"}
			}
		case r < 85:
			if d.manual < 2 && mode != "noblock" {
				return op{Op: "enter"}
			}
		case r < 100:
			if d.manual > 0 {
				return op{Op: "exit"}
			}
		}
	}
}
