package main

import (
	"encoding/json"
	"fmt"
	"math/rand"

	"verif/harness/internal/vtrace"
)

func randomCfg(rng *rand.Rand, clean bool) cfg {
	c := defaultCfg()
	c.EwlSize = []int{1, 2, 3, 100}[rng.Intn(4)]
	c.BufLen = []int{1, 2, 3, 5, 100, 100}[rng.Intn(6)]
	c.Queue = []int{0, 0, 1, 2}[rng.Intn(4)]
	c.Level = []int{1, 2, 5}[rng.Intn(3)]
	c.MaxSnaps = []int{2, 3}[rng.Intn(2)]
	c.CpMod = []int{0, 0, 2, 3}[rng.Intn(4)]
	if clean {
		c.BufLen = 100
	}
	return c
}

// at most 2 jobs at a time (<= smallest MaxSnaps used, so that no snapshot DB created by a batch of jobs is rotated
// out inside the batch); most traces run one job at a time, which is what C10 quantifies over
const maxConcurrentJobs = 2

func (d *driver) activeJobs() int {
	n := 0
	for _, j := range d.jobs {
		if !j.done {
			n++
		}
	}
	return n
}

// enabled tells whether the schedule step can be executed now
func (d *driver) enabled(o op) bool {
	switch o.Op {
	case "commit":
		return len(d.chain)-d.nfin < 4
	case "reapply":
		return len(d.chain)-d.nfin < 4 && len(d.rolled[d.head().rid]) > 0
	case "finalize":
		if !d.canFinalize() {
			return false
		}
		if d.s.c.CpMod != 0 && d.chain[d.nfin].nonce%uint64(d.s.c.CpMod) == 0 && d.activeJobs() >= d.maxJobs {
			return false
		}
		return true
	case "rollback":
		if !d.canRollback() {
			return false
		}
		return !(d.clean && d.s.tsm.IsPruningBlocked())
	case "enter":
		return d.manual < 2
	case "exit":
		return d.manual > 0
	case "snap", "cp":
		return d.activeJobs() < d.maxJobs
	case "step", "lstep":
		return len(d.s.g.parked()) > 0
	}
	return true
}

// record runs `traces` random histories of `n` steps each on fresh real stacks
func record(seed int64, traces, n int, out, mode string) {
	w, err := vtrace.NewWriter(out)
	if err != nil {
		vtrace.Broken(err.Error())
		return
	}
	rng := rand.New(rand.NewSource(seed))
	steps, njobs, nclean := 0, 0, 0
	var aborted []string
	kinds := vtrace.NewDistinct()
	for t := 0; t < traces; t++ {
		clean := rng.Intn(2) == 0
		if mode == "clean" {
			clean = true
		} else if mode == "dirty" {
			clean = false
		}
		if mode == "shapes" || mode == "jobshapes" {
			clean = true
		}
		c := randomCfg(rng, clean)
		if mode == "shapes" || mode == "jobshapes" {
			c.Queue = t % 2
			c.CpMod = 0
		}
		d, err := newDriver(c, w)
		if err != nil {
			vtrace.Broken(err.Error())
			return
		}
		d.clean = clean
		if rng.Intn(10) < 3 {
			d.maxJobs = maxConcurrentJobs
		}
		if clean {
			nclean++
		}
		withJobs := mode == "jobs" || mode == "jobshapes" || (mode != "nojobs" && mode != "shapes" && rng.Intn(3) != 0)
		gen := genesisTxs(rng)
		var prefix []op
		if mode == "shapes" {
			gen, prefix = shapesHistory(t)
		}
		if mode == "jobshapes" {
			gen, prefix = jobShapesHistory(t)
		}
		if err := d.genesis(c, gen); err != nil {
			vtrace.Broken("genesis: " + err.Error())
			return
		}
		failed := ""
		for i := 0; i < n; i++ {
			var o op
			if i < len(prefix) {
				o = prefix[i]
			} else {
				o = pick(d, rng, withJobs)
			}
			if err := d.doPicked(o, rng); err != nil {
				failed = fmt.Sprintf("trace %d step %d %+v: %v", t+1, i, o, err)
				break
			}
			kinds.Add(fmt.Sprintf("%s blk=%v jobs=%d buf=%d q=%d", o.Op, d.s.tsm.IsPruningBlocked(), d.activeJobs(), c.BufLen, c.Queue))
			steps++
		}
		njobs += len(d.jobs)
		if failed == "" {
			if err := d.finish(); err != nil {
				failed = fmt.Sprintf("trace %d end: %v", t+1, err)
			}
		}
		if failed != "" {
			// An operation of the real stack failed (e.g. a node of the current state can not be read any more).
			// The states observed so far are kept: if a property was broken the trace shows it; the check
			// reports itself broken only if the validated trace does not explain the failure.
			aborted = append(aborted, failed)
			d.abort()
			if len(aborted) >= 3 {
				break
			}
		}
	}
	if err := w.Close(); err != nil {
		vtrace.Broken(err.Error())
	}
	vtrace.Stat("events", w.N)
	vtrace.Stat("traces", traces)
	vtrace.Stat("aborted", aborted)
	vtrace.Stat("steps", steps)
	vtrace.Stat("jobs", njobs)
	vtrace.Stat("clean_traces", nclean)
	vtrace.Stat("distinct", kinds.Len())
}

// shapesHistory: engineered start of a history (seeded defects C09-B, C09-M are of this kind).  All three accounts exist, one of them owns a data trie with the keys
// K0 K1 K2 (and K3 in every second trace).  After the genesis root has been pruned (its new-hashes entry cancelled), one
// block deletes K0 (the data trie's root branch collapses over the committed branch B), later blocks remove account 3
// (main trie branch X collapses over the committed branch Y), K1 (collapse over a leaf) ..., each followed by enough
// finalizations for the old root to be pruned.
func shapesHistory(t int) ([]txop, []op) {
	owner := 1 + t%3
	gen := []txop{{K: "bal", A: 1, V: 1}, {K: "bal", A: 2, V: 1}, {K: "bal", A: 3, V: 1},
		{K: "set", A: owner, X: 0, V: 1}, {K: "set", A: owner, X: 1, V: 1}, {K: "set", A: owner, X: 2, V: 2}}
	if t%2 == 1 {
		gen = append(gen, txop{K: "set", A: owner, X: 3, V: 1})
	}
	var ops []op
	settle := func() {
		for i := 0; i < 3; i++ {
			ops = append(ops, op{Op: "commit", Txs: []txop{}}, op{Op: "finalize"})
		}
	}
	block := func(txs ...txop) {
		ops = append(ops, op{Op: "commit", Txs: txs}, op{Op: "finalize"})
		settle()
	}
	settle()
	// value flip-flop across blocks + rollback: block 1 replaces a node N of the final state, block 2 writes the old
	// value back (re-creates N), block 2 is rolled back before block 1 is final: N must survive (it is only listed in
	// the pending OLD hashes of the final root), then block 1 is rolled back as well
	ops = append(ops, op{Op: "commit", Txs: []txop{{K: "set", A: owner, X: 1, V: 2}}},
		op{Op: "commit", Txs: []txop{{K: "set", A: owner, X: 1, V: 1}}}, op{Op: "rollback"}, op{Op: "rollback"})
	block(txop{K: "del", A: owner, X: 0})
	victim := 3
	if owner == 3 {
		victim = 1 + (t/3)%2
	}
	block(txop{K: "rm", A: victim})
	block(txop{K: "del", A: owner, X: 1})
	return gen, ops
}

// jobShapesHistory: engineered start of a history for C10 (seeded defect C10-G is of this kind): the snapshotted /
// checkpointed root contains an account whose data trie was emptied (root hash = EmptyTrieHash) and an account with a
// data trie; when the main trie has been copied and the data tries are being copied, the data trie is changed by a new
// block and the chain is finalized (prune requests for the job's root arrive in that window); then the job runs to
// its end and further jobs / blocks follow randomly.
func jobShapesHistory(t int) ([]txop, []op) {
	gen := []txop{{K: "bal", A: 1, V: 1}, {K: "set", A: 1, X: 0, V: 1}, {K: "bal", A: 2, V: 1},
		{K: "set", A: 2, X: 0, V: 1}, {K: "set", A: 2, X: 1, V: 1}, {K: "set", A: 2, X: 2, V: 2}, {K: "bal", A: 3, V: 1}}
	kind := "snap"
	if t%2 == 1 {
		kind = "cp"
	}
	ops := []op{
		{Op: "commit", Txs: []txop{{K: "del", A: 1, X: 0}}}, // account 1: emptied data trie
		{Op: "finalize"},
		{Op: kind, Idx: -1},
		{Op: "todata"},
		{Op: "commit", Txs: []txop{{K: "set", A: 2, X: 1, V: 2}, {K: "del", A: 2, X: 2}}},
		{Op: "finalize"},
		{Op: "commit", Txs: []txop{}},
		{Op: "finalize"},
		{Op: "commit", Txs: []txop{}},
		{Op: "finalize"},
		{Op: "drain"},
		// a block that changes the state, an empty block committed on the same root, then a checkpoint of that
		// root (seeded defect C10-S is of this kind: the repeated commit must not forget the dirty hashes)
		{Op: "commit", Txs: []txop{{K: "set", A: 2, X: 1, V: 1 + t%2}, {K: "bal", A: 3, V: 2}}},
		{Op: "noop"},
		{Op: "cp", Idx: -1},
		{Op: "drain"},
	}
	return gen, ops
}

// doPicked executes a picked step; "step" releases a random parked goroutine
func (d *driver) doPicked(o op, rng *rand.Rand) (err error) {
	defer func() {
		if r := recover(); r != nil { // a panic of the code under test ends the trace like a failed operation
			err = fmt.Errorf("panic: %v", r)
		}
	}()
	if o.Op == "step" {
		ps := d.s.g.parked()
		return d.release(ps[rng.Intn(len(ps))])
	}
	if (o.Op == "snap" || o.Op == "cp") && o.Idx == 0 {
		return d.startJob(o.Op, rng.Intn(len(d.chain)))
	}
	return d.do(o, rng)
}

// pick chooses the next schedule step among the enabled ones
func pick(d *driver, rng *rand.Rand, withJobs bool) op {
	for {
		var o op
		r := rng.Intn(100)
		if withJobs && len(d.s.g.parked()) > 0 && rng.Intn(100) < 45 {
			o = op{Op: "step"}
		} else {
			switch {
			case r < 3 && withJobs:
				o = op{Op: "noop"}
			case r < 30:
				o = op{Op: "commit"}
				if len(d.rolled[d.head().rid]) > 0 && rng.Intn(2) == 0 {
					o = op{Op: "reapply"}
				}
			case r < 55:
				o = op{Op: "finalize"}
			case r < 68:
				o = op{Op: "rollback"}
			case r < 76:
				o = op{Op: "enter"}
			case r < 88:
				o = op{Op: "exit"}
			case r < 94:
				if !withJobs {
					continue
				}
				o = op{Op: "snap"}
			default:
				if !withJobs {
					continue
				}
				o = op{Op: "cp"}
			}
		}
		if d.enabled(o) {
			return o
		}
	}
}

// ---------------------------------------------------------------------------------------------
// schedules: TLC behaviours of MC_StatePruning at the schedule level (action names + arguments; the
// abstract node sets cannot be concretised) are replayed on the real stack, the driver choosing the
// concrete transactions.  Steps that are not enabled on the real stack are skipped.  The recorded
// trace is validated by Trace_StatePruning like a random one.

type schedStep struct {
	A  string                 `json:"a"`
	In map[string]interface{} `json:"in"`
}

func schedules(path, out string, seed int64) {
	lines, err := vtrace.ReadLines(path)
	if err != nil {
		vtrace.Broken(err.Error())
		return
	}
	w, err := vtrace.NewWriter(out)
	if err != nil {
		vtrace.Broken(err.Error())
		return
	}
	distinct := vtrace.NewDistinct()
	steps, skipped := 0, 0
	var aborted []string
	for bi, raw := range lines {
		var b []schedStep
		if err := json.Unmarshal(raw, &b); err != nil || len(b) == 0 || b[0].A != "New" {
			vtrace.Broken(fmt.Sprintf("behaviour %d: bad record", bi))
			return
		}
		rng := rand.New(rand.NewSource(seed*1000003 + int64(bi)))
		c := defaultCfg()
		c.BufLen = vtrace.Int(b[0].In["buf"])
		c.Queue = vtrace.Int(b[0].In["q"])
		c.MaxSnaps = vtrace.Int(b[0].In["snaps"])
		c.CpMod = vtrace.Int(b[0].In["cpmod"])
		c.EwlSize = []int{1, 2, 100}[rng.Intn(3)]
		c.Level = []int{1, 2, 5}[rng.Intn(3)]
		d, err := newDriver(c, w)
		if err != nil {
			vtrace.Broken(err.Error())
			return
		}
		if err := d.genesis(c, genesisTxs(rng)); err != nil {
			vtrace.Broken("genesis: " + err.Error())
			return
		}
		sig := ""
		failed := ""
		for _, st := range b[1:] {
			o, ok := d.mapStep(st)
			if !ok || !d.enabled(o) {
				skipped++
				continue
			}
			e := d.doMapped(o, rng)
			if e != nil {
				failed = fmt.Sprintf("behaviour %d step %+v: %v", bi, st, e)
				break
			}
			sig += o.Op + fmt.Sprint(d.s.tsm.IsPruningBlocked()) + ","
			steps++
		}
		distinct.Add(fmt.Sprint(c.BufLen, c.Queue, c.CpMod, sig))
		if failed == "" {
			if err := d.finish(); err != nil {
				failed = fmt.Sprintf("behaviour %d end: %v", bi, err)
			}
		}
		if failed != "" { // see record(): the trace recorded so far is validated, it must explain the failure
			aborted = append(aborted, failed)
			d.abort()
			if len(aborted) >= 3 {
				break
			}
		}
	}
	if err := w.Close(); err != nil {
		vtrace.Broken(err.Error())
	}
	vtrace.Stat("events", w.N)
	vtrace.Stat("behaviours", len(lines))
	vtrace.Stat("aborted", aborted)
	vtrace.Stat("steps", steps)
	vtrace.Stat("skipped", skipped)
	vtrace.Stat("distinct", distinct.Len())
}

func (d *driver) doMapped(o op, rng *rand.Rand) (err error) {
	defer func() {
		if r := recover(); r != nil {
			err = fmt.Errorf("panic: %v", r)
		}
	}()
	switch o.Op {
	case "lstep":
		return d.release(d.parkedLoop())
	case "genq":
		return d.release(d.parkedJob(d.jobs[o.Idx-1]))
	}
	return d.do(o, rng)
}

// mapStep translates one abstract action into a schedule step of the real stack
func (d *driver) mapStep(st schedStep) (op, bool) {
	switch st.A {
	case "Commit":
		if vtrace.Int(st.In["reapply"]) == 1 {
			return op{Op: "reapply"}, true
		}
		return op{Op: "commit"}, true
	case "CommitNoop":
		return op{Op: "noop"}, true
	case "Finalize":
		return op{Op: "finalize"}, true
	case "Rollback":
		return op{Op: "rollback"}, true
	case "Enter":
		return op{Op: "enter"}, true
	case "Exit":
		return op{Op: "exit"}, true
	case "SnapStart", "CpStart":
		idx := vtrace.Int(st.In["idx"]) - 1
		if idx < 0 || idx >= len(d.chain) {
			return op{}, false
		}
		if st.A == "SnapStart" {
			return op{Op: "snap", Idx: idx}, true
		}
		return op{Op: "cp", Idx: idx}, true
	case "GEnq":
		j := vtrace.Int(st.In["j"])
		if j < 1 || j > len(d.jobs) || d.parkedJob(d.jobs[j-1]) == nil {
			return op{}, false
		}
		return op{Op: "genq", Idx: j}, true
	case "LStep":
		if d.parkedLoop() == nil {
			return op{}, false
		}
		return op{Op: "lstep"}, true
	}
	return op{}, false // LTake, GExit: happen by themselves on the real stack
}
