// vh-tokenid binds specs/TokenId to the real ESDT system contract (vm/systemSmartContracts/esdt.go) running on a
// real vmContext (property C41).
//
//	vh-tokenid replay <behaviours.ndjson>
//	    TLC behaviours (Issue(ticker, r, kind)) are executed on the real contract; the hasher handed to the
//	    contract is scripted so that the first candidate is the r chosen by TLC.  Every identifier the contract
//	    stores / returns is checked against the property (TICKER-xxxxxx, six lowercase hex digits, new) and
//	    compared with the identifier the specification predicts.
//	vh-tokenid record <seed> <chains> <out.ndjson>
//	    histories with the production hasher (blake2b) and keccak: random seeds are SEARCHED so that the first
//	    candidate is ffffff / fffffe / a random value and the same caller issues several times in one block
//	    (collision chain), plus long scripted-hasher histories that exhaust the 50 retries; logged for
//	    Trace_TokenId.
package main

import (
	"bytes"
	"encoding/binary"
	"encoding/hex"
	"encoding/json"
	"fmt"
	"io/ioutil"
	"math/big"
	"math/rand"
	"os"
	"path/filepath"
	"regexp"
	"sort"
	"strconv"
	"strings"
	"sync"

	"github.com/ElrondNetwork/elrond-go/config"
	"github.com/ElrondNetwork/elrond-go/core"
	"github.com/ElrondNetwork/elrond-go/hashing"
	"github.com/ElrondNetwork/elrond-go/hashing/blake2b"
	"github.com/ElrondNetwork/elrond-go/hashing/keccak"
	"github.com/ElrondNetwork/elrond-go/marshal"
	"github.com/ElrondNetwork/elrond-go/process/smartContract/hooks"
	"github.com/ElrondNetwork/elrond-go/testscommon"
	"github.com/ElrondNetwork/elrond-go/vm"
	"github.com/ElrondNetwork/elrond-go/vm/mock"
	"github.com/ElrondNetwork/elrond-go/vm/systemSmartContracts"
	vmcommon "github.com/ElrondNetwork/elrond-vm-common"
	"github.com/ElrondNetwork/elrond-vm-common/parsers"
	"verif/harness/internal/vtrace"
)

type M = vtrace.M

// switchHasher is the hashing.Hasher handed to the contract: either a real hasher or a scripted first candidate
type switchHasher struct {
	real   hashing.Hasher
	script []byte // when non-nil: the digest to return
}

func (h *switchHasher) Compute(s string) []byte {
	if h.script != nil {
		return append([]byte{}, h.script...)
	}
	return h.real.Compute(s)
}
func (h *switchHasher) Size() int            { return 32 }
func (h *switchHasher) IsInterfaceNil() bool { return h == nil }

func digestFor(r int) []byte {
	d := make([]byte, 32)
	d[0], d[1], d[2] = byte(r>>16), byte(r>>8), byte(r)
	return d
}

type world struct {
	eei    vm.ContextHandler
	esdt   vm.SystemSmartContract
	store  map[string]map[string][]byte // committed storage (what the blockchain hook serves)
	seed   []byte
	hasher *switchHasher
	issued map[string]bool // every identifier stored so far
	n      int
}

func newWorld(real hashing.Hasher) *world {
	w := &world{store: map[string]map[string][]byte{}, issued: map[string]bool{}, hasher: &switchHasher{real: real},
		seed: make([]byte, 32)}
	hook := &mock.BlockChainHookStub{
		GetStorageDataCalled: func(address []byte, index []byte) ([]byte, error) {
			return w.store[string(address)][string(index)], nil
		},
		CurrentRandomSeedCalled: func() []byte { return w.seed },
	}
	eei, err := systemSmartContracts.NewVMContext(hook, hooks.NewVMCryptoHook(), parsers.NewCallArgsParser(),
		&testscommon.AccountsStub{}, &mock.RaterMock{})
	if err != nil {
		panic(err)
	}
	esdt, err := systemSmartContracts.NewESDTSmartContract(systemSmartContracts.ArgsNewESDTSmartContract{
		Eei:                    eei,
		GasCost:                vm.GasCost{MetaChainSystemSCsCost: vm.MetaChainSystemSCsCost{ESDTIssue: 10}},
		ESDTSCConfig:           config.ESDTSystemSCConfig{BaseIssuingCost: "1000", OwnerAddress: "owner"},
		ESDTSCAddress:          vm.ESDTSCAddress,
		Marshalizer:            &marshal.GogoProtoMarshalizer{},
		Hasher:                 w.hasher,
		EpochNotifier:          &mock.EpochNotifierStub{},
		AddressPubKeyConverter: mock.NewPubkeyConverterMock(32),
		EndOfEpochSCAddress:    vm.EndOfEpochAddress,
	})
	if err != nil {
		panic(err)
	}
	_ = eei.SetSystemSCContainer(&mock.SystemSCContainerStub{GetCalled: func(key []byte) (vm.SystemSmartContract, error) {
		return esdt, nil
	}})
	w.eei, w.esdt = eei, esdt
	// deploy: the init function stores the contract configuration
	code, out := w.call(core.SCDeployInitFunctionName, []byte("owner"), nil, big.NewInt(0))
	if code != vmcommon.Ok {
		panic("esdt init failed")
	}
	w.commit(out)
	return w
}

// call runs one transaction on the contract the way systemVM.RunSmartContractCall does
func (w *world) call(function string, caller []byte, args [][]byte, value *big.Int) (vmcommon.ReturnCode, *vmcommon.VMOutput) {
	w.eei.CleanCache()
	w.eei.SetSCAddress(vm.ESDTSCAddress)
	w.eei.AddTxValueToSmartContract(value, vm.ESDTSCAddress)
	w.eei.SetGasProvided(1000000)
	in := &vmcommon.ContractCallInput{
		VMInput:       vmcommon.VMInput{CallerAddr: caller, Arguments: args, CallValue: value, GasProvided: 1000000},
		RecipientAddr: vm.ESDTSCAddress,
		Function:      function,
	}
	code := w.esdt.Execute(in)
	out := w.eei.CreateVMOutput()
	return code, out
}

func (w *world) commit(out *vmcommon.VMOutput) {
	for addr, oa := range out.OutputAccounts {
		for k, su := range oa.StorageUpdates {
			if w.store[addr] == nil {
				w.store[addr] = map[string][]byte{}
			}
			w.store[addr][k] = append([]byte{}, su.Data...)
		}
	}
}

type issueResult struct {
	ok       bool
	code     vmcommon.ReturnCode
	msg      string
	stored   []string // identifiers newly stored by this transaction
	returned string   // identifier reported to the user (return data / ESDTTransfer data), "" when none
}

// issue runs issue / issueSemiFungible / issueNonFungible with a valid token name and ticker
func (w *world) issue(kind, ticker string, caller []byte) issueResult {
	args := [][]byte{[]byte("TokenName"), []byte(ticker)}
	if kind == "issue" {
		args = append(args, []byte{100}, []byte{2})
	}
	code, out := w.call(kind, caller, args, big.NewInt(1000))
	res := issueResult{ok: code == vmcommon.Ok, code: code, msg: out.ReturnMessage}
	if !res.ok {
		return res
	}
	if oa, ok := out.OutputAccounts[string(vm.ESDTSCAddress)]; ok {
		for k, su := range oa.StorageUpdates {
			if len(su.Data) == 0 || strings.HasPrefix(k, "esdtConfig") {
				continue
			}
			if _, had := w.store[string(vm.ESDTSCAddress)][k]; had && w.issued[k] {
				// an existing token record was overwritten: the identifier is not new
				res.stored = append(res.stored, k)
				continue
			}
			res.stored = append(res.stored, k)
		}
	}
	sort.Strings(res.stored)
	if kind == "issue" {
		if oa, ok := out.OutputAccounts[string(caller)]; ok {
			for _, t := range oa.OutputTransfers {
				parts := strings.Split(string(t.Data), "@")
				if len(parts) >= 2 && parts[0] == core.BuiltInFunctionESDTTransfer {
					b, _ := hex.DecodeString(parts[1])
					res.returned = string(b)
				}
			}
		}
	} else if len(out.ReturnData) > 0 {
		res.returned = string(out.ReturnData[0])
	}
	w.commit(out)
	return res
}

var hexSuffix = regexp.MustCompile(`^[0-9a-f]{6}$`)

// judge evaluates the property on what the contract did; returns the failure classes
func (w *world) judge(ticker string, r issueResult) (id string, classes []string) {
	if !r.ok {
		return "", nil
	}
	if len(r.stored) != 1 {
		return "", []string{fmt.Sprintf("issue-ok-but-%d-token-records-stored", len(r.stored))}
	}
	id = r.stored[0]
	if r.returned != id {
		classes = append(classes, "returned-identifier-differs-from-stored")
	}
	if !strings.HasPrefix(id, ticker+"-") {
		classes = append(classes, "malformed-identifier/bad-prefix")
	} else if suf := id[len(ticker)+1:]; !hexSuffix.MatchString(suf) {
		if len(suf) != 6 {
			classes = append(classes, fmt.Sprintf("malformed-identifier/suffix-length-%d", len(suf)))
		} else {
			classes = append(classes, "malformed-identifier/non-lowercase-hex-suffix")
		}
	}
	if w.issued[id] {
		classes = append(classes, "duplicate-identifier")
	}
	w.issued[id] = true
	return id, classes
}

func callerOf(i int) []byte {
	b := bytes.Repeat([]byte{7}, 32)
	binary.BigEndian.PutUint32(b[28:], uint32(i))
	return b
}

func codesOf(s string) []int {
	r := make([]int, len(s))
	for i := 0; i < len(s); i++ {
		r[i] = int(s[i])
	}
	return r
}

// ------------------------------------------------------------------------------------------- replay

func replay(path string) {
	bs, err := vtrace.ReadBehaviours(path)
	if err != nil {
		vtrace.Broken(err.Error())
		return
	}
	distinct := vtrace.NewDistinct()
	steps, nviol, ndrift, collisions, carries, exhausted := 0, 0, 0, 0, 0, 0
	sigs := map[string]int{}
	for bi, b := range bs {
		w := newWorld(blake2b.NewBlake2b())
		key := ""
		nontrivial := false
		for si, st := range b {
			if st.A != "Issue" {
				continue
			}
			t, r, kind := vtrace.Str(st.In["t"]), vtrace.Int(st.In["r"]), vtrace.Str(st.In["kind"])
			w.hasher.script = digestFor(r)
			res := w.issue(kind, t, callerOf(si))
			steps++
			key += fmt.Sprint(t, r, kind, ";")
			id, classes := w.judge(t, res)
			for _, c := range classes {
				sig := "C41/" + c
				if strings.HasPrefix(c, "malformed") || c == "duplicate-identifier" {
					sig += "/" + kind
				}
				sigs[sig]++
				nviol++
				if sigs[sig] == 1 {
					vtrace.Violation("C41", sig, fmt.Sprintf("behaviour %d step %d: %s(ticker %s) with first candidate %06x stored identifier %q (returned %q): %s",
						bi, si, kind, t, r, id, res.returned, c), M{"behaviour": b, "step": si, "identifier": id})
				}
			}
			expOK := st.Out["ok"].(bool)
			tries := vtrace.Int(st.Out["tries"])
			if tries > 1 {
				collisions++
				nontrivial = true
			}
			if expOK && len(vtrace.Ints(st.Out["codes"])) != 6 {
				carries++
			}
			if !expOK {
				exhausted++
			}
			if res.ok != expOK || (expOK && id != vtrace.Str(st.Out["id"])) {
				ndrift++
				if ndrift <= 3 {
					vtrace.Drift("C41", fmt.Sprintf("behaviour %d step %d: %s(%s, r=%06x): contract ok=%v id=%q msg=%q, specification ok=%v id=%q",
						bi, si, kind, t, r, res.ok, id, res.msg, expOK, vtrace.Str(st.Out["id"])), M{"behaviour": b, "step": si})
				}
				break // the histories differ from here on
			}
		}
		if nontrivial {
			distinct.Add(key)
		}
		if bi < 2 || (nontrivial && bi%997 == 0) {
			vtrace.Sample("C41", b)
		}
	}
	vtrace.Stat("behaviours", len(bs))
	vtrace.Stat("steps", steps)
	vtrace.Stat("distinct", distinct.Len())
	vtrace.Stat("collisions", collisions)
	vtrace.Stat("carries", carries)
	vtrace.Stat("exhausted", exhausted)
	vtrace.Stat("violations", nviol)
	vtrace.Stat("drifts", ndrift)
	l := []string{}
	for s, n := range sigs {
		l = append(l, fmt.Sprintf("%s x%d", s, n))
	}
	sort.Strings(l)
	vtrace.Stat("signatures", l)
}

// ------------------------------------------------------------------------------------------- record

// seedCache remembers found seeds between runs (build/tokenid-seeds.json next to the binary); every cached
// seed is re-verified with the real hasher before use, so the cache only saves the ~2^24 hashes of a search
type seedCache struct {
	path string
	m    map[string]string
}

func loadSeedCache() *seedCache {
	c := &seedCache{m: map[string]string{}}
	exe, err := os.Executable()
	if err != nil {
		return c
	}
	c.path = filepath.Join(filepath.Dir(exe), "tokenid-seeds.json")
	if b, err := ioutil.ReadFile(c.path); err == nil {
		_ = json.Unmarshal(b, &c.m)
	}
	return c
}

func (c *seedCache) find(name string, h hashing.Hasher, caller []byte, target int, start uint64) ([]byte, uint64) {
	key := fmt.Sprintf("%s|%x|%06x", name, caller, target)
	if s, ok := c.m[key]; ok {
		if seed, err := hex.DecodeString(s); err == nil && len(seed) == 32 {
			d := h.Compute(string(append(append([]byte{}, caller...), seed...)))
			if int(d[0])<<16|int(d[1])<<8|int(d[2]) == target {
				return seed, 1
			}
		}
	}
	seed, tried := search(h, caller, target, start)
	c.m[key] = hex.EncodeToString(seed)
	if c.path != "" {
		if b, err := json.Marshal(c.m); err == nil {
			tmp := fmt.Sprintf("%s.%d", c.path, os.Getpid())
			if ioutil.WriteFile(tmp, b, 0644) == nil {
				_ = os.Rename(tmp, c.path)
			}
		}
	}
	return seed, tried
}

// search finds a 32-byte random seed such that the first 3 bytes of hasher(caller ++ seed) are `target`
func search(h hashing.Hasher, caller []byte, target int, start uint64) ([]byte, uint64) {
	const workers = 4
	var mu sync.Mutex
	var found []byte
	var tried uint64
	var wg sync.WaitGroup
	stop := make(chan struct{})
	for g := 0; g < workers; g++ {
		wg.Add(1)
		go func(g int) {
			defer wg.Done()
			buf := make([]byte, len(caller)+32)
			copy(buf, caller)
			seed := buf[len(caller):]
			copy(seed, "verif-c41-random-seed-")
			n := uint64(0)
			for c := start + uint64(g); ; c += workers {
				if n&1023 == 0 {
					select {
					case <-stop:
						mu.Lock()
						tried += n
						mu.Unlock()
						return
					default:
					}
				}
				binary.BigEndian.PutUint64(seed[24:], c)
				d := h.Compute(string(buf))
				n++
				if int(d[0])<<16|int(d[1])<<8|int(d[2]) == target {
					mu.Lock()
					if found == nil {
						found = append([]byte{}, seed...)
						close(stop)
					}
					tried += n
					mu.Unlock()
					return
				}
			}
		}(g)
	}
	wg.Wait()
	return found, tried
}

func record(seed int64, chains int, out string) {
	wr, err := vtrace.NewWriter(out)
	if err != nil {
		vtrace.Broken(err.Error())
		return
	}
	rng := rand.New(rand.NewSource(seed))
	kinds := []string{"issue", "issueSemiFungible", "issueNonFungible"}
	tickers := []string{"AAA", "BBB", "TKN9"}
	events, hashes, traces := 0, uint64(0), 0
	emit := func(w *world, t string, r int, kind string, res issueResult) {
		id, _ := w.judge(t, res)
		pre := strings.HasPrefix(id, t+"-")
		suf := id
		if pre {
			suf = id[len(t)+1:]
		}
		w.n++
		wr.Emit("Issue", M{"t": t, "r": r, "kind": kind},
			M{"ok": res.ok, "codes": codesOf(suf), "pre": pre, "same": !res.ok || (len(res.stored) == 1 && res.returned == id), "id": id},
			M{"n": len(w.issued)})
		events++
	}
	// A. production hashers, searched random seeds: first candidate ffffff / fffffe / random, same caller and
	//    ticker issuing several times in the same block (same random seed): a collision chain
	type hcase struct {
		name string
		h    hashing.Hasher
	}
	hs := []hcase{{"blake2b", blake2b.NewBlake2b()}, {"keccak", keccak.NewKeccak()}}
	targets := []int{0xffffff, 0xfffffe, rng.Intn(0xffffff)}
	cache := loadSeedCache()
	for c := 0; c < chains; c++ {
		hc := hs[c%len(hs)]
		target := targets[(c/len(hs))%len(targets)]
		w := newWorld(hc.h)
		caller := callerOf(1000*int(seed) + c)
		t := tickers[c%len(tickers)]
		sd, tried := cache.find(hc.name, hc.h, caller, target, uint64(seed)<<40+uint64(c)<<32)
		hashes += tried
		w.seed = sd
		traces++
		wr.NewTraceWith("New", M{"w": 6, "retries": 50, "hasher": hc.name, "target": target}, M{"x": 0}, M{"n": 0})
		events++
		for i := 0; i < 3; i++ {
			kind := kinds[rng.Intn(3)]
			res := w.issue(kind, t, caller)
			emit(w, t, target, kind, res)
		}
		// a different ticker with the same first candidate is an independent name space
		res := w.issue("issue", "ZZZ", caller)
		emit(w, "ZZZ", target, "issue", res)
	}
	// B. scripted first candidates: long histories, including 50 taken successors (retries exhausted)
	for c := 0; c < 2+chains/2; c++ {
		w := newWorld(blake2b.NewBlake2b())
		traces++
		wr.NewTraceWith("New", M{"w": 6, "retries": 50, "hasher": "scripted", "target": 0}, M{"x": 0}, M{"n": 0})
		events++
		base := []int{0xffffff - rng.Intn(60), rng.Intn(0xffffff), 0, 0xffffff}
		n := 70
		if c == 0 {
			n = 120
		}
		for i := 0; i < n; i++ {
			r := base[rng.Intn(len(base))]
			if rng.Intn(4) == 0 {
				r += rng.Intn(5)
				if r > 0xffffff {
					r = 0xffffff
				}
			}
			if c == 0 {
				r = base[0] // one chain: 50 successes, then the retries are exhausted
			}
			t := tickers[0]
			if c != 0 {
				t = tickers[rng.Intn(2)]
			}
			kind := kinds[rng.Intn(3)]
			w.hasher.script = digestFor(r)
			res := w.issue(kind, t, callerOf(i))
			emit(w, t, r, kind, res)
		}
	}
	if err := wr.Close(); err != nil {
		vtrace.Broken(err.Error())
	}
	vtrace.Stat("events", events)
	vtrace.Stat("traces", traces)
	vtrace.Stat("hashes_searched", hashes)
}

func main() {
	vtrace.Quiet()
	if len(os.Args) < 3 {
		fmt.Fprintln(os.Stderr, "usage: vh-tokenid replay <file> | record <seed> <chains> <out>")
		os.Exit(2)
	}
	switch os.Args[1] {
	case "replay":
		replay(os.Args[2])
	case "record":
		seed, _ := strconv.ParseInt(os.Args[2], 10, 64)
		chains, _ := strconv.Atoi(os.Args[3])
		record(seed, chains, os.Args[4])
	default:
		os.Exit(2)
	}
}
