// vh-shuffler binds specs/Shuffler to sharding.randHashShuffler (C12 conservation, C13 determinism, C14 minimum sizes).
//
//	vh-shuffler run <calls.ndjson> <seed> <n-random-chains> <trace-out>
//
// Every call (TLC-enumerated small ones from <calls.ndjson>, then seeded random bigger ones chained over several
// epochs) is concretised (validator id -> real validator with a 32-byte public key; for TLC-enumerated calls the
// keys are chosen so that the sha256 order of shuffleList realises the requested rank), executed on the REAL
// shuffler 8 times with the input maps rebuilt in different insertion orders / freshly allocated slices / fresh or
// reused shuffler instances, and logged: inputs, the observed hash order (rank), the output of the first run and the
// interned identity of the output of every run.  TLC (Trace_Shuffler) evaluates the C12/C13/C14 predicates on the
// logged records and compares them with the transcription.  No model logic here.
package main

import (
	"bytes"
	"crypto/sha256"
	"encoding/binary"
	"encoding/json"
	"fmt"
	"math/rand"
	"os"
	"sort"
	"strconv"

	"github.com/ElrondNetwork/elrond-go/config"
	"github.com/ElrondNetwork/elrond-go/core"
	"github.com/ElrondNetwork/elrond-go/sharding"
	"verif/harness/internal/vtrace"
)

type M = vtrace.M

const specMeta = 2147483647 // Shuffler!META

type wireList struct {
	Sh int   `json:"sh"`
	L  []int `json:"l"`
}

type swapCfg struct {
	Ep int `json:"ep"`
	N  int `json:"n"`
}

// callIn is the wire form of Shuffler!CallOf (shuffler configuration + arguments of one UpdateNodeLists call)
type callIn struct {
	Nb       int        `json:"nb"`
	MinS     int        `json:"minS"`
	MinM     int        `json:"minM"`
	Cross    bool       `json:"cross"`
	FixEpoch int        `json:"fixEpoch"`
	BalEpoch int        `json:"balEpoch"`
	Swap     []swapCfg  `json:"swap"`
	Epoch    int        `json:"epoch"`
	Elig     []wireList `json:"elig"`
	Wait     []wireList `json:"wait"`
	New      []int      `json:"new"`
	Unstake  []int      `json:"unstake"`
	Addl     []int      `json:"addl"`
	Rank     []int      `json:"rank"`
}

type callOut struct {
	Err     bool       `json:"err"`
	Elig    []wireList `json:"elig"`
	Wait    []wireList `json:"wait"`
	Leaving []int      `json:"leaving"`
	Rem     []int      `json:"rem"`
	Runs    []int      `json:"runs"`
}

func shOut(s uint32) int {
	if s == core.MetachainShardId {
		return specMeta
	}
	return int(s)
}

func shIn(s int) uint32 {
	if s == specMeta {
		return core.MetachainShardId
	}
	return uint32(s)
}

// ------------------------------------------------------------------ concretisation of validator ids

// key-shape classes: how the public keys of one world (one chain / one replayed call) look
const (
	shapeRand32   = iota // random 32-byte keys
	shapeBLS96           // random 96-byte keys (BLS keys of the main net)
	shapeMixedLen        // random keys of different lengths (1..64 bytes)
	shapeNested          // families of keys that are prefixes / extensions of one another (X, X|aa, X|aa|aa)
	shapeDecimal         // common prefix + decimal index ("val-1", "val-10", "val-11": different lengths, shared prefixes)
	shapeLastByte        // equal length, keys differ only in the last byte(s)
	numShapes
)

var shapeNames = []string{"rand32", "bls96", "mixedlen", "nested", "decimal", "lastbyte"}

// genKey builds key number i of a world with the given shape (distinct i => distinct keys)
func genKey(rng *rand.Rand, shape int, base []byte, i int) []byte {
	switch shape {
	case shapeBLS96:
		k := make([]byte, 96)
		rng.Read(k)
		binary.BigEndian.PutUint32(k[92:], uint32(i)) // distinctness
		return k
	case shapeMixedLen:
		k := make([]byte, 1+rng.Intn(64))
		rng.Read(k)
		return append(k, byte(i>>16), byte(i>>8), byte(i)) // distinctness, length 4..67
	case shapeNested:
		fam, depth := i/3, i%3
		k := append(append([]byte(nil), base[:6]...), byte(fam>>8), byte(fam))
		for d := 0; d < depth; d++ {
			k = append(k, 0xaa)
		}
		return k
	case shapeDecimal:
		return []byte(fmt.Sprintf("val-%x-%d", base[:2], i))
	case shapeLastByte:
		k := append([]byte(nil), base[:30]...)
		return append(k, byte(i>>8), byte(i))
	}
	k := make([]byte, 32)
	rng.Read(k)
	return k
}

type world struct {
	shape  int
	base   []byte
	nkeys  int
	rng    *rand.Rand
	keys   map[int][]byte // id -> public key
	byKey  map[string]int // key|chances|index -> id
	nextID int
	rnd    []byte // randomness of the current call
}

func newWorld(rng *rand.Rand, shape int) *world {
	base := make([]byte, 32)
	rng.Read(base)
	return &world{rng: rng, shape: shape, base: base, keys: map[int][]byte{}, byKey: map[string]int{}, nextID: 100000}
}

func (w *world) freshKey() []byte {
	w.nkeys++
	return genKey(w.rng, w.shape, w.base, w.nkeys)
}

func chancesOf(id int) uint32 { return uint32(1 + id%5) }
func indexOf(id int) uint32   { return uint32(id) }

func ident(pk []byte, chances, index uint32) string {
	b := make([]byte, 8)
	binary.BigEndian.PutUint32(b, chances)
	binary.BigEndian.PutUint32(b[4:], index)
	return string(pk) + "|" + string(b)
}

func (w *world) setKey(id int, pk []byte) {
	w.keys[id] = pk
	w.byKey[ident(pk, chancesOf(id), indexOf(id))] = id
}

func (w *world) key(id int) []byte {
	if k, ok := w.keys[id]; ok {
		return k
	}
	k := w.freshKey()
	w.setKey(id, k)
	return k
}

func (w *world) validator(id int, extraCap bool) sharding.Validator {
	k := w.key(id)
	pk := make([]byte, len(k), len(k)+map[bool]int{false: 0, true: 48}[extraCap])
	copy(pk, k)
	v, err := sharding.NewValidator(pk, chancesOf(id), indexOf(id))
	if err != nil {
		panic(err)
	}
	return v
}

func (w *world) idOf(v sharding.Validator) int {
	s := ident(v.PubKey(), v.Chances(), v.Index())
	if id, ok := w.byKey[s]; ok {
		return id
	}
	w.nextID++ // a validator the harness never created
	w.byKey[s] = w.nextID
	return w.nextID
}

func hashOrderKey(pk, rnd []byte) string {
	h := sha256.Sum256(append(append([]byte(nil), pk...), rnd...))
	return string(h[:])
}

// realiseRank chooses public keys for the ids of `rank` so that sorting by sha256(key || rnd) gives exactly `rank`
func (w *world) realiseRank(rank []int, rnd []byte) {
	keys := make([][]byte, len(rank))
	for i := range keys {
		keys[i] = w.freshKey()
	}
	sort.Slice(keys, func(i, j int) bool { return hashOrderKey(keys[i], rnd) < hashOrderKey(keys[j], rnd) })
	for i, id := range rank {
		w.setKey(id, keys[i])
	}
}

// observedRank is the order in which shuffleList would put the given ids (observation of the abstracted hash)
func (w *world) observedRank(ids []int, rnd []byte) []int {
	r := append([]int{}, ids...)
	sort.Slice(r, func(i, j int) bool { return hashOrderKey(w.key(r[i]), rnd) < hashOrderKey(w.key(r[j]), rnd) })
	return r
}

// ------------------------------------------------------------------ executing one call on the real shuffler

type shufflerParams struct {
	hysteresis float32
	adaptivity bool
	cfgOrder   []int // order in which the MaxNodesEnableConfig entries are passed
}

func newShuffler(c *callIn, p shufflerParams) sharding.NodesShuffler {
	var cfgs []config.MaxNodesChangeConfig
	for _, i := range p.cfgOrder {
		s := c.Swap[i]
		cfgs = append(cfgs, config.MaxNodesChangeConfig{EpochEnable: uint32(s.Ep), MaxNumNodes: uint32(1000 + s.N),
			NodesToShufflePerShard: uint32(s.N)})
	}
	sh, err := sharding.NewHashValidatorsShuffler(&sharding.NodesShufflerArgs{
		NodesShard: uint32(c.MinS), NodesMeta: uint32(c.MinM), Hysteresis: p.hysteresis, Adaptivity: p.adaptivity,
		ShuffleBetweenShards: c.Cross, MaxNodesEnableConfig: cfgs,
		BalanceWaitingListsEnableEpoch: uint32(c.BalEpoch), WaitingListFixEnableEpoch: uint32(c.FixEpoch),
	})
	if err != nil {
		panic(err)
	}
	return sh
}

// buildMap builds a Go map from the wire lists, inserting the keys in the order `perm`; `junk` first inserts and
// deletes unrelated keys so that the map's bucket layout (and with it the iteration order) differs
func (w *world) buildMap(lists []wireList, perm []int, junk int, vcache map[int]sharding.Validator, extraCap bool) map[uint32][]sharding.Validator {
	m := make(map[uint32][]sharding.Validator)
	for j := 0; j < junk; j++ {
		m[uint32(5000+j)] = nil
	}
	for _, pi := range perm {
		wl := lists[pi]
		l := make([]sharding.Validator, 0, len(wl.L)+w.rng.Intn(3))
		for _, id := range wl.L {
			l = append(l, w.val(id, vcache, extraCap))
		}
		m[shIn(wl.Sh)] = l
	}
	for j := 0; j < junk; j++ {
		delete(m, uint32(5000+j))
	}
	return m
}

func (w *world) val(id int, vcache map[int]sharding.Validator, extraCap bool) sharding.Validator {
	if vcache == nil {
		return w.validator(id, extraCap)
	}
	if v, ok := vcache[id]; ok {
		return v
	}
	v := w.validator(id, extraCap)
	vcache[id] = v
	return v
}

func (w *world) buildList(ids []int, vcache map[int]sharding.Validator, extraCap bool) []sharding.Validator {
	l := make([]sharding.Validator, 0, len(ids)+w.rng.Intn(4))
	for _, id := range ids {
		l = append(l, w.val(id, vcache, extraCap))
	}
	return l
}

func (w *world) wireOf(m map[uint32][]sharding.Validator) []wireList {
	keys := make([]int, 0, len(m))
	for k := range m {
		keys = append(keys, shOut(k))
	}
	sort.Ints(keys)
	res := make([]wireList, 0, len(keys))
	for _, k := range keys {
		l := make([]int, 0, len(m[shIn(k)]))
		for _, v := range m[shIn(k)] {
			l = append(l, w.idOf(v))
		}
		res = append(res, wireList{Sh: k, L: l})
	}
	return res
}

func (w *world) idsOf(l []sharding.Validator) []int {
	r := make([]int, 0, len(l))
	for _, v := range l {
		r = append(r, w.idOf(v))
	}
	return r
}

// runs per call: 0..7 rebuild the inputs (maps, slices, validator objects, fresh / chain-shared shuffler);
// 8 = a shuffler that previously served a call for a LATER epoch, 9 = one that served EARLIER epochs
const repeats = 10

type runner struct {
	w        *world
	shared   sharding.NodesShuffler // shuffler reused across the calls of a chain
	sharedOf string
	params   shufflerParams
	outIDs   *vtrace.Interner
	nondet   int
	calls    int
	errs     int
	distinct *vtrace.Distinct
	shapes   map[string]int
}

func permOf(rng *rand.Rand, n int, variant int) []int {
	p := make([]int, n)
	for i := range p {
		p[i] = i
	}
	switch variant {
	case 0:
	case 1:
		for i, j := 0, n-1; i < j; i, j = i+1, j-1 {
			p[i], p[j] = p[j], p[i]
		}
	default:
		rng.Shuffle(n, func(i, j int) { p[i], p[j] = p[j], p[i] })
	}
	return p
}

// exec runs the call `repeats` times on the real shuffler and returns the output of the first run + run identities
func (r *runner) exec(c *callIn) *callOut {
	w := r.w
	var first *callOut
	var firstJSON string
	runs := make([]int, 0, repeats)
	shape := fmt.Sprintf("%d/%d/%d/%v/%v", c.Nb, c.MinS, c.MinM, c.Cross, c.Swap)
	if r.shared == nil || r.sharedOf != shape {
		if len(r.params.cfgOrder) != len(c.Swap) {
			r.params.cfgOrder = permOf(w.rng, len(c.Swap), 2)
		}
		r.shared = newShuffler(c, r.params)
		r.sharedOf = shape
	}
	vcache := map[int]sharding.Validator{}
	for v := 0; v < repeats; v++ {
		sh := r.shared
		if v%2 == 1 || v >= 8 {
			p := r.params
			p.cfgOrder = permOf(w.rng, len(c.Swap), 2)
			sh = newShuffler(c, p)
		}
		var vc map[int]sharding.Validator
		if v < 4 {
			vc = vcache // same validator objects
		}
		junk := 0
		if v >= 5 && v < 8 {
			junk = 9 + 8*v
		}
		extra := v == 3 || v == 6
		mkArgs := func(epoch int) sharding.ArgsUpdateNodes {
			return sharding.ArgsUpdateNodes{
				Eligible:          w.buildMap(c.Elig, permOf(w.rng, len(c.Elig), v), junk, vc, extra),
				Waiting:           w.buildMap(c.Wait, permOf(w.rng, len(c.Wait), v+1), junk, vc, extra),
				NewNodes:          w.buildList(c.New, vc, extra),
				UnStakeLeaving:    w.buildList(c.Unstake, vc, extra),
				AdditionalLeaving: w.buildList(c.Addl, vc, extra),
				Rand:              append([]byte(nil), w.rnd...),
				NbShards:          uint32(c.Nb),
				Epoch:             uint32(epoch),
			}
		}
		if v >= 8 {
			// equal inputs => equal outputs whatever the instance computed before: warm the instance up with calls for
			// other epochs (results ignored; they may fail), then make the call under test
			late := c.Epoch
			for _, x := range append([]int{c.FixEpoch, c.BalEpoch}, swapEpochs(c)...) {
				if x > late && x < 1<<20 {
					late = x
				}
			}
			if v == 8 {
				_, _ = sh.UpdateNodeLists(mkArgs(late + 2))
				_, _ = sh.UpdateNodeLists(mkArgs(c.Epoch + 1))
			} else {
				_, _ = sh.UpdateNodeLists(mkArgs(0))
				if c.Epoch > 0 {
					_, _ = sh.UpdateNodeLists(mkArgs(c.Epoch - 1))
				}
			}
		}
		args := mkArgs(c.Epoch)
		res, err := sh.UpdateNodeLists(args)
		out := &callOut{Err: err != nil, Elig: []wireList{}, Wait: []wireList{}, Leaving: []int{}, Rem: []int{}}
		if err == nil {
			out.Elig, out.Wait = w.wireOf(res.Eligible), w.wireOf(res.Waiting)
			out.Leaving, out.Rem = w.idsOf(res.Leaving), w.idsOf(res.StillRemaining)
		}
		b, _ := json.Marshal(out)
		runs = append(runs, r.outIDs.ID(b))
		if v == 0 {
			first, firstJSON = out, string(b)
		} else if string(b) != firstJSON {
			r.nondet++
			if r.nondet <= 3 {
				what := "eligible"
				switch {
				case out.Err != first.Err:
					what = "error"
				case !eqJSON(out.Elig, first.Elig):
					what = "eligible"
				case !eqJSON(out.Wait, first.Wait):
					what = "waiting"
				case !eqJSON(out.Leaving, first.Leaving):
					what = "leaving"
				default:
					what = "stillRemaining"
				}
				vtrace.Violation("C13", "C13/nondeterministic/"+what,
					fmt.Sprintf("UpdateNodeLists gave different %s lists for equal inputs (run 0 vs run %d: runs 1-7 rebuild the maps in another "+
						"insertion order / fresh slices, run 8 / 9 use a shuffler that served later / earlier epochs before): run0=%s run%d=%s input=%s", what, v, firstJSON, v, string(b), mustJSON(c)),
					M{"in": c, "run0": first, "runN": out, "variant": v})
			}
		}
	}
	first.Runs = runs
	r.calls++
	if first.Err {
		r.errs++
	}
	return first
}

func swapEpochs(c *callIn) []int {
	r := make([]int, 0, len(c.Swap))
	for _, s := range c.Swap {
		r = append(r, s.Ep)
	}
	return r
}

func eqJSON(a, b interface{}) bool {
	x, _ := json.Marshal(a)
	y, _ := json.Marshal(b)
	return bytes.Equal(x, y)
}

func mustJSON(v interface{}) string {
	b, _ := json.Marshal(v)
	return string(b)
}

func allIDs(c *callIn) []int {
	var ids []int
	for _, l := range c.Elig {
		ids = append(ids, l.L...)
	}
	for _, l := range c.Wait {
		ids = append(ids, l.L...)
	}
	return append(ids, c.New...)
}

func checkDistinct(c *callIn) bool {
	seen := map[int]bool{}
	for _, id := range allIDs(c) {
		if seen[id] {
			return false
		}
		seen[id] = true
	}
	return true
}

func normalise(c *callIn) {
	if c.Swap == nil {
		c.Swap = []swapCfg{}
	}
	if c.New == nil {
		c.New = []int{}
	}
	if c.Unstake == nil {
		c.Unstake = []int{}
	}
	if c.Addl == nil {
		c.Addl = []int{}
	}
	if c.Elig == nil {
		c.Elig = []wireList{}
	}
	if c.Wait == nil {
		c.Wait = []wireList{}
	}
	for i := range c.Elig {
		if c.Elig[i].L == nil {
			c.Elig[i].L = []int{}
		}
	}
	for i := range c.Wait {
		if c.Wait[i].L == nil {
			c.Wait[i].L = []int{}
		}
	}
}

func (r *runner) classKey(c *callIn, o *callOut) string {
	ne, nw := 0, 0
	for _, l := range c.Elig {
		ne += len(l.L)
	}
	for _, l := range c.Wait {
		nw += len(l.L)
	}
	r.shapes[shapeNames[r.w.shape]]++
	return fmt.Sprintf("%s/%d/%d/%d/%v/%v/%v/%d/%d/%d/%d/%d/%d/%v/%d/%d", shapeNames[r.w.shape], c.Nb, c.MinS, c.MinM, c.Cross, c.Epoch >= c.FixEpoch,
		c.Epoch >= c.BalEpoch, len(c.Swap), ne, nw, len(c.New), len(c.Unstake), len(c.Addl), o.Err, len(o.Leaving), len(o.Rem))
}

// ------------------------------------------------------------------ replay of TLC-enumerated calls

func replay(path string, r *runner, tw *vtrace.Writer) {
	lines, err := vtrace.ReadLines(path)
	if err != nil {
		vtrace.Broken(err.Error())
		return
	}
	n := 0
	for li, raw := range lines {
		var beh []struct {
			A  string `json:"a"`
			In callIn `json:"in"`
		}
		if err := json.Unmarshal(raw, &beh); err != nil || len(beh) == 0 {
			vtrace.Broken(fmt.Sprintf("calls line %d: %v", li+1, err))
			return
		}
		c := beh[len(beh)-1].In
		normalise(&c)
		if !checkDistinct(&c) {
			vtrace.Broken("TLC-enumerated call lists a validator twice")
			return
		}
		// a fresh world per call: ids are re-keyed so that the hash order realises the requested rank
		w := newWorld(r.w.rng, li%numShapes)
		w.rnd = make([]byte, 32)
		w.rng.Read(w.rnd)
		w.realiseRank(c.Rank, w.rnd)
		r.w = w
		r.shared = nil
		obs := w.observedRank(allIDs(&c), w.rnd)
		if !vtrace.EqInts(obs, c.Rank) {
			vtrace.Broken(fmt.Sprintf("could not realise rank %v (observed %v)", c.Rank, obs))
			return
		}
		out := r.exec(&c)
		tw.Emit("Update", c, out, M{})
		r.distinct.Add(r.classKey(&c, out))
		n++
		if n <= 2 {
			vtrace.Sample(os.Getenv("VERIF_PROP"), M{"call": c, "real_result": out})
		}
	}
	vtrace.Stat("replayed_calls", n)
}

// ------------------------------------------------------------------ seeded random chains of epochs

func pick(rng *rand.Rand, xs ...int) int { return xs[rng.Intn(len(xs))] }

func record(seed int64, chains int, r *runner, tw *vtrace.Writer) {
	rng := rand.New(rand.NewSource(seed))
	ncalls, nbig := 0, 0
	for t := 0; t < chains; t++ {
		w := newWorld(rng, t%numShapes)
		r.w = w
		r.shared = nil
		r.params = shufflerParams{hysteresis: []float32{0, 0.2, 0.5}[rng.Intn(3)], adaptivity: rng.Intn(4) == 0}
		nb := pick(rng, 0, 1, 1, 2, 2, 3, 3, 4)
		c := callIn{Nb: nb, MinS: 1 + rng.Intn(4), MinM: 1 + rng.Intn(4), Cross: rng.Intn(2) == 0}
		epoch := 1 + rng.Intn(5)
		// enable epochs: before, exactly at, or after the epochs of the chain
		c.FixEpoch = pick(rng, 0, epoch, epoch+1, epoch+2, epoch+50, 0, epoch+1)
		c.BalEpoch = pick(rng, 0, epoch+1, epoch+2, epoch+50)
		c.Swap = []swapCfg{}
		switch rng.Intn(4) {
		case 1:
			c.Swap = []swapCfg{{Ep: pick(rng, 0, epoch+1, epoch+2), N: rng.Intn(4)}}
		case 2:
			c.Swap = []swapCfg{{Ep: 0, N: rng.Intn(3)}, {Ep: epoch + 2, N: 1 + rng.Intn(5)}, {Ep: epoch + 60, N: 0}}
		}
		r.params.cfgOrder = permOf(rng, len(c.Swap), 2)
		// initial lists
		next := 1
		shards := make([]int, 0, nb+1)
		for s := 0; s < nb; s++ {
			shards = append(shards, s)
		}
		shards = append(shards, specMeta)
		budget := 10 + rng.Intn(34)
		dropEmpty := rng.Intn(3) == 0
		for _, s := range shards {
			min := c.MinS
			if s == specMeta {
				min = c.MinM
			}
			var ne, nw int
			switch rng.Intn(10) {
			case 0: // below the minimum (the call must fail) -- rarely
				ne, nw = rng.Intn(min), 0
				if ne+nw >= min {
					ne = min - 1
				}
			case 1: // exactly the minimum, split arbitrarily
				ne = rng.Intn(min + 1)
				nw = min - ne
			case 2: // fewer eligible than the minimum, waiting make up for it
				ne = rng.Intn(min)
				nw = min - ne + rng.Intn(4)
			default:
				ne = min + rng.Intn(3)
				nw = rng.Intn(1 + budget/len(shards))
			}
			el, wl := []int{}, []int{}
			for i := 0; i < ne; i++ {
				el = append(el, next)
				next++
			}
			for i := 0; i < nw; i++ {
				wl = append(wl, next)
				next++
			}
			if !(dropEmpty && ne == 0) {
				c.Elig = append(c.Elig, wireList{Sh: s, L: el})
			}
			if !(dropEmpty && nw == 0) {
				c.Wait = append(c.Wait, wireList{Sh: s, L: wl})
			}
		}
		normalise(&c)
		steps := 1 + rng.Intn(5)
		for st := 0; st < steps; st++ {
			epoch++
			c.Epoch = epoch
			w.rnd = make([]byte, 32)
			rng.Read(w.rnd)
			// new nodes
			c.New = []int{}
			for i := rng.Intn(6); i > 0 && rng.Intn(3) != 0; i-- {
				c.New = append(c.New, next)
				next++
			}
			// leaving requests: members (few or very many), duplicates, unknown keys
			var members []int
			for _, l := range c.Elig {
				members = append(members, l.L...)
			}
			for _, l := range c.Wait {
				members = append(members, l.L...)
			}
			c.Unstake, c.Addl = []int{}, []int{}
			nl := 0
			switch rng.Intn(5) {
			case 0:
			case 1:
				nl = 1 + rng.Intn(3)
			case 2:
				nl = len(members)/2 + rng.Intn(len(members)/2+1)
			case 3:
				nl = len(members) + rng.Intn(4)
			default:
				nl = rng.Intn(len(members)/3 + 2)
			}
			for i := 0; i < nl; i++ {
				var id int
				switch x := rng.Intn(20); {
				case x == 0 || len(members) == 0: // unknown key
					id = 900000 + rng.Intn(6)
				default:
					id = members[rng.Intn(len(members))] // with repetition: duplicates within and across the lists
				}
				if rng.Intn(3) == 0 {
					c.Addl = append(c.Addl, id)
				} else {
					c.Unstake = append(c.Unstake, id)
				}
			}
			c.Rank = w.observedRank(allIDs(&c), w.rnd)
			if !checkDistinct(&c) {
				vtrace.Broken("random driver built a call that lists a validator twice")
				return
			}
			cc := c // value copy for logging (slices are replaced, never mutated, below)
			out := r.exec(&cc)
			tw.Emit("Update", cc, out, M{})
			r.distinct.Add(r.classKey(&cc, out))
			ncalls++
			if len(members) >= 20 {
				nbig++
			}
			if ncalls <= 1 {
				vtrace.Sample(os.Getenv("VERIF_PROP"), M{"call": cc, "real_result": out})
			}
			if out.Err {
				break
			}
			// the coordinator installs the result: next epoch starts from the new lists
			c.Elig, c.Wait = out.Elig, out.Wait
			if rng.Intn(4) == 0 { // governance changes the minimum sizes between epochs (UpdateParams analogue: new shuffler)
				c.MinS = 1 + rng.Intn(4)
			}
		}
	}
	vtrace.Stat("random_calls", ncalls)
	vtrace.Stat("random_calls_20plus_validators", nbig)
}

func main() {
	vtrace.Quiet()
	if len(os.Args) != 6 || os.Args[1] != "run" {
		fmt.Fprintln(os.Stderr, "usage: vh-shuffler run <calls.ndjson|-> <seed> <n-random-chains> <trace-out>")
		os.Exit(2)
	}
	seed, _ := strconv.ParseInt(os.Args[3], 10, 64)
	chains, _ := strconv.Atoi(os.Args[4])
	tw, err := vtrace.NewWriter(os.Args[5])
	if err != nil {
		vtrace.Broken(err.Error())
		return
	}
	rng := rand.New(rand.NewSource(seed*7919 + 13))
	r := &runner{w: newWorld(rng, shapeRand32), outIDs: vtrace.NewInterner(), distinct: vtrace.NewDistinct(),
		shapes: map[string]int{}}
	if os.Args[2] != "-" {
		replay(os.Args[2], r, tw)
	}
	record(seed, chains, r, tw)
	if err := tw.Close(); err != nil {
		vtrace.Broken(err.Error())
	}
	vtrace.Stat("events", tw.N)
	vtrace.Stat("calls", r.calls)
	vtrace.Stat("runs", r.calls*repeats)
	vtrace.Stat("error_calls", r.errs)
	vtrace.Stat("nondeterministic_calls", r.nondet)
	vtrace.Stat("distinct_classes", r.distinct.Len())
	vtrace.Stat("calls_per_key_shape", r.shapes)
}
