// vh-epochtrigger binds specs/EpochTrigger to the real metachain start-of-epoch trigger
// (epochStart/metachain.NewEpochStartTrigger).
//
//	vh-epochtrigger replay <behaviours.ndjson> <mismatch-trace-out>
//	    TLC behaviours -> real trigger; after every step Epoch(), IsEpochStart(), EpochStartRound() are compared
//	    with the state the specification predicted. A step that the specification itself marks as violating a
//	    C34 clause (out.viol, computed by the TLA+ operator Viol) and that the real trigger reproduces exactly is
//	    a violation. Behaviours on which the real trigger differs from the prediction are written (as observed)
//	    to <mismatch-trace-out> so that TLC decides whether a C34 clause is false on what was observed.
//	vh-epochtrigger record <seed> <traces> <len> <out> [any|nopast]
//	    seeded random histories at realistic sizes on the real trigger -> ndjson trace for Trace_EpochTrigger
package main

import (
	"fmt"
	"math"
	"math/rand"
	"os"
	"sort"
	"strconv"
	"strings"
	"time"

	"github.com/ElrondNetwork/elrond-go/config"
	"github.com/ElrondNetwork/elrond-go/core"
	"github.com/ElrondNetwork/elrond-go/data"
	"github.com/ElrondNetwork/elrond-go/data/block"
	"github.com/ElrondNetwork/elrond-go/dataRetriever"
	"github.com/ElrondNetwork/elrond-go/epochStart/metachain"
	"github.com/ElrondNetwork/elrond-go/epochStart/mock"
	"github.com/ElrondNetwork/elrond-go/hashing/sha256"
	"github.com/ElrondNetwork/elrond-go/marshal"
	"github.com/ElrondNetwork/elrond-go/testscommon/genericMocks"
	"verif/harness/internal/vtrace"
)

type M = vtrace.M

// realTrigger is the part of the real object the harness drives and observes
type realTrigger interface {
	Update(round uint64, nonce uint64)
	ForceEpochStart(round uint64)
	IsEpochStart() bool
	Epoch() uint32
	EpochStartRound() uint64
	SetProcessed(header data.HeaderHandler, body data.BodyHandler)
	RevertStateToBlock(header data.HeaderHandler) error
}

var marsh = &marshal.GogoProtoMarshalizer{}
var hasher = sha256.NewSha256()

type sut struct {
	t      realTrigger
	w      uint64 // model modulus standing for 2^64 (0: values are taken as they are)
	parent *block.MetaBlock
	nonce  uint64
	// environment bookkeeping of the random driver: which start-of-epoch blocks exist
	lastBlockRound int // round of the latest start-of-epoch block (economics.go copies it into the next one)
	lastPrev       int // PrevEpochStartRound carried by the latest processed start-of-epoch block
	errors         []string
}

// conc maps a model value to the uint64 the real code gets: values in the upper half of the model's
// modulus stand for values just below 2^64 (W-1 is math.MaxUint64).
func (s *sut) conc(v int) uint64 {
	if s.w != 0 && uint64(v) >= s.w/2 {
		return math.MaxUint64 - (s.w - 1 - uint64(v))
	}
	return uint64(v)
}

// abs is the inverse (for logging observed values)
func (s *sut) abs(v uint64) int {
	if s.w != 0 && v > math.MaxUint64-s.w/2 {
		return int(s.w - 1 - (math.MaxUint64 - v))
	}
	return int(v)
}

func newSut(in M) (*sut, error) {
	store := genericMocks.NewChainStorerMock(0)
	epoch := uint32(vtrace.Int(in["epoch"]))
	// the start-of-epoch block of the constructor's epoch is in storage, as on a node that restarts
	genesis := &block.MetaBlock{Epoch: epoch, Round: uint64(vtrace.Int(in["start"]))}
	genesis.EpochStart.LastFinalizedHeaders = []block.EpochStartShardData{{ShardID: 0}}
	buff, _ := marsh.Marshal(genesis)
	_ = store.GetStorer(dataRetriever.MetaBlockUnit).Put([]byte(core.EpochStartIdentifier(epoch)), buff)
	args := &metachain.ArgsNewMetaEpochStartTrigger{
		GenesisTime: time.Time{},
		Settings: &config.EpochStartConfig{
			MinRoundsBetweenEpochs: int64(vtrace.Int(in["min"])),
			RoundsPerEpoch:         int64(vtrace.Int(in["rpe"])),
		},
		Epoch:              epoch,
		EpochStartRound:    uint64(vtrace.Int(in["start"])),
		EpochStartNotifier: &mock.EpochStartNotifierStub{},
		Marshalizer:        marsh,
		Hasher:             hasher,
		Storage:            store,
		AppStatusHandler:   &mock.AppStatusHandlerStub{},
	}
	t, err := metachain.NewEpochStartTrigger(args)
	if err != nil {
		return nil, err
	}
	s := &sut{t: t, lastBlockRound: vtrace.Int(in["start"])}
	if w, ok := in["w"]; ok {
		s.w = uint64(vtrace.Int(w))
	}
	return s, nil
}

// apply performs one step on the real trigger
func (s *sut) apply(a string, in M) {
	switch a {
	case "Update":
		s.t.Update(s.conc(vtrace.Int(in["r"])), uint64(vtrace.Int(in["n"])))
	case "Force":
		s.t.ForceEpochStart(s.conc(vtrace.Int(in["r"])))
	case "SetProcessed":
		round := uint64(vtrace.Int(in["r"]))
		s.nonce += 2
		parentRound := uint64(0)
		if round > 0 {
			parentRound = round - 1
		}
		s.parent = &block.MetaBlock{Round: parentRound, Nonce: s.nonce - 1, Epoch: uint32(vtrace.Int(in["e"])) - 1}
		ph, err := core.CalculateHash(marsh, hasher, s.parent)
		if err != nil {
			panic(err)
		}
		mb := &block.MetaBlock{Round: round, Nonce: s.nonce, Epoch: uint32(vtrace.Int(in["e"])), PrevHash: ph}
		mb.EpochStart.LastFinalizedHeaders = []block.EpochStartShardData{{ShardID: 0}}
		mb.EpochStart.Economics.PrevEpochStartRound = uint64(vtrace.Int(in["prev"]))
		s.t.SetProcessed(mb, &block.Body{})
		s.lastPrev = vtrace.Int(in["prev"])
		s.lastBlockRound = int(round)
	case "SetProcessedOther":
		s.nonce++
		mb := &block.MetaBlock{Round: uint64(vtrace.Int(in["r"])), Nonce: s.nonce, Epoch: s.t.Epoch()}
		s.t.SetProcessed(mb, &block.Body{})
	case "Revert":
		if s.parent == nil {
			panic("Revert without a processed start-of-epoch block")
		}
		if err := s.t.RevertStateToBlock(s.parent); err != nil {
			// the state is observed as it is; TLC decides what that means
			s.errors = append(s.errors, "RevertStateToBlock: "+err.Error())
		}
		s.parent = nil
		s.lastBlockRound = s.lastPrev
	default:
		panic("unknown action " + a)
	}
}

func (s *sut) proj() M {
	return M{"epoch": int(s.t.Epoch()), "isStart": s.t.IsEpochStart(), "cesr": s.abs(s.t.EpochStartRound())}
}

func eqState(pred M, got M) bool {
	return vtrace.Int(pred["epoch"]) == got["epoch"].(int) && pred["isStart"].(bool) == got["isStart"].(bool) &&
		vtrace.Int(pred["cesr"]) == got["cesr"].(int)
}

func violNames(v interface{}) []string {
	if v == nil {
		return nil
	}
	r := vtrace.Strs(v)
	sort.Strings(r)
	return r
}

func replay(path, mismatchOut string) {
	bs, err := vtrace.ReadBehaviours(path)
	if err != nil {
		vtrace.Broken(err.Error())
		return
	}
	w, err := vtrace.NewWriter(mismatchOut)
	if err != nil {
		vtrace.Broken(err.Error())
		return
	}
	distinct := vtrace.NewDistinct()
	steps, mismatches, flagged, reported := 0, 0, 0, map[string]int{}
	callErrors := 0
	perClass := map[string]int{}
	written := 0
	for bi, b := range bs {
		if len(b) == 0 || b[0].A != "New" {
			vtrace.Broken(fmt.Sprintf("behaviour %d does not start with New", bi))
			return
		}
		s, err := newSut(b[0].In)
		if err != nil {
			vtrace.Broken("NewEpochStartTrigger: " + err.Error())
			return
		}
		obs := make([]M, 0, len(b))
		obs = append(obs, s.proj())
		firstBad := -1
		already := false
		for si := 1; si < len(b); si++ {
			st := b[si]
			s.apply(st.A, st.In)
			got := s.proj()
			obs = append(obs, got)
			steps++
			if firstBad >= 0 {
				continue
			}
			if !eqState(st.St, got) {
				firstBad = si
				continue
			}
			if vn := violNames(st.Out["viol"]); len(vn) > 0 && !already {
				already = true // later flagged steps of this behaviour start from a state that already broke C34
				// the specification (code-as-it-is variant) says this step breaks C34, and the real
				// trigger did exactly what the specification predicted
				flagged++
				sig := "C34/" + strings.Join(vn, "+") + "/forced-round-" + vtrace.Str(st.Out["how"])
				reported[sig]++
				if reported[sig] == 1 {
					vtrace.Violation("C34", sig,
						fmt.Sprintf("config %v: after %s the real trigger is at epoch %d, start round %d, isEpochStart %v: clause %v of C34 is false "+
							"(behaviour %d step %d; how the pending forced round was set: %v)",
							b[0].In, describe(b[:si+1]), got["epoch"], got["cesr"], got["isStart"], vn, bi, si, st.Out["how"]),
						M{"behaviour": b[:si+1], "observed": obs})
				}
			}
		}
		if len(s.errors) > 0 {
			callErrors += len(s.errors)
			if callErrors <= 2 {
				vtrace.Drift("C34", fmt.Sprintf("behaviour %d: %s", bi, s.errors[0]), nil)
			}
		}
		if firstBad >= 0 {
			mismatches++
			cls := b[firstBad].A + fmt.Sprint(b[firstBad].St["isStart"], obs[firstBad]["isStart"],
				vtrace.Int(b[firstBad].St["epoch"])-obs[firstBad]["epoch"].(int))
			perClass[cls]++
			if perClass[cls] <= 60 && written < 600 {
				written++
				w.NewTraceWith("New", b[0].In, M{}, obs[0])
				for si := 1; si < len(b); si++ {
					w.Emit(b[si].A, b[si].In, M{}, obs[si])
				}
			}
			if mismatches <= 3 {
				vtrace.Drift("C34", fmt.Sprintf("behaviour %d step %d (%s %v): real state %v, specification %v",
					bi, firstBad, b[firstBad].A, b[firstBad].In, obs[firstBad], b[firstBad].St), nil)
			}
		}
		if len(b) > 1 {
			last := b[len(b)-1]
			distinct.Add(fmt.Sprint(b[len(b)-2].St, last.A, last.In, b[0].In, last.St, last.Out["how"]))
		}
		if bi%(len(bs)/3+1) == 0 && len(b) > 3 {
			vtrace.Sample("C34", M{"behaviour": b, "observed": obs})
		}
	}
	if err := w.Close(); err != nil {
		vtrace.Broken(err.Error())
	}
	vtrace.Stat("behaviours", len(bs))
	vtrace.Stat("steps", steps)
	vtrace.Stat("distinct", distinct.Len())
	vtrace.Stat("mismatches", mismatches)
	vtrace.Stat("mismatch_traces", written)
	vtrace.Stat("mismatch_events", w.N)
	vtrace.Stat("flagged", flagged)
	vtrace.Stat("call_errors", callErrors)
}

func describe(b []vtrace.Step) string {
	var sb strings.Builder
	for i, st := range b {
		if i == 0 {
			continue
		}
		if i > 1 {
			sb.WriteString(", ")
		}
		switch st.A {
		case "Update":
			fmt.Fprintf(&sb, "Update(round %d, nonce %d)", vtrace.Int(st.In["r"]), vtrace.Int(st.In["n"]))
		case "Force":
			fmt.Fprintf(&sb, "ForceEpochStart(%d)", vtrace.Int(st.In["r"]))
		case "SetProcessed":
			fmt.Fprintf(&sb, "SetProcessed(start-of-epoch block round %d)", vtrace.Int(st.In["r"]))
		default:
			sb.WriteString(st.A)
		}
	}
	return sb.String()
}

// record drives the real trigger with seeded random histories at realistic sizes
// (mode "nopast": ForceEpochStart is never asked for a round below the current epoch's start round)
func record(seed int64, traces, n int, out string, mode string) {
	w, err := vtrace.NewWriter(out)
	if err != nil {
		vtrace.Broken(err.Error())
		return
	}
	rng := rand.New(rand.NewSource(seed))
	const W = 1 << 30
	starts, callErrors := 0, 0
	for t := 0; t < traces; t++ {
		rpe := 2 + rng.Intn(8)
		if t%3 == 1 {
			rpe = 20 + rng.Intn(200)
		}
		min := 1 + rng.Intn(rpe)
		if rng.Intn(3) == 0 {
			min = 1 + rng.Intn(1+rpe/10)
		}
		start := 0
		if rng.Intn(2) == 0 {
			start = rng.Intn(1000)
		}
		in := M{"rpe": rpe, "min": min, "start": start, "epoch": rng.Intn(3), "w": W}
		s, err := newSut(in)
		if err != nil {
			vtrace.Broken("NewEpochStartTrigger: " + err.Error())
			return
		}
		w.NewTraceWith("New", in, M{}, s.proj())
		cur := start
		nonce := rng.Intn(6)
		canRevert := false
		for i := 0; i < n; i++ {
			isStart := s.t.IsEpochStart()
			cesr := int(s.t.EpochStartRound())
			var a string
			var ev M
			switch r := rng.Intn(100); {
			case isStart && r < 60:
				a, ev = "SetProcessed", M{"r": cur, "e": int(s.t.Epoch()), "prev": -1}
			case r < 55:
				skip := rng.Intn(3)
				if rng.Intn(12) == 0 {
					skip = rng.Intn(2*rpe + 2)
				}
				cur += skip
				if rng.Intn(4) != 0 {
					nonce++
				}
				a, ev = "Update", M{"r": cur, "n": nonce}
			case r < 85:
				var fr int
				switch rng.Intn(8) {
				case 0:
					fr = W - 1 - rng.Intn(2) // math.MaxUint64, MaxUint64-1
				case 1:
					fr = rng.Intn(cur + 1) // any past round
				case 2:
					fr = cesr - 1 - rng.Intn(3) // just before the current epoch's start
				case 3:
					fr = cesr + rng.Intn(min+1) // inside the minimum distance
				case 4:
					fr = cesr + rpe - 1 + rng.Intn(3) // around the maximum
				default:
					fr = cur - 3 + rng.Intn(rpe+6)
				}
				if fr < 0 {
					fr = 0
				}
				if mode == "nopast" && fr < cesr {
					fr = cesr + rng.Intn(3)
				}
				a, ev = "Force", M{"r": fr}
			case r < 92:
				a, ev = "SetProcessedOther", M{"r": cur}
			default:
				if !canRevert || isStart || s.t.Epoch() == 0 {
					a, ev = "SetProcessedOther", M{"r": cur}
				} else {
					pr := 0
					if cesr > 0 {
						pr = cesr - 1
					}
					a, ev = "Revert", M{"r": pr, "prev": -1}
				}
			}
			switch a {
			case "SetProcessed":
				// economics.go writes the round of the previous start-of-epoch block into the new one
				ev["prev"] = s.lastBlockRound
				canRevert = true
			case "Revert":
				ev["prev"] = s.lastPrev // carried by the block that is rolled back
				cur = vtrace.Int(ev["r"])
				canRevert = false
			}
			before := int(s.t.Epoch())
			s.apply(a, ev)
			if int(s.t.Epoch()) == before+1 {
				starts++
			}
			w.Emit(a, ev, M{}, s.proj())
		}
		if len(s.errors) > 0 {
			callErrors += len(s.errors)
			if callErrors <= 2 {
				vtrace.Drift("C34", fmt.Sprintf("trace %d: %s", t, s.errors[0]), nil)
			}
		}
	}
	if err := w.Close(); err != nil {
		vtrace.Broken(err.Error())
	}
	vtrace.Stat("events", w.N)
	vtrace.Stat("traces", traces)
	vtrace.Stat("epoch_starts", starts)
	vtrace.Stat("call_errors", callErrors)
}

func main() {
	vtrace.Quiet()
	if len(os.Args) < 2 {
		fmt.Fprintln(os.Stderr, "usage: vh-epochtrigger replay <file> <mismatch-out> | record <seed> <traces> <len> <out>")
		os.Exit(2)
	}
	switch os.Args[1] {
	case "replay":
		replay(os.Args[2], os.Args[3])
	case "record":
		seed, _ := strconv.ParseInt(os.Args[2], 10, 64)
		traces, _ := strconv.Atoi(os.Args[3])
		n, _ := strconv.Atoi(os.Args[4])
		mode := "any"
		if len(os.Args) > 6 {
			mode = os.Args[6]
		}
		record(seed, traces, n, os.Args[5], mode)
	default:
		os.Exit(2)
	}
}
