// vh-historyrepo binds specs/HistoryRepo to core/dblookupext.historyRepository (property C46).
//
//	vh-historyrepo replay <behaviours.ndjson>   TLC behaviours (RecordBlock / OnNotarizedBlocks in any order) -> real repository
//	                                            with memory storers; after every step every transaction of every miniblock
//	                                            is looked up (GetMiniblockMetadataByTxHash, GetEpochByHash) and compared with what
//	                                            the specification requires (a function of the inputs seen so far, computed by TLA+)
//	vh-historyrepo probe                        runs the three named deviations of the specification on the real code and
//	                                            reports which of them the present code has (selects the model variant)
//
// No model logic here: the harness concretises ids (miniblock "a" -> block.MiniBlock, header 2 -> hash/round/nonce,
// meta block 1 -> block.MetaBlock), drives the real calls, projects the answers back to ids and compares.
package main

import (
	"bytes"
	"fmt"
	"os"
	"sort"
	"strings"

	"github.com/ElrondNetwork/elrond-go/core"
	"github.com/ElrondNetwork/elrond-go/core/dblookupext"
	"github.com/ElrondNetwork/elrond-go/data"
	"github.com/ElrondNetwork/elrond-go/data/block"
	"github.com/ElrondNetwork/elrond-go/hashing/blake2b"
	"github.com/ElrondNetwork/elrond-go/marshal"
	"github.com/ElrondNetwork/elrond-go/testscommon/genericMocks"
	"verif/harness/internal/vtrace"
)

type M = vtrace.M

const (
	selfShard  = uint32(1)
	otherShard = uint32(2)
	txsPerMb   = 2
)

var (
	marshalizer = &marshal.GogoProtoMarshalizer{}
	hasher      = blake2b.NewBlake2b()
	prop        = "C46"
)

type repoT interface {
	RecordBlock(blockHeaderHash []byte, blockHeader data.HeaderHandler, blockBody data.BodyHandler,
		scrResultsFromPool map[string]data.TransactionHandler, receiptsFromPool map[string]data.TransactionHandler) error
	OnNotarizedBlocks(shardID uint32, headers []data.HeaderHandler, headersHashes [][]byte)
	GetMiniblockMetadataByTxHash(hash []byte) (*dblookupext.MiniblockMetadata, error)
	GetEpochByHash(hash []byte) (uint32, error)
}

func shardOf(name string) uint32 {
	switch name {
	case "self":
		return selfShard
	case "other":
		return otherShard
	case "meta":
		return core.MetachainShardId
	}
	panic("shard " + name)
}

func dirShards(d string) (uint32, uint32) {
	switch d {
	case "intra":
		return selfShard, selfShard
	case "out":
		return selfShard, otherShard
	case "in":
		return otherShard, selfShard
	case "toMeta":
		return selfShard, core.MetachainShardId
	case "fromMeta":
		return core.MetachainShardId, selfShard
	}
	panic("dir " + d)
}

// world is the concretisation of one behaviour's universe
type world struct {
	repo   repoT
	mbIDs  []string
	mbs    map[string]*block.MiniBlock
	mbHash map[string][]byte
}

func newWorld(dir M) *world {
	args := dblookupext.HistoryRepositoryArguments{
		SelfShardID:                 selfShard,
		MiniblocksMetadataStorer:    genericMocks.NewStorerMock("MiniblocksMetadata", 0),
		MiniblockHashByTxHashStorer: genericMocks.NewStorerMock("MiniblockHashByTxHash", 0), // static storers in the node:
		EpochByHashStorer:           genericMocks.NewStorerMock("EpochByHash", 0),           // their "current epoch" never moves
		EventsHashesByTxHashStorer:  genericMocks.NewStorerMock("EventsHashesByTxHash", 0),
		Marshalizer:                 marshalizer,
		Hasher:                      hasher,
	}
	r, err := dblookupext.NewHistoryRepository(args)
	if err != nil {
		panic(err)
	}
	w := &world{repo: r, mbs: map[string]*block.MiniBlock{}, mbHash: map[string][]byte{}}
	for id := range dir {
		w.mbIDs = append(w.mbIDs, id)
	}
	sort.Strings(w.mbIDs)
	for _, id := range w.mbIDs {
		d := vtrace.Str(dir[id])
		s, r := dirShards(d)
		mb := &block.MiniBlock{SenderShardID: s, ReceiverShardID: r, Type: block.TxBlock}
		if d == "fromMeta" {
			mb.Type = block.RewardsBlock
		}
		for i := 0; i < txsPerMb; i++ {
			mb.TxHashes = append(mb.TxHashes, txHash(id, i))
		}
		h, err := core.CalculateHash(marshalizer, hasher, mb)
		if err != nil {
			panic(err)
		}
		w.mbs[id] = mb
		w.mbHash[id] = h
	}
	return w
}

func txHash(mb string, i int) []byte {
	return []byte(fmt.Sprintf("tx-%s-%d-%s", mb, i, strings.Repeat("x", 20)))
}
func hdrHash(b int) []byte   { return []byte(fmt.Sprintf("header-%02d-%s", b, strings.Repeat("h", 20))) }
func metaHash(k int) []byte  { return []byte(fmt.Sprintf("meta-%02d-%s", k, strings.Repeat("m", 20))) }
func hdrRound(b int) uint64  { return uint64(1000 + b) }
func hdrNonce(b int) uint64  { return uint64(2000 + b) }
func metaNonce(k int) uint64 { return uint64(k) } // meta block 1 has nonce 1: the lowest nonce whose ShardInfo counts

func (w *world) record(in M) {
	b := vtrace.Int(in["b"])
	hdr := &block.Header{Epoch: uint32(vtrace.Int(in["epoch"])), Round: hdrRound(b), Nonce: hdrNonce(b), ShardID: selfShard}
	ids := vtrace.Strs(in["mbs"])
	sort.Strings(ids)
	body := &block.Body{}
	for _, id := range ids {
		body.MiniBlocks = append(body.MiniBlocks, w.mbs[id])
	}
	if err := w.repo.RecordBlock(hdrHash(b), hdr, body, nil, nil); err != nil {
		panic(err)
	}
}

// notify builds the meta blocks of one OnNotarizedBlocks call: consecutive entries of the same meta block go into one
// block.MetaBlock; an entry whose containing block is the meta block itself becomes one of MetaBlock.MiniBlockHeaders,
// the others become ShardInfo[].ShardMiniBlockHeaders (consecutive entries of one shard share a ShardData).
func (w *world) notify(in M) {
	var headers []data.HeaderHandler
	var hashes [][]byte
	var cur *block.MetaBlock
	curID := -1
	es, _ := in["es"].([]interface{})
	for _, x := range es {
		e := x.(map[string]interface{})
		k := vtrace.Int(e["meta"])
		if cur == nil || k != curID {
			cur = &block.MetaBlock{Nonce: metaNonce(k), Round: metaNonce(k)}
			curID = k
			headers = append(headers, cur)
			hashes = append(hashes, metaHash(k))
		}
		id := vtrace.Str(e["mb"])
		mb := w.mbs[id]
		mbh := block.MiniBlockHeader{Hash: w.mbHash[id], SenderShardID: mb.SenderShardID, ReceiverShardID: mb.ReceiverShardID,
			TxCount: uint32(len(mb.TxHashes)), Type: mb.Type}
		sh := shardOf(vtrace.Str(e["shard"]))
		if sh == core.MetachainShardId {
			cur.MiniBlockHeaders = append(cur.MiniBlockHeaders, mbh)
			continue
		}
		n := len(cur.ShardInfo)
		if n == 0 || cur.ShardInfo[n-1].ShardID != sh {
			cur.ShardInfo = append(cur.ShardInfo, block.ShardData{ShardID: sh, HeaderHash: []byte(fmt.Sprintf("shard-%d-header", sh))})
			n++
		}
		cur.ShardInfo[n-1].ShardMiniBlockHeaders = append(cur.ShardInfo[n-1].ShardMiniBlockHeaders, mbh)
	}
	w.repo.OnNotarizedBlocks(core.MetachainShardId, headers, hashes)
}

// answer is the projection of one lookup back to the ids of the specification
type answer struct {
	found    bool
	hdr      int // header id, -1 unknown
	epoch    int
	coordsOK bool // round and nonce are those of hdr, MiniblockHash is the miniblock's
	src, dst int  // meta block id, 0 none, -1 not a (nonce, hash) pair of any meta block
	err      string
}

func projMeta(nonce uint64, hash []byte, nMetas int) int {
	if nonce == 0 && len(hash) == 0 {
		return 0
	}
	for k := 1; k <= nMetas; k++ {
		if nonce == metaNonce(k) && bytes.Equal(hash, metaHash(k)) {
			return k
		}
	}
	return -1
}

func (w *world) lookup(id string, tx int, nHdr, nMetas int) answer {
	md, err := w.repo.GetMiniblockMetadataByTxHash(txHash(id, tx))
	if err != nil {
		return answer{err: err.Error()}
	}
	a := answer{found: true, hdr: -1, epoch: int(md.Epoch)}
	for b := 1; b <= nHdr; b++ {
		if bytes.Equal(md.HeaderHash, hdrHash(b)) {
			a.hdr = b
			a.coordsOK = md.Round == hdrRound(b) && md.HeaderNonce == hdrNonce(b) && bytes.Equal(md.MiniblockHash, w.mbHash[id])
		}
	}
	a.src = projMeta(md.NotarizedAtSourceInMetaNonce, md.NotarizedAtSourceInMetaHash, nMetas)
	a.dst = projMeta(md.NotarizedAtDestinationInMetaNonce, md.NotarizedAtDestinationInMetaHash, nMetas)
	return a
}

func has(set []int, x int) bool {
	for _, y := range set {
		if x == y {
			return true
		}
	}
	return false
}

type reporter struct {
	n     map[string]int
	drift int
}

func (r *reporter) violation(sig, what string, detail M) {
	r.n[sig]++
	if r.n[sig] <= 1 {
		vtrace.Violation(prop, sig, what, detail)
	}
}

// check compares the real repository with the requirement of the specification after one step
func (w *world) check(st M, rep *reporter, ctxt func() M) {
	req := st["req"].(map[string]interface{})
	hdrs := vtrace.Ints(st["hdrs"])
	impl, _ := st["impl"].(map[string]interface{})
	nMetas := 9
	for _, id := range w.mbIDs {
		r := req[id].(map[string]interface{})
		wantHdr, wantEpoch := vtrace.Int(r["hdr"]), vtrace.Int(r["epoch"])
		hclass := vtrace.Str(r["hclass"])
		for tx := 0; tx < txsPerMb; tx++ {
			a := w.lookup(id, tx, len(hdrs), nMetas)
			if impl != nil && tx == 0 {
				im := impl[id].(map[string]interface{})
				if (vtrace.Int(im["hdr"]) != 0) != a.found || (a.found && (vtrace.Int(im["hdr"]) != a.hdr ||
					vtrace.Int(im["epoch"]) != a.epoch || vtrace.Int(im["src"]) != a.src || vtrace.Int(im["dst"]) != a.dst)) {
					rep.drift++
					if rep.drift == 1 {
						vtrace.Drift(prop, fmt.Sprintf("lookup of miniblock %s answers %+v, the model of the code predicted %v", id, a, im), ctxt())
					}
				}
			}
			if wantHdr == 0 {
				continue // never committed: the property says nothing
			}
			if !a.found {
				rep.violation("C46/lookup-fails/"+hclass, fmt.Sprintf("transaction %d of miniblock %s was committed in block %d but "+
					"GetMiniblockMetadataByTxHash fails: %s", tx, id, wantHdr, a.err), ctxt())
				continue
			}
			if a.hdr != wantHdr || a.epoch != wantEpoch || !a.coordsOK {
				rep.violation("C46/canonical-block/"+hclass, fmt.Sprintf("transaction %d of miniblock %s: lookup reports block %d "+
					"(epoch %d, round/nonce/miniblock hash consistent: %v), the most recently committed block containing the miniblock "+
					"is %d (epoch %d)", tx, id, a.hdr, a.epoch, a.coordsOK, wantHdr, wantEpoch), ctxt())
			}
			e, err := w.repo.GetEpochByHash(w.mbHash[id])
			if err != nil || int(e) != wantEpoch {
				rep.violation("C46/epoch-by-hash/miniblock/"+hclass, fmt.Sprintf("GetEpochByHash(miniblock %s) = %d, %v; the most recently "+
					"committed block containing it (%d) has epoch %d", id, e, err, wantHdr, wantEpoch), ctxt())
			}
			for _, k := range []struct {
				name string
				got  int
				seen []int
				owed bool
			}{{"source", a.src, vtrace.Ints(r["srcSeen"]), r["srcOwed"].(bool)}, {"destination", a.dst, vtrace.Ints(r["dstSeen"]), r["dstOwed"].(bool)}} {
				switch {
				case k.got != 0 && !has(k.seen, k.got):
					rep.violation("C46/notarization/"+k.name+"/reports-unseen-meta-block", fmt.Sprintf("miniblock %s: notarized-at-%s reports "+
						"meta block %d, meta blocks seen notarizing it there: %v", id, k.name, k.got, k.seen), ctxt())
				case k.got == 0 && len(k.seen) > 0 && k.owed:
					rep.violation("C46/notarization/not-visible-until-next-notification", fmt.Sprintf("miniblock %s is committed (block %d) and "+
						"meta block(s) %v notarizing it at %s were seen before the record, but the lookup reports no notarization: pending "+
						"notifications are only consumed by the next OnNotarizedBlocks call", id, wantHdr, k.seen, k.name), ctxt())
				case k.got == 0 && len(k.seen) > 0:
					rep.violation("C46/notarization/lost/"+hclass, fmt.Sprintf("miniblock %s is committed (block %d), meta block(s) %v notarizing it at "+
						"%s were seen and an OnNotarizedBlocks call has ended since, but the lookup reports no notarization", id, wantHdr, k.seen, k.name), ctxt())
				}
			}
		}
	}
	for i, e := range hdrs {
		if e == 0 {
			continue
		}
		got, err := w.repo.GetEpochByHash(hdrHash(i + 1))
		if err != nil || int(got) != e {
			rep.violation("C46/epoch-by-hash/header", fmt.Sprintf("GetEpochByHash(header %d) = %d, %v; committed with epoch %d", i+1, got, err, e), ctxt())
		}
	}
}

func replay(path string) {
	bs, err := vtrace.ReadBehaviours(path)
	if err != nil {
		vtrace.Broken(err.Error())
		return
	}
	rep := &reporter{n: map[string]int{}}
	distinct := vtrace.NewDistinct()
	steps, lookups := 0, 0
	rerecorded, early := 0, 0
	for bi, b := range bs {
		var w *world
		for si, st := range b {
			switch st.A {
			case "New":
				w = newWorld(st.In["dir"].(map[string]interface{}))
			case "Record":
				w.record(st.In)
			case "Notify":
				w.notify(st.In)
			case "End":
			default:
				panic("unknown action " + st.A)
			}
			steps++
			lookups += len(w.mbIDs) * txsPerMb
			bb, ss := b, si
			w.check(st.St, rep, func() M { return M{"behaviour": bb[:ss+1], "step": ss} })
		}
		if len(b) > 1 {
			last := b[len(b)-1]
			distinct.Add(fmt.Sprint(b[0].In, b[len(b)-2].St, last.A, last.In))
			for _, r := range last.St["req"].(map[string]interface{}) {
				rm := r.(map[string]interface{})
				if strings.HasPrefix(vtrace.Str(rm["hclass"]), "competing") {
					rerecorded++
				}
				if rm["srcOwed"].(bool) || rm["dstOwed"].(bool) {
					early++
				}
			}
		}
		if bi%997 == 3 || bi == len(bs)-1 {
			vtrace.Sample(prop, b)
		}
	}
	nv := 0
	for _, n := range rep.n {
		nv += n
	}
	vtrace.Stat("behaviours", len(bs))
	vtrace.Stat("steps", steps)
	vtrace.Stat("lookups", lookups)
	vtrace.Stat("distinct", distinct.Len())
	vtrace.Stat("ends_with_competing_block", rerecorded)
	vtrace.Stat("ends_with_early_notification", early)
	vtrace.Stat("violating_lookups", nv)
	vtrace.Stat("drift_lookups", rep.drift)
	for sig, n := range rep.n {
		vtrace.Stat("n:"+sig, n)
	}
}

// probe: which of the named deviations of specs/HistoryRepo does the present code have?
func probe() {
	one := M{"a": "intra"}
	var defects []string
	rec := func(w *world, b, e int) { w.record(M{"b": b, "epoch": e, "mbs": []interface{}{"a"}}) }
	notif := func(w *world, k int) {
		w.notify(M{"es": []interface{}{map[string]interface{}{"meta": k, "shard": "self", "mb": "a"}}})
	}
	w := newWorld(one)
	rec(w, 1, 1)
	rec(w, 2, 1)
	if a := w.lookup("a", 0, 3, 3); a.found && a.hdr == 1 {
		defects = append(defects, "dedup")
	}
	w = newWorld(one)
	rec(w, 1, 1)
	notif(w, 1)
	rec(w, 2, 2)
	if a := w.lookup("a", 0, 3, 3); a.found && a.src == 0 {
		defects = append(defects, "lost")
	}
	w = newWorld(one)
	notif(w, 1)
	rec(w, 1, 1)
	if a := w.lookup("a", 0, 3, 3); a.found && a.src == 0 {
		defects = append(defects, "lag")
	}
	vtrace.Stat("defects", strings.Join(defects, ","))
}

func main() {
	vtrace.Quiet()
	if os.Getenv("VERIF_SELFTEST") != "" {
		prop = "selftest-C46"
	}
	if len(os.Args) < 2 {
		fmt.Fprintln(os.Stderr, "usage: vh-historyrepo replay <file> | probe")
		os.Exit(2)
	}
	switch os.Args[1] {
	case "replay":
		replay(os.Args[2])
	case "probe":
		probe()
	default:
		os.Exit(2)
	}
}
