package main

// Replay of TLC behaviours of specs/Accounts/DataTrie.tla (C08) on the real TrackableDataTrie reached through
// AccountsDB.LoadAccount / SaveAccount / Commit over a real trie.  The harness builds exactly the caller slices the
// behaviour describes (backing array, offset, length, capacity), performs the calls, reads every key back with
// RetrieveValue and compares with the bytes the specification says were written last (`exp`).

import (
	"bufio"
	"bytes"
	"encoding/json"
	"fmt"
	"os"
	"sort"

	"github.com/ElrondNetwork/elrond-go/data/state"
	"verif/harness/internal/vtrace"
)

func toBytes(v interface{}) []byte {
	a, _ := v.([]interface{})
	r := make([]byte, len(a))
	for i := range a {
		r[i] = byte(vtrace.Int(a[i]))
	}
	return r
}

func eqSeq(v interface{}, got []byte, gotErr bool) bool {
	a, _ := v.([]interface{})
	if len(a) == 1 && vtrace.Int(a[0]) == -1 {
		return gotErr
	}
	if gotErr || len(a) != len(got) {
		return false
	}
	for i := range a {
		if vtrace.Int(a[i]) != int(got[i]) {
			return false
		}
	}
	return true
}

type stoReplayer struct {
	nviol    map[string]int
	steps    int
	reads    int
	drifts   int
	distinct *vtrace.Distinct
	samples  int
	writes   map[string]int
}

// slice builds the caller slice described by the behaviour: b = 0 a fresh array of exactly len bytes,
// b > 0 bufs[b][off : off+len : off+cap]; the caller's bytes are filled in
func mkSlice(bufs [][]byte, d map[string]interface{}, content []byte) []byte {
	b, off, n, c := vtrace.Int(d["b"]), vtrace.Int(d["off"]), vtrace.Int(d["len"]), vtrace.Int(d["cap"])
	if n != len(content) {
		panic("slice length does not match its content")
	}
	if b == 0 {
		s := make([]byte, n)
		copy(s, content)
		return s[:n:n]
	}
	s := bufs[b][off : off+n : off+c]
	copy(s, content)
	return s
}

func (r *stoReplayer) run(b []Step, bi int) {
	first := b[0]
	addr := toBytes(first.In["addr"])
	keys := map[string][]byte{}
	var names []string
	for n, v := range asMap(first.In["keys"]) {
		keys[n] = toBytes(v)
		names = append(names, n)
	}
	sort.Strings(names)
	capacity := vtrace.Int(first.In["cap"])
	bufs := [][]byte{nil, make([]byte, capacity), make([]byte, capacity)}
	e := newEnv([][]byte{addr}, false)
	var root []byte
	load := func() state.UserAccountHandler {
		h, err := e.adb.LoadAccount(addr)
		must(err)
		return h.(state.UserAccountHandler)
	}
	acc := load()
	for si := 1; si < len(b); si++ {
		st := b[si]
		switch st.A {
		case "Write":
			k := mkSlice(bufs, asMap(st.In["ks"]), toBytes(st.In["kb"]))
			v := mkSlice(bufs, asMap(st.In["vs"]), toBytes(st.In["vb"]))
			if err := acc.DataTrieTracker().SaveKeyValue(k, v); err != nil {
				r.drift(fmt.Sprintf("SaveKeyValue: %v", err), b, si)
				return
			}
			r.writes[vtrace.Str(st.In["layout"])]++
		case "Scribble":
			buf := bufs[vtrace.Int(st.In["b"])]
			for i := range buf {
				buf[i] = 238
			}
		case "SaveAccount":
			if err := e.adb.SaveAccount(acc); err != nil {
				r.drift(fmt.Sprintf("SaveAccount: %v", err), b, si)
				return
			}
			acc = load()
		case "Commit":
			rh, err := e.adb.Commit()
			if err != nil {
				r.drift(fmt.Sprintf("Commit: %v", err), b, si)
				return
			}
			root = rh
			acc = load()
		case "Reload":
			e.open(root)
			acc = load()
		case "End":
			continue
		default:
			panic("unknown action " + st.A)
		}
		r.steps++
		exp, read, src, lay := asMap(st.St["exp"]), asMap(st.St["read"]), asMap(st.St["src"]), asMap(st.St["lay"])
		for _, n := range names {
			got, err := acc.DataTrieTracker().RetrieveValue(append([]byte(nil), keys[n]...))
			gotErr := false
			if err != nil {
				if err == state.ErrNilTrie { // the account never had a data trie: nothing stored
					got = nil
				} else {
					gotErr = true
				}
			}
			got = append([]byte(nil), got...)
			r.reads++
			if !eqSeq(exp[n], got, gotErr) {
				how := "reads-other-bytes"
				if gotErr {
					how = "read-fails"
				} else if len(toBytes(exp[n])) == 0 {
					how = "deleted-key-reads-bytes"
				}
				sig := fmt.Sprintf("C08/%s/%s/%s/after-%s", vtrace.Str(src[n]), vtrace.Str(lay[n]), how, st.A)
				if gotErr && len(toBytes(exp[n])) == 0 {
					sig = fmt.Sprintf("C08/%s/deleted-key-read-fails", vtrace.Str(src[n]))
				}
				r.violation(sig, fmt.Sprintf("key %s (last written with caller layout %q, now served from %s) reads %v err=%v after %s; written last: %v (behaviour %d step %d)",
					n, vtrace.Str(lay[n]), vtrace.Str(src[n]), got, err, st.A, exp[n], bi, si), b, si)
				return
			}
			if !eqSeq(read[n], got, gotErr) {
				r.drift(fmt.Sprintf("key %s reads %v err=%v, the specification predicted %v (property holds: written last %v) (behaviour %d step %d)",
					n, got, err, read[n], exp[n], bi, si), b, si)
				return
			}
		}
	}
}

func (r *stoReplayer) violation(sig, what string, b []Step, si int) {
	r.nviol[sig]++
	if r.nviol[sig] > 1 || len(r.nviol) > 8 {
		return
	}
	vtrace.Violation("C08", sig, what, M{"behaviour": b[:si+1], "step": si})
}

func (r *stoReplayer) drift(what string, b []Step, si int) {
	r.drifts++
	if r.drifts <= 3 {
		vtrace.Drift("C08", what, M{"behaviour": b[:si+1], "step": si})
	}
}

func replayStorage(path string) {
	f, err := os.Open(path)
	if err != nil {
		vtrace.Broken(err.Error())
		return
	}
	defer f.Close()
	rd := bufio.NewReaderSize(f, 1<<20)
	r := &stoReplayer{nviol: map[string]int{}, distinct: vtrace.NewDistinct(), writes: map[string]int{}}
	bi := -1
	for {
		line, rerr := rd.ReadBytes('\n')
		if len(line) > 1 {
			var b []Step
			if e := json.Unmarshal(line, &b); e != nil {
				vtrace.Broken(fmt.Sprintf("behaviour line %d: %v", bi+2, e))
				return
			}
			bi++
			if len(b) >= 2 {
				r.run(b, bi)
				last := b[len(b)-1]
				if last.A == "End" && len(b) > 2 {
					last = b[len(b)-2]
				}
				if nontrivialStorage(b) {
					r.distinct.Add(canon(b[0].In["addr"]) + canon(b[len(b)-2].St) + last.A + canon(last.In))
				}
				if r.samples < 3 && len(b) > 3 {
					r.samples++
					vtrace.Sample("C08", b)
				}
			}
		}
		if rerr != nil {
			break
		}
	}
	total := 0
	for _, n := range r.nviol {
		total += n
	}
	vtrace.Stat("behaviours", bi+1)
	vtrace.Stat("steps", r.steps)
	vtrace.Stat("reads", r.reads)
	vtrace.Stat("distinct_nontrivial", r.distinct.Len())
	vtrace.Stat("violations", total)
	vtrace.Stat("violation_classes", len(r.nviol))
	vtrace.Stat("drifted", r.drifts)
	vtrace.Stat("writes_by_layout", r.writes)
}

// a history is non-trivial for C08 if some write used a caller buffer or deleted a key
func nontrivialStorage(b []Step) bool {
	for _, s := range b {
		if s.A == "Write" && (vtrace.Str(s.In["layout"]) != "fresh" || len(toBytes(s.In["vb"])) == 0) {
			return true
		}
	}
	return false
}

// limits8: value sizes around the leaf-size limit. Each behaviour is New + one Big(n) step whose `accepted` flag is
// the specification's verdict; an accepted value must read back at every point, a rejected call changes nothing.
func limitsStorage(path, tier string) {
	f, err := os.Open(path)
	if err != nil {
		vtrace.Broken(err.Error())
		return
	}
	defer f.Close()
	rd := bufio.NewReaderSize(f, 1<<20)
	sizes := 0
	seen := map[int]bool{}
	for {
		line, rerr := rd.ReadBytes('\n')
		if len(line) > 1 {
			var b []Step
			if e := json.Unmarshal(line, &b); e != nil {
				vtrace.Broken(e.Error())
				return
			}
			last := b[len(b)-1]
			n := vtrace.Int(last.In["n"])
			accepted, _ := last.Out["accepted"].(bool)
			if last.A == "Big" && !seen[n] && !(tier == "quick" && accepted && n > 8<<20) {
				seen[n] = true
				sizes++
				limitCase(toBytes(b[0].In["addr"]), n, vtrace.Int(last.In["limit"]), accepted)
			}
		}
		if rerr != nil {
			break
		}
	}
	vtrace.Stat("sizes", sizes)
}

func limitCase(addr []byte, n, limit int, accepted bool) {
	class := "below-limit"
	if n == limit {
		class = "at-limit"
	} else if n > limit {
		class = "above-limit"
	}
	e := newEnv([][]byte{addr}, false)
	load := func() state.UserAccountHandler {
		h, err := e.adb.LoadAccount(addr)
		must(err)
		return h.(state.UserAccountHandler)
	}
	key := []byte("big-key")
	val := make([]byte, n)
	for i := range val {
		val[i] = byte(i%251 + 1)
	}
	acc := load()
	err := acc.DataTrieTracker().SaveKeyValue(key, val)
	if (err == nil) != accepted {
		vtrace.Violation("C08", "C08/limit/"+class+"/acceptance", fmt.Sprintf("SaveKeyValue of a %d-byte value (limit %d): error %v, the specification says accepted=%v", n, limit, err, accepted), M{"n": n})
		return
	}
	want := val
	if !accepted {
		want = nil
	}
	check := func(point string) bool {
		got, rerr := readValue(acc, key)
		if rerr != nil || !bytes.Equal(got, want) {
			vtrace.Violation("C08", "C08/limit/"+class+"/"+point, fmt.Sprintf("a %d-byte value (accepted=%v) reads back %d bytes, err=%v at point %s", n, accepted, len(got), rerr, point), M{"n": n})
			return false
		}
		return true
	}
	if !check("dirty") {
		return
	}
	must(e.adb.SaveAccount(acc))
	acc = load()
	if !check("saved") {
		return
	}
	root, cerr := e.adb.Commit()
	must(cerr)
	acc = load()
	if !check("committed") {
		return
	}
	e.open(root)
	acc = load()
	check("reloaded")
}
