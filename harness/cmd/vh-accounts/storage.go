package main

func replayStorage(path string) {}
