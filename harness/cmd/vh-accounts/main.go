// vh-accounts binds specs/Accounts (Accounts.tla: C06 C07, DataTrie.tla: C08) to data/state.AccountsDB,
// userAccount and TrackableDataTrie over a real patricia-merkle trie.
//
//	vh-accounts replay  <behaviours.ndjson>    behaviours of Accounts.tla -> real AccountsDB
//	vh-accounts replay8 <behaviours.ndjson>    behaviours of DataTrie.tla -> real TrackableDataTrie through AccountsDB
package main

import (
	"fmt"
	"os"

	"verif/harness/internal/vtrace"
)

func main() {
	vtrace.Quiet()
	if len(os.Args) < 3 {
		fmt.Fprintln(os.Stderr, "usage: vh-accounts replay|replay8 <file>")
		os.Exit(2)
	}
	switch os.Args[1] {
	case "replay":
		replayAccounts(os.Args[2])
	case "replay8":
		replayStorage(os.Args[2])
	default:
		os.Exit(2)
	}
}
