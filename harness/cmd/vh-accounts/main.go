// vh-accounts binds specs/Accounts (Accounts.tla: C06 C07, DataTrie.tla: C08) to data/state.AccountsDB,
// userAccount and TrackableDataTrie over a real patricia-merkle trie.
//
//	vh-accounts replay  <behaviours.ndjson>    behaviours of Accounts.tla -> real AccountsDB
//	vh-accounts replay8 <behaviours.ndjson>    behaviours of DataTrie.tla -> real TrackableDataTrie through AccountsDB
//	vh-accounts record <seed> <traces> <calls> <out.ndjson>   random histories on the real AccountsDB -> trace for TLC
//	vh-accounts record8 <seed> <traces> <calls> <out.ndjson>  random caller slices on the real TrackableDataTrie -> trace
//	vh-accounts limits8 <behaviours.ndjson> <tier>   value sizes around the leaf-size limit
package main

import (
	"fmt"
	"os"
	"runtime/debug"
	"runtime/pprof"
	"strconv"

	"verif/harness/internal/vtrace"
)

func main() {
	vtrace.Quiet()
	debug.SetGCPercent(400)
	if len(os.Args) < 3 {
		fmt.Fprintln(os.Stderr, "usage: vh-accounts replay|replay8 <file>")
		os.Exit(2)
	}
	if p := os.Getenv("VH_PROF"); p != "" {
		f, _ := os.Create(p)
		_ = pprof.StartCPUProfile(f)
		defer pprof.StopCPUProfile()
	}
	switch os.Args[1] {
	case "replay":
		replayAccounts(os.Args[2])
	case "replay8":
		replayStorage(os.Args[2])
	case "record":
		seed, _ := strconv.ParseInt(os.Args[2], 10, 64)
		traces, _ := strconv.Atoi(os.Args[3])
		n, _ := strconv.Atoi(os.Args[4])
		recordAccounts(seed, traces, n, os.Args[5])
	case "record8":
		seed, _ := strconv.ParseInt(os.Args[2], 10, 64)
		traces, _ := strconv.Atoi(os.Args[3])
		n, _ := strconv.Atoi(os.Args[4])
		recordStorage(seed, traces, n, os.Args[5])
	case "limits8":
		limitsStorage(os.Args[2], os.Args[3])
	default:
		os.Exit(2)
	}
}
