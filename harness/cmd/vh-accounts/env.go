package main

import (
	"bytes"
	"errors"
	"fmt"

	"github.com/ElrondNetwork/elrond-go/config"
	"github.com/ElrondNetwork/elrond-go/data"
	"github.com/ElrondNetwork/elrond-go/data/state"
	"github.com/ElrondNetwork/elrond-go/data/state/factory"
	"github.com/ElrondNetwork/elrond-go/data/state/storagePruningManager"
	"github.com/ElrondNetwork/elrond-go/data/state/storagePruningManager/disabled"
	"github.com/ElrondNetwork/elrond-go/data/state/storagePruningManager/evictionWaitingList"
	"github.com/ElrondNetwork/elrond-go/data/trie"
	"github.com/ElrondNetwork/elrond-go/data/trie/hashesHolder"
	"github.com/ElrondNetwork/elrond-go/hashing"
	"github.com/ElrondNetwork/elrond-go/hashing/blake2b"
	"github.com/ElrondNetwork/elrond-go/marshal"
	"github.com/ElrondNetwork/elrond-go/storage/memorydb"
	vmcommon "github.com/ElrondNetwork/elrond-vm-common"
)

// codeLeaf lets the harness read a code leaf (state.CodeEntry: code + NumReferences) of the WORKING main trie
// through the public API: the account factory hands out this object for keys that are not account addresses,
// so adb.GetExistingAccount(codeHash) unmarshals the leaf stored under the code hash into it.
type codeLeaf struct {
	*state.CodeEntry
	key []byte
}

func (c *codeLeaf) AddressBytes() []byte { return c.key }
func (c *codeLeaf) IncreaseNonce(uint64) {}
func (c *codeLeaf) GetNonce() uint64     { return 0 }
func (c *codeLeaf) IsInterfaceNil() bool { return c == nil }

// accFactory is the real user-account creator for account addresses
type accFactory struct {
	real  state.AccountFactory
	addrs map[string]bool
}

func (f *accFactory) CreateAccount(a []byte) (vmcommon.AccountHandler, error) {
	if f.addrs[string(a)] {
		return f.real.CreateAccount(a)
	}
	return &codeLeaf{CodeEntry: &state.CodeEntry{}, key: a}, nil
}
func (f *accFactory) IsInterfaceNil() bool { return f == nil }

// env is one real AccountsDB over a real patricia-merkle trie and an in-memory persister
type env struct {
	db      *memorydb.DB
	tsm     data.StorageManager
	tr      data.Trie
	adb     *state.AccountsDB
	hasher  hashing.Hasher
	marsh   marshal.Marshalizer
	fact    *accFactory
	pruning bool
	kept    map[string]state.UserAccountHandler // account objects the behaviour keeps (handles)
}

var theHasher = blake2b.NewBlake2b()

func newStorageManager(db *memorydb.DB, pruning bool, m marshal.Marshalizer, h hashing.Hasher) (data.StorageManager, error) {
	if !pruning {
		return trie.NewTrieStorageManagerWithoutPruning(db)
	}
	return trie.NewTrieStorageManager(trie.NewTrieStorageManagerArgs{
		DB:          db,
		Marshalizer: m,
		Hasher:      h,
		SnapshotDbConfig: config.DBConfig{
			Type: "MemoryDB",
		},
		GeneralConfig:          config.TrieStorageManagerConfig{PruningBufferLen: 1000, SnapshotsBufferLen: 10, MaxSnapshots: 2},
		CheckpointHashesHolder: hashesHolder.NewCheckpointHashesHolder(1<<40, 32),
	})
}

// newEnv builds the accounts DB; addrs are the account addresses the run will use
func newEnv(addrs [][]byte, pruning bool) *env {
	e := &env{db: memorydb.New(), hasher: theHasher, marsh: &marshal.GogoProtoMarshalizer{}, pruning: pruning}
	e.fact = &accFactory{real: factory.NewAccountCreator(), addrs: map[string]bool{}}
	for _, a := range addrs {
		e.fact.addrs[string(a)] = true
	}
	e.open(nil)
	return e
}

// open (re)creates storage manager, trie and AccountsDB over the same persister; root != nil: RecreateTrie(root)
func (e *env) open(root []byte) {
	var err error
	e.tsm, err = newStorageManager(e.db, e.pruning, e.marsh, e.hasher)
	must(err)
	e.tr, err = trie.NewTrie(e.tsm, e.marsh, e.hasher, 5)
	must(err)
	var spm state.StoragePruningManager = disabled.NewDisabledStoragePruningManager()
	if e.pruning {
		ewl, errE := evictionWaitingList.NewEvictionWaitingList(100, memorydb.New(), e.marsh)
		must(errE)
		spm, err = storagePruningManager.NewStoragePruningManager(ewl, 1000)
		must(err)
	}
	e.adb, err = state.NewAccountsDB(e.tr, e.hasher, e.marsh, e.fact, spm)
	must(err)
	if root != nil {
		must(e.adb.RecreateTrie(root))
	}
}

func (e *env) close() {
	if e.pruning {
		_ = e.tsm.Close()
	}
}

func must(err error) {
	if err != nil {
		panic(err)
	}
}

// codeEntry reads the code leaf under hash from the working main trie: (exists, NumReferences, code)
func (e *env) codeEntry(hash []byte) (bool, int, []byte, error) {
	acc, err := e.adb.GetExistingAccount(hash)
	if err != nil {
		if errors.Is(err, state.ErrAccNotFound) {
			return false, 0, nil, nil
		}
		return false, 0, nil, err
	}
	cl, ok := acc.(*codeLeaf)
	if !ok {
		return false, 0, nil, fmt.Errorf("leaf under code hash is %T", acc)
	}
	return true, int(cl.NumReferences), cl.Code, nil
}

func (e *env) user(addr []byte) (state.UserAccountHandler, bool, error) {
	acc, err := e.adb.GetExistingAccount(addr)
	if err != nil {
		if errors.Is(err, state.ErrAccNotFound) {
			return nil, false, nil
		}
		return nil, false, err
	}
	u, ok := acc.(state.UserAccountHandler)
	if !ok {
		return nil, false, fmt.Errorf("account is %T", acc)
	}
	return u, true, nil
}

// readValue is RetrieveValue; an account that never had a data trie (no trie object attached) has no storage
func readValue(u state.UserAccountHandler, key []byte) ([]byte, error) {
	v, err := u.DataTrieTracker().RetrieveValue(key)
	if err != nil {
		if errors.Is(err, state.ErrNilTrie) {
			return nil, nil
		}
		return nil, err
	}
	return append([]byte(nil), v...), nil
}

func rep(b byte, n int) []byte { return bytes.Repeat([]byte{b}, n) }

// Step is one record of a TLC-generated behaviour (vtrace.Step plus `exp`, the state the property demands where
// it differs from the state the specification reaches, i.e. under KnownDefects)
type Step struct {
	A   string                 `json:"a"`
	In  map[string]interface{} `json:"in"`
	Out map[string]interface{} `json:"out"`
	St  map[string]interface{} `json:"st"`
	Exp map[string]interface{} `json:"exp"`
}

// safely turns a panic of the code under test into an error (reported like any other failed call)
func safely(f func() error) (err error) {
	defer func() {
		if r := recover(); r != nil {
			err = fmt.Errorf("panic: %v", r)
		}
	}()
	return f()
}
