package main

// Seeded random drivers that run the real code at larger sizes and log one event per call for TLC trace validation
// (specs/Accounts/Obs_Accounts.tla, Trace_Accounts.tla, Obs_DataTrie.tla).

import (
	"fmt"
	"math/rand"

	"github.com/ElrondNetwork/elrond-go/data/state"
	"verif/harness/internal/vtrace"
)

var recAddrs = []string{"A", "B", "C", "D", "E", "F"}
var recCodes = []string{"c1", "c2", "c3"}
var recKeys = []string{"k1", "k2", "k3", "k4"}
var recVals = []string{"v1", "v2", "v3"}

type snapshot struct{ pos, jl int }

func recordAccounts(seed int64, traces, n int, out string) {
	w, err := vtrace.NewWriter(out)
	if err != nil {
		vtrace.Broken(err.Error())
		return
	}
	rng := rand.New(rand.NewSource(seed))
	roots := vtrace.NewInterner()
	reverts, removes := 0, 0
	for t := 0; t < traces; t++ {
		u := &universe{addrs: recAddrs, codes: recCodes, keys: recKeys, codeOfHash: map[string]string{}, ownerOf: map[string]string{},
			metaOf: map[string]string{}, valOf: map[string]string{}}
		for _, c := range u.codes {
			u.codeOfHash[string(cached(string(codeBytes(c))))] = c
		}
		for _, v := range recVals {
			u.valOf[string(valBytes(v))] = v
		}
		for _, o := range []string{"o1", "o2"} {
			u.ownerOf[string(ownerBytes(o))] = o
		}
		for _, m := range []string{"m1", "m2"} {
			u.metaOf[string(metaBytes(m))] = m
		}
		var addrs [][]byte
		for _, a := range u.addrs {
			addrs = append(addrs, addrBytes(a))
		}
		e := newEnv(addrs, t%3 == 2)
		na := 2 + rng.Intn(len(recAddrs)-1) // accounts used by this trace
		state := func() M {
			var real M
			perr := safely(func() error { var e2 error; real, e2 = project(e, u); return e2 })
			if perr != nil {
				return M{"acc": M{}, "code": M{}, "root": 0, "unreadable": perr.Error()}
			}
			for _, a := range u.addrs {
				delete(real["acc"].(M)[a].(M), "codeId")
			}
			root, _ := e.adb.RootHash()
			real["root"] = roots.ID(root)
			return real
		}
		seq := 1
		w.NewTraceWith("New", M{"x": 0}, M{"err": false, "jl": 0}, state())
		snaps := []snapshot{{1, 0}}
		lastRemoved := ""
		for i := 0; i < n; i++ {
			seq++
			r := rng.Intn(100)
			switch {
			case r < 52 || lastRemoved != "":
				a := recAddrs[rng.Intn(na)]
				in := M{"a": a, "dn": rng.Intn(2), "bal": -1, "owner": "keep", "meta": "keep", "code": "keep", "w": []interface{}{}}
				if lastRemoved != "" { // re-create a just removed account, with storage
					in["a"] = lastRemoved
				}
				if rng.Intn(3) == 0 {
					in["bal"] = rng.Intn(4)
				}
				if rng.Intn(4) == 0 {
					in["owner"] = []string{"", "o1", "o2"}[rng.Intn(3)]
				}
				if rng.Intn(4) == 0 {
					in["meta"] = []string{"", "m1", "m2"}[rng.Intn(3)]
				}
				if rng.Intn(2) == 0 {
					in["code"] = append([]string{""}, recCodes...)[rng.Intn(len(recCodes)+1)]
				}
				nw := rng.Intn(4)
				if lastRemoved != "" && nw == 0 {
					nw = 1
				}
				var ws []interface{}
				for j := 0; j < nw; j++ {
					v := ""
					if rng.Intn(4) != 0 {
						v = recVals[rng.Intn(len(recVals))]
					}
					ws = append(ws, map[string]interface{}{"k": recKeys[rng.Intn(len(recKeys))], "v": v})
				}
				if ws != nil {
					in["w"] = ws
				}
				lastRemoved = ""
				err := applyStep(e, u, Step{A: "Save", In: in}, nil)
				jl := e.adb.JournalLen()
				w.Emit("Save", in, M{"err": err != nil, "jl": jl}, state())
				snaps = append(snaps, snapshot{seq, jl})
			case r < 66:
				a := recAddrs[rng.Intn(na)]
				err := applyStep(e, u, Step{A: "Remove", In: M{"a": a}}, nil)
				jl := e.adb.JournalLen()
				w.Emit("Remove", M{"a": a}, M{"err": err != nil, "jl": jl}, state())
				snaps = append(snaps, snapshot{seq, jl})
				removes++
				if err == nil && rng.Intn(2) == 0 {
					lastRemoved = a
				}
			case r < 88:
				s := snaps[rng.Intn(len(snaps))]
				if rng.Intn(3) != 0 && len(snaps) > 1 { // prefer a recent snapshot
					s = snaps[len(snaps)-1-rng.Intn(minInt(4, len(snaps)))]
				}
				err := safely(func() error { return e.adb.RevertToSnapshot(s.jl) })
				jl := e.adb.JournalLen()
				w.Emit("Revert", M{"pos": s.pos}, M{"err": err != nil, "jl": jl}, state())
				if err == nil {
					k := 0
					for k < len(snaps) && snaps[k].pos <= s.pos {
						k++
					}
					snaps = snaps[:k]
					reverts++
				}
				snaps = append(snaps, snapshot{seq, jl})
			case r < 90:
				bad := e.adb.JournalLen() + 1 + rng.Intn(3)
				err := safely(func() error { return e.adb.RevertToSnapshot(bad) })
				jl := e.adb.JournalLen()
				w.Emit("Revert", M{"pos": 0}, M{"err": err != nil, "jl": jl}, state())
				snaps = append(snaps, snapshot{seq, jl})
			default:
				err := safely(func() error { _, cerr := e.adb.Commit(); return cerr })
				w.Emit("Commit", M{"x": 0}, M{"err": err != nil, "jl": e.adb.JournalLen()}, state())
				snaps = []snapshot{{seq, 0}}
			}
		}
		e.close()
	}
	if err := w.Close(); err != nil {
		vtrace.Broken(err.Error())
	}
	vtrace.Stat("events", w.N)
	vtrace.Stat("traces", traces)
	vtrace.Stat("reverts", reverts)
	vtrace.Stat("removes", removes)
	vtrace.Stat("distinct_roots", roots.Len())
	vtrace.Sample("", fmt.Sprintf("recorded %d traces of %d calls on the real AccountsDB (6 accounts, 3 codes, 4 keys): %d reverts, %d removals, %d distinct state roots",
		traces, n, reverts, removes, roots.Len()))
}

func minInt(a, b int) int {
	if a < b {
		return a
	}
	return b
}

func ints(b []byte) []int {
	r := make([]int, len(b))
	for i := range b {
		r[i] = int(b[i])
	}
	return r
}

// recordStorage: random writes with ARBITRARY caller slices (random backing buffer, offset, capacity), buffer reuse,
// flush, commit, reload on the real TrackableDataTrie through AccountsDB; every key is read back after every call.
func recordStorage(seed int64, traces, n int, out string) {
	w, err := vtrace.NewWriter(out)
	if err != nil {
		vtrace.Broken(err.Error())
		return
	}
	rng := rand.New(rand.NewSource(seed))
	keyNames := []string{"p", "pq", "q", "r"}
	inBuf, deletes := 0, 0
	const bufCap = 300
	for t := 0; t < traces; t++ {
		addr := make([]byte, []int{2, 20, 32, 32, 32}[rng.Intn(5)])
		rng.Read(addr)
		// "r": a random key of 3..40 bytes (longer than the fixed keys, so the four keys are always distinct)
		keys := map[string][]byte{"p": {1}, "pq": {1, 2}, "q": {2}, "r": make([]byte, 3+rng.Intn(38))}
		rng.Read(keys["r"])
		kj := M{}
		for k, v := range keys {
			kj[k] = ints(v)
		}
		bufs := [][]byte{make([]byte, bufCap), make([]byte, bufCap), make([]byte, bufCap)}
		e := newEnv([][]byte{addr}, false)
		var root []byte
		load := func() state.UserAccountHandler {
			h, lerr := e.adb.LoadAccount(addr)
			must(lerr)
			return h.(state.UserAccountHandler)
		}
		acc := load()
		dirty, uncommitted := false, false
		reads := func() M {
			r := M{}
			for _, k := range keyNames {
				got, rerr := acc.DataTrieTracker().RetrieveValue(append([]byte(nil), keys[k]...))
				if rerr != nil && rerr != state.ErrNilTrie {
					r[k] = []int{-1}
				} else {
					r[k] = ints(got)
				}
			}
			return M{"read": r}
		}
		w.NewTraceWith("New", M{"addr": ints(addr), "keys": kj}, M{"x": 0}, reads())
		saveAccount := func() {
			must(e.adb.SaveAccount(acc))
			acc = load()
			dirty, uncommitted = false, true
			w.Emit("SaveAccount", M{"x": 0}, M{"x": 0}, reads())
		}
		commit := func() {
			rh, cerr := e.adb.Commit()
			must(cerr)
			root = rh
			acc = load()
			uncommitted = false
			w.Emit("Commit", M{"x": 0}, M{"x": 0}, reads())
		}
		for i := 0; i < n; i++ {
			switch r := rng.Intn(100); {
			case r < 58:
				k := keyNames[rng.Intn(len(keyNames))]
				kb := keys[k]
				var vb []byte
				switch rng.Intn(10) {
				case 0:
					deletes++
				case 1:
					vb = append(append([]byte{}, kb...), addr...) // looks like the suffix
				case 2:
					vb = make([]byte, 1+rng.Intn(30))
					rng.Read(vb)
					vb = append(append(vb, kb...), addr...)
				default:
					vb = make([]byte, 1+rng.Intn(80))
					rng.Read(vb)
				}
				// placement: fresh arrays of exact capacity, or random windows of the caller buffers
				kd := M{"b": 0, "off": 0, "len": len(kb), "cap": len(kb)}
				vd := M{"b": 0, "off": 0, "len": len(vb), "cap": len(vb)}
				if rng.Intn(10) < 6 {
					off := rng.Intn(bufCap - len(vb))
					vd = M{"b": 1 + rng.Intn(3), "off": off, "len": len(vb), "cap": len(vb) + rng.Intn(bufCap-off-len(vb)+1)}
				}
				if rng.Intn(10) < 5 {
					for try := 0; try < 20; try++ {
						off := rng.Intn(bufCap - len(kb))
						cand := M{"b": 1 + rng.Intn(3), "off": off, "len": len(kb), "cap": len(kb) + rng.Intn(bufCap-off-len(kb)+1)}
						if vd["b"].(int) == cand["b"].(int) {
							vo, vl := vd["off"].(int), len(vb)
							tail := len(kb) + len(addr)
							before := off+len(kb) <= vo
							adjacent := off == vo+vl
							beyond := off >= vo+vl+tail
							if rng.Intn(3) == 0 && vo >= len(kb) { // force "key right before value"
								cand["off"] = vo - len(kb)
								cand["cap"] = len(kb) + rng.Intn(bufCap-(vo-len(kb))-len(kb)+1)
								before = true
							}
							// a key inside the region the value's in-place append overwrites would make the map key depend
							// on Go's unspecified evaluation order: not generated
							if !before && !adjacent && !beyond {
								continue
							}
						}
						kd = cand
						break
					}
				}
				if kd["b"].(int) != 0 || vd["b"].(int) != 0 {
					inBuf++
				}
				bb := [][]byte{nil, bufs[0], bufs[1], bufs[2]}
				ks := mkSlice(bb, kd, kb)
				vs := mkSlice(bb, vd, vb)
				if kd["b"].(int) != 0 && kd["b"].(int) == vd["b"].(int) { // both live in one buffer: refill in order
					copy(ks, kb)
					copy(vs, vb)
				}
				if serr := acc.DataTrieTracker().SaveKeyValue(ks, vs); serr != nil {
					vtrace.Broken("record8: SaveKeyValue: " + serr.Error())
					return
				}
				dirty = true
				w.Emit("Write", M{"k": k, "vb": ints(vb), "ks": kd, "vs": vd}, M{"x": 0}, reads())
			case r < 70:
				b := rng.Intn(3)
				rng.Read(bufs[b])
				w.Emit("Scribble", M{"b": b + 1}, M{"x": 0}, reads())
			case r < 85:
				saveAccount()
			case r < 93:
				if dirty {
					saveAccount()
				}
				commit()
			default:
				if dirty {
					saveAccount()
				}
				if uncommitted || root == nil {
					commit()
				}
				e.open(root)
				acc = load()
				w.Emit("Reload", M{"x": 0}, M{"x": 0}, reads())
			}
		}
	}
	if err := w.Close(); err != nil {
		vtrace.Broken(err.Error())
	}
	vtrace.Stat("events", w.N)
	vtrace.Stat("traces", traces)
	vtrace.Stat("writes_into_caller_buffers", inBuf)
	vtrace.Stat("deletes", deletes)
	vtrace.Sample("C08", fmt.Sprintf("recorded %d traces of %d calls on the real TrackableDataTrie (4 keys, values up to 110 bytes, addresses of 2/20/32 bytes, random caller slices in 3 buffers): %d writes from caller buffers, %d deletes",
		traces, n, inBuf, deletes))
}
