package main

// Replay of TLC behaviours of specs/Accounts/Accounts.tla on the real AccountsDB (C06, C07).
// The harness drives the real calls named by each step, projects the real state (every account field, GetCode,
// RetrieveValue of every key, the code leaf of every code, root hash, JournalLen) and compares with the state the
// specification predicted for that step.  No expected value is computed here.

import (
	"bufio"
	"bytes"
	"encoding/json"
	"fmt"
	"math/big"
	"os"
	"sort"
	"strings"

	"github.com/ElrondNetwork/elrond-go/data/state"
	"verif/harness/internal/vtrace"
)

type M = vtrace.M

// concretisation of the specification's identifiers (fixed, injective)
func addrBytes(a string) []byte { return theHasher.Compute("verif-address-" + a) }
func codeBytes(c string) []byte {
	return []byte("\x00asm-verif-contract-code-" + c + strings.Repeat("\x7f", 40))
}
func keyBytes(k string) []byte   { return []byte("storage-key-" + k) }
func valBytes(v string) []byte   { return []byte("storage-value-" + v) }
func ownerBytes(o string) []byte { return cached("verif-owner-" + o) }
func metaBytes(m string) []byte  { return []byte("M" + m) }

var hashCache = map[string][]byte{}

func cached(s string) []byte {
	if b, ok := hashCache[s]; ok {
		return b
	}
	b := theHasher.Compute(s)
	hashCache[s] = b
	return b
}

type universe struct {
	addrs, codes, keys []string
	codeOfHash         map[string]string
	ownerOf            map[string]string
	metaOf             map[string]string
	valOf              map[string]string
}

func sortedKeys(v interface{}) []string {
	m, ok := v.(map[string]interface{})
	if !ok {
		return nil // TLC prints an empty function as []
	}
	r := make([]string, 0, len(m))
	for k := range m {
		r = append(r, k)
	}
	sort.Strings(r)
	return r
}

func asMap(v interface{}) map[string]interface{} {
	m, _ := v.(map[string]interface{})
	return m
}

func newUniverse(first Step) *universe {
	u := &universe{codeOfHash: map[string]string{}, ownerOf: map[string]string{}, metaOf: map[string]string{}, valOf: map[string]string{}}
	acc := asMap(first.St["acc"])
	u.addrs = sortedKeys(first.St["acc"])
	u.codes = sortedKeys(first.St["code"])
	if len(u.addrs) > 0 {
		u.keys = sortedKeys(asMap(acc[u.addrs[0]])["sto"])
	}
	for _, c := range u.codes {
		u.codeOfHash[string(cached(string(codeBytes(c))))] = c
	}
	return u
}

// the spec's value names are learned from the inputs of the behaviour (reverse maps for the projection)
func (u *universe) learn(in M) {
	if o := vtrace.Str(in["owner"]); o != "" && o != "keep" {
		u.ownerOf[string(ownerBytes(o))] = o
	}
	if m := vtrace.Str(in["meta"]); m != "" && m != "keep" {
		u.metaOf[string(metaBytes(m))] = m
	}
	if ws, ok := in["w"].([]interface{}); ok {
		for _, w := range ws {
			v := vtrace.Str(asMap(w)["v"])
			if v != "" {
				u.valOf[string(valBytes(v))] = v
			}
		}
	}
}

func name(m map[string]string, b []byte) string {
	if len(b) == 0 {
		return ""
	}
	if n, ok := m[string(b)]; ok {
		return n
	}
	return "?" + vtrace.Hex(b)
}

// project reads the real state in the shape of the specification's `st` (without `rt`, which is abstract)
func project(e *env, u *universe) (M, error) {
	accs := M{}
	for _, a := range u.addrs {
		ua, ex, err := e.user(addrBytes(a))
		if err != nil {
			return nil, fmt.Errorf("GetExistingAccount(%s): %v", a, err)
		}
		v := M{"ex": ex, "nonce": 0, "bal": 0, "owner": "", "meta": "", "code": "", "codeId": ""}
		sto := M{}
		for _, k := range u.keys {
			sto[k] = ""
		}
		if ex {
			v["nonce"] = int(ua.GetNonce())
			v["bal"] = int(ua.GetBalance().Int64())
			v["owner"] = name(u.ownerOf, ua.GetOwnerAddress())
			v["meta"] = name(u.metaOf, ua.GetCodeMetadata())
			ch := ua.GetCodeHash()
			c := name(u.codeOfHash, ch)
			v["codeId"] = c
			if len(ch) != 0 && !bytes.Equal(e.adb.GetCode(ch), codeBytes(c)) {
				c += "!GetCode-returns-other-bytes"
			}
			v["code"] = c
			for _, k := range u.keys {
				val, err := readValue(ua, keyBytes(k))
				if err != nil {
					sto[k] = "!error:" + err.Error()
				} else {
					sto[k] = name(u.valOf, val)
				}
			}
		}
		v["sto"] = sto
		accs[a] = v
	}
	codes := M{}
	for _, c := range u.codes {
		ex, refs, code, err := e.codeEntry(cached(string(codeBytes(c))))
		if err != nil {
			return nil, fmt.Errorf("code leaf %s: %v", c, err)
		}
		if ex && !bytes.Equal(code, codeBytes(c)) {
			refs = -1000 - refs
		}
		codes[c] = M{"exists": ex, "refs": refs}
	}
	return M{"acc": accs, "code": codes}, nil
}

// diff compares the projected real state with the specification's st; returns the kinds of differences
func diff(u *universe, real M, st M) []string {
	var d []string
	sacc := asMap(st["acc"])
	racc := real["acc"].(M)
	for _, a := range u.addrs {
		s := asMap(sacc[a])
		r := racc[a].(M)
		if r["ex"].(bool) != s["ex"].(bool) {
			d = append(d, "exists")
			continue
		}
		for _, f := range []string{"nonce", "bal"} {
			if r[f].(int) != vtrace.Int(s[f]) {
				d = append(d, "fields")
			}
		}
		for _, f := range []string{"owner", "meta"} {
			if r[f].(string) != vtrace.Str(s[f]) {
				d = append(d, "fields")
			}
		}
		if r["code"].(string) != vtrace.Str(s["code"]) {
			d = append(d, "code")
		}
		ss := asMap(s["sto"])
		rs := r["sto"].(M)
		for _, k := range u.keys {
			if rs[k].(string) != vtrace.Str(ss[k]) {
				d = append(d, "storage")
			}
		}
	}
	scode := asMap(st["code"])
	rcode := real["code"].(M)
	for _, c := range u.codes {
		r := rcode[c].(M)
		want := vtrace.Int(scode[c])
		if r["refs"].(int) != want || r["exists"].(bool) != (want > 0) {
			d = append(d, "code-leaf")
		}
	}
	return uniq(d)
}

func uniq(a []string) []string {
	sort.Strings(a)
	var r []string
	for i, x := range a {
		if i == 0 || a[i-1] != x {
			r = append(r, x)
		}
	}
	return r
}

// c07 evaluates the property predicate literally on the real observations: a code leaf exists iff some existing
// account carries that code hash and NumReferences equals the number of such accounts
func c07(u *universe, real M) []string {
	var bad []string
	racc := real["acc"].(M)
	for _, c := range u.codes {
		n := 0
		for _, a := range u.addrs {
			r := racc[a].(M)
			if r["ex"].(bool) && r["codeId"].(string) == c {
				n++
			}
		}
		r := real["code"].(M)[c].(M)
		ex, refs := r["exists"].(bool), r["refs"].(int)
		switch {
		case refs <= -1000:
			bad = append(bad, "leaf-holds-other-code")
		case n > 0 && !ex:
			bad = append(bad, "leaf-missing-while-referenced")
		case n == 0 && ex:
			bad = append(bad, "leaf-present-without-referrer")
		case ex && refs < n:
			bad = append(bad, "count-too-low")
		case ex && refs > n:
			bad = append(bad, "count-too-high")
		}
	}
	return uniq(bad)
}

func canon(v interface{}) string {
	b, _ := json.Marshal(v)
	return string(b)
}

type accReplayer struct {
	roots     map[string]string // canonical spec state -> real root hash
	nviol     map[string]int
	steps     int
	drifts    int
	distinct  *vtrace.Distinct
	reverts   int
	c07evals  int
	jlDiffers int
	samples   int
}

func (r *accReplayer) violation(prop, sig, what string, b []Step, si int, extra M) {
	r.nviol[sig]++
	if r.nviol[sig] > 1 || len(r.nviol) > 6 {
		return
	}
	det := M{"behaviour": b[:si+1], "step": si}
	for k, v := range extra {
		det[k] = v
	}
	vtrace.Violation(prop, sig, what, det)
}

func (r *accReplayer) drift(what string, b []Step, si int) {
	r.drifts++
	if r.drifts <= 3 {
		vtrace.Drift("", what, M{"behaviour": b[:si+1], "step": si})
	}
}

// applyStep performs the real calls of one step; returns the error of the call under test
func applyStep(e *env, u *universe, st Step, snapReal map[int]int) error {
	return safely(func() error { return applyStepUnsafe(e, u, st, snapReal) })
}

func applyStepUnsafe(e *env, u *universe, st Step, snapReal map[int]int) error {
	switch st.A {
	case "Load": // LoadAccount; the real account object is kept under (address, handle)
		a := vtrace.Str(st.In["a"])
		h, err := e.adb.LoadAccount(addrBytes(a))
		if err != nil {
			return fmt.Errorf("LoadAccount: %w", err)
		}
		if e.kept == nil {
			e.kept = map[string]state.UserAccountHandler{}
		}
		e.kept[fmt.Sprint(a, "/", vtrace.Int(st.In["h"]))] = h.(state.UserAccountHandler)
		return nil
	case "Save", "SaveH":
		var acc state.UserAccountHandler
		if st.A == "SaveH" { // exactly the object loaded earlier, however stale it is by now
			acc = e.kept[fmt.Sprint(vtrace.Str(st.In["a"]), "/", vtrace.Int(st.In["h"]))]
			if acc == nil {
				return fmt.Errorf("harness: no kept object for %v/%v", st.In["a"], st.In["h"])
			}
		} else {
			h, err := e.adb.LoadAccount(addrBytes(vtrace.Str(st.In["a"])))
			if err != nil {
				return fmt.Errorf("LoadAccount: %w", err)
			}
			acc = h.(state.UserAccountHandler)
		}
		var err error
		if dn := vtrace.Int(st.In["dn"]); dn != 0 {
			acc.IncreaseNonce(uint64(dn))
		}
		if b := vtrace.Int(st.In["bal"]); b >= 0 {
			delta := big.NewInt(0).Sub(big.NewInt(int64(b)), acc.GetBalance())
			if err = acc.AddToBalance(delta); err != nil {
				return err
			}
		}
		if o := vtrace.Str(st.In["owner"]); o != "keep" {
			if o == "" {
				acc.SetOwnerAddress(nil)
			} else {
				acc.SetOwnerAddress(ownerBytes(o))
			}
		}
		if m := vtrace.Str(st.In["meta"]); m != "keep" {
			if m == "" {
				acc.SetCodeMetadata(nil)
			} else {
				acc.SetCodeMetadata(metaBytes(m))
			}
		}
		if c := vtrace.Str(st.In["code"]); c != "keep" {
			if c == "" {
				acc.SetCode(nil)
			} else {
				acc.SetCode(codeBytes(c))
			}
		}
		if ws, ok := st.In["w"].([]interface{}); ok {
			for _, w := range ws {
				k, v := vtrace.Str(asMap(w)["k"]), vtrace.Str(asMap(w)["v"])
				var vb []byte
				if v != "" {
					vb = valBytes(v)
				}
				if err = acc.DataTrieTracker().SaveKeyValue(keyBytes(k), vb); err != nil {
					return err
				}
			}
		}
		return e.adb.SaveAccount(acc)
	case "Remove":
		return e.adb.RemoveAccount(addrBytes(vtrace.Str(st.In["a"])))
	case "Revert":
		n := vtrace.Int(st.In["n"])
		rn, ok := snapReal[n]
		if vtrace.Int(st.Out["jl"]) != n { // the specification's out-of-bounds request
			rn = e.adb.JournalLen() + 1
		} else if !ok {
			return fmt.Errorf("harness: no real journal length known for snapshot %d", n)
		}
		return e.adb.RevertToSnapshot(rn)
	case "Commit":
		_, err := e.adb.Commit()
		return err
	}
	panic("unknown action " + st.A)
}

// kinds of the calls that a Revert at step si undoes (the calls after the snapshot was taken)
func undone(b []Step, si int) string {
	n := vtrace.Int(b[si].In["n"])
	from := 0
	for j := si - 1; j >= 0; j-- {
		if vtrace.Int(b[j].Out["jl"]) == n {
			from = j
			break
		}
	}
	set := map[string]bool{}
	for j := from + 1; j < si; j++ {
		set[b[j].A] = true
	}
	var ks []string
	for k := range set {
		ks = append(ks, k)
	}
	sort.Strings(ks)
	if len(ks) == 0 {
		ks = []string{"nothing"}
	}
	if n == 0 {
		return "to-zero-over-" + strings.Join(ks, "+")
	}
	return "over-" + strings.Join(ks, "+")
}

// run one behaviour (false: stopped at a violation or drift). observeAll: project and compare after every step; else
// ("observe-late") only JournalLen in between and a full comparison at the last step - for sampled walks also after
// every successful Revert - so that the harness' own reads, which load data tries into the holder, cannot hide a defect.
func (r *accReplayer) run(b []Step, bi int, observeAll bool, pruning bool) (clean bool) {
	u := newUniverse(b[0])
	var addrs [][]byte
	for _, a := range u.addrs {
		addrs = append(addrs, addrBytes(a))
	}
	e := newEnv(addrs, pruning)
	defer e.close()
	snapReal := map[int]int{0: 0}
	mode := "observe-all"
	if !observeAll {
		mode = "observe-late"
	}
	lastIdx := len(b) - 1
	walk := b[lastIdx].A == "End" // a sampled walk: the second pass also observes at every successful Revert
	for lastIdx > 0 && b[lastIdx].A == "End" {
		lastIdx--
	}
	// behaviours that start from a committed state: the accounts of `setup` get every key = val, then Commit.
	// Commit resets the data tries holder; in the second pass nothing is read afterwards, so the calls of the
	// behaviour meet accounts whose data trie has not been loaded since the commit.
	if set, ok := b[0].In["setup"].([]interface{}); ok && len(set) > 0 {
		val := vtrace.Str(b[0].In["val"])
		var ws []interface{}
		for _, k := range u.keys {
			ws = append(ws, map[string]interface{}{"k": k, "v": val})
		}
		for _, a := range set {
			in := M{"a": vtrace.Str(a), "dn": 0, "bal": -1, "owner": "keep", "meta": "keep", "code": "keep", "w": ws}
			u.learn(in)
			if err := applyStep(e, u, Step{A: "Save", In: in}, snapReal); err != nil {
				vtrace.Broken("setup: " + err.Error())
				return false
			}
		}
		if err := applyStep(e, u, Step{A: "Commit"}, snapReal); err != nil {
			vtrace.Broken("setup: " + err.Error())
			return false
		}
		if observeAll {
			real, perr := project(e, u)
			if perr != nil || len(diff(u, real, b[0].St)) > 0 {
				r.drift(fmt.Sprintf("the committed start state differs from the specification's: %v %s (behaviour %d)", perr, canon(real), bi), b, 0)
				return false
			}
		}
	}
	for si := 1; si <= lastIdx; si++ {
		st := b[si]
		if st.A == "End" {
			continue
		}
		u.learn(st.In)
		err := applyStep(e, u, st, snapReal)
		r.steps++
		wantErr, _ := st.Out["err"].(bool)
		tag := st.A
		if wantErr {
			tag += "-rejected"
		}
		if (err != nil) != wantErr {
			if st.A == "Revert" && err != nil {
				r.violation("C06", "C06/revert/"+undone(b, si)+"/returns-error",
					fmt.Sprintf("RevertToSnapshot to a recorded journal length fails: %v (behaviour %d step %d, %s)", err, bi, si, mode), b, si, nil)
			} else {
				r.drift(fmt.Sprintf("%s: real error %v, specification error=%v (behaviour %d step %d)", st.A, err, wantErr, bi, si), b, si)
			}
			return false
		}
		jl := e.adb.JournalLen()
		snapReal[vtrace.Int(st.Out["jl"])] = jl
		if st.A == "Revert" && !wantErr {
			r.reverts++
		}
		if !observeAll && si != lastIdx && !(walk && st.A == "Revert" && !wantErr) {
			continue
		}
		real, perr := project(e, u)
		if perr != nil {
			if st.A == "Revert" {
				r.violation("C06", "C06/revert/"+undone(b, si)+"/state-unreadable",
					fmt.Sprintf("after RevertToSnapshot the state cannot be read: %v (behaviour %d step %d, %s)", perr, bi, si, mode), b, si, nil)
			} else {
				r.drift(fmt.Sprintf("after %s the state cannot be read: %v (behaviour %d step %d)", st.A, perr, bi, si), b, si)
			}
			return false
		}
		// C07: the property predicate on the real observations, after every call
		r.c07evals++
		if bad := c07(u, real); len(bad) > 0 {
			sig := "C07/after-" + tag + "/" + strings.Join(bad, "+")
			if lost, _ := st.In["lost"].(bool); st.A == "SaveH" && lost {
				// the saved object never called SetCode and is stale in its code hash: whole-record overwrite
				sig = "C07/stale-object-saved-without-SetCode-overwrites-code-hash"
			}
			r.violation("C07", sig,
				fmt.Sprintf("code leaves do not match the referring accounts after %s: %v; real state %s (behaviour %d step %d, %s)",
					tag, bad, canon(real), bi, si, mode), b, si, M{"real": real})
			return false
		}
		want := st.St // what the property demands: the specification's state, unless the record carries `exp`
		if x, ok := st.Exp["st"].(map[string]interface{}); ok {
			want = x
		}
		d := diff(u, real, want)
		root, rerr := e.adb.RootHash()
		if rerr != nil {
			r.drift(fmt.Sprintf("RootHash: %v", rerr), b, si)
			return false
		}
		if len(d) == 0 {
			key := canon(want)
			if old, ok := r.roots[key]; ok && old != string(root) {
				d = append(d, "root-hash")
			} else {
				r.roots[key] = string(root)
			}
		}
		if len(d) > 0 {
			if st.A == "Revert" && !wantErr {
				r.violation("C06", "C06/revert/"+undone(b, si)+"/"+strings.Join(d, "+")+"-not-restored",
					fmt.Sprintf("after RevertToSnapshot(%d) the state differs (%v) from the state when JournalLen returned that length: real %s root %x, expected %s (behaviour %d step %d, %s)",
						snapReal[vtrace.Int(st.In["n"])], d, canon(real), root, canon(want), bi, si, mode), b, si, M{"real": real})
			} else {
				r.drift(fmt.Sprintf("after %s the real state differs (%v) from the specification: real %s, specification %s (behaviour %d step %d, %s)",
					tag, d, canon(real), canon(want), bi, si, mode), b, si)
			}
			return false
		}
		if _, dev := st.Exp["st"]; dev {
			// behaviour generated with KnownDefects: the property held although the deviating model predicted otherwise
			if dd := diff(u, real, st.St); len(dd) > 0 {
				r.drift(fmt.Sprintf("after %s the real state satisfies the property; the deviation modelled under KnownDefects does not occur (behaviour %d step %d, %s)",
					tag, bi, si, mode), b, si)
				return false
			}
		}
		if jl != vtrace.Int(st.Out["jl"]) {
			r.jlDiffers++ // informational: the journal length is not part of C06/C07, snapshots are mapped by position
		}
	}
	return true
}

func replayAccounts(path string) {
	f, err := os.Open(path)
	if err != nil {
		vtrace.Broken(err.Error())
		return
	}
	defer f.Close()
	rd := bufio.NewReaderSize(f, 1<<20)
	r := &accReplayer{roots: map[string]string{}, nviol: map[string]int{}, distinct: vtrace.NewDistinct()}
	runs, bi := 0, -1
	prune := os.Getenv("VH_PRUNING") != "off"
	for {
		line, rerr := rd.ReadBytes('\n')
		if len(line) > 1 {
			var b []Step
			if e := json.Unmarshal(line, &b); e != nil {
				vtrace.Broken(fmt.Sprintf("behaviour line %d: %v", bi+2, e))
				return
			}
			bi++
			if len(b) >= 2 {
				pruning := prune && bi%4 == 3
				runs++
				if r.run(b, bi, true, pruning) { // the second pass shows whether the harness' own reads hid something
					r.run(b, bi, false, pruning)
					runs++
				}
				last := b[len(b)-1]
				if nontrivialAccounts(b, os.Getenv("VERIF_PROP")) {
					var calls []interface{}
					for _, s := range b {
						calls = append(calls, s.A, s.In)
					}
					r.distinct.Add(canon(calls))
				}
				if bi < 2 || (r.samples < 4 && last.A == "Revert" && len(b) > 5) {
					r.samples++
					vtrace.Sample(os.Getenv("VERIF_PROP"), b)
				}
			}
		}
		if rerr != nil {
			break
		}
	}
	total := 0
	for _, n := range r.nviol {
		total += n
	}
	vtrace.Stat("behaviours", bi+1)
	vtrace.Stat("runs", runs)
	vtrace.Stat("steps", r.steps)
	vtrace.Stat("reverts", r.reverts)
	vtrace.Stat("c07_evaluations", r.c07evals)
	vtrace.Stat("distinct_nontrivial", r.distinct.Len())
	vtrace.Stat("violations", total)
	vtrace.Stat("drifted", r.drifts)
	vtrace.Stat("journal_len_differs", r.jlDiffers)
}

// a call history is non-trivial for C06 if some Revert undoes at least one call, for C07 if code is set/changed/
// cleared or an account is removed
func nontrivialAccounts(b []Step, prop string) bool {
	for i, s := range b {
		if prop == "C07" {
			if s.A == "Remove" || ((s.A == "Save" || s.A == "SaveH") && vtrace.Str(s.In["code"]) != "keep") {
				return true
			}
			continue
		}
		if s.A == "Revert" && i > 0 {
			if e, _ := s.Out["err"].(bool); !e && vtrace.Int(s.Out["jl"]) < vtrace.Int(b[i-1].Out["jl"]) {
				return true
			}
		}
	}
	return false
}
