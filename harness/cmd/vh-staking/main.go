// vh-staking binds specs/Staking to the REAL staking system smart contract (vm/systemSmartContracts/staking.go)
// running on a real vmContext (harness/families/sysvm).
//
//	vh-staking replay <behaviours.ndjson> <mismatch-trace-out>
//	    TLC behaviours (operation sequences with the specification's predicted result and projected state) are
//	    executed on the real contract; after every call the waiting list is walked from storage (head record +
//	    element records), every key's StakedDataV2_0 and the StakingNodesConfig are read and compared with the
//	    prediction.  Behaviours whose real run differs are written (as observed) to the mismatch trace so that TLC
//	    evaluates the property on the states the real code produced.
//	vh-staking record <seed> <traces> <len> <nkeys> <out>
//	    seeded random operation sequences on the real contract -> ndjson trace for Trace_Staking.
//	vh-staking demo
//	    prints the shortest history that exhibits the known defect and what follows from it.
//
// No model logic here: apply() drives, proj() projects, replay() compares.
package main

import (
	"bytes"
	"encoding/json"
	"fmt"
	"math/big"
	"math/rand"
	"os"
	"reflect"
	"sort"
	"strconv"

	"github.com/ElrondNetwork/elrond-go/config"
	"github.com/ElrondNetwork/elrond-go/marshal"
	"github.com/ElrondNetwork/elrond-go/vm"
	"github.com/ElrondNetwork/elrond-go/vm/mock"
	"github.com/ElrondNetwork/elrond-go/vm/systemSmartContracts"
	vmcommon "github.com/ElrondNetwork/elrond-vm-common"
	"verif/harness/families/sysvm"
	"verif/harness/internal/vtrace"
)

type M = vtrace.M

const (
	prop      = "C39"
	period    = 5
	nodePrice = 1000
	knownSig  = "C39/insertAfterLastJailed/empty-lastJailed/old-first-prev-stale"
)

var marsh = &marshal.GogoProtoMarshalizer{}

func pad(s string, n int) []byte {
	b := bytes.Repeat([]byte{'.'}, n)
	copy(b, s)
	return b
}

func bls(k string) []byte       { return pad("bls-"+k, 96) }
func ownerAddr(o string) []byte { return pad("owner-"+o, 32) }
func rewardAddr(o string) []byte {
	return pad("reward-"+o, 32)
}

type epochHandler interface {
	EpochConfirmed(epoch uint32, timestamp uint64)
}

// sut = one real staking contract on its own world
type sut struct {
	w     *sysvm.World
	keys  []string
	own   map[string]string
	names map[string]string // bls bytes / waiting key -> key name
	ubp   uint64
}

func flagEpoch(on bool) uint32 {
	if on {
		return 0
	}
	return 1000
}

func newSut(conf M) *sut {
	w, err := sysvm.NewWorld()
	if err != nil {
		panic(err)
	}
	s := &sut{w: w, own: map[string]string{}, names: map[string]string{}}
	for k, o := range conf["own"].(map[string]interface{}) {
		s.keys = append(s.keys, k)
		s.own[k] = o.(string)
		s.names[string(bls(k))] = k
		s.names["w_"+string(bls(k))] = k
	}
	sort.Strings(s.keys)
	if conf["ubp"].(bool) {
		s.ubp = period
	}
	w.Nonce, w.Round, w.Epoch = 10, 10, 1
	args := systemSmartContracts.ArgsNewStakingSmartContract{
		Eei:                  w.Eei,
		StakingAccessAddr:    vm.ValidatorSCAddress,
		JailAccessAddr:       vm.JailingAddress,
		EndOfEpochAccessAddr: vm.EndOfEpochAddress,
		MinNumNodes:          uint64(vtrace.Int(conf["cmin"])),
		Marshalizer:          marsh,
		StakingSCConfig: config.StakingSystemSCConfig{
			GenesisNodePrice:         strconv.Itoa(nodePrice),
			MinStakeValue:            strconv.Itoa(nodePrice),
			UnJailValue:              "1",
			MinStepValue:             "1",
			UnBondPeriod:             s.ubp,
			MaxNumberOfNodesForStake: uint64(vtrace.Int(conf["cmax"])),
			MinUnstakeTokensValue:    "1",
		},
		EpochNotifier: &mock.EpochNotifierStub{},
		EpochConfig: config.EpochConfig{EnableEpochs: config.EnableEpochs{
			StakeEnableEpoch:                 flagEpoch(conf["enable"].(bool)),
			StakingV2EnableEpoch:             flagEpoch(conf["v2"].(bool)),
			CorrectLastUnjailedEnableEpoch:   flagEpoch(conf["clu"].(bool)),
			ValidatorToDelegationEnableEpoch: 1000,
		}},
	}
	sc, err := systemSmartContracts.NewStakingSmartContract(args)
	if err != nil {
		panic(err)
	}
	var eh epochHandler = sc
	eh.EpochConfirmed(1, 0)
	if err = w.Container.Add(vm.StakingSCAddress, sc); err != nil {
		panic(err)
	}
	if rc := w.Init(vm.StakingSCAddress, ownerAddr("genesis"), nil); rc != vmcommon.Ok {
		panic("staking init failed")
	}
	// the real validator SC (used by the validator-driven histories; the direct histories never call it)
	validator, err := systemSmartContracts.NewValidatorSmartContract(systemSmartContracts.ArgsValidatorSmartContract{
		StakingSCConfig: args.StakingSCConfig, GenesisTotalSupply: big.NewInt(1000000000), Eei: w.Eei,
		SigVerifier: &mock.MessageSignVerifierMock{}, StakingSCAddress: vm.StakingSCAddress,
		ValidatorSCAddress: vm.ValidatorSCAddress, Marshalizer: marsh, EpochNotifier: &mock.EpochNotifierStub{},
		EndOfEpochAddress: vm.EndOfEpochAddress, MinDeposit: "0", DelegationMgrSCAddress: vm.DelegationManagerSCAddress,
		GovernanceSCAddress: vm.GovernanceSCAddress, DelegationMgrEnableEpoch: 1000, EpochConfig: args.EpochConfig,
		ShardCoordinator: &mock.ShardCoordinatorStub{},
	})
	if err != nil {
		panic(err)
	}
	var vh epochHandler = validator
	vh.EpochConfirmed(1, 0)
	if err = w.Container.Add(vm.ValidatorSCAddress, validator); err != nil {
		panic(err)
	}
	return s
}

func nbytes(n int) []byte { return big.NewInt(int64(n)).Bytes() }

func pick(auth bool, right, wrong []byte) []byte {
	if auth {
		return right
	}
	return wrong
}

// apply executes one specification action on the real contract; returns "call returned Ok"
func (s *sut) apply(a string, in M) bool {
	w := s.w
	st := vm.StakingSCAddress
	k, _ := in["k"].(string)
	auth, _ := in["auth"].(bool)
	call := func(caller []byte, fn string, args ...[]byte) bool {
		return w.Call(st, caller, fn, args, nil).Code == vmcommon.Ok
	}
	val, eoe, jail := vm.ValidatorSCAddress, vm.EndOfEpochAddress, vm.JailingAddress
	switch a {
	case "Stake":
		fn := "stake"
		if in["reg"].(bool) {
			fn = "register"
		}
		return call(pick(auth, val, eoe), fn, bls(k), rewardAddr(s.own[k]), ownerAddr(s.own[k]))
	case "UnStake":
		ra := rewardAddr(s.own[k])
		if !in["rok"].(bool) {
			ra = rewardAddr("somebody-else")
		}
		return call(pick(auth, val, eoe), "unStake", bls(k), ra)
	case "UnBond":
		return call(pick(auth, val, eoe), "unBond", bls(k))
	case "Jail":
		return call(pick(auth, jail, val), "jail", bls(k))
	case "UnJail":
		return call(pick(auth, val, jail), "unJail", bls(k))
	case "Switch":
		return call(pick(auth, eoe, val), "switchJailedWithWaiting", bls(k))
	case "UnStakeEoE":
		return call(pick(auth, eoe, val), "unStakeAtEndOfEpoch", bls(k))
	case "StakeFromQueue":
		return call(pick(auth, eoe, val), "stakeNodesFromQueue", nbytes(vtrace.Int(in["n"])))
	case "CleanQueue":
		return call(pick(auth, eoe, val), "cleanAdditionalQueue")
	case "ResetLastUnJailed":
		return call(pick(auth, eoe, val), "resetLastUnJailedFromQueue")
	case "UpdateMax":
		return call(pick(auth, eoe, val), "updateConfigMaxNodes", nbytes(vtrace.Int(in["n"])))
	case "UpdateMin":
		return call(pick(auth, eoe, val), "updateConfigMinNodes", nbytes(vtrace.Int(in["n"])))
	case "VStake", "VUnStake", "VUnStakeNodes", "VUnBond", "VUnBondNodes", "VReStake", "VUnJail":
		// a wallet calls the real validator SC, which calls the staking SC through eei.ExecuteOnDestContext
		o := in["o"].(string)
		var keys [][]byte
		for _, kk := range vtrace.Strs(norm(in["ks"])) {
			keys = append(keys, bls(kk))
		}
		value := big.NewInt(int64(vtrace.Int(in["v"])))
		var cargs [][]byte
		fn := map[string]string{"VStake": "stake", "VUnStake": "unStake", "VUnStakeNodes": "unStakeNodes", "VUnBond": "unBond",
			"VUnBondNodes": "unBondNodes", "VReStake": "reStakeUnStakedNodes", "VUnJail": "unJail"}[a]
		if a == "VStake" {
			cargs = append(cargs, nbytes(len(keys)))
			for _, kb := range keys {
				cargs = append(cargs, kb, []byte("signed"))
			}
		} else {
			cargs = keys
		}
		return w.Call(vm.ValidatorSCAddress, ownerAddr(o), fn, cargs, value).Code == vmcommon.Ok
	case "Elapse":
		w.Nonce += period
		w.Round += period
		return true
	case "SetPeer":
		switch in["s"].(string) {
		case "none":
			delete(w.Peers, string(bls(k)))
		case "eligible":
			w.Peers[string(bls(k))] = &sysvm.PeerInfo{List: "eligible", TempRating: 50}
		case "jailed":
			w.Peers[string(bls(k))] = &sysvm.PeerInfo{List: "jailed", TempRating: 50}
		case "bad":
			w.Peers[string(bls(k))] = &sysvm.PeerInfo{List: "eligible", TempRating: 1}
		default:
			panic("peer status")
		}
		return true
	case "SetFunds":
		o := in["o"].(string)
		q := vtrace.Int(in["q"])
		if q < 0 {
			w.Set(vm.ValidatorSCAddress, ownerAddr(o), nil)
			return true
		}
		vd := &systemSmartContracts.ValidatorDataV2{
			RewardAddress:   rewardAddr(o),
			TotalStakeValue: big.NewInt(int64(q * nodePrice)),
			LockedStake:     big.NewInt(0),
			MaxStakePerNode: big.NewInt(0),
			TotalUnstaked:   big.NewInt(0),
			TotalSlashed:    big.NewInt(0),
		}
		for _, kk := range s.keys {
			if s.own[kk] == o {
				vd.BlsPubKeys = append(vd.BlsPubKeys, bls(kk))
			}
		}
		buf, err := marsh.Marshal(vd)
		if err != nil {
			panic(err)
		}
		w.Set(vm.ValidatorSCAddress, ownerAddr(o), buf)
		return true
	}
	panic("unknown action " + a)
}

func (s *sut) name(b []byte) string {
	if len(b) == 0 {
		return ""
	}
	if n, ok := s.names[string(b)]; ok {
		return n
	}
	return "?" + vtrace.Hex(b)
}

// proj reads the contract's committed storage and projects it onto the specification's state
func (s *sut) proj() M {
	w := s.w
	st := vm.StakingSCAddress
	reg, el := M{}, M{}
	for _, k := range s.keys {
		d := &systemSmartContracts.StakedDataV2_0{}
		if buf := w.Get(st, bls(k)); len(buf) > 0 {
			if err := marsh.Unmarshal(d, buf); err != nil {
				panic(err)
			}
		}
		un := 0
		if d.UnStakedNonce > 0 && w.Nonce-d.UnStakedNonce < s.ubp {
			un = 1
		}
		reg[k] = M{"r": len(d.RewardAddress) > 0, "s": d.Staked, "w": d.Waiting, "j": d.Jailed, "nj": int(d.NumJailed), "un": un}
		e := &systemSmartContracts.ElementInList{}
		in := false
		if buf := w.Get(st, append([]byte("w_"), bls(k)...)); len(buf) > 0 {
			if err := marsh.Unmarshal(e, buf); err != nil {
				panic(err)
			}
			in = true
		}
		el[k] = M{"in": in, "p": s.name(e.PreviousKey), "n": s.name(e.NextKey)}
	}
	h := &systemSmartContracts.WaitingList{}
	if buf := w.Get(st, []byte("waitingList")); len(buf) > 0 {
		if err := marsh.Unmarshal(h, buf); err != nil {
			panic(err)
		}
	}
	c := &systemSmartContracts.StakingNodesConfig{}
	if buf := w.Get(st, []byte("nodesConfig")); len(buf) > 0 {
		if err := marsh.Unmarshal(c, buf); err != nil {
			panic(err)
		}
	}
	return M{
		"reg":  reg,
		"el":   el,
		"head": M{"first": s.name(h.FirstKey), "last": s.name(h.LastKey), "len": int(h.Length), "lj": s.name(h.LastJailedKey)},
		"cfg":  M{"staked": int(c.StakedNodes), "jailed": int(c.JailedNodes), "min": int(c.MinNumNodes), "max": int(c.MaxNumNodes)},
	}
}

func norm(v interface{}) interface{} {
	b, err := json.Marshal(v)
	if err != nil {
		panic(err)
	}
	var x interface{}
	if err = json.Unmarshal(b, &x); err != nil {
		panic(err)
	}
	return x
}

func same(a, b interface{}) bool { return reflect.DeepEqual(norm(a), norm(b)) }

func replay(path, mismatchOut string) {
	bs, err := vtrace.ReadBehaviours(path)
	if err != nil {
		vtrace.Broken(err.Error())
		return
	}
	mw, err := vtrace.NewWriter(mismatchOut)
	if err != nil {
		vtrace.Broken(err.Error())
		return
	}
	distinct := vtrace.NewDistinct()
	steps, mism, kdSeen, kdNot := 0, 0, 0, 0
	acts := map[string]int{}
	okActs := map[string]int{}
	for bi, b := range bs {
		var s *sut
		type obs struct {
			a   string
			in  M
			out M
			st  M
		}
		var seen []obs
		differs := -1
		for si, stp := range b {
			if stp.A == "New" {
				s = newSut(stp.In)
				seen = append(seen, obs{"New", stp.In, M{"ok": true}, s.proj()})
				if len(stp.St) > 0 && !same(stp.St, seen[0].st) {
					differs = si
				}
				continue
			}
			ok := s.apply(stp.A, stp.In)
			st := s.proj()
			steps++
			if ok {
				okActs[stp.A]++
			}
			seen = append(seen, obs{stp.A, stp.In, M{"ok": ok}, st})
			// slim behaviours carry the predicted state only in their last record
			eq := ok == stp.Out["ok"].(bool) && (len(stp.St) == 0 || same(stp.St, st))
			if !eq && differs < 0 {
				differs = si
			}
			if kd, _ := stp.Out["kd"].(bool); kd && differs < 0 {
				// the specification took its named deviation here and the real contract produced exactly that state
				kdSeen++
				if kdSeen == 1 {
					vtrace.Violation(prop, knownSig,
						fmt.Sprintf("behaviour %d step %d: %s(%v) with a non-empty waiting list and an empty LastJailedKey put key %v in front; "+
							"the old first element's PreviousKey still points to itself, so prev is not the inverse of next (real state: head=%v el=%v)",
							bi, si, stp.A, stp.In, stp.In["k"], st["head"], st["el"]),
						M{"behaviour": b, "step": si})
				}
			} else if kd {
				kdNot++
			}
		}
		if len(b) > 1 {
			last := b[len(b)-1]
			acts[last.A]++
			ops := make([]interface{}, 0, 2*len(b))
			for _, x := range b {
				ops = append(ops, x.A, norm(x.In))
			}
			distinct.Add(fmt.Sprint(ops))
		}
		if differs >= 0 {
			mism++
			if mism <= 200 {
				for i, o := range seen {
					if i == 0 {
						mw.NewTraceWith(o.a, o.in, o.out, o.st)
					} else {
						mw.Emit(o.a, o.in, o.out, o.st)
					}
				}
			}
			if mism <= 3 {
				stp := b[differs]
				vtrace.Drift(prop, fmt.Sprintf("behaviour %d step %d %s(%v): real result/state %v %v differs from the specification's %v %v",
					bi, differs, stp.A, stp.In, seen[differs].out, seen[differs].st, stp.Out, stp.St), nil)
			}
		}
		if bi < 2 || (bi%977 == 0 && bi < 4000) {
			vtrace.Sample(prop, b)
		}
	}
	if err := mw.Close(); err != nil {
		vtrace.Broken(err.Error())
	}
	vtrace.Stat("behaviours", len(bs))
	vtrace.Stat("steps", steps)
	vtrace.Stat("distinct_transitions", distinct.Len())
	vtrace.Stat("mismatching", mism)
	vtrace.Stat("mismatch_events", mw.N)
	vtrace.Stat("known_deviation_reproduced", kdSeen)
	vtrace.Stat("known_deviation_not_reproduced", kdNot)
	vtrace.Stat("last_actions", acts)
	vtrace.Stat("ok_actions", okActs)
}

var allKeys = []string{"a", "b", "c", "d", "e", "f", "g", "h"}

func ownOf(k string) string {
	if (k[0]-'a')%2 == 0 {
		return "o1"
	}
	return "o2"
}

// where did a successful unJail put its key?  (read off the observed projections before/after; coverage statistic only)
func insertPlace(before, after M, k string) string {
	if before["el"].(M)[k].(M)["in"].(bool) || !after["el"].(M)[k].(M)["in"].(bool) {
		return ""
	}
	e := after["el"].(M)[k].(M)
	switch {
	case vtrace.Int(after["head"].(M)["len"]) == 1:
		return "unjail-into-empty-queue"
	case e["p"] == k:
		return "unjail-front"
	case e["n"] == "":
		return "unjail-end"
	}
	return "unjail-middle"
}

// directed: histories that reach every branch of insertAfterLastJailed and removeFromWaitingList without passing
// through the known defect first: six keys, one staking slot; j1 is un-jailed into the empty queue (LastJailedKey = j1),
// w1 queues behind it, j2 is un-jailed -> MIDDLE insertion, w2 queues, j3 un-jailed -> middle insertion again:
// [j1 j2 j3 w1 w2].  Then the first / a middle / the last / the last-jailed element leaves (in four different orders),
// each time followed by jail + unJail of the key that left (inserted after the last jailed one again), and finally
// the end-of-epoch calls.  Repeated for every flag setting.  Deterministic (independent of the seed).
func directed(w *vtrace.Writer, places map[string]int) {
	own := M{}
	for _, k := range allKeys[:6] {
		own[k] = ownOf(k)
	}
	T, F := true, false
	flagSets := [][3]bool{{T, T, T}, {T, T, F}, {T, F, T}, {T, F, F}, {F, F, F}}
	a, j1, j2, j3, w1, w2 := "a", "b", "c", "d", "e", "f"
	orders := [][]string{{j1, w1, w2, j3}, {w1, j3, j1, w2}, {w2, j1, j3, w1}, {j3, w2, w1, j1}}
	for _, fl := range flagSets {
		for oi, order := range orders {
			conf := norm(M{"enable": fl[0], "v2": fl[1], "clu": fl[2], "cmin": 1, "cmax": 1, "ubp": oi%2 == 1, "own": own}).(map[string]interface{})
			s := newSut(conf)
			w.NewTraceWith("New", conf, M{"ok": true}, s.proj())
			do := func(act string, in M) {
				before := s.proj()
				ok := s.apply(act, in)
				after := s.proj()
				if act == "UnJail" && ok {
					if pl := insertPlace(before, after, in["k"].(string)); pl != "" {
						places[pl]++
					}
				}
				w.Emit(act, in, M{"ok": ok}, after)
			}
			stake := func(k string) { do("Stake", M{"k": k, "auth": T, "reg": F}) }
			viaJail := func(k string) {
				do("Stake", M{"k": k, "auth": T, "reg": T})
				do("Jail", M{"k": k, "auth": T})
				do("UnJail", M{"k": k, "auth": T})
			}
			stake(a)
			viaJail(j1)
			stake(w1)
			viaJail(j2)
			stake(w2)
			viaJail(j3)
			for _, k := range order {
				do("UnStake", M{"k": k, "auth": T, "rok": T})
				do("Jail", M{"k": k, "auth": T})
				do("UnJail", M{"k": k, "auth": T})
			}
			do("Switch", M{"k": a, "auth": T})
			do("StakeFromQueue", M{"n": 1, "auth": T})
			do("UpdateMax", M{"n": 2, "auth": T})
			do("StakeFromQueue", M{"n": 1, "auth": T})
			do("UnStakeEoE", M{"k": order[0], "auth": T})
			do("ResetLastUnJailed", M{"auth": T})
			do("CleanQueue", M{"auth": T})
		}
	}
}

func record(seed int64, traces, n, nkeys int, out string) {
	w, err := vtrace.NewWriter(out)
	if err != nil {
		vtrace.Broken(err.Error())
		return
	}
	rng := rand.New(rand.NewSource(seed))
	keys := allKeys[:nkeys]
	peers := []string{"none", "none", "eligible", "jailed", "bad"}
	acts := map[string]int{}
	okCalls := 0
	places := map[string]int{}
	if nkeys >= 6 {
		directed(w, places)
	}
	for t := 0; t < traces; t++ {
		own := M{}
		for _, k := range keys {
			own[k] = ownOf(k)
		}
		cmin := 1 + rng.Intn(2)
		cmax := cmin + rng.Intn(3)
		// flags: mostly the historical orders of activation, sometimes any combination
		enable, v2, clu := true, true, true
		switch r := rng.Intn(10); {
		case r == 0:
			enable, v2, clu = false, false, false
		case r == 1:
			v2, clu = false, false
		case r <= 3:
			clu = false
		case r == 4:
			enable, v2, clu = rng.Intn(2) == 0, rng.Intn(2) == 0, rng.Intn(2) == 0
		}
		conf := M{"enable": enable, "v2": v2, "clu": clu, "cmin": cmin, "cmax": cmax, "ubp": rng.Intn(3) != 0, "own": own}
		conf = norm(conf).(map[string]interface{})
		s := newSut(conf)
		w.NewTraceWith("New", conf, M{"ok": true}, s.proj())
		used := 2 + rng.Intn(nkeys-1) // keys taking part in this trace
		envRate := rng.Intn(12)       // how often the environment (peer status / funds) moves
		for i := 0; i < n; i++ {
			k := keys[rng.Intn(used)]
			auth := rng.Intn(25) != 0
			var a string
			in := M{"k": k, "auth": auth}
			switch r := rng.Intn(100); {
			case r < 26:
				a = "Stake"
				in["reg"] = rng.Intn(8) == 0
			case r < 38:
				a = "UnStake"
				in["rok"] = rng.Intn(15) != 0
			case r < 44:
				a = "UnBond"
			case r < 52:
				a = "Jail"
			case r < 62:
				a = "UnJail"
			case r < 72:
				a = "Switch"
			case r < 78:
				a = "UnStakeEoE"
			case r < 82:
				a = "StakeFromQueue"
				in = M{"n": rng.Intn(4), "auth": auth}
			case r < 84:
				a = "CleanQueue"
				in = M{"auth": auth}
			case r < 86:
				a = "ResetLastUnJailed"
				in = M{"auth": auth}
			case r < 89:
				a = "UpdateMax"
				in = M{"n": rng.Intn(6), "auth": auth}
			case r < 91:
				a = "UpdateMin"
				in = M{"n": rng.Intn(5), "auth": auth}
			case r < 95:
				a = "Elapse"
				in = M{"x": 0}
			default:
				if rng.Intn(12) >= envRate {
					a = "Elapse"
					in = M{"x": 0}
				} else if rng.Intn(2) == 0 {
					a = "SetPeer"
					in = M{"k": k, "s": peers[rng.Intn(len(peers))]}
				} else {
					a = "SetFunds"
					in = M{"o": []string{"o1", "o2"}[rng.Intn(2)], "q": rng.Intn(nkeys/2+2) - 1}
				}
			}
			before := s.proj()
			ok := s.apply(a, in)
			if ok {
				okCalls++
			}
			acts[a]++
			after := s.proj()
			if a == "UnJail" && ok {
				if pl := insertPlace(before, after, k); pl != "" {
					places[pl]++
				}
			}
			w.Emit(a, in, M{"ok": ok}, after)
		}
	}
	if err := w.Close(); err != nil {
		vtrace.Broken(err.Error())
	}
	vtrace.Stat("events", w.N)
	vtrace.Stat("traces", traces)
	vtrace.Stat("ok_calls", okCalls)
	vtrace.Stat("actions", acts)
	vtrace.Stat("unjail_places", places)
}

// recordv: histories in which the staking SC is reached the way it is in production -- wallets call the REAL validator
// SC (stake / unStake / unStakeNodes / unBond / unBondNodes / reStakeUnStakedNodes / unJail with several keys), which
// calls the staking SC through eei.ExecuteOnDestContext (where the writes of a failed inner call survive) -- mixed
// with the end-of-epoch / jailing calls.  These traces are only observed by TLC (no specification of the validator
// SC is involved): every C39 invariant is evaluated on every observed state.
func recordv(seed int64, traces, n, nkeys int, out string) {
	w, err := vtrace.NewWriter(out)
	if err != nil {
		vtrace.Broken(err.Error())
		return
	}
	rng := rand.New(rand.NewSource(seed))
	keys := allKeys[:nkeys]
	peers := []string{"none", "none", "eligible", "jailed", "bad"}
	acts := map[string]int{}
	okCalls := 0
	for t := 0; t < traces; t++ {
		own := M{}
		byOwner := map[string][]string{}
		for _, k := range keys {
			own[k] = ownOf(k)
			byOwner[ownOf(k)] = append(byOwner[ownOf(k)], k)
		}
		cmin := 1 + rng.Intn(2)
		cmax := cmin + rng.Intn(3)
		clu := rng.Intn(3) != 0
		conf := norm(M{"enable": true, "v2": true, "clu": clu, "cmin": cmin, "cmax": cmax, "ubp": rng.Intn(3) != 0, "own": own}).(map[string]interface{})
		s := newSut(conf)
		w.NewTraceWith("New", conf, M{"ok": true}, s.proj())
		some := func(o string) []string {
			ks := byOwner[o]
			m := 1 + rng.Intn(2)
			if rng.Intn(6) == 0 {
				m = len(ks)
			}
			res := []string{}
			for _, i := range rng.Perm(len(ks)) {
				if len(res) < m {
					res = append(res, ks[i])
				}
			}
			return res
		}
		for i := 0; i < n; i++ {
			o := []string{"o1", "o2"}[rng.Intn(2)]
			k := keys[rng.Intn(nkeys)]
			var a string
			var in M
			switch r := rng.Intn(100); {
			case r < 24:
				ks := some(o)
				v := len(ks) * nodePrice
				switch rng.Intn(6) {
				case 0:
					v = 0 // rely on what is already deposited
				case 1:
					v += nodePrice // top up
				}
				a, in = "VStake", M{"o": o, "ks": ks, "v": v}
			case r < 36:
				a, in = "VUnStake", M{"o": o, "ks": some(o), "v": 0}
			case r < 40:
				a, in = "VUnStakeNodes", M{"o": o, "ks": some(o), "v": 0}
			case r < 47:
				a, in = "VUnBond", M{"o": o, "ks": some(o), "v": 0}
			case r < 50:
				a, in = "VUnBondNodes", M{"o": o, "ks": some(o), "v": 0}
			case r < 55:
				a, in = "VReStake", M{"o": o, "ks": some(o), "v": 0}
			case r < 65:
				kk := byOwner[o][rng.Intn(len(byOwner[o]))]
				a, in = "UnJail", M{"k": kk, "auth": true, "via": "validator"}
			case r < 68:
				ks := some(o)
				a, in = "VUnJail", M{"o": o, "ks": ks, "v": len(ks)}
			case r < 78:
				a, in = "Switch", M{"k": k, "auth": true}
			case r < 84:
				a, in = "Jail", M{"k": k, "auth": true}
			case r < 88:
				a, in = "UnStakeEoE", M{"k": k, "auth": true}
			case r < 91:
				free := vtrace.Int(s.proj()["cfg"].(M)["max"]) - vtrace.Int(s.proj()["cfg"].(M)["staked"])
				nn := 0
				if free > 0 {
					nn = rng.Intn(free + 1)
				}
				a, in = "StakeFromQueue", M{"n": nn, "auth": true}
			case r < 93:
				a, in = "CleanQueue", M{"auth": true}
			case r < 94:
				a, in = "ResetLastUnJailed", M{"auth": true}
			case r < 96:
				a, in = "UpdateMax", M{"n": 1 + rng.Intn(5), "auth": true}
			case r < 98:
				a, in = "Elapse", M{"x": 0}
			default:
				a, in = "SetPeer", M{"k": k, "s": peers[rng.Intn(len(peers))]}
			}
			var ok bool
			if a == "UnJail" { // single key through the validator SC (value = the unJail price)
				ok = s.apply("VUnJail", M{"o": s.own[in["k"].(string)], "ks": []string{in["k"].(string)}, "v": 1})
			} else {
				ok = s.apply(a, in)
			}
			if ok {
				okCalls++
			}
			acts[a]++
			w.Emit(a, in, M{"ok": ok}, s.proj())
		}
	}
	if err := w.Close(); err != nil {
		vtrace.Broken(err.Error())
	}
	vtrace.Stat("events", w.N)
	vtrace.Stat("traces", traces)
	vtrace.Stat("ok_calls", okCalls)
	vtrace.Stat("actions", acts)
}

// demo: the shortest history with the defect, then its consequence (an element orphaned by a later removal)
func demo() {
	own := M{"a": "o1", "b": "o2", "c": "o1", "d": "o2", "e": "o1"}
	conf := norm(M{"enable": true, "v2": true, "clu": true, "cmin": 1, "cmax": 1, "ubp": false, "own": own}).(map[string]interface{})
	s := newSut(conf)
	show := func(what string, ok bool) {
		p := s.proj()
		fmt.Printf("%-28s ok=%-5v head=%v\n    el=%v\n", what, ok, p["head"], p["el"])
	}
	T := true
	show("stake a", s.apply("Stake", M{"k": "a", "auth": T, "reg": false}))
	show("stake b (queued)", s.apply("Stake", M{"k": "b", "auth": T, "reg": false}))
	show("switchJailedWithWaiting a", s.apply("Switch", M{"k": "a", "auth": T}))
	show("stake c (queued)", s.apply("Stake", M{"k": "c", "auth": T, "reg": false}))
	show("stake d (queued)", s.apply("Stake", M{"k": "d", "auth": T, "reg": false}))
	show("unJail a (front insert)", s.apply("UnJail", M{"k": "a", "auth": T}))
	show("unStake c (middle)", s.apply("UnStake", M{"k": "c", "auth": T, "rok": true}))
	p := s.proj()
	fmt.Printf("reg=%v\ncfg=%v\n", p["reg"], p["cfg"])
}

func main() {
	vtrace.Quiet()
	if len(os.Args) < 2 {
		fmt.Fprintln(os.Stderr, "usage: vh-staking replay <behaviours> <mismatch-out> | record <seed> <traces> <len> <nkeys> <out> | demo")
		os.Exit(2)
	}
	switch os.Args[1] {
	case "replay":
		replay(os.Args[2], os.Args[3])
	case "record":
		seed, _ := strconv.ParseInt(os.Args[2], 10, 64)
		traces, _ := strconv.Atoi(os.Args[3])
		n, _ := strconv.Atoi(os.Args[4])
		nk, _ := strconv.Atoi(os.Args[5])
		record(seed, traces, n, nk, os.Args[6])
	case "recordv":
		seed, _ := strconv.ParseInt(os.Args[2], 10, 64)
		traces, _ := strconv.Atoi(os.Args[3])
		n, _ := strconv.Atoi(os.Args[4])
		nk, _ := strconv.Atoi(os.Args[5])
		recordv(seed, traces, n, nk, os.Args[6])
	case "demo":
		demo()
	default:
		os.Exit(2)
	}
}
