// vh-shardcoord binds specs/ShardCoord to sharding.multiShardCoordinator (C11).
//
//	vh-shardcoord run <behaviours.ndjson> <templates.json> <seed> <n-random> <trace-out>
//
// 1. replay: every TLC-enumerated query (shard count, address = template prefix + suffix bytes; SameShard pairs;
// topic-identifier tables) is evaluated on the real coordinator and compared with the specification's answer.
// A difference is property-neutral by itself (drift); the real answer is then logged so that TLC evaluates the
// C11 predicates on it.
// 2. record: seeded random queries (random full-length addresses, all lengths 0..40, addresses one byte away
// from the metachain system-contract pattern, real system-contract addresses, random shard counts up to 2^30)
// are evaluated on the real coordinator and logged for Trace_ShardCoord.
//
// No model logic here: addresses are built from the specification's templates, expected values come from TLC,
// the C11 predicates are evaluated by TLC on the logged records.
package main

import (
	"encoding/json"
	"fmt"
	"io/ioutil"
	"math/rand"
	"os"
	"strconv"

	"github.com/ElrondNetwork/elrond-go/core"
	"github.com/ElrondNetwork/elrond-go/sharding"
	"github.com/ElrondNetwork/elrond-go/vm"
	"verif/harness/internal/vtrace"
)

type M = vtrace.M

const specMeta = 2147483647 // ShardCoord!META

var tpl map[string][]byte

func shardOut(s uint32) int {
	if s == core.MetachainShardId {
		return specMeta
	}
	return int(s)
}

func shardIn(s int) uint32 {
	if s == specMeta {
		return core.MetachainShardId
	}
	return uint32(s)
}

func mkAddr(t string, length int, suf []int) []byte {
	if length >= len(suf) {
		a := append([]byte(nil), tpl[t][:length-len(suf)]...)
		for _, b := range suf {
			a = append(a, byte(b))
		}
		return a
	}
	a := make([]byte, 0, length)
	for _, b := range suf[len(suf)-length:] {
		a = append(a, byte(b))
	}
	return a
}

func rawQuery(a []byte) M {
	s := make([]int, len(a))
	for i := range a {
		s[i] = int(a[i])
	}
	return M{"tpl": "zero", "len": len(a), "suf": s}
}

func addrOf(q map[string]interface{}) []byte {
	return mkAddr(vtrace.Str(q["tpl"]), vtrace.Int(q["len"]), vtrace.Ints(q["suf"]))
}

var coordCache = map[[2]uint32]sharding.Coordinator{}

func coord(n, self uint32) sharding.Coordinator {
	k := [2]uint32{n, self}
	if c, ok := coordCache[k]; ok {
		return c
	}
	c, err := sharding.NewMultiShardCoordinator(n, self)
	if err != nil {
		panic(fmt.Sprintf("NewMultiShardCoordinator(%d,%d): %v", n, self, err))
	}
	if len(coordCache) > 4096 {
		coordCache = map[[2]uint32]sharding.Coordinator{}
	}
	coordCache[k] = c
	return c
}

var nPanics int

// compute evaluates ComputeId on several coordinator instances (self shard 0, n-1, metachain; a fresh instance;
// a repeated call) -- a panic is reported as a violation (no shard at all).
func compute(n uint32, a []byte) (shard int, reps []int, ok bool) {
	defer func() {
		if r := recover(); r != nil {
			nPanics++
			if nPanics <= 3 {
				vtrace.Violation("C11", "C11/panic/ComputeId",
					fmt.Sprintf("ComputeId panics for numberOfShards=%d address(len %d)=%x: %v", n, len(a), a, r),
					M{"n": n, "addr": vtrace.Hex(a)})
			}
			ok = false
		}
	}()
	c0 := coord(n, 0)
	shard = shardOut(c0.ComputeId(a))
	reps = append(reps, shardOut(c0.ComputeId(append([]byte(nil), a...))))
	reps = append(reps, shardOut(coord(n, n-1).ComputeId(a)))
	reps = append(reps, shardOut(coord(n, core.MetachainShardId).ComputeId(a)))
	fresh, err := sharding.NewMultiShardCoordinator(n, 0)
	if err != nil {
		panic(err)
	}
	reps = append(reps, shardOut(fresh.ComputeId(a)))
	return shard, reps, true
}

func same(n uint32, a, b []byte) (M, bool) {
	ok := true
	var out M
	func() {
		defer func() {
			if r := recover(); r != nil {
				ok = false
				vtrace.Violation("C11", "C11/panic/SameShard", fmt.Sprintf("SameShard panics n=%d a=%x b=%x: %v", n, a, b, r), nil)
			}
		}()
		c := coord(n, 0)
		out = M{"same": c.SameShard(a, b), "sa": shardOut(c.ComputeId(a)), "sb": shardOut(c.ComputeId(b))}
	}()
	return out, ok
}

// commTable builds the table of identifiers reported by the coordinator of every shard (0..n-1, META) for every
// destination; identifiers are interned to small integers (equal strings <=> equal ids).
func commTable(n int) M {
	ids := make([]int, n+1)
	for i := 0; i < n; i++ {
		ids[i] = i
	}
	ids[n] = specMeta
	in := vtrace.NewInterner()
	tab := make([][]int, n+1)
	strs := make([][]string, n+1)
	for i := range ids {
		c := coord(uint32(n), shardIn(ids[i]))
		tab[i] = make([]int, n+1)
		strs[i] = make([]string, n+1)
		for j := range ids {
			s := c.CommunicationIdentifier(shardIn(ids[j]))
			strs[i][j] = s
			tab[i][j] = in.ID([]byte(s))
		}
	}
	return M{"ids": ids, "tab": tab, "strs": strs}
}

func eqJSON(a, b interface{}) bool {
	x, _ := json.Marshal(a)
	y, _ := json.Marshal(b)
	var u, v interface{}
	_ = json.Unmarshal(x, &u)
	_ = json.Unmarshal(y, &v)
	x, _ = json.Marshal(u)
	y, _ = json.Marshal(v)
	return string(x) == string(y)
}

func replay(path string, w *vtrace.Writer) {
	bs, err := vtrace.ReadBehaviours(path)
	if err != nil {
		vtrace.Broken(err.Error())
		return
	}
	distinct := vtrace.NewDistinct()
	nDiff, nEval, nMeta, logged := 0, 0, 0, 0
	kinds := map[string]int{}
	for bi, b := range bs {
		st := b[len(b)-1]
		q := st.In
		n := uint32(vtrace.Int(q["n"]))
		kinds[st.A]++
		switch st.A {
		case "compute":
			a := addrOf(q)
			shard, reps, ok := compute(n, a)
			if !ok {
				continue
			}
			nEval++
			exp := vtrace.Int(st.Out["shard"])
			if shard == specMeta {
				nMeta++
			}
			distinct.Add(fmt.Sprintf("%d/%s/%d/%v", n, vtrace.Str(q["tpl"]), len(a), q["suf"]))
			diff := shard != exp
			for _, r := range reps {
				if r != shard {
					diff = true
				}
			}
			// log every difference, and a sample of the agreeing ones (binding shown in both directions)
			if diff || bi%97 == 0 {
				if diff {
					nDiff++
					if nDiff <= 3 {
						vtrace.Drift("C11", fmt.Sprintf("ComputeId(n=%d, %x) = %d, specification says %d (reps %v)", n, a, shard, exp, reps), nil)
					}
				}
				if logged < 20000 {
					logged++
					qq := rawQuery(a)
					qq["k"], qq["n"] = "compute", int(n)
					w.Emit("compute", qq, M{"shard": shard, "reps": reps}, M{})
				}
			}
		case "same":
			qa, qb := q["a"].(map[string]interface{}), q["b"].(map[string]interface{})
			a, bb := addrOf(qa), addrOf(qb)
			out, ok := same(n, a, bb)
			if !ok {
				continue
			}
			nEval++
			distinct.Add(fmt.Sprintf("same/%d/%x/%x", n, a, bb))
			if !eqJSON(out, st.Out) {
				nDiff++
				if nDiff <= 3 {
					vtrace.Drift("C11", fmt.Sprintf("SameShard(n=%d, %x, %x) = %v, specification says %v", n, a, bb, out, st.Out), nil)
				}
			}
			w.Emit("same", M{"k": "same", "n": int(n), "a": rawQuery(a), "b": rawQuery(bb)}, out, M{})
		case "comm":
			out := commTable(int(n))
			nEval += (int(n) + 1) * (int(n) + 1)
			distinct.Add(fmt.Sprintf("comm/%d", n))
			if !eqJSON(out["strs"], st.Out["tab"]) {
				nDiff++
				vtrace.Drift("C11", fmt.Sprintf("CommunicationIdentifier table for %d shards differs from the specification's strings", n), nil)
			}
			w.Emit("comm", M{"k": "comm", "n": int(n)}, out, M{})
		default:
			vtrace.Broken("unknown query kind " + st.A)
			return
		}
		if st.A == "compute" && (nEval == 1 || (nMeta == 1 && vtrace.Int(st.Out["shard"]) == specMeta)) {
			vtrace.Sample("C11", M{"query": q, "spec": st.Out, "real": vtrace.Int(st.Out["shard"])})
		}
	}
	vtrace.Stat("behaviours", len(bs))
	vtrace.Stat("replay_evaluations", nEval)
	vtrace.Stat("replay_distinct", distinct.Len())
	vtrace.Stat("replay_differences", nDiff)
	vtrace.Stat("replay_meta_answers", nMeta)
	vtrace.Stat("replay_kinds", kinds)
}

func randN(rng *rand.Rand) uint32 {
	switch r := rng.Intn(100); {
	case r < 55:
		return uint32(1 + rng.Intn(64))
	case r < 70:
		return uint32(65 + rng.Intn(1024))
	case r < 85:
		p := uint32(1) << uint(1+rng.Intn(30))
		d := uint32(rng.Intn(3)) // p-1, p, p+1 clipped to the specification's domain
		n := p - 1 + d
		if n < 1 {
			n = 1
		}
		if n > 1<<30 {
			n = 1 << 30
		}
		return n
	default:
		return uint32(1 + rng.Intn(1<<30))
	}
}

var systemSC = [][]byte{vm.StakingSCAddress, vm.ValidatorSCAddress, vm.ESDTSCAddress, vm.GovernanceSCAddress,
	vm.JailingAddress, vm.EndOfEpochAddress, vm.DelegationManagerSCAddress, vm.FirstDelegationSCAddress,
	core.SystemAccountAddress}

func randAddr(rng *rand.Rand) []byte {
	length := 32
	if rng.Intn(4) == 0 {
		length = rng.Intn(41)
	}
	a := make([]byte, length)
	switch r := rng.Intn(100); {
	case r < 40: // random bytes
		rng.Read(a)
	case r < 50: // random bytes, 0xFF tail
		rng.Read(a)
		for i := len(a) - 1; i >= 0 && i >= len(a)-1-rng.Intn(4); i-- {
			a[i] = 255
		}
	case r < 60: // a real system address (possibly cut / extended)
		s := systemSC[rng.Intn(len(systemSC))]
		for i := range a {
			if i < len(s) {
				a[len(a)-1-i] = s[len(s)-1-i]
			}
		}
	default: // the metachain pattern (template "meta"), at most two random bytes changed
		copy(a, tpl["meta"])
		if len(a) >= 10 {
			a[8], a[9] = byte(rng.Intn(3)), byte(rng.Intn(6))
		}
		for k := rng.Intn(3); k > 0 && len(a) > 0; k-- {
			a[rng.Intn(len(a))] = byte(rng.Intn(256))
		}
		if rng.Intn(3) == 0 && len(a) > 0 {
			a[rng.Intn(len(a))] = 0
		}
	}
	return a
}

func record(seed int64, n int, w *vtrace.Writer) {
	rng := rand.New(rand.NewSource(seed))
	distinct := vtrace.NewDistinct()
	nc, ns, nm := 0, 0, 0
	// every address length 0..40 for a few shard counts (random + pattern content)
	for length := 0; length <= 40; length++ {
		for _, ns32 := range []uint32{1, 2, 3, 256, 257, 65537, 16777217} {
			for v := 0; v < 3; v++ {
				a := make([]byte, length)
				switch v {
				case 0:
					rng.Read(a)
				case 1:
					copy(a, tpl["meta"])
					for i := len(a) - 1; i >= 0 && i >= len(a)-4; i-- {
						a[i] = 255
					}
				default:
					for i := range a {
						a[i] = 255
					}
				}
				shard, reps, ok := compute(ns32, a)
				if !ok {
					continue
				}
				q := rawQuery(a)
				q["k"], q["n"] = "compute", int(ns32)
				w.Emit("compute", q, M{"shard": shard, "reps": reps}, M{})
				nc++
				distinct.Add(fmt.Sprintf("%d/%x", ns32, a))
			}
		}
	}
	for i := 0; i < n; i++ {
		ns32 := randN(rng)
		a := randAddr(rng)
		if rng.Intn(5) == 0 {
			b := randAddr(rng)
			switch rng.Intn(4) {
			case 0:
				b = append([]byte(nil), a...)
			case 1: // same tail, other prefix
				b = append([]byte(nil), a...)
				if len(b) > 4 {
					b[rng.Intn(len(b)-4)] ^= byte(1 + rng.Intn(255))
				}
			}
			out, ok := same(ns32, a, b)
			if ok {
				w.Emit("same", M{"k": "same", "n": int(ns32), "a": rawQuery(a), "b": rawQuery(b)}, out, M{})
				ns++
				distinct.Add(fmt.Sprintf("same/%d/%x/%x", ns32, a, b))
			}
			continue
		}
		shard, reps, ok := compute(ns32, a)
		if !ok {
			continue
		}
		if shard == specMeta {
			nm++
		}
		q := rawQuery(a)
		q["k"], q["n"] = "compute", int(ns32)
		w.Emit("compute", q, M{"shard": shard, "reps": reps}, M{})
		nc++
		distinct.Add(fmt.Sprintf("%d/%x", ns32, a))
		if i < 2 {
			vtrace.Sample("C11", M{"n": ns32, "addr": vtrace.Hex(a), "real_shard": shard})
		}
	}
	for k := 0; k < 4; k++ {
		nn := 1 + rng.Intn(40)
		w.Emit("comm", M{"k": "comm", "n": nn}, commTable(nn), M{})
		distinct.Add(fmt.Sprintf("comm/%d", nn))
	}
	vtrace.Stat("record_compute", nc)
	vtrace.Stat("record_same", ns)
	vtrace.Stat("record_meta_answers", nm)
	vtrace.Stat("record_distinct", distinct.Len())
}

func main() {
	vtrace.Quiet()
	if len(os.Args) != 7 || os.Args[1] != "run" {
		fmt.Fprintln(os.Stderr, "usage: vh-shardcoord run <behaviours.ndjson> <templates.json> <seed> <n-random> <trace-out>")
		os.Exit(2)
	}
	raw, err := ioutil.ReadFile(os.Args[3])
	if err != nil {
		vtrace.Broken(err.Error())
		return
	}
	var t map[string][]int
	if err = json.Unmarshal(raw, &t); err != nil {
		vtrace.Broken("templates: " + err.Error())
		return
	}
	tpl = map[string][]byte{}
	for k, v := range t {
		b := make([]byte, len(v))
		for i := range v {
			b[i] = byte(v[i])
		}
		tpl[k] = b
	}
	seed, _ := strconv.ParseInt(os.Args[4], 10, 64)
	n, _ := strconv.Atoi(os.Args[5])
	w, err := vtrace.NewWriter(os.Args[6])
	if err != nil {
		vtrace.Broken(err.Error())
		return
	}
	replay(os.Args[2], w)
	record(seed, n, w)
	if err := w.Close(); err != nil {
		vtrace.Broken(err.Error())
	}
	vtrace.Stat("events", w.N)
	vtrace.Stat("panics", nPanics)
}
