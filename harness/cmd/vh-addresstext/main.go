// vh-addresstext binds specs/AddressText to core/pubkeyConverter (property C48).
//
//	vh-addresstext replay <cases.ndjson> <samples per class> <samples for the canonical class>
//	vh-addresstext probe
//
// Every line is one TLC-enumerated (converter kind, configured length, abstract text class) with the verdicts computed
// by the specification (constructible, coded, required, why).  The harness builds the real converter, concretises the
// class on seeded random payloads with the bech32 library / encoding/hex (never with the converter under test, except
// Encode for the round trip), calls the real Decode (a panic is caught) and compares:
//
//	required = accept : Decode(Encode(b)) must return b                     else VIOLATION
//	required = reject : Decode(text) must fail (without panicking)          else VIOLATION
//	unspecified       : verdict compared with the model of the code         -> drift only
package main

import (
	"bytes"
	"encoding/hex"
	"fmt"
	"math/rand"
	"os"
	"strconv"
	"strings"

	"github.com/ElrondNetwork/elrond-go/core"
	"github.com/ElrondNetwork/elrond-go/core/pubkeyConverter"
	"github.com/btcsuite/btcutil/bech32"
	"verif/harness/internal/vtrace"
)

type M = vtrace.M

var prop = "C48"

const charset = "qpzry9x8gf2tvdw0s3jn54khce6mua7l"

func newConv(kind string, l int) (c core.PubkeyConverter, err error) {
	defer func() {
		if r := recover(); r != nil {
			err = fmt.Errorf("constructor panics: %v", r)
		}
	}()
	if kind == "bech32" {
		x, e := pubkeyConverter.NewBech32PubkeyConverter(l)
		if e != nil {
			return nil, e
		}
		return x, nil
	}
	x, e := pubkeyConverter.NewHexPubkeyConverter(l)
	if e != nil {
		return nil, e
	}
	return x, nil
}

func decode(c core.PubkeyConverter, s string) (b []byte, err error, panicked bool) {
	defer func() {
		if r := recover(); r != nil {
			err = fmt.Errorf("panic: %v", r)
			panicked = true
		}
	}()
	b, err = c.Decode(s)
	return
}

func encode(c core.PubkeyConverter, b []byte) (s string, panicked bool) {
	defer func() {
		if r := recover(); r != nil {
			s = fmt.Sprintf("panic: %v", r)
			panicked = true
		}
	}()
	return c.Encode(b), false
}

func upperFirstLetter(s string) string {
	for i := 0; i < len(s); i++ {
		if s[i] >= 'a' && s[i] <= 'z' {
			return s[:i] + strings.ToUpper(s[i:i+1]) + s[i+1:]
		}
	}
	return s
}

func applyCase(s, form string) string {
	switch form {
	case "upper":
		return strings.ToUpper(s)
	case "mixed":
		return upperFirstLetter(s)
	}
	return s
}

// bech32Text concretises a bech32 text class on the payload
func bech32Text(t M, payload []byte) string {
	five, err := bech32.ConvertBits(payload, 8, 5, true)
	if err != nil {
		panic(err)
	}
	if vtrace.Str(t["pad"]) == "nonzero" {
		five[len(five)-1] |= 1 // the specification only asks for it when padding bits exist
	}
	hrp := vtrace.Str(t["hrp"]) // the human-readable part is written as the specification names it ...
	if hrp == "empty" {
		hrp = "" // ... except the empty one
	}
	s, err := bech32.Encode(hrp, five)
	if err != nil {
		panic(err)
	}
	if vtrace.Str(t["cs"]) == "bad" {
		last := s[len(s)-1]
		repl := charset[(strings.IndexByte(charset, last)+1)%32]
		s = s[:len(s)-1] + string(repl)
	}
	if vtrace.Str(t["chars"]) == "bad" {
		i := len(hrp) + 1
		s = s[:i] + "b" + s[i+1:] // 'b' is not in the bech32 charset
	}
	if vtrace.Str(t["sep"]) == "missing" {
		s = s[:len(hrp)] + s[len(hrp)+1:]
	}
	return applyCase(s, vtrace.Str(t["case"]))
}

func hexText(t M, payload []byte) string {
	s := hex.EncodeToString(payload)
	if t["odd"].(bool) {
		s += "c"
	}
	if vtrace.Str(t["chars"]) == "bad" {
		s = "g" + s[1:]
	}
	s = applyCase(s, vtrace.Str(t["case"]))
	if vtrace.Str(t["pre"]) == "0x" {
		s = "0x" + s
	}
	return s
}

func payloadOf(rng *rand.Rand, n int, kind string) []byte {
	b := make([]byte, n)
	rng.Read(b)
	if kind == "hex" && n > 0 {
		b[0] = 0xab // two letters, so that a mixed-case form exists
	}
	return b
}

func replay(path string, perClass, perCanonical int) {
	bs, err := vtrace.ReadBehaviours(path)
	if err != nil {
		vtrace.Broken(err.Error())
		return
	}
	seed, _ := strconv.ParseInt(os.Getenv("VERIF_SEED"), 10, 64)
	rng := rand.New(rand.NewSource(seed*7919 + 17))
	nviol := map[string]int{}
	classes := vtrace.NewDistinct()
	specified := vtrace.NewDistinct()
	evals, drift, roundTrips, rejectsChecked, notConstructible := 0, 0, 0, 0, 0
	violation := func(sig, what string, detail M) {
		nviol[sig]++
		if nviol[sig] <= 1 {
			vtrace.Violation(prop, sig, what, detail)
		}
	}
	noteDrift := func(what string, detail M) {
		drift++
		if drift <= 2 {
			vtrace.Drift(prop, what, detail)
		}
	}
	for bi, b := range bs {
		st := b[len(b)-1]
		kind := vtrace.Str(st.In["kind"])
		l := vtrace.Int(st.In["len"])
		t := st.In["txt"].(map[string]interface{})
		required := vtrace.Str(st.Out["required"])
		coded := vtrace.Str(st.Out["coded"])
		why := vtrace.Str(st.Out["why"])
		canonical := st.Out["canonical"].(bool)
		conv, cerr := newConv(kind, l)
		if (cerr == nil) != st.Out["constructible"].(bool) {
			noteDrift(fmt.Sprintf("%s converter of length %d: constructor error %v, the model of the code says constructible=%v",
				kind, l, cerr, st.Out["constructible"]), M{"case": st})
		}
		if cerr != nil {
			notConstructible++
			continue // no converter of this configured length exists: C48 says nothing
		}
		classes.Add(fmt.Sprint(st.In))
		if required != "unspecified" {
			specified.Add(fmt.Sprint(st.In))
		}
		n := l + vtrace.Int(t["d"])
		k := perClass
		if canonical {
			k = perCanonical
		}
		for i := 0; i < k; i++ {
			payload := payloadOf(rng, n, kind)
			var text string
			if kind == "bech32" {
				text = bech32Text(t, payload)
			} else {
				text = hexText(t, payload)
			}
			evals++
			if canonical {
				// the round trip goes through the converter's own Encode
				enc, p := encode(conv, payload)
				if p {
					violation("C48/"+kind+"/encode-panics", fmt.Sprintf("%s converter(%d).Encode(%x) panics: %s", kind, l, payload, enc), M{"case": st})
					continue
				}
				if enc != text {
					noteDrift(fmt.Sprintf("%s converter(%d).Encode(%x) = %q, the library form is %q", kind, l, payload, enc, text), M{"case": st})
				}
				got, derr, _ := decode(conv, enc)
				roundTrips++
				if derr != nil || !bytes.Equal(got, payload) {
					violation("C48/"+kind+"/"+why, fmt.Sprintf("%s converter configured with length %d: Decode(Encode(%x)) = %x, %v (text %q, %d characters)",
						kind, l, payload, got, derr, enc, len(enc)), M{"case": st, "payload": hex.EncodeToString(payload), "text": enc})
				}
				continue
			}
			got, derr, panicked := decode(conv, text)
			switch required {
			case "reject":
				rejectsChecked++
				if derr == nil {
					violation("C48/"+kind+"/accepted/"+why, fmt.Sprintf("%s converter configured with length %d ACCEPTS %q (class %v: %s) and returns %x",
						kind, l, text, t, why, got), M{"case": st, "text": text})
				} else if panicked {
					violation("C48/"+kind+"/panic/"+why, fmt.Sprintf("%s converter configured with length %d panics on %q (class %v): %v",
						kind, l, text, t, derr), M{"case": st, "text": text})
				}
			default:
				if (derr == nil) != (coded == "accept") || (derr == nil && !bytes.Equal(got, payload)) {
					noteDrift(fmt.Sprintf("%s converter(%d).Decode(%q) = %x, %v; the model of the code says %s (class %v)", kind, l, text, got, derr, coded, t),
						M{"case": st})
				}
			}
		}
		if bi%1499 == 11 {
			vtrace.Sample(prop, M{"in": st.In, "out": st.Out})
		}
	}
	nv := 0
	for sig, n := range nviol {
		nv += n
		vtrace.Stat("n:"+sig, n)
	}
	vtrace.Stat("cases", len(bs))
	vtrace.Stat("evaluations", evals)
	vtrace.Stat("classes", classes.Len())
	vtrace.Stat("specified_classes", specified.Len())
	vtrace.Stat("round_trips", roundTrips)
	vtrace.Stat("rejects_checked", rejectsChecked)
	vtrace.Stat("not_constructible", notConstructible)
	vtrace.Stat("violating", nv)
	vtrace.Stat("drift", drift)
}

// probe: does the present code have the named deviation "bip173" (a bech32 converter of length 52 can be constructed)?
func probe() {
	_, err := newConv("bech32", 52)
	if err == nil {
		vtrace.Stat("defects", "bip173")
	} else {
		vtrace.Stat("defects", "")
	}
}

func main() {
	vtrace.Quiet()
	if os.Getenv("VERIF_SELFTEST") != "" {
		prop = "selftest-C48"
	}
	if len(os.Args) == 2 && os.Args[1] == "probe" {
		probe()
		return
	}
	if len(os.Args) < 5 || os.Args[1] != "replay" {
		fmt.Fprintln(os.Stderr, "usage: vh-addresstext replay <cases.ndjson> <per class> <per canonical class> | probe")
		os.Exit(2)
	}
	a, _ := strconv.Atoi(os.Args[3])
	b, _ := strconv.Atoi(os.Args[4])
	replay(os.Args[2], a, b)
}
