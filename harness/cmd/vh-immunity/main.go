// vh-immunity binds specs/ImmunityCache to storage/immunitycache.ImmunityCache (and, for growth, to
// storage/txcache.CrossTxCache which embeds it).
//
//	vh-immunity replay <behaviours.ndjson> <mismatch-trace-out.ndjson>
//	    TLC behaviours -> real cache; result + projected state compared with the specification's prediction
//	    after every step.  A step that matches a predicted state on which the specification itself evaluated
//	    a C27 predicate to FALSE (field `bad`, computed by TLA+) is a violation.  Behaviours on which the real
//	    cache differs from the prediction are re-recorded as a trace for TLC (observation mode decides).
//	vh-immunity record <seed> <traces> <len> <out.ndjson>
//	    seeded random histories on the real cache (real keys, hash-chosen chunks) -> trace for Trace_ImmunityCache
package main

import (
	"bufio"
	"encoding/json"
	"fmt"
	"io"
	"math/rand"
	"os"
	"sort"
	"strconv"

	"github.com/ElrondNetwork/elrond-go/data/transaction"
	"github.com/ElrondNetwork/elrond-go/storage/immunitycache"
	"github.com/ElrondNetwork/elrond-go/storage/txcache"
	"verif/harness/internal/vtrace"
)

type M = vtrace.M

// cacheAPI is what both ImmunityCache and CrossTxCache offer (CrossTxCache through the embedded cache).
type cacheAPI interface {
	HasOrAdd(key []byte, value interface{}, sizeInBytes int) (has, added bool)
	ImmunizeKeys(keys [][]byte) (numNowTotal, numFutureTotal int)
	RemoveWithResult(key []byte) bool
	Get(key []byte) (interface{}, bool)
	Peek(key []byte) (interface{}, bool)
	Has(key []byte) bool
	Clear()
	Count() int
	NumBytes() int
	CountImmune() int
	Len() int
	Keys() [][]byte
	VerifNumChunks() int
	VerifChunkIndex(key []byte) uint32
	VerifChunkState(i int) immunitycache.VerifChunkState
}

type sut struct {
	c     cacheAPI
	kind  string
	nc    int
	keys  map[[2]int]string // (chunk 1-based, idx) -> real key
	rev   map[string][2]int
	next  []int // R3: next idx per chunk
	probe int
}

func newSut(kind string, nc, mi, mb, ev int) (*sut, bool) {
	s := &sut{kind: kind, nc: nc, keys: map[[2]int]string{}, rev: map[string][2]int{}}
	if kind == "cross" {
		c, err := txcache.NewCrossTxCache(txcache.ConfigDestinationMe{Name: "x", NumChunks: uint32(nc), MaxNumItems: uint32(mi),
			MaxNumBytes: uint32(mb), NumItemsToPreemptivelyEvict: uint32(ev)})
		if err != nil {
			return s, false
		}
		s.c = c
	} else {
		c, err := immunitycache.NewImmunityCache(immunitycache.CacheConfig{Name: "x", NumChunks: uint32(nc), MaxNumItems: uint32(mi),
			MaxNumBytes: uint32(mb), NumItemsToPreemptivelyEvict: uint32(ev)})
		if err != nil {
			return s, false
		}
		s.c = c
	}
	s.next = make([]int, nc+1)
	return s, true
}

// keyFor returns a real key that the real hash puts into chunk c (1-based) and that stands for index i there.
func (s *sut) keyFor(c, i int) string {
	if k, ok := s.keys[[2]int{c, i}]; ok {
		return k
	}
	for {
		k := fmt.Sprintf("key-%d", s.probe)
		s.probe++
		if _, used := s.rev[k]; used {
			continue
		}
		if int(s.c.VerifChunkIndex([]byte(k)))+1 == c {
			s.keys[[2]int{c, i}] = k
			s.rev[k] = [2]int{c, i}
			return k
		}
	}
}

// intern gives a real key (any string) its abstract name (chunk, next free index in that chunk).
func (s *sut) intern(k string) [2]int {
	if ci, ok := s.rev[k]; ok {
		return ci
	}
	c := int(s.c.VerifChunkIndex([]byte(k))) + 1
	s.next[c]++
	ci := [2]int{c, s.next[c]}
	s.rev[k] = ci
	s.keys[ci] = k
	return ci
}

func (s *sut) chunkCfg() M {
	st := s.c.VerifChunkState(0)
	return M{"mi": int(st.MaxNumItems), "mb": int(st.MaxNumBytes), "ev": int(st.NumToEvictStep)}
}

// proj is the abstraction function: real cache -> the specification's projected state (Proj in the TLA+ module).
func (s *sut) proj() M {
	if s.c == nil {
		return M{"ch": []interface{}{}, "cnt": 0, "nb": 0, "ci": 0}
	}
	chs := make([]interface{}, 0, s.nc)
	for x := 0; x < s.c.VerifNumChunks(); x++ {
		st := s.c.VerifChunkState(x)
		items := make([]interface{}, 0, len(st.Keys))
		flag := []int{}
		for j, k := range st.Keys {
			ci := s.intern(k)
			items = append(items, M{"i": ci[1], "z": st.Sizes[j]})
			if st.Flagged[j] {
				flag = append(flag, ci[1])
			}
		}
		imm := []int{}
		for _, k := range st.ImmuneKeys {
			imm = append(imm, s.intern(k)[1])
		}
		sort.Ints(flag)
		sort.Ints(imm)
		chs = append(chs, M{"items": items, "imm": imm, "flag": flag, "nb": st.NumBytes, "nmap": st.NumMapItems})
	}
	return M{"ch": chs, "cnt": s.c.Count(), "nb": s.c.NumBytes(), "ci": s.c.CountImmune()}
}

func keyOf(v interface{}) (int, int) {
	m := v.(map[string]interface{})
	return vtrace.Int(m["c"]), vtrace.Int(m["i"])
}

// apply executes one step on the real cache and returns its observable result.
func (s *sut) apply(a string, in M) M {
	switch a {
	case "Add":
		c, i := keyOf(in["k"])
		k := s.keyFor(c, i)
		if s.kind == "cross" { // the wrapper's own entry point; values must be wrapped transactions
			tx := &txcache.WrappedTransaction{Tx: &transaction.Transaction{Nonce: uint64(i)}, TxHash: []byte(k), Size: int64(vtrace.Int(in["z"]))}
			has, added := s.c.(*txcache.CrossTxCache).AddTx(tx)
			return M{"has": has, "added": added}
		}
		has, added := s.c.HasOrAdd([]byte(k), "v-"+k, vtrace.Int(in["z"]))
		return M{"has": has, "added": added}
	case "Immunize":
		var keys [][]byte
		for _, kv := range in["ks"].([]interface{}) {
			c, i := keyOf(kv)
			keys = append(keys, []byte(s.keyFor(c, i)))
		}
		now, fut := s.c.ImmunizeKeys(keys)
		return M{"now": now, "fut": fut}
	case "Remove":
		c, i := keyOf(in["k"])
		if s.kind == "cross" {
			return M{"ok": s.c.(*txcache.CrossTxCache).RemoveTxByHash([]byte(s.keyFor(c, i)))}
		}
		return M{"ok": s.c.RemoveWithResult([]byte(s.keyFor(c, i)))}
	case "Get":
		c, i := keyOf(in["k"])
		k := []byte(s.keyFor(c, i))
		v, ok := s.c.Get(k)
		_, ok2 := s.c.Peek(k)
		ok3 := s.c.Has(k)
		if ok && s.kind != "cross" && v != "v-"+string(k) {
			return M{"ok": ok, "peek": ok2, "has": ok3, "wrongvalue": true}
		}
		return M{"ok": ok, "peek": ok2, "has": ok3}
	case "Clear":
		s.c.Clear()
		return M{"x": 0}
	}
	panic("unknown action " + a)
}

// canon renders a JSON-like value with sets (imm, flag, ks) sorted, so that prediction and observation compare textually.
func canon(v interface{}) string {
	b, _ := json.Marshal(norm(v, ""))
	return string(b)
}

func norm(v interface{}, field string) interface{} {
	switch x := v.(type) {
	case map[string]interface{}:
		r := M{}
		for k, e := range x {
			if k == "nmap" {
				continue
			}
			r[k] = norm(e, k)
		}
		return r
	case []interface{}:
		r := make([]interface{}, len(x))
		for i := range x {
			r[i] = norm(x[i], "")
		}
		if field == "imm" || field == "flag" {
			sort.Slice(r, func(a, b int) bool { return vtrace.Int(r[a]) < vtrace.Int(r[b]) })
		}
		return r
	case []int:
		r := make([]interface{}, len(x))
		for i := range x {
			r[i] = x[i]
		}
		return r
	case float64:
		return int(x)
	}
	return v
}

func outMatches(pred, got M, a string) bool {
	if a == "Get" {
		p := pred["ok"]
		return got["ok"] == p && got["peek"] == p && got["has"] == p && got["wrongvalue"] == nil
	}
	for k, g := range got {
		p, ok := pred[k]
		if !ok || canon(p) != canon(g) {
			return false
		}
	}
	return true
}

// stateMatches compares the predicted projection with the observed one.  The specification lists the chunks that can
// hold keys of its bounded key set; the cache-level counters cover the others (they must be empty for the sums to agree).
func stateMatches(pred, obs M) bool {
	pc := pred["ch"].([]interface{})
	oc := obs["ch"].([]interface{})
	if len(oc) < len(pc) {
		return false
	}
	o2 := M{"ch": oc[:len(pc)], "cnt": obs["cnt"], "nb": obs["nb"], "ci": obs["ci"]}
	return canon(pred) == canon(o2)
}

// logOut is the result as written into a trace (one fixed field set per action)
func logOut(a string, got M) M {
	if a == "Get" {
		return M{"ok": got["ok"]}
	}
	return got
}

func ccIn(cc M, set interface{}) bool {
	for _, e := range set.([]interface{}) {
		if canon(e) == canon(cc) {
			return true
		}
	}
	return false
}

// mapConsistent: the chunk's map and list agree (cheap sanity of the projection itself)
func (s *sut) mapConsistent() bool {
	for x := 0; x < s.c.VerifNumChunks(); x++ {
		st := s.c.VerifChunkState(x)
		if st.NumMapItems != len(st.Keys) {
			return false
		}
	}
	return true
}

// step is one record of a TLC behaviour; Bad lists the C27 predicates the specification evaluated to FALSE
// on that step of its own behaviour.
type step struct {
	A   string   `json:"a"`
	In  M        `json:"in"`
	Out M        `json:"out"`
	St  M        `json:"st"`
	Bad []string `json:"bad"`
}

// forEachBehaviour streams an ndjson behaviour file (one JSON array of step records per line).
func forEachBehaviour(path string, f func(bi int, b []step)) error {
	fh, err := os.Open(path)
	if err != nil {
		return err
	}
	defer fh.Close()
	r := bufio.NewReaderSize(fh, 1<<20)
	for bi := 0; ; {
		line, err := r.ReadBytes('\n')
		if len(line) > 1 {
			var b []step
			if e := json.Unmarshal(line, &b); e != nil {
				return fmt.Errorf("behaviour line %d: %v", bi+1, e)
			}
			f(bi, b)
			bi++
		}
		if err == io.EOF {
			return nil
		}
		if err != nil {
			return err
		}
	}
}

func replay(path, mismatchOut string) {
	mw, err := vtrace.NewWriter(mismatchOut)
	if err != nil {
		vtrace.Broken(err.Error())
		return
	}
	distinct := vtrace.NewDistinct()
	steps, skipped, mismatched, followed, nviol, longKept := 0, 0, 0, 0, 0, 0
	reported := map[string]int{}
	samples, nb := 0, 0
	err = forEachBehaviour(path, func(bi int, b []step) {
		nb++
		for _, kind := range []string{"immunity", "cross"} {
			if kind == "cross" && bi%4 != 0 {
				continue // growth: the CrossTxCache wrapper gets every 4th behaviour
			}
			newRec := b[0]
			in := newRec.In
			s, ok := newSut(kind, vtrace.Int(in["nc"]), vtrace.Int(in["mi"]), vtrace.Int(in["mb"]), vtrace.Int(in["ev"]))
			type ev struct {
				a       string
				in, out M
				st      M
			}
			var log []ev
			bad := false
			if ok != newRec.Out["ok"].(bool) {
				bad = true
			}
			newOut := M{"ok": ok}
			if ok {
				cc := s.chunkCfg()
				newOut["cc"] = cc
				if canon(cc) != canon(newRec.Out["cc"]) {
					if ccIn(cc, newRec.Out["ccs"]) {
						skipped++ // the other variant of the specification describes this tree; its behaviours are replayed instead
						continue
					}
					bad = true
				}
			}
			log = append(log, ev{"New", in, newOut, s.proj()})
			if ok {
				for si := 1; si < len(b); si++ {
					st := b[si]
					got := s.apply(st.A, st.In)
					steps++
					_, slim := st.St["x"] // transition-cover export keeps the full state only in the last record
					var obs M
					if !slim || bad {
						obs = s.proj()
					}
					log = append(log, ev{st.A, st.In, logOut(st.A, got), obs})
					if bad {
						continue // keep driving the inputs; TLC judges the recorded trace
					}
					if !outMatches(st.Out, got, st.A) || (!slim && (!stateMatches(st.St, obs) || !s.mapConsistent())) {
						bad = true
						continue
					}
				}
			}
			if bad {
				mismatched++
				// keep the first few and then prefer longer behaviours (a defect usually needs a few steps to show)
				if mismatched <= 15 || (len(b) >= 6 && longKept < 60) {
					if mismatched > 15 {
						longKept++
					}
					// re-run the inputs on a fresh cache, recording the projected state after every step
					s2, _ := newSut(kind, vtrace.Int(in["nc"]), vtrace.Int(in["mi"]), vtrace.Int(in["mb"]), vtrace.Int(in["ev"]))
					log = log[:1]
					if ok {
						for si := 1; si < len(b); si++ {
							got := s2.apply(b[si].A, b[si].In)
							log = append(log, ev{b[si].A, b[si].In, logOut(b[si].A, got), s2.proj()})
						}
					}
					for i, e := range log {
						if i == 0 {
							mw.NewTraceWith(e.a, e.in, e.out, e.st)
						} else {
							mw.Emit(e.a, e.in, e.out, e.st)
						}
					}
				}
				continue
			}
			followed++
			// the real cache followed the specification step by step: every C27 predicate the specification
			// evaluated to FALSE on its own (identical) states is FALSE on the real cache
			for si := 1; si < len(b); si++ {
				for _, name := range b[si].Bad {
					sig := "C27/" + name
					reported[sig]++
					nviol++
					if reported[sig] == 1 {
						vtrace.Violation("C27", sig,
							fmt.Sprintf("%s cache, config %v: step %d (%s %v) -> result %v: %s is false on the real cache (state %s)",
								kind, in, si, b[si].A, b[si].In, b[si].Out, name, canon(b[si].St)),
							M{"behaviour": b, "step": si, "kind": kind})
					}
				}
			}
		}
		if len(b) > 1 {
			last := b[len(b)-1]
			distinct.Add(canon(last.St) + last.A + canon(last.In) + canon(b[0].In) + canon(b[0].Out["cc"]))
		}
		if samples < 3 && len(b) >= 4 {
			samples++
			vtrace.Sample("C27", b)
		}
	})
	if err != nil {
		vtrace.Broken(err.Error())
	}
	if err := mw.Close(); err != nil {
		vtrace.Broken(err.Error())
	}
	vtrace.Stat("behaviours", nb)
	vtrace.Stat("followed", followed)
	vtrace.Stat("skipped_other_variant", skipped)
	vtrace.Stat("mismatched", mismatched)
	vtrace.Stat("mismatch_events", mw.N)
	vtrace.Stat("steps", steps)
	vtrace.Stat("distinct_transitions", distinct.Len())
	vtrace.Stat("violations", nviol)
	for sig, n := range reported {
		vtrace.Stat("viol:"+sig, n)
	}
}

func record(seed int64, traces, n int, out string) {
	w, err := vtrace.NewWriter(out)
	if err != nil {
		vtrace.Broken(err.Error())
		return
	}
	rng := rand.New(rand.NewSource(seed))
	ncs := []int{1, 2, 3, 4, 5, 8, 16}
	distinct := vtrace.NewDistinct()
	for t := 0; t < traces; t++ {
		nc := ncs[rng.Intn(len(ncs))]
		mi := 4 + rng.Intn(28)
		mb := 4 + rng.Intn(400)
		ev := 1 + rng.Intn(2*nc+2)
		if t%7 == 3 { // limits that do not divide / are below the chunk count
			mi = 4 + rng.Intn(nc+2)
			ev = 1 + rng.Intn(nc)
		}
		if t%11 == 5 {
			mb = 4 + rng.Intn(2*nc)
		}
		if t == 0 { // the configuration of DESIGN.md section 5
			nc, mi, mb, ev = 16, 100, 100000, 1
		}
		kind := "immunity"
		if t%5 == 4 {
			kind = "cross"
		}
		s, ok := newSut(kind, nc, mi, mb, ev)
		if !ok {
			vtrace.Broken(fmt.Sprintf("config %d/%d/%d/%d rejected", nc, mi, mb, ev))
			return
		}
		distinct.Add(fmt.Sprint(nc, mi/nc, mb/nc, ev/nc))
		w.NewTraceWith("New", M{"nc": nc, "mi": mi, "mb": mb, "ev": ev}, M{"ok": true, "cc": s.chunkCfg()}, s.proj())
		universe := 2*mi + 8
		length := n
		addPct := 58
		if t == 0 { // enough additions to fill the 16 chunks and then keep adding
			addPct = 85
			if length < 160 {
				length = 160
			}
		}
		maxz := 1 + rng.Intn(2*mb/nc+6)
		for i := 0; i < length; i++ {
			k := fmt.Sprintf("tx-%d-%d", t, rng.Intn(universe))
			ci := s.intern(k)
			kin := M{"c": ci[0], "i": ci[1]}
			var a string
			var in M
			switch r := rng.Intn(100); {
			case r < addPct:
				a, in = "Add", M{"k": kin, "z": rng.Intn(maxz)}
			case r < addPct+10:
				a = "Immunize"
				seen := map[string]bool{k: true}
				ks := []interface{}{kin}
				for j := rng.Intn(3); j > 0; j-- {
					k2 := fmt.Sprintf("tx-%d-%d", t, rng.Intn(universe))
					if seen[k2] {
						continue
					}
					seen[k2] = true
					c2 := s.intern(k2)
					ks = append(ks, M{"c": c2[0], "i": c2[1]})
				}
				in = M{"ks": ks}
			case r < addPct+22:
				a, in = "Remove", M{"k": kin}
			case r < 99:
				a, in = "Get", M{"k": kin}
			default:
				a, in = "Clear", M{"x": 0}
			}
			got := s.apply(a, in)
			if a == "Get" {
				if got["peek"] != got["ok"] || got["has"] != got["ok"] || got["wrongvalue"] != nil {
					vtrace.Drift("C27", fmt.Sprintf("Get/Peek/Has disagree on key %s: %v", k, got), nil)
				}
				got = M{"ok": got["ok"]}
			}
			w.Emit(a, in, got, s.proj())
		}
	}
	if err := w.Close(); err != nil {
		vtrace.Broken(err.Error())
	}
	vtrace.Stat("events", w.N)
	vtrace.Stat("traces", traces)
	vtrace.Stat("distinct_chunk_configs", distinct.Len())
}

func main() {
	vtrace.Quiet()
	if len(os.Args) < 2 {
		fmt.Fprintln(os.Stderr, "usage: vh-immunity replay <behaviours> <mismatch-out> | record <seed> <traces> <len> <out>")
		os.Exit(2)
	}
	switch os.Args[1] {
	case "replay":
		replay(os.Args[2], os.Args[3])
	case "record":
		seed, _ := strconv.ParseInt(os.Args[2], 10, 64)
		traces, _ := strconv.Atoi(os.Args[3])
		n, _ := strconv.Atoi(os.Args[4])
		record(seed, traces, n, os.Args[5])
	default:
		os.Exit(2)
	}
}
