// vh-bodysize binds specs/BodySize (property C33) to the real
// process/block/preprocess.blockSizeComputation (calibration by the real protobuf marshalizer, counters,
// IsMaxBlockSizeReached / IsMaxBlockSizeWithoutThrottleReached / MaxTransactionsInOneMiniblock), the real
// block.Body codec and the real network send limit (p2p/libp2p checkSendableData via the verif exporter).
//
//	vh-bodysize config                         print the real configuration: BlockSizeThrottleConfig of
//	                                           cmd/node/config/config.toml and the messenger's send limit
//	vh-bodysize replay <behaviours.ndjson>     TLC behaviours (New, Add...) -> real estimator + real marshalled body
//	vh-bodysize record <seed> <traces> <out>   random proposer loops on the real estimator -> trace for Trace_BodySize
//	vh-bodysize throttle-replay <file> / throttle-record <seed> <traces> <len> <out>   the same for specs/BodySize/Throttle.tla
//	                                           and the real process/throttle.blockSizeThrottle (see throttle.go)
//
// No model logic here: counts (incl. the boundary fill counts), predicted answers and sizes come from TLA+; the
// property itself (estimator said "fits" and the marshalled body is not sendable) is evaluated on real numbers by
// the real checkSendableData and again by TLC on the logged records.
package main

import (
	"errors"
	"fmt"
	"math/rand"
	"os"
	"path/filepath"
	"runtime"
	"strconv"
	"sync"

	"github.com/ElrondNetwork/elrond-go/config"
	"github.com/ElrondNetwork/elrond-go/core"
	"github.com/ElrondNetwork/elrond-go/data/block"
	"github.com/ElrondNetwork/elrond-go/marshal"
	"github.com/ElrondNetwork/elrond-go/p2p"
	"github.com/ElrondNetwork/elrond-go/p2p/libp2p"
	"github.com/ElrondNetwork/elrond-go/process/block/preprocess"
	"github.com/ElrondNetwork/elrond-go/process/mock"
	"verif/harness/internal/vtrace"
)

type M = vtrace.M

const prop = "C33"

var marsh = &marshal.GogoProtoMarshalizer{}

func must(err error) {
	if err != nil {
		vtrace.Broken("harness: " + err.Error())
		panic(err)
	}
}

func repoDir() string {
	if d := os.Getenv("VERIF_REPO"); d != "" {
		return d
	}
	return "/repo"
}

func realConfig() (minSize, maxSize uint32, netLimit int) {
	cfg := &config.Config{}
	must(core.LoadTomlFile(cfg, filepath.Join(repoDir(), "cmd/node/config/config.toml")))
	return cfg.BlockSizeThrottleConfig.MinSizeInBytes, cfg.BlockSizeThrottleConfig.MaxSizeInBytes, libp2p.MaxSendBuffSizeVerif()
}

// estimator is the real blockSizeComputation (its interface as used by the preprocessors)
type estimator interface {
	Init()
	AddNumMiniBlocks(int)
	AddNumTxs(int)
	IsMaxBlockSizeReached(int, int) bool
	IsMaxBlockSizeWithoutThrottleReached(int, int) bool
	MaxTransactionsInOneMiniblock() int
}

func newEstimator(maxSize, curMax uint32) estimator {
	thr := &mock.BlockSizeThrottlerStub{GetCurrentMaxSizeCalled: func() uint32 { return curMax }}
	bsc, err := preprocess.NewBlockSizeComputation(marsh, thr, maxSize)
	must(err)
	bsc.Init()
	return bsc
}

var hashPool [][]byte

func txHash(i, hashLen int) []byte {
	for len(hashPool) <= i%64 {
		h := make([]byte, 64)
		for k := range h {
			h[k] = byte(len(hashPool)*31 + k*7 + 1)
		}
		hashPool = append(hashPool, h)
	}
	return hashPool[i%64][:hashLen]
}

// appendGroup adds count real miniblocks with ntx hashes each (ids are the int32 views used by the specification)
func appendGroup(body *block.Body, count, ntx, snd, rcv, typ, hashLen, reserved int) {
	hashes := make([][]byte, ntx)
	for i := range hashes {
		hashes[i] = txHash(i, hashLen)
	}
	var res []byte
	if reserved > 0 {
		res = make([]byte, reserved)
	}
	for c := 0; c < count; c++ {
		body.MiniBlocks = append(body.MiniBlocks, &block.MiniBlock{
			TxHashes:        hashes,
			ReceiverShardID: uint32(int32(rcv)),
			SenderShardID:   uint32(int32(snd)),
			Type:            block.Type(typ),
			Reserved:        res,
		})
	}
}

func realFits(e estimator, throttled bool, count, ntx int) bool {
	if throttled {
		return !e.IsMaxBlockSizeReached(count, count*ntx)
	}
	return !e.IsMaxBlockSizeWithoutThrottleReached(count, count*ntx)
}

// sendable asks the real messenger check whether a buffer of that size may be sent
func sendable(buff []byte) bool {
	err := libp2p.CheckSendableDataVerif(buff)
	return !errors.Is(err, p2p.ErrMessageTooLarge)
}

func workers() int {
	w, _ := strconv.Atoi(os.Getenv("VERIF_WORKERS"))
	if w <= 0 {
		w = runtime.NumCPU()
	}
	if w > 8 {
		w = 8
	}
	return w
}

type outcome struct {
	skipped    bool // behaviour generated for a calibration the real code does not have
	steps      int
	fitsSteps  int
	drift      string
	vioSig     string
	vioWhat    string
	vioDetail  M
	sample     M
	distinctKs []string
	maxBody    int
}

func replayOne(b []vtrace.Step, realNet int, useMaxTxs int) (o outcome) {
	if len(b) == 0 || b[0].A != "New" {
		o.drift = "behaviour does not start with New"
		return
	}
	c := b[0].In
	hashLen := vtrace.Int(c["hashLen"])
	e := newEstimator(uint32(vtrace.Int(c["maxSize"])), uint32(vtrace.Int(c["curMax"])))
	if vtrace.Int(b[0].Out["maxTxs"]) != useMaxTxs {
		o.skipped = true
		return
	}
	body := &block.Body{}
	for i := 1; i < len(b); i++ {
		st := b[i]
		o.steps++
		switch st.A {
		case "Reset":
			e.Init()
			body = &block.Body{}
			continue
		case "Add":
		default:
			o.drift = "unknown action " + st.A
			return
		}
		thr := st.In["throttled"].(bool)
		count, ntx := vtrace.Int(st.In["count"]), vtrace.Int(st.In["ntx"])
		snd, rcv, typ := vtrace.Int(st.In["snd"]), vtrace.Int(st.In["rcv"]), vtrace.Int(st.In["type"])
		fits := realFits(e, thr, count, ntx)
		want := st.Out["fits"].(bool)
		if fits {
			o.fitsSteps++
			appendGroup(body, count, ntx, snd, rcv, typ, hashLen, vtrace.Int(st.In["reserved"]))
			e.AddNumMiniBlocks(count)
			e.AddNumTxs(count * ntx)
			buff, err := marsh.Marshal(body)
			must(err)
			if len(buff) > o.maxBody {
				o.maxBody = len(buff)
			}
			o.distinctKs = append(o.distinctKs, fmt.Sprintf("%v|%d|%d|%d|%d|%d|%d", thr, len(body.MiniBlocks), count, ntx, snd, rcv, typ))
			// the property, on real numbers: the estimator let it in, the real messenger must be able to send it
			if !sendable(buff) && o.vioSig == "" {
				cls := "unclassified"
				if fits == want && len(buff) == vtrace.Int(st.St["size"]) {
					cls = vtrace.Str(st.St["cls"])
				}
				o.vioSig = "C33/estimate-fits-body-exceeds-network-limit/" + cls
				o.vioWhat = fmt.Sprintf("blockSizeComputation said %d miniblock(s) x %d tx hash(es) (sender %d, receiver %d, type %d; int32 view of "+
					"the shard ids) still fit (throttled=%v, %d miniblocks in the body), but the marshalled block.Body is %d bytes > network "+
					"send limit %d", count, ntx, snd, rcv, typ, thr, len(body.MiniBlocks), len(buff), realNet)
				o.vioDetail = M{"behaviour": b[:i+1], "real_body_bytes": len(buff), "real_net_limit": realNet,
					"real_miniblocks": len(body.MiniBlocks), "spec_state": st.St}
			}
			if fits == want && len(buff) != vtrace.Int(st.St["size"]) && o.drift == "" {
				o.drift = fmt.Sprintf("size model differs from the codec: real marshalled body %d bytes, specification %d, after %v", len(buff),
					vtrace.Int(st.St["size"]), st.In)
			}
			if o.sample == nil && len(buff) > 900000 {
				o.sample = M{"add": st.In, "real_fits": fits, "real_body_bytes": len(buff), "spec_size": st.St["size"], "net_limit": realNet}
			}
		}
		if fits != want {
			if o.drift == "" {
				o.drift = fmt.Sprintf("estimator answer differs: real fits=%v, specification fits=%v for %v (state %v)", fits, want, st.In, b[i-1].St)
			}
			return // the real run has left the specification's behaviour
		}
	}
	return
}

func replay(path string) {
	behs, err := vtrace.ReadBehaviours(path)
	must(err)
	_, _, realNet := realConfig()
	// the calibration dummy is not observable; MaxTransactionsInOneMiniblock() tells which modelled calibration the real
	// code has. Behaviours generated for the other calibration are skipped. If none matches, the first behaviour's
	// calibration is used anyway: predictions then drift, but the property is still decided on the real numbers.
	useMaxTxs, matched := 0, false
	if len(behs) > 0 && len(behs[0]) > 0 {
		c := behs[0][0].In
		realMaxTxs := newEstimator(uint32(vtrace.Int(c["maxSize"])), uint32(vtrace.Int(c["curMax"]))).MaxTransactionsInOneMiniblock()
		useMaxTxs = vtrace.Int(behs[0][0].Out["maxTxs"])
		for _, b := range behs {
			if len(b) > 0 && vtrace.Int(b[0].Out["maxTxs"]) == realMaxTxs {
				useMaxTxs, matched = realMaxTxs, true
				break
			}
		}
	}
	outs := make([]outcome, len(behs))
	var wg sync.WaitGroup
	ch := make(chan int, 256)
	for w := 0; w < workers(); w++ {
		wg.Add(1)
		go func() {
			defer wg.Done()
			for i := range ch {
				outs[i] = replayOne(behs[i], realNet, useMaxTxs)
			}
		}()
	}
	for i := range behs {
		ch <- i
	}
	close(ch)
	wg.Wait()
	distinct := vtrace.NewDistinct()
	vio := map[string]int{}
	var used, skipped, steps, fitsSteps, drifts, samples, maxBody int
	for _, o := range outs {
		if o.skipped {
			skipped++
			continue
		}
		used++
		steps += o.steps
		fitsSteps += o.fitsSteps
		if o.maxBody > maxBody {
			maxBody = o.maxBody
		}
		for _, k := range o.distinctKs {
			distinct.Add(k)
		}
		if o.vioSig != "" {
			vio[o.vioSig]++
			if vio[o.vioSig] == 1 {
				vtrace.Violation(prop, o.vioSig, o.vioWhat, o.vioDetail)
			}
		}
		if o.drift != "" {
			drifts++
			if drifts <= 3 {
				vtrace.Drift(prop, o.drift, nil)
			}
		}
		if o.sample != nil && samples < 3 {
			samples++
			vtrace.Sample(prop, o.sample)
		}
	}
	if !matched && len(behs) > 0 {
		vtrace.Drift(prop, "the real calibration (MaxTransactionsInOneMiniblock) matches none of the modelled calibrations", nil)
	}
	if samples == 0 && len(behs) > 0 {
		vtrace.Sample(prop, M{"behaviour": behs[len(behs)-1]})
	}
	vtrace.Stat("behaviours", used)
	vtrace.Stat("behaviours_other_calibration", skipped)
	vtrace.Stat("steps", steps)
	vtrace.Stat("accepted_additions", fitsSteps)
	vtrace.Stat("distinct", distinct.Len())
	vtrace.Stat("max_real_body_bytes", maxBody)
	vtrace.Stat("violating_behaviours", vio)
	vtrace.Stat("drift_behaviours", drifts)
}

// ---- R3: seeded random proposer loops on the real estimator

func record(seed int64, traces int, out string) {
	r := rand.New(rand.NewSource(seed))
	w, err := vtrace.NewWriter(out)
	must(err)
	minSize, maxSize, netLimit := realConfig()
	ids := []int{0, 0, 1, 2, 3, 100, 127, 128, 999, 1000, 16383, 16384, 20000, -1, -1, -16}
	types := []int{0, 0, 0, 30, 60, 90, 120, 150, 255}
	ntxs := []int{0, 0, 1, 1, 2, 3, 4, 10, 100, 481, 482, 483, 1000}
	for t := 0; t < traces; t++ {
		curMax := maxSize
		if r.Intn(2) == 0 {
			curMax = minSize + uint32(r.Intn(int(maxSize-minSize)+1))
		}
		e := newEstimator(maxSize, curMax)
		w.NewTraceWith("New", M{"maxSize": int(maxSize), "curMax": int(curMax), "netLimit": netLimit, "hashLen": 32},
			M{"maxTxs": e.MaxTransactionsInOneMiniblock()}, M{"numMb": 0, "numTx": 0, "size": 0})
		body := &block.Body{}
		numMb, numTx := 0, 0
		mode := r.Intn(3) // 0: any shapes, 1: only shapes the calibration dummy covers, 2: many small miniblocks
		for s := 0; s < 3+r.Intn(8); s++ {
			thr := r.Intn(3) == 0
			ntx := ntxs[r.Intn(len(ntxs))]
			snd, rcv, typ := ids[r.Intn(len(ids))], ids[r.Intn(len(ids))], types[r.Intn(len(types))]
			if mode == 1 {
				snd, rcv, typ = ids[r.Intn(11)], ids[r.Intn(11)], 0
			}
			if mode == 2 {
				ntx = r.Intn(3)
			}
			if r.Intn(12) == 0 {
				ntx = e.MaxTransactionsInOneMiniblock() - r.Intn(3)
			}
			count := 1 + r.Intn(3000)
			if ntx > 1000 {
				count = 1
			}
			switch r.Intn(4) {
			case 0:
				count = 1 + r.Intn(5)
			case 1:
				// the largest count the real estimator still lets in, by bisection on its own answers (+0/+1)
				lo, hi := 0, 200000
				if ntx > 0 && hi*ntx > 30000000 {
					hi = 30000000 / ntx
				}
				for lo < hi {
					mid := (lo + hi + 1) / 2
					if realFits(e, thr, mid, ntx) {
						lo = mid
					} else {
						hi = mid - 1
					}
				}
				count = lo + r.Intn(2)
				if count == 0 {
					count = 1
				}
			}
			if count*ntx > 30000000 {
				continue
			}
			fits := realFits(e, thr, count, ntx)
			if fits {
				appendGroup(body, count, ntx, snd, rcv, typ, 32, 0)
				e.AddNumMiniBlocks(count)
				e.AddNumTxs(count * ntx)
				numMb += count
				numTx += count * ntx
			}
			buff, err := marsh.Marshal(body)
			must(err)
			w.Emit("Add", M{"throttled": thr, "count": count, "ntx": ntx, "snd": snd, "rcv": rcv, "type": typ, "reserved": 0},
				M{"fits": fits, "sendable": len(buff) == 0 || sendable(buff)}, M{"numMb": numMb, "numTx": numTx, "size": len(buff)})
			if r.Intn(10) == 0 {
				e.Init()
				body = &block.Body{}
				numMb, numTx = 0, 0
				w.Emit("Reset", M{"x": 0}, M{"x": 0}, M{"numMb": 0, "numTx": 0, "size": 0})
			}
		}
	}
	// concurrency stage (see concurrent.go): appended to the same trace
	crounds := traces / 3
	if crounds < 30 {
		crounds = 30
	}
	_, cv := recordConcurrent(w, r, crounds)
	must(w.Close())
	vtrace.Stat("events", w.N)
	vtrace.Stat("traces", traces+crounds)
	vtrace.Stat("concurrent_rounds", crounds)
	vtrace.Stat("concurrent_violating_rounds", cv)
}

func main() {
	vtrace.Quiet()
	if len(os.Args) >= 2 && os.Args[1] == "config" {
		minSize, maxSize, net := realConfig()
		vtrace.Stat("minSize", minSize)
		vtrace.Stat("maxSize", maxSize)
		vtrace.Stat("netLimit", net)
		return
	}
	if len(os.Args) >= 3 && os.Args[1] == "replay" {
		replay(os.Args[2])
		return
	}
	if len(os.Args) >= 5 && os.Args[1] == "record" {
		seed, _ := strconv.ParseInt(os.Args[2], 10, 64)
		n, _ := strconv.Atoi(os.Args[3])
		record(seed, n, os.Args[4])
		return
	}
	if len(os.Args) >= 3 && os.Args[1] == "throttle-replay" {
		throttleReplay(os.Args[2])
		return
	}
	if len(os.Args) >= 6 && os.Args[1] == "throttle-record" {
		seed, _ := strconv.ParseInt(os.Args[2], 10, 64)
		n, _ := strconv.Atoi(os.Args[3])
		l, _ := strconv.Atoi(os.Args[4])
		throttleRecord(seed, n, l, os.Args[5])
		return
	}
	fmt.Fprintln(os.Stderr, "usage: vh-bodysize config | replay <file> | record <seed> <traces> <out>")
	os.Exit(2)
}
