package main

// Binding of specs/BodySize/Throttle.tla to the real process/throttle.blockSizeThrottle (the limit used by
// IsMaxBlockSizeReached): C33 assumes minSize <= GetCurrentMaxSize() <= maxSize.

import (
	"fmt"
	"math/rand"

	"github.com/ElrondNetwork/elrond-go/process/throttle"
	"verif/harness/internal/vtrace"
)

type realThrottle interface {
	GetCurrentMaxSize() uint32
	Add(round uint64, size uint32)
	Succeed(round uint64)
	ComputeCurrentMaxSize()
}

func newThrottle(min, max int) realThrottle {
	t, err := throttle.NewBlockSizeThrottle(uint32(min), uint32(max))
	must(err)
	return t
}

func throttleReplay(path string) {
	behs, err := vtrace.ReadBehaviours(path)
	must(err)
	distinct := vtrace.NewDistinct()
	steps, vio, drift := 0, 0, 0
	for _, b := range behs {
		if len(b) == 0 || b[0].A != "New" {
			continue
		}
		min, max := vtrace.Int(b[0].In["min"]), vtrace.Int(b[0].In["max"])
		t := newThrottle(min, max)
		key := fmt.Sprintf("%d/%d", min, max)
		for i := 1; i < len(b); i++ {
			st := b[i]
			steps++
			switch st.A {
			case "Add":
				t.Add(uint64(vtrace.Int(st.In["round"])), uint32(vtrace.Int(st.In["size"])))
			case "Succeed":
				t.Succeed(uint64(vtrace.Int(st.In["round"])))
			case "Compute":
				t.ComputeCurrentMaxSize()
			}
			key += fmt.Sprintf("|%s%v", st.A, st.In["round"])
			got := int(t.GetCurrentMaxSize())
			// what C33 relies on, evaluated on the real object
			if (got < min || got > max) && vio == 0 {
				vio++
				vtrace.Violation(prop, "C33/throttle/current-max-out-of-bounds", fmt.Sprintf(
					"blockSizeThrottle.GetCurrentMaxSize() = %d outside [minSize %d, maxSize %d]: IsMaxBlockSizeReached would use a limit above the configured maximum",
					got, min, max), M{"behaviour": b[:i+1]})
			}
			if got != vtrace.Int(st.Out["cur"]) {
				drift++
				if drift <= 3 {
					vtrace.Drift(prop, fmt.Sprintf("blockSizeThrottle: real current max %d, specification %d after %s (behaviour %s)", got,
						vtrace.Int(st.Out["cur"]), st.A, key), nil)
				}
				break
			}
		}
		distinct.Add(key)
	}
	vtrace.Stat("behaviours", len(behs))
	vtrace.Stat("steps", steps)
	vtrace.Stat("distinct", distinct.Len())
	vtrace.Stat("drift_behaviours", drift)
}

// throttleRecord drives the real throttle through long random histories (more than maxNumOfStatistics entries, so the
// trimming of the statistics is exercised) and logs every call with the resulting current max size.
func throttleRecord(seed int64, traces, length int, out string) {
	r := rand.New(rand.NewSource(seed))
	w, err := vtrace.NewWriter(out)
	must(err)
	for t := 0; t < traces; t++ {
		min := 1 + r.Intn(200000)
		max := min + r.Intn(900000)
		th := newThrottle(min, max)
		w.NewTraceWith("New", M{"min": min, "max": max}, M{"cur": int(th.GetCurrentMaxSize())}, M{})
		round := 0
		n := length
		if t == 0 {
			n = 700 + length // one long trace crosses the 600-entry trimming
		}
		for s := 0; s < n; s++ {
			switch k := r.Intn(10); {
			case k < 4:
				round++
				if r.Intn(8) == 0 {
					round-- // same round twice
				}
				sz := r.Intn(1000000)
				th.Add(uint64(round), uint32(sz))
				w.Emit("Add", M{"round": round, "size": sz}, M{"cur": int(th.GetCurrentMaxSize())}, M{})
			case k < 7:
				rd := round - r.Intn(3)
				if rd < 0 {
					rd = 0
				}
				th.Succeed(uint64(rd))
				w.Emit("Succeed", M{"round": rd}, M{"cur": int(th.GetCurrentMaxSize())}, M{})
			default:
				th.ComputeCurrentMaxSize()
				w.Emit("Compute", M{"x": 0}, M{"cur": int(th.GetCurrentMaxSize())}, M{})
			}
		}
	}
	must(w.Close())
	vtrace.Stat("events", w.N)
	vtrace.Stat("traces", traces)
}
