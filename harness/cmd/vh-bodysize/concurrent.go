package main

// Concurrency stage for C33: AddNumMiniBlocks / AddNumTxs are documented "concurrent safe" (atomic increments). G
// goroutines behind a spin barrier account miniblocks in many small increments on the REAL blockSizeComputation; the
// proposer's final IsMaxBlockSize[WithoutThrottle]Reached(0, 0) is then asked, the real body of everything that was
// accounted is marshalled and the real send limit decides the property. The events are appended to the trace that
// Trace_BodySize validates: the specification computes the counters as the (order-independent) SUM of the increments
// and predicts the answer and the `fill` probe from it.

import (
	"fmt"
	"math/rand"
	"runtime"
	"sync"
	"sync/atomic"

	"github.com/ElrondNetwork/elrond-go/data/block"
	"verif/harness/internal/vtrace"
)

const concGoroutines = 8

// accountConcurrently: goroutine g accounts groups[g].count miniblocks with groups[g].ntx hashes, one call per unit
func accountConcurrently(e estimator, groups [][2]int) {
	var wg sync.WaitGroup
	ready := int32(0)
	n := int32(len(groups))
	wg.Add(len(groups))
	for g := range groups {
		go func(count, ntx int) {
			defer wg.Done()
			// spin barrier: all goroutines really run at the same time
			atomic.AddInt32(&ready, 1)
			for atomic.LoadInt32(&ready) < n {
			}
			for mb := 0; mb < count; mb++ {
				e.AddNumMiniBlocks(1)
				for tx := 0; tx < ntx; tx++ {
					e.AddNumTxs(1)
				}
			}
		}(groups[g][0], groups[g][1])
	}
	wg.Wait()
}

// fillProbe: the largest number of further EMPTY miniblocks the real estimator still lets in (its own answers only)
func fillProbe(e estimator, throttled bool) int {
	lo, hi := 0, 400000
	for lo < hi {
		mid := (lo + hi + 1) / 2
		if realFits(e, throttled, mid, 0) {
			lo = mid
		} else {
			hi = mid - 1
		}
	}
	return lo
}

func recordConcurrent(w *vtrace.Writer, r *rand.Rand, rounds int) (lostRounds, vios int) {
	if runtime.GOMAXPROCS(0) < concGoroutines {
		runtime.GOMAXPROCS(concGoroutines)
	}
	minSize, maxSize, netLimit := realConfig()
	for round := 0; round < rounds; round++ {
		curMax := maxSize
		if round%3 == 2 {
			curMax = minSize + uint32(r.Intn(int(maxSize-minSize)+1))
		}
		e := newEstimator(maxSize, curMax)
		w.NewTraceWith("New", M{"maxSize": int(maxSize), "curMax": int(curMax), "netLimit": netLimit, "hashLen": 32},
			M{"maxTxs": e.MaxTransactionsInOneMiniblock()}, M{"numMb": 0, "numTx": 0, "size": 0})
		// shape the calibration dummy covers; totals: two rounds out of three a little ABOVE the send limit (a correct
		// estimator must answer "reached"), else comfortably below the maximum (it must answer "not reached")
		ntx := []int{1000, 1000, 500, 250, 100}[r.Intn(5)]
		perMb := 9 + 34*ntx
		target := netLimit + 2000 + r.Intn(60000)
		if round%3 == 1 {
			target = int(maxSize) / 2
		}
		totalMb := target/perMb + 1
		groups := make([][2]int, concGoroutines)
		var grec []M
		numMb, numTx := 0, 0
		for g := range groups {
			c := totalMb / concGoroutines
			if g < totalMb%concGoroutines {
				c++
			}
			groups[g] = [2]int{c, ntx}
			grec = append(grec, M{"count": c, "ntx": ntx})
			numMb += c
			numTx += c * ntx
		}
		accountConcurrently(e, groups)
		w.Emit("Accumulate", M{"groups": grec, "snd": 999, "rcv": 999, "type": 0}, M{"x": 0}, M{"numMb": numMb, "numTx": numTx, "size": 0})
		// the real body of everything that was accounted
		body := &block.Body{}
		for _, g := range groups {
			appendGroup(body, g[0], g[1], 999, 999, 0, 32, 0)
		}
		buff, err := marsh.Marshal(body)
		must(err)
		accepted := 0
		for _, thr := range []bool{false, true} {
			reached := !realFits(e, thr, 0, 0)
			fill := fillProbe(e, thr)
			if !reached && accepted == 0 {
				accepted = len(buff)
				// the property on real numbers: the estimator says the accumulated body fits; can it be sent?
				if !sendable(buff) {
					vios++
					if vios == 1 {
						vtrace.Violation(prop, "C33/estimate-fits-body-exceeds-network-limit/concurrent-accounting", fmt.Sprintf(
							"%d goroutines accounted %d miniblocks / %d tx hashes concurrently (AddNumMiniBlocks(1) / AddNumTxs(1) per unit); "+
								"IsMaxBlockSize%sReached(0, 0) then answered false (= the accumulated body fits in %d bytes) although "+
								"the marshalled block.Body of what was accounted has %d bytes > network send limit %d: updates of the "+
								"concurrent-safe counters were lost", concGoroutines, numMb, numTx, map[bool]string{false: "WithoutThrottle", true: ""}[thr],
							curMax, len(buff), netLimit), M{"groups": grec, "real_body_bytes": len(buff), "fill_probe": fill})
					}
				}
			}
			w.Emit("Ask", M{"throttled": thr}, M{"reached": reached, "fill": fill}, M{"numMb": numMb, "numTx": numTx, "size": accepted})
		}
	}
	return
}
