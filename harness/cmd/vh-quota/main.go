// vh-quota binds specs/Quota to process/throttle/antiflood/floodPreventers.quotaFloodPreventer.
//
//	vh-quota replay <behaviours.ndjson> <trace-out> [every]   TLC behaviours (New / IncreaseLoad / Reset / Apply) are executed on the
//	                                                   real preventer (real LRU cacher, recording status handler); every
//	                                                   result is compared with the specification's prediction (drift) and
//	                                                   the run is logged with the OBSERVED results for Trace_Quota, which
//	                                                   evaluates the C42 invariants on the observed accounting
//	vh-quota record <seed> <traces> <len> <trace-out>   random histories with real-scale numbers
//	vh-quota concurrent <seed> <rounds> <trace-out>     8 goroutines hammer IncreaseLoad after each Reset; per-window totals
package main

import (
	"encoding/json"
	"fmt"
	"math/rand"
	"os"
	"sort"
	"strconv"
	"sync"

	"github.com/ElrondNetwork/elrond-go/core"
	"github.com/ElrondNetwork/elrond-go/process"
	"github.com/ElrondNetwork/elrond-go/process/mock"
	"github.com/ElrondNetwork/elrond-go/process/throttle/antiflood/floodPreventers"
	"github.com/ElrondNetwork/elrond-go/storage/lrucache"
	"verif/harness/internal/vtrace"
)

type M = vtrace.M

const prop = "C42"

type cfgT struct{ base, maxSize, prT, thr, fQ int }

func cfgOf(m map[string]interface{}) cfgT {
	return cfgT{vtrace.Int(m["base"]), vtrace.Int(m["maxSize"]), vtrace.Int(m["prT"]), vtrace.Int(m["thr"]), vtrace.Int(m["fQ"])}
}

func (c cfgT) m() M {
	return M{"base": c.base, "maxSize": c.maxSize, "prT": c.prT, "thr": c.thr, "fQ": c.fQ}
}

type sut struct {
	fp    process.FloodPreventer
	stats [][]int
	reset int
}

func pidOf(p int) core.PeerID { return core.PeerID(fmt.Sprintf("peer-%04d", p)) }

func peerNo(pid core.PeerID) int {
	n, _ := strconv.Atoi(string(pid)[5:])
	return n
}

// newSut builds the real preventer. The cacher is a real LRU with room for 1000 peers (assumption: no eviction of
// quota entries by unrelated peers).
func newSut(c cfgT) (*sut, bool) {
	s := &sut{}
	cache, err := lrucache.NewCache(1000)
	if err != nil {
		panic(err)
	}
	h := &mock.QuotaStatusHandlerStub{
		ResetStatisticsCalled: func() { s.reset++ },
		AddQuotaCalled: func(pid core.PeerID, nr uint32, sr uint64, np uint32, sp uint64) {
			s.stats = append(s.stats, []int{peerNo(pid), int(nr), int(sr), int(np), int(sp)})
		},
	}
	arg := floodPreventers.ArgQuotaFloodPreventer{
		Name:                      "verif",
		Cacher:                    cache,
		StatusHandlers:            []floodPreventers.QuotaStatusHandler{h},
		BaseMaxNumMessagesPerPeer: uint32(c.base),
		MaxTotalSizePerPeer:       uint64(c.maxSize),
		PercentReserved:           float32(c.prT) / 10,
		IncreaseThreshold:         uint32(c.thr),
		IncreaseFactor:            float32(c.fQ) / 4,
	}
	if c.base < 0 || c.maxSize < 0 || c.thr < 0 {
		panic("negative unsigned configuration value")
	}
	fp, err := floodPreventers.NewQuotaFloodPreventer(arg)
	if err != nil {
		return nil, false
	}
	s.fp = fp
	return s, true
}

func (s *sut) increase(p, size int) bool { return s.fp.IncreaseLoad(pidOf(p), uint64(size)) == nil }

func (s *sut) doReset() [][]int {
	s.stats = [][]int{}
	s.fp.Reset()
	sort.Slice(s.stats, func(i, j int) bool { return s.stats[i][0] < s.stats[j][0] })
	return s.stats
}

func (s *sut) apply(n int) { s.fp.ApplyConsensusSize(n) }

type event struct {
	a       string
	in, out M
}

type runner struct {
	buf      []event
	logged   int
	w        *vtrace.Writer
	dist     *vtrace.Distinct
	beh      int
	steps    int
	match    int
	differ   int
	drifts   int
	samples  int
	diverged int
}

func eqStats(a [][]int, v interface{}) bool {
	b, _ := v.([]interface{})
	if len(a) != len(b) {
		return false
	}
	for i := range a {
		if !vtrace.EqInts(a[i], vtrace.Ints(b[i])) {
			return false
		}
	}
	return true
}

func (r *runner) drift(what string) {
	r.differ++
	if r.drifts < 3 {
		r.drifts++
		vtrace.Drift(prop, what, nil)
	}
}

// flush writes the buffered events of one behaviour as one trace
func (r *runner) flush() {
	for i, e := range r.buf {
		if i == 0 {
			r.w.NewTraceWith(e.a, e.in, e.out, M{})
		} else {
			r.w.Emit(e.a, e.in, e.out, M{})
		}
	}
	r.logged++
	r.buf = r.buf[:0]
}

func (r *runner) ev(a string, in, out M) { r.buf = append(r.buf, event{a, in, out}) }

// behaviour replays one TLC behaviour. The observed run is handed to TLC (Trace_Quota) when it differs anywhere from
// the prediction (always, up to 3000 runs) and for every `every`-th behaviour (binding sample): a run that equals the
// prediction step by step IS a behaviour of the specification, whose states R1 has checked exhaustively.
func (r *runner) behaviour(b []vtrace.Step, every int) {
	if len(b) == 0 || b[0].A != "New" {
		vtrace.Broken("behaviour does not start with New")
		os.Exit(1)
	}
	r.buf = r.buf[:0]
	differ0 := r.differ
	c := cfgOf(b[0].In["cfg"].(map[string]interface{}))
	s, ok := newSut(c)
	r.ev("New", M{"cfg": c.m()}, M{"ok": ok})
	r.beh++
	if want, _ := b[0].Out["ok"].(bool); want != ok {
		r.drift(fmt.Sprintf("NewQuotaFloodPreventer(%+v) accepted=%v, specification says %v", c, ok, want))
	}
	key := fmt.Sprint(c)
	if ok {
		for _, st := range b[1:] {
			r.steps++
			switch st.A {
			case "IncreaseLoad":
				p, size := vtrace.Int(st.In["p"]), vtrace.Int(st.In["s"])
				got := s.increase(p, size)
				r.ev("IncreaseLoad", M{"p": p, "s": size}, M{"ok": got})
				if want, _ := st.Out["ok"].(bool); want != got {
					r.drift(fmt.Sprintf("config %+v: IncreaseLoad(peer %d, %d bytes) accepted=%v, specification predicts %v (history: %s)", c, p, size, got, want, key))
				} else {
					r.match++
				}
				key += fmt.Sprintf(" L%d:%d", p, size)
			case "Reset":
				stats := s.doReset()
				r.ev("Reset", M{"x": 0}, M{"stats": stats})
				if !eqStats(stats, st.Out["stats"]) {
					r.drift(fmt.Sprintf("config %+v: Reset reported %v to the status handler, specification predicts %v", c, stats, st.Out["stats"]))
				} else {
					r.match++
				}
				key += " R"
			case "Apply":
				n := vtrace.Int(st.In["n"])
				s.apply(n)
				r.ev("Apply", M{"n": n}, M{"x": 0})
				key += fmt.Sprintf(" A%d", n)
			default:
				vtrace.Broken("unknown action " + st.A)
				os.Exit(1)
			}
		}
	}
	if len(b) >= 3 {
		r.dist.Add(key)
	}
	if (r.differ > differ0 && r.diverged < 3000) || r.beh%every == 0 {
		if r.differ > differ0 {
			r.diverged++
		}
		r.flush()
	}
	if r.samples < 3 && len(b) >= 5 && r.beh%501 == 0 {
		r.samples++
		vtrace.Sample(prop, M{"behaviour": b})
	}
}

func (r *runner) finish() {
	if err := r.w.Close(); err != nil {
		panic(err)
	}
	vtrace.Stat("behaviours", r.beh)
	vtrace.Stat("steps", r.steps)
	vtrace.Stat("events", r.w.N)
	vtrace.Stat("distinct", r.dist.Len())
	vtrace.Stat("results_equal_prediction", r.match)
	vtrace.Stat("results_differ", r.differ)
	vtrace.Stat("runs_logged", r.logged)
	vtrace.Stat("runs_diverged", r.diverged)
}

func newRunner(out string) *runner {
	w, err := vtrace.NewWriter(out)
	if err != nil {
		panic(err)
	}
	return &runner{w: w, dist: vtrace.NewDistinct()}
}

func replay(path, out string, every int) {
	lines, err := vtrace.ReadLines(path)
	if err != nil {
		vtrace.Broken(err.Error())
		os.Exit(1)
	}
	r := newRunner(out)
	for _, ln := range lines {
		var b []vtrace.Step
		if e := json.Unmarshal(ln, &b); e != nil {
			vtrace.Broken(fmt.Sprintf("bad behaviour: %v", e))
			os.Exit(1)
		}
		r.behaviour(b, every)
	}
	r.finish()
}

// record: random histories, real-scale numbers (quota up to 60 messages / 4000 bytes, 6 peers)
func record(seed int64, traces, length int, out string) {
	rnd := rand.New(rand.NewSource(seed))
	r := newRunner(out)
	prs := []int{0, 5, 100, 125, 200, 333, 500, 750, 900}
	for t := 0; t < traces; t++ {
		c := cfgT{base: 1 + rnd.Intn(40), maxSize: 1 + rnd.Intn(4000), prT: prs[rnd.Intn(len(prs))], thr: rnd.Intn(12), fQ: rnd.Intn(9)}
		if rnd.Intn(5) == 0 {
			c.base = 1 + rnd.Intn(3)
		}
		s, ok := newSut(c)
		r.w.NewTraceWith("New", M{"cfg": c.m()}, M{"ok": ok}, M{})
		r.beh++
		if !ok {
			continue
		}
		npeers := 1 + rnd.Intn(6)
		maxMsg := 1 + rnd.Intn(2*c.maxSize/(c.base+1)+2)
		key := fmt.Sprint(c)
		for i := 0; i < length; i++ {
			r.steps++
			switch x := rnd.Intn(40); {
			case x == 0:
				r.w.Emit("Reset", M{"x": 0}, M{"stats": s.doReset()}, M{})
			case x == 1:
				n := rnd.Intn(24)
				s.apply(n)
				r.w.Emit("Apply", M{"n": n}, M{"x": 0}, M{})
			default:
				p := 1 + rnd.Intn(npeers)
				if rnd.Intn(3) == 0 {
					p = 1 // one heavy sender
				}
				size := rnd.Intn(maxMsg + 1)
				if rnd.Intn(6) == 0 {
					size = rnd.Intn(2*c.maxSize + 2)
				}
				r.w.Emit("IncreaseLoad", M{"p": p, "s": size}, M{"ok": s.increase(p, size)}, M{})
			}
		}
		r.dist.Add(key + fmt.Sprint(t))
	}
	r.finish()
}

// concurrent: G goroutines behind a start barrier call IncreaseLoad for the same few peers right after a Reset; per
// reset window and peer the accepted messages / bytes are totalled and logged ("Window") for Trace_Quota (observation
// config), which evaluates the C42 bounds on them. Nothing here depends on timing for soundness: whatever the
// interleaving, a correct preventer keeps the totals within the bounds.
func concurrent(seed int64, rounds int, out string) {
	const G = 8
	rnd := rand.New(rand.NewSource(seed))
	w, err := vtrace.NewWriter(out)
	if err != nil {
		panic(err)
	}
	windows, calls, over := 0, 0, 0
	type res struct {
		p, size int
		ok      bool
	}
	for cfgNo := 0; cfgNo < 6; cfgNo++ {
		c := cfgT{base: 1 + rnd.Intn(3), maxSize: 1000 + rnd.Intn(3000), prT: []int{0, 0, 500}[rnd.Intn(3)], thr: 2, fQ: 4}
		if cfgNo%2 == 1 {
			c.maxSize = 3 + rnd.Intn(6) // byte quota is the binding one
			c.base = 6
		}
		s, ok := newSut(c)
		w.NewTraceWith("New", M{"cfg": c.m()}, M{"ok": ok}, M{})
		if !ok {
			panic("configuration rejected")
		}
		for r := 0; r < rounds/6; r++ {
			if rnd.Intn(8) == 0 {
				n := rnd.Intn(5)
				s.apply(n)
				w.Emit("Apply", M{"n": n}, M{"x": 0}, M{})
			}
			w.Emit("Reset", M{"x": 0}, M{"stats": s.doReset()}, M{})
			npeers := 1 + rnd.Intn(2)
			per := 1 + rnd.Intn(3)
			size := 1 + rnd.Intn(3)
			mixed := rnd.Intn(3) == 0
			plan := make([][]res, G)
			for g := range plan {
				for k := 0; k < per; k++ {
					sz := size
					if mixed {
						sz = 1 + rnd.Intn(4)
					}
					plan[g] = append(plan[g], res{p: 1 + rnd.Intn(npeers), size: sz})
				}
			}
			var ready, done sync.WaitGroup
			start := make(chan struct{})
			ready.Add(G)
			done.Add(G)
			for g := 0; g < G; g++ {
				go func(my []res) {
					ready.Done()
					<-start
					for i := range my {
						my[i].ok = s.increase(my[i].p, my[i].size)
					}
					done.Done()
				}(plan[g])
			}
			ready.Wait()
			close(start)
			done.Wait()
			calls += G * per
			for p := 1; p <= npeers; p++ {
				n, bytes, first := 0, 0, 0
				for g := range plan {
					for _, x := range plan[g] {
						if x.p == p && x.ok {
							n++
							bytes += x.size
							if x.size > first {
								first = x.size
							}
						}
					}
				}
				windows++
				if n > 1 {
					over++
				}
				w.Emit("Window", M{"p": p}, M{"n": n, "bytes": bytes, "first": first}, M{})
			}
		}
	}
	if err := w.Close(); err != nil {
		panic(err)
	}
	vtrace.Stat("windows", windows)
	vtrace.Stat("calls", calls)
	vtrace.Stat("windows_with_more_than_one_accepted", over)
	vtrace.Stat("events", w.N)
	vtrace.Stat("goroutines", G)
}

func main() {
	vtrace.Quiet()
	if len(os.Args) < 2 {
		os.Exit(2)
	}
	switch os.Args[1] {
	case "replay":
		every := 1
		if len(os.Args) > 4 {
			every, _ = strconv.Atoi(os.Args[4])
		}
		if every < 1 {
			every = 1
		}
		replay(os.Args[2], os.Args[3], every)
	case "concurrent":
		seed, _ := strconv.ParseInt(os.Args[2], 10, 64)
		n, _ := strconv.Atoi(os.Args[3])
		concurrent(seed, n, os.Args[4])
	case "record":
		seed, _ := strconv.ParseInt(os.Args[2], 10, 64)
		nt, _ := strconv.Atoi(os.Args[3])
		ln, _ := strconv.Atoi(os.Args[4])
		record(seed, nt, ln, os.Args[5])
	default:
		os.Exit(2)
	}
}
